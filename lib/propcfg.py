# Per-property configuration of ./check: harness sub-command, Props files, trusted base notes.
FIELD_TB = ["section hypothesis field_theory (theorems hold for every field; the executable instance is Z mod p, Base/Zp.v)"]

PROPS = {
    "C06": {
        "cmd": "c06",
        "timeout": 900,
        "trusted_base": FIELD_TB + ["hint functions are an oracle (recorded outputs of the real hint functions are replayed)",
                                    "modelled: solveR1C, sparse blueprints Solve, solveWithHint, level order, final count check, evaluateLROSmallDomain; not modelled: lookup/GKR blueprints (C13/C19), logging"],
        "assumptions": ["goroutine scheduling inside a level is observed (nbTasks sweep), not modelled"],
    },
}
