# Per-property configuration of ./check: harness sub-command, Props files, trusted base notes.
FIELD_TB = ["section hypothesis field_theory (theorems hold for every field; the executable instance is Z mod p, Base/Zp.v)"]

PROPS = {
    "C10": {
        "cmd": "c10",
        "timeout": 900,
        "trusted_base": ["the Go scheduler and memory model below the modelled atomic steps (Reset / blueprint Solve / append) are not modelled; free-running goroutine runs are observations",
                         "the lookup blueprint is driven through its exported Reset/Solve methods by stub solvers (harness/c10.go), sequentially, following seeded interleavings"],
        "assumptions": ["data races below the modelled steps would need the race detector (not part of the quick check)"],
    },
    "C11": {
        "cmd": "c11",
        "timeout": 900,
        "translators": ["{root}/bin/xlate nondet {repo} {gen}/cases_C11_sites.v"],
        "trusted_base": ["tools/xlate (go/packages + go/types): lists map ranges, go statements, selects, sync.Pool, clock and randomness uses with a hash of each loop body",
                         "Det/Sites.v: the review that assigns each listed site its order-independence argument (the classification itself is a reviewed judgement; the arguments are theorems)",
                         "third-party packages reached from std gadgets are covered by the differential runs only"],
        "assumptions": ["the Go compiler and runtime are deterministic apart from map iteration order and scheduling"],
    },
    "C08": {
        "cmd": "c08",
        "timeout": 1200,
        "trusted_base": ["verdicts of gnark-crypto routines (subgroup tests, Pedersen / KZG batch verification, pairing) are oracle bits of the shape model",
                         "gnark-crypto point decoders are modelled at the framing level only (witness decoder byte-exact)",
                         "byte-level decoding runs in a child process under ulimit -v; a killed child is the class 'crash'"],
        "assumptions": ["verifying keys come from Setup (committed indices refer to public inputs)"],
    },
    "C09": {
        "cmd": "c09",
        "timeout": 900,
        "trusted_base": ["CBOR body, intcomp-compressed sections and gnark-crypto point / key codecs are external: opaque byte strings in the model, round trip exercised differentially",
                         "modelled and proved: container header and section slicing, calldata uvarints, coefficient table, fixed-width words, byte counts"],
        "assumptions": ["behavioural equality of decoded objects is observed on sampled systems, keys and proofs (cross-verification), not proved"],
    },
    "C07": {
        "cmd": "c07",
        "timeout": 600,
        "trusted_base": ["Go's reflect package and encoding/json are not modelled (reflect.StructOf builds the generated circuit types)",
                         "tag strings are parsed by the harness generator with the rules read in frontend/schema/tags.go; the model works on parsed tags",
                         "JSON round trip is differential only (static types)"],
        "assumptions": ["circuit and assignment have the same shape (same slice lengths)"],
    },
    "C04": {
        "cmd": "c04",
        "timeout": 1200,
        "props": ["C04.v"],
        "trusted_base": FIELD_TB + ["the documented meaning of each API call is transcribed by hand in Frontend/Spec.v (Coq) and harness/prog.go (Go)",
                                    "gadget relation lemmas (Frontend/Gadgets.v, LeqCst.v) are about the constraint patterns read in api.go; the emitted constraints themselves are decided by the C05 enumerator"],
        "assumptions": ["programs are sampled; option sweep: constants vs variables, operand order, compress threshold {2,3,300}, 5 scalar fields, both builders"],
    },
    "C05": {
        "cmd": "c05",
        "timeout": 1200,
        "trusted_base": FIELD_TB + ["F_47 instance: field_theory proved (Base/F47.v), enumerator complete and sound (CS/Enum.v)",
                                    "the documented meaning of each API call is transcribed by hand in Frontend/Spec.v (Coq) and harness/prog.go (Go); both are compared on every tuple",
                                    "raw hints (NewHint) are opaque: their outputs are unconstrained by definition and are excluded"],
        "assumptions": ["exhaustive over F_47 only for programs with at most 2 inputs; larger programs and larger fields are sampled"],
    },
    "C06": {
        "cmd": "c06",
        "timeout": 900,
        "trusted_base": FIELD_TB + ["hint functions are an oracle (recorded outputs of the real hint functions are replayed)",
                                    "modelled: solveR1C, sparse blueprints Solve, solveWithHint, level order, final count check, evaluateLROSmallDomain; not modelled: lookup/GKR blueprints (C13/C19), logging"],
        "assumptions": ["goroutine scheduling inside a level is observed (nbTasks sweep), not modelled"],
    },
}
