(* C13 correspondence: Gallina decomposition, width selection and range relations on observed hint calls *)
From Coq Require Import ZArith List Bool.
From GnarkV Require Import CS.SolverZp Std.Emulated Std.RangeCheck.
Import ListNotations.
Local Open Scope Z_scope.

(* (varSize, limbSize, value, limbs returned by DecomposeHint) *)
Definition dec_check (c : Z * Z * Z * list Z) : bool :=
  let '(n, b, v, ls) := c in
  zlist_eqb (decompose b (Z.to_nat (decomp_size n b)) v) ls.
Fixpoint dec_mismatches (k : nat) (cs : list (Z * Z * Z * list Z)) : list nat :=
  match cs with [] => [] | c :: cs' => if dec_check c then dec_mismatches (S k) cs' else k :: dec_mismatches (S k) cs' end.

(* (backend: 0 R1CS, 1 SCS; collected widths; limb width used by the real checker) *)
Definition width_check (c : nat * list Z * Z) : bool :=
  let '(kind, collected, b) := c in
  optimal_width (match kind with O => nb_r1cs_constraints | _ => nb_plonk_constraints end) collected =? b.
Fixpoint width_mismatches (k : nat) (cs : list (nat * list Z * Z)) : list nat :=
  match cs with [] => [] | c :: cs' => if width_check c then width_mismatches (S k) cs' else k :: width_mismatches (S k) cs' end.

(* boolean reading of range_relations; on honest decompositions it must say exactly v < 2^n *)
Definition range_relations_b (r b n : Z) (ls : list Z) (v : Z) : bool :=
  let k := Z.of_nat (length ls) in
  forallb (fun x => (0 <=? x) && (x <? 2^b)) ls &&
  ((val b ls) mod r =? v) &&
  (if k * b >? n then let s := last ls 0 * 2^(k * b - n) in (0 <=? s) && (s <? 2^b) else true).
Definition acc_check (r : Z) (c : Z * Z * list Z * Z) : bool :=
  let '(b, n, ls, v) := c in Bool.eqb (range_relations_b r b n ls v) (v <? 2^n).
Fixpoint acc_mismatches (r : Z) (k : nat) (cs : list (Z * Z * list Z * Z)) : list nat :=
  match cs with [] => [] | c :: cs' => if acc_check r c then acc_mismatches r (S k) cs' else k :: acc_mismatches r (S k) cs' end.

(* (limb width, widths, values, the query list the real checker passed to the multiplicity hint) *)
Definition qry_check (c : Z * list Z * list Z * list Z) : bool :=
  let '(b, widths, vals, qs) := c in zlist_eqb (rc_queries b widths vals) qs.
Fixpoint qry_mismatches (k : nat) (cs : list (Z * list Z * list Z * list Z)) : list nat :=
  match cs with [] => [] | c :: cs' => if qry_check c then qry_mismatches (S k) cs' else k :: qry_mismatches (S k) cs' end.
