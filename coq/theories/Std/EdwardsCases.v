(* C16 correspondence: the Gallina twisted Edwards addition / doubling over Z mod p against the results the
   gadget (std/algebra/native/twistededwards) was observed to accept in the test engine. *)
From Coq Require Import ZArith List Bool.
From GnarkV Require Import Base.Zp Std.Edwards.
Import ListNotations.
Local Open Scope Z_scope.

Definition ed_add_p (p a d : Z) := ed_add Z 1 (addp p) (mulp p) (subp p) (divp p) a d.
Definition ed_double_p (p a d : Z) := ed_double Z 1 (addp p) (mulp p) (subp p) (divp p) a.

(* (modulus, a, d, op (0 add, 1 double), P, Q, result) *)
Definition edcase := (Z * Z * Z * nat * (Z * Z) * (Z * Z) * (Z * Z))%type.
Definition pair_eqb (u v : Z * Z) : bool := (fst u =? fst v) && (snd u =? snd v).
Definition edcheck (c : edcase) : bool :=
  let '(p, a, d, op, P, Q, R) := c in
  match op with
  | O => pair_eqb (ed_add_p p a d P Q) R
  | _ => pair_eqb (ed_double_p p a d P) R
  end.
Fixpoint ed_mismatches (k : nat) (cs : list edcase) : list nat :=
  match cs with [] => [] | c :: r => if edcheck c then ed_mismatches (S k) r else k :: ed_mismatches (S k) r end.
