(* C19 correspondence: the executable GKR verifier model (Std/Gkr.v) over Z mod p, evaluated on what the
   in-circuit verifier of std/gkr (gkr.go Verify, sumcheck.go verifySumcheck) was observed to receive and
   derive: sorted circuit, assignment tables, proof, Fiat-Shamir challenges (verif hook), and compared
   with the outcome of each of its assertions (one per wire) and its overall verdict. *)
From Coq Require Import ZArith List Bool.
From GnarkV Require Import Base.Zp Std.Sumcheck Std.Gkr.
Import ListNotations.
Local Open Scope Z_scope.

Inductive gk := GkAdd | GkSub | GkMul | GkNeg | GkId | GkSqAdd.

Definition gk_eval (p : Z) (g : gk) (ins : list Z) : Z :=
  match g, ins with
  | GkAdd, [a; b] => addp p a b
  | GkSub, [a; b] => subp p a b
  | GkMul, [a; b] => mulp p a b
  | GkNeg, [a] => oppp p a
  | GkId, [a] => a mod p
  | GkSqAdd, [a; b] => addp p (mulp p a a) b     (* the harness's custom gate x*x + y *)
  | _, _ => 0
  end.
Definition gk_deg (g : gk) : nat := match g with GkMul | GkSqAdd => 2 | _ => 1 end.

(* instance index of a Boolean point: first variable = most significant bit (MultiLin.fold) *)
Definition bidx (b : list Z) : nat := fold_left (fun (acc : nat) (x : Z) => Nat.add (Nat.mul 2 acc) (if Z.eqb x 0 then 0%nat else 1%nat)) b 0%nat.
Definition asg_of (tabs : list (list Z)) (i : nat) (b : list Z) : Z := nth (bidx b) (nth i tabs []) 0.

Definition mkw (g : option gk) (ins : list nat) : wire gk := Build_wire gk g ins.
Definition mkp (polys : list (list Z)) (vs : list Z) : wproof Z := Build_wproof Z polys vs.
Definition mkc (c : Z) (rs : list Z) : wchal Z := Build_wchal Z c rs.

Record gcase := { gc_n : nat; gc_ws : list (wire gk); gc_tabs : list (list Z); gc_rho : list Z;
                  gc_proofs : list (wproof Z); gc_chals : list (wchal Z);
                  gc_verdicts : list bool;     (* outcome of the assertion made for each wire, in wire order *)
                  gc_accept : bool }.

Fixpoint lbeq (a b : list bool) : bool :=
  match a, b with [], [] => true | x :: a', y :: b' => Bool.eqb x y && lbeq a' b' | _, _ => false end.

Definition g_runs (p : Z) (c : gcase) :=
  build_runs Z 0 1 (addp p) (mulp p) (subp p) gk (gc_n c) (asg_of (gc_tabs c)) (gc_ws c) (gc_rho c) (gc_proofs c) (gc_chals c).
Definition g_verdicts (p : Z) (c : gcase) : list bool :=
  wire_verdicts Z 0 1 (addp p) (mulp p) (subp p) (invp p) Z.eq_dec gk (gk_eval p) gk_deg (gc_n c) (asg_of (gc_tabs c)) (gc_ws c) (g_runs p c).
Definition g_exec (p : Z) (c : gcase) : bool :=
  gkr_exec Z 0 1 (addp p) (mulp p) (subp p) (invp p) Z.eq_dec gk (gk_eval p) gk_deg (gc_n c) (asg_of (gc_tabs c)) (gc_ws c) (gc_rho c) (gc_proofs c) (gc_chals c).

Definition gcheck (p : Z) (c : gcase) : bool := lbeq (g_verdicts p c) (gc_verdicts c) && Bool.eqb (g_exec p c) (gc_accept c).

Fixpoint gkr_mismatches (p : Z) (k : nat) (cs : list gcase) : list nat :=
  match cs with
  | [] => []
  | c :: r => if gcheck p c then gkr_mismatches p (S k) r else k :: gkr_mismatches p (S k) r
  end.
