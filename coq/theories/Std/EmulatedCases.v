(* C12 correspondence: the Gallina transcriptions evaluated on values observed in the real package *)
From Coq Require Import ZArith List Bool.
From GnarkV Require Import CS.SolverZp Std.Emulated Std.MulCheck.
Import ListNotations.
Local Open Scope Z_scope.

Definition pad_check (c : Z * Z * Z * nat * list Z) : bool :=
  let '(q, w, ovf, nb, pad) := c in zlist_eqb (sub_padding q w ovf nb) pad.

Fixpoint pad_mismatches (k : nat) (cs : list (Z * Z * Z * nat * list Z)) : list nat :=
  match cs with [] => [] | c :: cs' => if pad_check c then pad_mismatches (S k) cs' else k :: pad_mismatches (S k) cs' end.

Definition op_check (c : nat * Z * Z * nat * (list Z * Z) * (list Z * Z) * (list Z * Z)) : bool :=
  let '(kind, q, w, nl, (a, oa), (b, ob), (res, ores)) := c in
  match kind with
  | O => zlist_eqb (add_limbs a b) res && (ores =? add_next_ovf oa ob)
  | _ => let nb := Nat.max (Nat.max (length a) (length b)) nl in
         zlist_eqb (sub_limbs (sub_padding q w ob nb) a b) res && (ores =? sub_next_ovf oa ob)
  end.

Fixpoint op_mismatches (k : nat) (cs : list (nat * Z * Z * nat * (list Z * Z) * (list Z * Z) * (list Z * Z))) : list nat :=
  match cs with [] => [] | c :: cs' => if op_check c then op_mismatches (S k) cs' else k :: op_mismatches (S k) cs' end.

(* the outputs of the real mulHint (carries read as signed residues) make every coefficient of the
   difference polynomial vanish over Z: the hypothesis of mulcheck_sound_if_bounded is met by honest runs *)
Definition mul_check (rn : Z) (c : Z * list Z * list Z * list Z * list Z * list Z * list Z) : bool :=
  let '(w, a, b, r, k, p, cs) := c in
  forallb (fun d => (d =? 0) && (d mod rn =? 0) && (- rn <? d) && (d <? rn)) (mul_diff w a b r k p cs).

Fixpoint mul_mismatches (rn : Z) (k : nat) (cs : list (Z * list Z * list Z * list Z * list Z * list Z * list Z)) : list nat :=
  match cs with [] => [] | c :: cs' => if mul_check rn c then mul_mismatches rn (S k) cs' else k :: mul_mismatches rn (S k) cs' end.
