(* C15 correspondence: the executable Gallina SHA-256 (fixed and variable-length padding) against
   crypto/sha256 digests of the messages the harness also ran through the real gadget *)
From Coq Require Import NArith Arith List Bool.
From GnarkV Require Import Std.Sha256.
Import ListNotations.

Fixpoint nlist_eqb (a b : list N) : bool :=
  match a, b with
  | [], [] => true
  | x :: a', y :: b' => N.eqb x y && nlist_eqb a' b'
  | _, _ => false
  end.

Fixpoint sha_mismatches (k : nat) (cs : list (list N * list N)) : list nat :=
  match cs with
  | [] => []
  | (m, d) :: r => if nlist_eqb (sha256 m) d then sha_mismatches (S k) r else k :: sha_mismatches (S k) r
  end.

(* (buffer of maxLen bytes, minimal length, maximal length, actual length, reference digest of the first len bytes) *)
Fixpoint var_mismatches (k : nat) (cs : list (list N * nat * nat * nat * list N)) : list nat :=
  match cs with
  | [] => []
  | (buf, mn, mx, len, d) :: r =>
      if nlist_eqb (sha256_varlen (fun i => nth i buf 0%N) mn mx len) d then var_mismatches (S k) r else k :: var_mismatches (S k) r
  end.
