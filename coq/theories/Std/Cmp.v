(* C14: bounded comparator (std/math/cmp/bounded.go), bit-slice partition (std/math/bitslice) and word
   addition (std/math/uints), over the integers modulo the native prime p.
   [nonneg k x] is what assertIsNonNegative enforces on the canonical value x: a k-digit binary
   decomposition exists (C04 tobinary relation), i.e. 0 <= x < 2^k.
   a and b are arbitrary (signed) integers with |a - b| < 2^k, where k is the bit length of the declared
   bound absDiffUpp, and 2^(k+1) < p (the deterministic mode the constructor enforces). *)
From Coq Require Import ZArith Lia Znumtheory.
Local Open Scope Z_scope.

Definition nonneg (k x : Z) : Prop := 0 <= x < 2^k.

Lemma mod_small_shift p x : 0 < p -> 0 <= x < p -> x mod p = x.
Proof. intros. apply Z.mod_small. lia. Qed.
Lemma mod_neg_shift p x : 0 < p -> - p <= x < 0 -> x mod p = x + p.
Proof.
  intros Hp Hx. replace x with ((x + p) + (-1) * p) by ring. rewrite Z.mod_add by lia.
  rewrite Z.mod_small by lia. ring.
Qed.

Section Bounded.
Variables p k : Z.
Hypothesis Hk : 0 <= k.
Hypothesis Hp : 2^(k+1) < p.

Lemma pow_facts : 0 < 2^k /\ 2^(k+1) = 2 * 2^k.
Proof. split; [apply Z.pow_pos_nonneg; lia|]. rewrite Z.pow_add_r by lia. ring. Qed.

(* the core fact: for |d| < 2^k (so d in (-2^k, 2^k)), d mod p is "non-negative" iff d >= 0 *)
Lemma nonneg_mod_iff d : - 2^k <= d < 2^k -> (nonneg k (d mod p) <-> 0 <= d).
Proof.
  destruct pow_facts as [P E]. intros Hd. unfold nonneg.
  destruct (Z_lt_ge_dec d 0) as [N|N].
  - rewrite mod_neg_shift by lia. lia.
  - rewrite mod_small_shift by lia. lia.
Qed.

Theorem assert_leq_rel a b : Z.abs (a - b) < 2^k -> (nonneg k ((b - a) mod p) <-> a <= b).
Proof. intro H. rewrite nonneg_mod_iff by lia. lia. Qed.

Theorem assert_less_rel a b : Z.abs (a - b) < 2^k -> (nonneg k ((b - 1 - a) mod p) <-> a < b).
Proof. intro H. rewrite nonneg_mod_iff by lia. lia. Qed.

(* IsLess: the hinted indicator is forced *)
Theorem is_less_rel a b ind : Z.abs (a - b) < 2^k -> (ind = 0 \/ ind = 1) ->
  nonneg k ((if ind =? 1 then b - a - 1 else a - b) mod p) -> (ind = 1 <-> a < b).
Proof.
  intros H Hi. destruct Hi as [-> | ->]; cbn [Z.eqb Pos.eqb]; rewrite nonneg_mod_iff by lia; lia.
Qed.

Theorem is_less_complete a b : Z.abs (a - b) < 2^k ->
  nonneg k ((if (if a <? b then 1 else 0) =? 1 then b - a - 1 else a - b) mod p).
Proof.
  intro H. destruct (a <? b) eqn:E; cbn [Z.eqb Pos.eqb]; rewrite nonneg_mod_iff by lia; lia.
Qed.

(* Min: (a - m)(b - m) = 0 and (a - m) + (b - m) >= 0 in the field force m = min a b *)
Theorem min_rel a b m : prime p -> Z.abs (a - b) < 2^k ->
  ((a - m) * (b - m)) mod p = 0 -> nonneg k (((a - m) + (b - m)) mod p) ->
  (m - Z.min a b) mod p = 0.
Proof.
  destruct pow_facts as [P E]. intros Pr H Hz Hn.
  assert (Hp0 : 0 < p) by lia.
  apply Z.mod_divide in Hz; [|lia]. apply prime_mult in Hz; [|exact Pr].
  destruct Hz as [[t Ht]|[t Ht]].
  - (* a = m (mod p): the sum is b - a *)
    assert (S : ((a - m) + (b - m)) mod p = (b - a) mod p).
    { replace ((a - m) + (b - m)) with ((b - a) + (2 * t) * p) by lia. apply Z.mod_add. lia. }
    rewrite S in Hn. apply assert_leq_rel in Hn; [|lia].
    rewrite Z.min_l by lia. replace (m - a) with ((- t) * p) by lia. apply Z.mod_mul. lia.
  - assert (S : ((a - m) + (b - m)) mod p = (a - b) mod p).
    { replace ((a - m) + (b - m)) with ((a - b) + (2 * t) * p) by lia. apply Z.mod_add. lia. }
    rewrite S in Hn. assert (Hn' : nonneg k ((a - b) mod p)) by exact Hn.
    rewrite nonneg_mod_iff in Hn' by lia.
    rewrite Z.min_r by lia. replace (m - b) with ((- t) * p) by lia. apply Z.mod_mul. lia.
Qed.
End Bounded.

(* the documented failure threshold: at |a - b| = p - 2^k ... the negative side becomes short.  Example
   over p = 47, k = 4 (absDiffUpp = 15): a = 0, b = 32: b - a - 1 = 31 is not < 16, a - b = -32 = 15 mod 47
   IS < 16: IsLess is forced to the reversed (but unique) answer 0. *)
Example bounded_reversed_example :
  nonneg 4 ((0 - 32) mod 47) /\ ~ nonneg 4 ((32 - 0 - 1) mod 47).
Proof. unfold nonneg. split; vm_compute; intuition discriminate. Qed.

(* ---- bitslice.Partition and uints.Add ---- *)
Theorem partition_rel p s d v lower upper :
  0 <= s <= d -> 2^d <= p -> 0 <= v < p ->
  0 <= lower < 2^s -> 0 <= upper < 2^(d - s) ->
  (lower + 2^s * upper) mod p = v ->
  lower = v mod 2^s /\ upper = v / 2^s /\ v < 2^d.
Proof.
  intros Hs Hd Hv Hl Hu He.
  assert (Ps : 0 < 2^s) by (apply Z.pow_pos_nonneg; lia).
  assert (Pd : 2^d = 2^s * 2^(d - s)) by (rewrite <- Z.pow_add_r by lia; f_equal; lia).
  assert (B : 0 <= lower + 2^s * upper < 2^d) by nia.
  rewrite Z.mod_small in He by lia. subst v.
  split; [|split].
  - rewrite (Z.mul_comm (2^s) upper), Z.mod_add by lia. symmetry. apply Z.mod_small. lia.
  - rewrite (Z.mul_comm (2^s) upper), Z.div_add by lia. rewrite Z.div_small by lia. lia.
  - lia.
Qed.

(* word addition: the low part of the partition of the native sum at the word width is the sum mod 2^w *)
Theorem uints_add_rel p w d sum lower upper :
  0 <= w <= d -> 2^d <= p -> 0 <= sum < 2^d ->
  0 <= lower < 2^w -> 0 <= upper < 2^(d - w) ->
  (lower + 2^w * upper) mod p = sum -> lower = sum mod 2^w.
Proof. intros Hw Hd Hs Hl Hu He. apply (partition_rel p w d sum lower upper); try assumption; lia. Qed.

(* without the recomposition constraint (WithUnconstrainedOutputs) nothing ties the low part to the sum *)
Theorem uints_add_nocheck_refuted :
  exists w sum lower, 0 <= lower < 2^w /\ 0 <= sum < 2^(w+1) /\ lower <> sum mod 2^w.
Proof. exists 32, 12, 999. repeat split; try lia; vm_compute; congruence. Qed.
