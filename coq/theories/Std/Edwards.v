(* C16: twisted Edwards addition and doubling as std/algebra/native/twistededwards/point.go computes them
   (add: the 4-multiplication form with u = (y1 - a x1)(x2 + y2); double: the dedicated formula), over any
   field.  The curve is a x^2 + y^2 = 1 + d x^2 y^2.
   - [ed_add_law]: the transcription equals the textbook unified law
       ((x1 y2 + x2 y1) / (1 + d x1 x2 y1 y2), (y1 y2 - a x1 x2) / (1 - d x1 x2 y1 y2))
     whenever both denominators are non-zero (DivUnchecked leaves the quotient unconstrained otherwise);
   - [ed_double_law]: for a point ON the curve the doubling formula equals the unified law applied to (P, P);
   - [ed_add_identity], [ed_add_neg]: P + (0,1) = P and, on the curve, P + (-x, y) = (0, 1).
   Completeness of the unified law (denominators never vanish when a is a square and d is not) and the group
   law itself are the classical results assumed; the executable functions are compared with the gadget's
   outputs by Std/EdwardsCases.v. *)
From Coq Require Import Ring Field List.
Import ListNotations.

Section Edwards.
Variable F : Type.
Variables (zero one : F) (add mul sub : F -> F -> F) (opp : F -> F) (div : F -> F -> F) (inv : F -> F).
Hypothesis Fth : field_theory zero one add mul sub opp div inv (@eq F).
Add Field Ffed : Fth.
Notation "0" := zero. Notation "1" := one.
Infix "+" := add. Infix "*" := mul. Infix "-" := sub. Infix "/" := div.

Variables a d : F.

Definition on_curve (p : F * F) : Prop := let (x, y) := p in a * x * x + y * y = 1 + d * x * x * y * y.

Definition ed_add (p q : F * F) : F * F :=
  let (x1, y1) := p in let (x2, y2) := q in
  let u1 := y1 - x1 * a in
  let u2 := x2 + y2 in
  let u := u1 * u2 in
  let v0 := y2 * x1 in
  let v1 := x2 * y1 in
  let v2 := d * v0 * v1 in
  ((v0 + v1) / (1 + v2), (a * v0 - v1 + u) / (1 - v2)).

Definition ed_double (p : F * F) : F * F :=
  let (x1, y1) := p in
  let u := x1 * y1 in let v := x1 * x1 in let w := y1 * y1 in
  let n1 := (1 + 1) * u in let av := v * a in
  let n2 := w - av in let d1 := w + av in let d2 := (1 + 1) - d1 in
  (n1 / d1, n2 / d2).

Definition ed_neg (p : F * F) : F * F := let (x, y) := p in (0 - x, y).

Theorem ed_add_law x1 y1 x2 y2 :
  1 + d * x1 * x2 * y1 * y2 <> 0 -> 1 - d * x1 * x2 * y1 * y2 <> 0 ->
  ed_add (x1, y1) (x2, y2) =
  ((x1 * y2 + x2 * y1) / (1 + d * x1 * x2 * y1 * y2), (y1 * y2 - a * x1 * x2) / (1 - d * x1 * x2 * y1 * y2)).
Proof.
  intros H1 H2. unfold ed_add.
  assert (D1 : 1 + d * (y2 * x1) * (x2 * y1) = 1 + d * x1 * x2 * y1 * y2) by ring.
  assert (D2 : 1 - d * (y2 * x1) * (x2 * y1) = 1 - d * x1 * x2 * y1 * y2) by ring.
  rewrite D1, D2. f_equal; field; assumption.
Qed.

Theorem ed_double_law x y :
  on_curve (x, y) -> 1 + d * x * x * y * y <> 0 -> 1 - d * x * x * y * y <> 0 ->
  ed_double (x, y) = ((x * y + x * y) / (1 + d * x * x * y * y), (y * y - a * x * x) / (1 - d * x * x * y * y)).
Proof.
  intros Hc H1 H2. unfold on_curve in Hc. unfold ed_double.
  assert (E1 : y * y + x * x * a = 1 + d * x * x * y * y) by (rewrite <- Hc; ring).
  assert (E2 : (1 + 1) - (y * y + x * x * a) = 1 - d * x * x * y * y) by (rewrite E1; ring).
  rewrite E2, E1. f_equal; field; assumption.
Qed.

Theorem ed_add_identity x y : ed_add (x, y) (0, 1) = (x, y).
Proof.
  assert (N : 1 <> 0) by (destruct Fth as [_ H _ _]; exact H).
  rewrite ed_add_law.
  - f_equal; field; intro E; apply N; rewrite <- E; ring.
  - intro E; apply N; rewrite <- E; ring.
  - intro E; apply N; rewrite <- E; ring.
Qed.

Theorem ed_add_neg x y :
  on_curve (x, y) -> 1 + d * x * (0 - x) * y * y <> 0 -> 1 - d * x * (0 - x) * y * y <> 0 ->
  ed_add (x, y) (ed_neg (x, y)) = (0, 1).
Proof.
  intros Hc H1 H2. unfold ed_neg. rewrite ed_add_law by assumption. unfold on_curve in Hc. f_equal.
  - assert (E : x * y + (0 - x) * y = 0) by ring. rewrite E. field.
    assert (D : 1 + d * x * opp x * y * y = 1 + d * x * (0 - x) * y * y) by ring. rewrite D. exact H1.
  - assert (E : y * y - a * x * (0 - x) = 1 - d * x * (0 - x) * y * y).
    { transitivity (a * x * x + y * y); [ring|]. rewrite Hc. ring. }
    rewrite E. field.
    assert (D : 1 - d * x * opp x * y * y = 1 - d * x * (0 - x) * y * y) by ring. rewrite D. exact H2.
Qed.
End Edwards.
