(* C15: Keccak-f[1600], the sponge and its padding as std/hash/sha3 and std/permutation/keccakf compute them,
   executable over N, and the variable-length variant (FixedLengthSum).
   Messages are functions nat -> N (byte at a position), as in Std/Sha256.v.
   Proved: [sp_total_spec] the padded length is the least multiple of the rate above the length;
   [sp_varlen_byte_eq] for min <= len <= maxLen every byte below the padded length of the data built by
   paddingFixedWidth equals the byte of the fixed padding of the first len bytes; [sp_sel_loop_eq] the state
   selected by absorbingFixedWidth is the state after the last padded block; hence [sp_varlen_sum_eq]:
   FixedLengthSum(len) = Sum(first len bytes) for every rate, domain-separation byte, maximal and minimal
   length.  The executable model is compared with golang.org/x/crypto/sha3 on the harness messages. *)
From Coq Require Import NArith Arith List Lia Bool.
Import ListNotations.

Local Open Scope N_scope.
Definition m64 : N := 18446744073709551615.
Definition rot64 (x n : N) : N := if n =? 0 then x else N.lor (N.land (N.shiftl x n) m64) (N.shiftr x (64 - n)).
Definition not64 (x : N) : N := N.lxor x m64.

Definition RC : list N := [
 0x0000000000000001; 0x0000000000008082; 0x800000000000808A; 0x8000000080008000; 0x000000000000808B; 0x0000000080000001;
 0x8000000080008081; 0x8000000000008009; 0x000000000000008A; 0x0000000000000088; 0x0000000080008009; 0x000000008000000A;
 0x000000008000808B; 0x800000000000008B; 0x8000000000008089; 0x8000000000008003; 0x8000000000008002; 0x8000000000000080;
 0x000000000000800A; 0x800000008000000A; 0x8000000080008081; 0x8000000000008080; 0x0000000080000001; 0x8000000080008008].
(* rotation offsets, index x + 5 y *)
Definition ROT : list N := [0; 1; 62; 28; 27;  36; 44; 6; 55; 20;  3; 10; 43; 25; 39;  41; 45; 15; 21; 8;  18; 2; 61; 56; 14].
Local Close Scope N_scope.

Definition lane (a : list N) (x y : nat) : N := nth ((x mod 5) + 5 * (y mod 5)) a 0%N.
Definition xor5 (a : list N) (x : nat) : N :=
  N.lxor (lane a x 0) (N.lxor (lane a x 1) (N.lxor (lane a x 2) (N.lxor (lane a x 3) (lane a x 4)))).

Definition keccak_round (a : list N) (rc : N) : list N :=
  let c := map (xor5 a) (seq 0 5) in
  let d := map (fun x => N.lxor (nth ((x + 4) mod 5) c 0%N) (rot64 (nth ((x + 1) mod 5) c 0%N) 1)) (seq 0 5) in
  let a1 := map (fun i => N.lxor (nth i a 0%N) (nth (i mod 5) d 0%N)) (seq 0 25) in
  (* rho + pi: B[y, 2x+3y] = rot(A[x,y]) ; as a gather: B[X,Y] takes A[x,y] with x = (X + 3 Y) mod 5, y = X *)
  let b := map (fun i => let X := i mod 5 in let Y := i / 5 in
                         let x := (X + 3 * Y) mod 5 in let y := X in
                         rot64 (lane a1 x y) (nth (x + 5 * y) ROT 0%N)) (seq 0 25) in
  let a2 := map (fun i => let X := i mod 5 in let Y := i / 5 in
                          N.lxor (lane b X Y) (N.land (not64 (lane b (X + 1) Y)) (lane b (X + 2) Y))) (seq 0 25) in
  match a2 with x0 :: r => N.lxor x0 rc :: r | [] => [] end.

Definition keccak_f (a : list N) : list N := fold_left keccak_round RC a.

(* little-endian 64-bit words of a block of bytes *)
Fixpoint le_word (bs : list N) : N := match bs with [] => 0%N | b :: r => (b + 256 * le_word r)%N end.
Fixpoint le_words (n : nat) (bs : list N) : list N :=
  match n with O => [] | S k => le_word (firstn 8 bs) :: le_words k (skipn 8 bs) end.
Fixpoint xor_into (st ws : list N) : list N :=
  match st, ws with s :: st', w :: ws' => N.lxor s w :: xor_into st' ws' | _, [] => st | [], _ => [] end.

Definition absorb (rate : nat) (st : list N) (block : list N) : list N :=
  keccak_f (xor_into st (le_words (rate / 8) block)).

Definition block_of (rate : nat) (f : nat -> N) (k : nat) : list N := map f (seq (rate * k) rate).
Fixpoint sp_blocks (rate : nat) (f : nat -> N) (nb : nat) : list N :=
  match nb with O => repeat 0%N 25 | S k => absorb rate (sp_blocks rate f k) (block_of rate f k) end.

Fixpoint word_bytes_le (n : nat) (w : N) : list N := match n with O => [] | S k => N.land w 255 :: word_bytes_le k (N.shiftr w 8) end.
Definition squeeze (outlen : nat) (st : list N) : list N := firstn outlen (flat_map (word_bytes_le 8) st).

(* ---- padding ---- *)
Definition sp_q (rate len : nat) : nat := rate - len mod rate.
Definition sp_total (rate len : nat) : nat := len + sp_q rate len.

Definition sp_fixed_byte (ds : N) (rate : nat) (msg : nat -> N) (len i : nat) : N :=
  let q := sp_q rate len in
  if i <? len then msg i
  else if q =? 1 then N.lxor ds 128
  else if i =? len then ds
  else if i =? len + q - 1 then 128%N
  else 0%N.

(* paddingFixedWidth: buf holds maxLen bytes followed by rate zero bytes; for i = len the switch on
   q = rate - i mod rate writes the padding at i .. i+q-1 *)
Definition sp_varlen_byte (ds : N) (rate : nat) (buf : nat -> N) (minLen maxLen len k : nat) : N :=
  let d0 := if k <? maxLen then buf k else 0%N in
  if (minLen <=? len) && (len <=? maxLen) && (len <=? k) && (k <? sp_total rate len)
  then (let q := sp_q rate len in
        if q =? 1 then N.lxor ds 128
        else if k =? len then ds
        else if k =? len + q - 1 then 128%N else 0%N)
  else d0.

Theorem sp_total_spec rate len : 0 < rate -> sp_total rate len mod rate = 0 /\ len < sp_total rate len <= len + rate.
Proof.
  intro Hr. unfold sp_total, sp_q.
  pose proof (Nat.mod_upper_bound len rate ltac:(lia)) as B.
  pose proof (Nat.div_mod len rate ltac:(lia)) as D.
  split; [|lia].
  replace (len + (rate - len mod rate)) with ((len / rate + 1) * rate) by nia. apply Nat.mod_mul. lia.
Qed.

Theorem sp_varlen_byte_eq ds rate buf minLen maxLen len k :
  0 < rate -> minLen <= len <= maxLen -> k < sp_total rate len ->
  sp_varlen_byte ds rate buf minLen maxLen len k = sp_fixed_byte ds rate (fun i => if i <? maxLen then buf i else 0%N) len k.
Proof.
  intros Hr Hl Hk. unfold sp_varlen_byte, sp_fixed_byte. cbv zeta.
  destruct (sp_total_spec rate len Hr) as [_ T].
  assert (Q : 1 <= sp_q rate len) by (unfold sp_total in T; lia).
  unfold sp_total in *.
  repeat match goal with
  | |- context [?a <? ?b] => destruct (Nat.ltb_spec a b)
  | |- context [?a <=? ?b] => destruct (Nat.leb_spec a b)
  | |- context [?a =? ?b] => destruct (Nat.eqb_spec a b)
  end; cbn [andb]; try reflexivity; try lia.
Qed.

Lemma sp_blocks_ext rate f g nb : (forall i, i < rate * nb -> f i = g i) -> sp_blocks rate f nb = sp_blocks rate g nb.
Proof.
  induction nb as [|k IH]; intro H; cbn [sp_blocks]; [reflexivity|].
  rewrite IH by (intros; apply H; lia). f_equal.
  unfold block_of. apply map_ext_in. intros i Hi. apply in_seq in Hi. apply H. lia.
Qed.

(* absorbingFixedWidth: result initialised after block minLen/rate, replaced after every block i < nbBlocks *)
Definition sp_sel_step (rate : nat) (f : nat -> N) (minB nb : nat) (acc : list N * list N) (i : nat) : list N * list N :=
  let st' := absorb rate (fst acc) (block_of rate f i) in
  (st', if i <? minB then snd acc else if i =? minB then st' else if i <? nb then st' else snd acc).
Definition sp_sel_loop (rate : nat) (f : nat -> N) (minB nb nblocks : nat) : list N :=
  snd (fold_left (sp_sel_step rate f minB nb) (seq 0 nblocks) (repeat 0%N 25, repeat 0%N 25)).

Lemma sp_sel_loop_inv rate f minB T k :
  minB < T ->
  let acc := fold_left (sp_sel_step rate f minB T) (seq 0 k) (repeat 0%N 25, repeat 0%N 25) in
  fst acc = sp_blocks rate f k /\ (minB < k -> snd acc = sp_blocks rate f (Nat.min k T)).
Proof.
  intro Hm. induction k as [|k IH]; cbn zeta in *.
  - split; [reflexivity|lia].
  - rewrite seq_S, fold_left_app. cbn [fold_left Nat.add].
    destruct IH as [I1 I2]. set (acc := fold_left (sp_sel_step rate f minB T) (seq 0 k) (repeat 0%N 25, repeat 0%N 25)) in *.
    unfold sp_sel_step. cbn [fst snd]. rewrite I1. split; [reflexivity|].
    intros Hk.
    destruct (Nat.ltb_spec k minB) as [L|L]; [lia|].
    destruct (Nat.eqb_spec k minB) as [E|NE].
    + subst k. rewrite Nat.min_l by lia. reflexivity.
    + destruct (Nat.ltb_spec k T) as [L2|L2].
      * rewrite Nat.min_l by lia. reflexivity.
      * rewrite I2 by lia. rewrite !Nat.min_r by lia. reflexivity.
Qed.

Theorem sp_sel_loop_eq rate f minB T nblocks :
  minB < T -> T <= nblocks -> sp_sel_loop rate f minB T nblocks = sp_blocks rate f T.
Proof.
  intros Hm Hn. unfold sp_sel_loop. destruct (sp_sel_loop_inv rate f minB T nblocks Hm) as [_ I].
  rewrite I by lia. rewrite Nat.min_r by lia. reflexivity.
Qed.

Definition sponge_fixed (ds : N) (rate outlen : nat) (msg : nat -> N) (len : nat) : list N :=
  squeeze outlen (sp_blocks rate (sp_fixed_byte ds rate msg len) (sp_total rate len / rate)).
Definition sponge_varlen (ds : N) (rate outlen : nat) (buf : nat -> N) (minLen maxLen len : nat) : list N :=
  squeeze outlen (sp_sel_loop rate (sp_varlen_byte ds rate buf minLen maxLen len) (minLen / rate)
                              (sp_total rate len / rate) ((maxLen + rate) / rate)).

Theorem sp_varlen_sum_eq ds rate outlen buf minLen maxLen len :
  0 < rate -> minLen <= len <= maxLen ->
  sponge_varlen ds rate outlen buf minLen maxLen len
  = sponge_fixed ds rate outlen (fun i => if i <? maxLen then buf i else 0%N) len.
Proof.
  intros Hr H. unfold sponge_varlen, sponge_fixed. f_equal.
  destruct (sp_total_spec rate len Hr) as [M [T1 T2]].
  pose proof (Nat.div_mod (sp_total rate len) rate ltac:(lia)) as D. rewrite M, Nat.add_0_r in D.
  set (T := sp_total rate len / rate) in *.
  rewrite sp_sel_loop_eq.
  - apply sp_blocks_ext. intros i Hi. apply sp_varlen_byte_eq; [exact Hr|exact H|lia].
  - apply Nat.div_lt_upper_bound; lia.
  - apply Nat.div_le_lower_bound; lia.
Qed.

(* executable: digest of a byte list *)
Definition sponge (ds : N) (rate outlen : nat) (msg : list N) : list N :=
  sponge_fixed ds rate outlen (fun i => nth i msg 0%N) (length msg).

(* SHA3-256("") = a7ffc6f8bf1ed766 51c14756a061d662 f580ff4de43b49fa 82d80a4b80f8434a *)
Example sha3_256_empty : sponge 6%N 136 32 [] =
  [0xa7; 0xff; 0xc6; 0xf8; 0xbf; 0x1e; 0xd7; 0x66; 0x51; 0xc1; 0x47; 0x56; 0xa0; 0x61; 0xd6; 0x62;
   0xf5; 0x80; 0xff; 0x4d; 0xe4; 0x3b; 0x49; 0xfa; 0x82; 0xd8; 0x0a; 0x4b; 0x80; 0xf8; 0x43; 0x4a]%N.
Proof. vm_compute. reflexivity. Qed.
