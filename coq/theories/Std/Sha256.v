(* C15: SHA-256 as the gadget computes it (std/hash/sha2, std/permutation/sha2), executable over N.
   Messages are functions nat -> N (byte at a position) so that the fixed-length and the
   variable-length (FixedLengthSum) paddings can be compared position by position.

   Transcribed: padded (sha2.go), the data rewriting loops and digest selection of FixedLengthSum, the
   compression function of FIPS 180-4 (as std/permutation/sha2 computes it on byte-sliced words).
   Proved: [var_total_eq] the variable-length total length is the fixed one; [varlen_byte_eq] for
   min <= len <= maxLen every byte below the total length equals the fixed padding's byte;
   [hash_fun_ext] the digest depends only on the bytes below the total length; hence
   [varlen_sum_eq]: FixedLengthSum(len) = Sum of the first len bytes, for every buffer, every maximum and
   minimal length.  The executable model is compared with crypto/sha256 on the harness messages. *)
From Coq Require Import NArith Arith List Lia Bool.
Import ListNotations.

Local Open Scope N_scope.

Definition m32 : N := 4294967295.
Definition add32 (a b : N) : N := N.land (a + b) m32.
Definition rotr (n x : N) : N := N.lor (N.shiftr x n) (N.land (N.shiftl x (32 - n)) m32).
Definition Ch (x y z : N) : N := N.lxor (N.land x y) (N.land (N.lxor x m32) z).
Definition Maj (x y z : N) : N := N.lxor (N.land x y) (N.lxor (N.land x z) (N.land y z)).
Definition bS0 x := N.lxor (rotr 2 x) (N.lxor (rotr 13 x) (rotr 22 x)).
Definition bS1 x := N.lxor (rotr 6 x) (N.lxor (rotr 11 x) (rotr 25 x)).
Definition sS0 x := N.lxor (rotr 7 x) (N.lxor (rotr 18 x) (N.shiftr x 3)).
Definition sS1 x := N.lxor (rotr 17 x) (N.lxor (rotr 19 x) (N.shiftr x 10)).

Definition K256 : list N := [
 0x428a2f98; 0x71374491; 0xb5c0fbcf; 0xe9b5dba5; 0x3956c25b; 0x59f111f1; 0x923f82a4; 0xab1c5ed5;
 0xd807aa98; 0x12835b01; 0x243185be; 0x550c7dc3; 0x72be5d74; 0x80deb1fe; 0x9bdc06a7; 0xc19bf174;
 0xe49b69c1; 0xefbe4786; 0x0fc19dc6; 0x240ca1cc; 0x2de92c6f; 0x4a7484aa; 0x5cb0a9dc; 0x76f988da;
 0x983e5152; 0xa831c66d; 0xb00327c8; 0xbf597fc7; 0xc6e00bf3; 0xd5a79147; 0x06ca6351; 0x14292967;
 0x27b70a85; 0x2e1b2138; 0x4d2c6dfc; 0x53380d13; 0x650a7354; 0x766a0abb; 0x81c2c92e; 0x92722c85;
 0xa2bfe8a1; 0xa81a664b; 0xc24b8b70; 0xc76c51a3; 0xd192e819; 0xd6990624; 0xf40e3585; 0x106aa070;
 0x19a4c116; 0x1e376c08; 0x2748774c; 0x34b0bcb5; 0x391c0cb3; 0x4ed8aa4a; 0x5b9cca4f; 0x682e6ff3;
 0x748f82ee; 0x78a5636f; 0x84c87814; 0x8cc70208; 0x90befffa; 0xa4506ceb; 0xbef9a3f7; 0xc67178f2].
Definition IV256 : list N := [0x6A09E667; 0xBB67AE85; 0x3C6EF372; 0xA54FF53A; 0x510E527F; 0x9B05688C; 0x1F83D9AB; 0x5BE0CD19].

(* message schedule, most recent word first *)
Fixpoint be_words (bs : list N) : list N :=
  match bs with
  | a :: b :: c :: d :: r => (a * 16777216 + b * 65536 + c * 256 + d) :: be_words r
  | _ => []
  end.
Fixpoint extend (fuel : nat) (rev_w : list N) : list N :=
  match fuel with
  | O => rev_w
  | S f =>
      let w2 := nth 1 rev_w 0 in let w7 := nth 6 rev_w 0 in let w15 := nth 14 rev_w 0 in let w16 := nth 15 rev_w 0 in
      extend f (add32 (add32 (sS1 w2) w7) (add32 (sS0 w15) w16) :: rev_w)
  end.
Definition schedule (block : list N) : list N := rev (extend 48 (rev (be_words block))).

Definition round (st : list N) (kw : N * N) : list N :=
  match st with
  | [a; b; c; d; e; f; g; h] =>
      let t1 := add32 (add32 (add32 h (bS1 e)) (add32 (Ch e f g) (fst kw))) (snd kw) in
      let t2 := add32 (bS0 a) (Maj a b c) in
      [add32 t1 t2; a; b; c; add32 d t1; e; f; g]
  | _ => st
  end.
Fixpoint zip_add (a b : list N) : list N :=
  match a, b with x :: a', y :: b' => add32 x y :: zip_add a' b' | _, _ => [] end.
Definition compress (st : list N) (block : list N) : list N :=
  zip_add st (fold_left round (combine K256 (schedule block)) st).

Definition word_bytes (w : N) : list N := [N.shiftr w 24; N.land (N.shiftr w 16) 255; N.land (N.shiftr w 8) 255; N.land w 255].
Definition digest_bytes (st : list N) : list N := flat_map word_bytes st.

(* hash of the first nb blocks of a byte function *)
Definition block_of (f : nat -> N) (k : nat) : list N := map f (seq (64 * k) 64).
Fixpoint hash_blocks (f : nat -> N) (nb : nat) : list N :=
  match nb with O => IV256 | S k => compress (hash_blocks f k) (block_of f k) end.

Local Close Scope N_scope.

(* ---- padding ---- *)
Definition zero_pad (len : nat) : nat := if len mod 64 <=? 55 then 55 - len mod 64 else 119 - len mod 64.
Definition fixed_total (len : nat) : nat := len + 1 + zero_pad len + 8.
Definition var_total (len : nat) : nat := let m := len mod 64 in len + (if m <? 56 then 64 - m else 128 - m).

Definition len_byte (len j : nat) : N := N.land (N.shiftr (N.of_nat (8 * len)) (N.of_nat (8 * (7 - j)))) 255.

Definition fixed_byte (msg : nat -> N) (len i : nat) : N :=
  if i <? len then msg i
  else if i =? len then 128%N
  else if i <? fixed_total len - 8 then 0%N
  else len_byte len (i - (fixed_total len - 8)).

(* FixedLengthSum: buf holds maxLen bytes, followed by 72 zero bytes; loops as in sha2.go *)
Definition varlen_byte (buf : nat -> N) (minLen maxLen len k : nat) : N :=
  let d0 := if k <? maxLen then buf k else 0%N in
  let d1 := if (minLen <=? k) && (k <=? maxLen)
            then (if len <? k then 0%N else if k =? len then 128%N else d0) else d0 in
  let last8 := var_total len - 8 in
  let datalen := maxLen + 72 in
  if (minLen + 1 <=? last8) && (last8 <? datalen) && (last8 <=? k) && (k <? last8 + 8) && (k <? datalen)
  then len_byte len (k - last8) else d1.

Theorem var_total_eq len : var_total len = fixed_total len.
Proof.
  unfold var_total, fixed_total, zero_pad. cbv zeta.
  pose proof (Nat.mod_upper_bound len 64 ltac:(lia)) as B.
  destruct (Nat.ltb_spec (len mod 64) 56); destruct (Nat.leb_spec (len mod 64) 55); lia.
Qed.

Theorem fixed_total_spec len : fixed_total len mod 64 = 0 /\ len + 9 <= fixed_total len < len + 9 + 64.
Proof.
  unfold fixed_total, zero_pad.
  pose proof (Nat.mod_upper_bound len 64 ltac:(lia)) as B.
  pose proof (Nat.div_mod len 64 ltac:(lia)) as D.
  destruct (Nat.leb_spec (len mod 64) 55) as [E|E]; split; try lia.
  - replace (len + 1 + (55 - len mod 64) + 8) with ((len / 64 + 1) * 64) by lia. apply Nat.mod_mul. lia.
  - replace (len + 1 + (119 - len mod 64) + 8) with ((len / 64 + 2) * 64) by lia. apply Nat.mod_mul. lia.
Qed.

Theorem varlen_byte_eq buf minLen maxLen len k :
  minLen <= len <= maxLen -> k < fixed_total len ->
  varlen_byte buf minLen maxLen len k = fixed_byte (fun i => if i <? maxLen then buf i else 0%N) len k.
Proof.
  intros Hl Hk. unfold varlen_byte, fixed_byte. rewrite var_total_eq.
  destruct (fixed_total_spec len) as [_ [T1 T2]].
  repeat match goal with
  | |- context [?a <? ?b] => destruct (Nat.ltb_spec a b)
  | |- context [?a <=? ?b] => destruct (Nat.leb_spec a b)
  | |- context [?a =? ?b] => destruct (Nat.eqb_spec a b)
  end; cbn [andb]; try reflexivity; try lia.
Qed.

Lemma hash_blocks_ext f g nb : (forall i, i < 64 * nb -> f i = g i) -> hash_blocks f nb = hash_blocks g nb.
Proof.
  induction nb as [|k IH]; intro H; cbn [hash_blocks]; [reflexivity|].
  rewrite IH by (intros; apply H; lia). f_equal.
  unfold block_of. apply map_ext_in. intros i Hi. apply in_seq in Hi. apply H. lia.
Qed.

(* Sum of the first len bytes *)
Definition sha256_fixed (msg : nat -> N) (len : nat) : list N :=
  digest_bytes (hash_blocks (fixed_byte msg len) (fixed_total len / 64)).

(* FixedLengthSum's digest selection (sha2.go): every block of the data is compressed; the result digest is
   initialised after block minLen/64 and then replaced after every block i with 64 i < total *)
Definition sel_step (f : nat -> N) (minB total : nat) (acc : list N * list N) (i : nat) : list N * list N :=
  let st' := compress (fst acc) (block_of f i) in
  (st', if i <? minB then snd acc else if i =? minB then st' else if 64 * i <? total then st' else snd acc).
Definition sel_loop (f : nat -> N) (minB total nblocks : nat) : list N :=
  snd (fold_left (sel_step f minB total) (seq 0 nblocks) (IV256, IV256)).

Lemma sel_loop_inv f minB T k :
  minB < T ->
  let acc := fold_left (sel_step f minB (64 * T)) (seq 0 k) (IV256, IV256) in
  fst acc = hash_blocks f k /\ (minB < k -> snd acc = hash_blocks f (Nat.min k T)).
Proof.
  intro Hm. induction k as [|k IH]; cbn zeta in *.
  - split; [reflexivity|lia].
  - rewrite seq_S, fold_left_app. cbn [fold_left Nat.add].
    destruct IH as [I1 I2]. set (acc := fold_left (sel_step f minB (64 * T)) (seq 0 k) (IV256, IV256)) in *.
    unfold sel_step. cbn [fst snd]. rewrite I1. split; [reflexivity|].
    intros Hk.
    destruct (Nat.ltb_spec k minB) as [L|L]; [lia|].
    destruct (Nat.eqb_spec k minB) as [E|NE].
    + subst k. rewrite Nat.min_l by lia. reflexivity.
    + destruct (Nat.ltb_spec (64 * k) (64 * T)) as [L2|L2].
      * rewrite Nat.min_l by lia. reflexivity.
      * rewrite I2 by lia. rewrite !Nat.min_r by lia. reflexivity.
Qed.

Theorem sel_loop_eq f minB T nblocks :
  minB < T -> T <= nblocks -> sel_loop f minB (64 * T) nblocks = hash_blocks f T.
Proof.
  intros Hm Hn. unfold sel_loop. destruct (sel_loop_inv f minB T nblocks Hm) as [_ I].
  rewrite I by lia. rewrite Nat.min_r by lia. reflexivity.
Qed.

Definition sha256_varlen (buf : nat -> N) (minLen maxLen len : nat) : list N :=
  digest_bytes (sel_loop (varlen_byte buf minLen maxLen len) (minLen / 64) (var_total len) ((maxLen + 72) / 64)).

Theorem varlen_sum_eq buf minLen maxLen len :
  minLen <= len <= maxLen ->
  sha256_varlen buf minLen maxLen len = sha256_fixed (fun i => if i <? maxLen then buf i else 0%N) len.
Proof.
  intro H. unfold sha256_varlen, sha256_fixed. rewrite var_total_eq. f_equal.
  destruct (fixed_total_spec len) as [M [T1 T2]].
  pose proof (Nat.div_mod (fixed_total len) 64 ltac:(lia)) as D. rewrite M, Nat.add_0_r in D.
  set (T := fixed_total len / 64) in *.
  rewrite D. rewrite sel_loop_eq.
  - apply hash_blocks_ext. intros i Hi. apply varlen_byte_eq; [exact H|lia].
  - (* minLen / 64 < T *)
    apply Nat.div_lt_upper_bound; lia.
  - (* T <= (maxLen + 72) / 64 *)
    apply Nat.div_le_lower_bound; lia.
Qed.

(* executable: digest of a byte list *)
Definition sha256 (msg : list N) : list N := sha256_fixed (fun i => nth i msg 0%N) (length msg).

Example sha256_abc : sha256 [97; 98; 99]%N =
  [0xba; 0x78; 0x16; 0xbf; 0x8f; 0x01; 0xcf; 0xea; 0x41; 0x41; 0x40; 0xde; 0x5d; 0xae; 0x22; 0x23;
   0xb0; 0x03; 0x61; 0xa3; 0x96; 0x17; 0x7a; 0x9c; 0xb4; 0x10; 0xff; 0x61; 0xf2; 0x00; 0x15; 0xad]%N.
Proof. vm_compute. reflexivity. Qed.
