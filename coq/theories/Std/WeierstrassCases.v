(* C16 correspondence: the Gallina AddUnified transcription and the Gallina group law, over Z mod p, on
   coordinates observed from the real gadget (test engine) and computed by the native reference *)
From Coq Require Import ZArith List Bool.
From GnarkV Require Import Base.Zp Std.Weierstrass.
Import ListNotations.
Local Open Scope Z_scope.

Definition au (p a : Z) := add_unified Z 0 1 (addp p) (mulp p) (subp p) (divp p) Z.eq_dec a.
Definition gl (p a : Z) := padd Z 0 1 (addp p) (mulp p) (subp p) (divp p) Z.eq_dec a.

Definition pt_of (x y : Z) : option (Z * Z) := if (x =? 0) && (y =? 0) then None else Some (x, y).

(* (p, a, (x1,y1), (x2,y2), gadget result, native result) with (0,0) for infinity *)
Definition wcheck (c : Z * Z * (Z * Z) * (Z * Z) * (Z * Z) * (Z * Z)) : list nat :=
  let '(p, a, (x1, y1), (x2, y2), (gx, gy), (nx, ny)) := c in
  let '(mx, my) := au p a x1 y1 x2 y2 in
  let '(rx, ry) := enc Z 0 (gl p a (pt_of x1 y1) (pt_of x2 y2)) in
  (if (mx =? gx) && (my =? gy) then [] else [1%nat]) ++      (* model of the gadget vs the gadget *)
  (if (rx =? nx) && (ry =? ny) then [] else [2%nat]).        (* Gallina group law vs the native library *)

Fixpoint wmism (k : nat) (cs : list (Z * Z * (Z * Z) * (Z * Z) * (Z * Z) * (Z * Z))) : list (nat * list nat) :=
  match cs with
  | [] => []
  | c :: r => match wcheck c with [] => wmism (S k) r | l => (k, l) :: wmism (S k) r end
  end.
