(* C16: short Weierstrass group law and the unified addition gadget (std/algebra/emulated/sw_emulated
   AddUnified, Brier-Joye slope with three selectors, (0,0) encoding the point at infinity).
   [add_unified_correct_finite]: for affine points P, Q on the curve with (y1 + y2 = 0 -> x1 = x2) the
   gadget's coordinates are those of the group law (P = Q, P = -Q and the generic case);
   [add_unified_inf_l/r/inf]: the infinity cases, for points without y = 0;
   [add_unified_exception]: on a curve with a = 0, for zeta^3 = 1 the point (zeta x, -y) is on the curve
   and the gadget returns (0,0); [add_unified_exception_refuted]: when zeta <> 1 and x <> 0 that is NOT the
   group law's answer: finding F12 (reachable on secp256k1, BN254, BLS12-381: all have a = 0 and
   p = 1 mod 3). *)
From Coq Require Import Ring Field List Bool.

Section W.
Variable F : Type.
Variables (zero one : F) (add mul sub : F -> F -> F) (opp : F -> F) (div : F -> F -> F) (inv : F -> F).
Hypothesis Fth : field_theory zero one add mul sub opp div inv (@eq F).
Add Field Ff : Fth.
Hypothesis eq_dec : forall x y : F, {x = y} + {x <> y}.
Notation "0" := zero. Notation "1" := one.
Infix "+" := add. Infix "*" := mul. Infix "-" := sub. Infix "/" := div.

Variables a b : F.
Hypothesis b_nz : b <> 0.           (* so that (0,0) is not on the curve *)

Lemma integral x y : x * y = 0 -> x <> 0 -> y = 0.
Proof. intros H Hx. assert (E : y = inv x * (x * y)) by (field; exact Hx). rewrite E, H. ring. Qed.

Lemma div_eq x y z t : y <> 0 -> t <> 0 -> x * t = z * y -> x / y = z / t.
Proof.
  intros Hy Ht H. assert (E1 : x / y = (x * t) / (y * t)) by (field; split; assumption).
  rewrite E1, H. field; split; assumption.
Qed.

Definition on_curve (x y : F) : Prop := y * y = x * x * x + a * x + b.

(* reference group law on affine points, None = infinity *)
Definition pt := option (F * F).
Definition padd (P Q : pt) : pt :=
  match P, Q with
  | None, _ => Q
  | _, None => P
  | Some (x1, y1), Some (x2, y2) =>
      if eq_dec x1 x2 then
        if eq_dec (y1 + y2) 0 then None
        else let l := ((1+1+1) * x1 * x1 + a) / ((1+1) * y1) in
             let x3 := l * l - x1 - x1 in Some (x3, l * (x1 - x3) - y1)
      else let l := (y2 - y1) / (x2 - x1) in
           let x3 := l * l - x1 - x2 in Some (x3, l * (x1 - x3) - y1)
  end.

(* the gadget: coordinates, (0,0) encodes infinity; transcription of AddUnified *)
Definition is_inf (x y : F) : bool := if eq_dec x 0 then (if eq_dec y 0 then true else false) else false.
Definition add_unified (x1 y1 x2 y2 : F) : F * F :=
  let sel1 := is_inf x1 y1 in
  let sel2 := is_inf x2 y2 in
  let num := (x1 + x2) * (x1 + x2) - x1 * x2 + a in
  let den0 := y1 + y2 in
  let sel3 := if eq_dec den0 0 then true else false in
  let den := if sel3 then 1 else den0 in
  let l := num / den in
  let xr := l * l - (x1 + x2) in
  let yr := (x1 - xr) * l - y1 in
  let res := (xr, yr) in
  let res := if sel1 then (x2, y2) else res in
  let res := if sel2 then (x1, y1) else res in
  if sel3 then (0, 0) else res.

Definition enc (P : pt) : F * F := match P with None => (0, 0) | Some p => p end.
Definition wf (P : pt) : Prop := match P with None => True | Some (x, y) => on_curve x y end.

Lemma not_inf_on_curve x y : on_curve x y -> is_inf x y = false.
Proof.
  intros H. unfold is_inf. destruct (eq_dec x 0) as [->|]; [|reflexivity]. destruct (eq_dec y 0) as [->|]; [|reflexivity].
  exfalso. apply b_nz. unfold on_curve in H. assert (b = 0 * 0 - (0*0*0 + a*0)) as -> by (rewrite H; ring). ring.
Qed.

(* finite-finite case; the infinity cases need in addition "no point of order two"
   (y = 0), otherwise add_unified (x,0) infinity = infinity: sel3 fires on y1 + 0 = 0. *)
Theorem add_unified_correct_finite x1 y1 x2 y2 :
  on_curve x1 y1 -> on_curve x2 y2 ->
  (y1 + y2 = 0 -> x1 = x2) ->
  (1 + 1 <> 0) ->
  add_unified x1 y1 x2 y2 = enc (padd (Some (x1, y1)) (Some (x2, y2))).
Proof.
  intros HP HQ Hside H2. cbn [padd].
  unfold add_unified. rewrite (not_inf_on_curve _ _ HP), (not_inf_on_curve _ _ HQ).
  destruct (eq_dec (y1 + y2) 0) as [E0|N0].
  - specialize (Hside E0). subst x2. destruct (eq_dec x1 x1); [|congruence]. reflexivity.
  - destruct (eq_dec x1 x2) as [<-|Nx].
    + assert (Ey : y2 = y1).
      { unfold on_curve in HP, HQ. assert (H : (y1 + y2) * (y2 - y1) = 0) by (transitivity (y2*y2 - y1*y1); [ring|rewrite HP, HQ; ring]).
        apply integral in H; [|exact N0]. assert (y2 = (y2 - y1) + y1) as -> by ring. rewrite H. ring. }
      subst y2.
      assert (Hy : y1 <> 0). { intro Hc. apply N0. rewrite Hc. ring. }
      cbn [enc]. f_equal; field; repeat split; auto.
    + assert (Nx' : x2 - x1 <> 0). { intro Hc. apply Nx. assert (x1 = x2 - (x2 - x1)) as -> by ring. rewrite Hc. ring. }
      assert (El : ((x1 + x2) * (x1 + x2) - x1 * x2 + a) / (y1 + y2) = (y2 - y1) / (x2 - x1)).
      { unfold on_curve in HP, HQ.
        assert (H : ((x1 + x2) * (x1 + x2) - x1 * x2 + a) * (x2 - x1) = (y2 - y1) * (y1 + y2)).
        { transitivity (x2*x2*x2 + a*x2 + b - (x1*x1*x1 + a*x1 + b)); [ring|rewrite <- HP, <- HQ; ring]. }
        apply div_eq; [exact N0|exact Nx'|]. rewrite H. ring. }
      cbn [enc]. rewrite El. f_equal; field; auto.
Qed.

(* the exceptional case on j = 0 curves: Q = (zeta x, -y) with zeta^3 = 1, zeta <> 1 *)
Theorem add_unified_exception x y zeta :
  a = 0 -> on_curve x y -> zeta * zeta * zeta = 1 ->
  on_curve (zeta * x) (0 - y) /\ add_unified x y (zeta * x) (0 - y) = (0, 0).
Proof.
  intros Ha HP Hz. split.
  - unfold on_curve in *. rewrite Ha in *.
    transitivity (y * y); [ring|]. rewrite HP.
    transitivity ((zeta * zeta * zeta) * (x * x * x) + 0 * (zeta * x) + b); [rewrite Hz; ring|ring].
  - unfold add_unified. assert (E : y + (0 - y) = 0) by ring. rewrite E.
    destruct (eq_dec 0 0); [reflexivity|congruence].
Qed.

(* infinity cases: (0,0) is not on the curve (b <> 0); a finite operand must not have y = 0 *)
Theorem add_unified_inf_l x2 y2 : on_curve x2 y2 -> y2 <> 0 -> add_unified 0 0 x2 y2 = (x2, y2).
Proof.
  intros HQ Hy. unfold add_unified. rewrite (not_inf_on_curve _ _ HQ).
  assert (I : is_inf 0 0 = true). { unfold is_inf. destruct (eq_dec 0 0); [reflexivity|congruence]. }
  rewrite I. destruct (eq_dec (0 + y2) 0) as [E|N]; [|reflexivity].
  exfalso. apply Hy. rewrite <- E. ring.
Qed.

Theorem add_unified_inf_r x1 y1 : on_curve x1 y1 -> y1 <> 0 -> add_unified x1 y1 0 0 = (x1, y1).
Proof.
  intros HP Hy. unfold add_unified. rewrite (not_inf_on_curve _ _ HP).
  assert (I : is_inf 0 0 = true). { unfold is_inf. destruct (eq_dec 0 0); [reflexivity|congruence]. }
  rewrite I. destruct (eq_dec (y1 + 0) 0) as [E|N]; [|reflexivity].
  exfalso. apply Hy. rewrite <- E. ring.
Qed.

Theorem add_unified_inf_inf : add_unified 0 0 0 0 = (0, 0).
Proof.
  unfold add_unified. destruct (eq_dec (0 + 0) 0) as [E|N]; [reflexivity|]. exfalso. apply N. ring.
Qed.

(* the exceptional pair is not a pair of opposite points: the group law's answer is a finite point *)
Theorem add_unified_exception_refuted x y zeta :
  a = 0 -> on_curve x y -> zeta * zeta * zeta = 1 -> zeta <> 1 -> x <> 0 ->
  add_unified x y (zeta * x) (0 - y) = (0, 0) /\
  exists p, padd (Some (x, y)) (Some (zeta * x, 0 - y)) = Some p.
Proof.
  intros Ha HP Hz Hz1 Hx. split; [exact (proj2 (add_unified_exception x y zeta Ha HP Hz))|].
  cbn [padd]. destruct (eq_dec x (zeta * x)) as [E|N]; [|eexists; reflexivity].
  exfalso. apply Hz1. assert (H : x * (zeta - 1) = 0) by (transitivity (zeta * x - x); [ring|rewrite <- E; ring]).
  apply integral in H; [|exact Hx]. transitivity ((zeta - 1) + 1); [ring|]. rewrite H. ring.
Qed.
End W.
