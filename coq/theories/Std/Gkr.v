(* C19: the GKR verifier of std/gkr (gkr.go Verify, eqTimesGateEvalSumcheckLazyClaims, claimsManager;
   sumcheck.go verifySumcheck), over any field, as an executable Gallina function, and its soundness.

   Data.  A circuit is a list of wires in topological order (an input wire, or a gate applied to earlier
   wires); 2^n instances; a "claim" on wire i is a pair (x, y) read as "the multilinear extension of the
   values of wire i over the instances, at the point x, is y".  [mle n W x] is that extension
   (sum over the hypercube of eq(x,b) W(b)), [eqp] the eq polynomial as polynomial.EvalEq computes it.
   Per wire the verifier (processing wires from the last to the first)
   - combines the wire's claims with powers of a coefficient c ([horner]: Polynomial.Eval / the loop of
     verifyFinalEval), runs the sum-check rounds on the proof's round polynomials, which are sent as their
     values at 1..d, the value at 0 being DEFINED as claim - p(1) ([rounds], [round_poly]);
   - checks the final value against E(r) * gate(claimed evaluations of the input wires at r), and records
     one new claim (r, v) per distinct input wire ([gate_term], [gen_claims]); an input wire with a single
     claim is checked directly against the assignment ([no_proof]).
   [build_runs] is the claims manager (who gets which claim, in which order), [accept_wire] the checks made
   for one wire, [gkr_exec] the whole verifier; [closure_b] / [outputs_b] re-check on the computed run that
   every created claim reached the claims of the wire it is about and that every output wire carries the
   verifier's own claim (always true when the manager is right: they make the soundness proof independent
   of the manager's bookkeeping).

   Theorems (no axioms):
   - [mle_bool]: the extension agrees with the table on the hypercube;  [hsum_horner]: the hypercube sum of
     (combined eq terms) * T is the combination of the extensions of T at the claim points;
   - [lde_node]: InterpolateLDE from values at 0..d returns the i-th value at i, provided 0..d are distinct
     field elements (characteristic > d) — so the round polynomial satisfies p(0) + p(1) = claim by
     construction, which is the only "check" a round of verifySumcheck makes;
   - [gkr_claims_true]: if every wire's checks pass and no "lucky" event occurs, every claim the verifier
     ever handled is TRUE of the direct evaluation V of the circuit (any V with V_i = gate(V_ins) on the
     hypercube and V_i = assignment on input wires), by strong induction on the wire index;
   - [gkr_exec_sound]: if the executable verifier accepts, then for every output wire the claimed output
     table and the direct evaluation have the same extension at the first challenge (and by [mle_bool] two
     different tables have different extensions: a non-zero multilinear polynomial vanishing at rho).
   The lucky events ([no_luck]) are exactly the probabilistic residue: a round challenge at which a wrong
   round polynomial agrees with the honest one ([lucky_round], Std/Sumcheck.v), and a combination
   coefficient that is a root of the polynomial whose coefficients are (claimed - true) evaluations; each
   has probability <= degree/|F| for a uniformly random challenge; that the Fiat-Shamir challenges behave
   so is the random-oracle assumption.
   Tie to the code: Std/GkrCases.v evaluates [wire_verdicts] and [gkr_exec] on what the real in-circuit
   verifier received and derived (hook) and compares with the outcome of each of its assertions. *)
From Coq Require Import Arith Lia Ring Field List Bool Wf_nat.
From GnarkV Require Import Std.Sumcheck.
Import ListNotations.

Section Gkr.
Variable F : Type.
Variables (zero one : F) (add mul sub : F -> F -> F) (opp : F -> F) (div : F -> F -> F) (inv : F -> F).
Hypothesis Fth : field_theory zero one add mul sub opp div inv (@eq F).
Hypothesis eq_dec : forall x y : F, {x = y} + {x <> y}.
Add Field Ffgkr : Fth.
Notation "0" := zero. Notation "1" := one.
Infix "+" := add. Infix "*" := mul. Infix "-" := sub.

Local Notation hsum := (hsum F zero one add).
Local Notation verify := (verify F zero one add).
Local Notation lucky_round := (lucky_round F zero one add).
Local Notation lde := (lde F zero one add mul sub inv).
Local Notation fnat := (fnat F zero one add).
Local Notation lagrange_basis := (lagrange_basis F zero one add mul sub inv).

(* ---------- hypercube sums ---------- *)
Fixpoint boolpt (n : nat) (b : list F) : Prop :=
  match n, b with
  | O, [] => True
  | S k, a :: b' => (a = 0 \/ a = 1) /\ boolpt k b'
  | _, _ => False
  end.

Lemma hsum_ext_bool n : forall g g', (forall b, boolpt n b -> g b = g' b) -> hsum n g = hsum n g'.
Proof.
  induction n as [|k IH]; intros g g' H; cbn [Sumcheck.hsum].
  - apply H. exact I.
  - f_equal; apply IH; intros b Hb; apply H; cbn; (split; [|exact Hb]); [left|right]; reflexivity.
Qed.

Lemma hsum_scale n : forall k g, hsum n (fun b => k * g b) = k * hsum n g.
Proof.
  induction n as [|m IH]; intros k g; cbn [Sumcheck.hsum]; [reflexivity|].
  rewrite (IH k (fun bs => g (0 :: bs))), (IH k (fun bs => g (1 :: bs))). ring.
Qed.

Lemma hsum_add n : forall g g', hsum n (fun b => g b + g' b) = hsum n g + hsum n g'.
Proof.
  induction n as [|m IH]; intros g g'; cbn [Sumcheck.hsum]; [reflexivity|].
  rewrite (IH (fun bs => g (0 :: bs)) (fun bs => g' (0 :: bs))), (IH (fun bs => g (1 :: bs)) (fun bs => g' (1 :: bs))). ring.
Qed.

Lemma hsum_zero n : hsum n (fun _ => 0) = 0.
Proof. induction n as [|m IH]; cbn [Sumcheck.hsum]; [reflexivity|]. rewrite IH. ring. Qed.

(* ---------- eq polynomial and multilinear extension ---------- *)
Fixpoint eqp (x r : list F) : F :=
  match x, r with
  | a :: x', b :: r' => (a * b + a * b + 1 - a - b) * eqp x' r'
  | _, _ => 1
  end.

Definition mle (n : nat) (W : list F -> F) (x : list F) : F := hsum n (fun b => eqp x b * W b).

Lemma mle_bool n : forall W b, boolpt n b -> mle n W b = W b.
Proof.
  unfold mle. induction n as [|k IH]; intros W b Hb.
  - destruct b; [|contradiction]. cbn. ring.
  - destruct b as [|a b']; [contradiction|]. destruct Hb as [Ha Hb]. cbn [Sumcheck.hsum].
    rewrite (hsum_ext F zero one add k (fun bs => eqp (a :: b') (0 :: bs) * W (0 :: bs))
               (fun bs => (1 - a) * (eqp b' bs * W (0 :: bs)))) by (intro bs; cbn [eqp]; ring).
    rewrite (hsum_ext F zero one add k (fun bs => eqp (a :: b') (1 :: bs) * W (1 :: bs))
               (fun bs => a * (eqp b' bs * W (1 :: bs)))) by (intro bs; cbn [eqp]; ring).
    rewrite !hsum_scale.
    rewrite (IH (fun bs => W (0 :: bs)) b' Hb), (IH (fun bs => W (1 :: bs)) b' Hb).
    destruct Ha as [-> | ->]; ring.
Qed.

Lemma mle_ext_bool n W W' x : (forall b, boolpt n b -> W b = W' b) -> mle n W x = mle n W' x.
Proof. intro H. unfold mle. apply hsum_ext_bool. intros b Hb. rewrite (H b Hb). reflexivity. Qed.

(* ---------- random linear combination of claims ---------- *)
Definition horner (c : F) (l : list F) : F := fold_right (fun y acc => y + c * acc) 0 l.

Lemma hsum_horner n c (T : list F -> F) : forall xs,
  hsum n (fun b => horner c (map (fun xk => eqp xk b) xs) * T b)
  = horner c (map (fun xk => mle n T xk) xs).
Proof.
  induction xs as [|x xs IH]; cbn [map horner fold_right].
  - rewrite (hsum_ext F zero one add n _ (fun _ => 0)) by (intro; ring). apply hsum_zero.
  - fold (horner c (map (fun xk => mle n T xk) xs)). rewrite <- IH.
    rewrite <- hsum_scale. unfold mle. rewrite <- hsum_add. apply hsum_ext. intro b.
    fold (horner c (map (fun xk => eqp xk b) xs)). ring.
Qed.

(* ---------- Lagrange interpolation at the nodes ---------- *)
Section Lagrange.
Variable d : nat.
Hypothesis Hchar : forall i j, i <= d -> j <= d -> i <> j -> fnat i <> fnat j.

Let fstep (i : nat) (x : F) := fun acc j => if Nat.eqb j i then acc else acc * ((x - fnat j) * inv (fnat i - fnat j)).

Lemma basis_same i l : i <= d -> (forall j, In j l -> j <= d) -> forall acc, fold_left (fstep i (fnat i)) l acc = acc.
Proof.
  intros Hi. induction l as [|j l IH]; intros Hl acc; [reflexivity|]. cbn [fold_left].
  rewrite IH by (intros; apply Hl; right; assumption). unfold fstep.
  destruct (Nat.eqb_spec j i) as [E|N]; [reflexivity|].
  assert (fnat i - fnat j <> 0).
  { intro Hc. apply (Hchar i j); [exact Hi | apply Hl; left; reflexivity | intro; apply N; symmetry; assumption |].
    transitivity ((fnat i - fnat j) + fnat j); [ring|]. rewrite Hc. ring. }
  field. assumption.
Qed.

Lemma fold_zero i x l : fold_left (fstep i x) l 0 = 0.
Proof. induction l as [|j l IH]; [reflexivity|]. cbn [fold_left]. unfold fstep at 2. destruct (Nat.eqb j i); [exact IH|]. 
  replace (0 * ((x - fnat j) * inv (fnat i - fnat j))) with 0 by ring. exact IH. Qed.

Lemma basis_other i k l : k <> i -> In k l -> forall acc, fold_left (fstep i (fnat k)) l acc = 0.
Proof.
  intros Hki. induction l as [|j l IH]; intros Hin acc; [contradiction|]. cbn [fold_left].
  destruct (Nat.eq_dec j k) as [E|N].
  - subst j. unfold fstep at 2. destruct (Nat.eqb_spec k i) as [E|_]; [contradiction|].
    replace (acc * ((fnat k - fnat k) * inv (fnat i - fnat k))) with 0 by ring. apply fold_zero.
  - apply IH. destruct Hin as [E|Hin]; [contradiction|exact Hin].
Qed.

Lemma basis_at i k : i <= d -> k <= d -> lagrange_basis d i (fnat k) = if Nat.eqb k i then 1 else 0.
Proof.
  intros Hi Hk. unfold Sumcheck.lagrange_basis. change (fold_left (fstep i (fnat k)) (seq 0 (S d)) 1 = if Nat.eqb k i then 1 else 0).
  destruct (Nat.eqb_spec k i) as [E|N].
  - subst k. apply basis_same; [exact Hi|]. intros j Hj. apply in_seq in Hj. lia.
  - apply basis_other; [exact N|]. apply in_seq. lia.
Qed.

Lemma lde_sum k : forall vs s acc, k <= d -> s + length vs <= S d ->
  fold_left (fun acc iv => acc + snd iv * lagrange_basis d (fst iv) (fnat k)) (combine (seq s (length vs)) vs) acc
  = acc + (if (Nat.leb s k && Nat.ltb k (s + length vs))%bool then nth (Nat.sub k s) vs 0 else 0).
Proof.
  induction vs as [|v vs IH]; intros s acc Hk Hs.
  - cbn [length seq combine fold_left].
    assert (E : nth (Nat.sub k s) (@nil F) 0 = 0) by (destruct (Nat.sub k s); reflexivity). rewrite E.
    destruct (Nat.leb s k && Nat.ltb k (s + 0))%bool; ring.
  - cbn [length seq combine fold_left fst snd]. rewrite IH by (cbn [length] in Hs; lia).
    rewrite basis_at by (cbn [length] in Hs; lia).
    cbn [length].
    destruct (Nat.eqb_spec k s) as [E|N].
    + subst s. replace (Nat.sub k k) with 0%nat by lia. cbn [nth].
      replace (Nat.leb (S k) k) with false by (symmetry; apply Nat.leb_gt; lia). cbn [andb].
      replace (Nat.leb k k) with true by (symmetry; apply Nat.leb_le; lia).
      replace (Nat.ltb k (k + S (length vs))) with true by (symmetry; apply Nat.ltb_lt; lia). cbn [andb]. ring.
    + destruct (Nat.leb_spec (S s) k) as [L|L].
      * replace (Nat.leb s k) with true by (symmetry; apply Nat.leb_le; lia).
        replace (Nat.add (S s) (length vs)) with (Nat.add s (S (length vs))) by lia. cbn [andb].
        destruct (Nat.ltb k (s + S (length vs))); [|ring].
        replace (Nat.sub k s) with (S (Nat.sub k (S s))) by lia. cbn [nth]. ring.
      * cbn [andb]. replace (Nat.leb s k) with false by (symmetry; apply Nat.leb_gt; lia). cbn [andb]. ring.
Qed.

Lemma lde_node vals k : length vals = S d -> k <= d -> lde vals (fnat k) = nth k vals 0.
Proof.
  intros L Hk. unfold Sumcheck.lde. rewrite L. cbn [Nat.pred].
  rewrite <- L at 1. rewrite lde_sum by lia.
  replace (Nat.leb 0 k) with true by (symmetry; apply Nat.leb_le; lia).
  replace (Nat.ltb k (0 + length vals)) with true by (symmetry; apply Nat.ltb_lt; lia).
  cbn [andb]. rewrite Nat.sub_0_r. ring.
Qed.
End Lagrange.

(* ---------- the sum-check rounds as std/gkr/sumcheck.go runs them ---------- *)
(* a round polynomial is sent as its values at 1..d; the value at 0 is defined as claim - p(1) *)
Definition round_poly (claim : F) (p : list F) : F -> F := lde ((claim - hd 0 p) :: p).

Fixpoint rounds (d : nat) (claim : F) (polys : list (list F)) (rs : list F) : option F :=
  match polys, rs with
  | [], [] => Some claim
  | p :: polys', r :: rs' =>
      if Nat.eqb (length p) d then rounds d (round_poly claim p r) polys' rs' else None
  | _, _ => None
  end.

Fixpoint hs_of (claim : F) (polys : list (list F)) (rs : list F) : list (F -> F) :=
  match polys, rs with
  | p :: polys', r :: rs' => round_poly claim p :: hs_of (round_poly claim p r) polys' rs'
  | _, _ => []
  end.

Lemma round_poly_01 d claim p :
  (forall i j, i <= d -> j <= d -> i <> j -> fnat i <> fnat j) -> 1 <= d -> length p = d ->
  round_poly claim p 0 + round_poly claim p 1 = claim.
Proof.
  intros Hchar Hd L. unfold round_poly.
  assert (L' : length ((claim - hd 0 p) :: p) = S d) by (cbn [length]; rewrite L; reflexivity).
  pose proof (lde_node d Hchar _ 0%nat L' ltac:(lia)) as H0.
  pose proof (lde_node d Hchar _ 1%nat L' ltac:(lia)) as H1.
  cbn [Sumcheck.fnat nth] in H0, H1.
  replace (1 + 0) with 1 in H1 by ring. rewrite H0, H1.
  destruct p as [|p0 p']; [cbn in L; lia|]. cbn [hd nth]. ring.
Qed.

Lemma rounds_verify d (Hchar : forall i j, i <= d -> j <= d -> i <> j -> fnat i <> fnat j) (Hd : 1 <= d) :
  forall polys rs claim (g : list F -> F) fin,
  rounds d claim polys rs = Some fin -> fin = g rs ->
  verify (length rs) g claim (hs_of claim polys rs) rs.
Proof.
  induction polys as [|p polys IH]; intros rs claim g fin HR HF.
  - destruct rs; [|discriminate]. cbn in *. injection HR as <-. exact HF.
  - destruct rs as [|r rs]; [discriminate|]. cbn [rounds] in HR.
    destruct (Nat.eqb_spec (length p) d) as [L|]; [|discriminate].
    cbn [length hs_of Sumcheck.verify]. split.
    + apply (round_poly_01 d); assumption.
    + apply (IH rs _ (fun bs => g (r :: bs)) fin HR HF).
Qed.

(* ---------- circuits, runs, the verifier of std/gkr/gkr.go ---------- *)
Variable G : Type.
Variable gate_eval : G -> list F -> F.
Variable gate_deg : G -> nat.

Record wire := { w_gate : option G; w_ins : list nat }.   (* None: input wire *)
Record wrun := { r_claims : list (list F * F); r_c : F; r_polys : list (list F); r_rs : list F; r_vs : list F }.

Variable n : nat.                      (* number of sum-check variables: 2^n instances *)
Variable asg : nat -> list F -> F.     (* the assignment handed to Verify: input wires and (claimed) output wires *)

Definition feqb (x y : F) : bool := if eq_dec x y then true else false.
Lemma feqb_true x y : feqb x y = true -> x = y.
Proof. unfold feqb. destruct (eq_dec x y); [trivial|discriminate]. Qed.
Fixpoint lfeqb (a b : list F) : bool :=
  match a, b with
  | [], [] => true
  | x :: a', y :: b' => feqb x y && lfeqb a' b'
  | _, _ => false
  end.
Lemma lfeqb_true : forall a b, lfeqb a b = true -> a = b.
Proof. induction a as [|x a IH]; destruct b as [|y b]; cbn; intro H; try discriminate; [reflexivity|].
  apply andb_prop in H. destruct H as [H1 H2]. apply feqb_true in H1. apply IH in H2. congruence. Qed.
Definition claim_eqb (a b : list F * F) : bool := lfeqb (fst a) (fst b) && feqb (snd a) (snd b).
Lemma claim_eqb_true a b : claim_eqb a b = true -> a = b.
Proof. unfold claim_eqb. intro H. apply andb_prop in H. destruct H as [H1 H2]. apply lfeqb_true in H1. apply feqb_true in H2.
  destruct a, b; cbn in *; congruence. Qed.

Fixpoint uniq (l : list nat) : list nat :=
  match l with [] => [] | a :: r => a :: filter (fun b => negb (Nat.eqb b a)) (uniq r) end.
Lemma uniq_in j : forall l, In j l -> In j (uniq l).
Proof. induction l as [|a l IH]; intro H; [contradiction|]. cbn [uniq]. destruct (Nat.eq_dec a j) as [E|N]; [left; exact E|].
  right. apply filter_In. split; [apply IH; destruct H; [contradiction|assumption]|].
  apply negb_true_iff. apply Nat.eqb_neq. intro; apply N; symmetry; assumption. Qed.

Fixpoint assoc (j : nat) (l : list (nat * F)) : F :=
  match l with [] => 0 | (k, v) :: r => if Nat.eqb j k then v else assoc j r end.
Lemma assoc_in j : forall l, In j (map fst l) -> In (j, assoc j l) l.
Proof. induction l as [|[k v] l IH]; intro H; [contradiction|]. cbn [assoc]. destruct (Nat.eqb_spec j k) as [E|N].
  - left. subst; reflexivity.
  - right. apply IH. destruct H as [H|H]; [cbn in H; congruence|exact H]. Qed.
Lemma map_fst_combine {A B} : forall (a : list A) (b : list B), length a = length b -> map fst (combine a b) = a.
Proof. induction a as [|x a IH]; destruct b as [|y b]; cbn; intro L; try discriminate; [reflexivity|]. f_equal. apply IH. lia. Qed.

Definition nb_users (ws : list wire) (i : nat) : nat := length (filter (fun w => existsb (Nat.eqb i) (w_ins w)) ws).
Definition is_output ws i := Nat.eqb (nb_users ws i) 0.
Definition nb_claims ws i := if is_output ws i then 1%nat else nb_users ws i.
Definition no_proof ws i (w : wire) : bool := match w_gate w with None => Nat.eqb (nb_claims ws i) 1 | Some _ => false end.
Definition wire_deg (w : wire) : nat := S (match w_gate w with None => 1 | Some g => gate_deg g end).

Definition Eat (c : F) (xs : list (list F)) (x : list F) : F := horner c (map (fun xk => eqp xk x) xs).
Definition in_pairs (w : wire) (R : wrun) : list (nat * F) := combine (uniq (w_ins w)) (r_vs R).
Definition gate_term (i : nat) (w : wire) (R : wrun) : F :=
  match w_gate w with
  | None => mle n (asg i) (r_rs R)
  | Some g => gate_eval g (map (fun j => assoc j (in_pairs w R)) (w_ins w))
  end.
Definition claim_of (R : wrun) : F := horner (r_c R) (map snd (r_claims R)).

Definition accept_wire (ws : list wire) (i : nat) (w : wire) (R : wrun) : bool :=
  forallb (fun cl => Nat.eqb (length (fst cl)) n) (r_claims R) &&
  (if no_proof ws i w then
     match r_claims R, r_polys R, r_vs R with
     | [(x, y)], [], [] => feqb y (mle n (asg i) x)
     | _, _, _ => false
     end
   else
     Nat.eqb (length (r_rs R)) n &&
     (match w_gate w with None => true | Some _ => Nat.eqb (length (r_vs R)) (length (uniq (w_ins w))) end) &&
     match rounds (wire_deg w) (claim_of R) (r_polys R) (r_rs R) with
     | Some fin => feqb fin (Eat (r_c R) (map fst (r_claims R)) (r_rs R) * gate_term i w R)
     | None => false
     end).

(* claims a gate wire's final evaluation check creates on its input wires *)
Definition gen_claims (w : wire) (R : wrun) : list (nat * (list F * F)) :=
  match w_gate w with None => [] | Some _ => map (fun jv => (fst jv, (r_rs R, snd jv))) (in_pairs w R) end.

Definition dummy_run : wrun := {| r_claims := []; r_c := 0; r_polys := []; r_rs := []; r_vs := [] |}.
Definition closure_b (ws : list wire) (Rs : list wrun) : bool :=
  forallb (fun wR => forallb (fun jc => existsb (claim_eqb (snd jc)) (r_claims (nth (fst jc) Rs dummy_run)))
                             (gen_claims (fst wR) (snd wR))) (combine ws Rs).
Definition sorted_b (ws : list wire) : bool :=
  forallb (fun iw => forallb (fun j => Nat.ltb j (fst iw)) (w_ins (snd iw))) (combine (seq 0 (length ws)) ws).
Definition accept_all (ws : list wire) (Rs : list wrun) : bool :=
  Nat.eqb (length ws) (length Rs) &&
  forallb (fun iwR => accept_wire ws (fst iwR) (fst (snd iwR)) (snd (snd iwR))) (combine (seq 0 (length ws)) (combine ws Rs)).

(* the direct evaluation of the circuit, instance by instance *)
Definition consistent (ws : list wire) (V : nat -> list F -> F) : Prop :=
  forall i w, nth_error ws i = Some w -> forall b, boolpt n b ->
    V i b = match w_gate w with None => asg i b | Some g => gate_eval g (map (fun j => V j b) (w_ins w)) end.

Definition g_true (V : nat -> list F -> F) (i : nat) (w : wire) (R : wrun) : list F -> F :=
  fun x => Eat (r_c R) (map fst (r_claims R)) x *
           match w_gate w with
           | None => mle n (asg i) x
           | Some g => gate_eval g (map (fun j => mle n (V j) x) (w_ins w))
           end.
Definition true_vals (V : nat -> list F -> F) (i : nat) (R : wrun) : list F := map (fun cl => mle n (V i) (fst cl)) (r_claims R).

(* the events of probability <= deg/|F| each (Schwartz-Zippel): a round challenge hits a root of the
   difference between the prover's polynomial and the honest one; the combination coefficient hits a root
   of the polynomial whose coefficients are the differences between claimed and true evaluations *)
Definition no_luck (ws : list wire) (Rs : list wrun) (V : nat -> list F -> F) : Prop :=
  forall i w R, nth_error ws i = Some w -> nth_error Rs i = Some R -> no_proof ws i w = false ->
    ~ lucky_round n (g_true V i w R) (hs_of (claim_of R) (r_polys R) (r_rs R)) (r_rs R) /\
    ~ (map snd (r_claims R) <> true_vals V i R /\ claim_of R = horner (r_c R) (true_vals V i R)).

Definition char_ok (ws : list wire) : Prop :=
  forall w, In w ws -> forall i j, i <= wire_deg w -> j <= wire_deg w -> i <> j -> fnat i <> fnat j.

(* ---------- list plumbing ---------- *)
Lemma in_combine_seq {A} : forall (l : list A) s i x, nth_error l i = Some x -> In (Nat.add s i, x) (combine (seq s (length l)) l).
Proof.
  induction l as [|a l IH]; intros s i x H; [destruct i; discriminate|].
  destruct i as [|i]; cbn in H |- *.
  - injection H as <-. left. f_equal. lia.
  - right. replace (Nat.add s (S i)) with (Nat.add (S s) i) by lia. apply IH. exact H.
Qed.
Lemma nth_error_combine {A B} : forall (a : list A) (b : list B) i x y,
  nth_error a i = Some x -> nth_error b i = Some y -> nth_error (combine a b) i = Some (x, y).
Proof.
  induction a as [|a0 a IH]; intros b i x y Ha Hb; [destruct i; discriminate|].
  destruct b as [|b0 b]; [destruct i; discriminate|].
  destruct i as [|i]; cbn in *; [congruence|]. apply IH; assumption.
Qed.
Lemma map_eq_in {A B} (f g : A -> B) : forall l, map f l = map g l -> forall x, In x l -> f x = g x.
Proof. induction l as [|a l IH]; intros H x Hx; [contradiction|]. cbn in H. injection H as H0 H1.
  destruct Hx as [<-|Hx]; [exact H0|apply IH; assumption]. Qed.

Section Soundness.
Variables (ws : list wire) (Rs : list wrun) (V : nat -> list F -> F).
Hypothesis Hsorted : sorted_b ws = true.
Hypothesis Hcons : consistent ws V.
Hypothesis Hchar : char_ok ws.
Hypothesis Hacc : accept_all ws Rs = true.
Hypothesis Hclo : closure_b ws Rs = true.
Hypothesis Hluck : no_luck ws Rs V.

Lemma acc_wire i w R : nth_error ws i = Some w -> nth_error Rs i = Some R -> accept_wire ws i w R = true.
Proof.
  intros Hw HR. unfold accept_all in Hacc. apply andb_prop in Hacc. destruct Hacc as [HL HA].
  rewrite forallb_forall in HA.
  pose proof (nth_error_combine ws Rs i w R Hw HR) as Hc.
  pose proof (in_combine_seq (combine ws Rs) 0 i (w, R) Hc) as Hin.
  rewrite combine_length in Hin. apply Nat.eqb_eq in HL. rewrite <- HL, Nat.min_id in Hin.
  apply (HA _ Hin).
Qed.

Lemma ins_lt i w : nth_error ws i = Some w -> forall j, In j (w_ins w) -> j < i.
Proof.
  intros Hw j Hj. unfold sorted_b in Hsorted. rewrite forallb_forall in Hsorted.
  pose proof (Hsorted _ (in_combine_seq ws 0 i w Hw)) as H. cbn [fst snd] in H.
  rewrite forallb_forall in H. apply H in Hj. apply Nat.ltb_lt in Hj. exact Hj.
Qed.

Lemma closure_in i w R : nth_error ws i = Some w -> nth_error Rs i = Some R ->
  forall j c, In (j, c) (gen_claims w R) -> In c (r_claims (nth j Rs dummy_run)).
Proof.
  intros Hw HR j c Hin. unfold closure_b in Hclo. rewrite forallb_forall in Hclo.
  pose proof (nth_error_In _ _ (nth_error_combine ws Rs i w R Hw HR)) as Hc.
  pose proof (Hclo _ Hc) as H. cbn [fst snd] in H. rewrite forallb_forall in H.
  pose proof (H _ Hin) as E. cbn [fst snd] in E. apply existsb_exists in E. destruct E as [c' [Hc' E]].
  apply claim_eqb_true in E. subst c'. exact Hc'.
Qed.

Lemma len_eq : length ws = length Rs.
Proof. unfold accept_all in Hacc. apply andb_prop in Hacc. destruct Hacc as [HL _]. apply Nat.eqb_eq in HL. exact HL. Qed.

Theorem gkr_claims_true : forall i w R, nth_error ws i = Some w -> nth_error Rs i = Some R ->
  forall cl, In cl (r_claims R) -> snd cl = mle n (V i) (fst cl).
Proof.
  induction i as [i IH] using lt_wf_ind. intros w R Hw HR.
  pose proof (acc_wire i w R Hw HR) as A. unfold accept_wire in A.
  apply andb_prop in A. destruct A as [Alen A].
  destruct (no_proof ws i w) eqn:NP.
  - (* input wire with a single claim: checked directly against the assignment *)
    unfold no_proof in NP. destruct (w_gate w) eqn:Gw; [discriminate|].
    destruct (r_claims R) as [|[x y] [|? ?]] eqn:Ecl; try discriminate.
    destruct (r_polys R); [|discriminate]. destruct (r_vs R); [|discriminate].
    apply feqb_true in A. intros cl [<-|[]]. cbn [fst snd]. rewrite A.
    apply mle_ext_bool. intros b Hb. rewrite (Hcons i w Hw b Hb), Gw. reflexivity.
  - apply andb_prop in A. destruct A as [A Ard]. apply andb_prop in A. destruct A as [Ars Avs].
    apply Nat.eqb_eq in Ars.
    destruct (rounds (wire_deg w) (claim_of R) (r_polys R) (r_rs R)) as [fin|] eqn:ER; [|discriminate].
    apply feqb_true in Ard.
    (* the final evaluation the verifier computed is the true polynomial at the challenges *)
    assert (Hfin : fin = g_true V i w R (r_rs R)).
    { rewrite Ard. unfold g_true, gate_term. f_equal. destruct (w_gate w) as [g|] eqn:Gw; [|reflexivity].
      f_equal. apply map_ext_in. intros j Hj.
      apply Nat.eqb_eq in Avs.
      assert (Hp : In (j, assoc j (in_pairs w R)) (in_pairs w R)).
      { apply assoc_in. unfold in_pairs. rewrite map_fst_combine by (symmetry; exact Avs). apply uniq_in. exact Hj. }
      assert (Hg : In (j, (r_rs R, assoc j (in_pairs w R))) (gen_claims w R)).
      { unfold gen_claims. rewrite Gw. apply in_map_iff. exists (j, assoc j (in_pairs w R)). split; [reflexivity|exact Hp]. }
      pose proof (closure_in i w R Hw HR _ _ Hg) as Hc.
      pose proof (ins_lt i w Hw j Hj) as Hlt.
      assert (Hjl : j < length ws) by (apply Nat.lt_trans with i; [exact Hlt|]; apply nth_error_Some; congruence).
      destruct (nth_error ws j) as [wj|] eqn:Hwj; [|apply nth_error_None in Hwj; lia].
      assert (HRj : nth_error Rs j = Some (nth j Rs dummy_run)) by (apply nth_error_nth'; rewrite <- len_eq; exact Hjl).
      exact (IH j Hlt wj _ Hwj HRj _ Hc). }
    assert (Hch : forall a b, a <= wire_deg w -> b <= wire_deg w -> a <> b -> fnat a <> fnat b).
    { apply Hchar. apply nth_error_In with i. exact Hw. }
    assert (Hd : 1 <= wire_deg w) by (unfold wire_deg; lia).
    pose proof (rounds_verify (wire_deg w) Hch Hd _ _ _ (g_true V i w R) fin ER Hfin) as HV.
    rewrite Ars in HV.
    destruct (Hluck i w R Hw HR NP) as [NL1 NL2].
    (* the true sum over the hypercube *)
    assert (Hsum : hsum n (g_true V i w R) = horner (r_c R) (true_vals V i R)).
    { unfold g_true, Eat, true_vals.
      rewrite (hsum_ext_bool n _ (fun b => horner (r_c R) (map (fun xk => eqp xk b) (map fst (r_claims R))) * V i b)).
      - rewrite hsum_horner. rewrite map_map. reflexivity.
      - intros b Hb. f_equal. rewrite (Hcons i w Hw b Hb). destruct (w_gate w) as [g|].
        + f_equal. apply map_ext. intro j. apply mle_bool. exact Hb.
        + apply mle_bool. exact Hb. }
    destruct (eq_dec (claim_of R) (hsum n (g_true V i w R))) as [E|NE].
    + rewrite Hsum in E.
      destruct (list_eq_dec eq_dec (map snd (r_claims R)) (true_vals V i R)) as [EL|NEL].
      * intros cl Hcl. unfold true_vals in EL. exact (map_eq_in _ _ _ EL cl Hcl).
      * exfalso. apply NL2. split; assumption.
    + exfalso. apply NL1. apply (sumcheck_sound_core F zero one add eq_dec n _ _ _ _ HV NE).
Qed.

(* the claim the verifier itself creates on an output wire: the claimed outputs and the direct evaluation
   have the same multilinear extension at the first challenge *)
Corollary gkr_output_sound rho i w R : nth_error ws i = Some w -> nth_error Rs i = Some R ->
  existsb (claim_eqb (rho, mle n (asg i) rho)) (r_claims R) = true ->
  mle n (asg i) rho = mle n (V i) rho.
Proof.
  intros Hw HR E. apply existsb_exists in E. destruct E as [cl [Hcl E]]. apply claim_eqb_true in E. subst cl.
  exact (gkr_claims_true i w R Hw HR _ Hcl).
Qed.
End Soundness.

(* ---------- the claims manager of gkr.go Verify, executable ---------- *)
Record wproof := { p_polys : list (list F); p_vs : list F }.
Record wchal := { c_comb : F; c_rs : list F }.
Definition dummy_proof : wproof := {| p_polys := []; p_vs := [] |}.
Definition dummy_chal : wchal := {| c_comb := 0; c_rs := [] |}.

Fixpoint upd {A} (i : nat) (f : A -> A) (l : list A) : list A :=
  match l, i with
  | [], _ => []
  | a :: r, O => f a :: r
  | a :: r, S k => a :: upd k f r
  end.
Definition add_claims (tbl : list (list (list F * F))) (gc : list (nat * (list F * F))) :=
  fold_left (fun t jc => upd (fst jc) (fun l => l ++ [snd jc]) t) gc tbl.

(* wires are processed from the last to the first; a wire's claims are the verifier's own claim (output
   wires) followed by the claims created, in processing order, by the wires that use it *)
Fixpoint run_rev (ws : list wire) (rho : list F) (proofs : list wproof) (chals : list wchal)
                 (todo : list (nat * wire)) (tbl : list (list (list F * F))) : list wrun :=
  match todo with
  | [] => []
  | (i, w) :: rest =>
      let cls := (if is_output ws i then [(rho, mle n (asg i) rho)] else []) ++ nth i tbl [] in
      let R := {| r_claims := cls; r_c := c_comb (nth i chals dummy_chal); r_polys := p_polys (nth i proofs dummy_proof);
                  r_rs := c_rs (nth i chals dummy_chal); r_vs := p_vs (nth i proofs dummy_proof) |} in
      R :: run_rev ws rho proofs chals rest (add_claims tbl (gen_claims w R))
  end.
Definition build_runs (ws : list wire) (rho : list F) (proofs : list wproof) (chals : list wchal) : list wrun :=
  rev (run_rev ws rho proofs chals (rev (combine (seq 0 (length ws)) ws)) (map (fun _ => []) ws)).

Definition outputs_b (ws : list wire) (rho : list F) (Rs : list wrun) : bool :=
  forallb (fun iR => if is_output ws (fst iR) then existsb (claim_eqb (rho, mle n (asg (fst iR)) rho)) (r_claims (snd iR)) else true)
          (combine (seq 0 (length Rs)) Rs).

Definition wire_verdicts (ws : list wire) (Rs : list wrun) : list bool :=
  map (fun iwR => accept_wire ws (fst iwR) (fst (snd iwR)) (snd (snd iwR))) (combine (seq 0 (length ws)) (combine ws Rs)).

Definition gkr_exec (ws : list wire) (rho : list F) (proofs : list wproof) (chals : list wchal) : bool :=
  let Rs := build_runs ws rho proofs chals in
  Nat.eqb (length rho) n && sorted_b ws && accept_all ws Rs && closure_b ws Rs && outputs_b ws rho Rs.

Theorem gkr_exec_sound ws rho proofs chals V :
  gkr_exec ws rho proofs chals = true -> consistent ws V -> char_ok ws ->
  no_luck ws (build_runs ws rho proofs chals) V ->
  forall i w, nth_error ws i = Some w -> is_output ws i = true -> mle n (asg i) rho = mle n (V i) rho.
Proof.
  unfold gkr_exec. intros H Hc Hch Hl i w Hw Ho.
  apply andb_prop in H. destruct H as [H H5]. apply andb_prop in H. destruct H as [H H4].
  apply andb_prop in H. destruct H as [H H3]. apply andb_prop in H. destruct H as [_ H2].
  set (Rs := build_runs ws rho proofs chals) in *.
  assert (HL : length ws = length Rs) by (apply (len_eq ws Rs H3)).
  assert (HR : nth_error Rs i = Some (nth i Rs dummy_run)).
  { apply nth_error_nth'. rewrite <- HL. apply nth_error_Some. congruence. }
  apply (gkr_output_sound ws Rs V H2 Hc Hch H3 H4 Hl rho i w _ Hw HR).
  unfold outputs_b in H5. rewrite forallb_forall in H5.
  pose proof (H5 _ (in_combine_seq Rs 0 i _ HR)) as E. cbn [fst snd Nat.add] in E. rewrite Ho in E. exact E.
Qed.

(* ---------- the direct evaluation exists: non-vacuity of [consistent] ---------- *)
Definition wfun (acc : list (list F -> F)) (i : nat) (w : wire) : list F -> F :=
  match w_gate w with
  | None => asg i
  | Some g => fun b => gate_eval g (map (fun j => nth j acc (fun _ => 0) b) (w_ins w))
  end.
Fixpoint wvals_aux (ws : list wire) (i : nat) (acc : list (list F -> F)) : list (list F -> F) :=
  match ws with
  | [] => acc
  | w :: r => wvals_aux r (S i) (acc ++ [wfun acc i w])
  end.
(* wire by wire, instance by instance: what the circuit computes from the assigned inputs *)
Definition direct_eval (ws : list wire) (i : nat) : list F -> F := nth i (wvals_aux ws 0 []) (fun _ => 0).

Lemma wvals_aux_prefix : forall ws i acc j, j < length acc ->
  nth j (wvals_aux ws i acc) (fun _ => 0) = nth j acc (fun _ => 0).
Proof.
  induction ws as [|w ws IH]; intros i acc j Hj; cbn [wvals_aux]; [reflexivity|].
  rewrite IH by (rewrite app_length; cbn; lia). apply app_nth1. exact Hj.
Qed.

Lemma wvals_aux_at : forall ws i acc k w, length acc = i -> nth_error ws k = Some w ->
  (forall j, In j (w_ins w) -> j < Nat.add i k) ->
  forall b, nth (Nat.add i k) (wvals_aux ws i acc) (fun _ => 0) b =
            match w_gate w with
            | None => asg (Nat.add i k) b
            | Some g => gate_eval g (map (fun j => nth j (wvals_aux ws i acc) (fun _ => 0) b) (w_ins w))
            end.
Proof.
  induction ws as [|w0 ws IH]; intros i acc k w L Hk Hins b; [destruct k; discriminate|].
  destruct k as [|k].
  - cbn in Hk. injection Hk as ->. cbn [wvals_aux]. rewrite Nat.add_0_r.
    rewrite wvals_aux_prefix by (rewrite app_length; cbn; lia).
    rewrite app_nth2 by lia. rewrite L, Nat.sub_diag. cbn [nth]. unfold wfun.
    destruct (w_gate w) as [g|]; [|reflexivity]. f_equal. apply map_ext_in. intros j Hj.
    specialize (Hins j Hj).
    rewrite wvals_aux_prefix by (rewrite app_length; cbn; lia).
    rewrite app_nth1 by lia. reflexivity.
  - cbn in Hk. cbn [wvals_aux]. replace (Nat.add i (S k)) with (Nat.add (S i) k) by lia.
    apply IH; [rewrite app_length; cbn; lia | exact Hk |].
    intros j Hj. specialize (Hins j Hj). lia.
Qed.

Theorem direct_eval_consistent ws : sorted_b ws = true -> consistent ws (direct_eval ws).
Proof.
  intros Hs i w Hw b _. unfold direct_eval.
  exact (wvals_aux_at ws 0%nat [] i w eq_refl Hw (ins_lt ws Hs i w Hw) b).
Qed.

(* soundness stated for the direct evaluation itself *)
Corollary gkr_exec_sound_direct ws rho proofs chals :
  gkr_exec ws rho proofs chals = true -> char_ok ws ->
  no_luck ws (build_runs ws rho proofs chals) (direct_eval ws) ->
  forall i w, nth_error ws i = Some w -> is_output ws i = true ->
  mle n (asg i) rho = mle n (direct_eval ws i) rho.
Proof.
  intros H Hch Hl. apply (gkr_exec_sound ws rho proofs chals (direct_eval ws) H); [|exact Hch|exact Hl].
  apply direct_eval_consistent. unfold gkr_exec in H.
  apply andb_prop in H. destruct H as [H _]. apply andb_prop in H. destruct H as [H _].
  apply andb_prop in H. destruct H as [H _]. apply andb_prop in H. destruct H as [_ H]. exact H.
Qed.

End Gkr.
