(* C18: the Groth16 multi-party setup (backend/groth16/<curve>/mpcsetup), phase 1, in the exponent.
   The common reference string is four vectors of scalars (discrete logs) and one scalar:
     tau1 (2N-1 powers in G1), tau2 (N powers in G2), alpha_tau, beta_tau (N each), beta2.
   [update] is SrsCommons.update; [srs_of] the well-formed string for secrets (tau, alpha, beta).
   - [update_srs_of]: a contribution maps the string of (t, a, b) to the string of (t t', a a', b b');
   - [chain_srs_of]: hence every honest chain from the initial string yields the string of the products
     of the contributed secrets (what Seal then extends by the beacon contribution);
   - [ratio_powers]: a vector starting with c whose consecutive elements all have ratio r is c r^i:
     this is what the same-ratio check establishes element-wise (its batching by random coefficients
     and the pairing are the probabilistic / cryptographic part);
   - [wellformed_sound]: a string of the nominal lengths with tau1[0] = tau2[0] = 1, beta2 = beta_tau[0],
     whose four vectors satisfy the element-wise ratio relations with one common ratio r is the string of
     (r, alpha_tau[0], beta_tau[0]); [srs_of_wellformed] is the converse. *)
From Coq Require Import Arith Lia Ring Field List.
Import ListNotations.

Section Mpc.
Variable F : Type.
Variables (zero one : F) (add mul sub : F -> F -> F) (opp : F -> F) (div : F -> F -> F) (inv : F -> F).
Hypothesis Fth : field_theory zero one add mul sub opp div inv (@eq F).
Add Field Ffm : Fth.
Notation "0" := zero. Notation "1" := one.
Infix "+" := add. Infix "*" := mul. Infix "-" := sub.

Fixpoint fpow (x : F) (n : nat) : F := match n with O => 1 | S n' => x * fpow x n' end.
(* [c x^i | i < n] *)
Definition powers (c x : F) (n : nat) : list F := map (fun i => c * fpow x i) (seq 0 n).

Record srs := { tau1 : list F; tau2 : list F; alpha_tau : list F; beta_tau : list F; beta2 : F }.

Definition srs_of (N : nat) (t a b : F) : srs :=
  {| tau1 := powers 1 t (Nat.sub (Nat.mul 2 N) 1); tau2 := powers 1 t N; alpha_tau := powers a t N; beta_tau := powers b t N; beta2 := b |}.

(* scale element i by c x^i *)
Fixpoint scale_from (c x : F) (i : nat) (v : list F) : list F :=
  match v with [] => [] | y :: v' => (y * (c * fpow x i)) :: scale_from c x (S i) v' end.
Definition update (s : srs) (t a b : F) : srs :=
  {| tau1 := scale_from 1 t 0 (tau1 s); tau2 := scale_from 1 t 0 (tau2 s);
     alpha_tau := scale_from a t 0 (alpha_tau s); beta_tau := scale_from b t 0 (beta_tau s); beta2 := beta2 s * b |}.

Lemma fpow_mul x y n : fpow (x * y) n = fpow x n * fpow y n.
Proof. induction n as [|n IH]; cbn [fpow]; [ring|]. rewrite IH. ring. Qed.

Lemma scale_from_map c x (f : nat -> F) : forall n i,
  scale_from c x i (map f (seq i n)) = map (fun j => f j * (c * fpow x j)) (seq i n).
Proof. induction n as [|n IH]; intro i; cbn [seq map scale_from]; [reflexivity|]. rewrite IH. reflexivity. Qed.

Lemma scale_powers c t c' t' n : scale_from c' t' 0 (powers c t n) = powers (c * c') (t * t') n.
Proof.
  unfold powers. rewrite scale_from_map. apply map_ext. intro j. rewrite fpow_mul. ring.
Qed.

Theorem update_srs_of N t a b t' a' b' :
  update (srs_of N t a b) t' a' b' = srs_of N (t * t') (a * a') (b * b').
Proof.
  unfold update, srs_of. cbn [tau1 tau2 alpha_tau beta_tau beta2].
  rewrite !scale_powers. f_equal; f_equal; ring.
Qed.

(* a chain of contributions *)
Fixpoint contribute_all (s : srs) (cs : list (F * F * F)) : srs :=
  match cs with [] => s | (t, a, b) :: r => contribute_all (update s t a b) r end.
Fixpoint prod3 (cs : list (F * F * F)) : F * F * F :=
  match cs with [] => (1, 1, 1) | (t, a, b) :: r => let '(pt, pa, pb) := prod3 r in (t * pt, a * pa, b * pb) end.

Theorem chain_srs_of N cs : forall t a b,
  contribute_all (srs_of N t a b) cs =
  let '(pt, pa, pb) := prod3 cs in srs_of N (t * pt) (a * pa) (b * pb).
Proof.
  induction cs as [|[[t' a'] b'] r IH]; intros t a b; cbn [contribute_all prod3].
  - f_equal; ring.
  - rewrite update_srs_of, IH. destruct (prod3 r) as [[pt pa] pb]. f_equal; ring.
Qed.

(* element-wise ratio: v[i+1] = r v[i] *)
Fixpoint ratio (r : F) (v : list F) : Prop :=
  match v with
  | x :: ((y :: _) as v') => y = r * x /\ ratio r v'
  | _ => True
  end.

Theorem ratio_powers r c v : hd c v = c -> ratio r v -> v = powers c r (length v).
Proof.
  unfold powers. revert c. induction v as [|x v IH]; intros c Hh Hr; [reflexivity|].
  cbn [hd] in Hh. subst x. cbn [length seq map fpow]. f_equal; [ring|].
  destruct v as [|y v']; [reflexivity|].
  destruct Hr as [Hy Hr']. rewrite (IH y eq_refl Hr') at 1.
  rewrite <- seq_shift, map_map. apply map_ext. intro i. cbn [fpow]. rewrite Hy. ring.
Qed.

Lemma powers_ratio r c n : ratio r (powers c r n).
Proof.
  unfold powers. generalize 0%nat. induction n as [|n IH]; intro i; cbn [seq map ratio]; [exact I|].
  destruct n as [|n']; cbn [seq map]; [exact I|]. split; [cbn [fpow]; ring|]. apply (IH (S i)).
Qed.

Definition n2m1 (N : nat) : nat := Nat.sub (Nat.mul 2 N) 1.

(* what Verify establishes element-wise (first elements pinned by the decoder, update proofs tie
   beta2 to beta_tau[0]) determines the string *)
Theorem wellformed_sound N s r :
  (1 <= N)%nat ->
  length (tau1 s) = n2m1 N -> length (tau2 s) = N -> length (alpha_tau s) = N -> length (beta_tau s) = N ->
  hd 1 (tau1 s) = 1 -> hd 1 (tau2 s) = 1 -> beta2 s = hd 1 (beta_tau s) ->
  ratio r (tau1 s) -> ratio r (tau2 s) -> ratio r (alpha_tau s) -> ratio r (beta_tau s) ->
  s = {| tau1 := powers 1 r (n2m1 N); tau2 := powers 1 r N;
         alpha_tau := powers (hd 1 (alpha_tau s)) r N; beta_tau := powers (hd 1 (beta_tau s)) r N;
         beta2 := hd 1 (beta_tau s) |}.
Proof.
  intros HN L1 L2 L3 L4 H1 H2 Hb R1 R2 R3 R4.
  destruct s as [a1 a2 a3 a4 b2]. cbn [tau1 tau2 alpha_tau beta_tau beta2] in *.
  rewrite <- L1 at 1. rewrite <- L2 at 1. rewrite <- L3 at 1. rewrite <- L4 at 1.
  rewrite <- (ratio_powers r 1 a1 H1 R1), <- (ratio_powers r 1 a2 H2 R2).
  rewrite <- (ratio_powers r (hd 1 a3) a3) by (try exact R3; destruct a3; reflexivity).
  rewrite <- (ratio_powers r (hd 1 a4) a4) by (try exact R4; destruct a4; reflexivity).
  rewrite Hb. reflexivity.
Qed.

Theorem srs_of_wellformed N t a b :
  (1 <= N)%nat ->
  let s := srs_of N t a b in
  hd 1 (tau1 s) = 1 /\ hd 1 (tau2 s) = 1 /\ beta2 s = hd 1 (beta_tau s) /\
  ratio t (tau1 s) /\ ratio t (tau2 s) /\ ratio t (alpha_tau s) /\ ratio t (beta_tau s).
Proof.
  intros HN s. unfold s, srs_of. cbn [tau1 tau2 alpha_tau beta_tau beta2].
  destruct N as [|N']; [inversion HN|].
  repeat split; try apply powers_ratio.
  - replace (Nat.sub (Nat.mul 2 (S N')) 1) with (S (Nat.mul 2 N')) by lia.
    cbn [powers seq map hd fpow]. ring.
  - cbn [powers seq map hd fpow]. ring.
  - cbn [powers seq map hd fpow]. ring.
Qed.
End Mpc.
