(* C12: the deferred multiplication check of std/math/emulated (field_mul.go):
       a(X) b(X) = r(X) + k(X) p(X) + (2^w - X) c(X)
   as an identity of polynomials over the NATIVE field Z_rn (what acceptance at a random challenge
   gives, Schwartz-Zippel), read coefficient-wise on the integer limb values.

   [mulcheck_sound_if_bounded]: if every coefficient of the difference is 0 mod rn AND smaller than rn
   in absolute value (what range checks on a, b, r, k AND on the carries c would give), the identity
   holds over Z and val a * val b = val r + val k * val p: the result is congruent.
   [mulcheck_mod_native_only]: without the size bound, all that follows is the congruence modulo the
   native modulus rn.
   [mulcheck_unbounded_refuted]: and that is not enough — for secp256k1 over BN254 there are
   width-respecting k', r' with  val a * val b = val r' + val k' * q  (mod rn)  but r' <> a*b (mod q).
   The carries are NOT range-checked in the tree (newInternalElement(..., 0), never enforced): finding F10. *)
From Coq Require Import ZArith List Lia Bool.
From GnarkV Require Import Std.Emulated.
Import ListNotations.
Local Open Scope Z_scope.

Fixpoint peval (p : list Z) (x : Z) : Z := match p with [] => 0 | c :: p' => c + x * peval p' x end.

Fixpoint padd (p q : list Z) : list Z :=
  match p, q with
  | [], _ => q
  | _, [] => p
  | a :: p', b :: q' => (a + b) :: padd p' q'
  end.
Definition pscale (a : Z) (p : list Z) : list Z := map (Z.mul a) p.
Definition pneg (p : list Z) : list Z := map Z.opp p.
Fixpoint pmul (p q : list Z) : list Z :=
  match p with [] => [] | a :: p' => padd (pscale a q) (0 :: pmul p' q) end.
(* (2^w - X) c(X) *)
Definition plin (w : Z) (c : list Z) : list Z := padd (pscale (2^w) c) (0 :: pneg c).

Lemma peval_padd p q x : peval (padd p q) x = peval p x + peval q x.
Proof. revert q; induction p as [|a p IH]; intros [|b q]; cbn [padd peval]; try lia. rewrite IH. ring. Qed.
Lemma peval_pscale a p x : peval (pscale a p) x = a * peval p x.
Proof. induction p as [|c p IH]; cbn [pscale map peval]; [ring|]. fold (pscale a p). rewrite IH. ring. Qed.
Lemma peval_pneg p x : peval (pneg p) x = - peval p x.
Proof. induction p as [|c p IH]; cbn [pneg map peval]; [ring|]. fold (pneg p). rewrite IH. ring. Qed.
Lemma peval_pmul p q x : peval (pmul p q) x = peval p x * peval q x.
Proof.
  induction p as [|a p IH]; cbn [pmul peval]; [ring|].
  rewrite peval_padd, peval_pscale. cbn [peval]. rewrite IH. ring.
Qed.
Lemma peval_plin w c : peval (plin w c) (2^w) = 0.
Proof. unfold plin. rewrite peval_padd, peval_pscale. cbn [peval]. rewrite peval_pneg. ring. Qed.
Lemma peval_val w l : peval l (2^w) = val w l.
Proof. induction l as [|x l IH]; cbn [peval val]; [reflexivity|rewrite IH; reflexivity]. Qed.

(* the difference polynomial checked by the circuit *)
Definition mul_diff (w : Z) (a b r k p c : list Z) : list Z :=
  padd (padd (pmul a b) (pneg (padd r (pmul k p)))) (pneg (plin w c)).

Lemma mul_diff_eval w a b r k p c :
  peval (mul_diff w a b r k p c) (2^w) = val w a * val w b - (val w r + val w k * val w p).
Proof.
  unfold mul_diff. rewrite !peval_padd, !peval_pneg, peval_padd, !peval_pmul, peval_plin, !peval_val. ring.
Qed.

Lemma all_zero_eval l x : Forall (fun d => d = 0) l -> peval l x = 0.
Proof. induction 1 as [|d l Hd _ IH]; cbn [peval]; [reflexivity|]. rewrite Hd, IH. ring. Qed.

Lemma small_multiple_zero rn d : 0 < rn -> d mod rn = 0 -> - rn < d < rn -> d = 0.
Proof.
  intros Hr Hm Hb. apply Z.mod_divide in Hm; [|lia]. destruct Hm as [t Ht]. subst d.
  assert (t = 0) by nia. subst t. ring.
Qed.

Theorem mulcheck_sound_if_bounded rn w a b r k p c :
  0 < rn ->
  Forall (fun d => d mod rn = 0 /\ - rn < d < rn) (mul_diff w a b r k p c) ->
  val w a * val w b = val w r + val w k * val w p.
Proof.
  intros Hr H.
  assert (Z0 : Forall (fun d => d = 0) (mul_diff w a b r k p c)).
  { eapply Forall_impl; [|exact H]. cbn beta. intros d [Hm Hb]. exact (small_multiple_zero rn d Hr Hm Hb). }
  pose proof (all_zero_eval _ (2^w) Z0) as E. rewrite mul_diff_eval in E. lia.
Qed.

Corollary mulcheck_congruent rn w q a b r k p c :
  0 < rn -> 0 < q -> val w p = q ->
  Forall (fun d => d mod rn = 0 /\ - rn < d < rn) (mul_diff w a b r k p c) ->
  (val w a * val w b) mod q = val w r mod q.
Proof.
  intros Hr Hq Hp H. rewrite (mulcheck_sound_if_bounded rn w a b r k p c Hr H), Hp.
  apply Z.mod_add. lia.
Qed.

Lemma all_zero_mod_eval rn l x : 0 < rn -> Forall (fun d => d mod rn = 0) l -> peval l x mod rn = 0.
Proof.
  intros Hr. induction 1 as [|d l Hd _ IH]; cbn [peval]; [apply Z.mod_0_l; lia|].
  rewrite Z.add_mod by lia. rewrite Hd. rewrite (Z.mul_mod x (peval l x) rn) by lia. rewrite IH, Z.mul_0_r.
  rewrite (Z.mod_0_l rn) by lia. rewrite Z.add_0_l. apply Z.mod_0_l. lia.
Qed.

Theorem mulcheck_mod_native_only rn w a b r k p c :
  0 < rn ->
  Forall (fun d => d mod rn = 0) (mul_diff w a b r k p c) ->
  (val w a * val w b - (val w r + val w k * val w p)) mod rn = 0.
Proof. intros Hr H. rewrite <- (mul_diff_eval w a b r k p c). apply all_zero_mod_eval; assumption. Qed.

(* ---- the state of the tree: native = BN254 scalar field, emulated = secp256k1 base field, 4 x 64 bits ---- *)
Definition rn_bn254 := 21888242871839275222246405745257275088548364400416034343698204186575808495617.
Definition q_secp := 115792089237316195423570985008687907853269984665640564039457584007908834671663.
Definition fits (w : Z) (n : nat) (x : Z) : bool := (0 <=? x) && (x <? 2^(w * Z.of_nat n)).

Definition f10_a := 1234567891234567891234567891234567891234567891234567891234567891234567.
Fixpoint f10_find (fuel : nat) (b : Z) : Z :=
  match fuel with O => b | S f =>
    let r := (f10_a * b) mod q_secp in if r + q_secp - rn_bn254 <? 2^256 then b else f10_find f (3 * b + 7) end.
Definition f10_b := Eval vm_compute in f10_find 200 987654321987654321987654321987654321.
Definition f10_k := (f10_a * f10_b) / q_secp - 1.
Definition f10_r := (f10_a * f10_b) mod q_secp + q_secp - rn_bn254.

(* all four values fit their range-checked widths (4 limbs of 64 bits), the identity holds modulo the
   native modulus — so carries exist in Z_rn making the deferred check pass — and the "product" is wrong *)
Theorem mulcheck_unbounded_refuted :
  fits 64 4 f10_a = true /\ fits 64 4 f10_b = true /\ fits 64 4 f10_k = true /\ fits 64 4 f10_r = true /\
  (f10_a * f10_b - (f10_r + f10_k * q_secp)) mod rn_bn254 = 0 /\
  (f10_a * f10_b) mod q_secp <> f10_r mod q_secp.
Proof.
  repeat split; try (vm_compute; reflexivity).
  intro H. vm_compute in H. discriminate H.
Qed.
