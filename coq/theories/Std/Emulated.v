(* C12: emulated field arithmetic (std/math/emulated).  An element is the list of the canonical integer
   values of its native limbs (nominal width w) together with the overflow counter the library tracks
   (limb < 2^(w+ovf)).  [val] is the integer the limbs denote, over Z — NOT modulo the native field.

   Transcribed: limb decomposition / recomposition (std/internal/limbcomposition), subPadding
   (subtraction_padding.go), add / sub and their overflow pre-conditions (field_ops.go).
   Proved: decomposition round trip; subPadding returns a multiple of the modulus whose every limb is
   at least 2^(w+ovf); val of add / sub results over Z; the overflow bookkeeping bounds every limb
   below 2^(w+next) <= 2^(nbits-2), so no native limb operation wraps. *)
From Coq Require Import ZArith List Lia Bool.
Import ListNotations.
Local Open Scope Z_scope.

Fixpoint decompose (w : Z) (k : nat) (n : Z) : list Z :=
  match k with O => [] | S k' => n mod 2^w :: decompose w k' (n / 2^w) end.

Fixpoint val (w : Z) (l : list Z) : Z :=
  match l with [] => 0 | x :: r => x + 2^w * val w r end.

Lemma decompose_length w k n : length (decompose w k n) = k.
Proof. revert n; induction k as [|k IH]; intro n; cbn [decompose length]; [reflexivity|rewrite IH; reflexivity]. Qed.

Lemma decompose_bounds w k n : 0 < w -> Forall (fun x => 0 <= x < 2^w) (decompose w k n).
Proof.
  intro Hw. revert n; induction k as [|k IH]; intro n; cbn [decompose]; constructor; [|apply IH].
  apply Z.mod_pos_bound. apply Z.pow_pos_nonneg; lia.
Qed.

Lemma val_decompose w k n : 0 < w -> 0 <= n < 2^(w * Z.of_nat k) -> val w (decompose w k n) = n.
Proof.
  intro Hw. revert n; induction k as [|k IH]; intros n Hn; cbn [decompose val].
  - rewrite Z.mul_0_r in Hn. cbn in Hn. lia.
  - assert (P : 0 < 2^w) by (apply Z.pow_pos_nonneg; lia).
    rewrite IH.
    + pose proof (Z.div_mod n (2^w) ltac:(lia)). lia.
    + split; [apply Z.div_pos; lia|].
      apply Z.div_lt_upper_bound; [lia|].
      replace (w * Z.of_nat (S k)) with (w + w * Z.of_nat k) in Hn by lia.
      rewrite Z.pow_add_r in Hn by lia. lia.
Qed.

Lemma val_bound w l b : 0 < w -> Forall (fun x => 0 <= x < b) l -> 0 <= val w l.
Proof.
  intros Hw H. induction H as [|x l Hx _ IH]; cbn [val]; [lia|].
  assert (0 < 2^w) by (apply Z.pow_pos_nonneg; lia). nia.
Qed.

(* ---- limb-wise operations with zero extension (field_ops.go add / sub) ---- *)
Fixpoint zipw (f : Z -> Z -> Z) (a b : list Z) : list Z :=
  match a with
  | [] => map (f 0) b
  | x :: a' => match b with
               | [] => f x 0 :: zipw f a' []
               | y :: b' => f x y :: zipw f a' b'
               end
  end.

Definition add_limbs (a b : list Z) : list Z := zipw Z.add a b.

Lemma val_zipw_add w a b : val w (zipw Z.add a b) = val w a + val w b.
Proof.
  revert b; induction a as [|x a IH]; intro b.
  - cbn [zipw val]. induction b as [|y b IHb]; cbn [map val]; [reflexivity|]. rewrite IHb. ring.
  - destruct b as [|y b]; cbn [zipw val]; rewrite IH; cbn [val]; ring.
Qed.

Theorem add_val w a b : val w (add_limbs a b) = val w a + val w b.
Proof. apply val_zipw_add. Qed.

(* sub: pad + a - b, pad at least as long as a and b *)
Definition sub_limbs (pad a b : list Z) : list Z := zipw Z.sub (zipw Z.add pad a) b.

Lemma val_zipw_sub w a b : val w (zipw Z.sub a b) = val w a - val w b.
Proof.
  revert b; induction a as [|x a IH]; intro b.
  - cbn [zipw val]. induction b as [|y b IHb]; cbn [map val]; [reflexivity|]. rewrite IHb. ring.
  - destruct b as [|y b]; cbn [zipw val]; rewrite IH; cbn [val]; ring.
Qed.

Theorem sub_val w pad a b : val w (sub_limbs pad a b) = val w pad + val w a - val w b.
Proof. unfold sub_limbs. rewrite val_zipw_sub, val_zipw_add. reflexivity. Qed.

(* ---- subPadding ---- *)
Definition bitlen (q : Z) : Z := Z.log2 q + 1.
Definition required_limbs (q w : Z) : nat := Z.to_nat ((bitlen q + w - 1) / w).

Definition sub_padding (q w ovf : Z) (nb : nat) : list Z :=
  let nb' := Nat.max nb (required_limbs q w) in
  let nl := repeat (2^(w + ovf)) nb' in
  let N := val w nl in
  let n := q - N mod q in
  zipw Z.add (decompose w nb' n) nl.

Lemma q_lt_pow_required q w : 0 < q -> 0 < w -> q < 2^(w * Z.of_nat (required_limbs q w)).
Proof.
  intros Hq Hw. unfold required_limbs, bitlen.
  assert (L : q < 2^(Z.log2 q + 1)).
  { pose proof (Z.log2_spec q Hq). replace (Z.log2 q + 1) with (Z.succ (Z.log2 q)) by lia. lia. }
  eapply Z.lt_le_trans; [exact L|].
  apply Z.pow_le_mono_r; [lia|].
  pose proof (Z.log2_nonneg q).
  rewrite Z2Nat.id by (apply Z.div_pos; lia).
  pose proof (Z.div_mod (Z.log2 q + 1 + w - 1) w ltac:(lia)).
  pose proof (Z.mod_pos_bound (Z.log2 q + 1 + w - 1) w Hw). nia.
Qed.

Lemma zipw_add_Forall (P Q R : Z -> Prop) a b :
  length a = length b -> (forall x y, P x -> Q y -> R (x + y)) ->
  Forall P a -> Forall Q b -> Forall R (zipw Z.add a b).
Proof.
  intros L H Ha. revert b L. induction Ha as [|x a Hx Ha IH]; intros [|y b] L Hb; cbn [zipw]; try discriminate; [constructor|].
  inversion Hb; subst. constructor; [apply H; assumption|]. apply IH; [cbn in L; lia|assumption].
Qed.

Theorem sub_padding_spec q w ovf nb :
  0 < q -> 0 < w -> 0 <= ovf ->
  let pad := sub_padding q w ovf nb in
  val w pad mod q = 0 /\
  Forall (fun x => 2^(w + ovf) <= x < 2^(w + ovf) + 2^w) pad /\
  length pad = Nat.max nb (required_limbs q w).
Proof.
  intros Hq Hw Ho pad. unfold pad, sub_padding.
  set (nb' := Nat.max nb (required_limbs q w)).
  set (nl := repeat (2^(w + ovf)) nb').
  set (N := val w nl).
  assert (Hn : 0 <= q - N mod q < 2^(w * Z.of_nat nb')).
  { pose proof (Z.mod_pos_bound N q Hq). split; [lia|].
    eapply Z.le_lt_trans with q; [lia|].
    eapply Z.lt_le_trans; [apply (q_lt_pow_required q w Hq Hw)|].
    apply Z.pow_le_mono_r; [lia|]. unfold nb'. nia. }
  split; [|split].
  - rewrite val_zipw_add. rewrite val_decompose by assumption. fold N.
    replace (q - N mod q + N) with (q + (N - N mod q)) by lia.
    rewrite (Z.div_mod N q) at 1 by lia.
    replace (q + (q * (N / q) + N mod q - N mod q)) with ((1 + N / q) * q) by ring.
    apply Z.mod_mul. lia.
  - apply (zipw_add_Forall (fun x => 0 <= x < 2^w) (fun y => y = 2^(w+ovf))).
    + rewrite decompose_length. unfold nl. rewrite repeat_length. reflexivity.
    + intros x y Hx Hy. subst y. lia.
    + apply decompose_bounds. exact Hw.
    + unfold nl. clear. induction nb' as [|k IH]; cbn [repeat]; constructor; [reflexivity|exact IH].
  - assert (Lz : forall a b, length a = length b -> length (zipw Z.add a b) = length a).
    { induction a as [|x a IH]; intros [|y b] L; cbn in *; try discriminate; [reflexivity|]. rewrite IH by lia. reflexivity. }
    rewrite Lz; [apply decompose_length|]. rewrite decompose_length. unfold nl. rewrite repeat_length. reflexivity.
Qed.

(* ---- overflow bookkeeping: the pre-conditions of field_ops.go ---- *)
Definition add_next_ovf (oa ob : Z) : Z := Z.max oa ob + 1.
Definition sub_next_ovf (oa ob : Z) : Z := Z.max (ob + 1) oa + 1.
Definition max_overflow (nbits w : Z) : Z := nbits - 2 - w.

Definition bounded (w ovf : Z) (l : list Z) : Prop := Forall (fun x => 0 <= x < 2^(w + ovf)) l.

Lemma zipw_Forall2 (f : Z -> Z -> Z) (P Q R : Z -> Prop) a b :
  (forall x y, P x -> Q y -> R (f x y)) -> P 0 -> Q 0 ->
  Forall P a -> Forall Q b -> Forall R (zipw f a b).
Proof.
  intros H P0 Q0 Ha. revert b. induction Ha as [|x a Hx Ha IH]; intros b Hb.
  - cbn [zipw]. induction Hb as [|y b Hy Hb IHb]; cbn [map]; constructor; [apply H; assumption|exact IHb].
  - destruct Hb as [|y b Hy Hb]; cbn [zipw]; constructor; try (apply H; assumption).
    + apply (IH []). constructor.
    + apply IH. exact Hb.
Qed.

Theorem add_bounded w oa ob a b :
  0 < w -> 0 <= oa -> 0 <= ob -> bounded w oa a -> bounded w ob b ->
  bounded w (add_next_ovf oa ob) (add_limbs a b).
Proof.
  intros Hw Ha Hb Ba Bb. unfold bounded, add_limbs, add_next_ovf in *.
  assert (Pa : 2^(w+oa) <= 2^(w + Z.max oa ob)) by (apply Z.pow_le_mono_r; lia).
  assert (Pb : 2^(w+ob) <= 2^(w + Z.max oa ob)) by (apply Z.pow_le_mono_r; lia).
  assert (E : 2^(w + (Z.max oa ob + 1)) = 2 * 2^(w + Z.max oa ob)).
  { replace (w + (Z.max oa ob + 1)) with (Z.succ (w + Z.max oa ob)) by lia. rewrite Z.pow_succ_r by lia. reflexivity. }
  assert (P0 : 0 < 2^(w+oa)) by (apply Z.pow_pos_nonneg; lia).
  assert (Q0 : 0 < 2^(w+ob)) by (apply Z.pow_pos_nonneg; lia).
  eapply (zipw_Forall2 Z.add); [| | |exact Ba|exact Bb]; cbn beta; intros; lia.
Qed.

(* sub: every limb of pad + a - b is non-negative and below 2^(w + next) *)
Theorem sub_bounded w oa ob pad a b :
  0 < w -> 0 <= oa -> 0 <= ob ->
  Forall (fun x => 2^(w + ob) <= x < 2^(w + ob) + 2^w) pad ->
  (length a <= length pad)%nat -> (length b <= length pad)%nat ->
  bounded w oa a -> bounded w ob b ->
  bounded w (sub_next_ovf oa ob) (sub_limbs pad a b).
Proof.
  intros Hw Ha Hb Hp La Lb Ba Bb. unfold bounded, sub_limbs, sub_next_ovf in *.
  set (m := Z.max (ob + 1) oa).
  assert (Pa : 2^(w+oa) <= 2^(w + m)) by (apply Z.pow_le_mono_r; lia).
  assert (Pb : 2 * 2^(w+ob) <= 2^(w + m)).
  { replace (2 * 2^(w+ob)) with (2^(Z.succ (w+ob))) by (rewrite Z.pow_succ_r by lia; reflexivity).
    apply Z.pow_le_mono_r; lia. }
  assert (Pw : 2^w <= 2^(w+ob)) by (apply Z.pow_le_mono_r; lia).
  assert (E : 2^(w + (m + 1)) = 2 * 2^(w + m)).
  { replace (w + (m + 1)) with (Z.succ (w + m)) by lia. rewrite Z.pow_succ_r by lia. reflexivity. }
  assert (P0 : 0 < 2^(w+oa)) by (apply Z.pow_pos_nonneg; lia).
  assert (Q0 : 0 < 2^(w+ob)) by (apply Z.pow_pos_nonneg; lia).
  (* generalise over the three lists position by position *)
  revert a b La Lb Ba Bb. induction Hp as [|p pad Hpp Hp IH]; intros a b La Lb Ba Bb.
  - destruct a; [|cbn in La; lia]. destruct b; [|cbn in Lb; lia]. cbn. constructor.
  - destruct a as [|x a]; destruct b as [|y b]; cbn [zipw]; constructor.
    + lia.
    + apply (IH [] []); cbn; try lia; constructor.
    + inversion Bb; subst. lia.
    + inversion Bb; subst. apply (IH [] b); cbn in *; try lia; [constructor|assumption].
    + inversion Ba; subst. lia.
    + inversion Ba; subst. apply (IH a []); cbn in *; try lia; [assumption|constructor].
    + inversion Ba; inversion Bb; subst. lia.
    + inversion Ba; inversion Bb; subst. apply IH; cbn in *; try lia; assumption.
Qed.

(* below the guard the integer limb is the native limb: r has nbits bits, so 2^(nbits-1) <= r *)
Theorem no_native_wrap nbits r w ovf l :
  0 < w -> 2^(nbits - 1) <= r -> ovf <= max_overflow nbits w -> 0 <= w + ovf ->
  bounded w ovf l -> Forall (fun x => x mod r = x) l.
Proof.
  intros Hw Hr Ho Hnn B. unfold bounded, max_overflow in *.
  eapply Forall_impl; [|exact B]. cbn beta. intros x Hx.
  apply Z.mod_small. split; [lia|].
  assert (2^(w+ovf) <= 2^(nbits - 1)) by (apply Z.pow_le_mono_r; lia). lia.
Qed.
