(* C18: the Groth16 multi-party setup, phase 2 (backend/groth16/<curve>/mpcsetup/phase2.go), in the exponent.
   The circuit-specific parameters are scalars (discrete logs):
     delta (the same scalar behind G1.Delta and G2.Delta), zs (G1.Z[i] = x^i t(x) / delta),
     pkk (G1.PKK[j] = private-witness coefficient / delta), and per commitment c: sigma[c] (G2.Sigma[c]) and
     sckk[c] (G1.SigmaCKK[c][j] = sigma[c] * C[c][j]).
   [update2] is Phase2.update for a contribution (d, ss): delta *= d, Z and PKK /= d, sigma[c] *= ss[c],
   SigmaCKK[c] *= ss[c].
   [params_of] is the parameter set of (delta, sigmas) over fixed numerators (zn, kn, cb): what Initialize
   produces for delta = 1, sigma = 1.
   - [update2_params_of]: a contribution maps the parameters of (delta, sigmas) to those of
     (delta d, sigmas .* ss), provided d <> 0 — by induction ([chain2_params_of]) every honest chain from
     Initialize yields the parameters of the products of the contributed values: exactly the keys a trusted
     Setup with toxic waste delta = prod d would have produced from the same numerators;
   - [verified2_sound]: what Phase2.Verify establishes element-wise through the update proofs — one scalar
     x <> 0 with delta' = x delta, x Z' = Z, x PKK' = PKK (these vectors are checked "backwards"), and per
     commitment one scalar y with sigma' = y sigma, SigmaCKK' = y SigmaCKK — forces next = update2 prev;
   - [invariants2]: along any such step delta * Z, delta * PKK and the ratios SigmaCKK / sigma are unchanged —
     the relations the harness checks by pairings on the real contributions.
   Named residue: the proofs of knowledge binding x and y to the transcript (challenge = hash of the previous
   contribution), the random-coefficient batching and the pairings. *)
From Coq Require Import Arith Lia Ring Field List.
Import ListNotations.

Section Mpc2.
Variable F : Type.
Variables (zero one : F) (add mul sub : F -> F -> F) (opp : F -> F) (div : F -> F -> F) (inv : F -> F).
Hypothesis Fth : field_theory zero one add mul sub opp div inv (@eq F).
Add Field Ffm2 : Fth.
Notation "0" := zero. Notation "1" := one.
Infix "+" := add. Infix "*" := mul. Infix "-" := sub. Infix "/" := div.

Record params := { delta : F; zs : list F; pkk : list F; sigma : list F; sckk : list (list F) }.

Definition scale (c : F) (v : list F) : list F := map (fun y => y * c) v.
Fixpoint scale_each (cs : list F) (vs : list (list F)) : list (list F) :=
  match cs, vs with
  | c :: cs', v :: vs' => scale c v :: scale_each cs' vs'
  | _, _ => []
  end.
Fixpoint mul_each (a b : list F) : list F :=
  match a, b with x :: a', y :: b' => (x * y) :: mul_each a' b' | _, _ => [] end.

Definition update2 (p : params) (d : F) (ss : list F) : params :=
  {| delta := delta p * d; zs := scale (inv d) (zs p); pkk := scale (inv d) (pkk p);
     sigma := mul_each (sigma p) ss; sckk := scale_each ss (sckk p) |}.

(* numerators: zn[i] = x^i t(x), kn[j], cb[c][j] the commitment bases *)
Definition params_of (zn kn : list F) (cb : list (list F)) (dl : F) (sg : list F) : params :=
  {| delta := dl; zs := scale (inv dl) zn; pkk := scale (inv dl) kn; sigma := sg; sckk := scale_each sg cb |}.

Lemma scale_scale c c' v : scale c' (scale c v) = scale (c * c') v.
Proof. unfold scale. rewrite map_map. apply map_ext. intro y. ring. Qed.

Lemma scale_each_twice : forall sg ss cb, length sg = length ss ->
  scale_each ss (scale_each sg cb) = scale_each (mul_each sg ss) cb.
Proof.
  induction sg as [|s sg IH]; intros ss cb L; destruct ss as [|s' ss]; try discriminate; [reflexivity|].
  destruct cb as [|v cb]; [reflexivity|]. cbn [scale_each mul_each]. rewrite scale_scale. f_equal.
  apply IH. cbn in L. lia.
Qed.

Theorem update2_params_of zn kn cb dl sg d ss :
  dl <> 0 -> d <> 0 -> length sg = length ss ->
  update2 (params_of zn kn cb dl sg) d ss = params_of zn kn cb (dl * d) (mul_each sg ss).
Proof.
  intros Hdl Hd L. unfold update2, params_of. cbn [delta zs pkk sigma sckk].
  rewrite !scale_scale, scale_each_twice by exact L.
  assert (E : inv dl * inv d = inv (dl * d)) by (field; split; assumption).
  rewrite E. reflexivity.
Qed.

Fixpoint contribute2 (p : params) (cs : list (F * list F)) : params :=
  match cs with [] => p | (d, ss) :: r => contribute2 (update2 p d ss) r end.
Fixpoint prod2 (dl : F) (sg : list F) (cs : list (F * list F)) : F * list F :=
  match cs with [] => (dl, sg) | (d, ss) :: r => prod2 (dl * d) (mul_each sg ss) r end.

Lemma mul_each_length : forall a b, length a = length b -> length (mul_each a b) = length a.
Proof. induction a as [|x a IH]; destruct b as [|y b]; cbn; intro L; try discriminate; [reflexivity|]. f_equal. apply IH. lia. Qed.

Theorem chain2_params_of zn kn cb : forall cs dl sg,
  dl <> 0 -> (forall c, In c cs -> fst c <> 0 /\ length (snd c) = length sg) ->
  contribute2 (params_of zn kn cb dl sg) cs = let '(dl', sg') := prod2 dl sg cs in params_of zn kn cb dl' sg'.
Proof.
  induction cs as [|[d ss] cs IH]; intros dl sg Hdl H; cbn [contribute2 prod2]; [reflexivity|].
  destruct (H (d, ss) (or_introl eq_refl)) as [Hd L]. cbn [fst snd] in Hd, L.
  rewrite update2_params_of by (try assumption; symmetry; exact L).
  apply IH.
  - intro E. apply Hdl. assert (Hx : dl = (dl * d) * inv d) by (field; exact Hd). rewrite Hx, E. ring.
  - intros c Hc. destruct (H c (or_intror Hc)) as [H1 H2]. split; [exact H1|].
    rewrite H2. symmetry. apply mul_each_length. symmetry. exact L.
Qed.

(* what Verify establishes about (prev, next): element-wise scalar relations *)
Definition rel_scaled (y : F) (prev next : list F) : Prop := next = scale y prev.
Fixpoint rel_each (ys : list F) (sg sg' : list F) (ck ck' : list (list F)) : Prop :=
  match ys, sg, sg', ck, ck' with
  | [], [], [], [], [] => True
  | y :: ys', s :: sg1, s' :: sg1', v :: ck1, v' :: ck1' => s' = s * y /\ v' = scale y v /\ rel_each ys' sg1 sg1' ck1 ck1'
  | _, _, _, _, _ => False
  end.

Lemma scale_inv x v v' : x <> 0 -> v = scale x v' -> v' = scale (inv x) v.
Proof.
  intros Hx E. rewrite E, scale_scale. unfold scale.
  rewrite <- (map_id v') at 1. apply map_ext. intro y. field. exact Hx.
Qed.

Theorem verified2_sound (p q : params) (x : F) (ys : list F) :
  x <> 0 ->
  delta q = delta p * x ->
  zs p = scale x (zs q) -> pkk p = scale x (pkk q) ->          (* checked "backwards": prev = x * next *)
  rel_each ys (sigma p) (sigma q) (sckk p) (sckk q) ->
  q = update2 p x ys.
Proof.
  intros Hx Hd Hz Hk Hr. destruct p as [dp zp kp sp cp], q as [dq zq kq sq cq].
  cbn [delta zs pkk sigma sckk] in *. unfold update2. cbn [delta zs pkk sigma sckk].
  rewrite Hd, (scale_inv x zp zq Hx Hz), (scale_inv x kp kq Hx Hk).
  assert (E : sq = mul_each sp ys /\ cq = scale_each ys cp).
  { clear - Hr. revert sp sq cp cq Hr. induction ys as [|y ys IH]; intros sp sq cp cq Hr.
    - destruct sp, sq, cp, cq; try contradiction. split; reflexivity.
    - destruct sp as [|s sp], sq as [|s' sq], cp as [|v cp], cq as [|v' cq]; try contradiction.
      cbn [rel_each] in Hr. destruct Hr as [E1 [E2 Hr]]. destruct (IH _ _ _ _ Hr) as [I1 I2].
      cbn [mul_each scale_each]. rewrite E1, E2, I1, I2. split; reflexivity. }
  destruct E as [-> ->]. reflexivity.
Qed.

(* the pairing-checkable invariants of a step *)
Theorem invariants2 (p : params) (d : F) (ss : list F) : d <> 0 ->
  scale (delta (update2 p d ss)) (zs (update2 p d ss)) = scale (delta p) (zs p) /\
  scale (delta (update2 p d ss)) (pkk (update2 p d ss)) = scale (delta p) (pkk p).
Proof.
  intro Hd. unfold update2. cbn [delta zs pkk]. rewrite !scale_scale. split; unfold scale; apply map_ext; intro y; field; exact Hd.
Qed.
End Mpc2.
