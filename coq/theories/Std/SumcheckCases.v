(* C19 correspondence: the Gallina Lagrange interpolation over Z mod p against values checked on the real
   std/polynomial.InterpolateLDE (test engine) and against direct polynomial evaluation *)
From Coq Require Import ZArith List Bool.
From GnarkV Require Import Base.Zp Std.Sumcheck.
Import ListNotations.
Local Open Scope Z_scope.

Definition lde_p (p : Z) := lde Z 0 1 (addp p) (mulp p) (subp p) (invp p).

Fixpoint lde_mismatches (p : Z) (k : nat) (cs : list (list Z * Z * Z)) : list nat :=
  match cs with
  | [] => []
  | (vals, at_, want) :: r => if lde_p p vals at_ =? want then lde_mismatches p (S k) r else k :: lde_mismatches p (S k) r
  end.
