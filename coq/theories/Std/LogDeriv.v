(* C13: the log-derivative argument (std/internal/logderivarg) and the shared commitment (std/multicommit).

   Build asserts   sum_i count_i / (x - t_i)  =  sum_j 1 / (x - q_j)   at the commitment-derived x.
   [logderiv_complete]: if every query is a table entry (query j = entry idx_j) and count_i is the number
   of queries equal to entry i (what countHint returns), the identity holds at EVERY x.
   The converse (identity at a random x => every query is in the table, with these counts) is the
   Schwartz-Zippel / partial-fraction step: an assumption, named in Props/C13.v.
   [lookup_pairs_sound]: inclusion of the (index, value) query pairs in the table pairs (i, e_i) gives
   value = e_index and index < size.

   multicommit: all registered variables are concatenated into ONE commitment, callback i receives
   root^(i+1) ([multicommit_covers_all]). *)
From Coq Require Import Arith Lia Ring Field List.
Import ListNotations.

Section LogDeriv.
Variable F : Type.
Variables (zero one : F) (add mul sub : F -> F -> F) (opp : F -> F) (div : F -> F -> F) (inv : F -> F).
Hypothesis Fth : field_theory zero one add mul sub opp div inv (@eq F).
Add Field Ffl : Fth.
Notation "0" := zero. Notation "1" := one.
Infix "+" := add. Infix "*" := mul. Infix "-" := sub.

Fixpoint fnat (n : nat) : F := match n with O => 0 | S k => 1 + fnat k end.
Fixpoint sumf (f : nat -> F) (n : nat) : F := match n with O => 0 | S k => sumf f k + f k end.
Fixpoint suml (l : list F) : F := match l with [] => 0 | x :: r => x + suml r end.
Definition count (idx : list nat) (i : nat) : nat := count_occ Nat.eq_dec idx i.

Lemma sumf_ext f g n : (forall i, (i < n)%nat -> f i = g i) -> sumf f n = sumf g n.
Proof. induction n as [|k IH]; intro H; cbn [sumf]; [reflexivity|]. rewrite IH by (intros; apply H; lia). rewrite H by lia. reflexivity. Qed.
Lemma sumf_add f g n : sumf (fun i => f i + g i) n = sumf f n + sumf g n.
Proof. induction n as [|k IH]; cbn [sumf]; [ring|]. rewrite IH. ring. Qed.
Lemma sumf_zero n : sumf (fun _ => 0) n = 0.
Proof. induction n as [|k IH]; cbn [sumf]; [reflexivity|]. rewrite IH. ring. Qed.
Lemma sumf_delta (g : nat -> F) a n : (a < n)%nat -> sumf (fun i => if Nat.eq_dec a i then g i else 0) n = g a.
Proof.
  induction n as [|k IH]; intro H; [lia|]. cbn [sumf].
  destruct (Nat.eq_dec a k) as [E|NE].
  - subst k. rewrite (sumf_ext _ (fun _ => 0)).
    + rewrite sumf_zero. ring.
    + intros i Hi. destruct (Nat.eq_dec a i); [lia|reflexivity].
  - rewrite IH by lia. ring.
Qed.

Theorem logderiv_complete (t : nat -> F) (n : nat) (x : F) (idx : list nat) :
  (forall j, In j idx -> (j < n)%nat) ->
  sumf (fun i => fnat (count idx i) * inv (x - t i)) n = suml (map (fun j => inv (x - t j)) idx).
Proof.
  induction idx as [|a idx IH]; intro H; cbn [map suml].
  - rewrite (sumf_ext _ (fun _ => 0)); [apply sumf_zero|]. intros i _. cbn. ring.
  - rewrite <- IH by (intros j Hj; apply H; right; exact Hj).
    rewrite <- (sumf_delta (fun i => inv (x - t i)) a n) by (apply H; left; reflexivity).
    rewrite <- sumf_add. apply sumf_ext. intros i _. unfold count. cbn [count_occ].
    destruct (Nat.eq_dec a i); cbn [fnat]; ring.
Qed.
End LogDeriv.

(* ---- lookups: pairs (index, value) included in the table pairs ---- *)
Theorem lookup_pairs_sound {V : Type} (entries : list V) (d : V) (queries : list (nat * V)) :
  (forall q, In q queries -> In q (combine (seq 0 (length entries)) entries)) ->
  forall i v, In (i, v) queries -> i < length entries /\ v = nth i entries d.
Proof.
  intros H i v Hq. specialize (H _ Hq).
  apply (In_nth _ _ (0, d)) in H. destruct H as [k [Hk E]].
  rewrite combine_length, seq_length, Nat.min_id in Hk.
  rewrite combine_nth in E by (rewrite seq_length; reflexivity).
  rewrite seq_nth in E by exact Hk. injection E as E1 E2. subst i. cbn in *. split; [exact Hk|]. symmetry. exact E2.
Qed.

(* ---- multicommit: a state machine over registrations ---- *)
Section Multicommit.
Variable V : Type.          (* committed variables *)
Variable C : Type.          (* challenges *)
Variable cmul : C -> C -> C.
Variable commit : list V -> C.   (* the builder's Commit, an oracle of ALL its arguments *)

Record mc := { mc_closed : bool; mc_vars : list V; mc_cbs : nat }.
Definition mc_init : mc := {| mc_closed := false; mc_vars := []; mc_cbs := 0 |}.
Definition with_commitment (s : mc) (vs : list V) : option mc :=
  if mc_closed s then None (* panics: called recursively *)
  else Some {| mc_closed := false; mc_vars := mc_vars s ++ vs; mc_cbs := S (mc_cbs s) |}.
Fixpoint register (s : mc) (regs : list (list V)) : option mc :=
  match regs with [] => Some s | vs :: r => match with_commitment s vs with Some s' => register s' r | None => None end end.

Fixpoint cpow (root : C) (k : nat) : C := match k with O => root | S k' => cmul root (cpow root k') end.
(* commitAndCall: the single commitment and the challenge handed to each callback, in order *)
Definition commit_and_call (s : mc) : list V * list C :=
  let root := commit (mc_vars s) in (mc_vars s, map (cpow root) (seq 0 (mc_cbs s))).

Lemma register_spec regs : forall s, mc_closed s = false ->
  register s regs = Some {| mc_closed := false; mc_vars := mc_vars s ++ concat regs; mc_cbs := mc_cbs s + length regs |}.
Proof.
  induction regs as [|vs r IH]; intros s Hs; cbn [register concat length].
  - rewrite app_nil_r, Nat.add_0_r. destruct s; cbn in *; subst; reflexivity.
  - unfold with_commitment. rewrite Hs. rewrite IH by reflexivity. cbn [mc_vars mc_cbs].
    rewrite <- app_assoc. f_equal. f_equal. lia.
Qed.

Theorem multicommit_covers_all (regs : list (list V)) :
  exists s, register mc_init regs = Some s /\
  let '(committed, challenges) := commit_and_call s in
  committed = concat regs /\
  length challenges = length regs /\
  forall i, i < length regs -> nth i challenges (commit []) = cpow (commit (concat regs)) i.
Proof.
  eexists. split; [apply register_spec; reflexivity|].
  unfold commit_and_call. cbn [mc_vars mc_cbs mc_init app Nat.add].
  split; [reflexivity|]. split; [rewrite map_length, seq_length; reflexivity|].
  intros i Hi. rewrite (nth_indep _ _ (cpow (commit (concat regs)) 0)) by (rewrite map_length, seq_length; exact Hi).
  rewrite map_nth. rewrite seq_nth by exact Hi. reflexivity.
Qed.

(* registering after the commitment was made is refused *)
Theorem multicommit_closed_refuses s vs : mc_closed s = true -> with_commitment s vs = None.
Proof. intro H. unfold with_commitment. rewrite H. reflexivity. Qed.
End Multicommit.
