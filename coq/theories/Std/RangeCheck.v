(* C13: commitment-based range checker (std/rangecheck/rangecheck_commit.go).
   A value v checked for n bits is decomposed by a hint into k = ceil(n/b) limbs of b bits; the circuit
   asserts the recomposition (in the native field Z_r), looks every limb up in the table 0..2^b-1, and —
   when b does not divide n — also looks up the most significant limb shifted by k b - n bits.

   [limbs_range_sound]: whatever limbs the prover supplies, if the asserted relations hold then the
   canonical v is below 2^n.  [limbs_range_complete]: for v < 2^n the honest decomposition satisfies
   them.  [no_shift_refuted]: without the shifted limb, v = 2^n passes for b = 4, n = 5.
   [optimal_width_in_range]: the base width chosen by the cost functions is in [2, 17].  *)
From Coq Require Import ZArith List Lia Bool.
From GnarkV Require Import Std.Emulated.
Import ListNotations.
Local Open Scope Z_scope.

Definition decomp_size (n b : Z) : Z := (n + b - 1) / b.

Lemma val_nonneg_lt b l : 0 < b -> Forall (fun x => 0 <= x < 2^b) l -> 0 <= val b l < 2^(b * Z.of_nat (length l)).
Proof.
  intros Hb H. induction H as [|x l Hx _ IH]; cbn [val length].
  - replace (b * Z.of_nat 0) with 0 by lia. rewrite Z.pow_0_r. lia.
  - assert (P : 0 < 2^b) by (apply Z.pow_pos_nonneg; lia).
    replace (b * Z.of_nat (S (length l))) with (b + b * Z.of_nat (length l)) by lia.
    rewrite Z.pow_add_r by lia. nia.
Qed.

Lemma val_snoc b l x : 0 <= b -> val b (l ++ [x]) = val b l + 2^(b * Z.of_nat (length l)) * x.
Proof.
  intro Hb. induction l as [|y l IH]; cbn [app val length].
  - replace (b * Z.of_nat 0) with 0 by lia. rewrite Z.pow_0_r. lia.
  - rewrite IH. replace (b * Z.of_nat (S (length l))) with (b + b * Z.of_nat (length l)) by lia.
    rewrite Z.pow_add_r by lia. ring.
Qed.

(* the relations the circuit asserts, on the integer values of the limb variables *)
Definition range_relations (r b n : Z) (init : list Z) (last v : Z) : Prop :=
  let k := Z.of_nat (length init) + 1 in
  Forall (fun x => 0 <= x < 2^b) init /\ 0 <= last < 2^b /\
  (val b (init ++ [last])) mod r = v /\
  (k * b > n -> 0 <= last * 2^(k * b - n) < 2^b).

Theorem limbs_range_sound r b n init last v :
  0 < b -> 0 <= n -> 0 <= v < r ->
  (Z.of_nat (length init) + 1 = decomp_size n b) ->
  range_relations r b n init last v -> v < 2^n.
Proof.
  intros Hb Hn Hv Hk [Hi [Hl [Hrec Hsh]]].
  destruct (Z_le_gt_dec r (2^n)) as [Hr|Hr]; [lia|].
  set (m := Z.of_nat (length init)) in *.
  assert (Hm : 0 <= m) by (unfold m; lia).
  (* k b >= n and (k-1) b < n *)
  assert (Hkb : (m + 1) * b >= n /\ m * b < n \/ n = 0 /\ m + 1 = 0).
  { unfold decomp_size in Hk. pose proof (Z.div_mod (n + b - 1) b ltac:(lia)) as D.
    pose proof (Z.mod_pos_bound (n + b - 1) b Hb) as M. left. nia. }
  destruct Hkb as [[Hge Hlt]|[_ Habs]]; [|lia].
  pose proof (val_nonneg_lt b init Hb Hi) as [V0 V1]. fold m in V1.
  assert (Pm : 0 < 2^(b * m)) by (apply Z.pow_pos_nonneg; lia).
  assert (Hlast : last < 2^(n - b * m)).
  { destruct (Z.eq_dec ((m + 1) * b) n) as [E|NE].
    - replace (n - b * m) with b by lia. lia.
    - assert (G : (m + 1) * b > n) by lia. specialize (Hsh G).
      set (s := (m + 1) * b - n) in *.
      assert (Ps : 0 < 2^s) by (apply Z.pow_pos_nonneg; lia).
      assert (E : 2^b = 2^(n - b * m) * 2^s).
      { rewrite <- Z.pow_add_r by lia. f_equal. unfold s. lia. }
      rewrite E in Hsh. destruct Hsh as [_ Hsh].
      apply (Z.mul_lt_mono_pos_r (2^s)); lia. }
  assert (Hsum : val b (init ++ [last]) < 2^n).
  { rewrite val_snoc by lia. fold m.
    assert (E : 2^n = 2^(b * m) * 2^(n - b * m)).
    { rewrite <- Z.pow_add_r by lia. f_equal. lia. }
    rewrite E. nia. }
  assert (Hs0 : 0 <= val b (init ++ [last])).
  { rewrite val_snoc by lia. fold m. nia. }
  rewrite Z.mod_small in Hrec by lia. lia.
Qed.

(* honest decomposition *)
Theorem limbs_range_complete r b n v :
  0 < b -> 0 < n -> 0 <= v < 2^n -> 2^n <= r ->
  let k := Z.to_nat (decomp_size n b) in
  let ls := decompose b k v in
  val b ls = v /\ Forall (fun x => 0 <= x < 2^b) ls /\ (val b ls) mod r = v.
Proof.
  intros Hb Hn Hv Hr k ls.
  assert (Hk : n <= b * Z.of_nat k).
  { unfold k, decomp_size. rewrite Z2Nat.id by (apply Z.div_pos; lia).
    pose proof (Z.div_mod (n + b - 1) b ltac:(lia)) as D.
    pose proof (Z.mod_pos_bound (n + b - 1) b Hb) as M. nia. }
  assert (E : val b ls = v).
  { unfold ls. apply val_decompose; [exact Hb|]. split; [lia|].
    eapply Z.lt_le_trans; [apply Hv|]. apply Z.pow_le_mono_r; lia. }
  split; [exact E|]. split; [apply decompose_bounds; exact Hb|].
  rewrite E. apply Z.mod_small. lia.
Qed.

(* dropping the shifted limb: b = 4, n = 5, v = 32 = 2^5 decomposes into two 4-bit limbs [0; 2] *)
Theorem no_shift_refuted :
  exists init last v, Forall (fun x => 0 <= x < 2^4) init /\ 0 <= last < 2^4 /\
    val 4 (init ++ [last]) = v /\ Z.of_nat (length init) + 1 = decomp_size 5 4 /\ ~ v < 2^5.
Proof.
  exists [0], 2, 32. repeat split; try (vm_compute; congruence); try lia.
  - constructor; [lia|constructor].
Qed.

(* ---- the base width selection (cost only: any width in range is sound by the theorem above) ---- *)
Definition nb_decomposed (b : Z) (collected : list Z) : Z :=
  fold_left (fun acc n => let k := decomp_size n b in acc + (if k * b >? n then k + 1 else k)) collected 0.

Definition nb_r1cs_constraints (b : Z) (collected : list Z) : Z :=
  2^b + nb_decomposed b collected + Z.of_nat (length collected) + 1.
Definition nb_plonk_constraints (b : Z) (collected : list Z) : Z :=
  3 * 2^b + 3 * nb_decomposed b collected + nb_decomposed b collected + 1.

(* for j := 2; j < 18: strict improvement keeps the first minimum *)
Fixpoint optimal_from (cost : Z -> Z) (fuel : nat) (j : Z) (best bestv : Z) : Z :=
  match fuel with
  | O => bestv
  | S f => let c := cost j in if c <? best then optimal_from cost f (j + 1) c j else optimal_from cost f (j + 1) best bestv
  end.
Definition optimal_width (cost : Z -> list Z -> Z) (collected : list Z) : Z :=
  optimal_from (fun j => cost j collected) 16 2 (2^63 - 1) 0.

Lemma optimal_from_range cost fuel : forall j best bestv,
  2 <= bestv < j ->
  2 <= optimal_from cost fuel j best bestv < j + Z.of_nat fuel.
Proof.
  induction fuel as [|f IH]; intros j best bestv Hb; cbn [optimal_from].
  - lia.
  - destruct (cost j <? best).
    + pose proof (IH (j + 1) (cost j) j ltac:(lia)) as R. lia.
    + pose proof (IH (j + 1) best bestv ltac:(lia)) as R. lia.
Qed.

Lemma optimal_from_S cost f j best bestv :
  optimal_from cost (S f) j best bestv =
  if cost j <? best then optimal_from cost f (j + 1) (cost j) j else optimal_from cost f (j + 1) best bestv.
Proof. reflexivity. Qed.

Theorem optimal_width_in_range cost collected :
  cost 2 collected < 2^63 - 1 -> 2 <= optimal_width cost collected <= 17.
Proof.
  intro H. unfold optimal_width. change 16%nat with (S 15). rewrite optimal_from_S.
  assert (E : (cost 2 collected <? 2^63 - 1) = true) by (apply Z.ltb_lt; exact H). rewrite E.
  pose proof (optimal_from_range (fun j => cost j collected) 15 (2 + 1) (cost 2 collected) 2 ltac:(lia)) as R.
  change (Z.of_nat 15) with 15 in R. lia.
Qed.

(* ---- the query list handed to the log-derivative argument (commit): per checked (value, width): its
   limbs, followed by the shifted most significant limb when the limb width does not divide the width ---- *)
Definition rc_queries_one (b n v : Z) : list Z :=
  let k := Z.to_nat (decomp_size n b) in
  let ls := decompose b k v in
  let shift := Z.of_nat k * b - n in
  if shift >? 0 then ls ++ [last ls 0 * 2^shift] else ls.

Fixpoint rc_queries (b : Z) (widths vals : list Z) : list Z :=
  match widths, vals with
  | n :: ws, v :: vs => rc_queries_one b n v ++ rc_queries b ws vs
  | _, _ => []
  end.
