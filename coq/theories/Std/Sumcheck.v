(* C19: the sum-check protocol used by the GKR verifier (std/gkr/sumcheck.go verifySumcheck), over any field.
   g is a function of n variables (the list of its arguments, first variable first); hsum n g is its sum
   over the Boolean hypercube.  In round j the prover sends a univariate polynomial h_j (in the code: its
   values at 1..d; the value at 0 is DEFINED by the verifier as claim - h_j(1), which is the check
   h_j(0) + h_j(1) = claim), the verifier draws r_j and continues with the claim h_j(r_j); at the end the
   claim must equal g(r_1..r_n) (verifyFinalEval).
   - [sumcheck_complete]: with the honest round polynomials the verifier accepts the true sum, for all
     challenges;
   - [sumcheck_sound_core]: if the verifier accepts a claim different from the true sum, then in some
     round the prover's polynomial differs from the honest one (at 0 or at 1 … as a function) and yet
     agrees with it at the challenge: the challenge hit a root of a non-zero polynomial.  With the
     degree bound enforced by the proof's length this happens with probability <= d/|F| per round
     (Schwartz-Zippel: the probabilistic residue, with the Fiat-Shamir derivation of the challenges).
   [lde] is Lagrange interpolation from the values at 0..d, executable; it is compared with
   std/polynomial.InterpolateLDE by the harness. *)
From Coq Require Import Arith Lia Ring Field List.
Import ListNotations.

Section Sumcheck.
Variable F : Type.
Variables (zero one : F) (add mul sub : F -> F -> F) (opp : F -> F) (div : F -> F -> F) (inv : F -> F).
Hypothesis Fth : field_theory zero one add mul sub opp div inv (@eq F).
Hypothesis eq_dec : forall x y : F, {x = y} + {x <> y}.
Add Field Ffsc : Fth.
Notation "0" := zero. Notation "1" := one.
Infix "+" := add. Infix "*" := mul. Infix "-" := sub.

Fixpoint hsum (n : nat) (g : list F -> F) : F :=
  match n with
  | O => g []
  | S k => hsum k (fun bs => g (0 :: bs)) + hsum k (fun bs => g (1 :: bs))
  end.

(* the honest round polynomial when k variables remain after the current one *)
Definition honest (k : nat) (g : list F -> F) : F -> F := fun x => hsum k (fun bs => g (x :: bs)).

Fixpoint verify (n : nat) (g : list F -> F) (claim : F) (hs : list (F -> F)) (rs : list F) : Prop :=
  match n, hs, rs with
  | O, [], [] => claim = g []
  | S k, h :: hs', r :: rs' => h 0 + h 1 = claim /\ verify k (fun bs => g (r :: bs)) (h r) hs' rs'
  | _, _, _ => False
  end.

Fixpoint honest_all (n : nat) (g : list F -> F) (rs : list F) : list (F -> F) :=
  match n, rs with
  | S k, r :: rs' => honest k g :: honest_all k (fun bs => g (r :: bs)) rs'
  | _, _ => []
  end.

Lemma hsum_ext n : forall g g', (forall bs, g bs = g' bs) -> hsum n g = hsum n g'.
Proof. induction n as [|k IH]; intros g g' H; cbn [hsum]; [apply H|]. f_equal; apply IH; intro bs; apply H. Qed.

Theorem sumcheck_complete n : forall g rs, length rs = n -> verify n g (hsum n g) (honest_all n g rs) rs.
Proof.
  induction n as [|k IH]; intros g rs L.
  - destruct rs; [|discriminate]. cbn. reflexivity.
  - destruct rs as [|r rs']; [discriminate|]. cbn [honest_all verify]. split.
    + unfold honest. cbn [hsum]. reflexivity.
    + unfold honest at 1. apply IH. cbn in L. lia.
Qed.

(* a round in which a dishonest polynomial survives *)
Fixpoint lucky_round (n : nat) (g : list F -> F) (hs : list (F -> F)) (rs : list F) : Prop :=
  match n, hs, rs with
  | S k, h :: hs', r :: rs' =>
      ((h 0 <> honest k g 0 \/ h 1 <> honest k g 1) /\ h r = honest k g r)
      \/ lucky_round k (fun bs => g (r :: bs)) hs' rs'
  | _, _, _ => False
  end.

Theorem sumcheck_sound_core n : forall g claim hs rs,
  verify n g claim hs rs -> claim <> hsum n g -> lucky_round n g hs rs.
Proof.
  induction n as [|k IH]; intros g claim hs rs V NE.
  - destruct hs; destruct rs; cbn in V; try contradiction; exfalso; apply NE; exact V.
  - destruct hs as [|h hs']; [destruct rs; contradiction|]. destruct rs as [|r rs']; [contradiction|].
    cbn [verify] in V. destruct V as [V0 V']. cbn [lucky_round].
    assert (D : h 0 <> honest k g 0 \/ h 1 <> honest k g 1).
    { destruct (eq_dec (h 0) (honest k g 0)) as [E0|N0]; [|left; exact N0].
      destruct (eq_dec (h 1) (honest k g 1)) as [E1|N1]; [|right; exact N1].
      exfalso. apply NE. rewrite <- V0, E0, E1. unfold honest. cbn [hsum]. reflexivity. }
    destruct (eq_dec (h r) (honest k g r)) as [E|N].
    + left. split; assumption.
    + right. apply (IH _ (h r)); [exact V'|]. intro Hc. apply N. rewrite Hc. reflexivity.
Qed.

(* ---- Lagrange interpolation from the values at 0, 1, ..., d (executable) ---- *)
Fixpoint fnat (n : nat) : F := match n with O => 0 | S k => 1 + fnat k end.
Definition lagrange_basis (d i : nat) (x : F) : F :=
  fold_left (fun acc j => if Nat.eqb j i then acc else acc * ((x - fnat j) * inv (fnat i - fnat j))) (seq 0 (S d)) 1.
Definition lde (vals : list F) (x : F) : F :=
  let d := Nat.pred (length vals) in
  fold_left (fun acc iv => acc + snd iv * lagrange_basis d (fst iv) x) (combine (seq 0 (length vals)) vals) 0.
End Sumcheck.
