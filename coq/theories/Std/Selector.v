(* C14: key / index decoders of std/selector (generateDecoder): hinted indicators ind_i constrained by
       ind_i * (key_i - query) = 0   for every i,      sum_i ind_i = 1,
   and the output  sum_i ind_i * value_i.
   Over any field, for pairwise distinct keys: the constraints are satisfiable iff the query is one of
   the keys, and then the output is the value stored under that key, whatever indicators the prover
   supplies ([decoder_sound]); with no matching key the constraints are unsatisfiable
   ([decoder_no_key_unsat]); the honest one-hot indicators satisfy them ([decoder_complete]).
   Mux with a non-power-of-two number of inputs and Decoder use keys 0..n-1. *)
From Coq Require Import List Ring Field.
Import ListNotations.

Section Decoder.
Variable F : Type.
Variables (zero one : F) (add mul sub : F -> F -> F) (opp : F -> F) (div : F -> F -> F) (inv : F -> F).
Hypothesis Fth : field_theory zero one add mul sub opp div inv (@eq F).
Hypothesis eq_dec : forall x y : F, {x = y} + {x <> y}.
Add Field Ffs : Fth.
Notation "0" := zero. Notation "1" := one.
Infix "+" := add. Infix "*" := mul. Infix "-" := sub.

(* rows: (key, indicator, value) *)
Definition row := (F * F * F)%type.
Definition rkey (r : row) := fst (fst r).
Definition rind (r : row) := snd (fst r).
Definition rval (r : row) := snd r.

Fixpoint sum_ind (l : list row) : F := match l with [] => 0 | r :: l' => rind r + sum_ind l' end.
Fixpoint dot (l : list row) : F := match l with [] => 0 | r :: l' => rind r * rval r + dot l' end.
Fixpoint assoc (q : F) (l : list row) : option F :=
  match l with [] => None | r :: l' => if eq_dec (rkey r) q then Some (rval r) else assoc q l' end.

Definition constraints (q : F) (l : list row) : Prop :=
  (forall r, In r l -> rind r * (rkey r - q) = 0) /\ sum_ind l = 1.

Lemma sub_nz a b : a <> b -> a - b <> 0.
Proof. intros N E. apply N. transitivity ((a - b) + b); [ring|]. rewrite E. ring. Qed.

Lemma ind_zero q r : rind r * (rkey r - q) = 0 -> rkey r <> q -> rind r = 0.
Proof.
  intros E N. pose proof (sub_nz _ _ N) as NZ.
  transitivity ((rind r * (rkey r - q)) * inv (rkey r - q)); [field; exact NZ|]. rewrite E. ring.
Qed.

Lemma no_key_zero q l :
  (forall r, In r l -> rind r * (rkey r - q) = 0) -> (forall r, In r l -> rkey r <> q) ->
  sum_ind l = 0 /\ dot l = 0.
Proof.
  induction l as [|r l IH]; intros Hc Hk; cbn [sum_ind dot]; [split; reflexivity|].
  destruct IH as [S D]; [intros; apply Hc; right; assumption|intros; apply Hk; right; assumption|].
  rewrite (ind_zero q r) by (try apply Hc; try apply Hk; left; reflexivity).
  rewrite S, D. split; ring.
Qed.

Theorem decoder_no_key_unsat q l : (forall r, In r l -> rkey r <> q) -> ~ constraints q l.
Proof.
  intros Hk [Hc Hs]. destruct (no_key_zero q l Hc Hk) as [S _]. rewrite S in Hs.
  apply (F_1_neq_0 Fth). symmetry. exact Hs.
Qed.

Theorem decoder_sound q l :
  NoDup (map rkey l) -> constraints q l -> exists v, assoc q l = Some v /\ dot l = v.
Proof.
  induction l as [|r l IH]; intros ND [Hc Hs].
  - exfalso. cbn in Hs. apply (F_1_neq_0 Fth). symmetry. exact Hs.
  - cbn [map] in ND. inversion ND as [|k ks Hnot ND']; subst. cbn [assoc dot sum_ind] in *.
    destruct (eq_dec (rkey r) q) as [E|N].
    + exists (rval r). split; [reflexivity|].
      assert (Hk : forall r', In r' l -> rkey r' <> q).
      { intros r' Hin Eq. apply Hnot. rewrite E, <- Eq. apply in_map. exact Hin. }
      destruct (no_key_zero q l (fun r' H => Hc r' (or_intror H)) Hk) as [S D].
      rewrite S in Hs. rewrite D. assert (rind r = 1) as -> by (rewrite <- Hs; ring). ring.
    + assert (Z : rind r = 0) by (apply (ind_zero q); [apply Hc; left; reflexivity|exact N]).
      rewrite Z in Hs |- *.
      destruct IH as [v [A D]]; [exact ND'|split; [intros; apply Hc; right; assumption|rewrite <- Hs; ring]|].
      exists v. split; [exact A|]. rewrite D. ring.
Qed.

(* honest indicators *)
Definition onehot (q : F) (kv : list (F * F)) : list row :=
  map (fun p => (fst p, if eq_dec (fst p) q then 1 else 0, snd p)) kv.

Lemma onehot_no_key q kv : (forall p, In p kv -> fst p <> q) -> sum_ind (onehot q kv) = 0.
Proof.
  induction kv as [|p kv IH]; intro H; cbn [onehot map sum_ind]; [reflexivity|].
  unfold rind at 1. cbn [fst snd]. destruct (eq_dec (fst p) q) as [E|N]; [exfalso; exact (H p (or_introl eq_refl) E)|].
  fold (onehot q kv). rewrite IH by (intros; apply H; right; assumption). ring.
Qed.

Theorem decoder_complete q kv :
  NoDup (map fst kv) -> In q (map fst kv) -> constraints q (onehot q kv).
Proof.
  intros ND Hin. split.
  - intros r Hr. unfold onehot in Hr. apply in_map_iff in Hr. destruct Hr as [p [<- _]].
    unfold rind, rkey. cbn [fst snd]. destruct (eq_dec (fst p) q) as [E|N]; [rewrite E|]; ring.
  - induction kv as [|p kv IH]; [destruct Hin|].
    cbn [map] in ND, Hin. inversion ND as [|k ks Hnot ND']; subst.
    cbn [onehot map sum_ind]. unfold rind at 1. cbn [fst snd]. fold (onehot q kv).
    destruct (eq_dec (fst p) q) as [E|N].
    + rewrite onehot_no_key; [ring|]. intros p' Hp' Eq. apply Hnot. rewrite E, <- Eq. apply in_map. exact Hp'.
    + destruct Hin as [Hq|Hq]; [contradiction|]. rewrite IH by assumption. ring.
Qed.
End Decoder.
