(* C14 correspondence over F_47: for constraint systems dumped from the real builders for the std
   comparison / selection gadgets, the set of outputs reachable by ANY satisfying assignment (verified
   complete enumerator, CS/Enum.v) is compared with the documented meaning of the gadget, for every
   listed input tuple: exactness inside the documented domain, unsatisfiability outside it where the
   documentation promises so, and uniqueness (no second satisfying output) where it promises that. *)
From Coq Require Import ZArith List Bool Arith.
From GnarkV Require Import Base.Res Base.Zp Base.Fp Base.F47 CS.Solver CS.SolverZp CS.Enum Frontend.C05Cases.
Import ListNotations.
Local Open Scope Z_scope.

Inductive gspec := GExact (l : list Z) | GUnsat | GAtMost (l : list Z) | GUnique | GAny.

Definition b2z (b : bool) : Z := if b then 1 else 0.
Definition centered (d : Z) : Z := let x := d mod 47 in if x <=? 23 then x else x - 47.
Definition zone (U delta : Z) : nat :=           (* 0: inside the bound, 1: documented "fails or correct", 2: beyond *)
  let k := Z.log2 U + 1 in
  if Z.abs delta <=? U then 0%nat else if Z.abs delta <? 47 - 2^k then 1%nat else 2%nat.

Fixpoint index_of (q : Z) (l : list Z) (i : nat) : option nat :=
  match l with [] => None | x :: l' => if x =? q then Some i else index_of q l' (S i) end.
Fixpoint mapi {A B} (f : nat -> A -> B) (i : nat) (l : list A) : list B :=
  match l with [] => [] | x :: l' => f i x :: mapi f (S i) l' end.

Definition gadget_spec (g : nat) (params inp : list Z) : gspec :=
  let a := nth 0 inp 0 in let b := nth 1 inp 0 in
  let U := nth 0 params 1 in
  let delta := centered (a - b) in
  match g with
  | 0%nat => GExact [b2z (a <? b)]
  | 1%nat => GExact [b2z (a <=? b)]
  | 2%nat => match zone U delta with 0%nat => GExact [b2z (delta <? 0)] | 1%nat => GAtMost [b2z (delta <? 0)] | _ => GUnique end
  | 3%nat => match zone U delta with 0%nat => GExact [b2z (delta <=? 0)] | 1%nat => GAtMost [b2z (delta <=? 0)] | _ => GUnique end
  | 4%nat => match zone U delta with
             | 0%nat => if delta <=? 0 then GExact [] else GUnsat
             | 1%nat => if delta <=? 0 then GAny else GUnsat
             | _ => GAny end
  | 5%nat => match zone U delta with
             | 0%nat => if delta <? 0 then GExact [] else GUnsat
             | 1%nat => if delta <? 0 then GAny else GUnsat
             | _ => GAny end
  | 6%nat => let m := if delta <? 0 then a else b in
             match zone U delta with 0%nat => GExact [m] | 1%nat => GAtMost [m] | _ => GUnique end
  | 7%nat => (* Mux: sel :: values *)
      let vals := tl inp in
      if a <? Z.of_nat (length vals) then GExact [nth (Z.to_nat a) vals 0] else GUnsat
  | 8%nat => (* Map with constant keys = params: query :: values *)
      match index_of a params 0 with Some j => GExact [nth j (tl inp) 0] | None => GUnsat end
  | 9%nat => (* Decoder n: sel *)
      let n := Z.to_nat U in
      if a <? U then GExact (map (fun i => b2z (Z.of_nat i =? a)) (seq 0 n)) else GUnsat
  | 10%nat => (* Slice: start :: end :: values *)
      let vals := tl (tl inp) in let n := Z.of_nat (length vals) in
      if (a <=? n) && (b <=? n) then GExact (mapi (fun i x => if (a <=? Z.of_nat i) && (Z.of_nat i <? b) then x else 0) 0 vals) else GUnsat
  | 11%nat => (* Partition left: pivot :: values *)
      let vals := tl inp in let n := Z.of_nat (length vals) in
      if a <=? n then GExact (mapi (fun i x => if Z.of_nat i <? a then x else 0) 0 vals) else GUnsat
  | 12%nat => (* Partition right *)
      let vals := tl inp in let n := Z.of_nat (length vals) in
      if a <=? n then GExact (mapi (fun i x => if a <=? Z.of_nat i then x else 0) 0 vals) else GUnsat
  | _ => GAny
  end.

Record gcase := {
  gc_r1cs : bool; gc_nbwires : nat; gc_instrs : list (instr Z);
  gc_in_wires : list nat; gc_out_wires : list nat;
  gc_gadget : nat; gc_params : list Z;
  gc_inputs : list (list Z) }.

(* 0 agrees; 1 enumerator gave up; 2 satisfiable although the documentation promises failure;
   3 unsatisfiable inside the documented domain; 4 an output other than the documented one is reachable;
   5 two different satisfying outputs where uniqueness is promised *)
Definition gverdict (reach : list (list Z)) (s : gspec) : nat :=
  match s with
  | GExact l => match reach with [] => 3%nat | [r] => if zlist_eqb r l then 0%nat else 4%nat | _ => 4%nat end
  | GUnsat => match reach with [] => 0%nat | _ => 2%nat end
  | GAtMost l => match reach with [] => 0%nat | [r] => if zlist_eqb r l then 0%nat else 4%nat | _ => 4%nat end
  | GUnique => match reach with [] => 0%nat | [_] => 0%nat | _ => 5%nat end
  | GAny => 0%nat
  end.

Definition gdecide (c : gcase) (sys : list (instr F47)) (inp : list Z) : nat :=
  let v0 := assign (init47 (gc_r1cs c)) (gc_in_wires c) inp in
  match enum47 (S (length sys + gc_nbwires c)) v0 sys with
  | None => 1%nat
  | Some vs => gverdict (zll_dedup (map (proj47 (gc_out_wires c)) vs)) (gadget_spec (gc_gadget c) (gc_params c) inp)
  end.

Fixpoint gtuples (c : gcase) (sys : list (instr F47)) (k : nat) (inps : list (list Z)) : list (nat * nat) :=
  match inps with
  | [] => []
  | i :: r => match gdecide c sys i with 0%nat => gtuples c sys (S k) r | v => (k, v) :: gtuples c sys (S k) r end
  end.

Definition gcase_mismatches (c : gcase) : list (nat * nat) :=
  gtuples c (map (map_instr47) (gc_instrs c)) 0 (gc_inputs c).

Fixpoint gmism (k : nat) (cs : list gcase) : list (nat * list (nat * nat)) :=
  match cs with
  | [] => []
  | c :: r => match gcase_mismatches c with [] => gmism (S k) r | l => (k, l) :: gmism (S k) r end
  end.
