(* C15 correspondence: the executable Gallina sponge (fixed and variable-length padding) against
   golang.org/x/crypto/sha3 digests of the messages the harness also ran through the real gadget *)
From Coq Require Import NArith Arith List Bool.
From GnarkV Require Import Std.Sha256Cases Std.Keccak.
Import ListNotations.

(* (domain-separation byte, rate, output length, message, reference digest) *)
Fixpoint sp_mismatches (k : nat) (cs : list (N * nat * nat * list N * list N)) : list nat :=
  match cs with
  | [] => []
  | (ds, rate, outlen, m, d) :: r =>
      if nlist_eqb (sponge ds rate outlen m) d then sp_mismatches (S k) r else k :: sp_mismatches (S k) r
  end.

(* (ds, rate, outlen, buffer of maxLen bytes, min, max, len, reference digest of the first len bytes) *)
Fixpoint spvar_mismatches (k : nat) (cs : list (N * nat * nat * list N * nat * nat * nat * list N)) : list nat :=
  match cs with
  | [] => []
  | (ds, rate, outlen, buf, mn, mx, len, d) :: r =>
      if nlist_eqb (sponge_varlen ds rate outlen (fun i => nth i buf 0%N) mn mx len) d
      then spvar_mismatches (S k) r else k :: spvar_mismatches (S k) r
  end.
