(* Order-independence of the loop shapes that range over a Go map in the code reachable from
   circuit compilation (C11).  Go specifies no iteration order: a map-range loop is modelled as a
   fold over an ARBITRARY permutation of the keys; each lemma shows the result is the same for all
   permutations. *)
From Coq Require Import List Arith Lia Permutation Bool.
Import ListNotations.

Section Fold.
Context {K S : Type}.
Variable body : S -> K -> S.

(* commuting bodies: any iteration order gives the same state *)
Lemma fold_perm_comm (Hc : forall s a b, body (body s a) b = body (body s b) a) :
  forall l l', Permutation l l' -> forall s, fold_left body l s = fold_left body l' s.
Proof.
  induction 1 as [|x l l' _ IH|x y l|l l' l'' _ IH1 _ IH2]; intros s; cbn [fold_left].
  - reflexivity.
  - apply IH.
  - rewrite Hc. reflexivity.
  - rewrite IH1. apply IH2.
Qed.
End Fold.

(* ---------------------------------------------------------------- collect the keys, sort, then act *)

Fixpoint insert (x : nat) (l : list nat) : list nat :=
  match l with
  | [] => [x]
  | y :: l' => if Nat.leb x y then x :: l else y :: insert x l'
  end.
Fixpoint isort (l : list nat) : list nat :=
  match l with [] => [] | x :: l' => insert x (isort l') end.

Lemma insert_comm x y l : insert x (insert y l) = insert y (insert x l).
Proof.
  induction l as [|z l IH]; cbn [insert].
  - destruct (Nat.leb_spec x y), (Nat.leb_spec y x); try reflexivity; try lia.
    replace y with x by lia. reflexivity.
  - destruct (Nat.leb_spec y z), (Nat.leb_spec x z); cbn [insert];
      repeat match goal with |- context [Nat.leb ?a ?b] => destruct (Nat.leb_spec a b) end;
      try reflexivity; try lia; try (rewrite IH; reflexivity).
    replace y with x by lia. reflexivity.
Qed.

(* sort.Ints on the collected keys: whatever order the map range produced them in *)
Theorem isort_perm l l' : Permutation l l' -> isort l = isort l'.
Proof.
  induction 1 as [|x l l' _ IH|x y l|l l' l'' _ IH1 _ IH2]; cbn [isort].
  - reflexivity.
  - rewrite IH. reflexivity.
  - apply insert_comm.
  - rewrite IH1. exact IH2.
Qed.

(* the repaired GetWireConstraints / GetWiresConstraintExact: keys are collected in map order (any
   permutation), sorted, and only then constraints are appended — a non-commutative action *)
Theorem collect_sort_act_deterministic {S : Type} (act : S -> nat -> S) keys keys' s :
  Permutation keys keys' -> fold_left act (isort keys) s = fold_left act (isort keys') s.
Proof. intros P. rewrite (isort_perm _ _ P). reflexivity. Qed.

(* what the code did before the repair (F17): appending in map order is order-dependent *)
Example append_in_map_order_refuted :
  exists keys keys', Permutation keys keys' /\
    fold_left (fun acc k => acc ++ [k]) keys [] <> fold_left (fun acc k => acc ++ [k]) keys' ([] : list nat).
Proof. exists [1; 2], [2; 1]. split; [apply perm_swap|discriminate]. Qed.

(* ---------------------------------------------------------------- inserts into / deletes from a map *)

Definition fmap (V : Type) := nat -> option V.
Definition fins {V} (m : fmap V) (k : nat) (v : V) : fmap V := fun x => if Nat.eqb x k then Some v else m x.
Definition fdel {V} (m : fmap V) (k : nat) : fmap V := fun x => if Nat.eqb x k then None else m x.

(* building one map from another (NewExt2's constant tables): the value stored under a key depends
   on the key only, so the result is pointwise the same for every order *)
Theorem map_rebuild_order_independent {V} (f : nat -> V) keys keys' (m : fmap V) :
  Permutation keys keys' -> forall x,
  fold_left (fun m k => fins m k (f k)) keys m x = fold_left (fun m k => fins m k (f k)) keys' m x.
Proof.
  intros P. revert m. induction P as [|a l l' _ IH|a b l|l l' l'' _ IH1 _ IH2]; intros m x; cbn [fold_left].
  - reflexivity.
  - apply IH.
  - assert (E : forall l (m1 m2 : fmap V), (forall y, m1 y = m2 y) ->
               fold_left (fun m k => fins m k (f k)) l m1 x = fold_left (fun m k => fins m k (f k)) l m2 x).
    { clear. induction l as [|k l IHl]; intros m1 m2 H; cbn [fold_left]; [apply H|].
      apply IHl. intros y. unfold fins. destruct (Nat.eqb y k); [reflexivity|apply H]. }
    apply E. intros y. unfold fins.
    destruct (Nat.eqb y a) eqn:Ea, (Nat.eqb y b) eqn:Eb; try reflexivity.
    apply Nat.eqb_eq in Ea, Eb. subst. reflexivity.
  - rewrite IH1. apply IH2.
Qed.

(* clearing a map by ranging over it and deleting each key (std/gkr outputsList) *)
Theorem clear_loop_order_independent {V} keys keys' (m : fmap V) :
  Permutation keys keys' -> forall x, fold_left fdel keys m x = fold_left fdel keys' m x.
Proof.
  intros P. revert m. induction P as [|a l l' _ IH|a b l|l l' l'' _ IH1 _ IH2]; intros m x; cbn [fold_left].
  - reflexivity.
  - apply IH.
  - assert (E : forall l (m1 m2 : fmap V), (forall y, m1 y = m2 y) -> fold_left fdel l m1 x = fold_left fdel l m2 x).
    { clear. induction l as [|k l IHl]; intros m1 m2 H; cbn [fold_left]; [apply H|].
      apply IHl. intros y. unfold fdel. destruct (Nat.eqb y k); [reflexivity|apply H]. }
    apply E. intros y. unfold fdel. destruct (Nat.eqb y a), (Nat.eqb y b); reflexivity.
  - rewrite IH1. apply IH2.
Qed.

(* "return the attribute of the first non-nil element" when all elements agree on it (gkr NumInstances) *)
Theorem first_of_uniform {A B} (attr : A -> B) (d : B) l l' :
  Permutation l l' -> (forall a b, In a l -> In b l -> attr a = attr b) ->
  match l with [] => d | a :: _ => attr a end = match l' with [] => d | a :: _ => attr a end.
Proof.
  intros P H. destruct l as [|a l], l' as [|b l']; try reflexivity.
  - apply Permutation_nil in P. discriminate.
  - apply Permutation_sym, Permutation_nil in P. discriminate.
  - apply H; [left; reflexivity|]. apply (Permutation_in b (Permutation_sym P)). left; reflexivity.
Qed.
