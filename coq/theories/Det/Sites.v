(* The reviewed list of nondeterminism sources in the packages that take part in circuit
   compilation (frontend/..., constraint, constraint/{bn254,tinyfield,solver}, internal/{kvstore,
   utils,frontendtype}, std/...).  It is compared on every run with the list regenerated from
   the current source by tools/xlate (file, function, kind, ranged expression, hash of the loop
   body): a new map-range / goroutine / select / pool / clock / randomness use, or a changed loop
   body, is an undischarged obligation.  Each entry names the argument that makes it harmless. *)
From Coq Require Import List String Bool.
Import ListNotations.
Local Open Scope string_scope.

Inductive why :=
| SolveTimeOnly       (* not reachable from Compile: solver / prover side (C06, C10) *)
| ErrorTextOnly       (* order only affects the text of an error message *)
| CollectSortAct      (* keys collected, sorted, then used: Det.MapRange.collect_sort_act_deterministic *)
| MapRebuild          (* key-determined inserts into a fresh map: map_rebuild_order_independent *)
| ClearLoop           (* deletes every key: clear_loop_order_independent *)
| UniformAttribute    (* attribute shared by all elements: first_of_uniform *)
| SingleProducer      (* one goroutine feeding one channel consumed in order *)
| PoolOfScratch       (* sync.Pool of buffers that are reset before use *)
| LoggingOnly.        (* wall-clock time used for log lines only *)

Definition reviewed : list (string * string * string * string * string * why) := [
  ("constraint/bn254/gkr.go", "GkrSolvingData.dumpAssignments", "maprange", "d.assignments", "b698aeb13b8c", SolveTimeOnly);
  ("constraint/bn254/solver.go", "newSolver", "maprange", "cs.MHintsDependencies", "27cfc3750e96", ErrorTextOnly);
  ("constraint/bn254/solver.go", "solver.run", "go", "", "", SolveTimeOnly);
  ("constraint/bn254/system.go", "system.Solve", "use:time.Now", "", "", LoggingOnly);
  ("constraint/core.go", "System.GetCommitments", "use:sync.Pool", "", "", PoolOfScratch);
  ("constraint/solver/hint_registry.go", "GetRegisteredHints", "maprange", "registry", "1f5575c7198c", SolveTimeOnly);
  ("constraint/tinyfield/solver.go", "newSolver", "maprange", "cs.MHintsDependencies", "27cfc3750e96", ErrorTextOnly);
  ("constraint/tinyfield/solver.go", "solver.run", "go", "", "", SolveTimeOnly);
  ("constraint/tinyfield/system.go", "system.Solve", "use:time.Now", "", "", LoggingOnly);
  ("frontend/cs/commitment.go", "Bsb22CommitmentComputePlaceholder", "use:crypto/rand.Reader", "", "", SolveTimeOnly);
  ("frontend/cs/commitment.go", "Bsb22CommitmentComputePlaceholder", "use:crypto/rand.Int", "", "", SolveTimeOnly);
  ("frontend/cs/scs/builder.go", "builder.GetWireConstraints", "maprange", "lookup", "7638ff6c4bfa", CollectSortAct);
  ("frontend/cs/scs/builder.go", "builder.GetWiresConstraintExact", "maprange", "wireIDsSet", "7638ff6c4bfa", CollectSortAct);
  ("frontend/witness.go", "NewWitness", "go", "", "", SingleProducer);
  ("internal/utils/parallelize.go", "Parallelize", "go", "", "", SolveTimeOnly);
  ("std/algebra/emulated/fields_bls12381/e2.go", "NewExt2", "maprange", "pwrs", "4fe7fad001b7", MapRebuild);
  ("std/algebra/emulated/fields_bls12381/e2.go", "NewExt2", "maprange", "v", "d8bf9650e581", MapRebuild);
  ("std/algebra/emulated/fields_bn254/e2.go", "NewExt2", "maprange", "pwrs", "c4bd0c4888e8", MapRebuild);
  ("std/algebra/emulated/fields_bn254/e2.go", "NewExt2", "maprange", "v", "cfeb053080fc", MapRebuild);
  ("std/gkr/gkr.go", "outputsList", "maprange", "ins", "4a873620ca30", ClearLoop);
  ("std/gkr/gkr.go", "WireAssignment.NumInstances", "maprange", "a", "f6c3024bb8d8", UniformAttribute);
  ("std/gkr/gkr.go", "WireAssignment.NumVars", "maprange", "a", "bb1fd24a29e0", UniformAttribute)
].

Definition site := (string * string * string * string * string)%type.
Definition site_eqb (a b : site) : bool :=
  let '(a1, a2, a3, a4, a5) := a in let '(b1, b2, b3, b4, b5) := b in
  String.eqb a1 b1 && String.eqb a2 b2 && String.eqb a3 b3 && String.eqb a4 b4 && String.eqb a5 b5.

Definition reviewed_sites : list site := map (fun r => let '(a, b, c, d, e, _) := r in (a, b, c, d, e)) reviewed.

(* sites present in the source but not reviewed (or whose body changed), and reviewed sites that disappeared *)
Definition sites_unreviewed (gen : list site) : list site :=
  filter (fun s => negb (existsb (site_eqb s) reviewed_sites)) gen.
Definition sites_gone (gen : list site) : list site :=
  filter (fun s => negb (existsb (site_eqb s) gen)) reviewed_sites.
