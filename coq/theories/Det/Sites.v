(* The reviewed list of nondeterminism sources in the packages that take part in circuit
   compilation (frontend/..., constraint, constraint/{bn254,tinyfield,solver}, internal/{kvstore,
   utils,frontendtype}, std/...).  It is compared on every run with the list regenerated from
   the current source by tools/xlate (file, function, kind, ranged expression or variable, hash of the loop
   body or type of the package-level variable): a new map-range / goroutine / select / pool / clock / randomness use, or a changed loop
   body, is an undischarged obligation.  Each entry names the argument that makes it harmless. *)
From Coq Require Import List String Bool.
Import ListNotations.
Local Open Scope string_scope.

Inductive why :=
| SolveTimeOnly       (* not reachable from Compile: solver / prover side (C06, C10) *)
| ErrorTextOnly       (* order only affects the text of an error message *)
| CollectSortAct      (* keys collected, sorted, then used: Det.MapRange.collect_sort_act_deterministic *)
| MapRebuild          (* key-determined inserts into a fresh map: map_rebuild_order_independent *)
| ClearLoop           (* deletes every key: clear_loop_order_independent *)
| UniformAttribute    (* attribute shared by all elements: first_of_uniform *)
| SingleProducer      (* one goroutine feeding one channel consumed in order *)
| PoolOfScratch       (* sync.Pool of buffers that are reset before use *)
| LoggingOnly         (* wall-clock time used for log lines only *)
| RegistryOrConstant. (* package-level map / slice / Once / lock whose content is fixed by package initialisation,
                        explicit user registration or a sync.Once-guarded deterministic precomputation: compilations
                        read it, they never write circuit-dependent data into it *)

Definition reviewed : list (string * string * string * string * string * why) := [
  ("constraint/bn254/gkr.go", "", "global", "constraint/bn254.hasBuilderLock", "sync.RWMutex", RegistryOrConstant);
  ("constraint/bn254/gkr.go", "", "global", "constraint/bn254.hashBuilderRegistry", "map[string]func() hash.Hash", RegistryOrConstant);
  ("constraint/bn254/gkr.go", "GkrSolvingData.dumpAssignments", "maprange", "d.assignments", "b698aeb13b8c", SolveTimeOnly);
  ("constraint/bn254/solver.go", "", "global", "github.com/consensys/gnark-crypto/field/pool.BigInt", "pool.bigIntPool", PoolOfScratch);
  ("constraint/bn254/solver.go", "newSolver", "maprange", "cs.MHintsDependencies", "27cfc3750e96", ErrorTextOnly);
  ("constraint/bn254/solver.go", "solver.run", "go", "", "", SolveTimeOnly);
  ("constraint/bn254/system.go", "system.Solve", "use:time.Now", "", "", LoggingOnly);
  ("constraint/core.go", "", "global", "constraint.bufPool", "sync.Pool", PoolOfScratch);
  ("constraint/core.go", "System.GetCommitments", "use:sync.Pool", "", "", PoolOfScratch);
  ("constraint/solver/hint.go", "", "global", "constraint/solver.newStyleAnonRe", "*regexp.Regexp", RegistryOrConstant);
  ("constraint/solver/hint_registry.go", "", "global", "constraint/solver.registry", "map[solver.HintID]solver.Hint", RegistryOrConstant);
  ("constraint/solver/hint_registry.go", "", "global", "constraint/solver.registryM", "sync.RWMutex", RegistryOrConstant);
  ("constraint/solver/hint_registry.go", "GetRegisteredHints", "maprange", "registry", "1f5575c7198c", SolveTimeOnly);
  ("constraint/tinyfield/solver.go", "", "global", "github.com/consensys/gnark-crypto/field/pool.BigInt", "pool.bigIntPool", PoolOfScratch);
  ("constraint/tinyfield/solver.go", "newSolver", "maprange", "cs.MHintsDependencies", "27cfc3750e96", ErrorTextOnly);
  ("constraint/tinyfield/solver.go", "solver.run", "go", "", "", SolveTimeOnly);
  ("constraint/tinyfield/system.go", "system.Solve", "use:time.Now", "", "", LoggingOnly);
  ("frontend/cs/commitment.go", "Bsb22CommitmentComputePlaceholder", "use:crypto/rand.Reader", "", "", SolveTimeOnly);
  ("frontend/cs/commitment.go", "Bsb22CommitmentComputePlaceholder", "use:crypto/rand.Int", "", "", SolveTimeOnly);
  ("frontend/cs/scs/builder.go", "builder.GetWireConstraints", "maprange", "lookup", "7638ff6c4bfa", CollectSortAct);
  ("frontend/cs/scs/builder.go", "builder.GetWiresConstraintExact", "maprange", "wireIDsSet", "7638ff6c4bfa", CollectSortAct);
  ("frontend/witness.go", "NewWitness", "go", "", "", SingleProducer);
  ("internal/utils/field_to_curve.go", "", "global", "internal/utils.curves", "map[string]ecc.ID", RegistryOrConstant);
  ("internal/utils/parallelize.go", "Parallelize", "go", "", "", SolveTimeOnly);
  ("std/algebra/emulated/fields_bls12381/e2.go", "NewExt2", "maprange", "pwrs", "4fe7fad001b7", MapRebuild);
  ("std/algebra/emulated/fields_bls12381/e2.go", "NewExt2", "maprange", "v", "d8bf9650e581", MapRebuild);
  ("std/algebra/emulated/fields_bn254/e2.go", "NewExt2", "maprange", "pwrs", "c4bd0c4888e8", MapRebuild);
  ("std/algebra/emulated/fields_bn254/e2.go", "NewExt2", "maprange", "v", "cfeb053080fc", MapRebuild);
  ("std/algebra/native/sw_bls12377/inner.go", "", "global", "std/algebra/native/sw_bls12377.computedCurveTable", "[][2]*big.Int", RegistryOrConstant);
  ("std/algebra/native/sw_bls12377/inner.go", "", "global", "std/algebra/native/sw_bls12377.computedTwistTable", "[][4]*big.Int", RegistryOrConstant);
  ("std/algebra/native/sw_bls12377/inner.go", "", "global", "std/algebra/native/sw_bls12377.mappingOnce", "sync.Once", RegistryOrConstant);
  ("std/algebra/native/sw_bls24315/inner.go", "", "global", "std/algebra/native/sw_bls24315.computedCurveTable", "[][2]*big.Int", RegistryOrConstant);
  ("std/algebra/native/sw_bls24315/inner.go", "", "global", "std/algebra/native/sw_bls24315.computedTwistTable", "[][8]*big.Int", RegistryOrConstant);
  ("std/algebra/native/sw_bls24315/inner.go", "", "global", "std/algebra/native/sw_bls24315.mappingOnce", "sync.Once", RegistryOrConstant);
  ("std/compress/internal/io.go", "", "global", "std/compress/internal.wordNbBitsToHint", "map[int]solver.Hint", RegistryOrConstant);
  ("std/gkr/gkr.go", "outputsList", "maprange", "ins", "4a873620ca30", ClearLoop);
  ("std/gkr/gkr.go", "WireAssignment.NumInstances", "maprange", "a", "f6c3024bb8d8", UniformAttribute);
  ("std/gkr/gkr.go", "WireAssignment.NumVars", "maprange", "a", "bb1fd24a29e0", UniformAttribute);
  ("std/gkr/hints.go", "", "global", "std/gkr.testEngineGkrSolvingData", "map[string]any", SolveTimeOnly);
  ("std/gkr/registry.go", "", "global", "std/gkr.gates", "map[gkr.GateName]*gkr.Gate", RegistryOrConstant);
  ("std/gkr/registry.go", "", "global", "std/gkr.gatesLock", "sync.Mutex", RegistryOrConstant);
  ("std/hash/hash.go", "", "global", "std/hash.builderRegistry", "map[string]func(api frontend.API) (hash.FieldHasher, error)", RegistryOrConstant);
  ("std/hash/hash.go", "", "global", "std/hash.lock", "sync.RWMutex", RegistryOrConstant);
  ("std/hash/mimc/encrypt.go", "", "global", "std/hash/mimc.encryptFuncs", "map[ecc.ID]func(mimc.MiMC, frontend.Variable) frontend.Variable", RegistryOrConstant);
  ("std/hash/mimc/encrypt.go", "", "global", "std/hash/mimc.newMimc", "map[ecc.ID]func(frontend.API) mimc.MiMC", RegistryOrConstant);
  ("std/hash/mimc/mimc.go", "", "global", "std/hash/mimc.encryptFuncs", "map[ecc.ID]func(mimc.MiMC, frontend.Variable) frontend.Variable", RegistryOrConstant);
  ("std/hash/mimc/mimc.go", "", "global", "std/hash/mimc.newMimc", "map[ecc.ID]func(frontend.API) mimc.MiMC", RegistryOrConstant);
  ("std/hash/ripemd160/ripemd160.go", "", "global", "std/hash/ripemd160._seed", "[]uints.U32", RegistryOrConstant);
  ("std/hash/sha2/sha2.go", "", "global", "std/hash/sha2._seed", "[]uints.U32", RegistryOrConstant);
  ("std/hints.go", "", "global", "std.registerOnce", "sync.Once", RegistryOrConstant);
  ("std/permutation/poseidon2/gkr-poseidon2/internal/bls12-377/gates.go", "", "global", "std/permutation/poseidon2/gkr-poseidon2/internal/bls12-377.initOnce", "sync.Once", RegistryOrConstant);
  ("std/permutation/sha2/sha2block.go", "", "global", "std/permutation/sha2._K", "[]uints.U32", RegistryOrConstant);
  ("std/polynomial/polynomial.go", "", "global", "std/polynomial.minFoldScaledLogSize", "int", RegistryOrConstant)
].

Definition site := (string * string * string * string * string)%type.
Definition site_eqb (a b : site) : bool :=
  let '(a1, a2, a3, a4, a5) := a in let '(b1, b2, b3, b4, b5) := b in
  String.eqb a1 b1 && String.eqb a2 b2 && String.eqb a3 b3 && String.eqb a4 b4 && String.eqb a5 b5.

Definition reviewed_sites : list site := map (fun r => let '(a, b, c, d, e, _) := r in (a, b, c, d, e)) reviewed.

(* sites present in the source but not reviewed (or whose body changed), and reviewed sites that disappeared *)
Definition sites_unreviewed (gen : list site) : list site :=
  filter (fun s => negb (existsb (site_eqb s) reviewed_sites)) gen.
Definition sites_gone (gen : list site) : list site :=
  filter (fun s => negb (existsb (site_eqb s) gen)) reviewed_sites.
