(* PLONK trace (backend/plonk/<curve>/setup.go NewTrace / buildPermutation): the selector columns,
   the commitment selectors and the wiring permutation that Setup commits to in the verifying key.
   [gate] = a sparse constraint as the iterator decompresses it (specialised add / mul / bool gates
   included): qL·xa + qR·xb + qO·xc + qM·xa·xb + qC = 0. *)
From Coq Require Import Arith Lia Ring Field List Bool.
From GnarkV Require Import Backend.Perm.
Import ListNotations.

Section Trace.
Variable F : Type.
Variables (zero one : F) (add mul sub : F -> F -> F) (opp : F -> F) (div : F -> F -> F) (inv : F -> F).
Hypothesis Fth : field_theory zero one add mul sub opp div inv (@eq F).
Add Field Fft : Fth.
Notation "0" := zero. Notation "1" := one.
Infix "+" := add. Infix "*" := mul. Infix "-" := sub.

Record gate := { gxa : nat; gxb : nat; gxc : nat; gql : F; gqr : F; gqo : F; gqm : F; gqc : F }.
Record row := { rql : F; rqr : F; rqm : F; rqo : F; rqk : F }.

Definition gate_row (g : gate) : row := {| rql := gql g; rqr := gqr g; rqm := gqm g; rqo := gqo g; rqk := gqc g |}.
Definition placeholder_row : row := {| rql := opp 1; rqr := 0; rqm := 0; rqo := 0; rqk := 0 |}.
Definition zero_row : row := {| rql := 0; rqr := 0; rqm := 0; rqo := 0; rqk := 0 |}.

(* selector columns: nb_pub placeholder rows (ql = -1), the gates, zero padding up to the domain size *)
Definition trace_rows (nb_pub size : nat) (gs : list gate) : list row :=
  repeat placeholder_row nb_pub ++ map gate_row gs ++ repeat zero_row (size - (nb_pub + length gs))%nat.

(* commitment selector i: 1 at the rows of the committed constraints *)
Definition qcp_col (nb_pub size : nat) (committed : list nat) : list F :=
  map (fun r => if existsb (Nat.eqb r) (map (fun c => (nb_pub + c)%nat) committed) then 1 else 0) (seq 0%nat size).

(* position -> wire (L column, then R, then O): placeholders carry (public i, 0, 0), padding carries wire 0 *)
Definition lro_wires (nb_pub size : nat) (gs : list gate) : list nat :=
  let pad := (size - (nb_pub + length gs))%nat in
  (seq 0%nat nb_pub ++ map gxa gs ++ repeat 0%nat pad) ++
  (repeat 0%nat nb_pub ++ map gxb gs ++ repeat 0%nat pad) ++
  (repeat 0%nat nb_pub ++ map gxc gs ++ repeat 0%nat pad).

Definition permutation (nb_pub size : nat) (gs : list gate) : list nat := build_perm (lro_wires nb_pub size gs).

(* ---------------------------------------------------------------- what the committed rows mean *)

(* row equation with the public inputs completing qk on the placeholder rows *)
Definition row_holds (r : row) (l r' o pi : F) : Prop :=
  rql r * l + rqr r * r' + rqm r * (l * r') + rqo r * o + (rqk r + pi) = 0.

Definition gate_holds (w : nat -> F) (g : gate) : Prop :=
  gql g * w (gxa g) + gqr g * w (gxb g) + gqo g * w (gxc g) + gqm g * (w (gxa g) * w (gxb g)) + gqc g = 0.

Lemma placeholder_row_iff l r' o pi : row_holds placeholder_row l r' o pi <-> l = pi.
Proof.
  unfold row_holds, placeholder_row. cbn. split; intros H.
  - assert (l = pi - (opp 1 * l + 0 * r' + 0 * (l * r') + 0 * o + (0 + pi))) as -> by ring. rewrite H. ring.
  - rewrite H. ring.
Qed.

Lemma gate_row_iff w g : row_holds (gate_row g) (w (gxa g)) (w (gxb g)) (w (gxc g)) 0 <-> gate_holds w g.
Proof.
  unfold row_holds, gate_holds, gate_row. cbn. split; intros H; (etransitivity; [|exact H]); ring.
Qed.

Lemma zero_row_holds l r' o : row_holds zero_row l r' o 0.
Proof. unfold row_holds, zero_row. cbn. ring. Qed.

Lemma nth_repeat_lt {A} (a d : A) n i : (i < n)%nat -> nth i (repeat a n) d = a.
Proof. revert i. induction n as [|n IH]; intros [|i] H; cbn; try lia; [reflexivity|apply IH; lia]. Qed.

(* The rows committed by Setup, read on the L/R/O columns that place wire values as the solver does
   (C06 lro placement), hold on EVERY row exactly when every gate of the system holds and the
   leading wires carry the public inputs: the key commits to exactly those gates and that public
   input placement. *)
Theorem trace_rows_sat_iff (w : nat -> F) (pub : list F) (gs : list gate) (size : nat) :
  (length pub + length gs <= size)%nat ->
  let nb_pub := length pub in
  let rows := trace_rows nb_pub size gs in
  let lw := seq 0%nat nb_pub ++ map gxa gs ++ repeat 0%nat (size - (nb_pub + length gs))%nat in
  let rw := repeat 0%nat nb_pub ++ map gxb gs ++ repeat 0%nat (size - (nb_pub + length gs))%nat in
  let ow := repeat 0%nat nb_pub ++ map gxc gs ++ repeat 0%nat (size - (nb_pub + length gs))%nat in
  let pis := pub ++ repeat 0 (size - nb_pub)%nat in
  (forall i, (i < size)%nat ->
     row_holds (nth i rows zero_row) (w (nth i lw 0%nat)) (w (nth i rw 0%nat)) (w (nth i ow 0%nat)) (nth i pis 0))
  <->
  ((forall i, (i < nb_pub)%nat -> w i = nth i pub 0) /\ (forall g, In g gs -> gate_holds w g)).
Proof.
  intros Hsz nb_pub rows lw rw ow pis.
  assert (Lr : length (repeat placeholder_row nb_pub) = nb_pub) by apply repeat_length.
  split.
  - intros H. split.
    + intros i Hi. specialize (H i ltac:(lia)). unfold rows, trace_rows, lw, pis in H.
      rewrite app_nth1 in H by (rewrite repeat_length; exact Hi).
      rewrite nth_repeat_lt in H by exact Hi.
      rewrite (app_nth1 (seq 0 nb_pub)) in H by (rewrite seq_length; exact Hi). rewrite seq_nth in H by exact Hi.
      rewrite (app_nth1 pub) in H by exact Hi.
      apply placeholder_row_iff in H. exact H.
    + intros g Hg. destruct (In_nth gs g {| gxa := 0%nat; gxb := 0%nat; gxc := 0%nat; gql := 0; gqr := 0; gqo := 0; gqm := 0; gqc := 0 |} Hg) as [k [Hk Eg]].
      specialize (H (nb_pub + k)%nat ltac:(lia)). unfold rows, trace_rows, lw, rw, ow, pis in H.
      rewrite (app_nth2 (repeat placeholder_row nb_pub)) in H by (rewrite repeat_length; lia).
      rewrite (app_nth2 (seq 0%nat nb_pub)) in H by (rewrite seq_length; lia).
      rewrite !(app_nth2 (repeat 0%nat nb_pub)) in H by (rewrite repeat_length; lia).
      rewrite (app_nth2 pub) in H by (fold nb_pub; lia).
      rewrite ?repeat_length, ?seq_length in H. fold nb_pub in H.
      replace (nb_pub + k - nb_pub)%nat with k in H by lia.
      rewrite !app_nth1 in H by (rewrite map_length; exact Hk).
      rewrite (nth_indep (map gate_row gs) zero_row (gate_row {| gxa := 0%nat; gxb := 0%nat; gxc := 0%nat; gql := 0; gqr := 0; gqo := 0; gqm := 0; gqc := 0 |})) in H by (rewrite map_length; exact Hk).
      rewrite map_nth in H.
      rewrite (nth_indep (map gxa gs) 0%nat (gxa {| gxa := 0%nat; gxb := 0%nat; gxc := 0%nat; gql := 0; gqr := 0; gqo := 0; gqm := 0; gqc := 0 |})) in H by (rewrite map_length; exact Hk).
      rewrite (nth_indep (map gxb gs) 0%nat (gxb {| gxa := 0%nat; gxb := 0%nat; gxc := 0%nat; gql := 0; gqr := 0; gqo := 0; gqm := 0; gqc := 0 |})) in H by (rewrite map_length; exact Hk).
      rewrite (nth_indep (map gxc gs) 0%nat (gxc {| gxa := 0%nat; gxb := 0%nat; gxc := 0%nat; gql := 0; gqr := 0; gqo := 0; gqm := 0; gqc := 0 |})) in H by (rewrite map_length; exact Hk).
      rewrite !map_nth in H. rewrite Eg in H.
      rewrite nth_repeat in H. apply gate_row_iff. exact H.
  - intros [Hpub Hg] i Hi. unfold rows, trace_rows, lw, rw, ow, pis.
    destruct (Nat.lt_ge_cases i nb_pub) as [Hlt|Hge].
    + rewrite app_nth1 by (rewrite repeat_length; exact Hlt). rewrite nth_repeat_lt by exact Hlt.
      rewrite (app_nth1 (seq 0 nb_pub)) by (rewrite seq_length; exact Hlt). rewrite seq_nth by exact Hlt.
      rewrite (app_nth1 pub) by exact Hlt. apply placeholder_row_iff. apply Hpub. exact Hlt.
    + rewrite (app_nth2 (repeat placeholder_row nb_pub)) by (rewrite repeat_length; lia).
      rewrite (app_nth2 (seq 0%nat nb_pub)) by (rewrite seq_length; lia).
      rewrite !(app_nth2 (repeat 0%nat nb_pub)) by (rewrite repeat_length; lia).
      rewrite (app_nth2 pub) by (fold nb_pub; lia).
      rewrite ?repeat_length, ?seq_length. fold nb_pub.
      rewrite nth_repeat.
      destruct (Nat.lt_ge_cases (i - nb_pub)%nat (length gs)) as [Hk|Hk].
      * rewrite !app_nth1 by (rewrite map_length; exact Hk).
        set (d := {| gxa := 0%nat; gxb := 0%nat; gxc := 0%nat; gql := 0; gqr := 0; gqo := 0; gqm := 0; gqc := 0 |}).
        rewrite (nth_indep (map gate_row gs) zero_row (gate_row d)) by (rewrite map_length; exact Hk).
        rewrite (nth_indep (map gxa gs) 0%nat (gxa d)) by (rewrite map_length; exact Hk).
        rewrite (nth_indep (map gxb gs) 0%nat (gxb d)) by (rewrite map_length; exact Hk).
        rewrite (nth_indep (map gxc gs) 0%nat (gxc d)) by (rewrite map_length; exact Hk).
        rewrite !map_nth. apply gate_row_iff. apply Hg. apply nth_In. exact Hk.
      * rewrite !app_nth2 by (rewrite map_length; exact Hk). rewrite !map_length.
        rewrite !nth_repeat. apply zero_row_holds.
Qed.

(* copy constraints: a value vector on the 3·size positions is invariant under the permutation
   exactly when positions of the same wire carry the same value (Backend/Perm.v) *)
Theorem permutation_copy_constraints (nb_pub size : nat) (gs : list gate) (v : nat -> nat) :
  let lro := lro_wires nb_pub size gs in
  (forall i, (i < length lro)%nat -> v (perm_at lro i) = v i) <->
  (forall i j, (i < length lro)%nat -> (j < length lro)%nat -> nth i lro 0%nat = nth j lro 0%nat -> v i = v j).
Proof. intros lro. apply build_perm_cycles. Qed.

End Trace.
