(* Groth16 "in the exponent": every group element is represented by its discrete logarithm in the
   scalar field F and the pairing by multiplication, e(a,b) = a*b.  Setup / Prove / Verify of
   backend/groth16/<curve> are transcribed at that level; commitments (BSB22 / Pedersen) are covered
   through the wire classes: a wire whose base K_i/gamma ends up on the verifier's side of the
   equation — public inputs, commitment wires, privately committed wires (their sum is the proof's
   commitment point D_j) — is of class [true]; the others (K_i/delta in the proving key) of class
   [false]. *)
From Coq Require Import Arith Lia Ring Field List Bool.
Import ListNotations.

Section G16.
Variable F : Type.
Variables (zero one : F) (add mul sub : F -> F -> F) (opp : F -> F) (div : F -> F -> F) (inv : F -> F).
Hypothesis Fth : field_theory zero one add mul sub opp div inv (@eq F).
Add Field Ffg16 : Fth.
Notation "0" := zero. Notation "1" := one.
Infix "+" := add. Infix "*" := mul. Infix "-" := sub. Infix "/" := div.

(* per-wire data: A_i(tau), B_i(tau), C_i(tau), class, assigned value *)
Record wire := { wa : F; wb : F; wc : F; cls : bool; wv : F }.

Fixpoint sumf (f : wire -> F) (l : list wire) : F :=
  match l with [] => 0 | x :: l' => f x + sumf f l' end.

Lemma sumf_add f g l : sumf (fun x => f x + g x) l = sumf f l + sumf g l.
Proof. induction l; cbn; [ring|rewrite IHl; ring]. Qed.
Lemma sumf_scale k f l : sumf (fun x => k * f x) l = k * sumf f l.
Proof. induction l; cbn; [ring|rewrite IHl; ring]. Qed.
Lemma sumf_ext f g l : (forall x, f x = g x) -> sumf f l = sumf g l.
Proof. intros H; induction l; cbn; [reflexivity|rewrite H, IHl; reflexivity]. Qed.
Lemma sumf_split (f : wire -> F) l :
  sumf f l = sumf (fun x => if cls x then f x else 0) l + sumf (fun x => if cls x then 0 else f x) l.
Proof. induction l as [|x l IH]; cbn; [ring|rewrite IH; destruct (cls x); ring]. Qed.

Variables alpha beta gamma delta : F.
Hypothesis gamma_nz : gamma <> 0.
Hypothesis delta_nz : delta <> 0.

Definition K (x : wire) : F := beta * wa x + alpha * wb x + wc x.
(* Setup: vk / commitment-key bases K/gamma for class true, pk bases K/delta for class false *)
Definition vkK (x : wire) : F := K x / gamma.
Definition pkK (x : wire) : F := K x / delta.

Section Proof.
Variable ws : list wire.
Variables r s hz : F.   (* hz = h(tau) * (tau^n - 1); the pk stores Z_k = tau^k (tau^n - 1)/delta *)
Definition wA := sumf (fun x => wv x * wa x) ws.
Definition wB := sumf (fun x => wv x * wb x) ws.
Definition wC := sumf (fun x => wv x * wc x) ws.
(* Prove *)
Definition Ar := alpha + wA + r * delta.
Definition Bs := beta + wB + s * delta.
Definition Krs := sumf (fun x => if cls x then 0 else wv x * pkK x) ws + hz / delta + s * Ar + r * Bs - r * s * delta.
(* Verify: vkx = K_0 + sum x_i K_i + sum_j D_j, then e(Krs,-delta) e(Ar,Bs) e(vkx,-gamma) = e(alpha,beta) *)
Definition vkx := sumf (fun x => if cls x then wv x * vkK x else 0) ws.
Definition accepts (ar bs krs vx : F) : Prop := ar * bs = alpha * beta + vx * gamma + krs * delta.
Definition verify : Prop := accepts Ar Bs Krs vkx.

Lemma sumK : sumf (fun x => wv x * K x) ws = beta * wA + alpha * wB + wC.
Proof.
  unfold wA, wB, wC, K. rewrite <- !sumf_scale, <- !sumf_add. apply sumf_ext. intros x. ring.
Qed.

Lemma vk_part : vkx * gamma = sumf (fun x => if cls x then wv x * K x else 0) ws.
Proof.
  unfold vkx, vkK. rewrite (Fth.(F_R).(Rmul_comm)). rewrite <- sumf_scale. apply sumf_ext. intros x. destruct (cls x); field; assumption.
Qed.
Lemma pk_part : sumf (fun x => if cls x then 0 else wv x * pkK x) ws * delta = sumf (fun x => if cls x then 0 else wv x * K x) ws.
Proof.
  unfold pkK. rewrite (Fth.(F_R).(Rmul_comm)). rewrite <- sumf_scale. apply sumf_ext. intros x. destruct (cls x); field; assumption.
Qed.

(* the verifier's pairing equation on an honestly formed proof holds exactly when the QAP identity
   holds at tau — for every assignment, every r, s: every wire is in the right base set, every
   term has the right sign *)
Theorem g16_verify_iff_qap : verify <-> wA * wB - wC = hz.
Proof.
  unfold verify, accepts.
  assert (E : alpha * beta + vkx * gamma + Krs * delta
            = alpha * beta + (beta * wA + alpha * wB + wC) + hz + (s * Ar + r * Bs - r * s * delta) * delta).
  { rewrite <- sumK. rewrite (sumf_split (fun x => wv x * K x)). rewrite <- vk_part, <- pk_part.
    unfold Krs. field. assumption. }
  rewrite E. unfold Ar, Bs. split; intros H.
  - assert (H2 : wA * wB - wC = hz + ((alpha + wA + r * delta) * (beta + wB + s * delta)
        - (alpha * beta + (beta * wA + alpha * wB + wC) + hz + (s * (alpha + wA + r * delta) + r * (beta + wB + s * delta) - r * s * delta) * delta))) by ring.
    rewrite H2, H. ring.
  - rewrite <- H. ring.
Qed.

(* C03 (completeness, algebraic core): when the quotient handed to the prover is the right one, the
   proof verifies, whatever r and s are *)
Corollary g16_complete : wA * wB - wC = hz -> verify.
Proof. apply g16_verify_iff_qap. Qed.

(* C20: the three proof elements are affine in the prover's randomness with slope delta *)
Theorem g16_blinding_affine :
  Ar = (alpha + wA) + r * delta /\ Bs = (beta + wB) + s * delta /\
  Krs = (sumf (fun x => if cls x then 0 else wv x * pkK x) ws + hz / delta)
        + s * (alpha + wA) + r * (beta + wB) + r * s * delta.
Proof.
  unfold Krs, Ar, Bs. split; [ring|]. split; [ring|].
  generalize (sumf (fun x => if cls x then 0 else wv x * pkK x) ws) (hz / delta). intros S q. ring.
Qed.
End Proof.

(* different r (resp. s) give different Ar (resp. Bs); non-zero r moves Ar off the unblinded value *)
Theorem g16_blinding_injective ws r r' : r <> r' -> Ar ws r <> Ar ws r'.
Proof.
  unfold Ar. intros NE E. apply NE.
  assert (H : r * delta = r' * delta).
  { assert (r * delta = (alpha + wA ws + r * delta) - (alpha + wA ws)) as -> by ring. rewrite E. ring. }
  assert (r = (r * delta) / delta) as -> by (field; assumption). rewrite H. field. assumption.
Qed.

(* C01: replay.  One proof accepted for two public inputs (two values of the verifier-side sum):
   the two sums coincide, i.e. a linear relation sum (x_i - x'_i) K_i/gamma = 0 among key bases *)
Theorem g16_replay_relation ar bs krs vx vx' : accepts ar bs krs vx -> accepts ar bs krs vx' -> vx = vx'.
Proof.
  unfold accepts. intros H1 H2.
  assert (E : vx * gamma = vx' * gamma).
  { assert (vx * gamma = ar * bs - alpha * beta - krs * delta) as -> by (rewrite H1; ring). rewrite H2. ring. }
  assert (vx = (vx * gamma) / gamma) as -> by (field; assumption). rewrite E. field. assumption.
Qed.

(* C01: single replaced element.  With the other elements fixed, Krs is determined; Ar is determined
   when Bs <> 0 and Bs when Ar <> 0 *)
Theorem g16_krs_determined ar bs krs krs' vx : accepts ar bs krs vx -> accepts ar bs krs' vx -> krs = krs'.
Proof.
  unfold accepts. intros H1 H2.
  assert (E : krs * delta = krs' * delta).
  { assert (krs * delta = ar * bs - alpha * beta - vx * gamma) as -> by (rewrite H1; ring). rewrite H2. ring. }
  assert (krs = (krs * delta) / delta) as -> by (field; assumption). rewrite E. field. assumption.
Qed.

Theorem g16_ar_determined ar ar' bs krs vx : bs <> 0 -> accepts ar bs krs vx -> accepts ar' bs krs vx -> ar = ar'.
Proof.
  unfold accepts. intros NB H1 H2.
  assert (E : ar * bs = ar' * bs) by (rewrite H1, H2; reflexivity).
  assert (ar = (ar * bs) / bs) as -> by (field; assumption). rewrite E. field. assumption.
Qed.

(* F1 (fixed in the repository): a verifier that adds EVERY point found in proof.Commitments to the
   verifier-side sum, without comparing their number with the key, accepts any public input: given an
   accepted (proof, vx) and any other vx', appending the single "commitment" vx - vx' makes it accept *)
Theorem g16_surplus_commitment_forgery ar bs krs vx vx' :
  accepts ar bs krs vx -> accepts ar bs krs (vx' + (vx - vx')).
Proof. unfold accepts. intros H. rewrite H. ring. Qed.

End G16.
