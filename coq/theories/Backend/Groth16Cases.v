(* C01/C03/C20 correspondence: key and proof scalars recomputed by the Gallina model from the dumped
   R1CS, toxic waste (set through the verif hook), solved wires and randomness must equal the scalars
   the harness validated against the real group elements ([s]·G == element for every element). *)
From Coq Require Import ZArith List Bool.
From GnarkV Require Import Base.Zp Backend.Groth16Setup CS.SolverZp.
Import ListNotations.
Local Open Scope Z_scope.

Record gcase := {
  g_p : Z; g_n : nat; g_omega : Z;
  g_rows : list (list (Z * nat) * list (Z * nat) * list (Z * nat));
  g_nbw : nat; g_nbpub : nat; g_cw : list nat; g_pc : list (list nat);
  g_tox : Z * Z * Z * Z * Z;                       (* tau alpha beta gamma delta *)
  g_A : list Z; g_B : list Z; g_vkK : list Z; g_pkK : list Z; g_ckK : list (list Z); g_Z : list Z;
  g_w : list Z; g_rs : Z * Z;
  g_Ar : Z; g_Bs : Z; g_Krs : Z; g_D : list Z }.

Fixpoint zll_eqb (a b : list (list Z)) : bool :=
  match a, b with
  | [], [] => true
  | x :: a', y :: b' => zlist_eqb x y && zll_eqb a' b'
  | _, _ => false
  end.

Definition gcheck (c : gcase) : list nat :=    (* which components disagree *)
  let p := g_p c in
  let '(t, al, be, ga, de) := g_tox c in
  let tw := {| tau := t; alpha := al; beta := be; gamma := ga; delta := de |} in
  let rows := map (fun r => let '(l, r', o) := r in {| rL := l; rR := r'; rO := o |}) (g_rows c) in
  let k := setup Z 0 1 (addp p) (mulp p) (subp p) (divp p) tw (g_n c) (g_omega c) rows (g_nbw c) (g_nbpub c) (g_cw c) (g_pc c) in
  let pr := prove Z 0 1 (addp p) (mulp p) (subp p) (divp p) tw (g_n c) (g_omega c) rows (g_nbw c) (g_nbpub c) (g_cw c) (g_pc c) (g_w c) (fst (g_rs c)) (snd (g_rs c)) in
  (if zlist_eqb (kA Z k) (g_A c) then [] else [1%nat]) ++
  (if zlist_eqb (kB Z k) (g_B c) then [] else [2%nat]) ++
  (if zlist_eqb (k_vkK Z k) (g_vkK c) then [] else [3%nat]) ++
  (if zlist_eqb (k_pkK Z k) (g_pkK c) then [] else [4%nat]) ++
  (if zll_eqb (k_ckK Z k) (g_ckK c) then [] else [5%nat]) ++
  (if zlist_eqb (kZ Z k) (g_Z c) then [] else [6%nat]) ++
  (if pAr Z pr =? g_Ar c then [] else [7%nat]) ++
  (if pBs Z pr =? g_Bs c then [] else [8%nat]) ++
  (if pKrs Z pr =? g_Krs c then [] else [9%nat]) ++
  (if zlist_eqb (pD Z pr) (g_D c) then [] else [10%nat]).

Fixpoint gmismatches (k : nat) (cs : list gcase) : list (nat * list nat) :=
  match cs with
  | [] => []
  | c :: cs' => match gcheck c with [] => gmismatches (S k) cs' | l => (k, l) :: gmismatches (S k) cs' end
  end.
