(* C02: the arithmetic of the PLONK verifier (backend/plonk/<curve>/verify.go) after the challenges
   are derived, and the deterministic parts of the soundness argument:

   - [verifier_identity]: the verifier's comparison "opening of the linearised polynomial = -constLin"
     is, for polynomials that evaluate to the claimed values, exactly the PLONK quotient identity at zeta
     (gates + alpha * permutation + alpha^2 * L1 (Z - 1) = Z_H * H);
   - [grand_product_telescope]: the per-row permutation constraint and Z(1)=1 give equality of the two
     grand products over the whole domain;
   - [multiset_copy]: equality of the multisets {(v_k, id_k)} and {(v_k, id_(S k))} gives the copy
     constraints v (S k) = v k — for ANY map S, bijective or not;
   - [copy_grand_product]: conversely, for the permutation built by Setup (Backend/Perm.v) values that
     respect the copy constraints make the two products equal for every beta, gamma (completeness).

   What is NOT a theorem here (and cannot be one about this code): KZG binding, Fiat-Shamir in the
   random-oracle model and the Schwartz-Zippel steps (identity at a random zeta => polynomial identity;
   equality of the products at random beta, gamma => equality of the multisets; separation by alpha). *)
From Coq Require Import Arith Lia Ring Field List Permutation.
From GnarkV Require Import Backend.Perm.
Import ListNotations.

Section Verify.
Variable F : Type.
Variables (zero one : F) (add mul sub : F -> F -> F) (opp : F -> F) (div : F -> F -> F) (inv : F -> F).
Hypothesis Fth : field_theory zero one add mul sub opp div inv (@eq F).
Add Field Ffv : Fth.
Notation "0" := zero. Notation "1" := one.
Infix "+" := add. Infix "*" := mul. Infix "-" := sub. Infix "/" := div.

Fixpoint fpow (x : F) (n : nat) : F := match n with O => 1 | S n' => x * fpow x n' end.

Fixpoint sumprod (a b : list F) : F :=
  match a, b with x :: a', y :: b' => x * y + sumprod a' b' | _, _ => 0 end.

(* ---- executable transcription of the verifier's field arithmetic ---- *)
(* L_i(zeta) = w^i/n (zeta^n - 1)/(zeta - w^i) *)
Definition lagrange (sizeinv zeta zn wi : F) : F := (zn - 1) * wi / (zeta - wi) * sizeinv.

(* PI over the public inputs: sum_i pub_i * L_i(zeta), the generator power accumulated as the code does *)
Fixpoint pi_public (sizeinv zeta zn gen : F) (accw : F) (pubs : list F) : F :=
  match pubs with
  | [] => 0
  | x :: rest => (zn - 1) * inv (zeta - accw) * sizeinv * accw * x + pi_public sizeinv zeta zn gen (accw * gen) rest
  end.

(* the BSB22 part of PI: hashed commitments at the rows nb_pub + cci *)
Fixpoint pi_commit (sizeinv zeta zn gen : F) (nb_pub : nat) (ccis : list nat) (hashed : list F) : F :=
  match ccis, hashed with
  | c :: cs, h :: hs => lagrange sizeinv zeta zn (fpow gen (nb_pub + c)) * h + pi_commit sizeinv zeta zn gen nb_pub cs hs
  | _, _ => 0
  end.

Definition lagrange_zero (sizeinv zeta zn : F) : F := inv (zeta - 1) * (zn - 1) * sizeinv.

Definition const_lin (l r o s1 s2 zu alpha beta gamma L1 pi : F) : F :=
  opp ((o + gamma) * ((beta * s1 + gamma + l) * (s2 * beta + gamma + r)) * alpha * zu - L1 * alpha * alpha + pi).

(* the value at zeta of the polynomial whose commitment is linearizedPolynomialDigest *)
Definition lin_value (qcp pis : list F) (l r o s1 s2 s3 zu z ql qr qm qo qk h0 h1 h2 alpha beta gamma u zeta zn zn2 L1 : F) : F :=
  let _s1 := (beta * s1 + l + gamma) * (beta * s2 + r + gamma) * beta * alpha * zu in
  let _s2 := opp ((beta * zeta + gamma + l) * (beta * u * zeta + gamma + r) * (beta * u * u * zeta + o + gamma) * alpha) in
  let coeffZ := L1 * alpha * alpha + _s2 in
  let zh := zn - 1 in
  sumprod qcp pis + l * ql + r * qr + (l * r) * qm + o * qo + 1 * qk + _s1 * s3 + coeffZ * z
  + opp zh * h0 + opp (zn2 * zh) * h1 + opp (zn2 * zn2 * zh) * h2.

(* ---- the PLONK identity at zeta ---- *)
Definition plonk_identity (qcp pis : list F) (l r o s1 s2 s3 zu z ql qr qm qo qk h0 h1 h2 alpha beta gamma u zeta zn zn2 L1 pi : F) : Prop :=
  (l * ql + r * qr + l * r * qm + o * qo + qk + sumprod qcp pis + pi)
  + alpha * ((l + beta * s1 + gamma) * (r + beta * s2 + gamma) * (o + beta * s3 + gamma) * zu
             - (l + beta * zeta + gamma) * (r + beta * u * zeta + gamma) * (o + beta * u * u * zeta + gamma) * z)
  + alpha * alpha * L1 * (z - 1)
  = (zn - 1) * (h0 + zn2 * h1 + zn2 * zn2 * h2).

Lemma sub_zero_eq a b : a - b = 0 -> a = b.
Proof. intro H. transitivity ((a - b) + b); [ring|]. rewrite H. ring. Qed.

Theorem verifier_identity qcp pis l r o s1 s2 s3 zu z ql qr qm qo qk h0 h1 h2 alpha beta gamma u zeta zn zn2 L1 pi :
  lin_value qcp pis l r o s1 s2 s3 zu z ql qr qm qo qk h0 h1 h2 alpha beta gamma u zeta zn zn2 L1
    = const_lin l r o s1 s2 zu alpha beta gamma L1 pi
  <-> plonk_identity qcp pis l r o s1 s2 s3 zu z ql qr qm qo qk h0 h1 h2 alpha beta gamma u zeta zn zn2 L1 pi.
Proof.
  unfold plonk_identity, lin_value, const_lin. cbv zeta.
  set (SP := sumprod qcp pis).
  split; intro H.
  - apply sub_zero_eq.
    match goal with |- ?X - ?Y = 0 => match type of H with ?L = ?R => transitivity (L - R); [ring|] end end.
    rewrite H. ring.
  - apply sub_zero_eq.
    match goal with |- ?L - ?R = 0 => match type of H with ?X = ?Y => transitivity (X - Y); [ring|] end end.
    rewrite H. ring.
Qed.

(* ---- the grand product ---- *)
Fixpoint prodf (f : nat -> F) (n : nat) : F := match n with O => 1 | S k => prodf f k * f k end.

Theorem grand_product_telescope (z num den : nat -> F) (n : nat) :
  (forall i, (i < n)%nat -> z (S i) * den i = z i * num i) ->
  z O * prodf num n = z n * prodf den n.
Proof.
  induction n as [|k IH]; intro H; cbn [prodf]; [ring|].
  transitivity ((z O * prodf num k) * num k); [ring|].
  rewrite IH by (intros i Hi; apply H; lia).
  transitivity ((z k * num k) * prodf den k); [ring|].
  rewrite <- (H k) by lia. ring.
Qed.

(* Z(1) = 1 and the domain is cyclic (position n is position 0 again) *)
Corollary grand_product_closed (z num den : nat -> F) (n : nat) :
  z O = 1 -> z n = 1 ->
  (forall i, (i < n)%nat -> z (S i) * den i = z i * num i) ->
  prodf num n = prodf den n.
Proof.
  intros H0 Hn H. pose proof (grand_product_telescope z num den n H) as T.
  rewrite H0, Hn in T. transitivity (1 * prodf num n); [ring|]. rewrite T. ring.
Qed.

(* ---- multiset equality gives the copy constraints ---- *)
Theorem multiset_copy (v lab : nat -> F) (S : nat -> nat) (m : nat) :
  (forall a b, (a < m)%nat -> (b < m)%nat -> lab a = lab b -> a = b) ->
  (forall k, (k < m)%nat -> (S k < m)%nat) ->
  Permutation (map (fun k => (v k, lab (S k))) (seq 0 m)) (map (fun k => (v k, lab k)) (seq 0 m)) ->
  forall k, (k < m)%nat -> v (S k) = v k.
Proof.
  intros Hinj Hr P k Hk.
  assert (I : In (v k, lab (S k)) (map (fun k => (v k, lab (S k))) (seq 0 m))).
  { apply in_map_iff. exists k. split; [reflexivity|apply in_seq; lia]. }
  apply (Permutation_in _ P) in I. apply in_map_iff in I. destruct I as [j [E Hj]].
  apply in_seq in Hj. injection E as Ev El.
  assert (j = S k) by (apply Hinj; [lia|apply Hr; exact Hk|exact El]).
  subst j. exact Ev.
Qed.

(* ---- completeness of the permutation argument for the permutation built by Setup ---- *)
Fixpoint lprod (l : list F) : F := match l with [] => 1 | x :: r => x * lprod r end.

Lemma lprod_perm l l' : Permutation l l' -> lprod l = lprod l'.
Proof.
  induction 1 as [|x l l' P IH|x y l|l l' l'' P1 IH1 P2 IH2]; cbn [lprod].
  - reflexivity.
  - rewrite IH. reflexivity.
  - ring.
  - rewrite IH1. exact IH2.
Qed.

Theorem copy_grand_product (lro : list nat) (v lab : nat -> F) (beta gamma : F) :
  (forall i, (i < length lro)%nat -> v (perm_at lro i) = v i) ->
  lprod (map (fun k => v k + beta * lab (perm_at lro k) + gamma) (seq 0 (length lro)))
  = lprod (map (fun k => v k + beta * lab k + gamma) (seq 0 (length lro))).
Proof.
  intro Hinv.
  transitivity (lprod (map (fun j => v j + beta * lab j + gamma) (map (perm_at lro) (seq 0 (length lro))))).
  - rewrite map_map. f_equal. apply map_ext_in. intros k Hk. apply in_seq in Hk.
    rewrite Hinv by lia. reflexivity.
  - apply lprod_perm. apply Permutation_map. rewrite map_perm_at_seq. apply build_perm_permutation.
Qed.

End Verify.
