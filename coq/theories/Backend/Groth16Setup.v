(* Executable transcription of backend/groth16/<curve>/setup.go (setupABC + key scalars) and of the
   scalar side of prove.go, over a field given by its operations.  The key and proof elements of the
   real code are [scalar]·G; the harness checks that for every element against the scalars this model
   (and an independent Go transcription) produces from the same R1CS, toxic waste and randomness. *)
From Coq Require Import List Arith Bool.
From GnarkV Require Import Backend.Groth16.
Import ListNotations.

Section Setup.
Variable F : Type.
Variables (zero one : F) (add mul sub : F -> F -> F) (opp : F -> F) (div : F -> F -> F).
Notation "0" := zero. Notation "1" := one.
Infix "+" := add. Infix "*" := mul. Infix "-" := sub. Infix "/" := div.

Definition lexp := list (F * nat).
Record r1c := { rL : lexp; rR : lexp; rO : lexp }.

Fixpoint fpow (x : F) (n : nat) : F := match n with O => 1 | S n' => x * fpow x n' end.
Fixpoint of_nat (n : nat) : F := match n with O => 0 | S n' => 1 + of_nat n' end.
Fixpoint fsum (l : list F) : F := match l with [] => 0 | x :: l' => x + fsum l' end.

(* coefficient of wire i in a linear expression *)
Definition coeff_of (i : nat) (l : lexp) : F := fsum (map fst (filter (fun t => Nat.eqb (snd t) i) l)).

Record toxic := { tau : F; alpha : F; beta : F; gamma : F; delta : F }.

(* Lagrange basis of the domain {omega^j : j < n} evaluated at tau:
   L_j(tau) = omega^j (tau^n - 1) / (n (tau - omega^j))  (setupABC's recurrence computes the same) *)
Definition lagrange (tw : toxic) (n : nat) (omega : F) (j : nat) : F :=
  let wj := fpow omega j in
  wj * (fpow (tau tw) n - 1) / (of_nat n * (tau tw - wj)).

(* [lags] = the Lagrange coefficients L_0(tau) .. L_{n-1}(tau), computed once *)
Definition lagranges (tw : toxic) (n : nat) (omega : F) : list F := map (lagrange tw n omega) (seq 0 n).

Definition eval_col (sel : r1c -> lexp) (lags : list F) (rows : list r1c) (i : nat) : F :=
  fsum (map (fun lr => fst lr * coeff_of i (sel (snd lr))) (combine lags rows)).

(* wire classes as decided by Setup: public (incl. ONE) and commitment wires -> vk.G1.K (gamma);
   privately committed wires -> Pedersen bases of their commitment (gamma); the rest -> pk.G1.K (delta) *)
Inductive wclass := CPublic | CCommitted (j : nat) | CPrivate.

Fixpoint find_committed (i : nat) (j : nat) (pc : list (list nat)) : option nat :=
  match pc with
  | [] => None
  | l :: pc' => if existsb (Nat.eqb i) l then Some j else find_committed i (S j) pc'
  end.

Definition class_of (nb_public : nat) (commit_wires : list nat) (priv_committed : list (list nat)) (i : nat) : wclass :=
  if Nat.ltb i nb_public || existsb (Nat.eqb i) commit_wires then CPublic
  else match find_committed i 0 priv_committed with Some j => CCommitted j | None => CPrivate end.

Record keys := {
  kA : list F; kB : list F;        (* A_i(tau), B_i(tau) for every wire (zero = filtered point at infinity) *)
  k_vkK : list F; k_pkK : list F; k_ckK : list (list F);
  kZ : list F }.                   (* Z_k = tau^k (tau^n - 1) / delta, natural order, k < n *)

Definition setup (tw : toxic) (n : nat) (omega : F) (rows : list r1c) (nb_wires nb_public : nat)
           (commit_wires : list nat) (priv_committed : list (list nat)) : keys :=
  let wires := seq 0 nb_wires in
  let lags := lagranges tw n omega in
  let a := map (eval_col rL lags rows) wires in
  let b := map (eval_col rR lags rows) wires in
  let c := map (eval_col rO lags rows) wires in
  let Kraw i := beta tw * nth i a 0 + alpha tw * nth i b 0 + nth i c 0 in
  let cls := class_of nb_public commit_wires priv_committed in
  {| kA := a; kB := b;
     k_vkK := map (fun i => Kraw i / gamma tw) (filter (fun i => match cls i with CPublic => true | _ => false end) wires);
     k_pkK := map (fun i => Kraw i / delta tw) (filter (fun i => match cls i with CPrivate => true | _ => false end) wires);
     k_ckK := map (fun j => map (fun i => Kraw i / gamma tw)
                   (filter (fun i => match cls i with CCommitted j' => Nat.eqb j j' | _ => false end) wires))
                  (seq 0 (length priv_committed));
     kZ := map (fun k => fpow (tau tw) k * (fpow (tau tw) n - 1) / delta tw) (seq 0 n) |}.

(* scalar side of Prove for the solved wires w, randomness r s; the quotient term is
   (A·w)(B·w) - C·w over delta (= sum h_k Z_k when the constraints hold: C03) *)
Record proof := { pAr : F; pBs : F; pKrs : F; pD : list F }.

Definition dot (l : list F) (w : list F) : F := fsum (map (fun p => fst p * snd p) (combine l w)).

Definition prove (tw : toxic) (n : nat) (omega : F) (rows : list r1c) (nb_wires nb_public : nat)
           (commit_wires : list nat) (priv_committed : list (list nat)) (w : list F) (r s : F) : proof :=
  let wires := seq 0 nb_wires in
  let lags := lagranges tw n omega in
  let a := map (eval_col rL lags rows) wires in
  let b := map (eval_col rR lags rows) wires in
  let c := map (eval_col rO lags rows) wires in
  let Kraw i := beta tw * nth i a 0 + alpha tw * nth i b 0 + nth i c 0 in
  let cls := class_of nb_public commit_wires priv_committed in
  let wA := dot a w in let wB := dot b w in let wC := dot c w in
  let ar := alpha tw + wA + r * delta tw in
  let bs := beta tw + wB + s * delta tw in
  let priv := fsum (map (fun i => nth i w 0 * (Kraw i / delta tw))
                        (filter (fun i => match cls i with CPrivate => true | _ => false end) wires)) in
  {| pAr := ar; pBs := bs;
     pKrs := priv + (wA * wB - wC) / delta tw + s * ar + r * bs - r * s * delta tw;
     pD := map (fun j => fsum (map (fun i => nth i w 0 * (Kraw i / gamma tw))
                   (filter (fun i => match cls i with CCommitted j' => Nat.eqb j j' | _ => false end) wires)))
               (seq 0 (length priv_committed)) |}.

End Setup.
