From Coq Require Import Arith Lia List Bool.
Import ListNotations.

(* transcription of buildPermutation (backend/plonk/<curve>/setup.go) *)
Definition upd {A} (f : nat -> A) (k : nat) (v : A) : nat -> A :=
  fun x => if Nat.eqb x k then v else f x.

(* pass 1: returns reversed? no: we return perm1 in order, and final cycle *)
Fixpoint pass1 (lro : list nat) (i : nat) (cycle : nat -> option nat) : list (option nat) * (nat -> option nat) :=
  match lro with
  | [] => ([], cycle)
  | w :: rest =>
      let p := cycle w in
      let '(ps, cy) := pass1 rest (S i) (upd cycle w (Some i)) in
      (p :: ps, cy)
  end.

Definition pick (cy : nat -> option nat) (pw : option nat * nat) : nat :=
  match fst pw with Some j => j | None => match cy (snd pw) with Some j => j | None => 0 end end.

Definition build_perm (lro : list nat) : list nat :=
  let '(p1, cy) := pass1 lro 0 (fun _ => None) in
  map (pick cy) (combine p1 lro).


(* spec: previous occurrence / last occurrence *)
Fixpoint last_occ_from (lro : list nat) (i : nat) (w : nat) (acc : option nat) : option nat :=
  match lro with
  | [] => acc
  | x :: rest => last_occ_from rest (S i) w (if Nat.eqb x w then Some i else acc)
  end.

Lemma pass1_cycle : forall lro i cy w,
  snd (pass1 lro i cy) w = last_occ_from lro i w (cy w).
Proof.
  induction lro as [|x rest IH]; intros i cy w; cbn [pass1 last_occ_from].
  - reflexivity.
  - destruct (pass1 rest (S i) (upd cy x (Some i))) as [ps cy'] eqn:E. cbn [snd].
    specialize (IH (S i) (upd cy x (Some i)) w). rewrite E in IH. cbn [snd] in IH. rewrite IH.
    unfold upd. rewrite Nat.eqb_sym. destruct (Nat.eqb x w); reflexivity.
Qed.

Lemma pass1_length : forall lro i cy, length (fst (pass1 lro i cy)) = length lro.
Proof.
  induction lro as [|x rest IH]; intros i cy; cbn [pass1]; [reflexivity|].
  destruct (pass1 rest (S i) (upd cy x (Some i))) as [ps cy'] eqn:E. cbn [fst length].
  specialize (IH (S i) (upd cy x (Some i))). rewrite E in IH. cbn [fst] in IH. now rewrite IH.
Qed.

(* key invariant of pass 1: entry k is the last position < i+k (>= base) holding the same wire, per cycle *)
Lemma pass1_nth : forall lro i cy k,
  k < length lro ->
  nth k (fst (pass1 lro i cy)) None =
  last_occ_from (firstn k lro) i (nth k lro 0) (cy (nth k lro 0)).
Proof.
  induction lro as [|x rest IH]; intros i cy k Hk; cbn [length] in Hk; [lia|].
  cbn [pass1]. destruct (pass1 rest (S i) (upd cy x (Some i))) as [ps cy'] eqn:E. cbn [fst].
  destruct k as [|k].
  - cbn. reflexivity.
  - cbn [nth firstn last_occ_from].
    specialize (IH (S i) (upd cy x (Some i)) k ltac:(lia)). rewrite E in IH. cbn [fst] in IH. rewrite IH.
    unfold upd. rewrite Nat.eqb_sym. destruct (Nat.eqb x (nth k rest 0)); reflexivity.
Qed.

(* facts about last_occ_from *)
Lemma last_occ_from_some : forall lro i w acc j,
  last_occ_from lro i w acc = Some j ->
  (acc = Some j /\ (forall k, k < length lro -> nth k lro 0 <> w)) \/
  (i <= j < i + length lro /\ nth (j - i) lro 0 = w /\ forall k, j - i < k < length lro -> nth k lro 0 <> w).
Proof.
  induction lro as [|x rest IH]; intros i w acc j H; cbn [last_occ_from] in H.
  - left. split; [exact H|]. cbn. lia.
  - apply IH in H. destruct H as [[Hacc Hno] | [Hr [Hn Hno]]].
    + destruct (Nat.eqb x w) eqn:Exw.
      * apply Nat.eqb_eq in Exw. injection Hacc as <-. right. cbn [length].
        split; [lia|]. replace (i - i) with 0 by lia. cbn. split; [exact Exw|].
        intros k Hk. destruct k; [lia|]. cbn. apply Hno. lia.
      * left. split; [exact Hacc|]. intros k Hk. destruct k; cbn.
        -- apply Nat.eqb_neq. exact Exw.
        -- apply Hno. cbn [length] in Hk. lia.
    + right. cbn [length]. split; [lia|].
      replace (j - i) with (S (j - S i)) by lia. cbn [nth]. split; [exact Hn|].
      intros k Hk. destruct k; [lia|]. cbn. apply Hno. lia.
Qed.

Lemma last_occ_from_none : forall lro i w acc,
  last_occ_from lro i w acc = None -> acc = None /\ forall k, k < length lro -> nth k lro 0 <> w.
Proof.
  induction lro as [|x rest IH]; intros i w acc H; cbn [last_occ_from] in H.
  - split; [exact H|cbn; lia].
  - apply IH in H. destruct H as [Hacc Hno]. destruct (Nat.eqb x w) eqn:E; [discriminate|].
    split; [exact Hacc|]. intros k Hk. destruct k; cbn.
    + apply Nat.eqb_neq; exact E.
    + apply Hno. cbn [length] in Hk. lia.
Qed.

Definition perm_at (lro : list nat) (i : nat) : nat := nth i (build_perm lro) 0.

(* characterisation: same wire, and it is the previous occurrence or (for the first one) the last *)
Lemma build_perm_length lro : length (build_perm lro) = length lro.
Proof.
  unfold build_perm. destruct (pass1 lro 0 (fun _ => None)) as [p1 cy] eqn:E.
  rewrite map_length, combine_length.
  pose proof (pass1_length lro 0 (fun _ => None)) as L. rewrite E in L. cbn in L. lia.
Qed.

Lemma perm_at_spec lro i : i < length lro ->
  let w := nth i lro 0 in
  perm_at lro i < length lro /\ nth (perm_at lro i) lro 0 = w /\
  ( (perm_at lro i < i /\ forall k, perm_at lro i < k < i -> nth k lro 0 <> w)
    \/ ((forall k, k < i -> nth k lro 0 <> w) /\ i <= perm_at lro i /\ forall k, perm_at lro i < k < length lro -> nth k lro 0 <> w)).
Proof.
  intros Hi w. unfold perm_at, build_perm.
  destruct (pass1 lro 0 (fun _ => None)) as [p1 cy] eqn:E.
  pose proof (pass1_length lro 0 (fun _ => None)) as L. rewrite E in L. cbn [fst] in L.
  pose proof (pass1_nth lro 0 (fun _ => None) i Hi) as N. rewrite E in N. cbn [fst] in N.
  pose proof (pass1_cycle lro 0 (fun _ => None) w) as C. rewrite E in C. cbn [snd] in C.
  assert (Hnth : nth i (map (pick cy) (combine p1 lro)) 0
          = match nth i p1 None with Some j => j | None => match cy w with Some j => j | None => 0 end end).
  { rewrite nth_indep with (d':= pick cy (None, 0)).
    - rewrite map_nth. rewrite combine_nth by exact L. reflexivity.
    - rewrite map_length, combine_length. lia. }
  rewrite Hnth. fold w in N. rewrite N.
  destruct (last_occ_from (firstn i lro) 0 w None) as [j|] eqn:EP.
  - apply last_occ_from_some in EP. destruct EP as [[Habs _]|[Hr [Hn Hno]]]; [discriminate|].
    rewrite firstn_length_le in Hr, Hno by lia. rewrite Nat.sub_0_r in Hn, Hno.
    assert (nth j lro 0 = w). { rewrite <- Hn. rewrite <- (firstn_skipn i lro) at 1. rewrite app_nth1; [reflexivity|rewrite firstn_length_le; lia]. }
    split; [lia|]. split; [exact H|]. left. split; [lia|].
    intros k Hk. specialize (Hno k ltac:(lia)). intro Hc. apply Hno.
    rewrite <- Hc. rewrite <- (firstn_skipn i lro) at 2. rewrite app_nth1; [reflexivity|rewrite firstn_length_le; lia].
  - apply last_occ_from_none in EP. destruct EP as [_ Hno]. rewrite firstn_length_le in Hno by lia.
    assert (Hbefore : forall k, k < i -> nth k lro 0 <> w).
    { intros k Hk Hc. apply (Hno k Hk). rewrite <- Hc. rewrite <- (firstn_skipn i lro) at 2. rewrite app_nth1; [reflexivity|rewrite firstn_length_le; lia]. }
    destruct (cy w) as [j|] eqn:EC.
    + symmetry in C. apply last_occ_from_some in C. destruct C as [[Habs _]|[Hr [Hn Hno2]]]; [discriminate|].
      rewrite Nat.sub_0_r in Hn, Hno2.
      split; [lia|]. split; [exact Hn|]. right. split; [exact Hbefore|]. split.
      * destruct (Nat.lt_ge_cases j i) as [Hlt|Hge]; [exfalso; exact (Hbefore j Hlt Hn)|exact Hge].
      * intros k Hk. apply Hno2. lia.
    + symmetry in C. apply last_occ_from_none in C. destruct C as [_ Hno2]. exfalso. exact (Hno2 i Hi eq_refl).
Qed.

(* the theorem of the design: S-invariance of a value vector <=> equal wires carry equal values *)
Theorem build_perm_cycles lro (v : nat -> nat) :
  (forall i, i < length lro -> v (perm_at lro i) = v i) <->
  (forall i j, i < length lro -> j < length lro -> nth i lro 0 = nth j lro 0 -> v i = v j).
Proof.
  split.
  - intros HS.
    assert (Hchain : forall j i, i < j -> j < length lro -> nth i lro 0 = nth j lro 0 -> v i = v j).
    { induction j as [j IHj] using lt_wf_ind. intros i Hij Hj Hw.
      destruct (perm_at_spec lro j Hj) as [Hlt [Hsame [[Hprev Hgap]|[Hfirst _]]]].
      - rewrite <- (HS j Hj).
        destruct (Nat.eq_dec (perm_at lro j) i) as [->|Hne]; [reflexivity|].
        assert (i < perm_at lro j).
        { destruct (Nat.lt_ge_cases i (perm_at lro j)); [assumption|]. exfalso. apply (Hgap i); [lia|exact Hw]. }
        apply IHj; [lia|lia|lia|]. rewrite Hsame. exact Hw.
      - exfalso. exact (Hfirst i Hij Hw). }
    intros i j Hi Hj Hw. destruct (Nat.lt_trichotomy i j) as [H|[->|H]]; [apply Hchain; auto|reflexivity|symmetry; apply Hchain; auto].
  - intros Hcl i Hi. destruct (perm_at_spec lro i Hi) as [Hlt [Hsame _]]. apply Hcl; auto.
Qed.

(* ---- the wiring "permutation" is a permutation of the positions ---- *)
Lemma perm_at_inj lro i i' : i < length lro -> i' < length lro -> perm_at lro i = perm_at lro i' -> i = i'.
Proof.
  assert (W : forall a b, a < b -> b < length lro -> perm_at lro a = perm_at lro b -> False).
  { intros a b Hab Hb E.
    assert (Ha : a < length lro) by lia.
    destruct (perm_at_spec lro a Ha) as [_ [Wa Ca]].
    destruct (perm_at_spec lro b Hb) as [_ [Wb Cb]].
    cbn zeta in *.
    assert (Wab : nth a lro 0 = nth b lro 0) by (rewrite <- Wa, <- Wb, E; reflexivity).
    destruct Cb as [[Hlt Hno]|[Hfirst _]].
    - (* b has a previous occurrence j = perm_at b < b, none in between *)
      destruct Ca as [[Hlta _]|[_ [Hge Hnoafter]]].
      + apply (Hno a); [lia|exact Wab].
      + (* a is first, perm_at a >= a is the last occurrence; but b > perm_at a has the wire *)
        apply (Hnoafter b); [lia|symmetry; exact Wab].
    - apply (Hfirst a Hab). exact Wab. }
  intros Hi Hi' E.
  destruct (Nat.lt_total i i') as [L|[Q|L]]; [exfalso; exact (W i i' L Hi' E)|exact Q|exfalso; exact (W i' i L Hi (eq_sym E))].
Qed.

From Coq Require Import Permutation.

Lemma build_perm_NoDup lro : NoDup (build_perm lro).
Proof.
  apply (proj2 (NoDup_nth (build_perm lro) 0)). rewrite build_perm_length. intros i j Hi Hj E.
  exact (perm_at_inj lro i j Hi Hj E).
Qed.

Theorem build_perm_permutation lro : Permutation (build_perm lro) (seq 0 (length lro)).
Proof.
  apply NoDup_Permutation_bis.
  - apply build_perm_NoDup.
  - rewrite seq_length, build_perm_length. lia.
  - intros x Hx. apply (In_nth _ _ 0) in Hx. destruct Hx as [i [Hi E]]. rewrite build_perm_length in Hi.
    apply in_seq. destruct (perm_at_spec lro i Hi) as [Hlt _]. unfold perm_at in Hlt. lia.
Qed.

Lemma map_perm_at_seq lro : map (perm_at lro) (seq 0 (length lro)) = build_perm lro.
Proof.
  apply (nth_ext _ _ 0 0).
  - rewrite map_length, seq_length, build_perm_length. reflexivity.
  - intros i Hi. rewrite map_length, seq_length in Hi.
    rewrite (nth_indep _ 0 (perm_at lro 0)) by (rewrite map_length, seq_length; exact Hi).
    rewrite map_nth. rewrite seq_nth by exact Hi. reflexivity.
Qed.
