(* C02 correspondence: selector columns, commitment selectors and the wiring permutation recomputed
   by the Gallina model from the dumped sparse system must equal the exported Trace of the real Setup. *)
From Coq Require Import ZArith List Bool.
From GnarkV Require Import Base.Zp Backend.Perm Backend.PlonkTrace CS.SolverZp.
Import ListNotations.
Local Open Scope Z_scope.

Record pcase := {
  pc_p : Z; pc_nbpub : nat; pc_size : nat;
  pc_gates : list (nat * nat * nat * Z * Z * Z * Z * Z);   (* xa xb xc ql qr qo qm qc *)
  pc_committed : list (list nat);
  pc_ql : list Z; pc_qr : list Z; pc_qm : list Z; pc_qo : list Z; pc_qk : list Z;
  pc_qcp : list (list Z);
  pc_S : list nat }.

Fixpoint natlist_eqb (a b : list nat) : bool :=
  match a, b with
  | [], [] => true
  | x :: a', y :: b' => Nat.eqb x y && natlist_eqb a' b'
  | _, _ => false
  end.

Fixpoint zll_eqb (a b : list (list Z)) : bool :=
  match a, b with
  | [], [] => true
  | x :: a', y :: b' => zlist_eqb x y && zll_eqb a' b'
  | _, _ => false
  end.

Definition pcheck (c : pcase) : list nat :=
  let p := pc_p c in
  let gs := map (fun t => let '(xa, xb, xc, ql, qr, qo, qm, qc) := t in
                  {| gxa := xa; gxb := xb; gxc := xc; gql := ql; gqr := qr; gqo := qo; gqm := qm; gqc := qc |}) (pc_gates c) in
  let rows := trace_rows Z 0 1 (oppp p) (pc_nbpub c) (pc_size c) gs in
  (if zlist_eqb (map (rql Z) rows) (pc_ql c) then [] else [1%nat]) ++
  (if zlist_eqb (map (rqr Z) rows) (pc_qr c) then [] else [2%nat]) ++
  (if zlist_eqb (map (rqm Z) rows) (pc_qm c) then [] else [3%nat]) ++
  (if zlist_eqb (map (rqo Z) rows) (pc_qo c) then [] else [4%nat]) ++
  (if zlist_eqb (map (rqk Z) rows) (pc_qk c) then [] else [5%nat]) ++
  (if zll_eqb (map (qcp_col Z 0 1 (pc_nbpub c) (pc_size c)) (pc_committed c)) (pc_qcp c) then [] else [6%nat]) ++
  (if natlist_eqb (permutation Z (pc_nbpub c) (pc_size c) gs) (pc_S c) then [] else [7%nat]).

Fixpoint pmismatches (k : nat) (cs : list pcase) : list (nat * list nat) :=
  match cs with
  | [] => []
  | c :: cs' => match pcheck c with [] => pmismatches (S k) cs' | l => (k, l) :: pmismatches (S k) cs' end
  end.

(* ---- the verifier's arithmetic on observed verifications (verif hook: challenges, PI(zeta), constLin) ---- *)
From GnarkV Require Import Backend.PlonkVerify.

Record vcase := {
  vc_p : Z; vc_size : nat; vc_nbpub : nat; vc_gen : Z; vc_sizeinv : Z;
  vc_pubs : list Z; vc_ccis : list nat; vc_hashed : list Z;
  vc_gamma : Z; vc_beta : Z; vc_alpha : Z; vc_zeta : Z;
  vc_l : Z; vc_r : Z; vc_o : Z; vc_s1 : Z; vc_s2 : Z; vc_zu : Z;
  vc_pi : Z; vc_constlin : Z }.

Definition vcheck (c : vcase) : list nat :=
  let p := vc_p c in
  let zn := fpow Z 1 (mulp p) (vc_zeta c) (vc_size c) in
  let pi := addp p (pi_public Z 0 1 (addp p) (mulp p) (subp p) (invp p) (vc_sizeinv c) (vc_zeta c) zn (vc_gen c) 1 (vc_pubs c))
                   (pi_commit Z 0 1 (addp p) (mulp p) (subp p) (divp p) (vc_sizeinv c) (vc_zeta c) zn (vc_gen c) (vc_nbpub c) (vc_ccis c) (vc_hashed c)) in
  let L1 := lagrange_zero Z 1 (mulp p) (subp p) (invp p) (vc_sizeinv c) (vc_zeta c) zn in
  let cl := const_lin Z (addp p) (mulp p) (subp p) (oppp p) (vc_l c) (vc_r c) (vc_o c) (vc_s1 c) (vc_s2 c) (vc_zu c)
              (vc_alpha c) (vc_beta c) (vc_gamma c) L1 pi in
  (if pi =? vc_pi c then [] else [1%nat]) ++ (if cl =? vc_constlin c then [] else [2%nat]).

Fixpoint vmismatches (k : nat) (cs : list vcase) : list (nat * list nat) :=
  match cs with
  | [] => []
  | c :: cs' => match vcheck c with [] => vmismatches (S k) cs' | l => (k, l) :: vmismatches (S k) cs' end
  end.
