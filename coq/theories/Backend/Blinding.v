(* C20: blinding of PLONK wire / permutation polynomials and masking of Pedersen commitments.
   A polynomial is its coefficient list; blinding adds b(X)·(X^n - 1), which vanishes on the
   domain {x : x^n = 1} (so the constraint system is unaffected) and shifts the KZG commitment
   [p(tau)] by b(tau)(tau^n - 1). *)
From Coq Require Import Arith Ring Field List.
Import ListNotations.

Section Blinding.
Variable F : Type.
Variables (zero one : F) (add mul sub : F -> F -> F) (opp : F -> F) (div : F -> F -> F) (inv : F -> F).
Hypothesis Fth : field_theory zero one add mul sub opp div inv (@eq F).
Add Field Ffb : Fth.
Notation "0" := zero. Notation "1" := one.
Infix "+" := add. Infix "*" := mul. Infix "-" := sub.

Fixpoint eval (p : list F) (x : F) : F := match p with [] => 0 | c :: p' => c + x * eval p' x end.
Fixpoint fpow (x : F) (n : nat) : F := match n with O => 1 | S n' => x * fpow x n' end.

Fixpoint padd (p q : list F) : list F :=
  match p, q with
  | [], _ => q
  | _, [] => p
  | a :: p', b :: q' => (a + b) :: padd p' q'
  end.
Definition pneg (p : list F) : list F := map (fun c => 0 - c) p.
Definition pshift (n : nat) (p : list F) : list F := repeat 0 n ++ p.    (* X^n · p *)

Lemma eval_padd p q x : eval (padd p q) x = eval p x + eval q x.
Proof.
  revert q. induction p as [|a p IH]; intros [|b q]; cbn [padd eval]; try ring. rewrite IH. ring.
Qed.
Lemma eval_pneg p x : eval (pneg p) x = 0 - eval p x.
Proof. induction p as [|a p IH]; cbn [pneg map eval]; [ring|]. fold (pneg p). rewrite IH. ring. Qed.
Lemma eval_pshift n p x : eval (pshift n p) x = fpow x n * eval p x.
Proof.
  unfold pshift. induction n as [|n IH]; cbn [repeat app eval fpow]; [ring|]. rewrite IH. ring.
Qed.

(* blind p b n = p + b·(X^n - 1) : what the prover commits to (p = l, r, o or z) *)
Definition blind (p b : list F) (n : nat) : list F := padd p (padd (pshift n b) (pneg b)).

Theorem blind_eval p b n x : eval (blind p b n) x = eval p x + eval b x * (fpow x n - 1).
Proof. unfold blind. rewrite !eval_padd, eval_pshift, eval_pneg. ring. Qed.

(* on the evaluation domain the blinded polynomial takes the same values: gates and copy
   constraints are unaffected *)
Corollary blind_on_domain p b n x : fpow x n = 1 -> eval (blind p b n) x = eval p x.
Proof. intros H. rewrite blind_eval, H. ring. Qed.

(* the commitment (evaluation at the SRS secret tau) moves by b(tau)(tau^n - 1): it differs from the
   commitment to the unblinded polynomial unless tau is in the domain or a root of b *)
Corollary blind_shifts_commitment p b n tau :
  fpow tau n <> 1 -> eval b tau <> 0 -> eval (blind p b n) tau <> eval p tau.
Proof.
  intros Hd Hb E. rewrite blind_eval in E.
  assert (Z : eval b tau * (fpow tau n - 1) = 0).
  { assert (eval b tau * (fpow tau n - 1) = (eval p tau + eval b tau * (fpow tau n - 1)) - eval p tau) as -> by ring.
    rewrite E. ring. }
  assert (N : fpow tau n - 1 <> 0).
  { intros C. apply Hd. assert (fpow tau n = (fpow tau n - 1) + 1) as -> by ring. rewrite C. ring. }
  apply Hb. assert (eval b tau = (eval b tau * (fpow tau n - 1)) * inv (fpow tau n - 1)) as -> by (field; exact N).
  rewrite Z. ring.
Qed.

(* two blinding polynomials with different values at tau give different commitments *)
Corollary blind_fresh p b b' n tau :
  fpow tau n <> 1 -> eval b tau <> eval b' tau -> eval (blind p b n) tau <> eval (blind p b' n) tau.
Proof.
  intros Hd Hb E. rewrite !blind_eval in E.
  assert (N : fpow tau n - 1 <> 0).
  { intros C. apply Hd. assert (fpow tau n = (fpow tau n - 1) + 1) as -> by ring. rewrite C. ring. }
  apply Hb.
  assert (Q : eval b tau * (fpow tau n - 1) = eval b' tau * (fpow tau n - 1)).
  { assert (eval b tau * (fpow tau n - 1) = (eval p tau + eval b tau * (fpow tau n - 1)) - eval p tau) as -> by ring.
    rewrite E. ring. }
  assert (eval b tau = (eval b tau * (fpow tau n - 1)) * inv (fpow tau n - 1)) as -> by (field; exact N).
  rewrite Q. field. exact N.
Qed.

(* Pedersen commitment with a mask wire: D = base + mask * Bm; for Bm <> 0 the map mask |-> D is a
   bijection, so D alone carries no information on the committed values (perfect hiding) *)
Theorem pedersen_mask_bijective base Bm : Bm <> 0 ->
  (forall m m', base + m * Bm = base + m' * Bm -> m = m') /\ (forall D, exists m, base + m * Bm = D).
Proof.
  intros N. split.
  - intros m m' E.
    assert (Q : m * Bm = m' * Bm).
    { assert (m * Bm = (base + m * Bm) - base) as -> by ring. rewrite E. ring. }
    assert (m = (m * Bm) * inv Bm) as -> by (field; exact N). rewrite Q. field. exact N.
  - intros D. exists ((D - base) * inv Bm). field. exact N.
Qed.
End Blinding.
