(* C01: the batched Pedersen knowledge proof of Groth16 commitments, in the exponent.
   BatchVerifyMultiVk checks  prod_i e(r^i D_i, -sigma_i G) * e(fold_r(pok), G) = 1, i.e.
       sum_i r^i pok_i = sum_i r^i sigma_i D_i .
   Setup must draw an independent sigma_i per commitment: with a shared sigma a prover can move a
   multiple of a basis element of one commitment into another commitment (the sum D_0 + D_1, which is
   all the pairing equation sees, is unchanged) and still produce an accepted knowledge proof.  *)
From Coq Require Import Ring Field.

Section Pok.
Variable F : Type.
Variables (zero one : F) (add mul sub : F -> F -> F) (opp : F -> F) (div : F -> F -> F) (inv : F -> F).
Hypothesis Fth : field_theory zero one add mul sub opp div inv (@eq F).
Add Field Ffp : Fth.
Notation "0" := zero. Notation "1" := one.
Infix "+" := add. Infix "*" := mul. Infix "-" := sub.

(* two commitments, folding coefficient r *)
Definition pok_accepts (sigma0 sigma1 r D0 D1 pok0 pok1 : F) : Prop :=
  pok0 + r * pok1 = sigma0 * D0 + r * (sigma1 * D1).

Theorem pok_honest_accepted sigma0 sigma1 r D0 D1 :
  pok_accepts sigma0 sigma1 r D0 D1 (sigma0 * D0) (sigma1 * D1).
Proof. unfold pok_accepts. ring. Qed.

(* the migration adversary: b = a basis element of commitment 0 (sigma0 * b is in the proving key),
   k a scalar of the prover's choice *)
Theorem pok_migration sigma0 sigma1 r D0 D1 b k :
  pok_accepts sigma0 sigma1 r (D0 - k * b) (D1 + k * b) (sigma0 * D0 - k * (sigma0 * b)) (sigma1 * D1 + k * (sigma0 * b))
  <-> r * (k * b) * (sigma0 - sigma1) = 0.
Proof.
  unfold pok_accepts. split; intro H.
  - match type of H with ?L = ?R => transitivity (L - R); [ring|] end. rewrite H. ring.
  - match goal with |- ?L = ?R => transitivity ((L - R) + R); [ring|] end.
    match goal with |- ?X + ?R = ?R => transitivity (r * (k * b) * (sigma0 - sigma1) + R); [ring|] end.
    rewrite H. ring.
Qed.

Lemma mul_nz a b : a <> 0 -> a * b = 0 -> b = 0.
Proof. intros N E. transitivity ((a * b) * inv a); [field; exact N|]. rewrite E. ring. Qed.

Theorem pok_migration_rejected sigma0 sigma1 r D0 D1 b k :
  r <> 0 -> k <> 0 -> b <> 0 -> sigma0 <> sigma1 ->
  ~ pok_accepts sigma0 sigma1 r (D0 - k * b) (D1 + k * b) (sigma0 * D0 - k * (sigma0 * b)) (sigma1 * D1 + k * (sigma0 * b)).
Proof.
  intros Nr Nk Nb Ns A. apply pok_migration in A. apply Ns.
  assert (E : sigma0 - sigma1 = 0).
  { apply (mul_nz b _ Nb). apply (mul_nz k _ Nk). apply (mul_nz r _ Nr). rewrite <- A. ring. }
  transitivity ((sigma0 - sigma1) + sigma1); [ring|]. rewrite E. ring.
Qed.

Theorem pok_migration_shared_sigma_accepted sigma r D0 D1 b k :
  pok_accepts sigma sigma r (D0 - k * b) (D1 + k * b) (sigma * D0 - k * (sigma * b)) (sigma * D1 + k * (sigma * b)).
Proof. apply pok_migration. ring. Qed.
End Pok.
