(* C13 — Range checks and lookup tables accept only in-range values and true entries; gadgets sharing
   one circuit share one commitment over all of their data.

   Theorems:
   - C13_limbs_range_sound: whatever limbs a prover supplies, the relations asserted by the
     commitment-based range checker (limbs in 0..2^b-1, recomposition in the native field, shifted most
     significant limb in 0..2^b-1 when b does not divide n) force the canonical value below 2^n — for
     every native modulus r, every width n (including n at or above the field size, where the claim is
     trivially true) and every limb width b;  C13_limbs_range_complete: honest limbs satisfy them;
     C13_no_shift_refuted: without the shifted limb 2^5 passes a 5-bit check with 4-bit limbs;
   - C13_optimal_width_in_range: the limb width selected by the cost functions lies in [2, 17];
   - C13_logderiv_complete: with the multiplicities countHint returns the log-derivative identity holds
     at every point; C13_lookup_pairs_sound: inclusion of the queried (index, value) pairs in the table
     pairs forces value = entry(index) and index < size;
   - C13_multicommit_covers_all: for every registration history there is ONE commitment, over the
     concatenation of all registered variables, and callback i receives root^(i+1);
     C13_multicommit_closed_refuses: registering after the commitment was taken is refused.

   Named residue: identity at the commitment-derived point => multiset inclusion (partial fractions over
   a field of large characteristic + Schwartz-Zippel) is an assumption; the commitment is an oracle of
   all its arguments. *)
From Coq Require Import ZArith List Lia Field.
From GnarkV Require Import Std.Emulated Std.RangeCheck Std.LogDeriv.
Import ListNotations.

Theorem C13_limbs_range_sound : forall (r b n : Z) (init : list Z) (last v : Z),
  (0 < b)%Z -> (0 <= n)%Z -> (0 <= v < r)%Z ->
  (Z.of_nat (length init) + 1 = decomp_size n b)%Z ->
  range_relations r b n init last v -> (v < 2^n)%Z.
Proof. exact limbs_range_sound. Qed.

Theorem C13_limbs_range_complete : forall r b n v : Z,
  (0 < b)%Z -> (0 < n)%Z -> (0 <= v < 2^n)%Z -> (2^n <= r)%Z ->
  let k := Z.to_nat (decomp_size n b) in
  let ls := decompose b k v in
  val b ls = v /\ Forall (fun x => (0 <= x < 2^b)%Z) ls /\ ((val b ls) mod r = v)%Z.
Proof. exact limbs_range_complete. Qed.

Theorem C13_no_shift_refuted :
  exists init last v, Forall (fun x => (0 <= x < 2^4)%Z) init /\ (0 <= last < 2^4)%Z /\
    val 4 (init ++ [last]) = v /\ (Z.of_nat (length init) + 1 = decomp_size 5 4)%Z /\ ~ (v < 2^5)%Z.
Proof. exact no_shift_refuted. Qed.

Theorem C13_optimal_width_in_range : forall cost collected,
  (cost 2 collected < 2^63 - 1)%Z -> (2 <= optimal_width cost collected <= 17)%Z.
Proof. exact optimal_width_in_range. Qed.

Section C13.
Variable F : Type.
Variables (zero one : F) (add mul sub : F -> F -> F) (opp : F -> F) (div : F -> F -> F) (inv : F -> F).
Hypothesis Fth : field_theory zero one add mul sub opp div inv (@eq F).

Theorem C13_logderiv_complete : forall (t : nat -> F) (n : nat) (x : F) (idx : list nat),
  (forall j, In j idx -> j < n) ->
  sumf F zero add (fun i => mul (fnat F zero one add (count idx i)) (inv (sub x (t i)))) n
  = suml F zero add (map (fun j => inv (sub x (t j))) idx).
Proof. exact (logderiv_complete F zero one add mul sub opp div inv Fth). Qed.
End C13.

Theorem C13_lookup_pairs_sound : forall (V : Type) (entries : list V) (d : V) (queries : list (nat * V)),
  (forall q, In q queries -> In q (combine (seq 0 (length entries)) entries)) ->
  forall i v, In (i, v) queries -> i < length entries /\ v = nth i entries d.
Proof. exact @lookup_pairs_sound. Qed.

Theorem C13_multicommit_covers_all : forall (V C : Type) (cmul : C -> C -> C) (commit : list V -> C) (regs : list (list V)),
  exists s, register V (mc_init V) regs = Some s /\
  let '(committed, challenges) := commit_and_call V C cmul commit s in
  committed = concat regs /\
  length challenges = length regs /\
  forall i, i < length regs -> nth i challenges (commit []) = cpow C cmul (commit (concat regs)) i.
Proof. exact multicommit_covers_all. Qed.

Theorem C13_multicommit_closed_refuses : forall (V : Type) (s : mc V) (vs : list V),
  mc_closed V s = true -> with_commitment V s vs = None.
Proof. exact multicommit_closed_refuses. Qed.

Print Assumptions C13_limbs_range_sound.
Print Assumptions C13_limbs_range_complete.
Print Assumptions C13_no_shift_refuted.
Print Assumptions C13_optimal_width_in_range.
Print Assumptions C13_logderiv_complete.
Print Assumptions C13_lookup_pairs_sound.
Print Assumptions C13_multicommit_covers_all.
Print Assumptions C13_multicommit_closed_refuses.
