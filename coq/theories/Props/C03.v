(* C03 — Every satisfying assignment yields a proof that verifies (completeness).
   Groth16: for every assignment, every r and s, if the quotient term handed to the prover is the
   right one the verifier's equation holds (Backend/Groth16.v); the harness ties Krs to
   (A·w)(B·w)-C·w, i.e. the real prover's quotient IS the right one, and observes Prove/Verify on
   edge-shape circuits, all curves and option sets.  PLONK: see Props/C02.v (verifier identity) —
   the prover side is observed (every honest proof verifies), not yet modelled.
   Failure instead of hang: Prove returns the solver's error before any proof element is computed
   (C06: an unsatisfied constraint is reported); wall-clock bounds are runtime observations. *)
From Coq Require Import Field List.
From GnarkV Require Import Backend.Groth16.
Import ListNotations.

Section C03.
Variable F : Type.
Variables (zero one : F) (add mul sub : F -> F -> F) (opp : F -> F) (div : F -> F -> F) (inv : F -> F).
Hypothesis Fth : field_theory zero one add mul sub opp div inv (@eq F).
Variables alpha beta gamma delta : F.
Hypothesis gamma_nz : gamma <> zero.
Hypothesis delta_nz : delta <> zero.
Infix "*" := mul. Infix "-" := sub.

Theorem C03_g16_complete : forall ws r s hz,
  wA F zero add mul ws * wB F zero add mul ws - wC F zero add mul ws = hz ->
  verify F zero add mul sub div alpha beta gamma delta ws r s hz.
Proof. exact (g16_complete F zero one add mul sub opp div inv Fth alpha beta gamma delta gamma_nz delta_nz). Qed.
End C03.

Print Assumptions C03_g16_complete.
