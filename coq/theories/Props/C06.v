(* C06 — Solver returns only satisfying assignments; fails only on a violated constraint.
   Statements only; proofs are in CS/SolverProofs.v.  The model (CS/Solver.v) is the function
   evaluated by the correspondence check on systems compiled by the real builders. *)
From Coq Require Import Field List.
From GnarkV Require Import Base.Res Base.F47 CS.Solver CS.SolverProofs CS.SolverFindings.
Import ListNotations.

Section C06.
Variable F : Type.
Variables (zero one : F) (add mul sub : F -> F -> F) (opp : F -> F) (div : F -> F -> F) (inv : F -> F).
Hypothesis Fth : field_theory zero one add mul sub opp div inv (@eq F).
Variable eq_dec : forall x y : F, {x = y} + {x <> y}.
Variable idx_of : F -> option nat.

Notation solve := (solve F zero one add mul sub opp div inv eq_dec idx_of).
Notation run := (run F zero one add mul sub opp div inv eq_dec idx_of).
Notation holds := (holds F zero one add mul opp).

(* Success: for every system (instruction list + level order), witness, hint oracle: the returned
   assignment extends the witness (wire 0 = ONE for R1CS), assigns every wire, and satisfies the
   constraint of every instruction that was scheduled. *)
Theorem C06_solve_ok_sat : forall orc is_r1cs nbw instrs order w v,
  solve orc is_r1cs nbw instrs order w = Ok v ->
  extends F (init_vals F one is_r1cs w) v /\
  (forall x, x < nbw -> v x <> None) /\
  (forall i ins, In i order -> nth_error instrs i = Some ins -> holds v ins).
Proof. exact (solve_ok_sat F zero one add mul sub opp div inv Fth eq_dec idx_of). Qed.

Theorem C06_witness_at_leading_wires : forall is_r1cs w x,
  init_vals F one is_r1cs w x = if is_r1cs then nth_error (one :: w) x else nth_error w x.
Proof. exact (init_vals_witness F one). Qed.

(* Failure with a constraint-error class (unsatisfied R1C / gate, boolean gate, zero coefficient
   of the unsolved wire with a non-vanishing rest): the instruction at which the run stopped is
   violated by every completion of the values determined so far. *)
Theorem C06_run_err_violated : forall orc prog v k j,
  run orc v prog = Err k j -> k = EUnsat \/ k = EDivZero \/ k = EBool ->
  exists pre i ins post v1, prog = pre ++ (i, ins) :: post /\ run orc v pre = Ok v1 /\
     forall v', extends F v1 v' -> ~ holds v' ins.
Proof. exact (run_err_violated F zero one add mul sub opp div inv Fth eq_dec idx_of). Qed.

(* Sparse solution vectors: positions of the same wire carry equal values; public inputs lead L *)
Theorem C06_lro_copy : forall v nb_pub size instrs,
  let '(lw, rw, ow) := lro_wires F nb_pub size instrs in
  let '(l, r, o) := lro F zero v nb_pub size instrs in
  forall pos pos' d, nth pos (lw ++ rw ++ ow) d = nth pos' (lw ++ rw ++ ow) d ->
     pos < length (lw ++ rw ++ ow) -> pos' < length (lw ++ rw ++ ow) ->
     nth pos (l ++ r ++ o) zero = nth pos' (l ++ r ++ o) zero.
Proof. exact (lro_copy F zero). Qed.

Theorem C06_lro_public : forall v nb_pub size instrs i, i < nb_pub ->
  nth i (fst (fst (lro F zero v nb_pub size instrs))) zero = val_or0 F zero v i.
Proof. exact (lro_public F zero). Qed.
End C06.

(* The same statement at the instance evaluated by the correspondence check for the 47-element
   field: no hypothesis is left (F_47 is a proved field, Base/F47.v). *)
Theorem C06_solve_ok_sat_F47 : forall idx orc is_r1cs nbw instrs order w v,
  solve F47 zero47 one47 add47 mul47 sub47 opp47 div47 inv47 eq_dec47 idx orc is_r1cs nbw instrs order w = Ok v ->
  extends F47 (init_vals F47 one47 is_r1cs w) v /\
  (forall x, x < nbw -> v x <> None) /\
  (forall i ins, In i order -> nth_error instrs i = Some ins -> holds F47 zero47 one47 add47 mul47 opp47 v ins).
Proof. intros idx. exact (C06_solve_ok_sat F47 zero47 one47 add47 mul47 sub47 opp47 div47 inv47 F47_field eq_dec47 idx). Qed.

(* F5 (fixed): the former counterexample DivUnchecked(0,0) on the sparse solver now solves *)
Theorem C06_divunchecked_0_0_solves :
  match step47 (fun _ _ _ => None) 0 f5_vals f5_gate with
  | Ok v => v 2 = Some BinNums.Z0
  | _ => False
  end.
Proof. exact f5_divunchecked_0_0_solves. Qed.

Print Assumptions C06_solve_ok_sat.
Print Assumptions C06_witness_at_leading_wires.
Print Assumptions C06_run_err_violated.
Print Assumptions C06_lro_copy.
Print Assumptions C06_lro_public.
Print Assumptions C06_divunchecked_0_0_solves.
Print Assumptions C06_solve_ok_sat_F47.
