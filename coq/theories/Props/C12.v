(* C12 — Emulated field arithmetic is correct and cannot be cheated.

   Model (Std/Emulated.v, Std/MulCheck.v): an element is the list of the integer values of its limbs
   with the overflow counter the library tracks; val is the denoted integer over Z.
   Theorems, for every modulus q > 0, limb width w > 0, overflow and limb count:
   - subPadding returns a multiple of q whose every limb is at least 2^(w+ovf) (C12_sub_padding_spec);
   - val (a + b) = val a + val b and val (pad + a - b) = val pad + val a - val b over Z
     (C12_add_val, C12_sub_val): with the padding theorem the results are congruent modulo q;
   - the overflow counters bound every limb: below 2^(w+next) with next as computed by the
     pre-conditions, every limb of a - b + pad is non-negative (C12_add_bounded, C12_sub_bounded) and,
     under the guard next <= nbits - 2 - w maintained by reduceAndOp, no native operation wraps
     (C12_no_native_wrap);
   - the deferred multiplication check: if every coefficient of
         a(X) b(X) - r(X) - k(X) p(X) - (2^w - X) c(X)
     vanishes modulo the native modulus AND is smaller than it in absolute value, the identity holds
     over Z and val a * val b = val r + val k * val p, hence the result is congruent
     (C12_mulcheck_sound_if_bounded, C12_mulcheck_congruent);
   - without the size bound only the congruence modulo the NATIVE modulus follows
     (C12_mulcheck_mod_native_only), and that is refuted as a guarantee: C12_mulcheck_unbounded_refuted
     exhibits width-respecting k', r' for secp256k1 over BN254.  The tree does not range-check the
     carries, so the size bound is not enforced: finding F10 (the harness reproduces the forgery on
     the real solver, KNOWN_FINDINGS.jsonl).

   Named residue: the commitment-derived evaluation point is idealised as random (Schwartz-Zippel);
   Div / Inverse / Sqrt are hint + Mul + AssertIsEqual and inherit the multiplication check. *)
From Coq Require Import ZArith List Lia.
From GnarkV Require Import Std.Emulated Std.MulCheck.
Import ListNotations.
Local Open Scope Z_scope.

Theorem C12_sub_padding_spec : forall q w ovf nb,
  0 < q -> 0 < w -> 0 <= ovf ->
  let pad := sub_padding q w ovf nb in
  val w pad mod q = 0 /\
  Forall (fun x => 2^(w + ovf) <= x < 2^(w + ovf) + 2^w) pad /\
  length pad = Nat.max nb (required_limbs q w).
Proof. exact sub_padding_spec. Qed.

Theorem C12_add_val : forall w a b, val w (add_limbs a b) = val w a + val w b.
Proof. exact add_val. Qed.

Theorem C12_sub_val : forall w pad a b, val w (sub_limbs pad a b) = val w pad + val w a - val w b.
Proof. exact sub_val. Qed.

Theorem C12_add_bounded : forall w oa ob a b,
  0 < w -> 0 <= oa -> 0 <= ob -> bounded w oa a -> bounded w ob b ->
  bounded w (add_next_ovf oa ob) (add_limbs a b).
Proof. exact add_bounded. Qed.

Theorem C12_sub_bounded : forall w oa ob pad a b,
  0 < w -> 0 <= oa -> 0 <= ob ->
  Forall (fun x => 2^(w + ob) <= x < 2^(w + ob) + 2^w) pad ->
  (length a <= length pad)%nat -> (length b <= length pad)%nat ->
  bounded w oa a -> bounded w ob b ->
  bounded w (sub_next_ovf oa ob) (sub_limbs pad a b).
Proof. exact sub_bounded. Qed.

Theorem C12_no_native_wrap : forall nbits r w ovf l,
  0 < w -> 2^(nbits - 1) <= r -> ovf <= max_overflow nbits w -> 0 <= w + ovf ->
  bounded w ovf l -> Forall (fun x => x mod r = x) l.
Proof. exact no_native_wrap. Qed.

Theorem C12_mulcheck_sound_if_bounded : forall rn w a b r k p c,
  0 < rn ->
  Forall (fun d => d mod rn = 0 /\ - rn < d < rn) (mul_diff w a b r k p c) ->
  val w a * val w b = val w r + val w k * val w p.
Proof. exact mulcheck_sound_if_bounded. Qed.

Theorem C12_mulcheck_congruent : forall rn w q a b r k p c,
  0 < rn -> 0 < q -> val w p = q ->
  Forall (fun d => d mod rn = 0 /\ - rn < d < rn) (mul_diff w a b r k p c) ->
  (val w a * val w b) mod q = val w r mod q.
Proof. exact mulcheck_congruent. Qed.

Theorem C12_mulcheck_mod_native_only : forall rn w a b r k p c,
  0 < rn ->
  Forall (fun d => d mod rn = 0) (mul_diff w a b r k p c) ->
  (val w a * val w b - (val w r + val w k * val w p)) mod rn = 0.
Proof. exact mulcheck_mod_native_only. Qed.

Theorem C12_mulcheck_unbounded_refuted :
  fits 64 4 f10_a = true /\ fits 64 4 f10_b = true /\ fits 64 4 f10_k = true /\ fits 64 4 f10_r = true /\
  (f10_a * f10_b - (f10_r + f10_k * q_secp)) mod rn_bn254 = 0 /\
  (f10_a * f10_b) mod q_secp <> f10_r mod q_secp.
Proof. exact mulcheck_unbounded_refuted. Qed.

(* non-vacuity: a concrete padding (secp256k1, 64-bit limbs, overflow 3) meets the spec's premises *)
Example C12_padding_example : val 64 (sub_padding q_secp 64 3 4) mod q_secp = 0.
Proof. vm_compute. reflexivity. Qed.

Print Assumptions C12_sub_padding_spec.
Print Assumptions C12_add_val.
Print Assumptions C12_sub_val.
Print Assumptions C12_add_bounded.
Print Assumptions C12_sub_bounded.
Print Assumptions C12_no_native_wrap.
Print Assumptions C12_mulcheck_sound_if_bounded.
Print Assumptions C12_mulcheck_congruent.
Print Assumptions C12_mulcheck_mod_native_only.
Print Assumptions C12_mulcheck_unbounded_refuted.
