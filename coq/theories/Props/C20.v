(* C20 — Proofs are freshly blinded and committed values are masked.
   Every blinded proof element is an explicit function of a fresh random value, injective in it:
   Groth16 (Backend/Groth16.v): Ar, Bs, Krs are affine in (r, s) with slope delta;
   PLONK (Backend/Blinding.v): committed polynomial = p + b·(X^n - 1): same values on the domain,
   commitment shifted by b(tau)(tau^n - 1); Pedersen / BSB22: the mask makes the commitment a
   bijective image of the mask.  The quality of crypto/rand is a runtime fact outside the theorems;
   the harness observes the sampled values through hooks. *)
From Coq Require Import Field List.
From GnarkV Require Import Backend.Groth16 Backend.Blinding.
Import ListNotations.

Section C20.
Variable F : Type.
Variables (zero one : F) (add mul sub : F -> F -> F) (opp : F -> F) (div : F -> F -> F) (inv : F -> F).
Hypothesis Fth : field_theory zero one add mul sub opp div inv (@eq F).
Infix "*" := mul. Infix "-" := sub. Infix "+" := add. Infix "/" := div.

Section G16.
Variables alpha beta gamma delta : F.
Hypothesis delta_nz : delta <> zero.
Notation Ar := (Ar F zero add mul alpha delta).
Notation Bs := (Bs F zero add mul beta delta).
Notation Krs := (Krs F zero add mul sub div alpha beta delta).
Notation wA := (wA F zero add mul). Notation wB := (wB F zero add mul).

Theorem C20_g16_blinding_affine : forall ws r s hz,
  Ar ws r = (alpha + wA ws) + r * delta /\ Bs ws s = (beta + wB ws) + s * delta /\
  Krs ws r s hz = (sumf F zero add (fun x => if cls F x then zero else wv F x * pkK F add mul div alpha beta delta x) ws + hz / delta)
        + s * (alpha + wA ws) + r * (beta + wB ws) + r * s * delta.
Proof. exact (g16_blinding_affine F zero one add mul sub opp div inv Fth alpha beta delta). Qed.

Theorem C20_g16_blinding_injective : forall ws r r', r <> r' -> Ar ws r <> Ar ws r'.
Proof. exact (g16_blinding_injective F zero one add mul sub opp div inv Fth alpha delta delta_nz). Qed.
End G16.

Notation eval := (eval F zero add mul).
Notation blind := (blind F zero add sub).
Notation fpow := (fpow F one mul).

Theorem C20_plonk_blind_eval : forall p b n x, eval (blind p b n) x = eval p x + eval b x * (fpow x n - one).
Proof. exact (blind_eval F zero one add mul sub opp div inv Fth). Qed.

Theorem C20_plonk_blind_on_domain : forall p b n x, fpow x n = one -> eval (blind p b n) x = eval p x.
Proof. exact (blind_on_domain F zero one add mul sub opp div inv Fth). Qed.

Theorem C20_plonk_blind_shifts_commitment : forall p b n tau,
  fpow tau n <> one -> eval b tau <> zero -> eval (blind p b n) tau <> eval p tau.
Proof. exact (blind_shifts_commitment F zero one add mul sub opp div inv Fth). Qed.

Theorem C20_plonk_blind_fresh : forall p b b' n tau,
  fpow tau n <> one -> eval b tau <> eval b' tau -> eval (blind p b n) tau <> eval (blind p b' n) tau.
Proof. exact (blind_fresh F zero one add mul sub opp div inv Fth). Qed.

Theorem C20_pedersen_mask_bijective : forall base Bm, Bm <> zero ->
  (forall m m', base + m * Bm = base + m' * Bm -> m = m') /\ (forall D, exists m, base + m * Bm = D).
Proof. exact (pedersen_mask_bijective F zero one add mul sub opp div inv Fth). Qed.
End C20.

Print Assumptions C20_g16_blinding_affine.
Print Assumptions C20_g16_blinding_injective.
Print Assumptions C20_plonk_blind_shifts_commitment.
Print Assumptions C20_plonk_blind_fresh.
Print Assumptions C20_pedersen_mask_bijective.
