(* C15 — In-circuit hash functions equal their reference implementations for all messages.

   What is a theorem (Std/Sha256.v, SHA-256, the gadget with the most intricate length handling):
   - C15_fixed_total_spec: the padded length is the least multiple of 64 that leaves room for the 0x80
     byte and the 8 length bytes (FIPS 180-4);
   - C15_var_total_eq: the total length computed in-circuit by FixedLengthSum from len mod 64 equals it;
   - C15_varlen_byte_eq: for every buffer, every maximal and minimal length and every actual length
     min <= len <= max, every byte below the total length of the data FixedLengthSum hashes equals the
     byte of the fixed-length padding of the first len bytes (the bytes beyond len do not matter);
   - C15_varlen_sum_eq: hence FixedLengthSum(len) = Sum(first len bytes), for the executable model whose
     compression function is FIPS 180-4's;
   - C15_sha256_abc: the executable model computes the standard test vector.
   The model is evaluated by vm_compute on the harness messages (fixed and variable length) and compared
   with crypto/sha256, and the real gadget is compared with the same reference on the same messages.

   The same for the SHA-3 / Keccak family (Std/Keccak.v: executable Keccak-f[1600], sponge, pad10*1 with the
   domain-separation byte, paddingFixedWidth and absorbingFixedWidth): C15_sponge_* below, compared with
   golang.org/x/crypto/sha3 on the harness messages.

   Decided by differential runs only (no Gallina model): RIPEMD-160, MiMC on the 7 curves, Poseidon2, Merkle proofs, Fiat-Shamir transcripts — every length
   around every rate / block boundary, every actual length of the variable-length variants for two
   maxima, several chunkings, wrong digests rejected. *)
From Coq Require Import NArith Arith List.
From GnarkV Require Import Std.Sha256 Std.Keccak.
Import ListNotations.

Theorem C15_fixed_total_spec : forall len, fixed_total len mod 64 = 0 /\ len + 9 <= fixed_total len < len + 9 + 64.
Proof. exact fixed_total_spec. Qed.

Theorem C15_var_total_eq : forall len, var_total len = fixed_total len.
Proof. exact var_total_eq. Qed.

Theorem C15_varlen_byte_eq : forall buf minLen maxLen len k,
  minLen <= len <= maxLen -> k < fixed_total len ->
  varlen_byte buf minLen maxLen len k = fixed_byte (fun i => if i <? maxLen then buf i else 0%N) len k.
Proof. exact varlen_byte_eq. Qed.

Theorem C15_hash_depends_on_prefix : forall f g nb,
  (forall i, i < 64 * nb -> f i = g i) -> hash_blocks f nb = hash_blocks g nb.
Proof. exact hash_blocks_ext. Qed.

Theorem C15_varlen_sum_eq : forall buf minLen maxLen len,
  minLen <= len <= maxLen ->
  sha256_varlen buf minLen maxLen len = sha256_fixed (fun i => if i <? maxLen then buf i else 0%N) len.
Proof. exact varlen_sum_eq. Qed.

Theorem C15_sha256_abc : sha256 [97; 98; 99]%N =
  [0xba; 0x78; 0x16; 0xbf; 0x8f; 0x01; 0xcf; 0xea; 0x41; 0x41; 0x40; 0xde; 0x5d; 0xae; 0x22; 0x23;
   0xb0; 0x03; 0x61; 0xa3; 0x96; 0x17; 0x7a; 0x9c; 0xb4; 0x10; 0xff; 0x61; 0xf2; 0x00; 0x15; 0xad]%N.
Proof. exact sha256_abc. Qed.

(* ---- SHA-3 / Keccak sponge (Std/Keccak.v): any rate, any domain-separation byte ---- *)
Theorem C15_sponge_total_spec : forall rate len, 0 < rate ->
  sp_total rate len mod rate = 0 /\ len < sp_total rate len <= len + rate.
Proof. exact sp_total_spec. Qed.

Theorem C15_sponge_varlen_byte_eq : forall ds rate buf minLen maxLen len k,
  0 < rate -> minLen <= len <= maxLen -> k < sp_total rate len ->
  sp_varlen_byte ds rate buf minLen maxLen len k = sp_fixed_byte ds rate (fun i => if i <? maxLen then buf i else 0%N) len k.
Proof. exact sp_varlen_byte_eq. Qed.

Theorem C15_sponge_varlen_sum_eq : forall ds rate outlen buf minLen maxLen len,
  0 < rate -> minLen <= len <= maxLen ->
  sponge_varlen ds rate outlen buf minLen maxLen len
  = sponge_fixed ds rate outlen (fun i => if i <? maxLen then buf i else 0%N) len.
Proof. exact sp_varlen_sum_eq. Qed.

Theorem C15_sha3_256_empty : sponge 6%N 136 32 [] =
  [0xa7; 0xff; 0xc6; 0xf8; 0xbf; 0x1e; 0xd7; 0x66; 0x51; 0xc1; 0x47; 0x56; 0xa0; 0x61; 0xd6; 0x62;
   0xf5; 0x80; 0xff; 0x4d; 0xe4; 0x3b; 0x49; 0xfa; 0x82; 0xd8; 0x0a; 0x4b; 0x80; 0xf8; 0x43; 0x4a]%N.
Proof. exact sha3_256_empty. Qed.

Print Assumptions C15_fixed_total_spec.
Print Assumptions C15_sponge_total_spec.
Print Assumptions C15_sponge_varlen_byte_eq.
Print Assumptions C15_sponge_varlen_sum_eq.
Print Assumptions C15_sha3_256_empty.
Print Assumptions C15_var_total_eq.
Print Assumptions C15_varlen_byte_eq.
Print Assumptions C15_hash_depends_on_prefix.
Print Assumptions C15_varlen_sum_eq.
Print Assumptions C15_sha256_abc.
