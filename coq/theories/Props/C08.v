(* C08 — Verifiers and decoders of untrusted data return errors, never crash.
   Shape-level models of the two verifiers with explicit Panic for every slice index
   (Codec/ProofShape.v) and the witness decoder (Codec/WitnessCodec.v, total by construction). *)
From Coq Require Import ZArith List.
From GnarkV Require Import Base.Res Codec.ProofShape Codec.WitnessCodec.
Import ListNotations.

(* for every verifying key produced by Setup, every proof shape, every witness length and every
   verdict of the cryptographic sub-checks: accept or error, never a panic *)
Theorem C08_g16_verify_no_panic : forall x, g16_vk_wf x -> g16_verify true x <> Panic.
Proof. exact g16_verify_no_panic. Qed.

Theorem C08_plonk_verify_no_panic : forall x, plonk_verify true x <> Panic.
Proof. exact plonk_verify_no_panic. Qed.

(* inconsistent structure is reported as an error *)
Theorem C08_g16_count_mismatch_rejected : forall x,
  g_commitments x <> length (g_vk_committed x) -> g16_verify true x = Ok Reject.
Proof. exact g16_count_mismatch_rejected. Qed.

Theorem C08_plonk_count_mismatch_rejected : forall x,
  p_bsb x <> p_vk_qcp x \/ p_claimed x <> 6 + p_vk_qcp x \/ p_wit x <> p_vk_nb_public x ->
  plonk_verify true x = Ok Reject.
Proof. exact plonk_count_mismatch_rejected. Qed.

(* a decoded witness has a header that agrees with its payload (F6, repaired) *)
Theorem C08_witness_header_consistent : forall w bs np ns v n,
  decode w bs = Some (np, ns, v, n) -> (0 <= np + ns)%Z -> (np + ns = Z.of_nat (length v))%Z.
Proof. exact decode_header_consistent. Qed.

(* the verifiers as they were before the repairs (F2, F3): witnesses of the panics *)
Theorem C08_g16_unrepaired_panics : g16_vk_wf f2_input /\ g16_verify false f2_input = Panic.
Proof. exact g16_verify_unrepaired_panics. Qed.
Theorem C08_plonk_unrepaired_panics : plonk_verify false f3_input = Panic.
Proof. exact plonk_verify_unrepaired_panics. Qed.

Print Assumptions C08_g16_verify_no_panic.
Print Assumptions C08_plonk_verify_no_panic.
Print Assumptions C08_g16_count_mismatch_rejected.
Print Assumptions C08_plonk_count_mismatch_rejected.
Print Assumptions C08_witness_header_consistent.
