(* C19 — GKR-delegated computation equals direct computation and cannot be forged.

   Theorems (Std/Sumcheck.v, any field, any function g of n variables, any challenges):
   - C19_sumcheck_complete: with the honest round polynomials the sum-check verifier accepts the true sum
     over the hypercube;
   - C19_sumcheck_sound_core: if it accepts a claim other than the true sum, then in some round the
     prover's polynomial differs from the honest one and nevertheless agrees with it at that round's
     challenge (a root of a non-zero polynomial of bounded degree was hit).
   Named residue: the degree bound + Schwartz-Zippel step, the Fiat-Shamir derivation of the challenges
   (C15 transcript), and the GKR layering (per-wire claims, eq-polynomial) — decided on the real gadget by
   the harness: exported values vs direct evaluation for seeded topologies, instances and dependency
   patterns; forged exported values, forged proof elements and a self-consistent run on other inputs
   are rejected; InterpolateLDE vs the executable Gallina interpolation. *)
From Coq Require Import Field List.
From GnarkV Require Import Std.Sumcheck.
Import ListNotations.

Section C19.
Variable F : Type.
Variables (zero one : F) (add mul sub : F -> F -> F) (opp : F -> F) (div : F -> F -> F) (inv : F -> F).
Hypothesis Fth : field_theory zero one add mul sub opp div inv (@eq F).
Hypothesis eq_dec : forall x y : F, {x = y} + {x <> y}.

Theorem C19_sumcheck_complete : forall n (g : list F -> F) rs, length rs = n ->
  verify F zero one add n g (hsum F zero one add n g) (honest_all F zero one add n g rs) rs.
Proof. exact (sumcheck_complete F zero one add). Qed.

Theorem C19_sumcheck_sound_core : forall n (g : list F -> F) claim hs rs,
  verify F zero one add n g claim hs rs -> claim <> hsum F zero one add n g ->
  lucky_round F zero one add n g hs rs.
Proof. exact (sumcheck_sound_core F zero one add eq_dec). Qed.
End C19.

Print Assumptions C19_sumcheck_complete.
Print Assumptions C19_sumcheck_sound_core.
