(* C19 — GKR-delegated computation equals direct computation and cannot be forged.

   Theorems (Std/Sumcheck.v, any field, any function g of n variables, any challenges):
   - C19_sumcheck_complete: with the honest round polynomials the sum-check verifier accepts the true sum
     over the hypercube;
   - C19_sumcheck_sound_core: if it accepts a claim other than the true sum, then in some round the
     prover's polynomial differs from the honest one and nevertheless agrees with it at that round's
     challenge (a root of a non-zero polynomial of bounded degree was hit).
   Theorems (Std/Gkr.v, any field, any circuit in topological order, any gates):
   - C19_lagrange_nodes: InterpolateLDE from the values at 0..d returns the k-th value at k when 0..d are
     distinct in the field, hence every round polynomial of verifySumcheck satisfies p(0)+p(1) = claim;
   - C19_mle_on_hypercube: the multilinear extension agrees with the table on the hypercube;
   - C19_gkr_claims_true: if all per-wire checks of the GKR verifier pass and no lucky event occurs, every
     claim the verifier handled is true of the direct evaluation of the circuit;
   - C19_gkr_exec_sound: if the executable verifier accepts (and no lucky event occurs), the claimed
     output tables and the direct evaluation have the same multilinear extension at the first challenge;
   - C19_direct_eval_consistent / C19_gkr_exec_sound_direct: the direct evaluation of a topologically sorted
     circuit exists (it is the executable wire-by-wire evaluation [direct_eval]), so the hypothesis of the
     soundness theorem is satisfiable, and soundness is restated for it.
   Named residue: the lucky events (Schwartz-Zippel: probability <= degree/|F| each) and the Fiat-Shamir
   derivation of the challenges (C15 transcript); solving / exporting with dependencies (compile.go) —
   decided on the real gadget by the harness: exported values vs direct evaluation for seeded topologies,
   instances and dependency patterns; forged exported values, forged proof elements and a self-consistent
   run on other inputs are rejected.
   Tie: the executable verifier model is evaluated in Coq on the circuit / assignment / proof / challenges
   the real in-circuit verifier was observed to use (honest and forged), and must reproduce the outcome of
   every assertion; InterpolateLDE vs the executable Gallina interpolation. *)
From Coq Require Import Field List.
From GnarkV Require Import Std.Sumcheck Std.Gkr.
Import ListNotations.

Section C19.
Variable F : Type.
Variables (zero one : F) (add mul sub : F -> F -> F) (opp : F -> F) (div : F -> F -> F) (inv : F -> F).
Hypothesis Fth : field_theory zero one add mul sub opp div inv (@eq F).
Hypothesis eq_dec : forall x y : F, {x = y} + {x <> y}.

Theorem C19_sumcheck_complete : forall n (g : list F -> F) rs, length rs = n ->
  verify F zero one add n g (hsum F zero one add n g) (honest_all F zero one add n g rs) rs.
Proof. exact (sumcheck_complete F zero one add). Qed.

Theorem C19_sumcheck_sound_core : forall n (g : list F -> F) claim hs rs,
  verify F zero one add n g claim hs rs -> claim <> hsum F zero one add n g ->
  lucky_round F zero one add n g hs rs.
Proof. exact (sumcheck_sound_core F zero one add eq_dec). Qed.

Theorem C19_lagrange_nodes : forall d,
  (forall i j, i <= d -> j <= d -> i <> j -> fnat F zero one add i <> fnat F zero one add j) ->
  forall vals k, length vals = S d -> k <= d ->
  lde F zero one add mul sub inv vals (fnat F zero one add k) = nth k vals zero.
Proof. exact (lde_node F zero one add mul sub opp div inv Fth). Qed.

Theorem C19_mle_on_hypercube : forall n (W : list F -> F) b,
  boolpt F zero one n b -> mle F zero one add mul sub n W b = W b.
Proof. exact (mle_bool F zero one add mul sub opp div inv Fth). Qed.

Variable G : Type.
Variable gate_eval : G -> list F -> F.
Variable gate_deg : G -> nat.
Variable n : nat.
Variable asg : nat -> list F -> F.

Theorem C19_gkr_claims_true : forall (ws : list (wire G)) (Rs : list (wrun F)) (V : nat -> list F -> F),
  sorted_b G ws = true ->
  consistent F zero one G gate_eval n asg ws V ->
  char_ok F zero one add G gate_deg ws ->
  accept_all F zero one add mul sub inv eq_dec G gate_eval gate_deg n asg ws Rs = true ->
  closure_b F zero eq_dec G ws Rs = true ->
  no_luck F zero one add mul sub inv G gate_eval n asg ws Rs V ->
  forall i w R, nth_error ws i = Some w -> nth_error Rs i = Some R ->
  forall cl, In cl (r_claims F R) -> snd cl = mle F zero one add mul sub n (V i) (fst cl).
Proof. exact (gkr_claims_true F zero one add mul sub opp div inv Fth eq_dec G gate_eval gate_deg n asg). Qed.

Theorem C19_gkr_exec_sound : forall (ws : list (wire G)) rho proofs chals (V : nat -> list F -> F),
  gkr_exec F zero one add mul sub inv eq_dec G gate_eval gate_deg n asg ws rho proofs chals = true ->
  consistent F zero one G gate_eval n asg ws V ->
  char_ok F zero one add G gate_deg ws ->
  no_luck F zero one add mul sub inv G gate_eval n asg ws (build_runs F zero one add mul sub G n asg ws rho proofs chals) V ->
  forall i w, nth_error ws i = Some w -> is_output G ws i = true ->
  mle F zero one add mul sub n (asg i) rho = mle F zero one add mul sub n (V i) rho.
Proof. exact (gkr_exec_sound F zero one add mul sub opp div inv Fth eq_dec G gate_eval gate_deg n asg). Qed.

Theorem C19_direct_eval_consistent : forall (ws : list (wire G)),
  sorted_b G ws = true -> consistent F zero one G gate_eval n asg ws (direct_eval F zero G gate_eval asg ws).
Proof. exact (direct_eval_consistent F zero one G gate_eval n asg). Qed.

Theorem C19_gkr_exec_sound_direct : forall (ws : list (wire G)) rho proofs chals,
  gkr_exec F zero one add mul sub inv eq_dec G gate_eval gate_deg n asg ws rho proofs chals = true ->
  char_ok F zero one add G gate_deg ws ->
  no_luck F zero one add mul sub inv G gate_eval n asg ws (build_runs F zero one add mul sub G n asg ws rho proofs chals) (direct_eval F zero G gate_eval asg ws) ->
  forall i w, nth_error ws i = Some w -> is_output G ws i = true ->
  mle F zero one add mul sub n (asg i) rho = mle F zero one add mul sub n (direct_eval F zero G gate_eval asg ws i) rho.
Proof. exact (gkr_exec_sound_direct F zero one add mul sub opp div inv Fth eq_dec G gate_eval gate_deg n asg). Qed.
End C19.

Print Assumptions C19_sumcheck_complete.
Print Assumptions C19_sumcheck_sound_core.
Print Assumptions C19_lagrange_nodes.
Print Assumptions C19_mle_on_hypercube.
Print Assumptions C19_gkr_claims_true.
Print Assumptions C19_gkr_exec_sound.
Print Assumptions C19_direct_eval_consistent.
Print Assumptions C19_gkr_exec_sound_direct.
