(* C14 — Comparison, selection, bit-slice and small-integer gadgets have exact semantics.

   Theorems (all native primes p, all bounds):
   - bounded comparator (Std/Cmp.v), for signed integers a, b with |a - b| < 2^k, k the bit length of the
     declared bound, 2^(k+1) < p: the non-negativity test of b - a (resp. b - 1 - a) in the field holds
     exactly when a <= b (a < b); the hinted indicator of IsLess is forced to [a < b] and the honest one
     passes; Min's two constraints force m = min a b (p prime);
   - the documented reversal beyond the thresholds is exhibited (C14_bounded_reversed_example);
   - decoders of std/selector (Std/Selector.v), over any field and pairwise distinct keys: the
     constraints have a solution iff the query is a key, and then the output is the value under that
     key whatever indicators the prover supplies; the honest one-hot indicators are a solution;
   - bitslice.Partition: range-checked halves that recompose to v in the field ARE v mod 2^s and
     v / 2^s, and v < 2^d; uints.Add's result is the native sum modulo 2^w (given the partition is
     constrained: C14_uints_add_nocheck_refuted shows what the unconstrained variant allowed — F9, fixed).

   The F_47 enumeration cases (Std/Gadget47Cases.v, verified complete enumerator) decide exactness,
   failure outside the domain and uniqueness for the constraint systems the real builders emit. *)
From Coq Require Import ZArith List Lia Field Znumtheory.
From GnarkV Require Import Std.Cmp Std.Selector.
Import ListNotations.
Local Open Scope Z_scope.

Theorem C14_assert_leq_rel : forall p k, 0 <= k -> 2^(k+1) < p ->
  forall a b, Z.abs (a - b) < 2^k -> (nonneg k ((b - a) mod p) <-> a <= b).
Proof. exact assert_leq_rel. Qed.

Theorem C14_assert_less_rel : forall p k, 0 <= k -> 2^(k+1) < p ->
  forall a b, Z.abs (a - b) < 2^k -> (nonneg k ((b - 1 - a) mod p) <-> a < b).
Proof. exact assert_less_rel. Qed.

Theorem C14_is_less_rel : forall p k, 0 <= k -> 2^(k+1) < p ->
  forall a b ind, Z.abs (a - b) < 2^k -> (ind = 0 \/ ind = 1) ->
  nonneg k ((if ind =? 1 then b - a - 1 else a - b) mod p) -> (ind = 1 <-> a < b).
Proof. exact is_less_rel. Qed.

Theorem C14_is_less_complete : forall p k, 0 <= k -> 2^(k+1) < p ->
  forall a b, Z.abs (a - b) < 2^k ->
  nonneg k ((if (if a <? b then 1 else 0) =? 1 then b - a - 1 else a - b) mod p).
Proof. exact is_less_complete. Qed.

Theorem C14_min_rel : forall p k, 0 <= k -> 2^(k+1) < p ->
  forall a b m, prime p -> Z.abs (a - b) < 2^k ->
  ((a - m) * (b - m)) mod p = 0 -> nonneg k (((a - m) + (b - m)) mod p) ->
  (m - Z.min a b) mod p = 0.
Proof. exact min_rel. Qed.

Theorem C14_bounded_reversed_example : nonneg 4 ((0 - 32) mod 47) /\ ~ nonneg 4 ((32 - 0 - 1) mod 47).
Proof. exact bounded_reversed_example. Qed.

Theorem C14_partition_rel : forall p s d v lower upper,
  0 <= s <= d -> 2^d <= p -> 0 <= v < p ->
  0 <= lower < 2^s -> 0 <= upper < 2^(d - s) ->
  (lower + 2^s * upper) mod p = v ->
  lower = v mod 2^s /\ upper = v / 2^s /\ v < 2^d.
Proof. exact partition_rel. Qed.

Theorem C14_uints_add_rel : forall p w d sum lower upper,
  0 <= w <= d -> 2^d <= p -> 0 <= sum < 2^d ->
  0 <= lower < 2^w -> 0 <= upper < 2^(d - w) ->
  (lower + 2^w * upper) mod p = sum -> lower = sum mod 2^w.
Proof. exact uints_add_rel. Qed.

Theorem C14_uints_add_nocheck_refuted :
  exists w sum lower, 0 <= lower < 2^w /\ 0 <= sum < 2^(w+1) /\ lower <> sum mod 2^w.
Proof. exact uints_add_nocheck_refuted. Qed.

Section C14.
Variable F : Type.
Variables (zero one : F) (add mul sub : F -> F -> F) (opp : F -> F) (div : F -> F -> F) (inv : F -> F).
Hypothesis Fth : field_theory zero one add mul sub opp div inv (@eq F).
Hypothesis eq_dec : forall x y : F, {x = y} + {x <> y}.

Theorem C14_decoder_sound : forall q (l : list (row F)),
  NoDup (map (rkey F) l) -> constraints F zero one add mul sub q l ->
  exists v, assoc F eq_dec q l = Some v /\ dot F zero add mul l = v.
Proof. exact (decoder_sound F zero one add mul sub opp div inv Fth eq_dec). Qed.

Theorem C14_decoder_no_key_unsat : forall q (l : list (row F)),
  (forall r, In r l -> rkey F r <> q) -> ~ constraints F zero one add mul sub q l.
Proof. exact (decoder_no_key_unsat F zero one add mul sub opp div inv Fth). Qed.

Theorem C14_decoder_complete : forall q (kv : list (F * F)),
  NoDup (map fst kv) -> In q (map fst kv) -> constraints F zero one add mul sub q (onehot F zero one eq_dec q kv).
Proof. exact (decoder_complete F zero one add mul sub opp div inv Fth eq_dec). Qed.
End C14.

Print Assumptions C14_assert_leq_rel.
Print Assumptions C14_assert_less_rel.
Print Assumptions C14_is_less_rel.
Print Assumptions C14_is_less_complete.
Print Assumptions C14_min_rel.
Print Assumptions C14_partition_rel.
Print Assumptions C14_uints_add_rel.
Print Assumptions C14_uints_add_nocheck_refuted.
Print Assumptions C14_decoder_sound.
Print Assumptions C14_decoder_no_key_unsat.
Print Assumptions C14_decoder_complete.
