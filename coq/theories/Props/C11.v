(* C11 — Compilation is deterministic.
   The compiler is sequential Go code; its only sources of run-to-run variation are the constructs
   listed (and regenerated from the source on every run) in Det/Sites.v.  For each construct that
   is reachable from Compile, the loop shape is proved order-independent for EVERY iteration order
   of the Go map (a map range is a fold over an arbitrary permutation of the keys). *)
From Coq Require Import List Permutation.
From GnarkV Require Import Det.MapRange Det.Sites.
Import ListNotations.

(* commuting loop bodies *)
Theorem C11_fold_perm_comm : forall (K S : Type) (body : S -> K -> S),
  (forall s a b, body (body s a) b = body (body s b) a) ->
  forall l l', Permutation l l' -> forall s, fold_left body l s = fold_left body l' s.
Proof. exact @fold_perm_comm. Qed.

(* GetWireConstraints / GetWiresConstraintExact after the repair: collect keys, sort, then append *)
Theorem C11_collect_sort_act_deterministic : forall (S : Type) (act : S -> nat -> S) keys keys' s,
  Permutation keys keys' -> fold_left act (isort keys) s = fold_left act (isort keys') s.
Proof. exact @collect_sort_act_deterministic. Qed.

(* ... and what they did before it (finding F17): order-dependent *)
Theorem C11_append_in_map_order_refuted :
  exists keys keys', Permutation keys keys' /\
    fold_left (fun acc k => acc ++ [k]) keys [] <> fold_left (fun acc k => acc ++ [k]) keys' ([] : list nat).
Proof. exact append_in_map_order_refuted. Qed.

Theorem C11_map_rebuild_order_independent : forall (V : Type) (f : nat -> V) keys keys' (m : fmap V),
  Permutation keys keys' -> forall x,
  fold_left (fun m k => fins m k (f k)) keys m x = fold_left (fun m k => fins m k (f k)) keys' m x.
Proof. exact @map_rebuild_order_independent. Qed.

Theorem C11_clear_loop_order_independent : forall (V : Type) keys keys' (m : fmap V),
  Permutation keys keys' -> forall x, fold_left fdel keys m x = fold_left fdel keys' m x.
Proof. exact @clear_loop_order_independent. Qed.

Theorem C11_first_of_uniform : forall (A B : Type) (attr : A -> B) (d : B) l l',
  Permutation l l' -> (forall a b, In a l -> In b l -> attr a = attr b) ->
  match l with [] => d | a :: _ => attr a end = match l' with [] => d | a :: _ => attr a end.
Proof. exact @first_of_uniform. Qed.

Print Assumptions C11_fold_perm_comm.
Print Assumptions C11_collect_sort_act_deterministic.
Print Assumptions C11_map_rebuild_order_independent.
Print Assumptions C11_clear_loop_order_independent.
