(* C07 — Witness values bind to the circuit variables they were assigned to.
   Model: Schema/Walk.v (the walk used by both the compiler and NewWitness), Codec/WitnessCodec.v. *)
From Coq Require Import ZArith List String.
From GnarkV Require Import Base.Res Schema.Walk Schema.WalkProps Codec.WitnessCodec.
Import ListNotations.

(* wires are allocated public-first then secret, each group in walk (declaration) order, and the
   witness lists the assigned values of exactly those leaves in exactly that order *)
Theorem C07_order_agree : forall (A : Type) (ls : list (leaf * A)),
  map fst (filter (fun x => is_pub (fst x)) ls ++ filter (fun x => is_sec (fst x)) ls)%list = compile_order (map fst ls) /\
  witness_vec false ls = map snd (filter (fun x => is_pub (fst x)) ls ++ filter (fun x => is_sec (fst x)) ls)%list.
Proof. intros A ls. split; [apply order_agree|apply witness_values_follow_wires]. Qed.

(* the public-only witness (and Witness.Public()) is the public prefix of the full witness *)
Theorem C07_public_is_prefix : forall (A : Type) (ls : list (leaf * A)),
  witness_vec true ls = firstn (List.length (filter (fun x => is_pub (fst x)) ls)) (witness_vec false ls).
Proof. exact @public_is_prefix. Qed.

(* the bulk path for []Variable / [n]Variable equals the element-wise walk *)
Theorem C07_walk_bulk_eq : forall p n, p <> [] -> walk p (SLeaves n) = walk p (SSeq (repeat SLeaf n)).
Proof. exact walk_bulk_eq. Qed.

(* an unset visibility at a leaf means secret: every leaf lands in exactly one of the two groups *)
Theorem C07_leaf_vis_total : forall p, leaf_vis p <> VUnset.
Proof. exact leaf_vis_not_unset. Qed.

(* binary encoding round trip, with the byte count; decoded headers agree with the vector *)
Theorem C07_witness_codec_roundtrip : forall w np ns v,
  (0 <= np)%Z -> (0 <= ns)%Z -> (np + ns = Z.of_nat (List.length v))%Z -> (Z.of_nat (List.length v) < 256 ^ 4)%Z ->
  (forall z, In z v -> (0 <= z < 256 ^ (Z.of_nat w))%Z) ->
  decode w (encode w np ns v) = Some (np, ns, v, List.length (encode w np ns v)).
Proof. exact witness_codec_roundtrip. Qed.

Theorem C07_decode_header_consistent : forall w bs np ns v n,
  decode w bs = Some (np, ns, v, n) -> (0 <= np + ns)%Z -> (np + ns = Z.of_nat (List.length v))%Z.
Proof. exact decode_header_consistent. Qed.

Print Assumptions C07_order_agree.
Print Assumptions C07_public_is_prefix.
Print Assumptions C07_walk_bulk_eq.
Print Assumptions C07_witness_codec_roundtrip.
Print Assumptions C07_decode_header_consistent.
