(* C10 — Solving and proving are independent of scheduling and of concurrent use.
   Interleaving semantics of concurrent calls over shared state (Conc/Interleave.v); the lookup-table
   blueprint's shared cache (Conc/LookupCache.v, tied to the real blueprint object by replaying
   interleavings); Go slice aliasing of the shared option slice (Conc/GoSlice.v).  Level-parallel
   workers inside one solve: C06 (the sequential model is compared with nbTasks up to 512). *)
From Coq Require Import List ZArith.
From GnarkV Require Import Conc.Interleave Conc.LookupCache Conc.GoSlice.
Import ListNotations.

(* clients whose actions never write the shared state (the solver proper: values, solved flags and
   a,b,c vectors are per call; the compiled system and the keys are only read): under EVERY schedule
   each client ends in the state it reaches alone after the same number of its own steps *)
Theorem C10_serialisable : forall (Sh L : Type) sh0 (cs0 : list (list (action Sh L) * L)),
  (forall c a, In c cs0 -> In a (fst c) -> read_only Sh L a) ->
  forall sched, let '(sh, cs) := run Sh L sched sh0 cs0 in
    sh = sh0 /\ length cs = length cs0 /\
    forall i c0, nth_error cs0 i = Some c0 -> nth_error cs i = Some (alone_n Sh L (steps_of i sched) sh0 c0).
Proof. exact serialisable. Qed.

(* finding F7 (known): the lookup blueprint's cache lives in the shared compiled system; there is a
   schedule of two solves in which one returns a table entry computed from the other's witness *)
Theorem C10_lookup_cache_shared_refuted :
  exists sched, results_of (run cache local sched [] [clientA; clientB]) <> [[11]; [21]]%Z.
Proof. exact lookup_cache_shared_refuted. Qed.

(* with the cache in per-solve state the actions are read-only on the shared state, so C10_serialisable applies *)
Theorem C10_lookup_per_solve_ok : forall n i,
  read_only unit local' b_reset /\ read_only unit local' (b_fill n) /\ read_only unit local' (b_read i).
Proof. exact per_solve_actions_read_only. Qed.

(* option slices: appending to a capped slice never touches the caller's array (Groth16, repaired PLONK) ... *)
Theorem C10_append_capped_no_alias : forall (A : Type) (h : heap A) fresh (s : slice) (x : A),
  fresh <> arr s -> fst (append h fresh (capped s) x) (arr s) = h (arr s).
Proof. exact @append_capped_no_alias. Qed.

(* ... while two in-place appends to one slice value with spare capacity clobber each other (F8, fixed) *)
Theorem C10_append_inplace_alias : forall (A : Type) (h : heap A) f1 f2 (s : slice) (x y : A),
  len s < cap s -> len s < length (h (arr s)) ->
  let '(h1, s1) := append h f1 s x in
  let '(h2, s2) := append h1 f2 s y in
  arr s1 = arr s2 /\ nth (len s) (h2 (arr s1)) None = Some y.
Proof. exact @append_inplace_alias. Qed.

Print Assumptions C10_serialisable.
Print Assumptions C10_lookup_cache_shared_refuted.
Print Assumptions C10_append_capped_no_alias.
Print Assumptions C10_append_inplace_alias.
