(* C05 — Constraints emitted for API operations admit no spec-violating assignment.
   The verified enumerator (CS/Enum.v) computes, for the constraint list dumped from the real
   builders and given input values, *all* satisfying assignments (hint outputs and internal wires
   are free choices).  Theorems: soundness and completeness of that enumeration over any finite
   field, and their instance at F_47 used by the correspondence check, which compares the
   reachable outputs with the documented meaning (Frontend/Spec.v) for every input tuple. *)
From Coq Require Import Field List.
From GnarkV Require Import Base.Res Base.F47 CS.Solver CS.Enum Frontend.C05Cases.
Import ListNotations.

Section C05.
Variable F : Type.
Variables (zero one : F) (add mul sub : F -> F -> F) (opp : F -> F) (div : F -> F -> F) (inv : F -> F).
Hypothesis Fth : field_theory zero one add mul sub opp div inv (@eq F).
Variable eq_dec : forall x y : F, {x = y} + {x <> y}.
Variable elems : list F.
Hypothesis elems_complete : forall x : F, In x elems.

Notation enum := (enum F zero one add mul opp eq_dec elems).
Notation all_sat := (all_sat F zero one add mul opp eq_dec).

(* every enumerated assignment satisfies every constraint, whatever the remaining wires are *)
Theorem C05_enum_sound : forall fuel v pending out, enum fuel v pending = Some out ->
  forall v', In v' out -> extends F v v' /\ forall w, agrees F v' w -> all_sat w pending.
Proof. exact (enum_sound F zero one add mul sub opp div inv Fth eq_dec elems elems_complete). Qed.

(* no satisfying assignment is missed: any total assignment that agrees with the given inputs and
   satisfies all emitted constraints agrees with an enumerated one — so a dishonest prover has no
   other choice of hint outputs or internal wires *)
Theorem C05_enum_complete : forall fuel v pending out, enum fuel v pending = Some out ->
  forall w, agrees F v w -> all_sat w pending -> exists v', In v' out /\ agrees F v' w.
Proof. exact (enum_complete F zero one add mul sub opp div inv Fth eq_dec elems elems_complete). Qed.
End C05.

(* instance used by the correspondence check: no hypothesis left *)
Theorem C05_enum47_complete : forall fuel v pending out, enum47 fuel v pending = Some out ->
  forall w, agrees F47 v w -> all_sat F47 zero47 one47 add47 mul47 opp47 eq_dec47 w pending ->
  exists v', In v' out /\ agrees F47 v' w.
Proof. exact (C05_enum_complete F47 zero47 one47 add47 mul47 sub47 opp47 div47 inv47 F47_field eq_dec47 elems47 elems47_complete). Qed.

Theorem C05_enum47_sound : forall fuel v pending out, enum47 fuel v pending = Some out ->
  forall v', In v' out -> extends F47 v v' /\
    forall w, agrees F47 v' w -> all_sat F47 zero47 one47 add47 mul47 opp47 eq_dec47 w pending.
Proof. exact (C05_enum_sound F47 zero47 one47 add47 mul47 sub47 opp47 div47 inv47 F47_field eq_dec47 elems47 elems47_complete). Qed.

Print Assumptions C05_enum_sound.
Print Assumptions C05_enum_complete.
Print Assumptions C05_enum47_complete.
Print Assumptions C05_enum47_sound.

(* ---------------------------------------------------------------------------------------------
   For the R1CS builder and the calls of its modelled core (Frontend/BuilderR1CS.v, tied to the code instruction
   by instruction, C04) the property holds over EVERY field, not only F_47: the set of (inputs, exposed outputs)
   for which the emitted constraints have a satisfying assignment of the remaining wires is exactly the documented
   relation - whatever a dishonest prover puts on hint outputs and internal wires ([w] is arbitrary) - with the
   documented exceptions explicit in [trace_sem]/[sem] (DivUnchecked 0/0, raw hint outputs). *)
From GnarkV Require Import Frontend.BuilderR1CS Frontend.BuilderR1CSProps Frontend.BuilderR1CSExact.
From Coq Require Import ZArith.
Theorem C05_r1cs_core_exact :
  forall (F : Type) (zero one : F) (add mul sub : F -> F -> F) (opp : F -> F) (div : F -> F -> F) (inv : F -> F),
  field_theory zero one add mul sub opp div inv (@eq F) ->
  forall (eq_dec : forall x y : F, {x = y} + {x <> y}) (cst : Z -> F),
  cst 0%Z = zero -> cst 1%Z = one -> cst 2%Z = add one one ->
  forall (nbpub nbsec thr : nat) (prog : list Spec.op) (outs : list nat),
  let st := b_compile F zero one add mul sub opp inv eq_dec cst nbpub nbsec thr prog outs in
  b_err F st = false ->
  forall vs0 ovals : list F, length vs0 = (nbpub + nbsec)%nat -> length ovals = length outs ->
  (exists w, BuilderR1CSProps.good F zero one add mul w st /\
     (forall i, i < nbpub + nbsec -> w (input_wire nbpub (length outs) i) = nth i vs0 zero) /\
     (forall j, j < length outs -> w (S (nbpub + j)) = nth j ovals zero))
  <->
  (exists fin, BuilderR1CSProps.trace_sem F zero one add mul sub opp div inv eq_dec cst prog vs0 fin /\
     forall j o, nth_error outs j = Some o -> nth o fin zero = nth j ovals zero).
Proof. exact compile_exact. Qed.
Print Assumptions C05_r1cs_core_exact.
