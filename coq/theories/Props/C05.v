(* C05 — Constraints emitted for API operations admit no spec-violating assignment.
   The verified enumerator (CS/Enum.v) computes, for the constraint list dumped from the real
   builders and given input values, *all* satisfying assignments (hint outputs and internal wires
   are free choices).  Theorems: soundness and completeness of that enumeration over any finite
   field, and their instance at F_47 used by the correspondence check, which compares the
   reachable outputs with the documented meaning (Frontend/Spec.v) for every input tuple. *)
From Coq Require Import Field List.
From GnarkV Require Import Base.Res Base.F47 CS.Solver CS.Enum Frontend.C05Cases.
Import ListNotations.

Section C05.
Variable F : Type.
Variables (zero one : F) (add mul sub : F -> F -> F) (opp : F -> F) (div : F -> F -> F) (inv : F -> F).
Hypothesis Fth : field_theory zero one add mul sub opp div inv (@eq F).
Variable eq_dec : forall x y : F, {x = y} + {x <> y}.
Variable elems : list F.
Hypothesis elems_complete : forall x : F, In x elems.

Notation enum := (enum F zero one add mul opp eq_dec elems).
Notation all_sat := (all_sat F zero one add mul opp eq_dec).

(* every enumerated assignment satisfies every constraint, whatever the remaining wires are *)
Theorem C05_enum_sound : forall fuel v pending out, enum fuel v pending = Some out ->
  forall v', In v' out -> extends F v v' /\ forall w, agrees F v' w -> all_sat w pending.
Proof. exact (enum_sound F zero one add mul sub opp div inv Fth eq_dec elems elems_complete). Qed.

(* no satisfying assignment is missed: any total assignment that agrees with the given inputs and
   satisfies all emitted constraints agrees with an enumerated one — so a dishonest prover has no
   other choice of hint outputs or internal wires *)
Theorem C05_enum_complete : forall fuel v pending out, enum fuel v pending = Some out ->
  forall w, agrees F v w -> all_sat w pending -> exists v', In v' out /\ agrees F v' w.
Proof. exact (enum_complete F zero one add mul sub opp div inv Fth eq_dec elems elems_complete). Qed.
End C05.

(* instance used by the correspondence check: no hypothesis left *)
Theorem C05_enum47_complete : forall fuel v pending out, enum47 fuel v pending = Some out ->
  forall w, agrees F47 v w -> all_sat F47 zero47 one47 add47 mul47 opp47 eq_dec47 w pending ->
  exists v', In v' out /\ agrees F47 v' w.
Proof. exact (C05_enum_complete F47 zero47 one47 add47 mul47 sub47 opp47 div47 inv47 F47_field eq_dec47 elems47 elems47_complete). Qed.

Theorem C05_enum47_sound : forall fuel v pending out, enum47 fuel v pending = Some out ->
  forall v', In v' out -> extends F47 v v' /\
    forall w, agrees F47 v' w -> all_sat F47 zero47 one47 add47 mul47 opp47 eq_dec47 w pending.
Proof. exact (C05_enum_sound F47 zero47 one47 add47 mul47 sub47 opp47 div47 inv47 F47_field eq_dec47 elems47 elems47_complete). Qed.

Print Assumptions C05_enum_sound.
Print Assumptions C05_enum_complete.
Print Assumptions C05_enum47_complete.
Print Assumptions C05_enum47_sound.
