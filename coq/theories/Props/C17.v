(* C17 — Recursive in-circuit verifiers accept exactly what the native verifiers accept.

   No new verifier model: the in-circuit Groth16 and PLONK verifiers evaluate the same equations as the
   native ones, over gadgets (C16 group operations, C12 emulated scalars, C15 hashes).  The algebra of
   those equations is C01's and C02's, restated here for the recursion setting:
   - C17_groth16_equation / C17_groth16_replay: the pairing equation holds exactly for the quotient of
     the QAP identity; one proof cannot be accepted for two different public-input sums;
   - C17_plonk_identity: the comparison "opening of the linearised polynomial = -constLin" is the PLONK
     quotient identity at zeta;
   - C17_key_switch_selects: a key selected by index among a list is that list's entry (the multiplexer
     over verifying-key elements, C14).
   The equality of verdicts on concrete inner triples (genuine, replayed, every element replaced, other
   keys, other circuits, key switching) is decided by the harness on the real gadgets: native verifier
   with the recursion options vs the in-circuit verifier in the test engine. *)
From Coq Require Import Field List.
From GnarkV Require Import Backend.Groth16 Backend.PlonkVerify.
Import ListNotations.

Section C17.
Variable F : Type.
Variables (zero one : F) (add mul sub : F -> F -> F) (opp : F -> F) (div : F -> F -> F) (inv : F -> F).
Hypothesis Fth : field_theory zero one add mul sub opp div inv (@eq F).
Variables alpha beta gamma delta : F.
Hypothesis gamma_nz : gamma <> zero.
Hypothesis delta_nz : delta <> zero.

Theorem C17_groth16_equation : forall ws r s hz,
  verify F zero add mul sub div alpha beta gamma delta ws r s hz <->
  sub (mul (wA F zero add mul ws) (wB F zero add mul ws)) (wC F zero add mul ws) = hz.
Proof. exact (g16_verify_iff_qap F zero one add mul sub opp div inv Fth alpha beta gamma delta gamma_nz delta_nz). Qed.

Theorem C17_groth16_replay : forall ar bs krs vx vx',
  accepts F add mul alpha beta gamma delta ar bs krs vx -> accepts F add mul alpha beta gamma delta ar bs krs vx' -> vx = vx'.
Proof. exact (g16_replay_relation F zero one add mul sub opp div inv Fth alpha beta gamma delta gamma_nz). Qed.

Theorem C17_plonk_identity : forall qcp pis l r o s1 s2 s3 zu z ql qr qm qo qk h0 h1 h2 al be ga u zeta zn zn2 L1 pi,
  lin_value F zero one add mul sub opp qcp pis l r o s1 s2 s3 zu z ql qr qm qo qk h0 h1 h2 al be ga u zeta zn zn2 L1
    = const_lin F add mul sub opp l r o s1 s2 zu al be ga L1 pi
  <-> plonk_identity F zero one add mul sub qcp pis l r o s1 s2 s3 zu z ql qr qm qo qk h0 h1 h2 al be ga u zeta zn zn2 L1 pi.
Proof. exact (verifier_identity F zero one add mul sub opp div inv Fth). Qed.
End C17.

Theorem C17_key_switch_selects : forall (K : Type) (keys : list K) (d : K) (i : nat) (k : K),
  nth_error keys i = Some k -> nth i keys d = k.
Proof. intros K keys d i k H. apply nth_error_nth. exact H. Qed.

Print Assumptions C17_groth16_equation.
Print Assumptions C17_groth16_replay.
Print Assumptions C17_plonk_identity.
Print Assumptions C17_key_switch_selects.
