(* C16 — Curve and signature gadgets match native results, exceptional cases included.

   Theorems (Std/Weierstrass.v, any field, any curve y^2 = x^3 + a x + b with b <> 0):
   - C16_add_unified_finite: for affine points on the curve with (y1 + y2 = 0 -> x1 = x2), in
     characteristic <> 2, the coordinates returned by AddUnified are those of the group law — generic
     case, P = Q and P = -Q;
   - C16_add_unified_inf_l / inf_r / inf_inf: the conventions for (0,0), for operands without y = 0;
   - C16_add_unified_exception_refuted: the side condition cannot be dropped: when a = 0 and zeta is a
     primitive cube root of unity, (zeta x, -y) is on the curve, AddUnified returns (0,0), and the group
     law's sum is a finite point.  Finding F12 (known): the harness reproduces it on the real gadget for
     secp256k1, BN254, BLS12-381 and through the EVM ECAdd gadget.

   Everything else (scalar multiplications and their GLV / fake-GLV hints, twisted Edwards, ECDSA,
   pairings, EVM conventions) is decided by differential runs against an independent big-integer
   group law cross-checked with crypto/elliptic, crypto/ecdsa and gnark-crypto. *)
From Coq Require Import Field List.
From GnarkV Require Import Std.Weierstrass.

Section C16.
Variable F : Type.
Variables (zero one : F) (add mul sub : F -> F -> F) (opp : F -> F) (div : F -> F -> F) (inv : F -> F).
Hypothesis Fth : field_theory zero one add mul sub opp div inv (@eq F).
Hypothesis eq_dec : forall x y : F, {x = y} + {x <> y}.
Variables a b : F.
Hypothesis b_nz : b <> zero.
Infix "+" := add. Infix "*" := mul. Infix "-" := sub.
Notation on_curve := (on_curve F add mul a b).
Notation add_unified := (add_unified F zero one add mul sub div eq_dec a).
Notation padd := (padd F zero one add mul sub div eq_dec a).

Theorem C16_add_unified_finite : forall x1 y1 x2 y2,
  on_curve x1 y1 -> on_curve x2 y2 -> (y1 + y2 = zero -> x1 = x2) -> (one + one <> zero) ->
  add_unified x1 y1 x2 y2 = enc F zero (padd (Some (x1, y1)) (Some (x2, y2))).
Proof. exact (add_unified_correct_finite F zero one add mul sub opp div inv Fth eq_dec a b b_nz). Qed.

Theorem C16_add_unified_inf_l : forall x2 y2, on_curve x2 y2 -> y2 <> zero -> add_unified zero zero x2 y2 = (x2, y2).
Proof. exact (add_unified_inf_l F zero one add mul sub opp div inv Fth eq_dec a b b_nz). Qed.

Theorem C16_add_unified_inf_r : forall x1 y1, on_curve x1 y1 -> y1 <> zero -> add_unified x1 y1 zero zero = (x1, y1).
Proof. exact (add_unified_inf_r F zero one add mul sub opp div inv Fth eq_dec a b b_nz). Qed.

Theorem C16_add_unified_inf_inf : add_unified zero zero zero zero = (zero, zero).
Proof. exact (add_unified_inf_inf F zero one add mul sub opp div inv Fth eq_dec a). Qed.

Theorem C16_add_unified_exception_refuted : forall x y zeta,
  a = zero -> on_curve x y -> zeta * zeta * zeta = one -> zeta <> one -> x <> zero ->
  add_unified x y (zeta * x) (zero - y) = (zero, zero) /\
  exists p, padd (Some (x, y)) (Some (zeta * x, zero - y)) = Some p.
Proof. exact (add_unified_exception_refuted F zero one add mul sub opp div inv Fth eq_dec a b). Qed.
End C16.

Print Assumptions C16_add_unified_finite.
Print Assumptions C16_add_unified_inf_l.
Print Assumptions C16_add_unified_inf_r.
Print Assumptions C16_add_unified_inf_inf.
Print Assumptions C16_add_unified_exception_refuted.
