(* C16 — Curve and signature gadgets match native results, exceptional cases included.

   Theorems (Std/Weierstrass.v, any field, any curve y^2 = x^3 + a x + b with b <> 0):
   - C16_add_unified_finite: for affine points on the curve with (y1 + y2 = 0 -> x1 = x2), in
     characteristic <> 2, the coordinates returned by AddUnified are those of the group law — generic
     case, P = Q and P = -Q;
   - C16_add_unified_inf_l / inf_r / inf_inf: the conventions for (0,0), for operands without y = 0;
   - C16_add_unified_exception_refuted: the side condition cannot be dropped: when a = 0 and zeta is a
     primitive cube root of unity, (zeta x, -y) is on the curve, AddUnified returns (0,0), and the group
     law's sum is a finite point.  Finding F12 (known): the harness reproduces it on the real gadget for
     secp256k1, BN254, BLS12-381 and through the EVM ECAdd gadget.

   Twisted Edwards (Std/Edwards.v, any field, curve a x^2 + y^2 = 1 + d x^2 y^2):
   - C16_ed_add_law: the gadget's addition (4-multiplication form) is the unified addition law whenever its
     two denominators are non-zero;  C16_ed_double_law: on the curve, the dedicated doubling equals the
     unified law applied to (P, P);  C16_ed_add_identity, C16_ed_add_neg: P + (0,1) = P, P + (-P) = (0,1).

   Everything else (scalar multiplications and their GLV / fake-GLV hints, ECDSA, EdDSA,
   pairings, EVM conventions) is decided by differential runs against an independent big-integer
   group law cross-checked with crypto/elliptic, crypto/ecdsa and gnark-crypto. *)
From Coq Require Import Field List.
From GnarkV Require Import Std.Weierstrass Std.Edwards.

Section C16.
Variable F : Type.
Variables (zero one : F) (add mul sub : F -> F -> F) (opp : F -> F) (div : F -> F -> F) (inv : F -> F).
Hypothesis Fth : field_theory zero one add mul sub opp div inv (@eq F).
Hypothesis eq_dec : forall x y : F, {x = y} + {x <> y}.
Variables a b : F.
Hypothesis b_nz : b <> zero.
Infix "+" := add. Infix "*" := mul. Infix "-" := sub.
Notation on_curve := (Weierstrass.on_curve F add mul a b).
Notation add_unified := (add_unified F zero one add mul sub div eq_dec a).
Notation padd := (padd F zero one add mul sub div eq_dec a).

Theorem C16_add_unified_finite : forall x1 y1 x2 y2,
  on_curve x1 y1 -> on_curve x2 y2 -> (y1 + y2 = zero -> x1 = x2) -> (one + one <> zero) ->
  add_unified x1 y1 x2 y2 = enc F zero (padd (Some (x1, y1)) (Some (x2, y2))).
Proof. exact (add_unified_correct_finite F zero one add mul sub opp div inv Fth eq_dec a b b_nz). Qed.

Theorem C16_add_unified_inf_l : forall x2 y2, on_curve x2 y2 -> y2 <> zero -> add_unified zero zero x2 y2 = (x2, y2).
Proof. exact (add_unified_inf_l F zero one add mul sub opp div inv Fth eq_dec a b b_nz). Qed.

Theorem C16_add_unified_inf_r : forall x1 y1, on_curve x1 y1 -> y1 <> zero -> add_unified x1 y1 zero zero = (x1, y1).
Proof. exact (add_unified_inf_r F zero one add mul sub opp div inv Fth eq_dec a b b_nz). Qed.

Theorem C16_add_unified_inf_inf : add_unified zero zero zero zero = (zero, zero).
Proof. exact (add_unified_inf_inf F zero one add mul sub opp div inv Fth eq_dec a). Qed.

Theorem C16_add_unified_exception_refuted : forall x y zeta,
  a = zero -> on_curve x y -> zeta * zeta * zeta = one -> zeta <> one -> x <> zero ->
  add_unified x y (zeta * x) (zero - y) = (zero, zero) /\
  exists p, padd (Some (x, y)) (Some (zeta * x, zero - y)) = Some p.
Proof. exact (add_unified_exception_refuted F zero one add mul sub opp div inv Fth eq_dec a b). Qed.
End C16.

Section C16Edwards.
Variable F : Type.
Variables (zero one : F) (add mul sub : F -> F -> F) (opp : F -> F) (div : F -> F -> F) (inv : F -> F).
Hypothesis Fth : field_theory zero one add mul sub opp div inv (@eq F).
Variables a d : F.
Infix "+" := add. Infix "*" := mul. Infix "-" := sub.
Notation ed_add := (ed_add F one add mul sub div a d).
Notation ed_double := (ed_double F one add mul sub div a).
Notation ed_on := (Edwards.on_curve F one add mul a d).

Theorem C16_ed_add_law : forall x1 y1 x2 y2,
  one + d * x1 * x2 * y1 * y2 <> zero -> one - d * x1 * x2 * y1 * y2 <> zero ->
  ed_add (x1, y1) (x2, y2) =
  (div (x1 * y2 + x2 * y1) (one + d * x1 * x2 * y1 * y2), div (y1 * y2 - a * x1 * x2) (one - d * x1 * x2 * y1 * y2)).
Proof. exact (ed_add_law F zero one add mul sub opp div inv Fth a d). Qed.

Theorem C16_ed_double_law : forall x y,
  ed_on (x, y) -> one + d * x * x * y * y <> zero -> one - d * x * x * y * y <> zero ->
  ed_double (x, y) = (div (x * y + x * y) (one + d * x * x * y * y), div (y * y - a * x * x) (one - d * x * x * y * y)).
Proof. exact (ed_double_law F zero one add mul sub opp div inv Fth a d). Qed.

Theorem C16_ed_add_identity : forall x y, ed_add (x, y) (zero, one) = (x, y).
Proof. exact (ed_add_identity F zero one add mul sub opp div inv Fth a d). Qed.

Theorem C16_ed_add_neg : forall x y,
  ed_on (x, y) -> one + d * x * (zero - x) * y * y <> zero -> one - d * x * (zero - x) * y * y <> zero ->
  ed_add (x, y) (ed_neg F zero sub (x, y)) = (zero, one).
Proof. exact (ed_add_neg F zero one add mul sub opp div inv Fth a d). Qed.
End C16Edwards.

Print Assumptions C16_add_unified_finite.
Print Assumptions C16_add_unified_inf_l.
Print Assumptions C16_add_unified_inf_r.
Print Assumptions C16_add_unified_inf_inf.
Print Assumptions C16_add_unified_exception_refuted.
Print Assumptions C16_ed_add_law.
Print Assumptions C16_ed_double_law.
Print Assumptions C16_ed_add_identity.
Print Assumptions C16_ed_add_neg.
