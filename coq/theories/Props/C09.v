(* C09 — Serialized artifacts decode to objects that behave identically.
   Hand-rolled parts of the formats are modelled and proved to round-trip with exact byte counts:
   the constraint-system container (header, sections, coefficient table), the calldata section
   (uvarints), fixed-width little-endian words; the witness layout is in C07.  CBOR (body),
   intcomp (levels / instruction columns) and gnark-crypto's point codecs are external: they are
   opaque byte strings here and are exercised by the differential part of the check. *)
From Coq Require Import ZArith List.
From GnarkV Require Import Codec.Container.
Import ListNotations.
Local Open Scope Z_scope.

Theorem C09_uvarint_roundtrip : forall z rest, 0 <= z < 2 ^ 64 ->
  uvarint_read (uvarint_enc 9 z ++ rest) = Some (z, length (uvarint_enc 9 z)).
Proof. exact uvarint_roundtrip. Qed.

Theorem C09_calldata_roundtrip : forall cd,
  (forall v, In v cd -> 0 <= v < 2 ^ 32) -> Z.of_nat (length cd) < 2 ^ 64 ->
  calldata_dec (calldata_enc cd) = Some cd.
Proof. exact calldata_roundtrip. Qed.

Theorem C09_le_roundtrip : forall w z, 0 <= z < 256 ^ (Z.of_nat w) -> le_dec (le_enc w z) = z.
Proof. exact le_roundtrip. Qed.

(* reading back what was written yields the same sections, version and coefficient table, and the
   reader reports exactly the number of bytes the writer produced *)
Theorem C09_container_roundtrip : forall lw limbs s, wf_sysfile lw limbs s ->
  parse lw limbs (serialize lw s) = Some (s, length (serialize lw s)).
Proof. exact container_roundtrip. Qed.

Theorem C09_container_nonvacuous : wf_sysfile 8 2 example_sysfile.
Proof. exact example_sysfile_wf. Qed.

Print Assumptions C09_uvarint_roundtrip.
Print Assumptions C09_calldata_roundtrip.
Print Assumptions C09_container_roundtrip.
