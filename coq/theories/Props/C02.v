(* C02 — PLONK verification accepts only proofs of the stated public inputs; the verifying key commits
   to exactly the gates, the wiring permutation and the commitment selectors of the system.

   Theorems (for every field, every system, every size):
   - the rows Setup commits to hold on every row of the domain exactly when the leading wires carry
     the public inputs and every gate of the system holds (C02_key_commits_to_gates);
   - the position map S built by Setup is a permutation of the 3·size positions
     (C02_wiring_is_a_permutation) and a value vector is S-invariant exactly when positions of the same
     wire carry the same value (C02_wiring_is_the_copy_constraints);
   - the comparison made by Verify (opening of the linearised polynomial = -constLin) IS the PLONK
     quotient identity at zeta for polynomials evaluating to the claimed values (C02_verifier_identity);
   - the per-row permutation constraint with Z(1) = 1 telescopes to equality of the grand products
     (C02_grand_product), equality of the two multisets gives every copy constraint for any S
     (C02_multiset_gives_copy_constraints), and for Setup's S values respecting the copy constraints make
     the products equal for all beta, gamma (C02_copy_constraints_give_grand_product);
   - a proof whose number of BSB22 commitments / claimed values or a witness whose length differs from
     the key's is rejected (C02_count_mismatch_rejected; Codec/ProofShape.v, shared with C08).

   Named residue (not theorems about this code): KZG binding and subgroup membership (pairing
   assumptions), Fiat-Shamir in the random-oracle model, and the Schwartz-Zippel steps (identity at a
   random zeta => polynomial identity; alpha separates the three terms; products equal at random
   beta, gamma => multisets equal).  The harness checks exercise them on the real verifier: every
   commitment, opening and claimed value altered, replay, and proofs computed from violating values. *)
From Coq Require Import Arith Field List Permutation.
From GnarkV Require Import Base.Res Backend.Perm Backend.PlonkTrace Backend.PlonkVerify Codec.ProofShape.
Import ListNotations.

Section C02.
Variable F : Type.
Variables (zero one : F) (add mul sub : F -> F -> F) (opp : F -> F) (div : F -> F -> F) (inv : F -> F).
Hypothesis Fth : field_theory zero one add mul sub opp div inv (@eq F).
Infix "*" := mul. Infix "-" := sub. Infix "+" := add.

Notation gate := (gate F).
Notation trace_rows := (trace_rows F zero one opp).
Notation row_holds := (row_holds F zero add mul).
Notation gate_holds := (gate_holds F zero add mul).
Notation zero_row := (zero_row F zero).

Theorem C02_key_commits_to_gates : forall (w : nat -> F) (pub : list F) (gs : list gate) (size : nat),
  (length pub + length gs <= size)%nat ->
  let nb_pub := length pub in
  let rows := trace_rows nb_pub size gs in
  let lw := seq 0%nat nb_pub ++ map (gxa F) gs ++ repeat 0%nat (size - (nb_pub + length gs))%nat in
  let rw := repeat 0%nat nb_pub ++ map (gxb F) gs ++ repeat 0%nat (size - (nb_pub + length gs))%nat in
  let ow := repeat 0%nat nb_pub ++ map (gxc F) gs ++ repeat 0%nat (size - (nb_pub + length gs))%nat in
  let pis := pub ++ repeat zero (size - nb_pub)%nat in
  (forall i, (i < size)%nat ->
     row_holds (nth i rows zero_row) (w (nth i lw 0%nat)) (w (nth i rw 0%nat)) (w (nth i ow 0%nat)) (nth i pis zero))
  <->
  ((forall i, (i < nb_pub)%nat -> w i = nth i pub zero) /\ (forall g, In g gs -> gate_holds w g)).
Proof. exact (trace_rows_sat_iff F zero one add mul sub opp div inv Fth). Qed.

Theorem C02_wiring_is_the_copy_constraints : forall (nb_pub size : nat) (gs : list gate) (v : nat -> nat),
  let lro := lro_wires F nb_pub size gs in
  (forall i, (i < length lro)%nat -> v (perm_at lro i) = v i) <->
  (forall i j, (i < length lro)%nat -> (j < length lro)%nat -> nth i lro 0%nat = nth j lro 0%nat -> v i = v j).
Proof. exact (permutation_copy_constraints F). Qed.

Theorem C02_wiring_is_a_permutation : forall lro : list nat, Permutation (build_perm lro) (seq 0 (length lro)).
Proof. exact build_perm_permutation. Qed.

Theorem C02_verifier_identity : forall qcp pis l r o s1 s2 s3 zu z ql qr qm qo qk h0 h1 h2 alpha beta gamma u zeta zn zn2 L1 pi,
  lin_value F zero one add mul sub opp qcp pis l r o s1 s2 s3 zu z ql qr qm qo qk h0 h1 h2 alpha beta gamma u zeta zn zn2 L1
    = const_lin F add mul sub opp l r o s1 s2 zu alpha beta gamma L1 pi
  <-> plonk_identity F zero one add mul sub qcp pis l r o s1 s2 s3 zu z ql qr qm qo qk h0 h1 h2 alpha beta gamma u zeta zn zn2 L1 pi.
Proof. exact (verifier_identity F zero one add mul sub opp div inv Fth). Qed.

Theorem C02_grand_product : forall (z num den : nat -> F) (n : nat),
  z O = one -> z n = one ->
  (forall i, (i < n)%nat -> z (S i) * den i = z i * num i) ->
  prodf F one mul num n = prodf F one mul den n.
Proof. exact (grand_product_closed F zero one add mul sub opp div inv Fth). Qed.

Theorem C02_multiset_gives_copy_constraints : forall (v lab : nat -> F) (S : nat -> nat) (m : nat),
  (forall a b, (a < m)%nat -> (b < m)%nat -> lab a = lab b -> a = b) ->
  (forall k, (k < m)%nat -> (S k < m)%nat) ->
  Permutation (map (fun k => (v k, lab (S k))) (seq 0 m)) (map (fun k => (v k, lab k)) (seq 0 m)) ->
  forall k, (k < m)%nat -> v (S k) = v k.
Proof. exact (multiset_copy F). Qed.

Theorem C02_copy_constraints_give_grand_product : forall (lro : list nat) (v lab : nat -> F) (beta gamma : F),
  (forall i, (i < length lro)%nat -> v (perm_at lro i) = v i) ->
  lprod F one mul (map (fun k => v k + beta * lab (perm_at lro k) + gamma) (seq 0 (length lro)))
  = lprod F one mul (map (fun k => v k + beta * lab k + gamma) (seq 0 (length lro))).
Proof. exact (copy_grand_product F zero one add mul sub opp div inv Fth). Qed.
End C02.

Theorem C02_count_mismatch_rejected : forall x,
  p_bsb x <> p_vk_qcp x \/ p_claimed x <> 6 + p_vk_qcp x \/ p_wit x <> p_vk_nb_public x ->
  plonk_verify true x = Ok Reject.
Proof. exact plonk_count_mismatch_rejected. Qed.

(* non-vacuity: a wiring with a repeated wire, its permutation, and an invariant / a non-invariant vector *)
Example C02_perm_example : build_perm [0; 1; 0; 2; 1; 0] = [5; 4; 0; 3; 1; 2].
Proof. reflexivity. Qed.

Print Assumptions C02_key_commits_to_gates.
Print Assumptions C02_wiring_is_the_copy_constraints.
Print Assumptions C02_wiring_is_a_permutation.
Print Assumptions C02_verifier_identity.
Print Assumptions C02_grand_product.
Print Assumptions C02_multiset_gives_copy_constraints.
Print Assumptions C02_copy_constraints_give_grand_product.
Print Assumptions C02_count_mismatch_rejected.
