(* C01 — Groth16 verification accepts only proofs of the stated public inputs.
   Exponent-level model (Backend/Groth16.v): group elements are their discrete logs, e(a,b)=a*b.
   What is a theorem here: the verifier's equation on an honestly formed proof is EQUIVALENT to the
   QAP identity at the secret point (every wire in the right base set, every sign right); with the
   other proof elements fixed, each of Krs / Ar / Bs is determined; one proof accepted for two
   public inputs forces the two verifier-side sums to coincide (a linear relation among the K_i).
   What is NOT a theorem (named cryptographic assumptions, see DESIGN.md): that such relations /
   roots of the QAP polynomial cannot be found without the toxic waste (knowledge soundness in the
   AGM, discrete log), and the random-oracle reading of the commitment challenge. *)
From Coq Require Import Field List.
From GnarkV Require Import Base.Res Backend.Groth16 Backend.PedersenPok Codec.ProofShape.
Import ListNotations.

Section C01.
Variable F : Type.
Variables (zero one : F) (add mul sub : F -> F -> F) (opp : F -> F) (div : F -> F -> F) (inv : F -> F).
Hypothesis Fth : field_theory zero one add mul sub opp div inv (@eq F).
Variables alpha beta gamma delta : F.
Hypothesis gamma_nz : gamma <> zero.
Hypothesis delta_nz : delta <> zero.
Infix "*" := mul. Infix "-" := sub. Infix "+" := add.

Notation verify := (verify F zero add mul sub div alpha beta gamma delta).
Notation accepts := (accepts F add mul alpha beta gamma delta).
Notation wA := (wA F zero add mul). Notation wB := (wB F zero add mul). Notation wC := (wC F zero add mul).

Theorem C01_verify_iff_qap : forall ws r s hz, verify ws r s hz <-> wA ws * wB ws - wC ws = hz.
Proof. exact (g16_verify_iff_qap F zero one add mul sub opp div inv Fth alpha beta gamma delta gamma_nz delta_nz). Qed.

Theorem C01_replay_relation : forall ar bs krs vx vx', accepts ar bs krs vx -> accepts ar bs krs vx' -> vx = vx'.
Proof. exact (g16_replay_relation F zero one add mul sub opp div inv Fth alpha beta gamma delta gamma_nz). Qed.

Theorem C01_krs_determined : forall ar bs krs krs' vx, accepts ar bs krs vx -> accepts ar bs krs' vx -> krs = krs'.
Proof. exact (g16_krs_determined F zero one add mul sub opp div inv Fth alpha beta gamma delta delta_nz). Qed.

Theorem C01_ar_determined : forall ar ar' bs krs vx, bs <> zero -> accepts ar bs krs vx -> accepts ar' bs krs vx -> ar = ar'.
Proof. exact (g16_ar_determined F zero one add mul sub opp div inv Fth alpha beta gamma delta). Qed.

(* F1 (fixed): summing every commitment found in the proof lets anyone retarget a proof *)
Theorem C01_surplus_commitment_forgery : forall ar bs krs vx vx',
  accepts ar bs krs vx -> accepts ar bs krs (vx' + (vx - vx')).
Proof. exact (g16_surplus_commitment_forgery F zero one add mul sub opp div inv Fth alpha beta gamma delta). Qed.
(* the batched Pedersen knowledge proof binds commitment i to basis i only when Setup draws an
   independent sigma per commitment (Backend/PedersenPok.v): the migration adversary — a multiple of a
   basis element of commitment 0 moved into commitment 1, sum unchanged — is rejected exactly when the
   two sigmas differ, and accepted when they are shared *)
Theorem C01_pedersen_migration_rejected : forall sigma0 sigma1 r D0 D1 b k,
  r <> zero -> k <> zero -> b <> zero -> sigma0 <> sigma1 ->
  ~ pok_accepts F add mul sigma0 sigma1 r (D0 - k * b) (D1 + k * b) (sigma0 * D0 - k * (sigma0 * b)) (sigma1 * D1 + k * (sigma0 * b)).
Proof. exact (pok_migration_rejected F zero one add mul sub opp div inv Fth). Qed.

Theorem C01_pedersen_shared_sigma_forgeable : forall sigma r D0 D1 b k,
  pok_accepts F add mul sigma sigma r (D0 - k * b) (D1 + k * b) (sigma * D0 - k * (sigma * b)) (sigma * D1 + k * (sigma * b)).
Proof. exact (pok_migration_shared_sigma_accepted F zero one add mul sub opp div inv Fth). Qed.
End C01.

(* the repaired verifier rejects any proof whose number of commitments differs from the key's *)
Theorem C01_commitment_count : forall x,
  g_commitments x <> length (g_vk_committed x) -> g16_verify true x = Ok Reject.
Proof. exact g16_count_mismatch_rejected. Qed.

Print Assumptions C01_verify_iff_qap.
Print Assumptions C01_replay_relation.
Print Assumptions C01_krs_determined.
Print Assumptions C01_ar_determined.
Print Assumptions C01_commitment_count.
Print Assumptions C01_pedersen_migration_rejected.
Print Assumptions C01_pedersen_shared_sigma_forgeable.
