(* C18 — MPC setup accepts only valid contribution chains and yields working keys.

   Phase 1 in the exponent (Std/Mpc.v, any field):
   - C18_update_srs_of / C18_chain_srs_of: a contribution with secrets (t', a', b') maps the
     well-formed string of (t, a, b) to the well-formed string of (t t', a a', b b'); by induction every
     honest chain yields the string of the products of the contributed secrets;
   - C18_ratio_powers: a vector with first element c whose consecutive elements have ratio r is c r^i;
   - C18_wellformed_sound: a string of the nominal lengths whose first elements are pinned (the decoder
     sets tau1[0], tau2[0] to the generators), with beta2 = beta_tau[0] (update proof) and the four
     element-wise ratio relations with one common ratio — what Verify checks through SameRatioMany — IS
     the well-formed string of (r, alpha_tau[0], beta_tau[0]); C18_srs_of_wellformed is the converse.

   Phase 2 in the exponent (Std/Mpc2.v, any field):
   - C18_update2_params_of / C18_chain2_params_of: a contribution (d, sigmas') maps the parameters of
     (delta, sigmas) over fixed numerators to those of (delta d, sigmas .* sigmas'); every honest chain from
     Initialize yields the parameters a trusted setup with delta = the product would have produced;
   - C18_verified2_sound: the element-wise relations Phase2.Verify establishes through the update proofs
     (delta' = x delta, Z = x Z', PKK = x PKK' "backwards", sigma' = y sigma, SigmaCKK' = y SigmaCKK) force
     next = update2 prev x ys;  C18_invariants2: delta*Z and delta*PKK are invariant (checked by pairings
     on the real contributions).

   Named residue: the random-coefficient batching of the ratio checks, the pairing, hash-to-curve and
   the proofs of knowledge are cryptographic; the Lagrange conversion and the key assembly are
   decided by the harness (honest chains verify, keys prove / verify, every element altered is rejected,
   reordered / duplicated / spliced / non-extending chains are rejected). *)
From Coq Require Import Arith Field List.
From GnarkV Require Import Std.Mpc Std.Mpc2.
Import ListNotations.

Section C18.
Variable F : Type.
Variables (zero one : F) (add mul sub : F -> F -> F) (opp : F -> F) (div : F -> F -> F) (inv : F -> F).
Hypothesis Fth : field_theory zero one add mul sub opp div inv (@eq F).
Notation srs_of := (srs_of F one mul).
Notation update := (update F one mul).
Notation ratio := (ratio F mul).
Notation powers := (powers F one mul).

Theorem C18_update_srs_of : forall N t a b t' a' b',
  update (srs_of N t a b) t' a' b' = srs_of N (mul t t') (mul a a') (mul b b').
Proof. exact (update_srs_of F zero one add mul sub opp div inv Fth). Qed.

Theorem C18_chain_srs_of : forall N cs t a b,
  contribute_all F one mul (srs_of N t a b) cs =
  let '(pt, pa, pb) := prod3 F one mul cs in srs_of N (mul t pt) (mul a pa) (mul b pb).
Proof. exact (chain_srs_of F zero one add mul sub opp div inv Fth). Qed.

Theorem C18_ratio_powers : forall r c v, hd c v = c -> ratio r v -> v = powers c r (length v).
Proof. exact (ratio_powers F zero one add mul sub opp div inv Fth). Qed.

Theorem C18_wellformed_sound : forall N (s : srs F) r,
  1 <= N ->
  length (tau1 F s) = n2m1 N -> length (tau2 F s) = N -> length (alpha_tau F s) = N -> length (beta_tau F s) = N ->
  hd one (tau1 F s) = one -> hd one (tau2 F s) = one -> beta2 F s = hd one (beta_tau F s) ->
  ratio r (tau1 F s) -> ratio r (tau2 F s) -> ratio r (alpha_tau F s) -> ratio r (beta_tau F s) ->
  s = {| tau1 := powers one r (n2m1 N); tau2 := powers one r N;
         alpha_tau := powers (hd one (alpha_tau F s)) r N; beta_tau := powers (hd one (beta_tau F s)) r N;
         beta2 := hd one (beta_tau F s) |}.
Proof. exact (wellformed_sound F zero one add mul sub opp div inv Fth). Qed.

Theorem C18_srs_of_wellformed : forall N t a b,
  1 <= N ->
  let s := srs_of N t a b in
  hd one (tau1 F s) = one /\ hd one (tau2 F s) = one /\ beta2 F s = hd one (beta_tau F s) /\
  ratio t (tau1 F s) /\ ratio t (tau2 F s) /\ ratio t (alpha_tau F s) /\ ratio t (beta_tau F s).
Proof. exact (srs_of_wellformed F zero one add mul sub opp div inv Fth). Qed.

Theorem C18_update2_params_of : forall zn kn cb dl sg d ss,
  dl <> zero -> d <> zero -> length sg = length ss ->
  update2 F mul inv (params_of F mul inv zn kn cb dl sg) d ss = params_of F mul inv zn kn cb (mul dl d) (mul_each F mul sg ss).
Proof. exact (update2_params_of F zero one add mul sub opp div inv Fth). Qed.

Theorem C18_chain2_params_of : forall zn kn cb cs dl sg,
  dl <> zero -> (forall c, In c cs -> fst c <> zero /\ length (snd c) = length sg) ->
  contribute2 F mul inv (params_of F mul inv zn kn cb dl sg) cs =
  let '(dl', sg') := prod2 F mul dl sg cs in params_of F mul inv zn kn cb dl' sg'.
Proof. exact (chain2_params_of F zero one add mul sub opp div inv Fth). Qed.

Theorem C18_verified2_sound : forall (p q : params F) x ys,
  x <> zero ->
  delta F q = mul (delta F p) x ->
  zs F p = scale F mul x (zs F q) -> pkk F p = scale F mul x (pkk F q) ->
  rel_each F mul ys (sigma F p) (sigma F q) (sckk F p) (sckk F q) ->
  q = update2 F mul inv p x ys.
Proof. exact (verified2_sound F zero one add mul sub opp div inv Fth). Qed.

Theorem C18_invariants2 : forall (p : params F) d ss, d <> zero ->
  scale F mul (delta F (update2 F mul inv p d ss)) (zs F (update2 F mul inv p d ss)) = scale F mul (delta F p) (zs F p) /\
  scale F mul (delta F (update2 F mul inv p d ss)) (pkk F (update2 F mul inv p d ss)) = scale F mul (delta F p) (pkk F p).
Proof. exact (invariants2 F zero one add mul sub opp div inv Fth). Qed.
End C18.

Print Assumptions C18_update_srs_of.
Print Assumptions C18_chain_srs_of.
Print Assumptions C18_ratio_powers.
Print Assumptions C18_wellformed_sound.
Print Assumptions C18_srs_of_wellformed.
Print Assumptions C18_update2_params_of.
Print Assumptions C18_chain2_params_of.
Print Assumptions C18_verified2_sound.
Print Assumptions C18_invariants2.
