(* C04 — Compiled R1CS and sparse R1CS compute exactly what the circuit specifies.
   (1) field-generic equivalences between the constraint pattern of each non-linear API
       operation and its documented meaning (an honest extension exists exactly when the
       assertion holds, and the output is the documented one);
   (2) the documented meaning itself (Frontend/Spec.v) does not depend on whether an operand is
       a constant or a variable carrying the same value;
   the tie to the implementation is the correspondence "Spec.v predicts the observed outcome of
   compile+solve" (C04Cases.v) and the C05/C06 correspondences on the same systems. *)
From Coq Require Import ZArith Field Bool List.
From GnarkV Require Import Frontend.Gadgets Frontend.LeqCst Frontend.Spec Frontend.SpecProps.
Import ListNotations.

Section C04.
Variable F : Type.
Variables (zero one : F) (add mul sub : F -> F -> F) (opp : F -> F) (div : F -> F -> F) (inv : F -> F).
Hypothesis Fth : field_theory zero one add mul sub opp div inv (@eq F).
Variable eq_dec : forall x y : F, {x = y} + {x <> y}.
Notation "0" := zero. Notation "1" := one.
Infix "+" := add. Infix "*" := mul. Infix "-" := sub. Infix "/" := div.
Notation inj := (inj F zero one).
Notation is_bool := (is_bool F zero one).

Theorem C04_boolean : forall b, b * (1 - b) = 0 <-> is_bool b.
Proof. exact (boolean_rel F zero one add mul sub opp div inv Fth eq_dec). Qed.

Theorem C04_iszero : forall a m,
  (exists x, opp a * x = m - 1 /\ a * m = 0) <-> m = inj (if eq_dec a 0 then true else false).
Proof. exact (iszero_rel F zero one add mul sub opp div inv Fth eq_dec). Qed.

Theorem C04_div : forall a b res, (exists i, b * i = 1 /\ res * b = a) <-> (b <> 0 /\ res = a / b).
Proof. exact (div_rel F zero one add mul sub opp div inv Fth). Qed.

Theorem C04_div_unchecked : forall a b res,
  res * b = a <-> ((b <> 0 /\ res = a / b) \/ (b = 0 /\ a = 0)).
Proof. exact (div_unchecked_rel F zero one add mul sub opp div inv Fth eq_dec). Qed.

Theorem C04_inverse : forall a res, a * res = 1 <-> (a <> 0 /\ res = inv a).
Proof. exact (inverse_rel F zero one add mul sub opp div inv Fth). Qed.

Theorem C04_assert_different : forall a b, (exists i, (a - b) * i = 1) <-> a <> b.
Proof. exact (assert_different_rel F zero one add mul sub opp div inv Fth). Qed.

Theorem C04_xor : forall x y, inj x * (1 - (1 + 1) * inj y) + inj y = inj (xorb x y).
Proof. exact (xor_rel' F zero one add mul sub opp div inv Fth). Qed.
Theorem C04_or : forall x y, inj x + inj y - inj x * inj y = inj (orb x y).
Proof. exact (or_rel F zero one add mul sub opp div inv Fth). Qed.
Theorem C04_and : forall x y, inj x * inj y = inj (andb x y).
Proof. exact (and_rel F zero one add mul sub opp div inv Fth). Qed.
Theorem C04_select : forall b u v, inj b * (u - v) + v = if b then u else v.
Proof. exact (select_rel F zero one add mul sub opp div inv Fth). Qed.
Theorem C04_lookup2 : forall b0 b1 i0 i1 i2 i3,
  let t0 := inj b0 * (i1 - i0) + i0 in
  let t1 := inj b0 * (i3 - i2) + i2 in
  inj b1 * (t1 - t0) + t0 = if b1 then (if b0 then i3 else i2) else (if b0 then i1 else i0).
Proof. exact (lookup2_rel F zero one add mul sub opp div inv Fth). Qed.

(* AssertIsLessOrEqual with a constant bound (MustBeLessOrEqCst): the running-product rows hold
   iff the bits are boolean and their value is at most the bound (bits MSB first) *)
Theorem C04_leq_cst : forall l : list (F * bool),
  leqc F zero one mul sub one l <->
  exists bs, map fst l = map (LeqCst.inj F zero one) bs /\ (LeqCst.val bs 0 <= LeqCst.val (map snd l) 0)%Z.
Proof. exact (leq_cst_rel F zero one add mul sub opp div inv Fth eq_dec). Qed.
End C04.

(* the documented meaning does not depend on operands being constants or variables *)
Theorem C04_spec_const_agnostic : forall p st o i z,
  nth_error (s_vals st) i = Some z -> (z mod p = z)%Z ->
  spec_step p st (subst_op i z o) = spec_step p st o.
Proof. exact spec_step_const_agnostic. Qed.

Print Assumptions C04_iszero.
Print Assumptions C04_div.
Print Assumptions C04_leq_cst.
Print Assumptions C04_lookup2.
Print Assumptions C04_spec_const_agnostic.

(* ---------------------------------------------------------------------------------------------
   The R1CS builder itself (Frontend/BuilderR1CS.v: Gallina transcription of frontend/cs/r1cs,
   tied to the code instruction by instruction by BuilderCases.v): for every program over the
   modelled core of the API, every compression threshold and every choice of exposed variables,
   an assignment satisfying the emitted system follows the documented meaning of every call,
   satisfies every assertion and exposes the documented values. *)
From GnarkV Require Import CS.Solver Frontend.BuilderR1CS Frontend.BuilderR1CSProps.

Theorem C04_r1cs_builder_sound :
  forall (F : Type) (zero one : F) (add mul sub : F -> F -> F) (opp : F -> F) (div : F -> F -> F) (inv : F -> F),
  field_theory zero one add mul sub opp div inv (@eq F) ->
  forall (eq_dec : forall x y : F, {x = y} + {x <> y}) (cst : Z -> F),
  cst 0%Z = zero -> cst 1%Z = one -> cst 2%Z = add one one ->
  forall (nbpub nbsec thr : nat) (prog : list op) (outs : list nat),
  let st := b_compile F zero one add mul sub opp inv eq_dec cst nbpub nbsec thr prog outs in
  b_err F st = false ->
  forall w : nat -> F, BuilderR1CSProps.good F zero one add mul w st ->
  exists fin : list F,
    BuilderR1CSProps.trace_sem F zero one add mul sub opp div inv eq_dec cst prog
      (map (fun i => w (input_wire nbpub (length outs) i)) (seq 0 (nbpub + nbsec))) fin /\
    forall j o, nth_error outs j = Some o -> nth o fin zero = w (S (nbpub + j)).
Proof. exact compile_sound. Qed.

(* the merge of builder.add (k-way merge, cancellation, empty result) preserves the value *)
Theorem C04_r1cs_add_value :
  forall (F : Type) (zero one : F) (add mul sub : F -> F -> F) (opp : F -> F) (div : F -> F -> F) (inv : F -> F),
  field_theory zero one add mul sub opp div inv (@eq F) ->
  forall (eq_dec : forall x y : F, {x = y} + {x <> y}) (w : nat -> F) (vars : list (lexp F)) (sb : bool),
  BuilderR1CSProps.ev F zero add mul w (merge_les F zero add opp eq_dec vars sb) = BuilderR1CSProps.sum_ev F zero add mul sub w sb vars.
Proof. exact ev_merge. Qed.

Print Assumptions C04_r1cs_builder_sound.
Print Assumptions C04_r1cs_add_value.

(* the linear expressions the builder creates are strictly sorted by wire id (the precondition of
   the heap merge of builder.add): the merge result is sorted whatever its operands, and every
   API call keeps every program variable sorted *)
From GnarkV Require Import Frontend.BuilderSorted.
Theorem C04_r1cs_add_sorted :
  forall (F : Type) (zero : F) (add : F -> F -> F) (opp : F -> F) (eq_dec : forall x y : F, {x = y} + {x <> y})
         (vars : list (lexp F)) (sb : bool),
  ssorted F (merge_les F zero add opp eq_dec vars sb).
Proof. exact merge_sorted. Qed.
Theorem C04_r1cs_vars_sorted :
  forall (F : Type) (zero one : F) (add mul sub : F -> F -> F) (opp inv : F -> F)
         (eq_dec : forall x y : F, {x = y} + {x <> y}) (cst : Z -> F)
         (vars : list (lexp F)) (st : bstate F) (o : op) (vars' : list (lexp F)) (st' : bstate F),
  Forall (ssorted F) vars ->
  b_step F zero one add mul sub opp inv eq_dec cst (vars, st) o = (vars', st') -> Forall (ssorted F) vars'.
Proof. exact step_sorted. Qed.
Print Assumptions C04_r1cs_add_sorted.
Print Assumptions C04_r1cs_vars_sorted.

(* completeness half: whenever the documented meaning admits a value trace (all assertions hold) and
   the builder did not panic, the emitted system is satisfiable with these inputs and exposes the
   documented values.  Together with C04_r1cs_builder_sound: for every program over the core, the
   emitted R1CS is satisfiable for given inputs and exposed values exactly when the documented
   meaning admits a trace with them. *)
Theorem C04_r1cs_builder_complete :
  forall (F : Type) (zero one : F) (add mul sub : F -> F -> F) (opp : F -> F) (div : F -> F -> F) (inv : F -> F),
  field_theory zero one add mul sub opp div inv (@eq F) ->
  forall (eq_dec : forall x y : F, {x = y} + {x <> y}) (cst : Z -> F),
  cst 0%Z = zero -> cst 1%Z = one -> cst 2%Z = add one one ->
  forall (nbpub nbsec thr : nat) (prog : list op) (outs : list nat),
  let st := b_compile F zero one add mul sub opp inv eq_dec cst nbpub nbsec thr prog outs in
  b_err F st = false ->
  forall vs0 fin : list F, length vs0 = (nbpub + nbsec)%nat ->
  BuilderR1CSProps.trace_sem F zero one add mul sub opp div inv eq_dec cst prog vs0 fin ->
  exists w : nat -> F, BuilderR1CSProps.good F zero one add mul w st /\
    (forall i, i < nbpub + nbsec -> w (input_wire nbpub (length outs) i) = nth i vs0 zero) /\
    (forall j o, nth_error outs j = Some o -> w (S (nbpub + j)) = nth o fin zero).
Proof. exact compile_complete. Qed.
Print Assumptions C04_r1cs_builder_complete.

(* ToBinary (BuilderR1CSBits.v, tied to the code like the core): under every assignment satisfying the emitted
   rows the digits are boolean and recompose to the operand in the field (the reducedness half is LeqCst.v's
   statement about the MustBeLessOrEqCst rows, C04_leq_cst above) *)
From GnarkV Require Import Frontend.BuilderR1CSBits Frontend.BuilderR1CSBitsProps.
Theorem C04_r1cs_tobinary_sound :
  forall (F : Type) (zero one : F) (add mul sub : F -> F -> F) (opp : F -> F) (div : F -> F -> F) (inv : F -> F),
  field_theory zero one add mul sub opp div inv (@eq F) ->
  forall (eq_dec : forall x y : F, {x = y} + {x <> y}) (cst : Z -> F),
  cst 0%Z = zero -> cst 1%Z = one ->
  forall (fbl : nat) (qm1 : Z) (st : bstate F) (v : lexp F) (n : nat) (omit : bool) (bits : list (lexp F)) (st' : bstate F),
  b_tobinary F zero one add mul opp eq_dec cst fbl qm1 st v n false omit = (bits, st') ->
  BuilderR1CSProps.mstep F zero one add mul st st'
    (fun w => Forall (fun d => Gadgets.is_bool F zero one (BuilderR1CSProps.ev F zero add mul w d)) bits /\
              BuilderR1CSProps.fbv F zero add mul cst w 1%Z bits = BuilderR1CSProps.ev F zero add mul w v).
Proof. intros F zero one add mul sub opp div inv Fth eq_dec cst c0 c1. exact (tobinary_sound F zero one add mul sub opp div inv Fth eq_dec cst c0 c1). Qed.
Print Assumptions C04_r1cs_tobinary_sound.

(* both halves as one statement: the compiled R1CS is satisfiable with given inputs and given public output
   values exactly when the documented meaning admits a trace from these inputs exposing these values *)
From GnarkV Require Import Frontend.BuilderR1CSExact.
Theorem C04_r1cs_builder_exact :
  forall (F : Type) (zero one : F) (add mul sub : F -> F -> F) (opp : F -> F) (div : F -> F -> F) (inv : F -> F),
  field_theory zero one add mul sub opp div inv (@eq F) ->
  forall (eq_dec : forall x y : F, {x = y} + {x <> y}) (cst : Z -> F),
  cst 0%Z = zero -> cst 1%Z = one -> cst 2%Z = add one one ->
  forall (nbpub nbsec thr : nat) (prog : list op) (outs : list nat),
  let st := b_compile F zero one add mul sub opp inv eq_dec cst nbpub nbsec thr prog outs in
  b_err F st = false ->
  forall vs0 ovals : list F, length vs0 = (nbpub + nbsec)%nat -> length ovals = length outs ->
  (exists w, BuilderR1CSProps.good F zero one add mul w st /\
     (forall i, i < nbpub + nbsec -> w (input_wire nbpub (length outs) i) = nth i vs0 zero) /\
     (forall j, j < length outs -> w (S (nbpub + j)) = nth j ovals zero))
  <->
  (exists fin, BuilderR1CSProps.trace_sem F zero one add mul sub opp div inv eq_dec cst prog vs0 fin /\
     forall j o, nth_error outs j = Some o -> nth o fin zero = nth j ovals zero).
Proof. exact compile_exact. Qed.
Print Assumptions C04_r1cs_builder_exact.

(* the function the correspondence check evaluates (b_compile_ext, with the bit-level calls) is, on every program
   inside the core, the function the theorems above are about *)
Theorem C04_r1cs_ext_is_core :
  forall (F : Type) (zero one : F) (add mul sub : F -> F -> F) (opp inv : F -> F)
         (eq_dec : forall x y : F, {x = y} + {x <> y}) (cst : Z -> F) (fbl : nat) (qm1 : Z) (toZ : F -> Z)
         (nbpub nbsec thr : nat) (prog : list op) (outs : list nat),
  forallb (fun o : op => core_op (fst o)) prog = true ->
  b_compile_ext F zero one add mul sub opp inv eq_dec cst fbl qm1 toZ nbpub nbsec thr prog outs =
  b_compile F zero one add mul sub opp inv eq_dec cst nbpub nbsec thr prog outs.
Proof. exact b_compile_ext_core. Qed.
Print Assumptions C04_r1cs_ext_is_core.
