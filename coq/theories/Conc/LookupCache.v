(* The lookup-table blueprint keeps its resolved-entries cache inside the COMPILED SYSTEM, which
   concurrent Solve calls share (constraint/blueprint_logderivlookup.go): Reset() (called at the
   start of every Solve) empties it, Solve fills it from the CURRENT solver's wire values up to the
   number of entries the instruction needs, then reads entries from it.
   Shared state = the cache; a client's local state = (its own table values, its lookup results). *)
From Coq Require Import List Arith ZArith Bool.
From GnarkV Require Import Conc.Interleave.
Import ListNotations.

Definition cache := list Z.
Record local := { tbl : list Z; results : list Z }.

Definition a_reset : action cache local := fun _ l => ([], l).
(* fill the cache up to n entries with this client's table values *)
Definition a_fill (n : nat) : action cache local :=
  fun c l => (c ++ firstn (n - length c) (skipn (length c) (tbl l)), l).
(* read entry i from the shared cache *)
Definition a_read (i : nat) : action cache local :=
  fun c l => (c, {| tbl := tbl l; results := results l ++ [nth i c (-1)%Z] |}).

(* BlueprintLookupHint.Solve as one atomic step (the granularity at which the harness drives the real
   blueprint): fill up to n entries from this client's values, then answer query i from the cache *)
(* an instruction sees only the first n entries (entries := cachedEntries[:nbEntries]); a query at or beyond
   n fails with "lookup query too large" however many entries other instructions have cached already *)
Definition lookup_err : Z := 18446744073709551615%Z.
Definition a_solve (n i : nat) : action cache local :=
  fun c l => let c' := c ++ firstn (n - length c) (skipn (length c) (tbl l)) in
             (c', {| tbl := tbl l; results := results l ++ [if Nat.ltb i n then nth i c' lookup_err else lookup_err] |}).

(* one Solve of a system with one lookup of index i in a table of n entries *)
Definition solve_prog (n i : nat) : list (action cache local) := [a_reset; a_fill n; a_read i].

Definition clientA : list (action cache local) * local := (solve_prog 3 1, {| tbl := [10; 11; 12]%Z; results := [] |}).
Definition clientB : list (action cache local) * local := (solve_prog 3 1, {| tbl := [20; 21; 22]%Z; results := [] |}).

Definition results_of (r : cache * list (list (action cache local) * local)) : list (list Z) := map (fun c => results (snd c)) (snd r).

(* alone, each client reads its own entry *)
Example lookup_alone : results_of (run cache local [0; 0; 0; 1; 1; 1]%nat [] [clientA; clientB]) = [[11]; [21]]%Z.
Proof. reflexivity. Qed.

(* finding F7: a schedule in which client A returns an entry computed from client B's witness *)
Theorem lookup_cache_shared_refuted :
  exists sched, results_of (run cache local sched [] [clientA; clientB]) <> [[11]; [21]]%Z.
Proof. exists [0; 0; 1; 1; 0; 1]%nat. vm_compute. discriminate. Qed.

(* with the cache in per-solve state, [a_fill]/[a_read] act on the local state only: the shared
   state is never written and Interleave.serialisable applies *)
Record local' := { tbl' : list Z; cache' : list Z; results' : list Z }.
Definition b_reset : action unit local' := fun u l => (u, {| tbl' := tbl' l; cache' := []; results' := results' l |}).
Definition b_fill (n : nat) : action unit local' :=
  fun u l => (u, {| tbl' := tbl' l; cache' := cache' l ++ firstn (n - length (cache' l)) (skipn (length (cache' l)) (tbl' l)); results' := results' l |}).
Definition b_read (i : nat) : action unit local' :=
  fun u l => (u, {| tbl' := tbl' l; cache' := cache' l; results' := results' l ++ [nth i (cache' l) (-1)%Z] |}).

Lemma per_solve_actions_read_only n i :
  read_only unit local' b_reset /\ read_only unit local' (b_fill n) /\ read_only unit local' (b_read i).
Proof. repeat split. Qed.

(* ---------------------------------------------------------------- correspondence with the real blueprint *)

(* a client program: Reset, then a list of (entries visible, query index) lookups *)
Definition prog_of (qs : list (nat * nat)) : list (action cache local) :=
  a_reset :: map (fun q => a_solve (fst q) (snd q)) qs.

(* (per-client table values, per-client lookups, schedule, observed per-client results) *)
Definition lcase := (list (list Z) * list (list (nat * nat)) * list nat * list (list Z))%type.

Fixpoint zl_eqb (a b : list Z) : bool :=
  match a, b with
  | [], [] => true
  | x :: a', y :: b' => Z.eqb x y && zl_eqb a' b'
  | _, _ => false
  end.
Fixpoint zll_eqb (a b : list (list Z)) : bool :=
  match a, b with
  | [], [] => true
  | x :: a', y :: b' => zl_eqb x y && zll_eqb a' b'
  | _, _ => false
  end.

Definition lcase_check (c : lcase) : bool :=
  let '(tables, progs, sched, observed) := c in
  let clients := map (fun tp => (prog_of (snd tp), {| tbl := fst tp; results := [] |})) (combine tables progs) in
  zll_eqb (results_of (run cache local sched [] clients)) observed.

Fixpoint lcase_mismatches (k : nat) (cs : list lcase) : list nat :=
  match cs with
  | [] => []
  | c :: cs' => if lcase_check c then lcase_mismatches (S k) cs' else k :: lcase_mismatches (S k) cs'
  end.
