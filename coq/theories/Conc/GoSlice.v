(* Go slices over a heap of backing arrays: append writes in place when len < cap.
   PLONK's prover appended its hint override to the caller's option slice (F8, repaired by capping
   the slice first, as the Groth16 prover does). *)
From Coq Require Import List Arith Lia.
Import ListNotations.

Record slice := { arr : nat; len : nat; cap : nat }.
Definition heap (A : Type) := nat -> list (option A).     (* array id -> cells *)

Fixpoint set_nth {A} (l : list A) (i : nat) (x : A) : list A :=
  match l, i with
  | [], _ => []
  | _ :: t, O => x :: t
  | h :: t, S i' => h :: set_nth t i' x
  end.

(* append(s, x): (new heap, resulting slice, id to use for a fresh array) *)
Definition append {A} (h : heap A) (fresh : nat) (s : slice) (x : A) : heap A * slice :=
  if Nat.ltb (len s) (cap s) then
    (fun a => if Nat.eqb a (arr s) then set_nth (h a) (len s) (Some x) else h a,
     {| arr := arr s; len := S (len s); cap := cap s |})
  else
    (fun a => if Nat.eqb a fresh then firstn (len s) (h (arr s)) ++ [Some x] else h a,
     {| arr := fresh; len := S (len s); cap := S (len s) |}).

Definition capped (s : slice) : slice := {| arr := arr s; len := len s; cap := len s |}.   (* s[:len:len] *)

(* Groth16 / repaired PLONK: appending to the capped slice never writes the caller's array *)
Theorem append_capped_no_alias {A} (h : heap A) fresh (s : slice) (x : A) :
  fresh <> arr s -> fst (append h fresh (capped s) x) (arr s) = h (arr s).
Proof.
  intros NE. unfold append, capped. cbn [len cap arr].
  rewrite Nat.ltb_irrefl. cbn [fst].
  destruct (Nat.eqb_spec (arr s) fresh) as [E|_]; [congruence|reflexivity].
Qed.

(* unrepaired PLONK: two Prove calls appending to the SAME slice value with spare capacity write the
   same cell; the first call's override is overwritten by the second *)
Theorem append_inplace_alias {A} (h : heap A) f1 f2 (s : slice) (x y : A) :
  len s < cap s -> len s < length (h (arr s)) ->
  let '(h1, s1) := append h f1 s x in
  let '(h2, s2) := append h1 f2 s y in
  arr s1 = arr s2 /\ nth (len s) (h2 (arr s1)) None = Some y.
Proof.
  intros Hc Hl. unfold append.
  replace (Nat.ltb (len s) (cap s)) with true by (symmetry; apply Nat.ltb_lt; exact Hc).
  cbn [arr]. split; [reflexivity|]. rewrite Nat.eqb_refl.
  assert (G : forall (l : list (option A)) i v, i < length l -> nth i (set_nth l i v) None = v).
  { induction l as [|a l IH]; intros [|i] v H; cbn in *; try lia; [reflexivity|apply IH; lia]. }
  apply G.
  assert (L : forall (l : list (option A)) i v, length (set_nth l i v) = length l).
  { induction l as [|a l IH]; intros [|i] v; cbn; try reflexivity. rewrite IH. reflexivity. }
  rewrite L. exact Hl.
Qed.
