(* Interleaving semantics of N clients (concurrent Solve / Prove calls) over a shared state, and the
   serialisability theorem used for C10: when no client action writes the shared state and every
   action's effect on the client's local state does not depend on the other clients, every schedule
   gives every client the result it gets running alone. *)
From Coq Require Import List Arith Lia.
Import ListNotations.

Section Interleave.
Variables (Sh L : Type).
Definition action := Sh -> L -> Sh * L.
Notation client := (list action * L)%type.     (* remaining actions, local state *)

Definition step_client (sh : Sh) (c : client) : Sh * client :=
  match fst c with
  | [] => (sh, c)
  | a :: rest => let '(sh', l') := a sh (snd c) in (sh', (rest, l'))
  end.

Fixpoint update {A} (l : list A) (i : nat) (x : A) : list A :=
  match l, i with
  | [], _ => []
  | _ :: t, O => x :: t
  | h :: t, S i' => h :: update t i' x
  end.

(* a schedule is the list of client indices that take the next step (out-of-range indices idle) *)
Fixpoint run (sched : list nat) (sh : Sh) (cs : list client) : Sh * list client :=
  match sched with
  | [] => (sh, cs)
  | i :: sched' =>
      match nth_error cs i with
      | None => run sched' sh cs
      | Some c => let '(sh', c') := step_client sh c in run sched' sh' (update cs i c')
      end
  end.

Fixpoint alone (sh : Sh) (acts : list action) (l : L) : Sh * L :=
  match acts with
  | [] => (sh, l)
  | a :: rest => let '(sh', l') := a sh l in alone sh' rest l'
  end.

(* the hypothesis met by the solver proper (values / solved / a,b,c are per solve, the compiled
   system is only read): actions leave the shared state unchanged *)
Definition read_only (a : action) : Prop := forall sh l, fst (a sh l) = sh.

Lemma nth_error_update_same {A} (l : list A) i x : i < length l -> nth_error (update l i x) i = Some x.
Proof. revert i. induction l as [|h t IH]; intros [|i] H; cbn in *; try lia; [reflexivity|apply IH; lia]. Qed.
Lemma nth_error_update_other {A} (l : list A) i j x : i <> j -> nth_error (update l i x) j = nth_error l j.
Proof. revert i j. induction l as [|h t IH]; intros [|i] [|j] H; cbn; try reflexivity; try lia. apply IH. lia. Qed.
Lemma update_length {A} (l : list A) i x : length (update l i x) = length l.
Proof. revert i. induction l as [|h t IH]; intros [|i]; cbn; try reflexivity. rewrite IH. reflexivity. Qed.

Lemma update_same {A} (l : list A) i x : nth_error l i = Some x -> update l i x = l.
Proof.
  revert i. induction l as [|h t IH]; intros [|i] E; cbn in *; try discriminate.
  - injection E as ->. reflexivity.
  - rewrite IH by exact E. reflexivity.
Qed.

(* progress made by a client under a schedule: its state is the one reached alone after the same
   number of its own steps *)
Fixpoint steps_of (i : nat) (sched : list nat) : nat :=
  match sched with [] => 0 | j :: s => (if Nat.eqb i j then 1 else 0) + steps_of i s end.

Fixpoint alone_n (n : nat) (sh : Sh) (c : client) : client :=
  match n with
  | O => c
  | S n' => let '(_, c') := step_client sh c in alone_n n' sh c'
  end.

Lemma step_client_nil sh c : fst c = [] -> step_client sh c = (sh, c).
Proof. unfold step_client. intros ->. reflexivity. Qed.
Lemma step_client_cons sh c a rest : fst c = a :: rest ->
  step_client sh c = (fst (a sh (snd c)), (rest, snd (a sh (snd c)))).
Proof. unfold step_client. intros ->. destruct (a sh (snd c)). reflexivity. Qed.

Theorem serialisable sh0 (cs0 : list client) :
  (forall c a, In c cs0 -> In a (fst c) -> read_only a) ->
  forall sched, let '(sh, cs) := run sched sh0 cs0 in
    sh = sh0 /\ length cs = length cs0 /\
    forall i c0, nth_error cs0 i = Some c0 -> nth_error cs i = Some (alone_n (steps_of i sched) sh0 c0).
Proof.
  intros RO sched.
  assert (G : forall sched cs, length cs = length cs0 ->
     (forall i c, nth_error cs i = Some c -> forall a, In a (fst c) -> read_only a) ->
     let '(sh, cs') := run sched sh0 cs in
     sh = sh0 /\ length cs' = length cs /\
     forall i c, nth_error cs i = Some c -> nth_error cs' i = Some (alone_n (steps_of i sched) sh0 c)).
  { clear sched. induction sched as [|j sched IH]; intros cs Hl Hro; cbn [run steps_of].
    - split; [reflexivity|]. split; [reflexivity|]. intros i c H. exact H.
    - destruct (nth_error cs j) as [cj|] eqn:Ej.
      + destruct (fst cj) as [|a rest] eqn:Ef.
        * (* client j has finished: idle step *)
          rewrite (step_client_nil sh0 cj Ef).
          rewrite (update_same _ _ _ Ej). specialize (IH cs Hl Hro). destruct (run sched sh0 cs) as [sh cs'].
          destruct IH as [H1 [H2 H3]]. split; [exact H1|]. split; [exact H2|].
          intros i c Hi. rewrite (H3 i c Hi). destruct (Nat.eqb_spec i j) as [->|NE]; [|reflexivity].
          cbn [Nat.add alone_n]. rewrite Hi in Ej. injection Ej as ->.
          rewrite (step_client_nil sh0 cj Ef). reflexivity.
        * assert (Ra : read_only a) by (apply (Hro j cj Ej); rewrite Ef; left; reflexivity).
          rewrite (step_client_cons sh0 cj a rest Ef). rewrite (Ra sh0 (snd cj)).
          set (l' := snd (a sh0 (snd cj))).
          assert (Hl' : length (update cs j (rest, l')) = length cs0) by (rewrite update_length; exact Hl).
          assert (Hro' : forall i c, nth_error (update cs j (rest, l')) i = Some c -> forall a0, In a0 (fst c) -> read_only a0).
          { intros i c Hi a0 Ha0. destruct (Nat.eq_dec j i) as [<-|NE].
            - rewrite nth_error_update_same in Hi by (apply nth_error_Some; congruence). injection Hi as <-.
              apply (Hro j cj Ej). rewrite Ef. right. exact Ha0.
            - rewrite nth_error_update_other in Hi by exact NE. apply (Hro i c Hi a0 Ha0). }
          specialize (IH _ Hl' Hro'). destruct (run sched sh0 (update cs j (rest, l'))) as [sh cs'].
          destruct IH as [H1 [H2 H3]]. split; [exact H1|]. split; [rewrite H2, update_length; reflexivity|].
          intros i c Hi. destruct (Nat.eqb_spec i j) as [->|NE].
          -- rewrite Hi in Ej. injection Ej as ->.
             rewrite (H3 j (rest, l')) by (apply nth_error_update_same; apply nth_error_Some; congruence).
             cbn [Nat.add alone_n]. rewrite (step_client_cons sh0 cj a rest Ef). reflexivity.
          -- rewrite (H3 i c) by (rewrite nth_error_update_other by (intros E; apply NE; symmetry; exact E); exact Hi).
             reflexivity.
      + specialize (IH cs Hl Hro). destruct (run sched sh0 cs) as [sh cs'].
        destruct IH as [H1 [H2 H3]]. split; [exact H1|]. split; [exact H2|].
        intros i c Hi. rewrite (H3 i c Hi). destruct (Nat.eqb_spec i j) as [->|NE]; [congruence|reflexivity]. }
  specialize (G sched cs0 eq_refl).
  assert (Hro0 : forall i c, nth_error cs0 i = Some c -> forall a, In a (fst c) -> read_only a).
  { intros i c Hi a Ha. apply (RO c a); [eapply nth_error_In; exact Hi|exact Ha]. }
  specialize (G Hro0). destruct (run sched sh0 cs0) as [sh cs]. exact G.
Qed.
End Interleave.
