From Coq Require Import List String Arith Bool Lia.
From GnarkV Require Import Base.Res Schema.Walk.
Import ListNotations.
Local Open Scope string_scope.
Local Close Scope list_scope.
Local Open Scope list_scope.

(* ---------------------------------------------------------------- witness order *)

(* the i-th wire allocated by the compiler and the i-th witness value belong to the same leaf *)
Theorem order_agree {A} (ls : list (leaf * A)) :
  map fst (filter (fun x => is_pub (fst x)) ls ++ filter (fun x => is_sec (fst x)) ls)%list = compile_order (map fst ls).
Proof.
  unfold compile_order. rewrite map_app. f_equal.
  - induction ls as [|[l a] ls IH]; cbn; [reflexivity|]. destruct (is_pub l); cbn; rewrite IH; reflexivity.
  - induction ls as [|[l a] ls IH]; cbn; [reflexivity|]. destruct (is_sec l); cbn; rewrite IH; reflexivity.
Qed.

Theorem witness_values_follow_wires {A} (ls : list (leaf * A)) :
  witness_vec false ls = map snd (filter (fun x => is_pub (fst x)) ls ++ filter (fun x => is_sec (fst x)) ls)%list.
Proof. unfold witness_vec. rewrite map_app. reflexivity. Qed.

(* the public-only witness is the public prefix of the full witness *)
Theorem public_is_prefix {A} (ls : list (leaf * A)) :
  witness_vec true ls = firstn (List.length (filter (fun x => is_pub (fst x)) ls)) (witness_vec false ls).
Proof.
  unfold witness_vec. rewrite app_nil_r.
  rewrite firstn_app, map_length, Nat.sub_diag. cbn [firstn]. rewrite app_nil_r.
  rewrite <- (map_length snd) at 1. rewrite firstn_all. reflexivity.
Qed.

(* every leaf is public or secret: nothing is dropped by the two passes *)
Lemma leaf_vis_not_unset p : leaf_vis p <> VUnset.
Proof. unfold leaf_vis. destruct (top_vis p); discriminate. Qed.

(* ---------------------------------------------------------------- bulk path = element-wise path *)

Lemma append_assoc (a b c : string) : ((a ++ b) ++ c = a ++ (b ++ c))%string.
Proof. induction a as [|ch a IH]; cbn; [reflexivity|rewrite IH; reflexivity]. Qed.

Lemma join_snoc l x : l <> [] -> join (l ++ [x])%list = (join l ++ "_" ++ x)%string.
Proof.
  induction l as [|a l IH]; [congruence|]. intros _. destruct l as [|b l].
  - reflexivity.
  - change (join ((a :: b :: l) ++ [x])%list) with (a ++ "_" ++ join ((b :: l) ++ [x])%list)%string.
    rewrite IH by discriminate. cbn [join]. rewrite <- !append_assoc. reflexivity.
Qed.

Lemma top_vis_snoc p n v : top_vis (p ++ [(n, v)])%list = v.
Proof. unfold top_vis. rewrite rev_app_distr. reflexivity. Qed.

Lemma leaf_vis_snoc_inherit p n : leaf_vis (p ++ [(n, top_vis p)])%list = leaf_vis p.
Proof. unfold leaf_vis. rewrite top_vis_snoc. reflexivity. Qed.

Lemma walk_seq_leaves p : p <> [] -> forall n i,
  (fix go (i : nat) (l : list shape) : res (list leaf) :=
     match l with
     | [] => Ok []
     | s' :: l' => do a <- walk (p ++ [(nat_str i, top_vis p)])%list s'; do b <- go (S i) l'; Ok (a ++ b)%list
     end) i (repeat SLeaf n)
  = Ok (map (fun i => ((path_name p ++ "_" ++ nat_str i)%string, leaf_vis p)) (seq i n)).
Proof.
  intros Hp. induction n as [|n IH]; intros i; cbn [repeat seq map]; [reflexivity|].
  cbn [walk bind]. rewrite IH. cbn [bind app]. f_equal. f_equal.
  unfold path_name. rewrite map_app. cbn [map fst].
  rewrite join_snoc by (destruct p; [congruence|discriminate]).
  rewrite leaf_vis_snoc_inherit. reflexivity.
Qed.

(* handleLeaves (the fast path for []Variable / [n]Variable) yields exactly the leaves, names and
   visibilities of the element-by-element walk, below any struct field *)
Theorem walk_bulk_eq p n : p <> [] -> walk p (SLeaves n) = walk p (SSeq (repeat SLeaf n)).
Proof. intros Hp. cbn [walk]. rewrite (walk_seq_leaves p Hp n 0). reflexivity. Qed.

Example bulk_path_nonvacuous :
  walk [("A", VPublic)] (SLeaves 3) = Ok [("A_0", VPublic); ("A_1", VPublic); ("A_2", VPublic)].
Proof. reflexivity. Qed.

Example walk_example :
  walk [] (SStruct [({| f_name := "X"; f_tagname := None; f_vis := TPublic; f_omit := false; f_anon := false |}, SLeaf);
                    ({| f_name := "S"; f_tagname := Some "s"; f_vis := TNone; f_omit := false; f_anon := false |},
                       SStruct [({| f_name := "Y"; f_tagname := None; f_vis := TNone; f_omit := false; f_anon := false |}, SLeaves 2);
                                ({| f_name := "Z"; f_tagname := None; f_vis := TNone; f_omit := true; f_anon := false |}, SLeaf)])])
  = Ok [("X", VPublic); ("s_Y_0", VSecret); ("s_Y_1", VSecret)].
Proof. reflexivity. Qed.

(* a visibility conflict below an explicit tag is an error *)
Example conflict_is_error :
  walk [] (SStruct [({| f_name := "P"; f_tagname := None; f_vis := TPublic; f_omit := false; f_anon := false |},
                       SStruct [({| f_name := "Q"; f_tagname := None; f_vis := TSecret; f_omit := false; f_anon := false |}, SLeaf)])])
  = Err EOther 0.
Proof. reflexivity. Qed.
