(* Model of frontend/schema (walk.go + internal/reflectwalk): the depth-first walk over a
   circuit / assignment value that yields the input leaves with their names and visibilities,
   and of how frontend.Compile (parseCircuit) and frontend.NewWitness use it.

   Shapes abstract Go values: [SLeaf] a frontend.Variable, [SLeaves n] a []Variable / [n]Variable
   (handled in bulk by handleLeaves), [SSeq] a slice or array of anything else, [SStruct] a struct
   with per-field header (name, parsed gnark tag, anonymous flag), [SPtr] pointers / interfaces
   holding a value, [SIgnored] ints, strings, maps, ...  Tag strings are parsed by the harness with
   the same rules (name before the first comma if valid, options public / secret, "-" omits). *)
From Coq Require Import List String Arith Bool.
From Coq Require Import DecimalString.
From GnarkV Require Import Base.Res.
Import ListNotations.
Local Open Scope string_scope.
Local Close Scope list_scope.
Local Open Scope list_scope.

Inductive vis := VUnset | VSecret | VPublic.
Inductive tagvis := TNone | TSecret | TPublic.      (* "inherit" and no option are both TNone *)

Record fieldhdr := { f_name : string; f_tagname : option string; f_vis : tagvis; f_omit : bool; f_anon : bool }.

Inductive shape :=
| SLeaf
| SLeaves (n : nat)
| SStruct (fs : list (fieldhdr * shape))
| SSeq (l : list shape)
| SPtr (s : shape)
| SIgnored.

Definition vis_eqb (a b : vis) : bool :=
  match a, b with VUnset, VUnset | VSecret, VSecret | VPublic, VPublic => true | _, _ => false end.

Definition path := list (string * vis).

Definition top_vis (p : path) : vis := match rev p with [] => VUnset | (_, v) :: _ => v end.

Fixpoint join (l : list string) : string :=
  match l with [] => "" | [x] => x | x :: l' => (x ++ "_" ++ join l')%string end.
Definition path_name (p : path) : string := join (map fst p).

Definition leaf_vis (p : path) : vis := match top_vis p with VUnset => VSecret | v => v end.

Definition nat_str (n : nat) : string := NilZero.string_of_uint (Nat.to_uint n).

Definition leaf := (string * vis)%type.

Section Walk.
(* nested recursion through the lists of fields / elements *)
Fixpoint walk (p : path) (s : shape) {struct s} : res (list leaf) :=
  match s with
  | SLeaf => Ok [(path_name p, leaf_vis p)]
  | SLeaves n => Ok (map (fun i => ((path_name p ++ "_" ++ nat_str i)%string, leaf_vis p)) (seq 0 n))
  | SIgnored => Ok []
  | SPtr s' => walk p s'
  | SSeq l =>
      (fix go (i : nat) (l : list shape) : res (list leaf) :=
         match l with
         | [] => Ok []
         | s' :: l' =>
             do a <- walk (p ++ [(nat_str i, top_vis p)]) s';
             do b <- go (S i) l';
             Ok (a ++ b)
         end) O l
  | SStruct fs =>
      (fix go (fs : list (fieldhdr * shape)) : res (list leaf) :=
         match fs with
         | [] => Ok []
         | (h, s') :: fs' =>
             if f_anon h then
               do a <- walk p s'; do b <- go fs'; Ok (a ++ b)
             else if f_omit h then go fs'
             else
               let parent := top_vis p in
               let v := match f_vis h with TSecret => VSecret | TPublic => VPublic | TNone => parent end in
               if negb (vis_eqb parent VUnset) && negb (vis_eqb parent v) then Err EOther O
               else
                 let nm := match f_tagname h with Some t => t | None => f_name h end in
                 do a <- walk (p ++ [(nm, v)]) s'; do b <- go fs'; Ok (a ++ b)
         end) fs
  end.
End Walk.

Definition is_pub (l : leaf) : bool := vis_eqb (snd l) VPublic.
Definition is_sec (l : leaf) : bool := vis_eqb (snd l) VSecret.

(* parseCircuit: one pass allocating the public leaves, then one pass for the secret leaves *)
Definition compile_order (ls : list leaf) : list leaf := filter is_pub ls ++ filter is_sec ls.

(* NewWitness: values of the public leaves, then (unless PublicOnly) of the secret leaves;
   an assignment pairs every leaf with its assigned value *)
Definition witness_vec {A} (public_only : bool) (ls : list (leaf * A)) : list A :=
  map snd (filter (fun x => is_pub (fst x)) ls) ++
  (if public_only then [] else map snd (filter (fun x => is_sec (fst x)) ls)).
