(* C07 correspondence: the walk model must reproduce the input names, visibilities and order
   observed in systems compiled from generated circuit types (or the error), and the witness
   codec model must reproduce the bytes written by the real encoder and decode them back. *)
From Coq Require Import ZArith List Bool String.
From GnarkV Require Import Base.Res Schema.Walk Codec.WitnessCodec.
Import ListNotations.

(* (shape, observed error?, observed public names, observed secret names) *)
Definition wcase := (shape * bool * list string * list string)%type.

Fixpoint strs_eqb (a b : list string) : bool :=
  match a, b with
  | [], [] => true
  | x :: a', y :: b' => String.eqb x y && strs_eqb a' b'
  | _, _ => false
  end.

Definition walk_check (c : wcase) : bool :=
  let '(s, err, pubs, secs) := c in
  match walk [] s with
  | Ok ls =>
      match ls with
      | [] => true     (* no input at all: the compiler's verdict on empty circuits is not part of the model *)
      | _ => negb err && strs_eqb (map fst (filter is_pub ls)) pubs && strs_eqb (map fst (filter is_sec ls)) secs
      end
  | _ => err
  end.

Fixpoint walk_mismatches (k : nat) (cs : list wcase) : list nat :=
  match cs with
  | [] => []
  | c :: cs' => if walk_check c then walk_mismatches (S k) cs' else k :: walk_mismatches (S k) cs'
  end.

(* (element width in bytes, nbPublic, nbSecret, vector, observed bytes) *)
Definition ccase := (nat * Z * Z * list Z * list Z)%type.

Fixpoint zl_eqb (a b : list Z) : bool :=
  match a, b with
  | [], [] => true
  | x :: a', y :: b' => Z.eqb x y && zl_eqb a' b'
  | _, _ => false
  end.

Definition codec_check (c : ccase) : bool :=
  let '(w, np, ns, v, bytes) := c in
  zl_eqb (encode w np ns v) bytes &&
  match decode w bytes with
  | Some (np', ns', v', n) => Z.eqb np np' && Z.eqb ns ns' && zl_eqb v v' && Nat.eqb n (List.length bytes)
  | None => false
  end.

Fixpoint codec_mismatches (k : nat) (cs : list ccase) : list nat :=
  match cs with
  | [] => []
  | c :: cs' => if codec_check c then codec_mismatches (S k) cs' else k :: codec_mismatches (S k) cs'
  end.
