(* Model of gnark's constraint solver (constraint/<curve>/solver.go, blueprint_r1cs.go,
   blueprint_scs.go, blueprint_hint.go), generic in the field.

   - solveR1C            -> [step_r1c]
   - BlueprintGenericSparseR1C.Solve / checkConstraint -> [step_sparse]
   - BlueprintSparseR1CMul/Add/Bool.Solve              -> [step_mul] [step_add] [step_bool]
   - solveWithHint (hint functions = oracle)           -> [step_hint]
   - run (levels, sequential order) + final count check -> [run_order] / [solve]
   - evaluateLROSmallDomain                             -> [lro]

   Coefficients are modelled by their values (the id->value table is resolved by the
   harness from the exported table; ids 0..4 are the reserved constants).  A coefficient whose
   value is 0 always has id 0 in a compiled system, which is what makes the value-level
   reading of the [cID != 0] tests in computeTerm/divByCoeff exact. *)
From Coq Require Import Arith List Bool.
From GnarkV Require Import Base.Res.
Import ListNotations.

Section Solver.
Variable F : Type.
Variables (zero one : F) (add mul sub : F -> F -> F) (opp : F -> F) (div : F -> F -> F) (inv : F -> F).
Variable eq_dec : forall x y : F, {x = y} + {x <> y}.
(* a field element read as a table index (Solver.Uint64): None when it does not fit *)
Variable idx_of : F -> option nat.
Notation "0" := zero. Notation "1" := one.
Infix "+" := add. Infix "*" := mul. Infix "-" := sub. Infix "/" := div.

Definition term := (F * nat)%type.            (* coefficient value, wire *)
Definition lexp := list term.
Definition hterm := (F * option nat)%type.    (* hint inputs may contain constant terms *)
Definition hlexp := list hterm.
Definition vals := nat -> option F.

(* a hint oracle: (hint id, evaluated inputs) -> outputs, or failure *)
Definition oracle := nat -> nat -> list F -> option (list F * bool).  (* hint id, nb outputs, inputs |-> outputs, ok? *)

Inductive instr :=
| IR1C (cid : nat) (l r o : lexp)
| ISparse (cid : nat) (xa xb xc : nat) (ql qr qo qm qc : F) (commit : bool)
| IMul (cid : nat) (xa xb xc : nat) (qm : F)
| IAdd (cid : nat) (xa xb xc : nat) (ql qr qc : F)
| IBool (cid : nat) (xa : nat) (ql qm : F)
| IHint (hid : nat) (ins : list hlexp) (start : nat) (nout : nat)
(* BlueprintLookupHint: the first [length entries] entries of the table, the queries, the first output wire *)
| ILookup (entries : list hlexp) (ins : list hlexp) (start : nat).

Definition set (v : vals) (x : nat) (y : F) : vals := fun z => if Nat.eqb z x then Some y else v z.

(* solver.set panics on a wire that is already solved *)
Definition set_once (v : vals) (x : nat) (y : F) : res vals :=
  match v x with Some _ => Panic | None => Ok (set v x y) end.

(* ---------------------------------------------------------------- R1CS *)

(* processLExp: accumulate solved terms, collect the unsolved ones *)
Fixpoint scan (v : vals) (l : lexp) : F * list term :=
  match l with
  | [] => (0, [])
  | (k, x) :: l' =>
      let '(acc, us) := scan v l' in
      match v x with Some y => (k * y + acc, us) | None => (acc, (k, x) :: us) end
  end.

Definition step_r1c (i : nat) (v : vals) (l r o : lexp) : res vals :=
  let '(a, ua) := scan v l in
  let '(b, ub) := scan v r in
  let '(c, uo) := scan v o in
  match ua, ub, uo with
  | [], [], [] => if eq_dec (a * b) c then Ok v else Err EUnsat i
  | [(k, x)], [], [] =>
      if eq_dec k 0 then Panic else
      if eq_dec b 0 then (if eq_dec (a * b) c then Ok (set v x 0) else Err EUnsat i)
      else Ok (set v x ((c / b - a) / k))
  | [], [(k, x)], [] =>
      if eq_dec k 0 then Panic else
      if eq_dec a 0 then (if eq_dec (a * b) c then Ok (set v x 0) else Err EUnsat i)
      else Ok (set v x ((c / a - b) / k))
  | [], [], [(k, x)] =>
      if eq_dec k 0 then Panic else Ok (set v x ((a * b - c) / k))
  | _, _, _ => Panic    (* "found more than one wire to instantiate" *)
  end.

(* ---------------------------------------------------------------- sparse R1CS *)

(* Solver.GetValue(cID, vID) = computeTerm: zero coefficient never reads the wire,
   otherwise an unsolved wire panics *)
Definition getv (v : vals) (q : F) (x : nat) : res F :=
  if eq_dec q 0 then Ok 0 else
  match v x with Some y => Ok (q * y) | None => Panic end.

Definition solved (v : vals) (x : nat) : bool := match v x with Some _ => true | None => false end.

Definition check_sparse (i : nat) (v : vals) (xa xb xc : nat) (ql qr qo qm qc : F) : res vals :=
  do l <- getv v ql xa;
  do r <- getv v qr xb;
  do m0 <- getv v qm xa;
  do m1 <- getv v 1 xb;
  do o <- getv v qo xc;
  if eq_dec (m0 * m1 + l + r + o + qc) 0 then Ok v else Err EUnsat i.

Definition step_sparse (i : nat) (v : vals) (xa xb xc : nat) (ql qr qo qm qc : F) (commit : bool) : res vals :=
  if commit then Ok v else
  if negb (solved v xa) then
    do d <- getv v qm xb;
    let den := d + ql in
    do v1 <- getv v qr xb;
    do v2 <- getv v qo xc;
    let num := v1 + v2 + qc in
    (* zero coefficient of the unsolved wire: the gate holds for any value iff the rest vanishes *)
    if eq_dec den 0 then (if eq_dec num 0 then set_once v xa 0 else Err EDivZero i) else
    set_once v xa (opp (num * inv den))
  else if negb (solved v xb) then
    do d <- getv v qm xa;
    let den := d + qr in
    do v1 <- getv v ql xa;
    do v2 <- getv v qo xc;
    let num := v1 + v2 + qc in
    if eq_dec den 0 then (if eq_dec num 0 then set_once v xb 0 else Err EDivZero i) else
    set_once v xb (opp (num * inv den))
  else if negb (solved v xc) then
    do l <- getv v ql xa;
    do r <- getv v qr xb;
    do m0 <- getv v qm xa;
    do m1 <- getv v 1 xb;
    let num := m0 * m1 + l + r + qc in
    if eq_dec qo 0 then (if eq_dec num 0 then set_once v xc 0 else Err EDivZero i) else
    set_once v xc (opp (num * inv qo))
  else check_sparse i v xa xb xc ql qr qo qm qc.

Definition step_mul (v : vals) (xa xb xc : nat) (qm : F) : res vals :=
  do m0 <- getv v qm xa;
  do m1 <- getv v 1 xb;
  set_once v xc (m0 * m1).

Definition step_add (v : vals) (xa xb xc : nat) (ql qr qc : F) : res vals :=
  do a <- getv v ql xa;
  do b <- getv v qr xb;
  set_once v xc (a + b + qc).

Definition step_bool (i : nat) (v : vals) (xa : nat) (ql qm : F) : res vals :=
  do v1 <- getv v ql xa;
  do v2 <- getv v qm xa;
  do x <- getv v 1 xa;
  if eq_dec (v1 + x * v2) 0 then Ok v else Err EBool i.

(* ---------------------------------------------------------------- hints *)

Fixpoint hev (v : vals) (l : hlexp) : res F :=
  match l with
  | [] => Ok 0
  | (k, None) :: l' => do r <- hev v l'; Ok (k + r)
  | (k, Some x) :: l' =>
      match v x with
      | Some y => do r <- hev v l'; Ok (k * y + r)
      | None => Panic
      end
  end.

Fixpoint hev_all (v : vals) (ls : list hlexp) : res (list F) :=
  match ls with
  | [] => Ok []
  | l :: ls' => do x <- hev v l; do xs <- hev_all v ls'; Ok (x :: xs)
  end.

Fixpoint set_range (v : vals) (start : nat) (outs : list F) : res vals :=
  match outs with
  | [] => Ok v
  | y :: outs' => do v' <- set_once v start y; set_range v' (S start) outs'
  end.

Definition step_hint (orc : oracle) (i : nat) (v : vals) (hid : nat) (ins : list hlexp) (start nout : nat) : res vals :=
  do xs <- hev_all v ins;
  match orc hid nout xs with
  | None => Err EOther i                      (* the oracle has no entry: inputs differ from the recorded run *)
  | Some (outs, ok) =>
      if negb (Nat.eqb (length outs) nout) then Err EOther i else
      do v' <- set_range v start outs;
      if ok then Ok v' else Err EHint i
  end.

(* lookup table instruction: output i := entries[ins_i]; a query outside the table is an error *)
Fixpoint lookup_all (es : list F) (qs : list F) : option (list F) :=
  match qs with
  | [] => Some []
  | q :: qs' =>
      match idx_of q with
      | None => None
      | Some i => match nth_error es i, lookup_all es qs' with
                  | Some e, Some r => Some (e :: r)
                  | _, _ => None
                  end
      end
  end.

Definition step_lookup (i : nat) (v : vals) (entries ins : list hlexp) (start : nat) : res vals :=
  do es <- hev_all v entries;
  do qs <- hev_all v ins;
  match lookup_all es qs with
  | None => Err EOther i
  | Some outs => set_range v start outs
  end.

(* ---------------------------------------------------------------- driver *)

Definition step (orc : oracle) (i : nat) (v : vals) (ins : instr) : res vals :=
  match ins with
  | IR1C cid l r o => step_r1c cid v l r o
  | ISparse cid xa xb xc ql qr qo qm qc cm => step_sparse cid v xa xb xc ql qr qo qm qc cm
  | IMul _ xa xb xc qm => step_mul v xa xb xc qm
  | IAdd _ xa xb xc ql qr qc => step_add v xa xb xc ql qr qc
  | IBool cid xa ql qm => step_bool cid v xa ql qm
  | IHint hid ins start nout => step_hint orc i v hid ins start nout
  | ILookup entries ins start => step_lookup i v entries ins start
  end.

Fixpoint run (orc : oracle) (v : vals) (prog : list (nat * instr)) : res vals :=
  match prog with
  | [] => Ok v
  | (i, ins) :: prog' => do v' <- step orc i v ins; run orc v' prog'
  end.

(* the instruction list reordered by the flattened level lists; an index outside the table panics *)
Fixpoint pick (instrs : list instr) (order : list nat) : option (list (nat * instr)) :=
  match order with
  | [] => Some []
  | i :: order' =>
      match nth_error instrs i, pick instrs order' with
      | Some ins, Some rest => Some ((i, ins) :: rest)
      | _, _ => None
      end
  end.

Fixpoint all_solved (v : vals) (n : nat) : bool :=
  match n with O => true | S n' => solved v n' && all_solved v n' end.

(* initial values: for R1CS wire 0 is the constant ONE, then the witness *)
Fixpoint init_from (k : nat) (w : list F) : vals :=
  match w with
  | [] => fun _ => None
  | y :: w' => set (init_from (S k) w') k y
  end.

Definition init_vals (is_r1cs : bool) (w : list F) : vals :=
  if is_r1cs then init_from O (1 :: w) else init_from O w.

Definition solve (orc : oracle) (is_r1cs : bool) (nb_wires : nat) (instrs : list instr)
           (order : list nat) (w : list F) : res vals :=
  match pick instrs order with
  | None => Panic
  | Some prog =>
      do v <- run orc (init_vals is_r1cs w) prog;
      if all_solved v nb_wires then Ok v else Err ENotAllSolved O
  end.

Definition dump (v : vals) (n : nat) : list (option F) := map v (seq O n).

(* ---------------------------------------------------------------- semantics of constraints *)

Definition val_or0 (v : vals) (x : nat) : F := match v x with Some y => y | None => 0 end.

Fixpoint ev (v : vals) (l : lexp) : F :=
  match l with [] => 0 | (k, x) :: l' => k * val_or0 v x + ev v l' end.

Definition solved_in (v : vals) (l : lexp) : Prop := forall k x, In (k, x) l -> v x <> None.

Definition holds_r1c (v : vals) (l r o : lexp) : Prop :=
  solved_in v l /\ solved_in v r /\ solved_in v o /\ ev v l * ev v r = ev v o.

Definition sparse_eq (v : vals) (xa xb xc : nat) (ql qr qo qm qc : F) : Prop :=
  ql * val_or0 v xa + qr * val_or0 v xb + qo * val_or0 v xc
  + qm * (val_or0 v xa * val_or0 v xb) + qc = 0.

(* a gate "uses" a wire when its coefficient is non-zero; used wires must be solved *)
Definition uses (q : F) (v : vals) (x : nat) : Prop := q <> 0 -> v x <> None.

Definition holds_sparse (v : vals) (xa xb xc : nat) (ql qr qo qm qc : F) : Prop :=
  uses ql v xa /\ uses qr v xb /\ uses qo v xc /\ uses qm v xa /\ uses qm v xb /\
  sparse_eq v xa xb xc ql qr qo qm qc.

Definition holds (v : vals) (ins : instr) : Prop :=
  match ins with
  | IR1C _ l r o => holds_r1c v l r o
  | ISparse _ xa xb xc ql qr qo qm qc cm =>
      if cm then True else holds_sparse v xa xb xc ql qr qo qm qc
  | IMul _ xa xb xc qm => holds_sparse v xa xb xc 0 0 (opp 1) qm 0
  | IAdd _ xa xb xc ql qr qc => holds_sparse v xa xb xc ql qr (opp 1) 0 qc
  | IBool _ xa ql qm => holds_sparse v xa xa xa ql 0 0 qm 0
  | IHint _ _ _ _ => True
  | ILookup _ _ _ => True
  end.

Definition extends (v v' : vals) : Prop := forall x y, v x = Some y -> v' x = Some y.

(* LRO vectors of the sparse solution (evaluateLROSmallDomain) *)
Definition gate_wires (ins : instr) : option (nat * nat * nat) :=
  match ins with
  | ISparse _ xa xb xc _ _ _ _ _ _ => Some (xa, xb, xc)
  | IMul _ xa xb xc _ => Some (xa, xb, xc)
  | IAdd _ xa xb xc _ _ _ => Some (xa, xb, xc)
  | IBool _ xa _ _ => Some (xa, xa, O)
  | _ => None
  end.

Fixpoint gates (instrs : list instr) : list (nat * nat * nat) :=
  match instrs with
  | [] => []
  | ins :: r => match gate_wires ins with Some g => g :: gates r | None => gates r end
  end.

(* positions -> wire ids: placeholders (L = public i, R = O = wire 0), gates, padding (wire 0) *)
Definition lro_wires (nb_pub size : nat) (instrs : list instr) : list nat * list nat * list nat :=
  let g := gates instrs in
  let pad := Nat.sub size (Nat.add nb_pub (length g)) in
  (seq O nb_pub ++ map (fun t => fst (fst t)) g ++ repeat O pad,
   repeat O nb_pub ++ map (fun t => snd (fst t)) g ++ repeat O pad,
   repeat O nb_pub ++ map (fun t => snd t) g ++ repeat O pad).

Definition lro (v : vals) (nb_pub size : nat) (instrs : list instr) : list F * list F * list F :=
  let '(l, r, o) := lro_wires nb_pub size instrs in
  (map (val_or0 v) l, map (val_or0 v) r, map (val_or0 v) o).

End Solver.
