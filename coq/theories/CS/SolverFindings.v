(* Finding F5 (C04/C06), fixed in the repository ("fix: sparse solver: zero coefficient of the
   unsolved wire"): before the repair the sparse solver reported "division by 0" for a gate whose
   denominator vanishes although the gate is satisfiable (DivUnchecked(0,0): 0*x = 0).  The model
   follows the repaired code; the former counterexample now solves, by computation over F_47. *)
From Coq Require Import ZArith List Bool.
From GnarkV Require Import Base.Res Base.Zp Base.F47 CS.Solver.
Import ListNotations.
Local Open Scope Z_scope.

Definition step47 := step Z 0 1 (addp p47) (mulp p47) (subp p47) (oppp p47) (divp p47) (invp p47) Z.eq_dec (fun z => Some (Z.to_nat z)).

(* DivUnchecked(a, b) in the sparse builder: gate  1*(res*b) + (-1)*a = 0, res unsolved *)
Definition f5_gate : instr Z := ISparse Z 0%nat 2%nat 0%nat 1%nat 0 0 46 1 0 false.
Definition f5_vals : vals Z := init_from Z 0%nat [0; 0].      (* b = 0, a = 0 *)

Example f5_divunchecked_0_0_solves :
  match step47 (fun _ _ _ => None) 0%nat f5_vals f5_gate with
  | Ok v => v 2%nat = Some 0
  | _ => False
  end.
Proof. vm_compute. reflexivity. Qed.
