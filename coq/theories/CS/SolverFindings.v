(* Finding F5 (C04/C06): the sparse solver reports "division by 0" for a gate whose
   denominator vanishes although the gate is satisfiable (DivUnchecked(0,0): 0*x = 0).
   The model is faithful to the code, so the failure clause of C06 is refuted for the
   EDivZero error class, by computation over F_47. *)
From Coq Require Import ZArith List Bool.
From GnarkV Require Import Base.Res Base.Zp Base.F47 CS.Solver.
Import ListNotations.
Local Open Scope Z_scope.


Definition step47 := step Z 0 1 (addp p47) (mulp p47) (subp p47) (oppp p47) (divp p47) (invp p47) Z.eq_dec.
Definition holds47 := holds Z 0 1 (addp p47) (mulp p47) (oppp p47).

(* DivUnchecked(a, b) in the sparse builder: gate  1*(res*b) + (-1)*a = 0, res unsolved *)
Definition f5_gate : instr Z := ISparse Z 0%nat 2%nat 0%nat 1%nat 0 0 46 1 0 false.
Definition f5_vals : vals Z := init_from Z 0%nat [0; 0].      (* b = 0, a = 0 *)
Definition f5_completion : vals Z := set Z f5_vals 2%nat 0.

Lemma f5_extends : extends Z f5_vals f5_completion.
Proof.
  intros x y. unfold f5_completion, set. destruct x as [|[|[|x]]]; cbn; try discriminate; auto.
Qed.

Theorem sparse_divzero_not_violated_refuted :
  exists v ins v', step47 (fun _ _ _ => None) 0%nat v ins = Err EDivZero 0%nat /\
                   extends Z v v' /\ holds47 v' ins.
Proof.
  exists f5_vals, f5_gate, f5_completion. split; [vm_compute; reflexivity|]. split; [exact f5_extends|].
  cbn. unfold holds_sparse, uses, sparse_eq. cbn. repeat split; intros; try discriminate; try congruence.
Qed.
