(* A verified complete enumerator of the satisfying assignments of a constraint system over a
   finite field (used over F_47, C05): starting from values for the input wires it returns
   *every* way of extending them that satisfies all constraints — hint outputs and any other
   internal wire are free choices of a dishonest prover, not computed by hint functions.

   [satb w ins]      : constraint [ins] holds under the total assignment [w]  (the semantics)
   [enum fuel v is]  : Some (list of partial assignments), or None when the system is not of the
                       shape the enumerator handles (an instruction with two unassigned wires and
                       nothing else ready)
   [enum_sound]      : every returned assignment makes every constraint hold, whatever the
                       unassigned wires are
   [enum_complete]   : every total satisfying assignment that agrees with the inputs agrees with
                       one of the returned assignments.
   No field axiom is needed: the enumerator tries every field element for the single unassigned
   wire of a ready constraint. *)
From Coq Require Import Arith List Bool Lia Field.
From GnarkV Require Import Base.Res CS.Solver.
Import ListNotations.

Section Enum.
Variable F : Type.
Variables (zero one : F) (add mul sub : F -> F -> F) (opp : F -> F) (div : F -> F -> F) (inv : F -> F).
Hypothesis Fth : field_theory zero one add mul sub opp div inv (@eq F).
Add Field Ffe : Fth.
Variable eq_dec : forall x y : F, {x = y} + {x <> y}.
Variable elems : list F.
Hypothesis elems_complete : forall x : F, In x elems.

Notation "0" := zero. Notation "1" := one.
Infix "+" := add. Infix "*" := mul.

Definition total := nat -> F.

Fixpoint evt (w : total) (l : lexp F) : F :=
  match l with [] => 0 | (k, x) :: l' => k * w x + evt w l' end.

Definition feqb (a b : F) : bool := if eq_dec a b then true else false.

Definition sparse_b (w : total) (xa xb xc : nat) (ql qr qo qm qc : F) : bool :=
  feqb (ql * w xa + qr * w xb + qo * w xc + qm * (w xa * w xb) + qc) 0.

Definition satb (w : total) (ins : instr F) : bool :=
  match ins with
  | IR1C _ _ l r o => feqb (evt w l * evt w r) (evt w o)
  | ISparse _ _ xa xb xc ql qr qo qm qc cm => if cm then true else sparse_b w xa xb xc ql qr qo qm qc
  | IMul _ _ xa xb xc qm => sparse_b w xa xb xc 0 0 (opp 1) qm 0
  | IAdd _ _ xa xb xc ql qr qc => sparse_b w xa xb xc ql qr (opp 1) 0 qc
  | IBool _ _ xa ql qm => sparse_b w xa xa xa ql 0 0 qm 0
  | IHint _ _ _ _ _ => true
  | ILookup _ _ _ _ => true
  end.

Definition lexp_wires (l : lexp F) : list nat := map snd l.

(* a wire slot of a sparse gate matters only if one of its coefficients is non-zero *)
Definition nz (q : F) : bool := if eq_dec q 0 then false else true.
Definition sparse_wires (xa xb xc : nat) (ql qr qo qm : F) : list nat :=
  (if nz ql || nz qm then [xa] else []) ++ (if nz qr || nz qm then [xb] else []) ++ (if nz qo then [xc] else []).

Definition wires_of (ins : instr F) : list nat :=
  match ins with
  | IR1C _ _ l r o => lexp_wires l ++ lexp_wires r ++ lexp_wires o
  | ISparse _ _ xa xb xc ql qr qo qm _ cm => if cm then [] else sparse_wires xa xb xc ql qr qo qm
  | IMul _ _ xa xb xc qm => sparse_wires xa xb xc 0 0 (opp 1) qm
  | IAdd _ _ xa xb xc ql qr _ => sparse_wires xa xb xc ql qr (opp 1) 0
  | IBool _ _ xa ql qm => sparse_wires xa xa xa ql 0 0 qm
  | IHint _ _ _ _ _ => []
  | ILookup _ _ _ _ => []
  end.

Definition agree_on (ws : list nat) (w w' : total) : Prop := forall x, In x ws -> w x = w' x.

Lemma evt_agree w w' l : agree_on (lexp_wires l) w w' -> evt w l = evt w' l.
Proof.
  induction l as [|[k x] l IH]; intros A; cbn [evt]; [reflexivity|].
  rewrite (A x) by (left; reflexivity). rewrite IH; [reflexivity|].
  intros y Hy. apply A. right. exact Hy.
Qed.

Lemma sparse_b_agree w w' xa xb xc ql qr qo qm qc :
  agree_on (sparse_wires xa xb xc ql qr qo qm) w w' ->
  sparse_b w xa xb xc ql qr qo qm qc = sparse_b w' xa xb xc ql qr qo qm qc.
Proof.
  unfold sparse_wires, sparse_b, nz. intros A. f_equal.
  destruct (eq_dec ql 0) as [El|Nl]; destruct (eq_dec qr 0) as [Er|Nr]; destruct (eq_dec qo 0) as [Eo|No];
    destruct (eq_dec qm 0) as [Em|Nm]; cbn [orb app] in A;
    try rewrite El; try rewrite Er; try rewrite Eo; try rewrite Em;
    repeat match goal with
    | |- context [w ?x] =>
        match type of A with
        | agree_on ?l _ _ => let H := fresh in assert (H : In x l) by (cbn; auto); rewrite (A x H); clear H
        end
    end; ring.
Qed.

Lemma satb_agree w w' ins : agree_on (wires_of ins) w w' -> satb w ins = satb w' ins.
Proof.
  destruct ins as [cid l r o|cid xa xb xc ql qr qo qm qc cm|cid xa xb xc qm|cid xa xb xc ql qr qc|cid xa ql qm|hid ins start nout|entries ins start];
    cbn [satb wires_of]; intros A; try reflexivity.
  - rewrite (evt_agree w w' l), (evt_agree w w' r), (evt_agree w w' o); [reflexivity| | |];
      intros x Hx; apply A; rewrite !in_app_iff; auto.
  - destruct cm; [reflexivity|]. apply sparse_b_agree; exact A.
  - apply sparse_b_agree; exact A.
  - apply sparse_b_agree; exact A.
  - apply sparse_b_agree; exact A.
Qed.

(* ------------------------------------------------------------ partial assignments *)

Notation vals := (vals F).
Definition tot (v : vals) : total := fun x => match v x with Some y => y | None => 0 end.
Definition agrees (v : vals) (w : total) : Prop := forall x y, v x = Some y -> w x = y.

Fixpoint nodup_nat (l : list nat) : list nat :=
  match l with
  | [] => []
  | x :: l' => if existsb (Nat.eqb x) l' then nodup_nat l' else x :: nodup_nat l'
  end.

Lemma nodup_nat_in x l : In x (nodup_nat l) <-> In x l.
Proof.
  induction l as [|y l IH]; cbn [nodup_nat In]; [tauto|].
  destruct (existsb (Nat.eqb y) l) eqn:E.
  - rewrite IH. split; [auto|]. intros [->|H]; [|exact H].
    apply existsb_exists in E. destruct E as [z [Hz Ez]]. apply Nat.eqb_eq in Ez. subst. exact Hz.
  - cbn [In]. rewrite IH. tauto.
Qed.

Definition unassigned (v : vals) (ins : instr F) : list nat :=
  nodup_nat (filter (fun x => negb (solved F v x)) (wires_of ins)).

Lemma unassigned_spec v ins x : In x (unassigned v ins) <-> In x (wires_of ins) /\ v x = None.
Proof.
  unfold unassigned. rewrite nodup_nat_in, filter_In. unfold solved.
  destruct (v x); cbn; split; intros [H1 H2]; split; auto; discriminate.
Qed.

(* all ways of satisfying one ready instruction *)
Definition branch (v : vals) (ins : instr F) : option (list vals) :=
  match unassigned v ins with
  | [] => Some (if satb (tot v) ins then [v] else [])
  | [x] => Some (filter (fun v' => satb (tot v') ins) (map (set F v x) elems))
  | _ => None
  end.

(* pick the first ready instruction of the pending list *)
Fixpoint pick_ready (v : vals) (pending : list (instr F)) : option (instr F * list vals * list (instr F)) :=
  match pending with
  | [] => None
  | ins :: rest =>
      match branch v ins with
      | Some vs => Some (ins, vs, rest)
      | None =>
          match pick_ready v rest with
          | Some (i, vs, rest') => Some (i, vs, ins :: rest')
          | None => None
          end
      end
  end.

Definition gather (f : vals -> option (list vals)) (vs : list vals) : option (list vals) :=
  fold_right (fun v' acc => match f v', acc with Some r, Some a => Some (r ++ a) | _, _ => None end) (Some []) vs.

(* first wire of a pending instruction that has no value yet *)
Fixpoint first_unassigned (v : vals) (pending : list (instr F)) : option nat :=
  match pending with
  | [] => None
  | ins :: rest => match unassigned v ins with x :: _ => Some x | [] => first_unassigned v rest end
  end.

(* When some instruction has at most one unassigned wire it is consumed (all its solutions);
   otherwise an unassigned wire is chosen and every field element is tried for it (free choices of
   the prover, e.g. hint outputs).  [None] only when the fuel is exhausted. *)
Fixpoint enum (fuel : nat) (v : vals) (pending : list (instr F)) : option (list vals) :=
  match pending with
  | [] => Some [v]
  | _ =>
    match fuel with
    | O => None
    | S fuel' =>
        match pick_ready v pending with
        | Some (_, vs, rest) => gather (fun v' => enum fuel' v' rest) vs
        | None =>
            match first_unassigned v pending with
            | Some x => gather (fun v' => enum fuel' v' pending) (map (set F v x) elems)
            | None => None
            end
        end
    end
  end.

(* ------------------------------------------------------------ correctness *)

Definition all_sat (w : total) (is : list (instr F)) : Prop := forall ins, In ins is -> satb w ins = true.

Lemma agrees_tot_on v w ws : agrees v w -> (forall x, In x ws -> v x <> None) -> agree_on ws (tot v) w.
Proof.
  intros A S x Hx. unfold tot. destruct (v x) as [y|] eqn:E; [symmetry; apply A; exact E|exfalso; apply (S x Hx E)].
Qed.

Lemma agrees_set v w x : v x = None -> agrees v w -> agrees (set F v x (w x)) w.
Proof.
  intros Hn A z y. unfold set. destruct (Nat.eqb z x) eqn:E.
  - apply Nat.eqb_eq in E. subst. intros H; injection H as <-. reflexivity.
  - apply A.
Qed.

Lemma agrees_ext v v' w : extends F v v' -> agrees v' w -> agrees v w.
Proof. intros He A x y H. apply A, He, H. Qed.

Lemma extends_set' (v : vals) x y : v x = None -> extends F v (set F v x y).
Proof.
  intros Hn z w Hz. unfold set. destruct (Nat.eqb z x) eqn:E; [apply Nat.eqb_eq in E; subst; congruence|exact Hz].
Qed.

Lemma extends_trans' (a b c : vals) : extends F a b -> extends F b c -> extends F a c.
Proof. intros H1 H2 x y H. apply H2, H1, H. Qed.

(* branch: sound and complete for one instruction *)
Lemma branch_spec v ins vs : branch v ins = Some vs ->
  (forall v', In v' vs -> extends F v v' /\ (forall x, In x (wires_of ins) -> v' x <> None) /\ satb (tot v') ins = true) /\
  (forall w, agrees v w -> satb w ins = true -> exists v', In v' vs /\ agrees v' w).
Proof.
  unfold branch. destruct (unassigned v ins) as [|x [|x' rest]] eqn:U; [| |discriminate].
  - (* all wires assigned *)
    assert (S : forall x, In x (wires_of ins) -> v x <> None).
    { intros x Hx Hn. assert (In x (unassigned v ins)) by (apply unassigned_spec; split; assumption). rewrite U in H. exact H. }
    intros H; injection H as <-. split.
    + intros v' Hin. destruct (satb (tot v) ins) eqn:E; [|contradiction]. destruct Hin as [<-|[]].
      split; [intros x y H; exact H|]. split; [exact S|exact E].
    + intros w A Hs. rewrite <- (satb_agree (tot v) w ins (agrees_tot_on v w _ A S)) in Hs. rewrite Hs.
      exists v. split; [left; reflexivity|exact A].
  - (* one unassigned wire *)
    assert (Hx : In x (wires_of ins) /\ v x = None) by (apply unassigned_spec; rewrite U; left; reflexivity).
    destruct Hx as [Hxw Hxn].
    assert (S : forall y, forall z, In z (wires_of ins) -> set F v x y z <> None).
    { intros y z Hz. unfold set. destruct (Nat.eqb z x) eqn:E; [discriminate|].
      intros Hn. assert (Hin : In z (unassigned v ins)) by (apply unassigned_spec; split; assumption).
      rewrite U in Hin. destruct Hin as [->|[]]. rewrite Nat.eqb_refl in E. discriminate. }
    intros H; injection H as <-. split.
    + intros v' Hin. apply filter_In in Hin. destruct Hin as [Hin Hs].
      apply in_map_iff in Hin. destruct Hin as [y [<- _]].
      split; [apply extends_set'; exact Hxn|]. split; [apply S|exact Hs].
    + intros w A Hs. exists (set F v x (w x)).
      assert (A' : agrees (set F v x (w x)) w) by (apply agrees_set; assumption).
      split; [|exact A'].
      apply filter_In. split; [apply in_map; apply elems_complete|].
      rewrite (satb_agree _ w ins (agrees_tot_on _ w _ A' (S (w x)))). exact Hs.
Qed.

Lemma pick_ready_spec v pending ins vs rest : pick_ready v pending = Some (ins, vs, rest) ->
  branch v ins = Some vs /\ (forall i, In i pending <-> i = ins \/ In i rest) /\ length pending = S (length rest).
Proof.
  revert ins vs rest. induction pending as [|i0 pending IH]; intros ins vs rest H; cbn [pick_ready] in H; [discriminate|].
  destruct (branch v i0) as [vs0|] eqn:B.
  - injection H as <- <- <-. split; [exact B|]. split; [intros i; cbn; split; intros [E|E]; auto|reflexivity].
  - destruct (pick_ready v pending) as [[[i1 vs1] rest1]|] eqn:P; [|discriminate]. injection H as <- <- <-.
    destruct (IH _ _ _ eq_refl) as [B1 [M L]]. split; [exact B1|]. split.
    + intros i. cbn [In]. rewrite M. tauto.
    + cbn [length]. rewrite L. reflexivity.
Qed.

Lemma fold_some_spec (f : vals -> option (list vals)) vs out :
  gather f vs = Some out ->
  (forall v', In v' vs -> exists r, f v' = Some r) /\
  (forall u, In u out <-> exists v' r, In v' vs /\ f v' = Some r /\ In u r).
Proof.
  unfold gather. revert out. induction vs as [|v0 vs IH]; intros out H; cbn [fold_right] in H.
  - injection H as <-. split; [intros ? []|]. intros u; split; [intros []|intros (? & ? & [] & _)].
  - destruct (f v0) as [r0|] eqn:E0; [|discriminate].
    destruct (fold_right _ _ vs) as [a|] eqn:Ea; [|discriminate]. injection H as <-.
    destruct (IH a eq_refl) as [IH1 IH2]. split.
    + intros v' [<-|Hin]; [eexists; exact E0|apply IH1; exact Hin].
    + intros u. rewrite in_app_iff, IH2. split.
      * intros [Hu|(v' & r & Hv & Hf & Hu)]; [exists v0, r0; cbn; auto|exists v', r; cbn; auto].
      * intros (v' & r & [<-|Hv] & Hf & Hu); [left; congruence|right; exists v', r; auto].
Qed.

Lemma first_unassigned_none v pending x : first_unassigned v pending = Some x -> v x = None.
Proof.
  induction pending as [|ins rest IH]; cbn [first_unassigned]; [discriminate|].
  destruct (unassigned v ins) as [|y l] eqn:U; [exact IH|].
  intros H; injection H as <-.
  assert (In y (unassigned v ins)) by (rewrite U; left; reflexivity).
  apply unassigned_spec in H. tauto.
Qed.

Theorem enum_sound : forall fuel v pending out, enum fuel v pending = Some out ->
  forall v', In v' out -> extends F v v' /\
     forall w, agrees v' w -> all_sat w pending.
Proof.
  induction fuel as [|fuel IH]; intros v pending out H v' Hin.
  - destruct pending; [|discriminate]. injection H as <-. destruct Hin as [<-|[]].
    split; [intros x y E; exact E|intros w _ ins []].
  - destruct pending as [|i0 pending0]; cbn [enum] in H.
    { injection H as <-. destruct Hin as [<-|[]]. split; [intros x y E; exact E|intros w _ ins []]. }
    destruct (pick_ready v (i0 :: pending0)) as [[[ins vs] rest]|] eqn:P.
    + destruct (pick_ready_spec _ _ _ _ _ P) as [B [M _]].
      destruct (branch_spec _ _ _ B) as [BS _].
      destruct (fold_some_spec _ _ _ H) as [_ FS].
      apply FS in Hin. destruct Hin as (v1 & r & Hv1 & Hr & Hu).
      destruct (BS v1 Hv1) as [E1 [S1 Sat1]].
      destruct (IH _ _ _ Hr v' Hu) as [E2 Rest].
      split; [eapply extends_trans'; eassumption|].
      intros w A i Hins. apply M in Hins. destruct Hins as [->|Hins]; [|apply (Rest w A i Hins)].
      assert (A1 : agrees v1 w) by (eapply agrees_ext; eassumption).
      rewrite <- (satb_agree (tot v1) w ins (agrees_tot_on v1 w _ A1 S1)). exact Sat1.
    + destruct (first_unassigned v (i0 :: pending0)) as [x|] eqn:FU; [|discriminate].
      pose proof (first_unassigned_none _ _ _ FU) as Hn.
      destruct (fold_some_spec _ _ _ H) as [_ FS].
      apply FS in Hin. destruct Hin as (v1 & r & Hv1 & Hr & Hu).
      apply in_map_iff in Hv1. destruct Hv1 as [y [<- _]].
      destruct (IH _ _ _ Hr v' Hu) as [E2 Rest].
      split; [eapply extends_trans'; [apply extends_set'; exact Hn|exact E2]|exact Rest].
Qed.

Theorem enum_complete : forall fuel v pending out, enum fuel v pending = Some out ->
  forall w, agrees v w -> all_sat w pending -> exists v', In v' out /\ agrees v' w.
Proof.
  induction fuel as [|fuel IH]; intros v pending out H w A Sat.
  - destruct pending; [|discriminate]. injection H as <-. exists v. split; [left; reflexivity|exact A].
  - destruct pending as [|i0 pending0]; cbn [enum] in H.
    { injection H as <-. exists v. split; [left; reflexivity|exact A]. }
    destruct (pick_ready v (i0 :: pending0)) as [[[ins vs] rest]|] eqn:P.
    + destruct (pick_ready_spec _ _ _ _ _ P) as [B [M _]].
      destruct (branch_spec _ _ _ B) as [_ BC].
      destruct (fold_some_spec _ _ _ H) as [FA FS].
      destruct (BC w A (Sat ins (proj2 (M ins) (or_introl eq_refl)))) as [v1 [Hv1 A1]].
      destruct (FA v1 Hv1) as [r Hr].
      assert (SatR : all_sat w rest) by (intros i Hi; apply Sat, M; right; exact Hi).
      destruct (IH _ _ _ Hr w A1 SatR) as [v' [Hv' A']].
      exists v'. split; [|exact A']. apply FS. exists v1, r. auto.
    + destruct (first_unassigned v (i0 :: pending0)) as [x|] eqn:FU; [|discriminate].
      pose proof (first_unassigned_none _ _ _ FU) as Hn.
      destruct (fold_some_spec _ _ _ H) as [FA FS].
      assert (Hv1 : In (set F v x (w x)) (map (set F v x) elems)) by (apply in_map, elems_complete).
      destruct (FA _ Hv1) as [r Hr].
      destruct (IH _ _ _ Hr w (agrees_set v w x Hn A) Sat) as [v' [Hv' A']].
      exists v'. split; [|exact A']. apply FS. eexists _, r. eauto.
Qed.

(* ------------------------------------------------------------ projection on chosen wires *)

Definition project (outs : list nat) (v : vals) : list (option F) := map v outs.

End Enum.
