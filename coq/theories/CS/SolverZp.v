(* The solver model instantiated at Z mod p, and the case checker used by the C06
   correspondence (cases are written by the harness from runs of the real solver). *)
From Coq Require Import ZArith List Bool Arith.
From GnarkV Require Import Base.Res Base.Zp CS.Solver.
Import ListNotations.
Local Open Scope Z_scope.

Section Inst.
Variable p : Z.

Definition zsolve := solve Z 0 1 (addp p) (mulp p) (subp p) (oppp p) (divp p) (invp p) Z.eq_dec.
Definition zlro := lro Z 0.
Definition zev := ev Z 0 (addp p) (mulp p).

Fixpoint zlist_eqb (a b : list Z) : bool :=
  match a, b with
  | [], [] => true
  | x :: a', y :: b' => (x =? y) && zlist_eqb a' b'
  | _, _ => false
  end.

(* recorded hint calls: (hint index, inputs, outputs, ok) *)
Definition hint_table := list (nat * list Z * list Z * bool).
Definition table_oracle (t : hint_table) : oracle Z :=
  fun hid nout xs =>
    match find (fun e => let '(h, i, o, _) := e in Nat.eqb h hid && Nat.eqb (length o) nout && zlist_eqb i xs) t with
    | Some (_, _, o, ok) => Some (o, ok)
    | None => None
    end.

(* observed outcome of the real solver *)
Inductive obs :=
| ObsOkR1CS (W A B C : list Z)
| ObsOkSparse (Lv Rv Ov : list Z)
| ObsErr (k : err_kind) (cid : nat)
| ObsPanic.

Definition opt_list_eqb (a : list (option Z)) (b : list Z) : bool :=
  zlist_eqb (map (fun o => match o with Some z => z | None => -1 end) a) b.

Fixpoint r1c_rows (v : vals Z) (instrs : list (instr Z)) : list (nat * Z * Z * Z) :=
  match instrs with
  | [] => []
  | IR1C _ cid l r o :: rest => (cid, zev v l, zev v r, zev v o) :: r1c_rows v rest
  | _ :: rest => r1c_rows v rest
  end.

Definition rows_match (rows : list (nat * Z * Z * Z)) (A B C : list Z) : bool :=
  forallb (fun t => let '(cid, a, b, c) := t in
     (nth cid A (-1) =? a) && (nth cid B (-1) =? b) && (nth cid C (-1) =? c)) rows.

Definition err_kind_eqb (a b : err_kind) : bool :=
  match a, b with
  | EUnsat, EUnsat | EDivZero, EDivZero | EHint, EHint | ENotAllSolved, ENotAllSolved
  | EBool, EBool | EOther, EOther => true
  | _, _ => false
  end.

Record scase := {
  c_r1cs : bool; c_nbpub : nat; c_nbwires : nat; c_size : nat;
  c_instrs : list (instr Z); c_order : list nat; c_wit : list Z;
  c_hints : hint_table; c_obs : obs }.

Definition check_case (c : scase) : bool :=
  let r := zsolve (table_oracle (c_hints c)) (c_r1cs c) (c_nbwires c) (c_instrs c) (c_order c) (c_wit c) in
  match r, c_obs c with
  | Ok v, ObsOkR1CS W A B C =>
      opt_list_eqb (dump Z v (c_nbwires c)) W && rows_match (r1c_rows v (c_instrs c)) A B C
  | Ok v, ObsOkSparse Lv Rv Ov =>
      let '(l, r', o) := zlro v (c_nbpub c) (c_size c) (c_instrs c) in
      zlist_eqb l Lv && zlist_eqb r' Rv && zlist_eqb o Ov
  | Err k i, ObsErr k' i' =>
      err_kind_eqb k k' && (match k with EUnsat | EDivZero | EBool => Nat.eqb i i' | _ => true end)
  | Panic, ObsPanic => true
  | _, _ => false
  end.

(* indices of the cases on which model and implementation disagree *)
Fixpoint mismatches_from (k : nat) (cs : list scase) : list nat :=
  match cs with
  | [] => []
  | c :: cs' => if check_case c then mismatches_from (S k) cs' else k :: mismatches_from (S k) cs'
  end.
Definition mismatches := mismatches_from O.
End Inst.
