(* Case checker of the C06 correspondence: cases are written by the harness from runs of the
   real solver (system dump, witness, recorded hint calls, observed outcome, all as Z data);
   the solver model is evaluated at a field instance given by (F, ops, ofZ, toZ):
     - [F47]  : the proved field instance Fp 47 (Base/F47.v)  — used for tinyfield systems;
     - raw Z mod p (Base/Zp.v)                                 — used for the large fields. *)
From Coq Require Import ZArith List Bool Arith.
From GnarkV Require Import Base.Res Base.Zp Base.Fp Base.F47 CS.Solver.
Import ListNotations.
Local Open Scope Z_scope.

(* observed outcome of the real solver *)
Inductive obs :=
| ObsOkR1CS (W A B C : list Z)
| ObsOkSparse (Lv Rv Ov : list Z)
| ObsErr (k : err_kind) (cid : nat)
| ObsPanic.

Definition hint_table := list (nat * list Z * list Z * bool).

Record scase := {
  c_r1cs : bool; c_nbpub : nat; c_nbwires : nat; c_size : nat;
  c_instrs : list (instr Z); c_order : list nat; c_wit : list Z;
  c_hints : hint_table; c_obs : obs }.

Fixpoint zlist_eqb (a b : list Z) : bool :=
  match a, b with
  | [], [] => true
  | x :: a', y :: b' => (x =? y) && zlist_eqb a' b'
  | _, _ => false
  end.

Definition err_kind_eqb (a b : err_kind) : bool :=
  match a, b with
  | EUnsat, EUnsat | EDivZero, EDivZero | EHint, EHint | ENotAllSolved, ENotAllSolved
  | EBool, EBool | EOther, EOther => true
  | _, _ => false
  end.

Section Inst.
Variable F : Type.
Variables (zero one : F) (add mul sub : F -> F -> F) (opp : F -> F) (div : F -> F -> F) (inv : F -> F).
Variable eq_dec : forall x y : F, {x = y} + {x <> y}.
Variable ofZ : Z -> F.
Variable toZ : F -> Z.

Definition map_lexp (l : lexp Z) : lexp F := map (fun t => (ofZ (fst t), snd t)) l.
Definition map_hlexp (l : hlexp Z) : hlexp F := map (fun t => (ofZ (fst t), snd t)) l.
Definition map_instr (i : instr Z) : instr F :=
  match i with
  | IR1C _ cid l r o => IR1C F cid (map_lexp l) (map_lexp r) (map_lexp o)
  | ISparse _ cid xa xb xc ql qr qo qm qc cm => ISparse F cid xa xb xc (ofZ ql) (ofZ qr) (ofZ qo) (ofZ qm) (ofZ qc) cm
  | IMul _ cid xa xb xc qm => IMul F cid xa xb xc (ofZ qm)
  | IAdd _ cid xa xb xc ql qr qc => IAdd F cid xa xb xc (ofZ ql) (ofZ qr) (ofZ qc)
  | IBool _ cid xa ql qm => IBool F cid xa (ofZ ql) (ofZ qm)
  | IHint _ hid ins start nout => IHint F hid (map map_hlexp ins) start nout
  | ILookup _ es ins start => ILookup F (map map_hlexp es) (map map_hlexp ins) start
  end.

Definition isolve := solve F zero one add mul sub opp div inv eq_dec (fun x => Some (Z.to_nat (toZ x))).
Definition ilro := lro F zero.
Definition iev := ev F zero add mul.

(* recorded hint calls: (hint index, inputs, outputs, ok) *)
Definition table_oracle (t : hint_table) : oracle F :=
  fun hid nout xs =>
    match find (fun e => let '(h, i, o, _) := e in Nat.eqb h hid && Nat.eqb (length o) nout && zlist_eqb i (map toZ xs)) t with
    | Some (_, _, o, ok) => Some (map ofZ o, ok)
    | None => None
    end.

Definition opt_list_eqb (a : list (option F)) (b : list Z) : bool :=
  zlist_eqb (map (fun o => match o with Some z => toZ z | None => -1 end) a) b.

Fixpoint r1c_rows (v : vals F) (instrs : list (instr F)) : list (nat * Z * Z * Z) :=
  match instrs with
  | [] => []
  | IR1C _ cid l r o :: rest => (cid, toZ (iev v l), toZ (iev v r), toZ (iev v o)) :: r1c_rows v rest
  | _ :: rest => r1c_rows v rest
  end.

Definition rows_match (rows : list (nat * Z * Z * Z)) (A B C : list Z) : bool :=
  forallb (fun t => let '(cid, a, b, c) := t in
     (nth cid A (-1) =? a) && (nth cid B (-1) =? b) && (nth cid C (-1) =? c)) rows.

Definition check_case (c : scase) : bool :=
  let instrs := map map_instr (c_instrs c) in
  let r := isolve (table_oracle (c_hints c)) (c_r1cs c) (c_nbwires c) instrs (c_order c) (map ofZ (c_wit c)) in
  match r, c_obs c with
  | Ok v, ObsOkR1CS W A B C =>
      opt_list_eqb (dump F v (c_nbwires c)) W && rows_match (r1c_rows v instrs) A B C
  | Ok v, ObsOkSparse Lv Rv Ov =>
      let '(l, r', o) := ilro v (c_nbpub c) (c_size c) instrs in
      zlist_eqb (map toZ l) Lv && zlist_eqb (map toZ r') Rv && zlist_eqb (map toZ o) Ov
  | Err k i, ObsErr k' i' =>
      err_kind_eqb k k' && (match k with EUnsat | EDivZero | EBool => Nat.eqb i i' | _ => true end)
  | Panic, ObsPanic => true
  | _, _ => false
  end.

(* indices of the cases on which model and implementation disagree *)
Fixpoint mismatches_from (k : nat) (cs : list scase) : list nat :=
  match cs with
  | [] => []
  | c :: cs' => if check_case c then mismatches_from (S k) cs' else k :: mismatches_from (S k) cs'
  end.
End Inst.

Definition mismatches_raw (p : Z) : list scase -> list nat :=
  mismatches_from Z 0 1 (addp p) (mulp p) (subp p) (oppp p) (divp p) (invp p) Z.eq_dec (fun z => z) (fun z => z) O.

Definition mismatches_f47 : list scase -> list nat :=
  mismatches_from F47 zero47 one47 add47 mul47 sub47 opp47 div47 inv47 eq_dec47 mk47 val47 O.
