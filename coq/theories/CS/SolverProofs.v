(* Correctness of the solver model, for every field, system, witness and hint oracle:
   success implies every executed instruction's constraint holds in the returned assignment,
   which extends the initial one; an "unsatisfied constraint" error implies that no extension
   of the current assignment satisfies the constraint. *)
From Coq Require Import Arith Lia Field List Bool.
From GnarkV Require Import Base.Res CS.Solver.
Import ListNotations.

Section Proofs.
Variable F : Type.
Variables (zero one : F) (add mul sub : F -> F -> F) (opp : F -> F) (div : F -> F -> F) (inv : F -> F).
Hypothesis Fth : field_theory zero one add mul sub opp div inv (@eq F).
Add Field Ff : Fth.
Variable eq_dec : forall x y : F, {x = y} + {x <> y}.
Variable idx_of : F -> option nat.
Notation "0" := zero. Notation "1" := one.
Infix "+" := add. Infix "*" := mul. Infix "-" := sub. Infix "/" := div.

Notation vals := (vals F).
Notation lexp := (lexp F).
Notation set := (set F).
Notation scan := (scan F zero add mul).
Notation ev := (ev F zero add mul).
Notation val_or0 := (val_or0 F zero).
Notation solved_in := (solved_in F).
Notation holds_r1c := (holds_r1c F zero add mul).
Notation holds_sparse := (holds_sparse F zero add mul).
Notation sparse_eq := (sparse_eq F zero add mul).
Notation uses := (uses F zero).
Notation holds := (holds F zero one add mul opp).
Notation extends := (extends F).
Notation getv := (getv F zero mul eq_dec).
Notation step_r1c := (step_r1c F zero add mul sub div eq_dec).
Notation step_sparse := (step_sparse F zero one add mul opp inv eq_dec).
Notation check_sparse := (check_sparse F zero one add mul eq_dec).
Notation step := (step F zero one add mul sub opp div inv eq_dec idx_of).
Notation run := (run F zero one add mul sub opp div inv eq_dec idx_of).
Notation solve := (solve F zero one add mul sub opp div inv eq_dec idx_of).

(* ------------------------------------------------------------ extension order *)

Lemma extends_refl v : extends v v. Proof. intros x y H; exact H. Qed.
Lemma extends_trans a b c : extends a b -> extends b c -> extends a c.
Proof. intros H1 H2 x y H. apply H2, H1, H. Qed.
Lemma extends_set v x y : v x = None -> extends v (set v x y).
Proof.
  intros Hn z w Hz. unfold Solver.set. destruct (Nat.eqb z x) eqn:E; [apply Nat.eqb_eq in E; subst; congruence|exact Hz].
Qed.
Lemma set_same v x y : set v x y x = Some y.
Proof. unfold Solver.set. rewrite Nat.eqb_refl. reflexivity. Qed.
Lemma val_set_same v x y : val_or0 (set v x y) x = y.
Proof. unfold Solver.val_or0. rewrite set_same. reflexivity. Qed.
Lemma ext_solved v v' x : extends v v' -> v x <> None -> v' x <> None.
Proof. intros He Hs. destruct (v x) as [y|] eqn:E; [rewrite (He x y E); discriminate|congruence]. Qed.
Lemma ext_val v v' x : extends v v' -> v x <> None -> val_or0 v' x = val_or0 v x.
Proof.
  intros He Hs. unfold Solver.val_or0. destruct (v x) as [y|] eqn:E; [rewrite (He x y E); reflexivity|congruence].
Qed.

(* ------------------------------------------------------------ R1CS *)

Lemma scan_spec v l : forall acc us, scan v l = (acc, us) ->
  ev v l = acc /\ (forall k x, In (k, x) us -> v x = None /\ In (k, x) l) /\
  (forall k x, In (k, x) l -> v x = None -> In (k, x) us).
Proof.
  induction l as [|[k x] l IH]; intros acc us H; cbn [Solver.scan Solver.ev] in *.
  - injection H as <- <-. repeat split; intros; try contradiction.
  - destruct (scan v l) as [acc' us'] eqn:E. specialize (IH acc' us' eq_refl). destruct IH as [IH1 [IH2 IH3]].
    unfold Solver.val_or0. destruct (v x) as [y|] eqn:Ex.
    + injection H as <- <-. rewrite IH1. split; [ring|]. split.
      * intros k0 x0 Hin. destruct (IH2 k0 x0 Hin). split; [assumption|right; assumption].
      * intros k0 x0 [Heq|Hin] Hn; [injection Heq as <- <-; congruence|auto].
    + injection H as <- <-. rewrite IH1. split; [ring|]. split.
      * intros k0 x0 [Heq|Hin]; [injection Heq as <- <-; split; [assumption|left; reflexivity]|destruct (IH2 k0 x0 Hin); split; [assumption|right; assumption]].
      * intros k0 x0 [Heq|Hin] Hn; [left; assumption|right; auto].
Qed.

Lemma ev_ext v v' l : extends v v' -> solved_in v l -> ev v' l = ev v l.
Proof.
  intros He Hs. induction l as [|[k x] l IH]; cbn [Solver.ev]; [reflexivity|].
  rewrite IH by (intros k0 x0 Hin; apply (Hs k0 x0); right; exact Hin).
  rewrite (ext_val v v' x He); [reflexivity|]. apply (Hs k x). left; reflexivity.
Qed.

Lemma solved_in_ext v v' l : extends v v' -> solved_in v l -> solved_in v' l.
Proof. intros He Hs k x Hin. apply (ext_solved v v' x He), (Hs k x Hin). Qed.

Lemma holds_r1c_ext v v' l r o : extends v v' -> holds_r1c v l r o -> holds_r1c v' l r o.
Proof.
  intros He [HL [HR [HO Heq]]]. unfold Solver.holds_r1c.
  repeat split; try (eapply solved_in_ext; eassumption).
  rewrite !(ev_ext v v') by assumption. exact Heq.
Qed.

Lemma ev_set_single v l acc k x y :
  scan v l = (acc, [(k, x)]) -> ev (set v x y) l = acc + k * y /\ solved_in (set v x y) l.
Proof.
  revert acc. induction l as [|[k0 x0] l IH]; intros acc H; cbn [Solver.scan] in H; [discriminate|].
  destruct (scan v l) as [acc' us'] eqn:E.
  destruct (v x0) as [y0|] eqn:Ex0.
  - injection H as <- ->. destruct (IH acc' eq_refl) as [IH1 IH2]. split.
    + cbn [Solver.ev]. rewrite IH1. unfold Solver.val_or0, Solver.set at 1.
      destruct (Nat.eqb x0 x) eqn:Eq.
      * apply Nat.eqb_eq in Eq. subst x0.
        destruct (scan_spec v l acc' [(k, x)] E) as [_ [H2 _]]. destruct (H2 k x (or_introl eq_refl)). congruence.
      * rewrite Ex0. ring.
    + intros k1 x1 [Heq|Hin]; [injection Heq as <- <-; unfold Solver.set; destruct (Nat.eqb x0 x); congruence|exact (IH2 k1 x1 Hin)].
  - injection H as Hacc Hk Hx Hus. subst acc' k0 x0 us'.
    destruct (scan_spec v l acc [] E) as [E1 [_ E3]].
    assert (Hs : solved_in v l). { intros k1 x1 Hin Hn. exact (E3 k1 x1 Hin Hn). }
    split.
    + cbn [Solver.ev]. rewrite val_set_same.
      assert (H : ev (set v x y) l = ev v l).
      { apply ev_ext; [apply extends_set; exact Ex0|exact Hs]. }
      rewrite H, E1. ring.
    + intros k1 x1 [Heq|Hin]; [injection Heq as <- <-; rewrite set_same; discriminate|].
      unfold Solver.set. destruct (Nat.eqb x1 x); [discriminate|exact (Hs k1 x1 Hin)].
Qed.

Lemma ev_solved v l acc : scan v l = (acc, []) -> ev v l = acc /\ solved_in v l.
Proof.
  intros H. destruct (scan_spec v l acc [] H) as [E1 [_ E3]]. split; [exact E1|].
  intros k x Hin Hn. exact (E3 k x Hin Hn).
Qed.

Lemma unsolved_none v l acc k x : scan v l = (acc, [(k, x)]) -> v x = None.
Proof. intros H. destruct (scan_spec v l acc _ H) as [_ [H2 _]]. destruct (H2 k x (or_introl eq_refl)); assumption. Qed.

Lemma step_r1c_ok i v l r o v' : step_r1c i v l r o = Ok v' -> extends v v' /\ holds_r1c v' l r o.
Proof.
  unfold Solver.step_r1c.
  destruct (scan v l) as [a ua] eqn:EA.
  destruct (scan v r) as [b ub] eqn:EB.
  destruct (scan v o) as [c uo] eqn:EO.
  destruct ua as [|[ka xa] [|? ?]]; destruct ub as [|[kb xb] [|? ?]]; destruct uo as [|[ko xo] [|? ?]]; try discriminate.
  - destruct (eq_dec (a * b) c) as [E|]; [|discriminate]. intros H; injection H as <-.
    split; [apply extends_refl|].
    destruct (ev_solved _ _ _ EA) as [EA1 SA], (ev_solved _ _ _ EB) as [EB1 SB], (ev_solved _ _ _ EO) as [EO1 SO].
    repeat split; try assumption. rewrite EA1, EB1, EO1. exact E.
  - destruct (eq_dec ko 0); [discriminate|]. intros H; injection H as <-.
    pose proof (unsolved_none _ _ _ _ _ EO) as Hn.
    pose proof (extends_set v xo ((a * b - c) / ko) Hn) as Hext. split; [exact Hext|].
    destruct (ev_solved _ _ _ EA) as [EA1 SA], (ev_solved _ _ _ EB) as [EB1 SB].
    destruct (ev_set_single _ _ _ _ _ ((a * b - c) / ko) EO) as [EO1 SO].
    repeat split; try (eapply solved_in_ext; eassumption); auto.
    rewrite (ev_ext v _ _ Hext SA), (ev_ext v _ _ Hext SB), EA1, EB1, EO1. field. assumption.
  - destruct (eq_dec kb 0); [discriminate|].
    pose proof (unsolved_none _ _ _ _ _ EB) as Hn.
    destruct (ev_solved _ _ _ EA) as [EA1 SA], (ev_solved _ _ _ EO) as [EO1 SO].
    destruct (eq_dec a 0) as [Ea0|Ea0].
    + destruct (eq_dec (a * b) c) as [E|]; [|discriminate]. intros H; injection H as <-.
      pose proof (extends_set v xb 0 Hn) as Hext. split; [exact Hext|].
      destruct (ev_set_single _ _ _ _ _ 0 EB) as [EB1 SB].
      repeat split; try (eapply solved_in_ext; eassumption); auto.
      rewrite (ev_ext v _ _ Hext SA), (ev_ext v _ _ Hext SO), EA1, EO1, EB1. rewrite <- E, Ea0. ring.
    + intros H; injection H as <-.
      pose proof (extends_set v xb ((c / a - b) / kb) Hn) as Hext. split; [exact Hext|].
      destruct (ev_set_single _ _ _ _ _ ((c / a - b) / kb) EB) as [EB1 SB].
      repeat split; try (eapply solved_in_ext; eassumption); auto.
      rewrite (ev_ext v _ _ Hext SA), (ev_ext v _ _ Hext SO), EA1, EO1, EB1. field. split; assumption.
  - destruct (eq_dec ka 0); [discriminate|].
    pose proof (unsolved_none _ _ _ _ _ EA) as Hn.
    destruct (ev_solved _ _ _ EB) as [EB1 SB], (ev_solved _ _ _ EO) as [EO1 SO].
    destruct (eq_dec b 0) as [Eb0|Eb0].
    + destruct (eq_dec (a * b) c) as [E|]; [|discriminate]. intros H; injection H as <-.
      pose proof (extends_set v xa 0 Hn) as Hext. split; [exact Hext|].
      destruct (ev_set_single _ _ _ _ _ 0 EA) as [EA1 SA].
      repeat split; try (eapply solved_in_ext; eassumption); auto.
      rewrite (ev_ext v _ _ Hext SB), (ev_ext v _ _ Hext SO), EA1, EO1, EB1. rewrite <- E, Eb0. ring.
    + intros H; injection H as <-.
      pose proof (extends_set v xa ((c / b - a) / ka) Hn) as Hext. split; [exact Hext|].
      destruct (ev_set_single _ _ _ _ _ ((c / b - a) / ka) EA) as [EA1 SA].
      repeat split; try (eapply solved_in_ext; eassumption); auto.
      rewrite (ev_ext v _ _ Hext SB), (ev_ext v _ _ Hext SO), EA1, EO1, EB1. field. split; assumption.
Qed.

(* an "unsatisfied" verdict on an R1C is final: no extension of the current values satisfies it *)
Lemma step_r1c_unsat i j v l r o : step_r1c i v l r o = Err EUnsat j ->
  forall v', extends v v' -> ~ holds_r1c v' l r o.
Proof.
  unfold Solver.step_r1c.
  destruct (scan v l) as [a ua] eqn:EA.
  destruct (scan v r) as [b ub] eqn:EB.
  destruct (scan v o) as [c uo] eqn:EO.
  destruct ua as [|[ka xa] [|? ?]]; destruct ub as [|[kb xb] [|? ?]]; destruct uo as [|[ko xo] [|? ?]]; try discriminate.
  - destruct (eq_dec (a * b) c) as [|NE]; [discriminate|]. intros _ v' He [_ [_ [_ Heq]]].
    destruct (ev_solved _ _ _ EA) as [EA1 SA], (ev_solved _ _ _ EB) as [EB1 SB], (ev_solved _ _ _ EO) as [EO1 SO].
    rewrite (ev_ext v v' _ He SA), (ev_ext v v' _ He SB), (ev_ext v v' _ He SO), EA1, EB1, EO1 in Heq. contradiction.
  - destruct (eq_dec ko 0); discriminate.
  - destruct (eq_dec kb 0); [discriminate|]. destruct (eq_dec a 0) as [Ea0|]; [|discriminate].
    destruct (eq_dec (a * b) c) as [|NE]; [discriminate|]. intros _ v' He [_ [_ [_ Heq]]].
    destruct (ev_solved _ _ _ EA) as [EA1 SA], (ev_solved _ _ _ EO) as [EO1 SO].
    rewrite (ev_ext v v' _ He SA), (ev_ext v v' _ He SO), EA1, EO1 in Heq.
    apply NE. rewrite <- Heq, Ea0. ring.
  - destruct (eq_dec ka 0); [discriminate|]. destruct (eq_dec b 0) as [Eb0|]; [|discriminate].
    destruct (eq_dec (a * b) c) as [|NE]; [discriminate|]. intros _ v' He [_ [_ [_ Heq]]].
    destruct (ev_solved _ _ _ EB) as [EB1 SB], (ev_solved _ _ _ EO) as [EO1 SO].
    rewrite (ev_ext v v' _ He SB), (ev_ext v v' _ He SO), EB1, EO1 in Heq.
    apply NE. rewrite <- Heq, Eb0. ring.
Qed.

(* ------------------------------------------------------------ sparse gates *)

Lemma getv_spec v q x r : getv v q x = Ok r -> r = q * val_or0 v x /\ uses q v x.
Proof.
  unfold Solver.getv, Solver.uses, Solver.val_or0. destruct (eq_dec q 0) as [->|NE].
  - intros H; injection H as <-. split; [ring|intros C; exfalso; apply C; reflexivity].
  - destruct (v x) as [y|]; [|discriminate]. intros H; injection H as <-. split; [reflexivity|discriminate].
Qed.

(* after setting an unsolved wire w, every earlier read is unchanged *)
Lemma getv_set v q x r w y : getv v q x = Ok r -> v w = None ->
  q * val_or0 (set v w y) x = r /\ uses q (set v w y) x.
Proof.
  unfold Solver.getv, Solver.uses, Solver.val_or0. intros H Hw. destruct (eq_dec q 0) as [->|NE].
  - injection H as <-. split; [ring|intros C; exfalso; apply C; reflexivity].
  - destruct (v x) as [y'|] eqn:E; [|discriminate]. injection H as <-.
    unfold Solver.set. destruct (Nat.eqb x w) eqn:Eq; [apply Nat.eqb_eq in Eq; subst; congruence|].
    rewrite E. split; [reflexivity|discriminate].
Qed.

Lemma uses_set_same q v w y : uses q (set v w y) w.
Proof. intros _. rewrite set_same. discriminate. Qed.

Lemma set_once_spec v x y v' : set_once F v x y = Ok v' -> v x = None /\ v' = set v x y.
Proof. unfold Solver.set_once. destruct (v x); [discriminate|]. intros H; injection H as <-. split; reflexivity. Qed.

Ltac bind_ok H :=
  match type of H with
  | bind ?r _ = Ok _ => let E := fresh "E" in destruct r eqn:E; cbn [bind] in H; [|discriminate|discriminate]
  end.

Tactic Notation "bind_ok_as" hyp(H) "as" ident(x) ident(E) :=
  match type of H with
  | bind ?r _ = Ok _ => destruct r as [x| |] eqn:E; cbn [bind] in H; [|discriminate|discriminate]
  end.

Lemma check_sparse_ok i v xa xb xc ql qr qo qm qc v' :
  check_sparse i v xa xb xc ql qr qo qm qc = Ok v' -> v' = v /\ holds_sparse v xa xb xc ql qr qo qm qc.
Proof.
  unfold Solver.check_sparse. intros H. repeat bind_ok H.
  destruct (eq_dec _ 0) as [Z|]; [|discriminate]. injection H as <-. split; [reflexivity|].
  repeat match goal with E : getv _ _ _ = Ok _ |- _ => apply getv_spec in E; destruct E as [-> ?] end.
  assert (U1 : forall q x, uses 1 v x -> uses q v x).
  { intros q x U _. apply U. intros C. apply (F_1_neq_0 Fth). exact C. }
  unfold Solver.holds_sparse, Solver.sparse_eq. repeat split; try assumption; [apply U1; assumption|].
  etransitivity; [|exact Z]. ring.
Qed.

Lemma holds_sparse_ext v v' xa xb xc ql qr qo qm qc : extends v v' ->
  holds_sparse v xa xb xc ql qr qo qm qc -> holds_sparse v' xa xb xc ql qr qo qm qc.
Proof.
  intros He (U1 & U2 & U3 & U4 & U5 & Heq).
  assert (UE : forall q x, uses q v x -> uses q v' x).
  { intros q x U NE. apply (ext_solved v v' x He), U, NE. }
  assert (VE : forall q x, uses q v x -> q * val_or0 v' x = q * val_or0 v x).
  { intros q x U. destruct (eq_dec q 0) as [->|NE]; [ring|]. rewrite (ext_val v v' x He (U NE)). reflexivity. }
  unfold Solver.holds_sparse. repeat split; auto.
  unfold Solver.sparse_eq in *.
  rewrite (VE ql xa U1), (VE qr xb U2), (VE qo xc U3).
  destruct (eq_dec qm 0) as [E0|NE].
  - rewrite E0 in *. etransitivity; [|exact Heq]. ring.
  - rewrite (ext_val v v' xa He (U4 NE)), (ext_val v v' xb He (U5 NE)). exact Heq.
Qed.

Lemma getv_ext v v' q x r : getv v q x = Ok r -> extends v v' -> q * val_or0 v' x = r.
Proof.
  intros H He. apply getv_spec in H. destruct H as [-> U].
  destruct (eq_dec q 0) as [->|NE]; [ring|]. rewrite (ext_val v v' x He (U NE)). reflexivity.
Qed.

Lemma step_sparse_ok i v xa xb xc ql qr qo qm qc v' :
  step_sparse i v xa xb xc ql qr qo qm qc false = Ok v' ->
  extends v v' /\ holds_sparse v' xa xb xc ql qr qo qm qc.
Proof.
  unfold Solver.step_sparse. cbn [negb].
  destruct (solved F v xa) eqn:Sa; cbn [negb].
  2:{ (* solve for xa *)
    intros H. bind_ok_as H as f E. bind_ok_as H as f0 E0. bind_ok_as H as f1 E1.
    assert (G : forall y, v xa = None -> (f + ql <> 0 -> y = opp ((f0 + f1 + qc) * inv (f + ql))) ->
                (f + ql = 0 -> f0 + f1 + qc = 0) ->
                extends v (set v xa y) /\ holds_sparse (set v xa y) xa xb xc ql qr qo qm qc).
    { intros y Hn Hy Hz. split; [apply extends_set; exact Hn|].
      destruct (getv_set _ _ _ _ xa y E Hn) as [R1 U1], (getv_set _ _ _ _ xa y E0 Hn) as [R2 U2],
               (getv_set _ _ _ _ xa y E1 Hn) as [R3 U3].
      unfold Solver.holds_sparse, Solver.sparse_eq. repeat split; try assumption; try apply uses_set_same.
      rewrite val_set_same.
      replace (qm * (y * val_or0 (set v xa y) xb)) with (y * (qm * val_or0 (set v xa y) xb)) by ring.
      rewrite R1, R2, R3.
      destruct (eq_dec (f + ql) 0) as [ZD|ND].
      - transitivity (y * (f + ql) + (f0 + f1 + qc)); [ring|]. rewrite ZD, (Hz ZD). ring.
      - rewrite (Hy ND). field. exact ND. }
    destruct (eq_dec (f + ql) 0) as [ZD|ND].
    - destruct (eq_dec (f0 + f1 + qc) 0) as [ZN|]; [|discriminate].
      apply set_once_spec in H. destruct H as [Hn ->]. apply G; [exact Hn|intros C; contradiction|intros _; exact ZN].
    - apply set_once_spec in H. destruct H as [Hn ->]. apply G; [exact Hn|intros _; reflexivity|intros C; contradiction]. }
  destruct (solved F v xb) eqn:Sb; cbn [negb].
  2:{ (* solve for xb *)
    intros H. bind_ok_as H as f E. bind_ok_as H as f0 E0. bind_ok_as H as f1 E1.
    assert (G : forall y, v xb = None -> (f + qr <> 0 -> y = opp ((f0 + f1 + qc) * inv (f + qr))) ->
                (f + qr = 0 -> f0 + f1 + qc = 0) ->
                extends v (set v xb y) /\ holds_sparse (set v xb y) xa xb xc ql qr qo qm qc).
    { intros y Hn Hy Hz. split; [apply extends_set; exact Hn|].
      destruct (getv_set _ _ _ _ xb y E Hn) as [R1 U1], (getv_set _ _ _ _ xb y E0 Hn) as [R2 U2],
               (getv_set _ _ _ _ xb y E1 Hn) as [R3 U3].
      unfold Solver.holds_sparse, Solver.sparse_eq. repeat split; try assumption; try apply uses_set_same.
      rewrite val_set_same.
      replace (qm * (val_or0 (set v xb y) xa * y)) with (y * (qm * val_or0 (set v xb y) xa)) by ring.
      rewrite R1, R2, R3.
      destruct (eq_dec (f + qr) 0) as [ZD|ND].
      - transitivity (y * (f + qr) + (f0 + f1 + qc)); [ring|]. rewrite ZD, (Hz ZD). ring.
      - rewrite (Hy ND). field. exact ND. }
    destruct (eq_dec (f + qr) 0) as [ZD|ND].
    - destruct (eq_dec (f0 + f1 + qc) 0) as [ZN|]; [|discriminate].
      apply set_once_spec in H. destruct H as [Hn ->]. apply G; [exact Hn|intros C; contradiction|intros _; exact ZN].
    - apply set_once_spec in H. destruct H as [Hn ->]. apply G; [exact Hn|intros _; reflexivity|intros C; contradiction]. }
  destruct (solved F v xc) eqn:Sc; cbn [negb].
  2:{ (* solve for xc *)
    intros H. bind_ok_as H as f E. bind_ok_as H as f0 E0. bind_ok_as H as f1 E1. bind_ok_as H as f2 E2.
    assert (G : forall y, v xc = None -> (qo <> 0 -> y = opp ((f1 * f2 + f + f0 + qc) * inv qo)) ->
                (qo = 0 -> f1 * f2 + f + f0 + qc = 0) ->
                extends v (set v xc y) /\ holds_sparse (set v xc y) xa xb xc ql qr qo qm qc).
    { intros y Hn Hy Hz. split; [apply extends_set; exact Hn|].
      destruct (getv_set _ _ _ _ xc y E Hn) as [R1 U1], (getv_set _ _ _ _ xc y E0 Hn) as [R2 U2],
               (getv_set _ _ _ _ xc y E1 Hn) as [R3 U3], (getv_set _ _ _ _ xc y E2 Hn) as [R4 U4].
      unfold Solver.holds_sparse, Solver.sparse_eq. repeat split; try assumption; try apply uses_set_same.
      { intros NE. apply U4. intros C. apply (F_1_neq_0 Fth). exact C. }
      rewrite val_set_same.
      replace (qm * (val_or0 (set v xc y) xa * val_or0 (set v xc y) xb))
        with ((qm * val_or0 (set v xc y) xa) * (1 * val_or0 (set v xc y) xb)) by ring.
      rewrite R1, R2, R3, R4.
      destruct (eq_dec qo 0) as [ZD|ND].
      - transitivity (qo * y + (f1 * f2 + f + f0 + qc)); [ring|]. rewrite ZD, (Hz ZD). ring.
      - rewrite (Hy ND). field. exact ND. }
    destruct (eq_dec qo 0) as [ZD|ND].
    - destruct (eq_dec (f1 * f2 + f + f0 + qc) 0) as [ZN|]; [|discriminate].
      apply set_once_spec in H. destruct H as [Hn ->]. apply G; [exact Hn|intros C; contradiction|intros _; exact ZN].
    - apply set_once_spec in H. destruct H as [Hn ->]. apply G; [exact Hn|intros _; reflexivity|intros C; contradiction]. }
  intros H. apply check_sparse_ok in H. destruct H as [-> H]. split; [apply extends_refl|exact H].
Qed.

Lemma solved_val v x : solved F v x = true -> v x <> None.
Proof. unfold Solver.solved. destruct (v x); [discriminate|discriminate]. Qed.

(* the auxiliary functions never return an error value: only Ok or Panic *)
Lemma getv_cases v q x : (exists r, getv v q x = Ok r) \/ getv v q x = Panic.
Proof. unfold Solver.getv. destruct (eq_dec q 0); [left; eexists; reflexivity|]. destruct (v x); [left; eexists; reflexivity|right; reflexivity]. Qed.
Lemma set_once_cases v x y : (exists v', set_once F v x y = Ok v') \/ set_once F v x y = Panic.
Proof. unfold Solver.set_once. destruct (v x); [right; reflexivity|left; eexists; reflexivity]. Qed.

Ltac kill_bind H :=
  match type of H with
  | context [bind (Solver.getv _ _ _ _ ?v ?q ?x) _] =>
      let E := fresh "E" in let r := fresh "r" in
      destruct (getv_cases v q x) as [[r E]|E]; rewrite E in H; cbn [bind] in H; [|discriminate]
  | context [Solver.set_once _ ?v ?x ?y] =>
      let E := fresh "E" in let r := fresh "r" in
      destruct (set_once_cases v x y) as [[r E]|E]; rewrite E in H; cbn [bind] in H; [|discriminate]
  end.

Tactic Notation "getv_ok" hyp(H) constr(v) constr(q) constr(x) "as" ident(r) ident(E) :=
  destruct (getv_cases v q x) as [[r E]|E]; rewrite E in H; cbn [bind] in H; [|discriminate].

Tactic Notation "getv_ok" hyp(H) constr(v) constr(q) constr(x) "as" ident(r) ident(E) :=
  destruct (getv_cases v q x) as [[r E]|E]; rewrite E in H; cbn [bind] in H; [|discriminate].

Lemma step_sparse_err i v xa xb xc ql qr qo qm qc cm k j :
  step_sparse i v xa xb xc ql qr qo qm qc cm = Err k j -> k = EUnsat \/ k = EDivZero.
Proof.
  unfold Solver.step_sparse. destruct cm; [discriminate|].
  destruct (negb (solved F v xa)).
  { intros H. repeat kill_bind H. destruct (eq_dec _ 0).
    - destruct (eq_dec _ 0); [repeat kill_bind H; discriminate|injection H as <- _; right; reflexivity].
    - repeat kill_bind H. discriminate. }
  destruct (negb (solved F v xb)).
  { intros H. repeat kill_bind H. destruct (eq_dec _ 0).
    - destruct (eq_dec _ 0); [repeat kill_bind H; discriminate|injection H as <- _; right; reflexivity].
    - repeat kill_bind H. discriminate. }
  destruct (negb (solved F v xc)).
  { intros H. repeat kill_bind H. destruct (eq_dec qo 0).
    - destruct (eq_dec _ 0); [repeat kill_bind H; discriminate|injection H as <- _; right; reflexivity].
    - repeat kill_bind H. discriminate. }
  unfold Solver.check_sparse. intros H. repeat kill_bind H. destruct (eq_dec _ 0); [discriminate|]. injection H as <- _. left; reflexivity.
Qed.

(* both error classes of a sparse gate are final: no extension of the current values satisfies it *)
Lemma step_sparse_unsat i j k v xa xb xc ql qr qo qm qc :
  step_sparse i v xa xb xc ql qr qo qm qc false = Err k j ->
  forall v', extends v v' -> ~ holds_sparse v' xa xb xc ql qr qo qm qc.
Proof.
  unfold Solver.step_sparse. cbn [negb].
  destruct (solved F v xa) eqn:Sa; cbn [negb].
  2:{ intros H. getv_ok H v qm xb as f E. getv_ok H v qr xb as f0 E0. getv_ok H v qo xc as f1 E1.
      destruct (eq_dec (f + ql) 0) as [ZD|ND]; [|repeat kill_bind H; discriminate].
      destruct (eq_dec (f0 + f1 + qc) 0) as [|NN]; [repeat kill_bind H; discriminate|].
      intros v' He (_ & _ & _ & _ & _ & Heq). apply NN. unfold Solver.sparse_eq in Heq.
      replace (qm * (val_or0 v' xa * val_or0 v' xb)) with (val_or0 v' xa * (qm * val_or0 v' xb)) in Heq by ring.
      rewrite (getv_ext _ _ _ _ _ E He), (getv_ext _ _ _ _ _ E0 He), (getv_ext _ _ _ _ _ E1 He) in Heq.
      transitivity (val_or0 v' xa * (f + ql) + (f0 + f1 + qc)); [rewrite ZD; ring|].
      etransitivity; [|exact Heq]. ring. }
  destruct (solved F v xb) eqn:Sb; cbn [negb].
  2:{ intros H. getv_ok H v qm xa as f E. getv_ok H v ql xa as f0 E0. getv_ok H v qo xc as f1 E1.
      destruct (eq_dec (f + qr) 0) as [ZD|ND]; [|repeat kill_bind H; discriminate].
      destruct (eq_dec (f0 + f1 + qc) 0) as [|NN]; [repeat kill_bind H; discriminate|].
      intros v' He (_ & _ & _ & _ & _ & Heq). apply NN. unfold Solver.sparse_eq in Heq.
      replace (qm * (val_or0 v' xa * val_or0 v' xb)) with (val_or0 v' xb * (qm * val_or0 v' xa)) in Heq by ring.
      rewrite (getv_ext _ _ _ _ _ E He), (getv_ext _ _ _ _ _ E0 He), (getv_ext _ _ _ _ _ E1 He) in Heq.
      transitivity (val_or0 v' xb * (f + qr) + (f0 + f1 + qc)); [rewrite ZD; ring|].
      etransitivity; [|exact Heq]. ring. }
  destruct (solved F v xc) eqn:Sc; cbn [negb].
  2:{ intros H. getv_ok H v ql xa as f E. getv_ok H v qr xb as f0 E0. getv_ok H v qm xa as f1 E1. getv_ok H v 1 xb as f2 E2.
      destruct (eq_dec qo 0) as [ZD|ND]; [|repeat kill_bind H; discriminate].
      destruct (eq_dec (f1 * f2 + f + f0 + qc) 0) as [|NN]; [repeat kill_bind H; discriminate|].
      intros v' He (_ & _ & _ & _ & _ & Heq). apply NN. unfold Solver.sparse_eq in Heq.
      replace (qm * (val_or0 v' xa * val_or0 v' xb)) with ((qm * val_or0 v' xa) * (1 * val_or0 v' xb)) in Heq by ring.
      rewrite (getv_ext _ _ _ _ _ E He), (getv_ext _ _ _ _ _ E0 He), (getv_ext _ _ _ _ _ E1 He), (getv_ext _ _ _ _ _ E2 He) in Heq.
      transitivity (qo * val_or0 v' xc + (f1 * f2 + f + f0 + qc)); [rewrite ZD; ring|].
      etransitivity; [|exact Heq]. ring. }
  unfold Solver.check_sparse. intros H v' He (_ & _ & _ & _ & _ & Heq).
  apply solved_val in Sa, Sb, Sc.
  getv_ok H v ql xa as r1 E1.
  getv_ok H v qr xb as r2 E2.
  getv_ok H v qm xa as r3 E3.
  getv_ok H v 1 xb as r4 E4.
  getv_ok H v qo xc as r5 E5.
  destruct (eq_dec _ 0) as [|NE]; [discriminate|]. apply NE.
  apply getv_spec in E1, E2, E3, E4, E5.
  destruct E1 as [-> _], E2 as [-> _], E3 as [-> _], E4 as [-> _], E5 as [-> _].
  unfold Solver.sparse_eq in Heq.
  rewrite (ext_val v v' xa He Sa), (ext_val v v' xb He Sb), (ext_val v v' xc He Sc) in Heq.
  etransitivity; [|exact Heq]. ring.
Qed.

(* ------------------------------------------------------------ the other instructions *)

Lemma set_range_ext v start outs v' : set_range F v start outs = Ok v' -> extends v v'.
Proof.
  revert v start. induction outs as [|y outs IH]; intros v start H; cbn [Solver.set_range] in H.
  - injection H as <-. apply extends_refl.
  - destruct (set_once F v start y) eqn:E; cbn [bind] in H; try discriminate.
    apply set_once_spec in E. destruct E as [Hn ->].
    eapply extends_trans; [apply extends_set; exact Hn|eapply IH; exact H].
Qed.

Lemma step_ok orc i v ins v' : step orc i v ins = Ok v' -> extends v v' /\ holds v' ins.
Proof.
  destruct ins as [cid l r o|cid xa xb xc ql qr qo qm qc cm|cid xa xb xc qm|cid xa xb xc ql qr qc|cid xa ql qm|hid ins start nout|entries ins start];
    cbn [Solver.step Solver.holds].
  - apply step_r1c_ok.
  - destruct cm.
    + unfold Solver.step_sparse. intros H; injection H as <-. split; [apply extends_refl|exact I].
    + apply step_sparse_ok.
  - (* mul gate *)
    unfold Solver.step_mul. intros H. bind_ok_as H as f E. bind_ok_as H as f0 E0. apply set_once_spec in H. destruct H as [Hn ->].
    split; [apply extends_set; exact Hn|].
    destruct (getv_set _ _ _ _ xc (f * f0) E Hn) as [R1 U1], (getv_set _ _ _ _ xc (f * f0) E0 Hn) as [R2 U2].
    unfold Solver.holds_sparse, Solver.sparse_eq. repeat split; try assumption; try apply uses_set_same;
      try (intros C; exfalso; apply C; reflexivity).
    { intros NE. apply U2. intros C. apply (F_1_neq_0 Fth). exact C. }
    rewrite val_set_same.
    replace (qm * (val_or0 (set v xc (f * f0)) xa * val_or0 (set v xc (f * f0)) xb))
      with ((qm * val_or0 (set v xc (f * f0)) xa) * (1 * val_or0 (set v xc (f * f0)) xb)) by ring.
    rewrite R1, R2. ring.
  - (* add gate *)
    unfold Solver.step_add. intros H. bind_ok_as H as f E. bind_ok_as H as f0 E0. apply set_once_spec in H. destruct H as [Hn ->].
    split; [apply extends_set; exact Hn|].
    destruct (getv_set _ _ _ _ xc (f + f0 + qc) E Hn) as [R1 U1], (getv_set _ _ _ _ xc (f + f0 + qc) E0 Hn) as [R2 U2].
    unfold Solver.holds_sparse, Solver.sparse_eq. repeat split; try assumption; try apply uses_set_same;
      try (intros C; exfalso; apply C; reflexivity).
    rewrite val_set_same, R1, R2. ring.
  - (* boolean gate *)
    unfold Solver.step_bool. intros H. bind_ok_as H as f E. bind_ok_as H as f0 E0. bind_ok_as H as f1 E1.
    destruct (eq_dec _ 0) as [Z|]; [|discriminate]. injection H as <-. split; [apply extends_refl|].
    apply getv_spec in E, E0, E1. destruct E as [-> U1], E0 as [-> U2], E1 as [-> U3].
    unfold Solver.holds_sparse, Solver.sparse_eq. repeat split; try assumption;
      try (intros C; exfalso; apply C; reflexivity).
    etransitivity; [|exact Z]. ring.
  - (* hint *)
    unfold Solver.step_hint. intros H. bind_ok_as H as xs E.
    destruct (orc hid nout xs) as [[outs ok]|]; [|discriminate].
    destruct (negb _); [discriminate|]. bind_ok_as H as v1 E0. destruct ok; [|discriminate]. injection H as <-.
    split; [eapply set_range_ext; eassumption|exact I].
  - (* lookup *)
    unfold Solver.step_lookup. intros H. bind_ok_as H as es E. bind_ok_as H as qs E0.
    destruct (lookup_all F idx_of es qs) as [outs|]; [|discriminate].
    split; [eapply set_range_ext; eassumption|exact I].
Qed.

Lemma holds_ext v v' ins : extends v v' -> holds v ins -> holds v' ins.
Proof.
  intros He. destruct ins as [cid l r o|cid xa xb xc ql qr qo qm qc cm| | | | |]; cbn [Solver.holds]; try tauto;
    try (apply holds_sparse_ext; assumption).
  - apply holds_r1c_ext; assumption.
  - destruct cm; [tauto|apply holds_sparse_ext; assumption].
Qed.

(* C06, success direction *)
Theorem run_ok_sat orc : forall prog v v', run orc v prog = Ok v' ->
  extends v v' /\ forall i ins, In (i, ins) prog -> holds v' ins.
Proof.
  induction prog as [|[i ins] prog IH]; intros v v' H; cbn [Solver.run] in H.
  - injection H as <-. split; [apply extends_refl|intros ? ? []].
  - destruct (step orc i v ins) as [v1| |] eqn:E; cbn [bind] in H; try discriminate.
    destruct (step_ok _ _ _ _ _ E) as [Hext Hc]. destruct (IH _ _ H) as [Hext' Hrest].
    split; [eapply extends_trans; eassumption|].
    intros i0 ins0 [Heq|Hin]; [injection Heq as <- <-; eapply holds_ext; eassumption|eauto].
Qed.

(* C06, failure direction: the failing instruction's constraint is violated under every
   completion of the values determined so far (by the witness and the hint oracle) *)
Definition violated_forever (v : vals) (ins : instr F) : Prop :=
  forall v', extends v v' -> ~ holds v' ins.

Lemma hev_cases v l : (exists r, hev F zero add mul v l = Ok r) \/ hev F zero add mul v l = Panic.
Proof.
  induction l as [|[k [x|]] l IH]; cbn [Solver.hev].
  - left; eexists; reflexivity.
  - destruct (v x); [|right; reflexivity]. destruct IH as [[r ->]| ->]; cbn [bind]; [left; eexists; reflexivity|right; reflexivity].
  - destruct IH as [[r ->]| ->]; cbn [bind]; [left; eexists; reflexivity|right; reflexivity].
Qed.
Lemma hev_all_cases v ls : (exists r, hev_all F zero add mul v ls = Ok r) \/ hev_all F zero add mul v ls = Panic.
Proof.
  induction ls as [|l ls IH]; cbn [Solver.hev_all]; [left; eexists; reflexivity|].
  destruct (hev_cases v l) as [[r ->]| ->]; cbn [bind]; [|right; reflexivity].
  destruct IH as [[rs ->]| ->]; cbn [bind]; [left; eexists; reflexivity|right; reflexivity].
Qed.
Lemma set_range_cases : forall outs v start, (exists v', set_range F v start outs = Ok v') \/ set_range F v start outs = Panic.
Proof.
  induction outs as [|y outs IH]; intros v start; cbn [Solver.set_range]; [left; eexists; reflexivity|].
  destruct (set_once_cases v start y) as [[v1 ->]| ->]; cbn [bind]; [apply IH|right; reflexivity].
Qed.

(* which error kinds each instruction can produce *)
Lemma step_err_kind orc i v ins k j : step orc i v ins = Err k j ->
  match ins with
  | IR1C _ _ _ _ _ => k = EUnsat
  | ISparse _ _ _ _ _ _ _ _ _ _ _ => k = EUnsat \/ k = EDivZero
  | IMul _ _ _ _ _ _ | IAdd _ _ _ _ _ _ _ _ => False
  | IBool _ _ _ _ _ => k = EBool
  | IHint _ _ _ _ _ => k = EOther \/ k = EHint
  | ILookup _ _ _ _ => k = EOther
  end.
Proof.
  destruct ins as [cid l r o|cid xa xb xc ql qr qo qm qc cm|cid xa xb xc qm|cid xa xb xc ql qr qc|cid xa ql qm|hid ins start nout|entries ins start];
    cbn [Solver.step].
  - unfold Solver.step_r1c.
    destruct (scan v l) as [a ua]; destruct (scan v r) as [b ub]; destruct (scan v o) as [c uo].
    destruct ua as [|[? ?] [|? ?]]; destruct ub as [|[? ?] [|? ?]]; destruct uo as [|[? ?] [|? ?]];
      repeat (match goal with |- context [if ?c then _ else _] => destruct c end); intros H; try discriminate;
      injection H as <- _; reflexivity.
  - apply step_sparse_err.
  - unfold Solver.step_mul. intros H. repeat kill_bind H. discriminate.
  - unfold Solver.step_add. intros H. repeat kill_bind H. discriminate.
  - unfold Solver.step_bool. intros H. repeat kill_bind H. destruct (eq_dec _ 0); [discriminate|]. injection H as <- _. reflexivity.
  - unfold Solver.step_hint. intros H.
    destruct (hev_all_cases v ins) as [[xs E]|E]; rewrite E in H; cbn [bind] in H; [|discriminate].
    destruct (orc hid nout xs) as [[outs ok]|]; [|injection H as <- _; left; reflexivity].
    destruct (negb _); [injection H as <- _; left; reflexivity|].
    destruct (set_range_cases outs v start) as [[v1 E1]|E1]; rewrite E1 in H; cbn [bind] in H; [|discriminate].
    destruct ok; [discriminate|]. injection H as <- _. right; reflexivity.
  - unfold Solver.step_lookup. intros H.
    destruct (hev_all_cases v entries) as [[es E]|E]; rewrite E in H; cbn [bind] in H; [|discriminate].
    destruct (hev_all_cases v ins) as [[qs E0]|E0]; rewrite E0 in H; cbn [bind] in H; [|discriminate].
    destruct (lookup_all F idx_of es qs) as [outs|]; [|injection H as <- _; reflexivity].
    destruct (set_range_cases outs v start) as [[v1 E1]|E1]; rewrite E1 in H; discriminate.
Qed.

Lemma step_unsat orc i j k v ins : step orc i v ins = Err k j -> k = EUnsat \/ k = EDivZero -> violated_forever v ins.
Proof.
  intros H Hk. pose proof (step_err_kind _ _ _ _ _ _ H) as K.
  destruct ins as [cid l r o|cid xa xb xc ql qr qo qm qc cm|cid xa xb xc qm|cid xa xb xc ql qr qc|cid xa ql qm|hid ins start nout|entries ins start];
    cbn [Solver.step] in H; unfold violated_forever; cbn [Solver.holds]; try contradiction; try discriminate.
  - subst k. eapply step_r1c_unsat; eassumption.
  - destruct cm; [discriminate|eapply step_sparse_unsat; eassumption].
  - subst k. destruct Hk; discriminate.
  - destruct K; subst k; destruct Hk; discriminate.
  - subst k. destruct Hk; discriminate.
Qed.

Lemma step_bool_err orc i j v ins : step orc i v ins = Err EBool j -> violated_forever v ins.
Proof.
  intros H. pose proof (step_err_kind _ _ _ _ _ _ H) as K.
  destruct ins as [cid l r o|cid xa xb xc ql qr qo qm qc cm|cid xa xb xc qm|cid xa xb xc ql qr qc|cid xa ql qm|hid ins start nout|entries ins start];
    try contradiction; try discriminate; try (destruct K; discriminate).
  cbn [Solver.step] in H. unfold Solver.step_bool in H. unfold violated_forever. cbn [Solver.holds].
  intros v' He (_ & _ & _ & _ & _ & Heq).
  getv_ok H v ql xa as r1 E1.
  getv_ok H v qm xa as r2 E2.
  getv_ok H v 1 xa as r3 E3.
  destruct (eq_dec _ 0) as [|NE]; [discriminate|]. apply NE.
  apply getv_spec in E1, E2, E3. destruct E1 as [-> _], E2 as [-> _], E3 as [-> U].
  assert (S : v xa <> None). { apply U. intros C. apply (F_1_neq_0 Fth). exact C. }
  unfold Solver.sparse_eq in Heq. rewrite (ext_val v v' xa He S) in Heq. etransitivity; [|exact Heq]. ring.
Qed.

Theorem run_err_violated orc : forall prog v k j,
  run orc v prog = Err k j -> k = EUnsat \/ k = EDivZero \/ k = EBool ->
  exists pre i ins post v1, prog = pre ++ (i, ins) :: post /\ run orc v pre = Ok v1 /\ violated_forever v1 ins.
Proof.
  induction prog as [|[i ins] prog IH]; intros v k j H Hk; cbn [Solver.run] in H.
  - discriminate.
  - destruct (step orc i v ins) as [v1|k0 i0|] eqn:E; cbn [bind] in H.
    + destruct (IH v1 k j H Hk) as (pre & i1 & ins1 & post & v2 & -> & Hr & Hv).
      exists ((i, ins) :: pre), i1, ins1, post, v2. split; [reflexivity|]. split; [|exact Hv].
      cbn [Solver.run]. rewrite E. cbn [bind]. exact Hr.
    + exists [], i, ins, prog, v. split; [reflexivity|]. split; [reflexivity|].
      injection H as -> ->.
      destruct Hk as [Hk|[Hk|Hk]].
      * eapply step_unsat; [eassumption|left; exact Hk].
      * eapply step_unsat; [eassumption|right; exact Hk].
      * subst k. eapply step_bool_err; eassumption.
    + discriminate.
Qed.

(* ------------------------------------------------------------ whole solve *)

Lemma all_solved_spec v n : all_solved F v n = true -> forall x, x < n -> v x <> None.
Proof.
  induction n as [|n IH]; intros H x Hx; [lia|]. cbn [Solver.all_solved] in H.
  apply andb_true_iff in H. destruct H as [H1 H2].
  destruct (Nat.eq_dec x n) as [->|NE]; [apply solved_val; exact H1|apply IH; [exact H2|lia]].
Qed.

Lemma pick_in instrs order prog : pick F instrs order = Some prog ->
  forall i ins, In (i, ins) prog <-> In i order /\ nth_error instrs i = Some ins.
Proof.
  revert prog. induction order as [|k order IH]; intros prog H; cbn [Solver.pick] in H.
  - injection H as <-. intros i ins; split; [intros []|intros [[] _]].
  - destruct (nth_error instrs k) as [insk|] eqn:Ek; [|discriminate].
    destruct (pick F instrs order) as [rest|]; [|discriminate]. injection H as <-.
    intros i ins. specialize (IH rest eq_refl i ins). split.
    + intros [Heq|Hin]; [injection Heq as <- <-; split; [left; reflexivity|exact Ek]|].
      destruct (proj1 IH Hin). split; [right; assumption|assumption].
    + intros [[->|Hin] Hn]; [left; congruence|right; apply IH; split; assumption].
Qed.

Theorem solve_ok_sat orc is_r1cs nbw instrs order w v :
  solve orc is_r1cs nbw instrs order w = Ok v ->
  extends (init_vals F one is_r1cs w) v /\
  (forall x, x < nbw -> v x <> None) /\
  (forall i ins, In i order -> nth_error instrs i = Some ins -> holds v ins).
Proof.
  unfold Solver.solve. destruct (pick F instrs order) as [prog|] eqn:P; [|discriminate].
  destruct (run orc (init_vals F one is_r1cs w) prog) as [v1| |] eqn:R; cbn [bind]; try discriminate.
  destruct (all_solved F v1 nbw) eqn:A; [|discriminate]. intros H; injection H as <-.
  destruct (run_ok_sat orc prog _ _ R) as [He Hh]. split; [exact He|]. split; [apply all_solved_spec; exact A|].
  intros i ins Hi Hn. apply (Hh i ins). apply (pick_in _ _ _ P). split; assumption.
Qed.

(* initial values: the witness (and ONE for R1CS) sit at the leading wires *)
Lemma init_from_nth k w x : init_from F k w (Nat.add k x) = nth_error w x.
Proof.
  revert k x. induction w as [|y w IH]; intros k x; cbn [Solver.init_from].
  - destruct x; reflexivity.
  - unfold Solver.set. destruct x as [|x].
    + rewrite Nat.add_0_r, Nat.eqb_refl. reflexivity.
    + replace (Nat.eqb (Nat.add k (S x)) k) with false by (symmetry; apply Nat.eqb_neq; lia).
      replace (Nat.add k (S x)) with (Nat.add (S k) x) by lia. apply IH.
Qed.

Theorem init_vals_witness is_r1cs w x :
  init_vals F one is_r1cs w x = if is_r1cs then nth_error (1 :: w) x else nth_error w x.
Proof. unfold Solver.init_vals. destruct is_r1cs; apply (init_from_nth 0). Qed.

(* sparse solution vectors: equal wire at two positions => equal values (copy constraints),
   public inputs in the leading rows of L *)
Theorem lro_copy v nb_pub size instrs :
  let '(lw, rw, ow) := lro_wires F nb_pub size instrs in
  let '(l, r, o) := lro F zero v nb_pub size instrs in
  forall pos pos' d, nth pos (lw ++ rw ++ ow) d = nth pos' (lw ++ rw ++ ow) d ->
     pos < length (lw ++ rw ++ ow) -> pos' < length (lw ++ rw ++ ow) ->
     nth pos (l ++ r ++ o) 0 = nth pos' (l ++ r ++ o) 0.
Proof.
  unfold Solver.lro. destruct (lro_wires F nb_pub size instrs) as [[lw rw] ow].
  intros pos pos' d Heq H1 H2. rewrite <- !map_app.
  rewrite (nth_indep _ 0 (val_or0 v d)) by (rewrite map_length; exact H1).
  rewrite (nth_indep _ 0 (val_or0 v d) (n:=pos')) by (rewrite map_length; exact H2).
  rewrite !map_nth. rewrite Heq. reflexivity.
Qed.

Theorem lro_public v nb_pub size instrs i : i < nb_pub ->
  nth i (fst (fst (lro F zero v nb_pub size instrs))) 0 = val_or0 v i.
Proof.
  intros Hi. unfold Solver.lro, Solver.lro_wires. cbn [fst].
  rewrite map_app, app_nth1 by (rewrite map_length, seq_length; exact Hi).
  rewrite (nth_indep _ 0 (val_or0 v 0%nat)) by (rewrite map_length, seq_length; exact Hi).
  rewrite map_nth, seq_nth by exact Hi. reflexivity.
Qed.

End Proofs.
