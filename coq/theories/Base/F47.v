(* F_47 (gnark's tinyfield test field): a fully proved field instance; the inverse law is
   checked on all 46 non-zero elements by computation. *)
From Coq Require Import ZArith Lia Field List Bool.
From GnarkV Require Import Base.Zp Base.Fp.
Import ListNotations.
Local Open Scope Z_scope.

Definition p47 : Z := 47.
Lemma p47_gt1 : 1 < p47. Proof. reflexivity. Qed.

Definition nonzero47 : list Z := map Z.of_nat (seq 1 46).

Lemma inv47_all : forallb (fun x => (invp p47 x * x) mod p47 =? 1) nonzero47 = true.
Proof. vm_compute. reflexivity. Qed.

Lemma inv47_ok : forall x, 0 < x < p47 -> (invp p47 x * x) mod p47 = 1.
Proof.
  intros x Hx. apply Z.eqb_eq.
  apply (proj1 (forallb_forall _ _) inv47_all x).
  unfold nonzero47. apply in_map_iff. exists (Z.to_nat x). split; [lia|].
  apply in_seq. unfold p47 in Hx. lia.
Qed.

Definition F47 := Fp p47.
Definition F47_field_theory := Fp_field_theory p47 p47_gt1 inv47_ok.
Definition mk47 : Z -> F47 := mk p47 p47_gt1.

(* all elements, for exhaustive enumeration *)
Definition elems47 : list F47 := map (fun n => mk47 (Z.of_nat n)) (seq 0 47).
Lemma elems47_complete : forall x : F47, In x elems47.
Proof.
  intros x. unfold elems47. apply in_map_iff. exists (Z.to_nat (val p47 x)).
  pose proof (val_range p47 p47_gt1 x) as R. split.
  - rewrite Z2Nat.id by lia. apply mk_val.
  - apply in_seq. unfold p47 in *. lia.
Qed.

Definition zero47 : F47 := f0 p47 p47_gt1.
Definition one47 : F47 := f1 p47 p47_gt1.
Definition add47 : F47 -> F47 -> F47 := fadd p47 p47_gt1.
Definition sub47 : F47 -> F47 -> F47 := fsub p47 p47_gt1.
Definition mul47 : F47 -> F47 -> F47 := fmul p47 p47_gt1.
Definition opp47 : F47 -> F47 := fopp p47 p47_gt1.
Definition inv47 : F47 -> F47 := finv p47 p47_gt1.
Definition div47 : F47 -> F47 -> F47 := fdiv p47 p47_gt1.
Definition eq_dec47 : forall a b : F47, {a = b} + {a <> b} := feq_dec p47.
Definition val47 : F47 -> Z := val p47.
Lemma F47_field : field_theory zero47 one47 add47 mul47 sub47 opp47 div47 inv47 (@eq F47).
Proof. exact F47_field_theory. Qed.
