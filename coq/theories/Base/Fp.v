(* The prime field as a type: canonical representatives with a (proof-irrelevant) range
   certificate.  [Fp_field_theory] is the field structure every field-generic theorem of the
   development can be instantiated with; for p = 47 the inverse law is established by
   computation (Base/F47.v), for the large scalar fields it is the hypothesis [inv_ok]
   (it follows from primality of p, which is not proved in Coq for the 254..761-bit moduli). *)
From Coq Require Import ZArith Lia Field Bool Eqdep_dec.
From GnarkV Require Import Base.Zp.
Local Open Scope Z_scope.

Section Fp.
Variable p : Z.
Hypothesis p_gt1 : 1 < p.

Definition canonb (z : Z) : bool := (z mod p =? z).
Definition Fp := { z : Z | canonb z = true }.

Lemma canonb_mod z : canonb (z mod p) = true.
Proof. unfold canonb. apply Z.eqb_eq. apply Z.mod_mod. lia. Qed.

Definition mk (z : Z) : Fp := exist _ (z mod p) (canonb_mod z).
Definition val (a : Fp) : Z := proj1_sig a.

Lemma val_range a : 0 <= val a < p.
Proof. destruct a as [z H]. cbn. unfold canonb in H. apply Z.eqb_eq in H. rewrite <- H. apply Z.mod_pos_bound. lia. Qed.

Lemma val_mod a : val a mod p = val a.
Proof. apply Z.mod_small, val_range. Qed.

Lemma Fp_eq a b : val a = val b -> a = b.
Proof.
  destruct a as [x Hx], b as [y Hy]. cbn. intros ->. f_equal. apply UIP_dec. apply bool_dec.
Qed.

Lemma val_mk z : val (mk z) = z mod p. Proof. reflexivity. Qed.
Lemma mk_val a : mk (val a) = a. Proof. apply Fp_eq. rewrite val_mk. apply val_mod. Qed.

Definition f0 : Fp := mk 0.
Definition f1 : Fp := mk 1.
Definition fadd (a b : Fp) : Fp := mk (val a + val b).
Definition fsub (a b : Fp) : Fp := mk (val a - val b).
Definition fmul (a b : Fp) : Fp := mk (val a * val b).
Definition fopp (a : Fp) : Fp := mk (- val a).
Definition finv (a : Fp) : Fp := mk (invp p (val a)).
Definition fdiv (a b : Fp) : Fp := fmul a (finv b).

Definition feq_dec (a b : Fp) : {a = b} + {a <> b}.
Proof.
  destruct (Z.eq_dec (val a) (val b)) as [E|NE]; [left; apply Fp_eq; exact E|right; intros ->; apply NE; reflexivity].
Defined.

Hypothesis inv_ok : forall x, 0 < x < p -> (invp p x * x) mod p = 1.

Ltac zmod_norm :=
  repeat (rewrite ?Zplus_mod_idemp_l, ?Zplus_mod_idemp_r, ?Zmult_mod_idemp_l, ?Zmult_mod_idemp_r,
                  ?Zminus_mod_idemp_l, ?Zminus_mod_idemp_r).

Lemma Fp_ring_theory : ring_theory f0 f1 fadd fmul fsub fopp (@eq Fp).
Proof.
  constructor; intros; apply Fp_eq; unfold fadd, fmul, fsub, fopp, f0, f1; rewrite ?val_mk.
  - zmod_norm. rewrite Z.add_0_l. apply val_mod.
  - f_equal; try ring.
  - zmod_norm. f_equal; try ring.
  - zmod_norm. rewrite Z.mul_1_l. apply val_mod.
  - f_equal; try ring.
  - zmod_norm. f_equal; try ring.
  - zmod_norm. f_equal; try ring.
  - zmod_norm. f_equal; try ring.
  - zmod_norm. replace (val x + - val x) with 0 by ring. reflexivity.
Qed.

Lemma Fp_field_theory : field_theory f0 f1 fadd fmul fsub fopp fdiv finv (@eq Fp).
Proof.
  constructor.
  - exact Fp_ring_theory.
  - intros E. apply (f_equal val) in E. unfold f1, f0 in E. rewrite !val_mk in E.
    rewrite Z.mod_0_l, Z.mod_small in E by lia. discriminate.
  - reflexivity.
  - intros a NE. apply Fp_eq. unfold fmul, finv, f1. rewrite !val_mk.
    rewrite Zmult_mod_idemp_l. rewrite (Z.mod_small 1) by lia.
    apply inv_ok. pose proof (val_range a).
    assert (val a <> 0). { intros E. apply NE. apply Fp_eq. unfold f0. rewrite val_mk, Z.mod_0_l by lia. exact E. }
    lia.
Qed.

End Fp.
