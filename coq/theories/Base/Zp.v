(* Executable prime-field arithmetic on canonical representatives in Z.
   This is the instance at which every field-generic model is evaluated by the
   correspondence checks.  The field-generic theorems assume [field_theory]; that the
   operations below form a field for prime [p] is proved in Base/ZpField.v. *)
From Coq Require Import ZArith List Bool.
Import ListNotations.
Local Open Scope Z_scope.

Definition addp (p a b : Z) : Z := (a + b) mod p.
Definition subp (p a b : Z) : Z := (a - b) mod p.
Definition mulp (p a b : Z) : Z := (a * b) mod p.
Definition oppp (p a : Z) : Z := (- a) mod p.

(* extended Euclid: invariant r_i = s_i * a (mod p) *)
Fixpoint egcd (fuel : nat) (r0 r1 s0 s1 : Z) : Z * Z :=
  match fuel with
  | O => (r0, s0)
  | S f => if r1 =? 0 then (r0, s0)
           else let q := r0 / r1 in egcd f r1 (r0 - q * r1) s1 (s0 - q * s1)
  end.

Definition egcd_fuel (p : Z) : nat := S (S (Z.to_nat (2 * Z.log2_up p))).

(* inverse, 0 for 0 (the convention of gnark-crypto's Inverse) *)
Definition invp (p a : Z) : Z :=
  let a' := a mod p in
  if a' =? 0 then 0 else snd (egcd (egcd_fuel p) p a' 0 1) mod p.

Definition divp (p a b : Z) : Z := mulp p a (invp p b).

Definition canon (p a : Z) : Z := a mod p.

Fixpoint powp (p a : Z) (n : nat) : Z :=
  match n with O => 1 mod p | S n' => mulp p a (powp p a n') end.

Definition eqbp (a b : Z) : bool := a =? b.
