From Coq Require Import List.
Import ListNotations.

(* Outcome of a modelled Go function: normal result, returned error (with a small tag), or
   a Go panic (never totalised away). *)
Inductive err_kind := EUnsat | EDivZero | EHint | ENotAllSolved | EBool | EOther.
Inductive res (A : Type) := Ok (a : A) | Err (k : err_kind) (i : nat) | Panic.
Arguments Ok {A}. Arguments Err {A}. Arguments Panic {A}.

Definition bind {A B} (r : res A) (f : A -> res B) : res B :=
  match r with Ok a => f a | Err k i => Err k i | Panic => Panic end.
Notation "'do' x <- r ; k" := (bind r (fun x => k)) (at level 200, x pattern, r at level 100, k at level 200).
