(* Properties of the documented meaning (Frontend/Spec.v). *)
From Coq Require Import ZArith List Bool.
From GnarkV Require Import Base.Zp Frontend.Spec.
Import ListNotations.
Local Open Scope Z_scope.

(* replace every occurrence of variable i among the operands by the constant z *)
Definition subst_arg (i : nat) (z : Z) (a : arg) : arg :=
  match a with AV j => if Nat.eqb i j then AC z else AV j | AC c => AC c end.
Definition subst_op (i : nat) (z : Z) (o : op) : op := (fst o, map (subst_arg i z) (snd o)).

Lemma aval_subst p vs i z a : nth_error vs i = Some z -> z mod p = z ->
  aval p vs (subst_arg i z a) = aval p vs a.
Proof.
  intros Hn Hz. destruct a as [c|j]; cbn; [reflexivity|].
  destruct (Nat.eqb i j) eqn:E; [|reflexivity].
  apply Nat.eqb_eq in E. subst j. cbn. rewrite Hz. symmetry. apply nth_error_nth. exact Hn.
Qed.

Theorem spec_step_const_agnostic p st o i z :
  nth_error (s_vals st) i = Some z -> z mod p = z ->
  spec_step p st (subst_op i z o) = spec_step p st o.
Proof.
  intros Hn Hz. unfold spec_step, subst_op. cbn [fst snd].
  rewrite map_map.
  rewrite (map_ext (fun a => aval p (s_vals st) (subst_arg i z a)) (aval p (s_vals st)))
    by (intros a; apply aval_subst; assumption).
  reflexivity.
Qed.
