(* The documented meaning of the frontend API calls (frontend/api.go doc comments), as an
   executable evaluator over Z mod p: straight-line programs, SSA variables (inputs first, then
   the results of each op in order).  [spec_eval] returns the values, whether every assertion
   holds, and whether the documented unconstrained case (DivUnchecked 0/0) was met. *)
From Coq Require Import ZArith List Bool.
From GnarkV Require Import Base.Zp.
Import ListNotations.
Local Open Scope Z_scope.

Inductive arg := AC (z : Z) | AV (i : nat).

Inductive opk :=
| OAdd | OSub | ONeg | OMul | OMulAcc | ODiv | ODivUnchecked | OInverse
| OToBinary (n : nat) | OFromBinary | OXor | OOr | OAnd | OSelect | OLookup2 | OIsZero | OCmp
| OAssertEq | OAssertDiff | OAssertBool | OAssertLeq | OHint2.

Definition op := (opk * list arg)%type.

Record sstate := { s_vals : list Z; s_ok : bool; s_free : bool }.

Section Spec.
Variable p : Z.

Definition aval (vs : list Z) (a : arg) : Z :=
  match a with AC z => z mod p | AV i => nth i vs 0 end.

Definition isb (z : Z) : bool := (z =? 0) || (z =? 1).
Definition b2z (b : bool) : Z := if b then 1 else 0.

Fixpoint bits_of (a : Z) (i n : nat) : list Z :=
  match n with O => [] | S n' => b2z (Z.testbit a (Z.of_nat i)) :: bits_of a (S i) n' end.

Fixpoint from_bits (bs : list Z) (i : nat) : Z :=
  match bs with [] => 0 | b :: bs' => b * 2 ^ (Z.of_nat i) + from_bits bs' (S i) end.

Definition spec_step (st : sstate) (o : op) : sstate :=
  let vs := s_vals st in
  let a := map (aval vs) (snd o) in
  let a0 := nth 0 a 0 in let a1 := nth 1 a 0 in let a2 := nth 2 a 0 in
  let push (rs : list Z) (ok : bool) := {| s_vals := vs ++ rs; s_ok := s_ok st && ok; s_free := s_free st |} in
  match fst o with
  | OAdd => push [fold_left (fun x y => (x + y) mod p) a 0] true
  | OSub => push [fold_left (fun x y => (x - y) mod p) (tl a) a0] true
  | ONeg => push [(- a0) mod p] true
  | OMul => push [fold_left (fun x y => (x * y) mod p) a (1 mod p)] true
  | OMulAcc => push [(a0 + a1 * a2) mod p] true
  | ODiv => if a1 =? 0 then push [0] false else push [divp p a0 a1] true
  | ODivUnchecked =>
      if a1 =? 0 then
        (if a0 =? 0 then {| s_vals := vs ++ [0]; s_ok := s_ok st; s_free := true |} else push [0] false)
      else push [divp p a0 a1] true
  | OInverse => if a0 =? 0 then push [0] false else push [invp p a0] true
  | OToBinary n => push (bits_of a0 O n) (a0 <? 2 ^ (Z.of_nat n))
  | OFromBinary => push [(from_bits a O) mod p] (forallb isb a)
  | OXor => push [b2z (xorb (negb (a0 =? 0)) (negb (a1 =? 0)))] (isb a0 && isb a1)
  | OOr => push [b2z (negb (a0 =? 0) || negb (a1 =? 0))] (isb a0 && isb a1)
  | OAnd => push [b2z (negb (a0 =? 0) && negb (a1 =? 0))] (isb a0 && isb a1)
  | OSelect => push [if a0 =? 0 then a2 else a1] (isb a0)
  | OLookup2 =>
      let idx := Nat.add (if a0 =? 0 then O else 1%nat) (if a1 =? 0 then O else 2%nat) in
      push [nth (2 + idx)%nat a 0] (isb a0 && isb a1)
  | OIsZero => push [b2z (a0 =? 0)] true
  | OCmp => push [(match a0 ?= a1 with Lt => -1 | Eq => 0 | Gt => 1 end) mod p] true
  | OAssertEq => push [] (a0 =? a1)
  | OAssertDiff => push [] (negb (a0 =? a1))
  | OAssertBool => push [] (isb a0)
  | OAssertLeq => push [] (a0 <=? a1)
  | OHint2 => push [(a0 + a1) mod p; (a0 * a1 + 1) mod p] true
  end.

Definition spec_eval (prog : list op) (inputs : list Z) : sstate :=
  fold_left spec_step prog {| s_vals := map (fun z => z mod p) inputs; s_ok := true; s_free := false |}.

End Spec.
