(* C04 correspondence: the documented meaning (Frontend/Spec.v) must predict the outcome observed
   on the real builders + solver: success iff every assertion holds and the exposed values are
   the documented ones. *)
From Coq Require Import ZArith List Bool.
From GnarkV Require Import Base.Zp Frontend.Spec CS.SolverZp.
Import ListNotations.
Local Open Scope Z_scope.

(* (field modulus, program, inputs, exposed variable indices, values given for them, observed success) *)
Definition c04case := (Z * list op * list Z * list nat * list Z * bool)%type.

Definition c04_predict (c : c04case) : bool :=
  let '(p, prog, inputs, outs, given, _) := c in
  let st := spec_eval p prog inputs in
  s_ok st && zlist_eqb (map (fun o => nth o (s_vals st) 0) outs) (map (fun z => z mod p) given).

Definition c04_check (c : c04case) : bool :=
  let '(_, _, _, _, _, observed) := c in Bool.eqb (c04_predict c) observed.

Fixpoint c04_mismatches (k : nat) (cs : list c04case) : list nat :=
  match cs with
  | [] => []
  | c :: cs' => if c04_check c then c04_mismatches (S k) cs' else k :: c04_mismatches (S k) cs'
  end.
