(* Cross-check of the two statements of the documented meaning: the field-generic relation
   BuilderR1CSProps.sem (about which compile_sound is proved), evaluated at Z mod p through its
   decision procedure trace_semb (trace_semb_sound), against the evaluator Frontend/Spec.v (tied to
   the real builders and solver by C04Cases.v): for every harness program inside the modelled core,
   the value trace computed by Spec.v satisfies sem at every call exactly when Spec.v says that all
   assertions hold. *)
From Coq Require Import ZArith List Bool Arith.
From GnarkV Require Import Base.Zp Frontend.Spec Frontend.BuilderR1CS Frontend.BuilderR1CSProps Frontend.C04Cases.
Import ListNotations.
Local Open Scope Z_scope.

Definition z_trace_semb (p : Z) :=
  trace_semb Z 0 (1 mod p) (addp p) (mulp p) (subp p) (oppp p) (divp p) (invp p) Z.eq_dec (fun z => z mod p).

Definition sem_check (c : c04case) : bool :=
  let '(p, prog, inputs, _, _, _) := c in
  if forallb (fun o : op => core_op (fst o)) prog then
    let st := spec_eval p prog inputs in
    let vs := map (fun z => z mod p) inputs in
    Bool.eqb (z_trace_semb p prog vs (skipn (length inputs) (s_vals st))) (s_ok st)
  else true.

Fixpoint sem_mismatches (k : nat) (cs : list c04case) : list nat :=
  match cs with
  | [] => []
  | c :: cs' => if sem_check c then sem_mismatches (S k) cs' else k :: sem_mismatches (S k) cs'
  end.

Definition sem_core_count (cs : list c04case) : nat :=
  length (filter (fun c : c04case => let '(_, prog, _, _, _, _) := c in forallb (fun o : op => core_op (fst o)) prog) cs).
