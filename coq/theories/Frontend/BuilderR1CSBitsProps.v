(* ToBinary (Frontend/BuilderR1CSBits.v), field-generic half of its meaning: under every assignment satisfying
   the emitted rows the returned digits are boolean (when outputs are constrained) and recompose to the operand,
   sum_i cst(2^i) * b_i = v.  (That the digits are those of the canonical representative - the reducedness check
   against q-1 - is the statement of Frontend/LeqCst.v about the MustBeLessOrEqCst rows and is decided on the
   emitted systems by the verified enumerator over F_47.) *)
From Coq Require Import Arith List Bool ZArith Ring Field Lia.
From GnarkV Require Import CS.Solver Frontend.Spec Frontend.Gadgets Frontend.BuilderR1CS Frontend.BuilderR1CSProps Frontend.BuilderR1CSBits.
Import ListNotations.

Section TB.
Variable F : Type.
Variables (zero one : F) (add mul sub : F -> F -> F) (opp : F -> F) (div : F -> F -> F) (inv : F -> F).
Hypothesis Fth : field_theory zero one add mul sub opp div inv (@eq F).
Add Field Ftb : Fth.
Variable eq_dec : forall x y : F, {x = y} + {x <> y}.
Variable cst : Z -> F.
Hypothesis cst0 : cst 0%Z = zero.
Hypothesis cst1 : cst 1%Z = one.
Hypothesis cst2 : cst 2%Z = add one one.
Notation ev := (BuilderR1CSProps.ev F zero add mul).
Notation good := (BuilderR1CSProps.good F zero one add mul).
Notation mstep := (BuilderR1CSProps.mstep F zero one add mul).
Notation pstep := (BuilderR1CSProps.pstep F zero one add mul).
Notation is_bool := (is_bool F zero one).
Notation fbv := (BuilderR1CSProps.fbv F zero add mul cst).
Notation tb_loop := (tb_loop F zero one add mul opp eq_dec cst).

Lemma tb_loop_ok bits : forall st sigma c r st', tb_loop st sigma c bits true = (r, st') ->
  mstep st st' (fun w => Forall (fun d => is_bool (ev w d)) bits /\ ev w r = add (ev w sigma) (fbv w c bits)).
Proof.
  induction bits as [|b bits IH]; intros st sigma c r st'; cbn [BuilderR1CSBits.tb_loop].
  - intros [= <- <-]. eapply mstep_weaken; [apply mstep_refl|]. intros w _ _. split; [constructor|]. cbn [BuilderR1CSProps.fbv].
    pose proof (Radd_0_l (F_R Fth)) as R0. pose proof (Radd_comm (F_R Fth)) as RC. rewrite RC, R0. reflexivity.
  - destruct (b_mul F zero one mul eq_dec st [b; cle F (cst c)]) as [m st1] eqn:M.
    destruct (b_add F zero one add opp eq_dec st1 [sigma; m] false) as [s' st2] eqn:A. cbn [negb]. intros H.
    apply IH in H. apply (mul_ok F zero one add mul sub opp div inv Fth eq_dec) in M. apply (add_ok F zero one add mul sub opp div inv Fth eq_dec) in A.
    eapply mstep_weaken; [eapply mstep_and; [apply pstep_mstep; exact M|eapply mstep_and; [apply pstep_mstep; exact A|
      eapply mstep_and; [apply (assert_bool_ok F zero one add mul sub opp div inv Fth eq_dec)|exact H]]]|].
    intros w G0 (E1 & E2 & Hb & HF & E3). cbn beta in *. split; [constructor; assumption|].
    rewrite E3, E2. cbn [BuilderR1CSProps.sum_ev fold_left BuilderR1CSProps.fbv]. rewrite E1.
    rewrite (prod2 F zero one add mul sub opp div inv Fth), (ev_cle F zero one add mul sub opp div inv Fth w _ G0).
    pose proof (F_R Fth) as RT. set (x := ev w b). set (k := cst c). set (y := fbv w (2 * c)%Z bits). set (z := ev w sigma).
    transitivity (add z (add (mul x k) y)); [symmetry; apply (Radd_assoc RT)|]. f_equal. f_equal. apply (Rmul_comm RT).
Qed.

Notation b_leq_cst := (b_leq_cst F zero one add mul opp eq_dec cst).
Notation b_tobinary := (b_tobinary F zero one add mul opp eq_dec cst).
Notation MT := (fun _ : nat -> F => True).

Lemma mstep_true st st' (P : (nat -> F) -> Prop) : mstep st st' P -> mstep st st' MT.
Proof. intros H. eapply mstep_weaken; [exact H|auto]. Qed.
Lemma mstep_tt st st1 st2 : mstep st st1 MT -> mstep st1 st2 MT -> mstep st st2 MT.
Proof. intros H1 H2. eapply mstep_weaken; [eapply mstep_and; eassumption|auto]. Qed.

Lemma p_loop_ok bound idxs : forall st pnext abits acc ps st',
  p_loop F zero one mul eq_dec st bound idxs pnext abits acc = (ps, st') -> mstep st st' MT.
Proof.
  induction idxs as [|i is IH]; intros st pnext abits acc ps st'; cbn [p_loop].
  - intros [= _ <-]. apply mstep_refl.
  - destruct (Z.testbit bound (Z.of_nat i)); [|apply IH].
    destruct (b_mul F zero one mul eq_dec st [pnext; nth i abits (le_zero F zero)]) as [p st1] eqn:M. intros H. apply IH in H.
    apply (mul_ok F zero one add mul sub opp div inv Fth eq_dec) in M. eapply mstep_tt; [eapply mstep_true; apply pstep_mstep; exact M|exact H].
Qed.

Lemma leq_rows_ok bound idxs : forall st ps abits, mstep st (leq_rows F zero one add opp eq_dec cst st bound idxs ps abits) MT.
Proof.
  induction idxs as [|i is IH]; intros st ps abits; cbn [leq_rows]; [apply mstep_refl|].
  destruct (Z.testbit bound (Z.of_nat i)).
  - eapply mstep_tt; [eapply mstep_true; apply (assert_bool_ok F zero one add mul sub opp div inv Fth eq_dec)|apply IH].
  - destruct (b_add F zero one add opp eq_dec st _ true) as [l1 st1] eqn:A1. destruct (b_add F zero one add opp eq_dec st1 _ true) as [l st2] eqn:A2.
    apply (add_ok F zero one add mul sub opp div inv Fth eq_dec) in A1, A2.
    eapply mstep_tt; [eapply mstep_true; apply pstep_mstep; exact A1|]. eapply mstep_tt; [eapply mstep_true; apply pstep_mstep; exact A2|].
    eapply mstep_tt; [eapply mstep_true; apply pstep_mstep; apply (row_pstep F zero one add mul sub opp div inv Fth)|apply IH].
Qed.

Lemma leq_cst_ok fbl st abits bound : mstep st (b_leq_cst fbl st abits bound) MT.
Proof.
  unfold BuilderR1CSBits.b_leq_cst. destruct (Nat.ltb _ _); [apply pstep_mstep, perr|]. destruct (_ || _); [apply pstep_mstep, perr|].
  destruct (p_loop F zero one mul eq_dec st bound _ _ _ _) as [ps st1] eqn:P. apply p_loop_ok in P.
  eapply mstep_tt; [exact P|apply leq_rows_ok].
Qed.

Lemma fbv_app w l1 : forall c l2, fbv w c (l1 ++ l2) = add (fbv w c l1) (fbv w (c * 2 ^ Z.of_nat (length l1))%Z l2).
Proof.
  pose proof (F_R Fth) as RT.
  induction l1 as [|d l1 IH]; intros c l2.
  - cbn [app length BuilderR1CSProps.fbv Z.of_nat]. rewrite Z.pow_0_r, Z.mul_1_r. symmetry. apply (Radd_0_l RT).
  - cbn [app length BuilderR1CSProps.fbv]. rewrite IH. rewrite Nat2Z.inj_succ, Z.pow_succ_r by lia.
    replace (2 * c * 2 ^ Z.of_nat (length l1))%Z with (c * (2 * 2 ^ Z.of_nat (length l1)))%Z by lia. apply (Radd_assoc RT).
Qed.

Lemma fbv_zeros w k : w O = one -> forall c, fbv w c (repeat (cle F (cst 0)) k) = zero.
Proof.
  intros G0. pose proof (F_R Fth) as RT. induction k as [|k IH]; intros c; cbn [repeat BuilderR1CSProps.fbv]; [reflexivity|].
  rewrite IH, (ev_cle F zero one add mul sub opp div inv Fth w _ G0), cst0. ring.
Qed.

(* ToBinary with constrained outputs: digits boolean, recomposition equals the operand (field-generic half) *)
Theorem tobinary_sound fbl qm1 st v n omit bits st' : b_tobinary fbl qm1 st v n false omit = (bits, st') ->
  mstep st st' (fun w => Forall (fun d => is_bool (ev w d)) bits /\ fbv w 1%Z bits = ev w v).
Proof.
  pose proof (F_R Fth) as RT. unfold BuilderR1CSBits.b_tobinary. destruct (Nat.eqb n 1).
  - intros [= <- <-]. eapply mstep_weaken; [apply (assert_bool_ok F zero one add mul sub opp div inv Fth eq_dec)|].
    intros w G0 Hb. cbn beta in Hb. split; [constructor; [exact Hb|constructor]|]. cbn [BuilderR1CSProps.fbv]. rewrite cst1.
    rewrite (Rmul_1_l RT), (Radd_comm RT). apply (Radd_0_l RT).
  - destruct (Nat.eqb (Nat.min n fbl) O); [intros [= <- <-]; apply pstep_mstep, perr|].
    destruct (b_hint F one st hid_nbits [v] (Nat.min n fbl)) as [hb st1] eqn:H. cbn [negb].
    destruct (tb_loop st1 (cle F (cst 0)) 1%Z hb true) as [sigma st2] eqn:T. intros [= <- <-].
    apply (hint_ext F zero one add mul) in H. destruct H as [X1 B1]. apply tb_loop_ok in T.
    assert (P1 : mstep st st1 MT) by (apply pstep_mstep; split; [exact X1|split; [exact B1|auto]]).
    assert (LAST : mstep (b_assert_eq F zero one eq_dec st2 sigma v)
                         (if omit || Nat.ltb n fbl then b_assert_eq F zero one eq_dec st2 sigma v else b_leq_cst fbl (b_assert_eq F zero one eq_dec st2 sigma v) hb qm1) MT).
    { destruct (omit || Nat.ltb n fbl); [apply mstep_refl|apply leq_cst_ok]. }
    eapply mstep_weaken; [eapply mstep_and; [exact P1|eapply mstep_and; [exact T|eapply mstep_and; [apply pstep_mstep; apply (assert_eq_ok F zero one add mul sub opp div inv Fth eq_dec)|exact LAST]]]|].
    intros w G0 (_ & (HF & E1) & E2 & _). cbn beta in *. split.
    + apply Forall_app. split; [exact HF|]. apply Forall_forall. intros d IN. apply repeat_spec in IN. rewrite IN, (ev_cle F zero one add mul sub opp div inv Fth w _ G0), cst0. left. reflexivity.
    + rewrite fbv_app, (fbv_zeros w _ G0), <- E2, E1, (ev_cle F zero one add mul sub opp div inv Fth w _ G0), cst0.
      rewrite (Radd_0_l RT), (Radd_comm RT), (Radd_0_l RT). reflexivity.
Qed.

End TB.
