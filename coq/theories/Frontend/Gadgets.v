(* The constraint patterns the builders emit for the non-linear API operations
   (frontend/cs/r1cs/api.go, frontend/cs/scs/api.go), as relations over an arbitrary field, and
   the proof that each is *equivalent* to the documented meaning: satisfiable in the auxiliary
   (hinted / internal) wires exactly for the documented output.  These are the field-generic
   halves of C04 (an honest extension exists) and C05 (no other output is satisfiable); the
   emitted constraints themselves are decided against Spec.v by the verified enumerator. *)
From Coq Require Import Ring Field Bool.

Section Gadgets.
Variable F : Type.
Variables (zero one : F) (add mul sub : F -> F -> F) (opp : F -> F) (div : F -> F -> F) (inv : F -> F).
Hypothesis Fth : field_theory zero one add mul sub opp div inv (@eq F).
Add Field Ffg : Fth.
Variable eq_dec : forall x y : F, {x = y} + {x <> y}.
Notation "0" := zero. Notation "1" := one.
Infix "+" := add. Infix "*" := mul. Infix "-" := sub. Infix "/" := div.

Lemma one_neq_zero : 1 <> 0. Proof. exact (F_1_neq_0 Fth). Qed.

Lemma integral x y : x * y = 0 -> x = 0 \/ y = 0.
Proof.
  intros H. destruct (eq_dec x 0) as [E|NE]; [left; exact E|right].
  assert (E : y = inv x * (x * y)) by (field; exact NE). rewrite E, H. ring.
Qed.

Definition is_bool (b : F) : Prop := b = 0 \/ b = 1.
Definition inj (b : bool) : F := if b then 1 else 0.

(* AssertIsBoolean: b * (1 - b) = 0 *)
Theorem boolean_rel b : b * (1 - b) = 0 <-> is_bool b.
Proof.
  split.
  - intros H. destruct (integral _ _ H) as [E|E]; [left; exact E|right].
    assert (b = 1 - (1 - b)) as -> by ring. rewrite E. ring.
  - intros [-> | ->]; ring.
Qed.

(* IsZero: hint x, rows  -a * x = m - 1  and  a * m = 0 *)
Theorem iszero_rel a m : (exists x, opp a * x = m - 1 /\ a * m = 0) <-> m = inj (if eq_dec a 0 then true else false).
Proof.
  destruct (eq_dec a 0) as [E|NE]; cbn [inj]; split.
  - intros [x [H1 _]]. rewrite E in H1. assert (m = (m - 1) + 1) as -> by ring. rewrite <- H1. ring.
  - intros ->. exists 0. rewrite E. split; ring.
  - intros [x [_ H2]]. destruct (integral _ _ H2); [contradiction|assumption].
  - intros ->. exists (inv a). split; [field; exact NE|ring].
Qed.

(* Div: res * b = a together with b * inv = 1 (Inverse of the divisor) *)
Theorem div_rel a b res : (exists i, b * i = 1 /\ res * b = a) <-> (b <> 0 /\ res = a / b).
Proof.
  split.
  - intros [i [H1 H2]]. assert (NB : b <> 0).
    { intros E. rewrite E in H1. apply one_neq_zero. rewrite <- H1. ring. }
    split; [exact NB|]. rewrite <- H2. field. exact NB.
  - intros [NB ->]. exists (inv b). split; field; exact NB.
Qed.

(* DivUnchecked: the single row res * b = a; for a = b = 0 every res satisfies it (documented) *)
Theorem div_unchecked_rel a b res : res * b = a <-> ((b <> 0 /\ res = a / b) \/ (b = 0 /\ a = 0)).
Proof.
  split.
  - intros H. destruct (eq_dec b 0) as [E|NE].
    + right. split; [exact E|]. rewrite <- H, E. ring.
    + left. split; [exact NE|]. rewrite <- H. field. exact NE.
  - intros [[NB ->] | [-> ->]]; [field; exact NB|ring].
Qed.

(* Inverse: a * res = 1 *)
Theorem inverse_rel a res : a * res = 1 <-> (a <> 0 /\ res = inv a).
Proof.
  split.
  - intros H. assert (NA : a <> 0). { intros E. rewrite E in H. apply one_neq_zero. rewrite <- H. ring. }
    split; [exact NA|]. assert (res = inv a * (a * res)) as -> by (field; exact NA). rewrite H. ring.
  - intros [NA ->]. field. exact NA.
Qed.

(* AssertIsDifferent(a, b) = Inverse(a - b) *)
Theorem assert_different_rel a b : (exists i, (a - b) * i = 1) <-> a <> b.
Proof.
  split.
  - intros [i H] E. rewrite E in H. apply one_neq_zero. rewrite <- H. ring.
  - intros NE. exists (inv (a - b)). field. intros E. apply NE. assert (a = (a - b) + b) as -> by ring. rewrite E. ring.
Qed.

(* the algebraic forms used for boolean connectives and selection agree with the truth tables *)
Theorem xor_rel x y : inj x + inj y - (1 + 1) * (inj x * inj y) = inj (xorb x y).
Proof. destruct x, y; cbn; ring. Qed.
Theorem xor_rel' x y : inj x * (1 - (1 + 1) * inj y) + inj y = inj (xorb x y).
Proof. destruct x, y; cbn; ring. Qed.
Theorem or_rel x y : inj x + inj y - inj x * inj y = inj (orb x y).
Proof. destruct x, y; cbn; ring. Qed.
Theorem and_rel x y : inj x * inj y = inj (andb x y).
Proof. destruct x, y; cbn; ring. Qed.
Theorem select_rel b u v : inj b * (u - v) + v = if b then u else v.
Proof. destruct b; cbn; ring. Qed.
Theorem lookup2_rel b0 b1 i0 i1 i2 i3 :
  let t0 := inj b0 * (i1 - i0) + i0 in
  let t1 := inj b0 * (i3 - i2) + i2 in
  inj b1 * (t1 - t0) + t0 = if b1 then (if b0 then i3 else i2) else (if b0 then i1 else i0).
Proof. destruct b0, b1; cbn; ring. Qed.

(* a boolean-constrained wire carries the injection of a boolean: lets the lemmas above apply *)
Theorem is_bool_inj b : is_bool b <-> exists c, b = inj c.
Proof.
  split.
  - intros [-> | ->]; [exists false|exists true]; reflexivity.
  - intros [[] ->]; [right|left]; reflexivity.
Qed.

End Gadgets.
