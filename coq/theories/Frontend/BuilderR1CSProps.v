(* Soundness of the R1CS builder model (Frontend/BuilderR1CS.v) with respect to the documented
   meaning of the API, over an arbitrary field:

     compile_sound : for every program over the modelled core, every compression threshold and
       every set of exposed variables, if the builder did not panic then every assignment
       satisfying the emitted rows (ONE wire = 1) gives the program variables the values the
       documented meaning prescribes (trace_sem: one existential per call, so the documented
       freedom of DivUnchecked 0/0 and of hint outputs is explicit), makes every assertion of the
       program true, and gives every exposed variable the value of its public output wire.

     compile_complete : conversely, whenever the documented meaning admits a value trace from given
       inputs (every assertion holds; the free results of DivUnchecked 0/0 and of hints chosen
       arbitrarily) and the builder did not panic, the emitted system has a satisfying assignment
       with these inputs, realising exactly this trace, whose public output wires carry the values
       of the exposed variables.  Frame argument over wire scopes ([below], [wfst], [agree]):
       every builder function has an x-lemma (the assignment extends on the new wires); the
       values are then read off the soundness lemmas, [sem_det] for the deterministic calls.

   Structure: [ev] evaluates a linear expression; [ev_merge] is the value of builder.add's merge;
   every builder function has a lemma of the form pstep / mstep st st' P: the system of st' extends
   the one of st, the boolean marks stay justified ([marks_ok]: every marked expression is boolean
   under every satisfying assignment - the invariant that makes skipping a repeated
   AssertIsBoolean sound), and P holds of every satisfying assignment of st'. *)
From Coq Require Import Arith List Bool ZArith Ring Field Lia.
From GnarkV Require Import CS.Solver Frontend.Spec Frontend.Gadgets Frontend.BuilderR1CS.
Import ListNotations.

Section BP.
Variable F : Type.
Variables (zero one : F) (add mul sub : F -> F -> F) (opp : F -> F) (div : F -> F -> F) (inv : F -> F).
Hypothesis Fth : field_theory zero one add mul sub opp div inv (@eq F).
Add Field Fbp : Fth.
Variable eq_dec : forall x y : F, {x = y} + {x <> y}.
Variable cst : Z -> F.
Hypothesis cst0 : cst 0%Z = zero.
Hypothesis cst1 : cst 1%Z = one.
Hypothesis cst2 : cst 2%Z = add one one.
Notation "0" := zero. Notation "1" := one.
Infix "+" := add. Infix "*" := mul. Infix "-" := sub. Infix "/" := div.
Notation lexp := (lexp F).
Notation bstate := (bstate F).
Notation is_bool := (is_bool F zero one).

Notation feqb := (feqb F eq_dec).
Notation is_const := (is_const F zero eq_dec).
Notation cle := (cle F).
Notation le_one := (le_one F one).
Notation le_zero := (le_zero F zero).
Notation scale := (scale F mul).
Notation neg_le := (neg_le F opp).
Notation ins_term := (ins_term F add).
Notation ins_le := (ins_le F zero add opp eq_dec).
Notation merge_les := (merge_les F zero add opp eq_dec).

Definition ev (w : nat -> F) (l : lexp) : F := fold_right (fun t acc => fst t * w (snd t) + acc) 0 l.

Lemma feqb_true x y : feqb x y = true <-> x = y.
Proof. unfold BuilderR1CS.feqb. destruct (eq_dec x y); split; congruence. Qed.
Lemma feqb_false x y : feqb x y = false <-> x <> y.
Proof. unfold BuilderR1CS.feqb. destruct (eq_dec x y); split; congruence. Qed.

Lemma ev_cons w c x l : ev w ((c, x) :: l) = c * w x + ev w l.
Proof. reflexivity. Qed.
Lemma ev_nil w : ev w [] = 0.
Proof. reflexivity. Qed.

Lemma ev_app w a b : ev w (a ++ b) = ev w a + ev w b.
Proof. induction a as [|[c x] a IH]; [rewrite ev_nil; simpl app; ring|]. rewrite <- app_comm_cons, !ev_cons, IH. ring. Qed.

Lemma ev_cle w c : w O = 1 -> ev w (cle c) = c.
Proof. intros H. unfold BuilderR1CS.cle. rewrite ev_cons, H, ev_nil. ring. Qed.

Lemma ev_le_zero w : ev w le_zero = 0.
Proof. unfold BuilderR1CS.le_zero, BuilderR1CS.cle. rewrite ev_cons, ev_nil. ring. Qed.

Lemma ev_scale w l k : ev w (scale l k) = ev w l * k.
Proof. unfold BuilderR1CS.scale. induction l as [|[c x] l IH]; simpl map; [rewrite !ev_nil; ring|]. rewrite !ev_cons, IH. ring. Qed.

Lemma ev_neg w l : ev w (neg_le l) = opp (ev w l).
Proof. unfold BuilderR1CS.neg_le. induction l as [|[c x] l IH]; simpl map; [rewrite !ev_nil; ring|]. rewrite !ev_cons, IH. ring. Qed.

Lemma is_const_ev w l c : w O = 1 -> is_const l = Some c -> ev w l = c.
Proof.
  intros H. unfold BuilderR1CS.is_const. destruct l as [|[c0 x] [|t l]]; try discriminate.
  destruct (feqb c0 0) eqn:E0.
  - intros [= <-]. apply feqb_true in E0. subst c0. rewrite ev_cons, ev_nil. ring.
  - destruct (Nat.eqb x O) eqn:Ex; [|discriminate]. intros [= <-]. apply Nat.eqb_eq in Ex. subst x. rewrite ev_cons, ev_nil, H. ring.
Qed.

Lemma ev_ins_term w c x l : ev w (ins_term c x l) = c * w x + ev w l.
Proof.
  induction l as [|[c' x'] l IH]; cbn [BuilderR1CS.ins_term].
  - rewrite !ev_cons, !ev_nil. ring.
  - destruct (Nat.ltb x x') eqn:E1; [rewrite !ev_cons; ring|].
    destruct (Nat.eqb x x') eqn:E2.
    + apply Nat.eqb_eq in E2. subst x'. rewrite !ev_cons. ring.
    + rewrite !ev_cons, IH. ring.
Qed.

Lemma ev_ins_le w ng l acc : ev w (ins_le ng l acc) = (if ng then opp (ev w l) else ev w l) + ev w acc.
Proof.
  unfold BuilderR1CS.ins_le. revert acc. induction l as [|[c x] l IH]; intros acc; cbn [fold_left].
  - rewrite ev_nil. destruct ng; ring.
  - rewrite IH. cbn [fst snd]. rewrite ev_cons. destruct (feqb c 0) eqn:E.
    + apply feqb_true in E. subst c. destruct ng; ring.
    + rewrite ev_ins_term. destruct ng; ring.
Qed.

Lemma ev_filter_nz w l : ev w (filter (fun t : term F => negb (feqb (fst t) 0)) l) = ev w l.
Proof.
  induction l as [|[c x] l IH]; cbn [filter]; [reflexivity|]. cbn [fst]. destruct (feqb c 0) eqn:E; cbn [negb].
  - apply feqb_true in E. subst c. rewrite ev_cons, IH. ring.
  - rewrite !ev_cons, IH. reflexivity.
Qed.

Definition sum_ev (w : nat -> F) (sb : bool) (vars : list lexp) : F :=
  match vars with
  | [] => 0
  | v :: vs => fold_left (fun a l => if sb then a - ev w l else a + ev w l) vs (ev w v)
  end.

Lemma ev_merge w vars sb : ev w (merge_les vars sb) = sum_ev w sb vars.
Proof.
  unfold BuilderR1CS.merge_les.
  set (acc := match vars with [] => [] | v :: vs => fold_left (fun a l => ins_le sb l a) vs (ins_le false v []) end).
  assert (Hacc : ev w acc = sum_ev w sb vars).
  { subst acc. destruct vars as [|v vs]; [reflexivity|]. cbn [sum_ev].
    assert (G : forall a0, ev w (fold_left (fun a l => ins_le sb l a) vs a0) =
                          fold_left (fun a l => if sb then a - ev w l else a + ev w l) vs (ev w a0)).
    { induction vs as [|u vs IH]; intros a0; cbn [fold_left]; [reflexivity|].
      rewrite IH, ev_ins_le. f_equal. destruct sb; ring. }
    rewrite G, ev_ins_le. f_equal. rewrite ev_nil. ring. }
  rewrite <- Hacc, <- (ev_filter_nz w acc).
  destruct (filter _ acc); [apply ev_le_zero|reflexivity].
Qed.


(* ---------------------------------------------------------------- states *)
Notation b_newvar := (b_newvar F one).
Notation b_row := (b_row F).
Notation b_hint := (b_hint F one).
Notation b_compress := (b_compress F one).
Notation b_add := (b_add F zero one add opp eq_dec).
Notation b_neg := (b_neg F zero opp eq_dec).
Notation b_mul2 := (b_mul2 F zero one mul eq_dec).
Notation b_mul_list := (b_mul_list F zero one mul eq_dec).
Notation b_mul := (b_mul F zero one mul eq_dec).
Notation set_err := (set_err F).

Definition row_sat (w : nat -> F) (i : instr F) : Prop :=
  match i with IR1C _ _ l r o => ev w l * ev w r = ev w o | _ => True end.
Definition good (w : nat -> F) (st : bstate) : Prop := w O = 1 /\ Forall (row_sat w) (b_instrs F st).
(* the system of st' contains the system of st; a compile-time panic is never forgotten *)
Definition ext (st st' : bstate) : Prop :=
  (forall w, good w st' -> good w st) /\ (b_err F st = true -> b_err F st' = true).
(* every linear expression marked boolean is boolean under every assignment satisfying the rows *)
Definition marks_ok (st : bstate) : Prop :=
  b_err F st = false -> forall w, good w st -> forall l, In l (b_bools F st) -> is_bool (ev w l).

Lemma ext_refl st : ext st st. Proof. split; auto. Qed.
Lemma ext_trans a b c : ext a b -> ext b c -> ext a c.
Proof. intros [H1 H2] [H3 H4]. split; auto. Qed.
Lemma ext_err st st' : ext st st' -> b_err F st' = false -> b_err F st = false.
Proof. intros [_ H] E. destruct (b_err F st); [rewrite H in E; [discriminate|reflexivity]|reflexivity]. Qed.

Lemma marks_same st st' : ext st st' -> b_bools F st' = b_bools F st -> marks_ok st -> marks_ok st'.
Proof.
  intros X B M E w G l I. rewrite B in I. apply (M (ext_err _ _ X E) w (proj1 X w G) l I).
Qed.

Lemma ext_set_err st : ext st (set_err st).
Proof. split; [intros w G; exact G|reflexivity]. Qed.

Lemma good_row w st l r o : good w (b_row st l r o) <-> good w st /\ ev w l * ev w r = ev w o.
Proof.
  unfold good, BuilderR1CS.b_row. destruct (Nat.ltb (length r) (length l)); cbn [b_instrs]; split.
  - intros [H0 HF]. inversion HF as [|i is Hi His]. cbn in Hi. repeat split; auto. rewrite <- Hi. ring.
  - intros [[H0 HF] E]. split; [exact H0|]. constructor; [cbn; rewrite <- E; ring|exact HF].
  - intros [H0 HF]. inversion HF as [|i is Hi His]. cbn in Hi. repeat split; auto.
  - intros [[H0 HF] E]. split; [exact H0|]. constructor; [exact E|exact HF].
Qed.

Lemma row_ext st l r o : ext st (b_row st l r o).
Proof.
  split; [intros w G; apply good_row in G; tauto|].
  unfold BuilderR1CS.b_row. destruct (Nat.ltb _ _); cbn; auto.
Qed.
Lemma row_bools st l r o : b_bools F (b_row st l r o) = b_bools F st.
Proof. unfold BuilderR1CS.b_row. destruct (Nat.ltb _ _); reflexivity. Qed.
Lemma row_err st l r o : b_err F (b_row st l r o) = b_err F st.
Proof. unfold BuilderR1CS.b_row. destruct (Nat.ltb _ _); reflexivity. Qed.

Lemma newvar_spec st r st' : b_newvar st = (r, st') ->
  r = [(1, b_next F st)] /\ b_instrs F st' = b_instrs F st /\ b_bools F st' = b_bools F st /\ b_err F st' = b_err F st.
Proof. unfold BuilderR1CS.b_newvar. intros [= <- <-]. cbn. auto. Qed.
Lemma newvar_ext st r st' : b_newvar st = (r, st') -> ext st st' /\ b_bools F st' = b_bools F st.
Proof.
  intros H. apply newvar_spec in H. destruct H as (_ & I & B & E). split; [|exact B].
  split; [intros w [G0 G]; split; [exact G0|rewrite <- I; exact G]|rewrite E; auto].
Qed.

Lemma hint_ext st hid ins n rs st' : b_hint st hid ins n = (rs, st') -> ext st st' /\ b_bools F st' = b_bools F st.
Proof.
  unfold BuilderR1CS.b_hint. intros [= <- <-]. cbn. split; [|reflexivity].
  split; [|cbn; auto]. intros w [G0 G]. split; [exact G0|]. cbn in G. inversion G; assumption.
Qed.

(* a non-marking step: system extended, marks unchanged, and a fact about every satisfying assignment *)
Definition pstep (st st' : bstate) (P : (nat -> F) -> Prop) : Prop :=
  ext st st' /\ b_bools F st' = b_bools F st /\ forall w, good w st' -> b_err F st' = false -> P w.

Lemma pstep_marks st st' P : pstep st st' P -> marks_ok st -> marks_ok st'.
Proof. intros (X & B & _). apply marks_same; assumption. Qed.

Lemma compress_ok st l r st' : b_compress st l = (r, st') -> pstep st st' (fun w => ev w r = ev w l).
Proof.
  unfold BuilderR1CS.b_compress. destruct (_ || _).
  - intros [= <- <-]. split; [apply ext_refl|split; [reflexivity|reflexivity]].
  - destruct (b_newvar st) as [t st1] eqn:N. intros [= <- <-].
    destruct (newvar_ext _ _ _ N) as [X B].
    split; [eapply ext_trans; [exact X|apply row_ext]|]. split; [rewrite row_bools; exact B|].
    intros w G _. apply good_row in G. destruct G as [[G0 _] E].
    unfold BuilderR1CS.le_one in E. rewrite (ev_cle w 1 G0) in E. rewrite <- E. ring.
Qed.

Lemma add_ok st vars sb r st' : b_add st vars sb = (r, st') -> pstep st st' (fun w => ev w r = sum_ev w sb vars).
Proof.
  unfold BuilderR1CS.b_add. intros H. apply compress_ok in H. destruct H as (X & B & V).
  split; [exact X|split; [exact B|]]. intros w G E. rewrite (V w G E). apply ev_merge.
Qed.

Lemma neg_ok w st v : w O = 1 -> ev w (b_neg st v) = opp (ev w v).
Proof.
  intros H. unfold BuilderR1CS.b_neg. destruct (is_const v) eqn:C.
  - rewrite (is_const_ev w v f H C), (ev_cle w _ H). reflexivity.
  - apply ev_neg.
Qed.

Lemma mul2_ok st v1 v2 r st' : b_mul2 st v1 v2 = (r, st') -> pstep st st' (fun w => ev w r = ev w v1 * ev w v2).
Proof.
  unfold BuilderR1CS.b_mul2. destruct (is_const v1) eqn:C1, (is_const v2) eqn:C2.
  - intros [= <- <-]. split; [apply ext_refl|split; [reflexivity|]]. intros w [G0 _] _.
    rewrite (ev_cle w _ G0), (is_const_ev w v1 _ G0 C1), (is_const_ev w v2 _ G0 C2). reflexivity.
  - intros [= <- <-]. split; [apply ext_refl|split; [reflexivity|]]. intros w [G0 _] _.
    rewrite ev_scale, (is_const_ev w v1 _ G0 C1). ring.
  - intros [= <- <-]. split; [apply ext_refl|split; [reflexivity|]]. intros w [G0 _] _.
    rewrite ev_scale, (is_const_ev w v2 _ G0 C2). ring.
  - destruct (b_newvar st) as [t st1] eqn:N. intros [= <- <-].
    destruct (newvar_ext _ _ _ N) as [X B].
    split; [eapply ext_trans; [exact X|apply row_ext]|]. split; [rewrite row_bools; exact B|].
    intros w G _. apply good_row in G. destruct G as [_ E]. symmetry. exact E.
Qed.

Lemma pstep_trans st st1 st2 (P Q R : (nat -> F) -> Prop) :
  pstep st st1 P -> pstep st1 st2 Q ->
  (forall w, P w -> Q w -> R w) -> pstep st st2 R.
Proof.
  intros (X1 & B1 & V1) (X2 & B2 & V2) H. split; [eapply ext_trans; eassumption|]. split; [congruence|].
  intros w G E. apply H; [apply V1; [apply X2; exact G|eapply ext_err; eassumption]|apply V2; assumption].
Qed.

Lemma pstep_refl st (P : (nat -> F) -> Prop) : (forall w, good w st -> P w) -> pstep st st P.
Proof. intros H. split; [apply ext_refl|split; [reflexivity|]]. intros w G _. auto. Qed.

Lemma pstep_weaken st st' (P Q : (nat -> F) -> Prop) : pstep st st' P -> (forall w, w O = 1 -> P w -> Q w) -> pstep st st' Q.
Proof. intros (X & B & V) H. split; [exact X|split; [exact B|]]. intros w G E. apply H; [apply G|apply V; assumption]. Qed.

Lemma mul_list_ok vs : forall st acc r st', b_mul_list st acc vs = (r, st') ->
  pstep st st' (fun w => ev w r = fold_left (fun a l => a * ev w l) vs (ev w acc)).
Proof.
  induction vs as [|v vs IH]; intros st acc r st'; cbn [BuilderR1CS.b_mul_list].
  - intros [= <- <-]. apply pstep_refl. reflexivity.
  - destruct (b_mul2 st acc v) as [r1 st1] eqn:M. intros H. apply IH in H. apply mul2_ok in M.
    eapply pstep_trans; [exact M|exact H|]. intros w E1 E2. cbn [fold_left]. rewrite E2, E1. reflexivity.
Qed.

Definition prod_ev (w : nat -> F) (vars : list lexp) : F := fold_left (fun a l => a * ev w l) vars 1.

Lemma fold_mul_scale w vs : forall a, fold_left (fun a l => a * ev w l) vs a = a * fold_left (fun a l => a * ev w l) vs 1.
Proof. induction vs as [|v vs IH]; intros a; cbn [fold_left]; [ring|]. rewrite (IH (a * ev w v)), (IH (1 * ev w v)). ring. Qed.

Lemma mul_ok st vars r st' : b_mul st vars = (r, st') -> pstep st st' (fun w => ev w r = prod_ev w vars).
Proof.
  unfold BuilderR1CS.b_mul. destruct vars as [|v1 [|v2 vs]].
  - intros [= <- <-]. split; [apply ext_set_err|split; [reflexivity|]]. intros w _ E. discriminate E.
  - intros [= <- <-]. split; [apply ext_set_err|split; [reflexivity|]]. intros w _ E. discriminate E.
  - destruct (b_mul2 st v1 v2) as [r1 st1] eqn:M. intros H. apply mul_list_ok in H. apply mul2_ok in M.
    eapply pstep_trans; [exact M|exact H|]. intros w E1 E2. unfold prod_ev. cbn [fold_left].
    rewrite E2, E1. rewrite (fold_mul_scale w vs (1 * ev w v1 * ev w v2)), (fold_mul_scale w vs (ev w v1 * ev w v2)). ring.
Qed.


(* ---------------------------------------------------------------- steps that may mark *)
Notation b_mark := (b_mark F zero one eq_dec).
Notation is_marked := (is_marked F eq_dec).
Notation le_eqb := (le_eqb F eq_dec).
Notation b_assert_bool := (b_assert_bool F zero one add opp eq_dec).
Notation b_assert_eq := (b_assert_eq F zero one eq_dec).
Notation b_inverse := (b_inverse F zero one inv eq_dec).
Notation b_div := (b_div F zero one mul inv eq_dec).
Notation b_divunchecked := (b_divunchecked F zero one mul inv eq_dec).
Notation b_assert_diff := (b_assert_diff F zero one add opp inv eq_dec).

Definition mstep (st st' : bstate) (P : (nat -> F) -> Prop) : Prop :=
  ext st st' /\ (marks_ok st -> marks_ok st' /\ forall w, good w st' -> b_err F st' = false -> P w).

Lemma pstep_mstep st st' P : pstep st st' P -> mstep st st' P.
Proof. intros H. split; [apply H|]. intros M. split; [eapply pstep_marks; eassumption|apply H]. Qed.

Lemma mstep_and st st1 st2 (P Q : (nat -> F) -> Prop) :
  mstep st st1 P -> mstep st1 st2 Q -> mstep st st2 (fun w => P w /\ Q w).
Proof.
  intros [X1 H1] [X2 H2]. split; [eapply ext_trans; eassumption|]. intros M.
  destruct (H1 M) as [M1 V1]. destruct (H2 M1) as [M2 V2]. split; [exact M2|].
  intros w G E. split; [apply V1; [apply X2; exact G|eapply ext_err; eassumption]|apply V2; assumption].
Qed.

Lemma mstep_weaken st st' (P Q : (nat -> F) -> Prop) : mstep st st' P -> (forall w, w O = 1 -> P w -> Q w) -> mstep st st' Q.
Proof. intros [X H] I. split; [exact X|]. intros M. destruct (H M) as [M' V]. split; [exact M'|]. intros w G E. apply I; [apply G|apply V; assumption]. Qed.

Lemma mstep_refl st : mstep st st (fun _ => True).
Proof. split; [apply ext_refl|]. intros M. split; auto. Qed.

Lemma mark_instrs st v : b_instrs F (b_mark st v) = b_instrs F st.
Proof. unfold BuilderR1CS.b_mark. destruct (is_const v); [destruct (_ || _)|]; reflexivity. Qed.
Lemma mark_err st v : b_err F (b_mark st v) = false -> b_err F st = false.
Proof. unfold BuilderR1CS.b_mark. destruct (is_const v); [destruct (_ || _)|]; cbn; auto; discriminate. Qed.
Lemma mark_err' st v : b_err F st = true -> b_err F (b_mark st v) = true.
Proof. unfold BuilderR1CS.b_mark. destruct (is_const v); [destruct (_ || _)|]; cbn; auto. Qed.
Lemma mark_bools st v l : In l (b_bools F (b_mark st v)) -> l = v \/ In l (b_bools F st).
Proof. unfold BuilderR1CS.b_mark. destruct (is_const v); [destruct (_ || _)|]; cbn; auto. intros [H|H]; auto. Qed.
Lemma mark_bools' st v l : In l (b_bools F st) -> b_err F (b_mark st v) = false -> In l (b_bools F (b_mark st v)).
Proof. unfold BuilderR1CS.b_mark. destruct (is_const v); [destruct (_ || _)|]; cbn; auto. Qed.
Lemma mark_good w st v : good w (b_mark st v) <-> good w st.
Proof. unfold good. rewrite mark_instrs. tauto. Qed.
Lemma mark_ext st v : ext st (b_mark st v).
Proof. split; [intros w G; exact (proj1 (mark_good w st v) G)|apply mark_err']. Qed.

(* mark a linear expression that the facts established so far force to be boolean *)
Lemma mstep_mark st st1 (P : (nat -> F) -> Prop) v :
  mstep st st1 P -> (forall w, w O = 1 -> P w -> is_bool (ev w v)) -> mstep st (b_mark st1 v) P.
Proof.
  intros [X H] I. split; [eapply ext_trans; [exact X|apply mark_ext]|]. intros M. destruct (H M) as [M1 V].
  assert (V' : forall w, good w (b_mark st1 v) -> b_err F (b_mark st1 v) = false -> P w).
  { intros w G E. apply V; [exact (proj1 (mark_good w st1 v) G)|eapply mark_err; exact E]. }
  split; [|exact V']. intros E w G l IN. apply mark_bools in IN. destruct IN as [->|IN].
  - apply I; [apply G|apply V'; assumption].
  - apply (M1 (mark_err _ _ E) w (proj1 (mark_good w st1 v) G) l IN).
Qed.

Lemma row_pstep st l r o : pstep st (b_row st l r o) (fun w => ev w l * ev w r = ev w o).
Proof. split; [apply row_ext|split; [apply row_bools|]]. intros w G _. apply good_row in G. tauto. Qed.

Lemma le_eqb_eq a : forall b, le_eqb a b = true -> a = b.
Proof.
  induction a as [|[c x] a IH]; intros [|[d y] b]; cbn; try discriminate; [reflexivity|].
  intros H. apply andb_true_iff in H. destruct H as [H H3]. apply andb_true_iff in H. destruct H as [H1 H2].
  apply feqb_true in H1. apply Nat.eqb_eq in H2. rewrite H1, H2, (IH b H3). reflexivity.
Qed.

Notation boolean_rel := (boolean_rel F zero one add mul sub opp div inv Fth eq_dec).

Lemma is_bool_01 c : feqb c 0 || feqb c 1 = true -> is_bool c.
Proof. intros H. apply orb_true_iff in H. destruct H as [H|H]; apply feqb_true in H; [left|right]; exact H. Qed.

Lemma assert_bool_ok st v : mstep st (b_assert_bool st v) (fun w => is_bool (ev w v)).
Proof.
  unfold BuilderR1CS.b_assert_bool. destruct (is_const v) as [c|] eqn:C.
  - destruct (feqb c 0 || feqb c 1) eqn:B.
    + eapply mstep_weaken; [apply mstep_refl|]. intros w G0 _. rewrite (is_const_ev w v c G0 C). apply is_bool_01; exact B.
    + split; [apply ext_set_err|]. intros M. split; [intros E; discriminate E|intros w _ E; discriminate E].
  - destruct (is_marked st v) eqn:K.
    + split; [apply ext_refl|]. intros M. split; [exact M|]. intros w G E.
      unfold BuilderR1CS.is_marked in K. apply existsb_exists in K. destruct K as (l & IN & EQ). apply le_eqb_eq in EQ. rewrite EQ.
      apply (M E w G l IN).
    + destruct (b_add (b_mark st v) [le_one; v] true) as [nv st2] eqn:A. apply add_ok in A. destruct A as (X2 & B2 & V2).
      assert (FACT : forall w, good w (b_row st2 v nv le_zero) -> b_err F (b_row st2 v nv le_zero) = false -> is_bool (ev w v)).
      { intros w G E. apply good_row in G. destruct G as [G R]. rewrite row_err in E. rewrite (V2 w G E) in R.
        cbn [sum_ev fold_left] in R. unfold BuilderR1CS.le_one in R. rewrite (ev_cle w 1 (proj1 G)), ev_le_zero in R.
        apply boolean_rel. exact R. }
      assert (X : ext st (b_row st2 v nv le_zero)).
      { eapply ext_trans; [apply mark_ext|]. eapply ext_trans; [exact X2|apply row_ext]. }
      split; [exact X|]. intros M. split; [|exact FACT]. intros E w G l IN.
      rewrite row_bools, B2 in IN. apply mark_bools in IN. destruct IN as [->|IN]; [apply FACT; assumption|].
      apply (M (ext_err _ _ X E) w (proj1 X w G) l IN).
Qed.

Lemma assert_eq_ok st v1 v2 : pstep st (b_assert_eq st v1 v2) (fun w => ev w v1 = ev w v2).
Proof.
  unfold BuilderR1CS.b_assert_eq.
  assert (R : pstep st (b_row st le_one v1 v2) (fun w => ev w v1 = ev w v2)).
  { eapply pstep_weaken; [apply row_pstep|]. intros w G0 H. cbn beta in H. unfold BuilderR1CS.le_one in H. rewrite (ev_cle w 1 G0) in H. rewrite <- H. ring. }
  destruct (is_const v1) as [c1|] eqn:C1; [|exact R]. destruct (is_const v2) as [c2|] eqn:C2; [|exact R].
  destruct (feqb c1 c2) eqn:E.
  - apply pstep_refl. intros w [G0 _]. rewrite (is_const_ev w v1 c1 G0 C1), (is_const_ev w v2 c2 G0 C2). apply feqb_true; exact E.
  - split; [apply ext_set_err|split; [reflexivity|]]. intros w _ Er. discriminate Er.
Qed.

Lemma perr st (P : (nat -> F) -> Prop) : pstep st (set_err st) P.
Proof. split; [apply ext_set_err|split; [reflexivity|]]. intros w _ Er. discriminate Er. Qed.

Notation inverse_rel := (inverse_rel F zero one add mul sub opp div inv Fth).
Notation div_rel := (div_rel F zero one add mul sub opp div inv Fth).
Notation div_unchecked_rel := (div_unchecked_rel F zero one add mul sub opp div inv Fth eq_dec).

Lemma inverse_ok st v r st' : b_inverse st v = (r, st') -> pstep st st' (fun w => ev w v <> 0 /\ ev w r = inv (ev w v)).
Proof.
  unfold BuilderR1CS.b_inverse. destruct (is_const v) as [c|] eqn:C.
  - destruct (feqb c 0) eqn:E; intros [= <- <-]; [apply perr|]. apply pstep_refl. intros w [G0 _].
    rewrite (is_const_ev w v c G0 C), (ev_cle w _ G0). apply feqb_false in E. auto.
  - destruct (b_newvar st) as [t st1] eqn:N. intros [= <- <-]. destruct (newvar_ext _ _ _ N) as [X B].
    eapply pstep_weaken; [eapply pstep_trans; [split; [exact X|split; [exact B|intros w _ _; exact I]]|apply row_pstep|intros w _ H; exact H]|].
    intros w G0 H. cbn beta in H. unfold BuilderR1CS.le_one in H. rewrite (ev_cle w 1 G0) in H. apply inverse_rel. rewrite <- H. ring.
Qed.

Lemma div_const_ok w v1 n2 : w O = 1 -> n2 <> 0 ->
  ev w (match is_const v1 with Some n1 => cle (inv n2 * n1) | None => scale v1 (inv n2) end) = ev w v1 / n2.
Proof.
  intros G0 NZ. destruct (is_const v1) as [n1|] eqn:C1.
  - rewrite (ev_cle w _ G0), (is_const_ev w v1 n1 G0 C1). field. exact NZ.
  - rewrite ev_scale. field. exact NZ.
Qed.

Lemma div_ok st v1 v2 r st' : b_div st v1 v2 = (r, st') -> pstep st st' (fun w => ev w v2 <> 0 /\ ev w r = ev w v1 / ev w v2).
Proof.
  unfold BuilderR1CS.b_div. destruct (is_const v2) as [n2|] eqn:C2.
  - destruct (feqb n2 0) eqn:E; [intros [= <- <-]; apply perr|]. apply feqb_false in E.
    intros H. assert (H' : (match is_const v1 with Some n1 => cle (inv n2 * n1) | None => scale v1 (inv n2) end, st) = (r, st')).
    { destruct (is_const v1); exact H. }
    injection H' as <- <-. apply pstep_refl. intros w [G0 _]. rewrite (is_const_ev w v2 n2 G0 C2). split; [exact E|apply div_const_ok; assumption].
  - destruct (b_newvar st) as [t st1] eqn:N1. destruct (b_newvar st1) as [vi st2] eqn:N2. intros [= <- <-].
    destruct (newvar_ext _ _ _ N1) as [X1 B1]. destruct (newvar_ext _ _ _ N2) as [X2 B2].
    assert (P0 : pstep st st2 (fun _ => True)).
    { split; [eapply ext_trans; eassumption|split; [congruence|auto]]. }
    eapply pstep_weaken; [eapply pstep_trans; [eapply pstep_trans; [exact P0|apply row_pstep|intros w _ H; exact H]|apply row_pstep|intros w H1 H2; exact (conj H1 H2)]|].
    intros w G0 [H1 H2]. cbn beta in H1, H2. unfold BuilderR1CS.le_one in H1. rewrite (ev_cle w 1 G0) in H1.
    apply div_rel. exists (ev w vi). split; [exact H1|].
    assert (NZ : ev w v2 <> 0). { intros Z. rewrite Z in H1. apply (F_1_neq_0 Fth). rewrite <- H1. ring. }
    rewrite <- H2. transitivity (ev w v1 * (ev w v2 * ev w vi)); [ring|rewrite H1; ring].
Qed.

Lemma divunchecked_ok st v1 v2 r st' : b_divunchecked st v1 v2 = (r, st') ->
  pstep st st' (fun w => (ev w v2 <> 0 /\ ev w r = ev w v1 / ev w v2) \/ (ev w v2 = 0 /\ ev w v1 = 0)).
Proof.
  unfold BuilderR1CS.b_divunchecked. destruct (is_const v2) as [n2|] eqn:C2.
  - destruct (feqb n2 0) eqn:E; [intros [= <- <-]; apply perr|]. apply feqb_false in E.
    intros H. assert (H' : (match is_const v1 with Some n1 => cle (inv n2 * n1) | None => scale v1 (inv n2) end, st) = (r, st')).
    { destruct (is_const v1); exact H. }
    injection H' as <- <-. apply pstep_refl. intros w [G0 _]. left. rewrite (is_const_ev w v2 n2 G0 C2). split; [exact E|apply div_const_ok; assumption].
  - destruct (b_newvar st) as [t st1] eqn:N1. intros [= <- <-]. destruct (newvar_ext _ _ _ N1) as [X1 B1].
    eapply pstep_weaken; [eapply pstep_trans; [split; [exact X1|split; [exact B1|intros w _ _; exact I]]|apply row_pstep|intros w _ H; exact H]|].
    intros w G0 H. cbn beta in H. apply div_unchecked_rel. rewrite <- H. ring.
Qed.

Lemma assert_diff_ok st v1 v2 : pstep st (b_assert_diff st v1 v2) (fun w => ev w v1 <> ev w v2).
Proof.
  unfold BuilderR1CS.b_assert_diff. destruct (b_add st [v1; v2] true) as [s st1] eqn:A. apply add_ok in A.
  assert (INV : pstep st (snd (b_inverse st1 s)) (fun w => ev w v1 <> ev w v2)).
  { destruct (b_inverse st1 s) as [r st2] eqn:I. apply inverse_ok in I. cbn [snd].
    eapply pstep_trans; [exact A|exact I|]. intros w E1 [NZ _] EQ. apply NZ. rewrite E1. cbn [sum_ev fold_left]. rewrite EQ. ring. }
  destruct s as [|[c x] [|t s]]; try exact INV. destruct (feqb c 0); [|exact INV].
  eapply pstep_trans; [exact A|apply perr|]. intros w _ H. exact H.
Qed.


(* ---------------------------------------------------------------- boolean and conditional operations *)
Notation b_mulacc := (b_mulacc F zero one add mul opp eq_dec).
Notation b_xor := (b_xor F zero one add mul opp eq_dec cst).
Notation b_or := (b_or F zero one add opp eq_dec).
Notation b_and := (b_and F zero one add mul opp eq_dec).
Notation b_select := (b_select F zero one add mul sub opp eq_dec).
Notation b_lookup2 := (b_lookup2 F zero one add mul opp eq_dec).
Notation b_iszero := (b_iszero F zero one add opp eq_dec cst).
Notation b_frombinary := (b_frombinary F zero one add mul opp eq_dec cst).

Lemma one_neq_zero : 1 <> 0. Proof. exact (F_1_neq_0 Fth). Qed.

Lemma is_bool_mul a b : is_bool a -> is_bool b -> is_bool (a * b).
Proof. intros [->| ->] [->| ->]; [left|left|left|right]; ring. Qed.
Lemma is_bool_xor a b : is_bool a -> is_bool b -> is_bool (a + b - (1 + 1) * a * b).
Proof. intros [->| ->] [->| ->]; [left|right|right|left]; ring. Qed.
Lemma is_bool_or a b : is_bool a -> is_bool b -> is_bool (a + b - a * b).
Proof. intros [->| ->] [->| ->]; [left|right|right|right]; ring. Qed.

Lemma mulacc_ok st a b c r st' : b_mulacc st a b c = (r, st') -> pstep st st' (fun w => ev w r = ev w a + ev w b * ev w c).
Proof.
  unfold BuilderR1CS.b_mulacc. destruct (b_mul2 st b c) as [t st1] eqn:M. intros A. apply mul2_ok in M. apply add_ok in A.
  eapply pstep_trans; [exact M|exact A|]. intros w E1 E2. rewrite E2. cbn [sum_ev fold_left]. rewrite E1. reflexivity.
Qed.

Lemma prod2 w a b : prod_ev w [a; b] = ev w a * ev w b.
Proof. unfold prod_ev. cbn [fold_left]. ring. Qed.

Lemma and_ok st a b r st' : b_and st a b = (r, st') ->
  mstep st st' (fun w => is_bool (ev w a) /\ is_bool (ev w b) /\ ev w r = ev w a * ev w b).
Proof.
  unfold BuilderR1CS.b_and. destruct (b_mul _ [a; b]) as [r0 st3] eqn:M. intros [= <- <-]. apply mul_ok in M.
  apply mstep_mark.
  - eapply mstep_weaken; [eapply mstep_and; [apply assert_bool_ok|eapply mstep_and; [apply assert_bool_ok|apply pstep_mstep; exact M]]|].
    intros w _ (Ha & Hb & E). rewrite prod2 in E. auto.
  - intros w _ (Ha & Hb & E). rewrite E. apply is_bool_mul; assumption.
Qed.

Lemma xor_ok st a b r st' : b_xor st a b = (r, st') ->
  mstep st st' (fun w => is_bool (ev w a) /\ is_bool (ev w b) /\ ev w r = ev w a + ev w b - (1 + 1) * ev w a * ev w b).
Proof.
  unfold BuilderR1CS.b_xor.
  set (ab := if Nat.ltb (length a) (length b) then (b, a) else (a, b)).
  assert (AB : forall w, ev w (fst ab) + ev w (snd ab) - (1 + 1) * ev w (fst ab) * ev w (snd ab) = ev w a + ev w b - (1 + 1) * ev w a * ev w b).
  { intros w. subst ab. destruct (Nat.ltb _ _); cbn [fst snd]; ring. }
  destruct ab as [a' b']. cbn [fst snd] in AB.
  destruct (b_mul _ [b'; cle (cst 2)]) as [b2 st3] eqn:M1.
  destruct (b_add st3 [le_one; b2] true) as [t st4] eqn:A1.
  destruct (b_mul st4 [a'; t]) as [at_ st5] eqn:M2.
  destruct (b_add st5 [at_; b'] false) as [r0 st6] eqn:A2. intros [= <- <-].
  apply mul_ok in M1, M2. apply add_ok in A1, A2.
  assert (MS : mstep st st6 (fun w => is_bool (ev w a) /\ is_bool (ev w b) /\ ev w r0 = ev w a + ev w b - (1 + 1) * ev w a * ev w b)).
  { eapply mstep_weaken; [eapply mstep_and; [apply assert_bool_ok|eapply mstep_and; [apply assert_bool_ok|
      eapply mstep_and; [apply pstep_mstep; exact M1|eapply mstep_and; [apply pstep_mstep; exact A1|
      eapply mstep_and; [apply pstep_mstep; exact M2|apply pstep_mstep; exact A2]]]]]|].
    intros w G0 (Ha & Hb & E1 & E2 & E3 & E4). split; [exact Ha|split; [exact Hb|]].
    rewrite E4. cbn [sum_ev fold_left]. rewrite E3, prod2, E2. cbn [sum_ev fold_left]. rewrite E1, prod2.
    unfold BuilderR1CS.le_one. rewrite !(ev_cle w _ G0), cst2, <- AB. ring. }
  apply mstep_mark; [exact MS|]. intros w _ (Ha & Hb & E). rewrite E. apply is_bool_xor; assumption.
Qed.

Lemma or_ok st a b r st' : b_or st a b = (r, st') ->
  mstep st st' (fun w => is_bool (ev w a) /\ is_bool (ev w b) /\ ev w r = ev w a + ev w b - ev w a * ev w b).
Proof.
  unfold BuilderR1CS.b_or. set (st2 := b_assert_bool (b_assert_bool st a) b).
  destruct (b_newvar st2) as [r0 st3] eqn:N. intros [= <- <-].
  destruct (newvar_ext _ _ _ N) as [X3 B3].
  assert (MS2 : mstep st st2 (fun w => is_bool (ev w a) /\ is_bool (ev w b))).
  { eapply mstep_and; apply assert_bool_ok. }
  destruct MS2 as [X2 H2].
  set (st4 := b_mark st3 r0). set (c := b_neg st4 r0 ++ a ++ b).
  assert (X : ext st (b_row st4 a b c)).
  { eapply ext_trans; [exact X2|]. eapply ext_trans; [exact X3|]. eapply ext_trans; [apply mark_ext|apply row_ext]. }
  split; [exact X|]. intros M. destruct (H2 M) as [M2 V2].
  assert (FACT : forall w, good w (b_row st4 a b c) -> b_err F (b_row st4 a b c) = false ->
                 is_bool (ev w a) /\ is_bool (ev w b) /\ ev w r0 = ev w a + ev w b - ev w a * ev w b).
  { intros w G E. pose proof G as G'. apply good_row in G'. destruct G' as [G4 R]. rewrite row_err in E.
    assert (G3 : good w st3) by exact (proj1 (mark_good w st3 r0) G4).
    assert (G2 : good w st2) by (apply X3; exact G3).
    assert (E2 : b_err F st2 = false) by (eapply ext_err; [exact X3|eapply mark_err; exact E]).
    destruct (V2 w G2 E2) as [Ha Hb]. split; [exact Ha|split; [exact Hb|]].
    subst c. rewrite !ev_app, (neg_ok w st4 r0 (proj1 G)) in R.
    transitivity (ev w a + ev w b - (opp (ev w r0) + (ev w a + ev w b))); [ring|rewrite <- R; ring]. }
  split; [|exact FACT]. intros E w G l IN. rewrite row_bools in IN. apply mark_bools in IN. destruct IN as [->|IN].
  - destruct (FACT w G E) as (Ha & Hb & Er). rewrite Er. apply is_bool_or; assumption.
  - rewrite B3 in IN. pose proof G as G'. apply good_row in G'. destruct G' as [G4 _]. rewrite row_err in E.
    assert (G3 : good w st3) by exact (proj1 (mark_good w st3 r0) G4).
    apply (M2 (ext_err _ _ X3 (mark_err _ _ E)) w (proj1 X3 w G3) l IN).
Qed.

Definition sel (c x y : F) : F := if eq_dec c 0 then y else x.

Lemma sel_bool c x y : is_bool c -> c * (x - y) + y = sel c x y.
Proof. unfold sel. intros [->| ->]; destruct (eq_dec _ 0) as [E|E]; try ring; [exfalso; apply E; reflexivity|exfalso; apply one_neq_zero; exact E]. Qed.

Lemma select_ok st c v1 v2 r st' : b_select st c v1 v2 = (r, st') ->
  mstep st st' (fun w => is_bool (ev w c) /\ ev w r = sel (ev w c) (ev w v1) (ev w v2)).
Proof.
  unfold BuilderR1CS.b_select. set (st1 := b_assert_bool st c).
  pose proof (assert_bool_ok st c) as AB. fold st1 in AB.
  destruct (is_const c) as [k|] eqn:C.
  - intros H. assert (H' : ((if feqb k 1 then v1 else v2), st1) = (r, st')) by (destruct (feqb k 1); exact H).
    injection H' as <- <-. eapply mstep_weaken; [exact AB|]. intros w G0 Hc. cbn beta in Hc. split; [exact Hc|].
    pose proof (is_const_ev w c k G0 C) as Ek. rewrite Ek. rewrite Ek in Hc. unfold sel. destruct (feqb k 1) eqn:K.
    + apply feqb_true in K. rewrite K. destruct (eq_dec 1 0) as [E|E]; [exfalso; apply one_neq_zero; exact E|reflexivity].
    + apply feqb_false in K. destruct Hc as [Hc|Hc]; [|contradiction]. destruct (eq_dec k 0) as [E|E]; [reflexivity|contradiction].
  - assert (GEN : forall r st', (let '(v, st2) := b_add st1 [v1; v2] true in let '(w0, st3) := b_mul st2 [c; v] in b_add st3 [w0; v2] false) = (r, st') ->
       mstep st st' (fun w => is_bool (ev w c) /\ ev w r = sel (ev w c) (ev w v1) (ev w v2))).
    { intros r1 st1'. destruct (b_add st1 [v1; v2] true) as [v st2] eqn:A1. destruct (b_mul st2 [c; v]) as [w0 st3] eqn:M. intros A2.
      apply add_ok in A1, A2. apply mul_ok in M.
      eapply mstep_weaken; [eapply mstep_and; [exact AB|eapply mstep_and; [apply pstep_mstep; exact A1|eapply mstep_and; [apply pstep_mstep; exact M|apply pstep_mstep; exact A2]]]|].
      intros w G0 (Hc & E1 & E2 & E3). split; [exact Hc|]. rewrite E3. cbn [sum_ev fold_left]. rewrite E2, prod2, E1. cbn [sum_ev fold_left].
      apply sel_bool; exact Hc. }
    assert (ZERO : forall n1 r st', is_const v1 = Some n1 -> feqb n1 0 = true ->
       (let '(v, st2) := b_add st1 [le_one; c] true in b_mul st2 [v; v2]) = (r, st') ->
       mstep st st' (fun w => is_bool (ev w c) /\ ev w r = sel (ev w c) (ev w v1) (ev w v2))).
    { intros n1 r1 st1' C1 Z. destruct (b_add st1 [le_one; c] true) as [v st2] eqn:A1. intros M. apply add_ok in A1. apply mul_ok in M.
      eapply mstep_weaken; [eapply mstep_and; [exact AB|eapply mstep_and; [apply pstep_mstep; exact A1|apply pstep_mstep; exact M]]|].
      intros w G0 (Hc & E1 & E2). split; [exact Hc|]. rewrite E2, prod2, E1. cbn [sum_ev fold_left]. unfold BuilderR1CS.le_one. rewrite (ev_cle w 1 G0).
      apply feqb_true in Z. rewrite (is_const_ev w v1 n1 G0 C1), Z, <- (sel_bool _ 0 (ev w v2) Hc). ring. }
    destruct (is_const v1) as [n1|] eqn:C1; destruct (is_const v2) as [n2|] eqn:C2.
    + destruct (b_mul st1 [c; cle (n1 - n2)]) as [r1 st2] eqn:M. intros A. apply mul_ok in M. apply add_ok in A.
      eapply mstep_weaken; [eapply mstep_and; [exact AB|eapply mstep_and; [apply pstep_mstep; exact M|apply pstep_mstep; exact A]]|].
      intros w G0 (Hc & E1 & E2). split; [exact Hc|]. rewrite E2. cbn [sum_ev fold_left]. rewrite E1, prod2, (ev_cle w _ G0).
      rewrite (is_const_ev w v1 n1 G0 C1), <- (sel_bool _ n1 (ev w v2) Hc), (is_const_ev w v2 n2 G0 C2). ring.
    + destruct (feqb n1 0) eqn:Z; [apply (ZERO n1 r st' eq_refl Z)|apply GEN].
    + apply GEN.
    + apply GEN.
Qed.


Definition lk2 (s0 s1 i0 i1 i2 i3 : F) : F := sel s1 (sel s0 i3 i2) (sel s0 i1 i0).

Lemma lookup2_ok st s0 s1 i0 i1 i2 i3 r st' : b_lookup2 st s0 s1 i0 i1 i2 i3 = (r, st') ->
  mstep st st' (fun w => is_bool (ev w s0) /\ is_bool (ev w s1) /\
                         ev w r = lk2 (ev w s0) (ev w s1) (ev w i0) (ev w i1) (ev w i2) (ev w i3)).
Proof.
  unfold BuilderR1CS.b_lookup2. set (st2 := b_assert_bool (b_assert_bool st s0) s1).
  assert (AB : mstep st st2 (fun w => is_bool (ev w s0) /\ is_bool (ev w s1))) by (eapply mstep_and; apply assert_bool_ok).
  assert (GEN : forall r st',
    (let '(t1, st3) := b_add st2 [i3; i0] false in
     let '(t1, st4) := b_add st3 [t1; i2; i1] true in
     let '(t1, st5) := b_mul st4 [t1; s1] in
     let '(t1, st6) := b_add st5 [t1; i1] false in
     let '(t1, st7) := b_add st6 [t1; i0] true in
     let '(t2, st8) := b_mul st7 [t1; s0] in
     let '(r, st9) := b_add st8 [i2; i0] true in
     let '(r, st10) := b_mul st9 [r; s1] in
     b_add st10 [r; t2; i0] false) = (r, st') ->
    mstep st st' (fun w => is_bool (ev w s0) /\ is_bool (ev w s1) /\
                         ev w r = lk2 (ev w s0) (ev w s1) (ev w i0) (ev w i1) (ev w i2) (ev w i3))).
  { intros r1 st1'.
    destruct (b_add st2 [i3; i0] false) as [ta st3] eqn:H1. destruct (b_add st3 [ta; i2; i1] true) as [tb st4] eqn:H2.
    destruct (b_mul st4 [tb; s1]) as [tc st5] eqn:H3. destruct (b_add st5 [tc; i1] false) as [td st6] eqn:H4.
    destruct (b_add st6 [td; i0] true) as [te st7] eqn:H5. destruct (b_mul st7 [te; s0]) as [t2 st8] eqn:H6.
    destruct (b_add st8 [i2; i0] true) as [ra st9] eqn:H7. destruct (b_mul st9 [ra; s1]) as [rb st10] eqn:H8. intros H9.
    apply add_ok in H1, H2, H4, H5, H7, H9. apply mul_ok in H3, H6, H8.
    eapply mstep_weaken; [eapply mstep_and; [exact AB|
      eapply mstep_and; [apply pstep_mstep; exact H1|eapply mstep_and; [apply pstep_mstep; exact H2|
      eapply mstep_and; [apply pstep_mstep; exact H3|eapply mstep_and; [apply pstep_mstep; exact H4|
      eapply mstep_and; [apply pstep_mstep; exact H5|eapply mstep_and; [apply pstep_mstep; exact H6|
      eapply mstep_and; [apply pstep_mstep; exact H7|eapply mstep_and; [apply pstep_mstep; exact H8|apply pstep_mstep; exact H9]]]]]]]]]|].
    intros w G0 ((Hs0 & Hs1) & E1 & E2 & E3 & E4 & E5 & E6 & E7 & E8 & E9). cbn beta in *. split; [exact Hs0|split; [exact Hs1|]].
    rewrite E9. cbn [sum_ev fold_left]. rewrite E8, prod2, E7, E6, prod2, E5. cbn [sum_ev fold_left]. rewrite E4. cbn [sum_ev fold_left].
    rewrite E3, prod2, E2. cbn [sum_ev fold_left]. rewrite E1. cbn [sum_ev fold_left].
    unfold lk2. rewrite <- !(sel_bool _ _ _ Hs0), <- (sel_bool _ _ _ Hs1). ring. }
  destruct (is_const s0) as [c0|] eqn:C0; [|apply GEN]. destruct (is_const s1) as [c1|] eqn:C1; [|apply GEN].
  intros [= <- <-]. eapply mstep_weaken; [exact AB|]. intros w G0 [Hs0 Hs1]. cbn beta in *. split; [exact Hs0|split; [exact Hs1|]].
  pose proof (is_const_ev w s0 c0 G0 C0) as E0. pose proof (is_const_ev w s1 c1 G0 C1) as E1. rewrite E0, E1 in *.
  unfold lk2, sel.
  assert (N10 : forall T (x y : T), (if eq_dec 1 0 then x else y) = y).
  { intros T x y. destruct (eq_dec 1 0) as [E|E]; [exfalso; apply one_neq_zero; exact E|reflexivity]. }
  destruct (feqb c0 1) eqn:K0; destruct (feqb c1 1) eqn:K1; cbn [negb andb].
  - apply feqb_true in K0, K1. rewrite K0, K1, !N10. reflexivity.
  - apply feqb_true in K0. apply feqb_false in K1. destruct Hs1 as [Z|Z]; [|contradiction]. rewrite K0, Z, !N10.
    destruct (eq_dec 0 0) as [E|E]; [reflexivity|exfalso; apply E; reflexivity].
  - apply feqb_false in K0. apply feqb_true in K1. destruct Hs0 as [Z|Z]; [|contradiction]. rewrite K1, Z, !N10.
    destruct (eq_dec 0 0) as [E|E]; [reflexivity|exfalso; apply E; reflexivity].
  - apply feqb_false in K0, K1. destruct Hs0 as [Z0|Z0]; [|contradiction]. destruct Hs1 as [Z1|Z1]; [|contradiction]. rewrite Z0, Z1.
    destruct (eq_dec 0 0) as [E|E]; [reflexivity|exfalso; apply E; reflexivity].
Qed.

Notation iszero_rel := (iszero_rel F zero one add mul sub opp div inv Fth eq_dec).

Definition isz (a : F) : F := if eq_dec a 0 then 1 else 0.

Lemma iszero_ok st a r st' : b_iszero st a = (r, st') -> mstep st st' (fun w => ev w r = isz (ev w a)).
Proof.
  unfold BuilderR1CS.b_iszero. destruct (is_const a) as [c|] eqn:C.
  - destruct (feqb c 0) eqn:Z; intros [= <- <-]; (eapply mstep_weaken; [apply mstep_refl|]); intros w G0 _;
      rewrite (is_const_ev w a c G0 C); unfold isz, BuilderR1CS.le_one.
    + apply feqb_true in Z. rewrite (ev_cle w _ G0). destruct (eq_dec c 0); [reflexivity|contradiction].
    + apply feqb_false in Z. rewrite ev_le_zero. destruct (eq_dec c 0); [contradiction|reflexivity].
  - destruct (b_newvar st) as [m st1] eqn:N. destruct (b_hint st1 (hid_invzero) [a] 1) as [xs st2] eqn:H.
    destruct (b_add st2 [m; cle (cst 1)] true) as [m1 st3] eqn:A. intros [= <- <-].
    destruct (newvar_ext _ _ _ N) as [X1 B1]. destruct (hint_ext _ _ _ _ _ _ H) as [X2 B2]. apply add_ok in A.
    assert (P2 : pstep st st2 (fun _ => True)) by (split; [eapply ext_trans; eassumption|split; [congruence|auto]]).
    apply mstep_mark.
    + eapply mstep_weaken; [apply pstep_mstep; eapply pstep_trans; [eapply pstep_trans; [eapply pstep_trans; [exact P2|exact A|intros w _ E; exact E]|apply row_pstep|intros w E1 E2; exact (conj E1 E2)]|apply row_pstep|intros w E1 E2; exact (conj E1 E2)]|].
      intros w G0 [[E1 E2] E3]. cbn beta in E1, E2, E3. rewrite (neg_ok w st3 a G0), E1 in E2. cbn [sum_ev fold_left] in E2.
      rewrite (ev_cle w _ G0), cst1 in E2. rewrite ev_le_zero in E3.
      unfold isz. assert (R : ev w m = Gadgets.inj F zero one (if eq_dec (ev w a) 0 then true else false)).
      { apply iszero_rel. exists (ev w (hd le_zero xs)). split; assumption. }
      rewrite R. destruct (eq_dec (ev w a) 0); reflexivity.
    + intros w _ E. cbn beta in E. rewrite E. unfold isz. destruct (eq_dec (ev w a) 0); [right|left]; reflexivity.
Qed.

Fixpoint fbv (w : nat -> F) (c : Z) (ds : list lexp) : F :=
  match ds with [] => 0 | d :: ds' => cst c * ev w d + fbv w (2 * c)%Z ds' end.

Lemma frombinary_ok ds : forall st acc c r st', b_frombinary st acc c ds = (r, st') ->
  mstep st st' (fun w => Forall (fun d => is_bool (ev w d)) ds /\ ev w r = ev w acc + fbv w c ds).
Proof.
  induction ds as [|d ds IH]; intros st acc c r st'; cbn [BuilderR1CS.b_frombinary].
  - intros [= <- <-]. eapply mstep_weaken; [apply mstep_refl|]. intros w _ _. split; [constructor|cbn [fbv]; ring].
  - destruct (b_mul _ [cle (cst c); d]) as [m st2] eqn:M. destruct (b_add st2 [acc; m] false) as [acc' st3] eqn:A. intros H.
    apply IH in H. apply mul_ok in M. apply add_ok in A.
    eapply mstep_weaken; [eapply mstep_and; [apply assert_bool_ok|eapply mstep_and; [apply pstep_mstep; exact M|eapply mstep_and; [apply pstep_mstep; exact A|exact H]]]|].
    intros w G0 (Hd & E1 & E2 & HF & E3). cbn beta in *. split; [constructor; assumption|].
    rewrite E3, E2. cbn [sum_ev fold_left fbv]. rewrite E1, prod2, (ev_cle w _ G0). ring.
Qed.


(* ---------------------------------------------------------------- documented meaning, programs *)
Notation b_step := (b_step F zero one add mul sub opp inv eq_dec cst).
Notation b_init := (b_init F one).
Notation b_expose := (b_expose F zero one eq_dec).
Notation b_compile := (b_compile F zero one add mul sub opp inv eq_dec cst).
Notation arg_le := (arg_le F zero cst).

Definition aval (vs : list F) (a : arg) : F := match a with AC z => cst z | AV i => nth i vs 0 end.

Definition sumF (a : list F) : F := match a with [] => 0 | x :: xs => fold_left add xs x end.
Definition subF (a : list F) : F := match a with [] => 0 | x :: xs => fold_left sub xs x end.
Fixpoint fbvF (c : Z) (ds : list F) : F := match ds with [] => 0 | d :: ds' => cst c * d + fbvF (2 * c)%Z ds' end.

(* the documented meaning of one API call on argument values [a]: results [rs] and assertion *)
Definition sem (k : opk) (a : list F) (rs : list F) : Prop :=
  let a0 := nth 0 a 0 in let a1 := nth 1 a 0 in let a2 := nth 2 a 0 in
  match k with
  | OAdd => rs = [sumF a]
  | OSub => rs = [subF a]
  | ONeg => rs = [opp a0]
  | OMul => rs = [fold_left mul a 1]
  | OMulAcc => rs = [a0 + a1 * a2]
  | ODiv => a1 <> 0 /\ rs = [a0 / a1]
  | ODivUnchecked => exists q, rs = [q] /\ ((a1 <> 0 /\ q = a0 / a1) \/ (a1 = 0 /\ a0 = 0))
  | OInverse => a0 <> 0 /\ rs = [inv a0]
  | OFromBinary => Forall is_bool a /\ rs = [fbvF 1%Z a]
  | OXor => is_bool a0 /\ is_bool a1 /\ rs = [a0 + a1 - (1 + 1) * a0 * a1]
  | OOr => is_bool a0 /\ is_bool a1 /\ rs = [a0 + a1 - a0 * a1]
  | OAnd => is_bool a0 /\ is_bool a1 /\ rs = [a0 * a1]
  | OSelect => is_bool a0 /\ rs = [sel a0 a1 a2]
  | OLookup2 => is_bool a0 /\ is_bool a1 /\ rs = [lk2 a0 a1 a2 (nth 3 a 0) (nth 4 a 0) (nth 5 a 0)]
  | OIsZero => rs = [isz a0]
  | OAssertEq => a0 = a1 /\ rs = []
  | OAssertDiff => a0 <> a1 /\ rs = []
  | OAssertBool => is_bool a0 /\ rs = []
  | OHint2 => exists r0 r1, rs = [r0; r1]
  | OToBinary _ | OCmp | OAssertLeq => False
  end.

Fixpoint trace_sem (prog : list op) (vs fin : list F) : Prop :=
  match prog with
  | [] => fin = vs
  | o :: prog' => exists rs, sem (fst o) (map (aval vs) (snd o)) rs /\ trace_sem prog' (vs ++ rs) fin
  end.

Lemma nth_ev w (a : list lexp) j : nth j (map (ev w) a) 0 = ev w (nth j a le_zero).
Proof. transitivity (nth j (map (ev w) a) (ev w le_zero)); [rewrite ev_le_zero; reflexivity|apply map_nth]. Qed.

Lemma ev_arg w vars a : w O = 1 -> ev w (arg_le vars a) = aval (map (ev w) vars) a.
Proof. intros G0. destruct a as [z|i]; cbn [BuilderR1CS.arg_le aval]; [apply ev_cle; exact G0|symmetry; apply nth_ev]. Qed.

Lemma ev_args w vars args : w O = 1 -> map (ev w) (map (arg_le vars) args) = map (aval (map (ev w) vars)) args.
Proof. intros G0. rewrite map_map. apply map_ext. intros a. apply ev_arg; exact G0. Qed.

Lemma fold_add_map w vs : forall x, fold_left (fun a l => a + ev w l) vs x = fold_left add (map (ev w) vs) x.
Proof. induction vs as [|v vs IH]; intros x; cbn [fold_left map]; [reflexivity|apply IH]. Qed.
Lemma fold_sub_map w vs : forall x, fold_left (fun a l => a - ev w l) vs x = fold_left sub (map (ev w) vs) x.
Proof. induction vs as [|v vs IH]; intros x; cbn [fold_left map]; [reflexivity|apply IH]. Qed.
Lemma fold_mul_map w vs : forall x, fold_left (fun a l => a * ev w l) vs x = fold_left mul (map (ev w) vs) x.
Proof. induction vs as [|v vs IH]; intros x; cbn [fold_left map]; [reflexivity|apply IH]. Qed.

Lemma sum_ev_add w vars : sum_ev w false vars = sumF (map (ev w) vars).
Proof. destruct vars as [|v vs]; [reflexivity|]. cbn [sum_ev sumF map]. apply fold_add_map. Qed.
Lemma sum_ev_sub w vars : sum_ev w true vars = subF (map (ev w) vars).
Proof. destruct vars as [|v vs]; [reflexivity|]. cbn [sum_ev subF map]. apply fold_sub_map. Qed.
Lemma prod_ev_map w vars : prod_ev w vars = fold_left mul (map (ev w) vars) 1.
Proof. apply fold_mul_map. Qed.
Lemma fbv_map w ds : forall c, fbv w c ds = fbvF c (map (ev w) ds).
Proof. induction ds as [|d ds IH]; intros c; cbn [fbv fbvF map]; [reflexivity|rewrite IH; reflexivity]. Qed.

Lemma step_sound vars st o vars' st' : b_step (vars, st) o = (vars', st') ->
  mstep st st' (fun w => exists rs, map (ev w) vars' = map (ev w) vars ++ rs /\ sem (fst o) (map (aval (map (ev w) vars)) (snd o)) rs).
Proof.
  destruct o as [k args]. unfold BuilderR1CS.b_step. cbn [fst snd].
  set (a := map (arg_le vars) args).
  assert (PUSH : forall (r : lexp) w, map (ev w) (vars ++ [r]) = map (ev w) vars ++ [ev w r]) by (intros; rewrite map_app; reflexivity).
  assert (NIL : forall w, map (ev w) vars = map (ev w) vars ++ []) by (intros; rewrite app_nil_r; reflexivity).
  destruct k.
  - (* Add *) destruct (b_add st a false) as [r st1] eqn:H. intros [= <- <-]. apply add_ok in H. cbn [fst snd].
    eapply mstep_weaken; [apply pstep_mstep; exact H|]. intros w G0 E. exists [ev w r]. split; [apply PUSH|].
    rewrite <- (ev_args w vars args G0). fold a. cbn [sem]. rewrite E, sum_ev_add. reflexivity.
  - (* Sub *) destruct (b_add st a true) as [r st1] eqn:H. intros [= <- <-]. apply add_ok in H. cbn [fst snd].
    eapply mstep_weaken; [apply pstep_mstep; exact H|]. intros w G0 E. exists [ev w r]. split; [apply PUSH|].
    rewrite <- (ev_args w vars args G0). fold a. cbn [sem]. rewrite E, sum_ev_sub. reflexivity.
  - (* Neg *) intros [= <- <-]. cbn [fst snd]. eapply mstep_weaken; [apply mstep_refl|]. intros w G0 _. eexists. split; [apply PUSH|].
    rewrite <- (ev_args w vars args G0). fold a. cbn [sem]. rewrite (neg_ok w st _ G0), nth_ev. reflexivity.
  - (* Mul *) destruct (b_mul st a) as [r st1] eqn:H. intros [= <- <-]. apply mul_ok in H. cbn [fst snd].
    eapply mstep_weaken; [apply pstep_mstep; exact H|]. intros w G0 E. exists [ev w r]. split; [apply PUSH|].
    rewrite <- (ev_args w vars args G0). fold a. cbn [sem]. rewrite E, prod_ev_map. reflexivity.
  - (* MulAcc *) destruct (b_mulacc st _ _ _) as [r st1] eqn:H. intros [= <- <-]. apply mulacc_ok in H. cbn [fst snd].
    eapply mstep_weaken; [apply pstep_mstep; exact H|]. intros w G0 E. exists [ev w r]. split; [apply PUSH|].
    rewrite <- (ev_args w vars args G0). fold a. cbn [sem]. rewrite E, !nth_ev. reflexivity.
  - (* Div *) destruct (BuilderR1CS.b_div _ _ _ _ _ _ st _ _) as [r st1] eqn:H. intros [= <- <-]. apply div_ok in H. cbn [fst snd].
    eapply mstep_weaken; [apply pstep_mstep; exact H|]. intros w G0 [NZ E]. exists [ev w r]. split; [apply PUSH|].
    rewrite <- (ev_args w vars args G0). fold a. cbn [sem]. rewrite !nth_ev, E. auto.
  - (* DivUnchecked *) destruct (BuilderR1CS.b_divunchecked _ _ _ _ _ _ st _ _) as [r st1] eqn:H. intros [= <- <-]. apply divunchecked_ok in H. cbn [fst snd].
    eapply mstep_weaken; [apply pstep_mstep; exact H|]. intros w G0 E. exists [ev w r]. split; [apply PUSH|].
    rewrite <- (ev_args w vars args G0). fold a. cbn [sem]. rewrite !nth_ev. exists (ev w r). auto.
  - (* Inverse *) destruct (BuilderR1CS.b_inverse _ _ _ _ _ st _) as [r st1] eqn:H. intros [= <- <-]. apply inverse_ok in H. cbn [fst snd].
    eapply mstep_weaken; [apply pstep_mstep; exact H|]. intros w G0 [NZ E]. exists [ev w r]. split; [apply PUSH|].
    rewrite <- (ev_args w vars args G0). fold a. cbn [sem]. rewrite !nth_ev, E. auto.
  - (* ToBinary *) intros [= <- <-]. apply pstep_mstep, perr.
  - (* FromBinary *) destruct a as [|a0' a'] eqn:EA; [intros [= <- <-]; apply pstep_mstep, perr|]. rewrite <- EA.
    destruct (b_frombinary st _ _ a) as [r st1] eqn:H. intros [= <- <-]. apply frombinary_ok in H. cbn [fst snd].
    eapply mstep_weaken; [exact H|]. intros w G0 [HF E]. exists [ev w r]. split; [apply PUSH|].
    rewrite <- (ev_args w vars args G0). fold a. cbn [sem]. split; [apply Forall_map; exact HF|].
    rewrite E, (ev_cle w _ G0), cst0, fbv_map. f_equal. ring.
  - (* Xor *) destruct (b_xor st _ _) as [r st1] eqn:H. intros [= <- <-]. apply xor_ok in H. cbn [fst snd].
    eapply mstep_weaken; [exact H|]. intros w G0 (Ha & Hb & E). exists [ev w r]. split; [apply PUSH|].
    rewrite <- (ev_args w vars args G0). fold a. cbn [sem]. rewrite !nth_ev, E. auto.
  - (* Or *) destruct (b_or st _ _) as [r st1] eqn:H. intros [= <- <-]. apply or_ok in H. cbn [fst snd].
    eapply mstep_weaken; [exact H|]. intros w G0 (Ha & Hb & E). exists [ev w r]. split; [apply PUSH|].
    rewrite <- (ev_args w vars args G0). fold a. cbn [sem]. rewrite !nth_ev, E. auto.
  - (* And *) destruct (b_and st _ _) as [r st1] eqn:H. intros [= <- <-]. apply and_ok in H. cbn [fst snd].
    eapply mstep_weaken; [exact H|]. intros w G0 (Ha & Hb & E). exists [ev w r]. split; [apply PUSH|].
    rewrite <- (ev_args w vars args G0). fold a. cbn [sem]. rewrite !nth_ev, E. auto.
  - (* Select *) destruct (b_select st _ _ _) as [r st1] eqn:H. intros [= <- <-]. apply select_ok in H. cbn [fst snd].
    eapply mstep_weaken; [exact H|]. intros w G0 (Ha & E). exists [ev w r]. split; [apply PUSH|].
    rewrite <- (ev_args w vars args G0). fold a. cbn [sem]. rewrite !nth_ev, E. auto.
  - (* Lookup2 *) destruct (b_lookup2 st _ _ _ _ _ _) as [r st1] eqn:H. intros [= <- <-]. apply lookup2_ok in H. cbn [fst snd].
    eapply mstep_weaken; [exact H|]. intros w G0 (Ha & Hb & E). exists [ev w r]. split; [apply PUSH|].
    rewrite <- (ev_args w vars args G0). fold a. cbn [sem]. rewrite !nth_ev, E. auto.
  - (* IsZero *) destruct (b_iszero st _) as [r st1] eqn:H. intros [= <- <-]. apply iszero_ok in H. cbn [fst snd].
    eapply mstep_weaken; [exact H|]. intros w G0 E. exists [ev w r]. split; [apply PUSH|].
    rewrite <- (ev_args w vars args G0). fold a. cbn [sem]. rewrite !nth_ev, E. auto.
  - (* Cmp *) intros [= <- <-]. apply pstep_mstep, perr.
  - (* AssertEq *) intros [= <- <-]. eapply mstep_weaken; [apply pstep_mstep, assert_eq_ok|]. intros w G0 E. exists []. split; [apply NIL|].
    rewrite <- (ev_args w vars args G0). fold a. cbn [sem]. rewrite !nth_ev. auto.
  - (* AssertDiff *) intros [= <- <-]. eapply mstep_weaken; [apply pstep_mstep, assert_diff_ok|]. intros w G0 E. exists []. split; [apply NIL|].
    rewrite <- (ev_args w vars args G0). fold a. cbn [sem]. rewrite !nth_ev. auto.
  - (* AssertBool *) intros [= <- <-]. eapply mstep_weaken; [apply assert_bool_ok|]. intros w G0 E. exists []. split; [apply NIL|].
    rewrite <- (ev_args w vars args G0). fold a. cbn [sem]. rewrite !nth_ev. auto.
  - (* AssertLeq *) intros [= <- <-]. apply pstep_mstep, perr.
  - (* Hint2 *) destruct (b_hint st _ _ 2) as [rs st1] eqn:H. intros [= <- <-].
    pose proof H as H'. unfold BuilderR1CS.b_hint in H'. injection H' as RS _. apply hint_ext in H. destruct H as [X B].
    eapply mstep_weaken; [apply pstep_mstep; split; [exact X|split; [exact B|intros w _ _; exact I]]|].
    intros w G0 _. exists (map (ev w) rs). split; [apply map_app|]. cbn [sem]. rewrite <- RS. cbn [seq map]. eauto.
Qed.

Lemma steps_sound prog : forall vars st vars' st', fold_left b_step prog (vars, st) = (vars', st') ->
  mstep st st' (fun w => trace_sem prog (map (ev w) vars) (map (ev w) vars')).
Proof.
  induction prog as [|o prog IH]; intros vars st vars' st'; cbn [fold_left].
  - intros [= <- <-]. eapply mstep_weaken; [apply mstep_refl|]. intros w _ _. reflexivity.
  - destruct (b_step (vars, st) o) as [vars1 st1] eqn:S. intros H. apply IH in H. apply step_sound in S.
    eapply mstep_weaken; [eapply mstep_and; [exact S|exact H]|]. intros w G0 [(rs & E & SEM) T]. cbn beta in T.
    cbn [trace_sem]. exists rs. split; [exact SEM|]. rewrite <- E. exact T.
Qed.

Lemma expose_sound vars nbpub outs : forall st k,
  pstep st (b_expose vars st nbpub k outs)
    (fun w => forall j o, nth_error outs j = Some o -> ev w (nth o vars le_zero) = w (S (nbpub + (k + j)))).
Proof.
  induction outs as [|o outs IH]; intros st k; cbn [BuilderR1CS.b_expose].
  - apply pstep_refl. intros w _ j o H. destruct j; discriminate H.
  - eapply pstep_trans; [apply assert_eq_ok|apply IH|]. intros w E1 E2 j o' H. cbn beta in E1.
    destruct j as [|j]; cbn [nth_error] in H.
    + injection H as <-. rewrite E1, ev_cons, ev_nil, Nat.add_0_r. ring.
    + rewrite (E2 j o' H). f_equal. f_equal. lia.
Qed.

(* C04, soundness half, for every program over the modelled core: whenever the system emitted by
   the builder is satisfied by an assignment w (ONE wire = 1) and the builder did not panic, the
   values of the program variables under w follow the documented meaning of every call, every
   assertion of the program holds, and every exposed variable equals its public output wire. *)
Theorem compile_sound nbpub nbsec thr prog outs :
  let st := b_compile nbpub nbsec thr prog outs in
  b_err F st = false -> forall w, good w st ->
  exists fin, trace_sem prog (map (fun i => w (input_wire nbpub (length outs) i)) (seq 0 (nbpub + nbsec))) fin /\
              forall j o, nth_error outs j = Some o -> nth o fin 0 = w (S (nbpub + j)).
Proof.
  unfold BuilderR1CS.b_compile. destruct (b_init nbpub nbsec (length outs) thr) as [vars0 st0] eqn:I0.
  destruct (fold_left b_step prog (vars0, st0)) as [vars st1] eqn:S. cbn zeta.
  apply steps_sound in S. pose proof (expose_sound vars nbpub outs st1 O) as X.
  assert (M0 : marks_ok st0).
  { unfold BuilderR1CS.b_init in I0. injection I0 as _ <-. intros _ w _ l IN. destruct IN. }
  pose proof (mstep_and _ _ _ _ _ S (pstep_mstep _ _ _ X)) as [_ H]. destruct (H M0) as [_ V].
  intros E w G. destruct (V w G E) as [T O]. cbn beta in T, O. exists (map (ev w) vars). split.
  - assert (IN : map (ev w) vars0 = map (fun i => w (input_wire nbpub (length outs) i)) (seq 0 (nbpub + nbsec))).
    { unfold BuilderR1CS.b_init in I0. injection I0 as <- _. rewrite map_map. apply map_ext. intros i. rewrite ev_cons, ev_nil. ring. }
    rewrite <- IN. exact T.
  - intros j o Hj. rewrite nth_ev. apply (O j o Hj).
Qed.

(* ---------------------------------------------------------------- executable form of the documented meaning
   [semb] decides [sem] (for the free cases - DivUnchecked 0/0, hint outputs - it accepts what the given results
   make true); [trace_semb] checks a whole value trace.  Used to cross-check this field-generic statement of the
   documented meaning against the evaluator Frontend/Spec.v on the harness programs (Frontend/SemCases.v). *)
Definition isbb (x : F) : bool := feqb x 0 || feqb x 1.
Definition nres (k : opk) : nat :=
  match k with
  | OAssertEq | OAssertDiff | OAssertBool | OAssertLeq => 0
  | OHint2 => 2
  | OToBinary n => n
  | _ => 1
  end.

Definition one_resb (rs : list F) (x : F) : bool := match rs with [r] => feqb r x | _ => false end.
Definition no_resb (rs : list F) : bool := match rs with [] => true | _ => false end.

Definition semb (k : opk) (a rs : list F) : bool :=
  let a0 := nth 0 a 0 in let a1 := nth 1 a 0 in let a2 := nth 2 a 0 in
  let one_res := one_resb rs in
  let no_res := no_resb rs in
  match k with
  | OAdd => one_res (sumF a)
  | OSub => one_res (subF a)
  | ONeg => one_res (opp a0)
  | OMul => one_res (fold_left mul a 1)
  | OMulAcc => one_res (a0 + a1 * a2)
  | ODiv => negb (feqb a1 0) && one_res (a0 / a1)
  | ODivUnchecked => match rs with [q] => if feqb a1 0 then feqb a0 0 else feqb q (a0 / a1) | _ => false end
  | OInverse => negb (feqb a0 0) && one_res (inv a0)
  | OFromBinary => forallb isbb a && one_res (fbvF 1%Z a)
  | OXor => isbb a0 && isbb a1 && one_res (a0 + a1 - (1 + 1) * a0 * a1)
  | OOr => isbb a0 && isbb a1 && one_res (a0 + a1 - a0 * a1)
  | OAnd => isbb a0 && isbb a1 && one_res (a0 * a1)
  | OSelect => isbb a0 && one_res (sel a0 a1 a2)
  | OLookup2 => isbb a0 && isbb a1 && one_res (lk2 a0 a1 a2 (nth 3 a 0) (nth 4 a 0) (nth 5 a 0))
  | OIsZero => one_res (isz a0)
  | OAssertEq => feqb a0 a1 && no_res
  | OAssertDiff => negb (feqb a0 a1) && no_res
  | OAssertBool => isbb a0 && no_res
  | OHint2 => match rs with [_; _] => true | _ => false end
  | OToBinary _ | OCmp | OAssertLeq => false
  end.

Lemma isbb_sound x : isbb x = true -> is_bool x.
Proof. apply is_bool_01. Qed.

Lemma semb_sound k a rs : semb k a rs = true -> sem k a rs.
Proof.
  assert (ONE : forall x, one_resb rs x = true -> rs = [x]).
  { intros x. unfold one_resb. destruct rs as [|r [|r' rs']]; try discriminate. intros H. apply feqb_true in H. rewrite H. reflexivity. }
  assert (NO : no_resb rs = true -> rs = (@nil F)).
  { unfold no_resb. destruct rs; [reflexivity|discriminate]. }
  unfold semb, sem. destruct k; intros H;
    repeat match type of H with (_ && _) = true => let H1 := fresh "H" in apply andb_true_iff in H; destruct H as [H H1] end;
    repeat match goal with
           | X : isbb _ = true |- _ => apply isbb_sound in X
           | X : negb (feqb _ _) = true |- _ => apply negb_true_iff in X; apply feqb_false in X
           | X : feqb _ _ = true |- _ => apply feqb_true in X
           | X : no_resb rs = true |- _ => apply NO in X
           | X : one_resb rs _ = true |- _ => apply ONE in X
           end; auto.
  - (* DivUnchecked *) destruct rs as [|q [|q' rs']]; try discriminate. exists q. split; [reflexivity|].
    destruct (feqb (nth 1 a 0) 0) eqn:Z.
    + right. split; apply feqb_true; assumption.
    + left. split; [apply feqb_false; exact Z|apply feqb_true; exact H].
  - discriminate.
  - (* FromBinary *) split; [|assumption]. apply Forall_forall. intros x IN. apply isbb_sound. exact (proj1 (forallb_forall _ _) H x IN).
  - discriminate.
  - discriminate.
  - (* Hint2 *) destruct rs as [|r0 [|r1 [|r2 rs']]]; try discriminate. eauto.
Qed.

Fixpoint trace_semb (prog : list op) (vs rest : list F) : bool :=
  match prog with
  | [] => match rest with [] => true | _ => false end
  | o :: prog' =>
      let n := nres (fst o) in
      let rs := firstn n rest in
      semb (fst o) (map (aval vs) (snd o)) rs && trace_semb prog' (vs ++ rs) (skipn n rest)
  end.

Lemma trace_semb_sound prog : forall vs rest, trace_semb prog vs rest = true -> trace_sem prog vs (vs ++ rest).
Proof.
  induction prog as [|o prog IH]; intros vs rest; cbn [trace_semb trace_sem].
  - destruct rest; [intros _; apply app_nil_r|discriminate].
  - intros H. apply andb_true_iff in H. destruct H as [H1 H2]. exists (firstn (nres (fst o)) rest).
    split; [apply semb_sound; exact H1|]. apply IH in H2. rewrite <- app_assoc, firstn_skipn in H2. exact H2.
Qed.

(* ================================================================ completeness half
   Whenever the documented meaning admits a value trace, the emitted system has a satisfying
   assignment realising it.  Frame argument: every linear expression mentions only wires below
   [b_next], so an assignment can be extended on the new wires without disturbing what was built. *)
Definition below (n : nat) (l : lexp) : Prop := forall t, In t l -> snd t < n.
Definition instr_below (n : nat) (i : instr F) : Prop :=
  match i with IR1C _ _ l r o => below n l /\ below n r /\ below n o | _ => True end.
Definition wfst (st : bstate) : Prop := 0 < b_next F st /\ Forall (instr_below (b_next F st)) (b_instrs F st).
Definition agree (n : nat) (w w' : nat -> F) : Prop := forall x, x < n -> w x = w' x.

Lemma below_mono n m l : n <= m -> below n l -> below m l.
Proof. intros L B t IN. specialize (B t IN). lia. Qed.
Lemma agree_refl n w : agree n w w. Proof. intros x _. reflexivity. Qed.
Lemma agree_trans n m w1 w2 w3 : n <= m -> agree n w1 w2 -> agree m w2 w3 -> agree n w1 w3.
Proof. intros L A B x H. rewrite (A x H). apply B. lia. Qed.
Lemma agree_mono n m w w' : n <= m -> agree m w w' -> agree n w w'.
Proof. intros L A x H. apply A. lia. Qed.

Lemma ev_agree n w w' l : below n l -> agree n w w' -> ev w l = ev w' l.
Proof.
  induction l as [|[c x] l IH]; intros B A; [reflexivity|]. rewrite !ev_cons.
  rewrite (A x (B (c, x) (or_introl eq_refl))), IH; [reflexivity| |exact A]. intros t IN. apply B. right. exact IN.
Qed.

Lemma good_agree st w w' : wfst st -> agree (b_next F st) w w' -> good w st -> good w' st.
Proof.
  intros [P W] A [G0 G]. split; [rewrite <- (A O P); exact G0|].
  apply Forall_forall. intros i IN. pose proof (proj1 (Forall_forall _ _) W i IN) as Wi. pose proof (proj1 (Forall_forall _ _) G i IN) as Gi.
  destruct i; cbn in *; auto. destruct Wi as (B1 & B2 & B3).
  rewrite <- (ev_agree _ w w' l B1 A), <- (ev_agree _ w w' r B2 A), <- (ev_agree _ w w' o B3 A). exact Gi.
Qed.

Lemma wfst_mono_instrs n m is : n <= m -> Forall (instr_below n) is -> Forall (instr_below m) is.
Proof.
  intros L. apply Forall_impl. intros i. destruct i; cbn; auto. intros (B1 & B2 & B3).
  repeat split; eapply below_mono; eassumption.
Qed.

Lemma below_cle n c : 0 < n -> below n (cle c).
Proof. intros P t [<-|[]]. exact P. Qed.
Lemma below_scale n l k : below n l -> below n (scale l k).
Proof. intros B t IN. unfold BuilderR1CS.scale in IN. apply in_map_iff in IN. destruct IN as (u & <- & IU). apply (B u IU). Qed.
Lemma below_neg n l : below n l -> below n (neg_le l).
Proof. intros B t IN. unfold BuilderR1CS.neg_le in IN. apply in_map_iff in IN. destruct IN as (u & <- & IU). apply (B u IU). Qed.
Lemma below_app n a b : below n a -> below n b -> below n (a ++ b).
Proof. intros A B t IN. apply in_app_or in IN. destruct IN; auto. Qed.

Lemma below_ins_term n c x l : x < n -> below n l -> below n (ins_term c x l).
Proof.
  intros X. induction l as [|[c' x'] l IH]; cbn [BuilderR1CS.ins_term]; intros B.
  - intros t [<-|[]]. exact X.
  - destruct (Nat.ltb x x'); [intros t [<-|IN]; [exact X|apply B; exact IN]|].
    destruct (Nat.eqb x x').
    + intros t [<-|IN]; [apply (B (c', x')); left; reflexivity|apply B; right; exact IN].
    + intros t [<-|IN]; [apply (B (c', x')); left; reflexivity|]. apply IH; [|exact IN]. intros u IU. apply B. right. exact IU.
Qed.

Lemma below_ins_le n ng l : below n l -> forall acc, below n acc -> below n (ins_le ng l acc).
Proof.
  unfold BuilderR1CS.ins_le. induction l as [|t l IH]; intros B acc A; cbn [fold_left]; [exact A|].
  apply IH; [intros u IU; apply B; right; exact IU|]. destruct (feqb (fst t) 0); [exact A|].
  apply below_ins_term; [apply (B t); left; reflexivity|exact A].
Qed.

Lemma below_merge n vars sb : 0 < n -> Forall (below n) vars -> below n (merge_les vars sb).
Proof.
  intros P BV. unfold BuilderR1CS.merge_les.
  set (acc := match vars with [] => [] | v :: vs => fold_left (fun a l => ins_le sb l a) vs (ins_le false v []) end).
  assert (BA : below n acc).
  { subst acc. destruct vars as [|v vs]; [intros t []|]. pose proof (Forall_inv BV) as Bv. pose proof (Forall_inv_tail BV) as Bvs.
    assert (G : forall a0, below n a0 -> below n (fold_left (fun a l => ins_le sb l a) vs a0)).
    { clear Bv BV. induction vs as [|u vs IH]; intros a0 A0; cbn [fold_left]; [exact A0|].
      apply IH; [exact (Forall_inv_tail Bvs)|]. apply below_ins_le; [exact (Forall_inv Bvs)|exact A0]. }
    apply G. apply below_ins_le; [exact Bv|intros t []]. }
  assert (BF : below n (filter (fun t : term F => negb (feqb (fst t) 0)) acc)).
  { intros t IN. apply filter_In in IN. apply BA. apply IN. }
  destruct (filter _ acc); [apply below_cle; exact P|exact BF].
Qed.

(* one builder action: under the (no panic, well-scoped) hypotheses the state stays well-scoped, the
   result is in scope, and every satisfying assignment meeting PRE extends on the new wires to a
   satisfying assignment whose value for the result meets VAL *)
Definition cstep (st st' : bstate) (r : lexp) (PRE : (nat -> F) -> Prop) (VAL : (nat -> F) -> F -> Prop) : Prop :=
  b_err F st' = false -> wfst st ->
  wfst st' /\ b_next F st <= b_next F st' /\ below (b_next F st') r /\
  forall w, good w st -> PRE w -> exists w', agree (b_next F st) w w' /\ good w' st' /\ VAL w (ev w' r).

Definition upd (w : nat -> F) (x : nat) (v : F) : nat -> F := fun y => if Nat.eqb y x then v else w y.
Lemma upd_same w x v : upd w x v x = v. Proof. unfold upd. rewrite Nat.eqb_refl. reflexivity. Qed.
Lemma upd_agree w x v : agree x w (upd w x v).
Proof. intros y H. unfold upd. destruct (Nat.eqb y x) eqn:E; [apply Nat.eqb_eq in E; lia|reflexivity]. Qed.

Lemma wfst_row st l r o : wfst st -> below (b_next F st) l -> below (b_next F st) r -> below (b_next F st) o -> wfst (b_row st l r o).
Proof.
  intros [P W] B1 B2 B3. unfold wfst, BuilderR1CS.b_row. destruct (Nat.ltb _ _); cbn [b_next b_instrs]; (split; [exact P|]); constructor; cbn; auto.
Qed.
Lemma row_next st l r o : b_next F (b_row st l r o) = b_next F st.
Proof. unfold BuilderR1CS.b_row. destruct (Nat.ltb _ _); reflexivity. Qed.

Lemma newvar_c st r st' : b_newvar st = (r, st') -> wfst st ->
  wfst st' /\ b_next F st' = S (b_next F st) /\ r = [(1, b_next F st)] /\ b_err F st' = b_err F st /\
  forall w, good w st' <-> good w st.
Proof.
  unfold BuilderR1CS.b_newvar. intros [= <- <-] [P W]. cbn [b_next b_instrs b_err].
  split; [split; [cbn; lia|cbn; eapply wfst_mono_instrs; [|exact W]; lia]|].
  split; [reflexivity|]. split; [reflexivity|]. split; [reflexivity|].
  intros w. unfold good. cbn [b_instrs]. tauto.
Qed.

Lemma ev_var w x : ev w [(1, x)] = w x.
Proof. rewrite ev_cons, ev_nil. ring. Qed.
Lemma below_var n x : x < n -> below n [(1, x)].
Proof. intros H t [<-|[]]. exact H. Qed.

Lemma compress_c st l r st' : b_compress st l = (r, st') -> below (b_next F st) l ->
  cstep st st' r (fun _ => True) (fun w x => x = ev w l).
Proof.
  unfold BuilderR1CS.b_compress. destruct (_ || _).
  - intros [= <- <-] B _ WF. repeat split; auto; try apply WF. intros w G _. exists w. repeat split; auto; apply agree_refl || apply G.
  - destruct (b_newvar st) as [t st1] eqn:N. intros [= <- <-] B E WF. rewrite row_err in E.
    destruct (newvar_c _ _ _ N WF) as (WF1 & NX & -> & E1 & GG). rewrite row_next, NX.
    assert (B1 : below (b_next F st1) l) by (rewrite NX; eapply below_mono; [|exact B]; lia).
    assert (BT : below (b_next F st1) [(1, b_next F st)]) by (rewrite NX; apply below_var; lia).
    split; [apply wfst_row; auto; apply below_cle; apply WF1|]. split; [lia|]. split; [rewrite <- NX; exact BT|].
    intros w G _. exists (upd w (b_next F st) (ev w l)). split; [apply upd_agree|].
    assert (EL : ev (upd w (b_next F st) (ev w l)) l = ev w l) by (symmetry; eapply ev_agree; [exact B|apply upd_agree]).
    split; [|rewrite ev_var, upd_same; reflexivity].
    apply good_row. split.
    + apply GG. eapply good_agree; [exact WF|apply upd_agree|exact G].
    + unfold BuilderR1CS.le_one. rewrite ev_cle, ev_var, upd_same, EL; [ring|]. unfold upd. destruct (Nat.eqb 0 (b_next F st)) eqn:Z; [apply Nat.eqb_eq in Z; destruct WF; lia|apply G].
Qed.

(* extendability: the values then follow from the soundness lemmas applied to the extended assignment *)
Definition xstep (st st' : bstate) (P : (nat -> F) -> Prop) : Prop :=
  (b_err F st' = false -> b_err F st = false) /\
  (b_err F st' = false -> wfst st ->
     wfst st' /\ b_next F st <= b_next F st' /\
     forall w, good w st -> P w -> exists w', agree (b_next F st) w w' /\ good w' st').

Lemma x_refl st (P : (nat -> F) -> Prop) : xstep st st P.
Proof. split; [auto|]. intros _ WF. split; [exact WF|split; [lia|]]. intros w G _. exists w. split; [apply agree_refl|exact G]. Qed.

Lemma x_err st (P : (nat -> F) -> Prop) : xstep st (set_err st) P.
Proof. split; intros E; discriminate E. Qed.

Lemma x_trans st st1 st2 (P P2 : (nat -> F) -> Prop) :
  xstep st st1 P -> xstep st1 st2 P2 ->
  (forall w w1, good w st -> P w -> agree (b_next F st) w w1 -> good w1 st1 -> P2 w1) -> xstep st st2 P.
Proof.
  intros [E1 X1] [E2 X2] H. split; [auto|]. intros E WF.
  destruct (X1 (E2 E) WF) as (WF1 & L1 & R1). destruct (X2 E WF1) as (WF2 & L2 & R2).
  split; [exact WF2|split; [lia|]]. intros w G Pw. destruct (R1 w G Pw) as (w1 & A1 & G1).
  destruct (R2 w1 G1 (H w w1 G Pw A1 G1)) as (w2 & A2 & G2). exists w2. split; [eapply agree_trans; eassumption|exact G2].
Qed.

Lemma x_weaken st st' (P Q : (nat -> F) -> Prop) : xstep st st' P -> (forall w, good w st -> Q w -> P w) -> xstep st st' Q.
Proof.
  intros [E X] H. split; [exact E|]. intros E' WF. destruct (X E' WF) as (WF' & L & R). split; [exact WF'|split; [exact L|]].
  intros w G Qw. apply R; [exact G|apply H; assumption].
Qed.

Lemma x_row st l r o : below (b_next F st) l -> below (b_next F st) r -> below (b_next F st) o ->
  xstep st (b_row st l r o) (fun w => ev w l * ev w r = ev w o).
Proof.
  intros B1 B2 B3. split; [rewrite row_err; auto|]. intros _ WF. split; [apply wfst_row; assumption|]. split; [rewrite row_next; lia|].
  intros w G Eq. exists w. split; [apply agree_refl|]. apply good_row. split; assumption.
Qed.

(* a fresh wire can be given any value *)
Lemma newvar_x st r st' v : b_newvar st = (r, st') -> wfst st ->
  forall w, good w st -> exists w', agree (b_next F st) w w' /\ good w' st' /\ ev w' r = v.
Proof.
  intros N WF w G. destruct (newvar_c _ _ _ N WF) as (WF1 & NX & -> & E1 & GG).
  exists (upd w (b_next F st) v). split; [apply upd_agree|]. split; [|rewrite ev_var, upd_same; reflexivity].
  apply GG. eapply good_agree; [exact WF|apply upd_agree|exact G].
Qed.

Lemma compress_x st l r st' : b_compress st l = (r, st') -> below (b_next F st) l ->
  xstep st st' (fun _ => True) /\ (b_err F st' = false -> wfst st -> below (b_next F st') r).
Proof.
  intros C B. pose proof (compress_c _ _ _ _ C B) as CS. pose proof (compress_ok _ _ _ _ C) as (X & _ & _).
  split; [split; [apply (ext_err _ _ X)|]|].
  - intros E WF. destruct (CS E WF) as (WF' & L & _ & R). split; [exact WF'|split; [exact L|]].
    intros w G _. destruct (R w G I) as (w' & A & G' & _). exists w'. split; assumption.
  - intros E WF. apply (CS E WF).
Qed.

Lemma add_x st vars sb r st' : b_add st vars sb = (r, st') -> Forall (below (b_next F st)) vars ->
  xstep st st' (fun _ => True) /\ (b_err F st' = false -> wfst st -> below (b_next F st') r).
Proof.
  unfold BuilderR1CS.b_add. intros C BV.
  destruct (b_compress st (merge_les vars sb)) as [r0 st0] eqn:CE. injection C as <- <-.
  assert (X : xstep st st0 (fun _ => True) /\ (b_err F st0 = false -> wfst st -> below (b_next F st0) r0)).
  { pose proof (compress_ok _ _ _ _ CE) as (XE & _ & _).
    split; [split; [apply (ext_err _ _ XE)|]|].
    - intros E WF. assert (B : below (b_next F st) (merge_les vars sb)) by (apply below_merge; [apply WF|exact BV]).
      destruct (compress_x _ _ _ _ CE B) as [[_ X] _]. apply X; assumption.
    - intros E WF. assert (B : below (b_next F st) (merge_les vars sb)) by (apply below_merge; [apply WF|exact BV]).
      destruct (compress_x _ _ _ _ CE B) as [_ RB]. apply RB; assumption. }
  exact X.
Qed.

Definition xr (st st' : bstate) (r : lexp) (P : (nat -> F) -> Prop) : Prop :=
  xstep st st' P /\ (b_err F st' = false -> wfst st -> below (b_next F st') r).

Lemma xr_const st r (P : (nat -> F) -> Prop) : (wfst st -> below (b_next F st) r) -> xr st st r P.
Proof. intros B. split; [apply x_refl|]. intros _ WF. apply B; exact WF. Qed.

Lemma mul2_x st v1 v2 r st' : b_mul2 st v1 v2 = (r, st') -> below (b_next F st) v1 -> below (b_next F st) v2 ->
  xr st st' r (fun _ => True).
Proof.
  unfold BuilderR1CS.b_mul2. intros H B1 B2. destruct (is_const v1) eqn:C1, (is_const v2) eqn:C2.
  - injection H as <- <-. apply xr_const. intros WF. apply below_cle. apply WF.
  - injection H as <- <-. apply xr_const. intros _. apply below_scale; exact B2.
  - injection H as <- <-. apply xr_const. intros _. apply below_scale; exact B1.
  - destruct (b_newvar st) as [t st1] eqn:N. injection H as <- <-.
    split; [split|].
    + rewrite row_err. unfold BuilderR1CS.b_newvar in N. injection N as _ <-. auto.
    + intros E WF. destruct (newvar_c _ _ _ N WF) as (WF1 & NX & RT & E1 & GG).
      assert (M1 : below (b_next F st1) v1) by (eapply below_mono; [|exact B1]; lia).
      assert (M2 : below (b_next F st1) v2) by (eapply below_mono; [|exact B2]; lia).
      assert (MT : below (b_next F st1) t) by (rewrite RT, NX; apply below_var; lia).
      split; [apply wfst_row; assumption|]. split; [rewrite row_next; lia|].
      intros w G _. destruct (newvar_x _ _ _ (ev w v1 * ev w v2) N WF w G) as (w1 & A & G1 & V).
      exists w1. split; [exact A|]. apply good_row. split; [exact G1|].
      rewrite <- (ev_agree _ w w1 v1 B1 A), <- (ev_agree _ w w1 v2 B2 A). symmetry. exact V.
    + intros E WF. destruct (newvar_c _ _ _ N WF) as (WF1 & NX & RT & E1 & GG). rewrite row_next, RT, NX. apply below_var. lia.
Qed.

(* composition for result-producing steps whose second step takes the first result as an operand *)
Lemma xr_then st st1 st2 r1 r2 (P P2 : (nat -> F) -> Prop) :
  xr st st1 r1 P ->
  (b_err F st2 = false -> wfst st1 -> b_next F st <= b_next F st1 -> below (b_next F st1) r1 -> xr st1 st2 r2 P2) ->
  (b_err F st2 = false -> b_err F st1 = false) ->
  (forall w w1, good w st -> P w -> agree (b_next F st) w w1 -> good w1 st1 -> P2 w1) ->
  xr st st2 r2 P.
Proof.
  intros [[E1 X1] B1] H2 E12 HP. split; [split|].
  - intros E. apply E1. apply E12. exact E.
  - intros E WF. pose proof (E12 E) as E1'. destruct (X1 E1' WF) as (WF1 & L1 & R1).
    destruct (H2 E WF1 L1 (B1 E1' WF)) as [[_ X2] _]. destruct (X2 E WF1) as (WF2 & L2 & R2).
    split; [exact WF2|split; [lia|]]. intros w G Pw. destruct (R1 w G Pw) as (w1 & A1 & G1).
    destruct (R2 w1 G1 (HP w w1 G Pw A1 G1)) as (w2 & A2 & G2). exists w2. split; [eapply agree_trans; eassumption|exact G2].
  - intros E WF. pose proof (E12 E) as E1'. destruct (X1 E1' WF) as (WF1 & L1 & R1).
    destruct (H2 E WF1 L1 (B1 E1' WF)) as [_ B2]. apply B2; assumption.
Qed.

Lemma xr_next st st' r P : xr st st' r P -> b_err F st' = false -> wfst st -> b_next F st <= b_next F st'.
Proof. intros [[_ X] _] E WF. apply (X E WF). Qed.

Lemma mul_list_x vs : forall st acc r st', b_mul_list st acc vs = (r, st') ->
  below (b_next F st) acc -> Forall (below (b_next F st)) vs -> xr st st' r (fun _ => True).
Proof.
  induction vs as [|v vs IH]; intros st acc r st' H BA BV; cbn [BuilderR1CS.b_mul_list] in H.
  - injection H as <- <-. apply xr_const. intros _. exact BA.
  - destruct (b_mul2 st acc v) as [r1 st1] eqn:M.
    pose proof (mul2_x _ _ _ _ _ M BA (Forall_inv BV)) as X1.
    pose proof (mul_list_ok _ _ _ _ _ H) as (XE & _ & _).
    eapply xr_then; [exact X1| |apply (ext_err _ _ XE)|intros; exact I].
    intros E WF1 L1 B1. eapply IH; [exact H|exact B1|].
    eapply Forall_impl; [|exact (Forall_inv_tail BV)]. intros l BL. eapply below_mono; [exact L1|exact BL].
Qed.

Lemma mul_x st vars r st' : b_mul st vars = (r, st') -> Forall (below (b_next F st)) vars -> xr st st' r (fun _ => True).
Proof.
  unfold BuilderR1CS.b_mul. intros H BV. destruct vars as [|v1 [|v2 vs]].
  - injection H as <- <-. split; [apply x_err|intros E; discriminate E].
  - injection H as <- <-. split; [apply x_err|intros E; discriminate E].
  - destruct (b_mul2 st v1 v2) as [r1 st1] eqn:M.
    pose proof (mul2_x _ _ _ _ _ M (Forall_inv BV) (Forall_inv (Forall_inv_tail BV))) as X1.
    pose proof (mul_list_ok _ _ _ _ _ H) as (XE & _ & _).
    eapply xr_then; [exact X1| |apply (ext_err _ _ XE)|intros; exact I].
    intros E WF1 L1 B1. eapply mul_list_x; [exact H|exact B1|].
    eapply Forall_impl; [|exact (Forall_inv_tail (Forall_inv_tail BV))]. intros l BL. eapply below_mono; [exact L1|exact BL].
Qed.

Lemma mulacc_x st a b c r st' : b_mulacc st a b c = (r, st') ->
  below (b_next F st) a -> below (b_next F st) b -> below (b_next F st) c -> xr st st' r (fun _ => True).
Proof.
  unfold BuilderR1CS.b_mulacc. intros H Ba Bb Bc. destruct (b_mul2 st b c) as [t st1] eqn:M.
  pose proof (mul2_x _ _ _ _ _ M Bb Bc) as X1. pose proof (add_ok _ _ _ _ _ H) as (XE & _ & _).
  eapply xr_then; [exact X1| |apply (ext_err _ _ XE)|intros; exact I].
  intros E WF1 L1 B1. apply (add_x _ _ _ _ _ H). constructor; [eapply below_mono; [exact L1|exact Ba]|constructor; [exact B1|constructor]].
Qed.

Lemma assert_eq_x st v1 v2 : below (b_next F st) v1 -> below (b_next F st) v2 ->
  xstep st (b_assert_eq st v1 v2) (fun w => ev w v1 = ev w v2).
Proof.
  intros B1 B2. unfold BuilderR1CS.b_assert_eq.
  assert (R : xstep st (b_row st le_one v1 v2) (fun w => ev w v1 = ev w v2)).
  { split; [rewrite row_err; auto|]. intros _ WF.
    assert (B0 : below (b_next F st) le_one) by (apply below_cle; apply WF).
    destruct (x_row st le_one v1 v2 B0 B1 B2) as [_ X]. destruct (X (eq_refl _) WF) as (WF' & L & RR) || idtac.
    all: try (split; [apply wfst_row; assumption|split; [rewrite row_next; lia|]]).
    intros w G Eq. exists w. split; [apply agree_refl|]. apply good_row. split; [exact G|].
    unfold BuilderR1CS.le_one. rewrite (ev_cle w 1 (proj1 G)), <- Eq. ring. }
  destruct (is_const v1) as [c1|]; [|exact R]. destruct (is_const v2) as [c2|]; [|exact R].
  destruct (feqb c1 c2); [apply x_refl|apply x_err].
Qed.

Lemma assert_bool_x st v : below (b_next F st) v -> xstep st (b_assert_bool st v) (fun w => is_bool (ev w v)).
Proof.
  intros B. unfold BuilderR1CS.b_assert_bool. destruct (is_const v) as [c|] eqn:C.
  - destruct (_ || _); [apply x_refl|apply x_err].
  - destruct (is_marked st v); [apply x_refl|].
    destruct (b_add (b_mark st v) [le_one; v] true) as [nv st2] eqn:A.
    pose proof (add_ok _ _ _ _ _ A) as (X2 & B2 & V2).
    assert (NXm : b_next F (b_mark st v) = b_next F st).
    { unfold BuilderR1CS.b_mark. rewrite C. reflexivity. }
    split.
    + rewrite row_err. intros E. apply (mark_err st v). apply (ext_err _ _ X2 E).
    + rewrite row_err. intros E WF.
      assert (WFm : wfst (b_mark st v)). { unfold wfst. rewrite NXm, mark_instrs. exact WF. }
      assert (BVm : Forall (below (b_next F (b_mark st v))) [le_one; v]).
      { rewrite NXm. constructor; [apply below_cle; apply WF|constructor; [exact B|constructor]]. }
      destruct (add_x _ _ _ _ _ A BVm) as [[_ XA] RB]. destruct (XA E WFm) as (WF2 & L2 & R2). rewrite NXm in L2.
      split; [apply wfst_row; [exact WF2|eapply below_mono; [exact L2|exact B]|apply RB; assumption|apply below_cle; apply WF2]|].
      split; [rewrite row_next; exact L2|].
      intros w G HB. destruct (R2 w (proj2 (mark_good w st v) G) I) as (w2 & A2 & G2). rewrite NXm in A2.
      exists w2. split; [exact A2|]. apply good_row. split; [exact G2|].
      rewrite (V2 w2 G2 E). cbn [sum_ev fold_left]. unfold BuilderR1CS.le_one. rewrite (ev_cle w2 1 (proj1 G2)), ev_le_zero.
      rewrite <- (ev_agree _ w w2 v B A2). apply boolean_rel. exact HB.
Qed.

Lemma inverse_x st v r st' : b_inverse st v = (r, st') -> below (b_next F st) v -> xr st st' r (fun w => ev w v <> 0).
Proof.
  unfold BuilderR1CS.b_inverse. intros H B. destruct (is_const v) as [c|].
  - destruct (feqb c 0); injection H as <- <-; [split; [apply x_err|intros E; discriminate E]|].
    apply xr_const. intros WF. apply below_cle. apply WF.
  - destruct (b_newvar st) as [t st1] eqn:N. injection H as <- <-. split; [split|].
    + rewrite row_err. unfold BuilderR1CS.b_newvar in N. injection N as _ <-. auto.
    + intros E WF. destruct (newvar_c _ _ _ N WF) as (WF1 & NX & RT & E1 & GG).
      assert (M1 : below (b_next F st1) v) by (eapply below_mono; [|exact B]; lia).
      assert (MT : below (b_next F st1) t) by (rewrite RT, NX; apply below_var; lia).
      split; [apply wfst_row; [exact WF1|exact MT|exact M1|apply below_cle; apply WF1]|]. split; [rewrite row_next; lia|].
      intros w G NZ. destruct (newvar_x _ _ _ (inv (ev w v)) N WF w G) as (w1 & A & G1 & V).
      exists w1. split; [exact A|]. apply good_row. split; [exact G1|].
      unfold BuilderR1CS.le_one. rewrite (ev_cle w1 1 (proj1 G1)), V, <- (ev_agree _ w w1 v B A). field. exact NZ.
    + intros E WF. destruct (newvar_c _ _ _ N WF) as (WF1 & NX & RT & E1 & GG). rewrite row_next, RT, NX. apply below_var. lia.
Qed.

Lemma div_const_below n v1 n2 : 0 < n -> below n v1 ->
  below n (match is_const v1 with Some n1 => cle (inv n2 * n1) | None => scale v1 (inv n2) end).
Proof. intros P B. destruct (is_const v1); [apply below_cle; exact P|apply below_scale; exact B]. Qed.

Lemma div_x st v1 v2 r st' : b_div st v1 v2 = (r, st') -> below (b_next F st) v1 -> below (b_next F st) v2 ->
  xr st st' r (fun w => ev w v2 <> 0).
Proof.
  unfold BuilderR1CS.b_div. intros H B1 B2. destruct (is_const v2) as [n2|].
  - destruct (feqb n2 0); [injection H as <- <-; split; [apply x_err|intros E; discriminate E]|].
    assert (H' : (match is_const v1 with Some n1 => cle (inv n2 * n1) | None => scale v1 (inv n2) end, st) = (r, st')) by (destruct (is_const v1); exact H).
    injection H' as <- <-. apply xr_const. intros WF. apply div_const_below; [apply WF|exact B1].
  - destruct (b_newvar st) as [t st1] eqn:N1. destruct (b_newvar st1) as [vi st2] eqn:N2. injection H as <- <-. split; [split|].
    + rewrite !row_err. unfold BuilderR1CS.b_newvar in N1, N2. injection N1 as _ <-. injection N2 as _ <-. auto.
    + intros E WF. destruct (newvar_c _ _ _ N1 WF) as (WF1 & NX1 & RT & E1 & GG1). destruct (newvar_c _ _ _ N2 WF1) as (WF2 & NX2 & RV & E2 & GG2).
      assert (M1 : below (b_next F st2) v1) by (eapply below_mono; [|exact B1]; lia).
      assert (M2 : below (b_next F st2) v2) by (eapply below_mono; [|exact B2]; lia).
      assert (MT : below (b_next F st2) t) by (rewrite RT; apply below_var; lia).
      assert (MV : below (b_next F st2) vi) by (rewrite RV; apply below_var; lia).
      assert (WR1 : wfst (b_row st2 v2 vi le_one)) by (apply wfst_row; [exact WF2|exact M2|exact MV|apply below_cle; apply WF2]).
      split; [apply wfst_row; rewrite ?row_next; assumption|]. split; [rewrite !row_next; lia|].
      intros w G NZ. destruct (newvar_x _ _ _ (ev w v1 / ev w v2) N1 WF w G) as (w1 & A1 & G1 & V1).
      destruct (newvar_x _ _ _ (inv (ev w v2)) N2 WF1 w1 G1) as (w2 & A2 & G2 & V2).
      assert (A : agree (b_next F st) w w2) by (eapply agree_trans; [|exact A1|exact A2]; lia).
      exists w2. split; [exact A|]. apply good_row. split; [apply good_row; split; [exact G2|]|].
      * unfold BuilderR1CS.le_one. rewrite (ev_cle w2 1 (proj1 G2)), V2, <- (ev_agree _ w w2 v2 B2 A). field. exact NZ.
      * rewrite V2, <- (ev_agree _ w w2 v1 B1 A).
        assert (BT1 : below (b_next F st1) t) by (rewrite RT, NX1; apply below_var; lia).
        rewrite <- (ev_agree _ w1 w2 t BT1 A2), V1. field. exact NZ.
    + intros E WF. destruct (newvar_c _ _ _ N1 WF) as (WF1 & NX1 & RT & E1 & GG1). destruct (newvar_c _ _ _ N2 WF1) as (WF2 & NX2 & RV & E2 & GG2).
      rewrite !row_next, RT. apply below_var. lia.
Qed.

(* DivUnchecked: for 0/0 the result wire can take any prescribed value q *)
Lemma divunchecked_c st v1 v2 r st' q : b_divunchecked st v1 v2 = (r, st') -> below (b_next F st) v1 -> below (b_next F st) v2 ->
  (b_err F st' = false -> b_err F st = false) /\
  cstep st st' r (fun w => (ev w v2 <> 0) \/ (ev w v2 = 0 /\ ev w v1 = 0)) (fun w x => ev w v2 = 0 -> x = q).
Proof.
  unfold BuilderR1CS.b_divunchecked. intros H B1 B2. destruct (is_const v2) as [n2|] eqn:C2.
  - destruct (feqb n2 0) eqn:Z; [injection H as <- <-; split; [intros E; discriminate E|intros E; discriminate E]|].
    assert (H' : (match is_const v1 with Some n1 => cle (inv n2 * n1) | None => scale v1 (inv n2) end, st) = (r, st')) by (destruct (is_const v1); exact H).
    injection H' as <- <-. split; [auto|]. intros E WF. split; [exact WF|split; [lia|split; [apply div_const_below; [apply WF|exact B1]|]]].
    intros w G _. exists w. split; [apply agree_refl|split; [exact G|]]. intros Z2. exfalso. apply feqb_false in Z. apply Z.
    rewrite <- (is_const_ev w v2 n2 (proj1 G) C2). exact Z2.
  - destruct (b_newvar st) as [t st1] eqn:N. injection H as <- <-. split.
    + rewrite row_err. unfold BuilderR1CS.b_newvar in N. injection N as _ <-. auto.
    + intros E WF. destruct (newvar_c _ _ _ N WF) as (WF1 & NX & RT & E1 & GG).
      assert (M1 : below (b_next F st1) v1) by (eapply below_mono; [|exact B1]; lia).
      assert (M2 : below (b_next F st1) v2) by (eapply below_mono; [|exact B2]; lia).
      assert (MT : below (b_next F st1) t) by (rewrite RT, NX; apply below_var; lia).
      split; [apply wfst_row; assumption|]. split; [rewrite row_next; lia|]. split; [rewrite row_next; exact MT|].
      intros w G PRE.
      destruct (newvar_x _ _ _ (if eq_dec (ev w v2) 0 then q else ev w v1 / ev w v2) N WF w G) as (w1 & A & G1 & V).
      exists w1. split; [exact A|]. split.
      * apply good_row. split; [exact G1|]. rewrite V, <- (ev_agree _ w w1 v1 B1 A), <- (ev_agree _ w w1 v2 B2 A).
        destruct (eq_dec (ev w v2) 0) as [Z|NZ].
        -- destruct PRE as [NZ|[_ Z1]]; [contradiction|]. rewrite Z, Z1. ring.
        -- field. exact NZ.
      * intros Z. rewrite V. destruct (eq_dec (ev w v2) 0); [reflexivity|contradiction].
Qed.

Lemma assert_diff_x st v1 v2 : below (b_next F st) v1 -> below (b_next F st) v2 ->
  xstep st (b_assert_diff st v1 v2) (fun w => ev w v1 <> ev w v2).
Proof.
  intros B1 B2. unfold BuilderR1CS.b_assert_diff. destruct (b_add st [v1; v2] true) as [s0 st1] eqn:A.
  pose proof (add_ok _ _ _ _ _ A) as (XA & _ & VA).
  assert (BV : Forall (below (b_next F st)) [v1; v2]) by (constructor; [exact B1|constructor; [exact B2|constructor]]).
  destruct (add_x _ _ _ _ _ A BV) as [XS RB].
  assert (INV : xstep st (snd (b_inverse st1 s0)) (fun w => ev w v1 <> ev w v2)).
  { destruct (b_inverse st1 s0) as [r st2] eqn:IV. cbn [snd]. pose proof (inverse_ok _ _ _ _ IV) as (XI & _ & _).
    destruct XS as [ES XS']. split; [intros E; apply ES; apply (ext_err _ _ XI E)|].
    intros E WF. pose proof (ext_err _ _ XI E) as E1. destruct (XS' E1 WF) as (WF1 & L1 & R1).
    destruct (inverse_x _ _ _ _ IV (RB E1 WF)) as [[_ XI'] _]. destruct (XI' E WF1) as (WF2 & L2 & R2).
    split; [exact WF2|split; [lia|]]. intros w G NE. destruct (R1 w G I) as (w1 & A1 & G1).
    assert (NZ : ev w1 s0 <> 0).
    { rewrite (VA w1 G1 E1). cbn [sum_ev fold_left]. rewrite <- (ev_agree _ w w1 v1 B1 A1), <- (ev_agree _ w w1 v2 B2 A1).
      intros Z. apply NE. transitivity (ev w v1 - ev w v2 + ev w v2); [ring|rewrite Z; ring]. }
    destruct (R2 w1 G1 NZ) as (w2 & A2 & G2). exists w2. split; [eapply agree_trans; eassumption|exact G2]. }
  destruct s0 as [|[c x] [|t s0]]; try exact INV. destruct (feqb c 0); [|exact INV].
  split; intros E; discriminate E.
Qed.

(* hint outputs can take any prescribed values *)
Lemma hint_c st hid ins n rs st' (vals : list F) : b_hint st hid ins n = (rs, st') -> length vals = n -> wfst st ->
  wfst st' /\ b_next F st <= b_next F st' /\ Forall (below (b_next F st')) rs /\ b_err F st' = b_err F st /\
  forall w, good w st -> exists w', agree (b_next F st) w w' /\ good w' st' /\ map (ev w') rs = vals.
Proof.
  unfold BuilderR1CS.b_hint. intros [= <- <-] LV [P W]. unfold wfst. cbn [b_next b_instrs b_err].
  split; [split; [lia|constructor; [exact I|eapply wfst_mono_instrs; [|exact W]; lia]]|]. split; [lia|].
  split; [apply Forall_forall; intros l IN; apply in_map_iff in IN; destruct IN as (k & <- & IK); apply in_seq in IK; apply below_var; lia|].
  split; [reflexivity|]. intros w [G0 G].
  set (w' := fun y => if Nat.ltb y (b_next F st) then w y else nth (Nat.sub y (b_next F st)) vals 0).
  assert (A : agree (b_next F st) w w').
  { intros y H. unfold w'. destruct (Nat.ltb y (b_next F st)) eqn:E; [reflexivity|apply Nat.ltb_ge in E; lia]. }
  exists w'. split; [exact A|]. split.
  - pose proof (good_agree st w w' (conj P W) A (conj G0 G)) as [G0' G']. split; [exact G0'|constructor; [exact I|exact G']].
  - rewrite map_map. rewrite <- LV.
    assert (H : forall k, k < length vals -> ev w' [(1, Nat.add (b_next F st) k)] = nth k vals 0).
    { intros k Hk. rewrite ev_var. unfold w'. destruct (Nat.ltb (Nat.add (b_next F st) k) (b_next F st)) eqn:E; [apply Nat.ltb_lt in E; lia|].
      replace (Nat.sub (Nat.add (b_next F st) k) (b_next F st)) with k by lia. reflexivity. }
    apply nth_ext with (d := 0) (d' := 0); [rewrite map_length, seq_length; reflexivity|].
    intros k Hk. rewrite map_length, seq_length in Hk.
    rewrite (nth_indep _ 0 (ev w' [(1, (b_next F st + 0)%nat)])) by (rewrite map_length, seq_length; exact Hk).
    rewrite (map_nth (fun k => ev w' [(1, (b_next F st + k)%nat)]) (seq 0 (length vals)) O k), seq_nth by exact Hk. apply H. exact Hk.
Qed.

Lemma x_xr st st1 st2 r (P P1 P2 : (nat -> F) -> Prop) :
  xstep st st1 P1 ->
  (b_err F st2 = false -> wfst st1 -> b_next F st <= b_next F st1 -> xr st1 st2 r P2) ->
  (b_err F st2 = false -> b_err F st1 = false) ->
  (forall w, good w st -> P w -> P1 w) ->
  (forall w w1, good w st -> P w -> agree (b_next F st) w w1 -> good w1 st1 -> P2 w1) ->
  xr st st2 r P.
Proof.
  intros [E1 X1] H2 E12 HP1 HP2. split; [split|].
  - intros E. apply E1. apply E12. exact E.
  - intros E WF. pose proof (E12 E) as E1'. destruct (X1 E1' WF) as (WF1 & L1 & R1).
    destruct (H2 E WF1 L1) as [[_ X2] _]. destruct (X2 E WF1) as (WF2 & L2 & R2).
    split; [exact WF2|split; [lia|]]. intros w G Pw. destruct (R1 w G (HP1 w G Pw)) as (w1 & A1 & G1).
    destruct (R2 w1 G1 (HP2 w w1 G Pw A1 G1)) as (w2 & A2 & G2). exists w2. split; [eapply agree_trans; eassumption|exact G2].
  - intros E WF. pose proof (E12 E) as E1'. destruct (X1 E1' WF) as (WF1 & L1 & R1).
    destruct (H2 E WF1 L1) as [_ B2]. apply B2; assumption.
Qed.

Lemma mark_next st v : b_next F (b_mark st v) = b_next F st.
Proof. unfold BuilderR1CS.b_mark. destruct (is_const v); [destruct (_ || _)|]; reflexivity. Qed.

Lemma xr_mark st st' r (P : (nat -> F) -> Prop) v : xr st st' r P -> xr st (b_mark st' v) r P.
Proof.
  intros [[E X] B]. split; [split|].
  - intros Em. apply E. apply (mark_err _ _ Em).
  - intros Em WF. pose proof (mark_err _ _ Em) as E'. destruct (X E' WF) as (WF' & L & R).
    split; [unfold wfst; rewrite mark_next, mark_instrs; exact WF'|]. split; [rewrite mark_next; exact L|].
    intros w G Pw. destruct (R w G Pw) as (w' & A & G'). exists w'. split; [exact A|apply mark_good; exact G'].
  - intros Em WF. rewrite mark_next. apply B; [apply (mark_err _ _ Em)|exact WF].
Qed.

Lemma is_bool_agree n w w1 v : below n v -> agree n w w1 -> is_bool (ev w v) -> is_bool (ev w1 v).
Proof. intros B A H. rewrite <- (ev_agree _ w w1 v B A). exact H. Qed.

Lemma ab2_x st a b : below (b_next F st) a -> below (b_next F st) b ->
  xstep st (b_assert_bool (b_assert_bool st a) b) (fun w => is_bool (ev w a) /\ is_bool (ev w b)).
Proof.
  intros Ba Bb. pose proof (assert_bool_x st a Ba) as [E1 X1].
  destruct (assert_bool_ok (b_assert_bool st a) b) as [XE2 _].
  split; [intros E; apply E1; apply (ext_err _ _ XE2 E)|]. intros E WF. pose proof (ext_err _ _ XE2 E) as E1'.
  destruct (X1 E1' WF) as (WF1 & L1 & R1).
  destruct (assert_bool_x (b_assert_bool st a) b (below_mono _ _ _ L1 Bb)) as [_ X2]. destruct (X2 E WF1) as (WF2 & L2 & R2).
  split; [exact WF2|split; [lia|]]. intros w G [Ha Hb]. destruct (R1 w G Ha) as (w1 & A1 & G1).
  destruct (R2 w1 G1 (is_bool_agree _ w w1 b Bb A1 Hb)) as (w2 & A2 & G2). exists w2. split; [eapply agree_trans; eassumption|exact G2].
Qed.

Lemma and_x st a b r st' : b_and st a b = (r, st') -> below (b_next F st) a -> below (b_next F st) b ->
  xr st st' r (fun w => is_bool (ev w a) /\ is_bool (ev w b)).
Proof.
  unfold BuilderR1CS.b_and. intros H Ba Bb. destruct (b_mul _ [a; b]) as [r0 st3] eqn:M. injection H as <- <-.
  apply xr_mark. pose proof (mul_ok _ _ _ _ M) as (XE & _ & _).
  eapply x_xr; [apply (ab2_x st a b Ba Bb)| |apply (ext_err _ _ XE)|intros w _ H; exact H|intros; exact I].
  intros E WF2 L2. apply (mul_x _ _ _ _ M). constructor; [eapply below_mono; [exact L2|exact Ba]|constructor; [eapply below_mono; [exact L2|exact Bb]|constructor]].
Qed.

Ltac errmono := let E := fresh "E" in intros E; eauto 8 using ext_err.
Ltac bmono L := eapply below_mono; [exact L|]; assumption.

Lemma xor_x st a b r st' : b_xor st a b = (r, st') -> below (b_next F st) a -> below (b_next F st) b ->
  xr st st' r (fun w => is_bool (ev w a) /\ is_bool (ev w b)).
Proof.
  unfold BuilderR1CS.b_xor. intros H Ba Bb.
  set (ab := if Nat.ltb (length a) (length b) then (b, a) else (a, b)) in H.
  assert (BAB : below (b_next F st) (fst ab) /\ below (b_next F st) (snd ab)) by (subst ab; destruct (Nat.ltb _ _); cbn; auto).
  destruct ab as [a' b']. cbn [fst snd] in BAB. destruct BAB as [Ba' Bb'].
  destruct (b_mul _ [b'; cle (cst 2)]) as [b2 st3] eqn:M1.
  destruct (b_add st3 [le_one; b2] true) as [t st4] eqn:A1.
  destruct (b_mul st4 [a'; t]) as [at_ st5] eqn:M2.
  destruct (b_add st5 [at_; b'] false) as [r0 st6] eqn:A2. injection H as <- <-.
  pose proof (proj1 (mul_ok _ _ _ _ M1)) as X3. pose proof (proj1 (add_ok _ _ _ _ _ A1)) as X4.
  pose proof (proj1 (mul_ok _ _ _ _ M2)) as X5. pose proof (proj1 (add_ok _ _ _ _ _ A2)) as X6.
  apply xr_mark.
  eapply x_xr; [apply (ab2_x st a b Ba Bb)| |errmono|intros w _ Hw; exact Hw|intros; exact I].
  intros E WF2 L2.
  eapply xr_then; [apply (mul_x _ _ _ _ M1); constructor; [bmono L2|constructor; [apply below_cle; apply WF2|constructor]]| |errmono|intros; exact I].
  intros _ WF3 L3 B3.
  eapply xr_then; [apply (add_x _ _ _ _ _ A1); constructor; [apply below_cle; apply WF3|constructor; [exact B3|constructor]]| |errmono|intros; exact I].
  intros _ WF4 L4 B4.
  eapply xr_then; [apply (mul_x _ _ _ _ M2); constructor; [eapply below_mono; [|exact Ba']; lia|constructor; [exact B4|constructor]]| |errmono|intros; exact I].
  intros _ WF5 L5 B5.
  apply (add_x _ _ _ _ _ A2). constructor; [exact B5|constructor; [eapply below_mono; [|exact Bb']; lia|constructor]].
Qed.

Lemma or_x st a b r st' : b_or st a b = (r, st') -> below (b_next F st) a -> below (b_next F st) b ->
  xr st st' r (fun w => is_bool (ev w a) /\ is_bool (ev w b)).
Proof.
  unfold BuilderR1CS.b_or. intros H Ba Bb. set (st2 := b_assert_bool (b_assert_bool st a) b) in *.
  destruct (b_newvar st2) as [r0 st3] eqn:N. injection H as <- <-.
  pose proof (ab2_x st a b Ba Bb) as [E2 X2]. fold st2 in E2, X2.
  assert (E3 : b_err F st3 = b_err F st2) by (unfold BuilderR1CS.b_newvar in N; injection N as _ <-; reflexivity).
  set (st4 := b_mark st3 r0). set (c := b_neg st4 r0 ++ a ++ b).
  split; [split|].
  - rewrite row_err. intros E. apply E2. rewrite <- E3. apply (mark_err _ _ E).
  - rewrite row_err. intros E WF. pose proof (mark_err _ _ E) as E3'. rewrite E3 in E3'.
    destruct (X2 E3' WF) as (WF2 & L2 & R2). destruct (newvar_c _ _ _ N WF2) as (WF3 & NX & RT & _ & GG).
    assert (WF4 : wfst st4) by (unfold wfst, st4; rewrite mark_next, mark_instrs; exact WF3).
    assert (N4 : b_next F st4 = S (b_next F st2)) by (unfold st4; rewrite mark_next; exact NX).
    assert (Ba4 : below (b_next F st4) a) by (eapply below_mono; [|exact Ba]; lia).
    assert (Bb4 : below (b_next F st4) b) by (eapply below_mono; [|exact Bb]; lia).
    assert (Br4 : below (b_next F st4) r0) by (rewrite RT, N4; apply below_var; lia).
    assert (Bc4 : below (b_next F st4) c).
    { subst c. apply below_app; [|apply below_app; assumption]. unfold BuilderR1CS.b_neg. destruct (is_const r0); [apply below_cle; apply WF4|apply below_neg; exact Br4]. }
    split; [apply wfst_row; assumption|]. split; [rewrite row_next; lia|].
    intros w G [Ha Hb]. destruct (R2 w G (conj Ha Hb)) as (w2 & A2 & G2).
    destruct (newvar_x _ _ _ (ev w a + ev w b - ev w a * ev w b) N WF2 w2 G2) as (w3 & A3 & G3 & V3).
    assert (A : agree (b_next F st) w w3) by (eapply agree_trans; [exact L2|exact A2|exact A3]).
    exists w3. split; [exact A|]. apply good_row. split; [apply mark_good; exact G3|].
    subst c. rewrite !ev_app, (neg_ok w3 st4 r0 (proj1 G3)), V3, <- (ev_agree _ w w3 a Ba A), <- (ev_agree _ w w3 b Bb A). ring.
  - rewrite row_err. intros E WF. pose proof (mark_err _ _ E) as E3'. rewrite E3 in E3'.
    destruct (X2 E3' WF) as (WF2 & L2 & R2). destruct (newvar_c _ _ _ N WF2) as (WF3 & NX & RT & _ & GG).
    rewrite row_next. unfold st4. rewrite mark_next, RT, NX. apply below_var. lia.
Qed.

Lemma select_x st c v1 v2 r st' : b_select st c v1 v2 = (r, st') ->
  below (b_next F st) c -> below (b_next F st) v1 -> below (b_next F st) v2 ->
  xr st st' r (fun w => is_bool (ev w c)).
Proof.
  unfold BuilderR1CS.b_select. intros H Bc B1 B2. set (st1 := b_assert_bool st c) in *.
  pose proof (assert_bool_x st c Bc) as AB. fold st1 in AB.
  destruct (is_const c) as [k|] eqn:C.
  - assert (H' : ((if feqb k 1 then v1 else v2), st1) = (r, st')) by (destruct (feqb k 1); exact H).
    injection H' as <- <-. split; [exact AB|]. intros E WF. destruct AB as [_ X]. destruct (X E WF) as (_ & L & _).
    destruct (feqb k 1); eapply below_mono; eassumption.
  - assert (GEN : forall r st', (let '(v, st2) := b_add st1 [v1; v2] true in let '(w0, st3) := b_mul st2 [c; v] in b_add st3 [w0; v2] false) = (r, st') ->
       xr st st' r (fun w => is_bool (ev w c))).
    { intros r1 st1'. destruct (b_add st1 [v1; v2] true) as [v st2] eqn:A1. destruct (b_mul st2 [c; v]) as [w0 st3] eqn:M. intros A2.
      pose proof (proj1 (add_ok _ _ _ _ _ A1)) as X2. pose proof (proj1 (mul_ok _ _ _ _ M)) as X3. pose proof (proj1 (add_ok _ _ _ _ _ A2)) as X4.
      eapply x_xr; [exact AB| |errmono|intros w _ Hw; exact Hw|intros; exact I].
      intros E WF1 L1.
      eapply xr_then; [apply (add_x _ _ _ _ _ A1); constructor; [bmono L1|constructor; [bmono L1|constructor]]| |errmono|intros; exact I].
      intros _ WF2 L2 Bv.
      eapply xr_then; [apply (mul_x _ _ _ _ M); constructor; [eapply below_mono; [|exact Bc]; lia|constructor; [exact Bv|constructor]]| |errmono|intros; exact I].
      intros _ WF3 L3 Bw.
      apply (add_x _ _ _ _ _ A2). constructor; [exact Bw|constructor; [eapply below_mono; [|exact B2]; lia|constructor]]. }
    assert (ZERO : forall r st', (let '(v, st2) := b_add st1 [le_one; c] true in b_mul st2 [v; v2]) = (r, st') ->
       xr st st' r (fun w => is_bool (ev w c))).
    { intros r1 st1'. destruct (b_add st1 [le_one; c] true) as [v st2] eqn:A1. intros M.
      pose proof (proj1 (add_ok _ _ _ _ _ A1)) as X2. pose proof (proj1 (mul_ok _ _ _ _ M)) as X3.
      eapply x_xr; [exact AB| |errmono|intros w _ Hw; exact Hw|intros; exact I].
      intros E WF1 L1.
      eapply xr_then; [apply (add_x _ _ _ _ _ A1); constructor; [apply below_cle; apply WF1|constructor; [bmono L1|constructor]]| |errmono|intros; exact I].
      intros _ WF2 L2 Bv.
      apply (mul_x _ _ _ _ M). constructor; [exact Bv|constructor; [eapply below_mono; [|exact B2]; lia|constructor]]. }
    destruct (is_const v1) as [n1|] eqn:C1; destruct (is_const v2) as [n2|] eqn:C2.
    + destruct (b_mul st1 [c; cle (n1 - n2)]) as [r1 st2] eqn:M.
      pose proof (proj1 (mul_ok _ _ _ _ M)) as X2. pose proof (proj1 (add_ok _ _ _ _ _ H)) as X3.
      eapply x_xr; [exact AB| |errmono|intros w _ Hw; exact Hw|intros; exact I].
      intros E WF1 L1.
      eapply xr_then; [apply (mul_x _ _ _ _ M); constructor; [bmono L1|constructor; [apply below_cle; apply WF1|constructor]]| |errmono|intros; exact I].
      intros _ WF2 L2 Br.
      apply (add_x _ _ _ _ _ H). constructor; [exact Br|constructor; [eapply below_mono; [|exact B2]; lia|constructor]].
    + destruct (feqb n1 0); [apply ZERO|apply GEN]; exact H.
    + apply GEN; exact H.
    + apply GEN; exact H.
Qed.

Notation hid_invzero := BuilderR1CS.hid_invzero.

Lemma iszero_x st a r st' : b_iszero st a = (r, st') -> below (b_next F st) a -> xr st st' r (fun _ => True).
Proof.
  unfold BuilderR1CS.b_iszero. intros H Ba. destruct (is_const a) as [c|] eqn:C.
  - destruct (feqb c 0); injection H as <- <-; apply xr_const; intros WF; apply below_cle; apply WF.
  - destruct (b_newvar st) as [m st1] eqn:N. destruct (b_hint st1 hid_invzero [a] 1) as [xs st2] eqn:HH.
    destruct (b_add st2 [m; cle (cst 1)] true) as [m1 st3] eqn:A. injection H as <- <-.
    apply xr_mark.
    assert (E1 : b_err F st1 = b_err F st) by (unfold BuilderR1CS.b_newvar in N; injection N as _ <-; reflexivity).
    assert (E2 : b_err F st2 = b_err F st1) by (unfold BuilderR1CS.b_hint in HH; injection HH as _ <-; reflexivity).
    pose proof (add_ok _ _ _ _ _ A) as (X3 & _ & V3).
    split; [split|].
    + rewrite !row_err. intros E. rewrite <- E1, <- E2. apply (ext_err _ _ X3 E).
    + rewrite !row_err. intros E WF. pose proof (ext_err _ _ X3 E) as E2'.
      destruct (newvar_c _ _ _ N WF) as (WF1 & NX1 & RM & _ & GG1).
      destruct (hint_c _ _ _ _ _ _ [if eq_dec (ev (fun _ => 0) a) 0 then 0 else 0] HH eq_refl WF1) as (WF2 & L2 & BX & _ & _).
      assert (Bm2 : below (b_next F st2) m) by (rewrite RM; apply below_var; lia).
      assert (BV3 : Forall (below (b_next F st2)) [m; cle (cst 1)]) by (constructor; [exact Bm2|constructor; [apply below_cle; apply WF2|constructor]]).
      destruct (add_x _ _ _ _ _ A BV3) as [[_ XA] RB]. destruct (XA E WF2) as (WF3 & L3 & R3).
      assert (Ba3 : below (b_next F st3) a) by (eapply below_mono; [|exact Ba]; lia).
      assert (Bm3 : below (b_next F st3) m) by (eapply below_mono; [exact L3|exact Bm2]).
      assert (Bx3 : below (b_next F st3) (hd le_zero xs)).
      { destruct xs as [|x xs']; [apply below_cle; apply WF3|]. cbn [hd]. eapply below_mono; [exact L3|exact (Forall_inv BX)]. }
      assert (Bn3 : below (b_next F st3) (b_neg st3 a)).
      { unfold BuilderR1CS.b_neg. rewrite C. apply below_neg. exact Ba3. }
      assert (WR : wfst (b_row st3 (b_neg st3 a) (hd le_zero xs) m1)) by (apply wfst_row; [exact WF3|exact Bn3|exact Bx3|apply RB; assumption]).
      split; [apply wfst_row; rewrite ?row_next; [exact WR|exact Ba3|exact Bm3|apply below_cle; apply WF3]|]. split; [rewrite !row_next; lia|].
      intros w G _.
      destruct (newvar_x _ _ _ (isz (ev w a)) N WF w G) as (w1 & A1 & G1 & V1).
      destruct (hint_c _ _ _ _ _ _ [if eq_dec (ev w a) 0 then 0 else inv (ev w a)] HH eq_refl WF1) as (_ & _ & _ & _ & RH).
      destruct (RH w1 G1) as (w2 & A2 & G2 & V2).
      destruct (R3 w2 G2 I) as (w3 & A3 & G3).
      assert (A13 : agree (b_next F st1) w1 w3) by (eapply agree_trans; [exact L2|exact A2|exact A3]).
      assert (A03 : agree (b_next F st) w w3) by (eapply agree_trans; [|exact A1|exact A13]; lia).
      exists w3. split; [exact A03|].
      assert (Em : ev w3 m = isz (ev w a)).
      { rewrite <- V1. symmetry. eapply ev_agree; [|exact A13]. rewrite RM, NX1. apply below_var. lia. }
      assert (Ex : ev w3 (hd le_zero xs) = if eq_dec (ev w a) 0 then 0 else inv (ev w a)).
      { destruct xs as [|x [|x' xs']]; try discriminate V2. cbn [hd]. cbn [map] in V2. injection V2 as V2.
        rewrite <- V2. symmetry. eapply ev_agree; [exact (Forall_inv BX)|exact A3]. }
      assert (Ea : ev w3 a = ev w a) by (symmetry; eapply ev_agree; [exact Ba|exact A03]).
      apply good_row. split; [apply good_row; split; [exact G3|]|].
      * rewrite (neg_ok w3 st3 a (proj1 G3)), Ex, (V3 w3 G3 E), Ea. cbn [sum_ev fold_left]. rewrite Em, (ev_cle w3 _ (proj1 G3)), cst1.
        unfold isz. destruct (eq_dec (ev w a) 0) as [Z|NZ]; [rewrite Z; ring|field; exact NZ].
      * rewrite Ea, Em, ev_le_zero. unfold isz. destruct (eq_dec (ev w a) 0) as [Z|NZ]; [rewrite Z; ring|ring].
    + rewrite !row_next. intros E WF. rewrite !row_err in E. pose proof (ext_err _ _ X3 E) as E2'.
      destruct (newvar_c _ _ _ N WF) as (WF1 & NX1 & RM & _ & GG1).
      destruct (hint_c _ _ _ _ _ _ [0] HH eq_refl WF1) as (WF2 & L2 & BX & _ & _).
      assert (Bm2 : below (b_next F st2) m) by (rewrite RM; apply below_var; lia).
      assert (BV3 : Forall (below (b_next F st2)) [m; cle (cst 1)]) by (constructor; [exact Bm2|constructor; [apply below_cle; apply WF2|constructor]]).
      destruct (add_x _ _ _ _ _ A BV3) as [[_ XA] RB]. destruct (XA E WF2) as (WF3 & L3 & R3).
      eapply below_mono; [exact L3|exact Bm2].
Qed.

Lemma lookup2_x st s0 s1 i0 i1 i2 i3 r st' : b_lookup2 st s0 s1 i0 i1 i2 i3 = (r, st') ->
  below (b_next F st) s0 -> below (b_next F st) s1 -> below (b_next F st) i0 -> below (b_next F st) i1 ->
  below (b_next F st) i2 -> below (b_next F st) i3 ->
  xr st st' r (fun w => is_bool (ev w s0) /\ is_bool (ev w s1)).
Proof.
  unfold BuilderR1CS.b_lookup2. intros H Bs0 Bs1 B0 B1 B2 B3. set (st2 := b_assert_bool (b_assert_bool st s0) s1) in *.
  pose proof (ab2_x st s0 s1 Bs0 Bs1) as AB. fold st2 in AB.
  assert (GEN : forall r st',
    (let '(t1, st3) := b_add st2 [i3; i0] false in
     let '(t1, st4) := b_add st3 [t1; i2; i1] true in
     let '(t1, st5) := b_mul st4 [t1; s1] in
     let '(t1, st6) := b_add st5 [t1; i1] false in
     let '(t1, st7) := b_add st6 [t1; i0] true in
     let '(t2, st8) := b_mul st7 [t1; s0] in
     let '(r, st9) := b_add st8 [i2; i0] true in
     let '(r, st10) := b_mul st9 [r; s1] in
     b_add st10 [r; t2; i0] false) = (r, st') ->
    xr st st' r (fun w => is_bool (ev w s0) /\ is_bool (ev w s1))).
  { intros r1 st1'.
    destruct (b_add st2 [i3; i0] false) as [ta st3] eqn:H1. destruct (b_add st3 [ta; i2; i1] true) as [tb st4] eqn:H2.
    destruct (b_mul st4 [tb; s1]) as [tc st5] eqn:H3. destruct (b_add st5 [tc; i1] false) as [td st6] eqn:H4.
    destruct (b_add st6 [td; i0] true) as [te st7] eqn:H5. destruct (b_mul st7 [te; s0]) as [t2 st8] eqn:H6.
    destruct (b_add st8 [i2; i0] true) as [ra st9] eqn:H7. destruct (b_mul st9 [ra; s1]) as [rb st10] eqn:H8. intros H9.
    pose proof (proj1 (add_ok _ _ _ _ _ H1)) as X3. pose proof (proj1 (add_ok _ _ _ _ _ H2)) as X4. pose proof (proj1 (mul_ok _ _ _ _ H3)) as X5.
    pose proof (proj1 (add_ok _ _ _ _ _ H4)) as X6. pose proof (proj1 (add_ok _ _ _ _ _ H5)) as X7. pose proof (proj1 (mul_ok _ _ _ _ H6)) as X8.
    pose proof (proj1 (add_ok _ _ _ _ _ H7)) as X9. pose proof (proj1 (mul_ok _ _ _ _ H8)) as X10. pose proof (proj1 (add_ok _ _ _ _ _ H9)) as X11.
    assert (EM : b_err F st1' = false -> b_err F st2 = false).
    { intros E. apply (ext_err _ _ X3). apply (ext_err _ _ X4). apply (ext_err _ _ X5). apply (ext_err _ _ X6). apply (ext_err _ _ X7).
      apply (ext_err _ _ X8). apply (ext_err _ _ X9). apply (ext_err _ _ X10). apply (ext_err _ _ X11). exact E. }
    eapply x_xr; [exact AB| |exact EM|intros w _ Hw; exact Hw|intros; exact I].
    intros E WF2 L2.
    pose proof (ext_err _ _ X11 E) as E10. pose proof (ext_err _ _ X10 E10) as E9. pose proof (ext_err _ _ X9 E9) as E8.
    pose proof (ext_err _ _ X8 E8) as E7. pose proof (ext_err _ _ X7 E7) as E6. pose proof (ext_err _ _ X6 E6) as E5.
    pose proof (ext_err _ _ X5 E5) as E4. pose proof (ext_err _ _ X4 E4) as E3.
    assert (M : forall l, below (b_next F st) l -> below (b_next F st2) l) by (intros l Bl; eapply below_mono; [exact L2|exact Bl]).
    eapply xr_then; [apply (add_x _ _ _ _ _ H1); repeat constructor; apply M; assumption| |intros _; exact E3|intros; exact I].
    intros _ WF3 L3 Ba.
    assert (M3 : forall l, below (b_next F st) l -> below (b_next F st3) l) by (intros l Bl; eapply below_mono; [|exact Bl]; lia).
    eapply xr_then; [apply (add_x _ _ _ _ _ H2); constructor; [exact Ba|repeat constructor; apply M3; assumption]| |intros _; exact E4|intros; exact I].
    intros _ WF4 L4 Bb.
    assert (M4 : forall l, below (b_next F st) l -> below (b_next F st4) l) by (intros l Bl; eapply below_mono; [|exact Bl]; lia).
    eapply xr_then; [apply (mul_x _ _ _ _ H3); constructor; [exact Bb|repeat constructor; apply M4; assumption]| |intros _; exact E5|intros; exact I].
    intros _ WF5 L5 Bc.
    assert (M5 : forall l, below (b_next F st) l -> below (b_next F st5) l) by (intros l Bl; eapply below_mono; [|exact Bl]; lia).
    eapply xr_then; [apply (add_x _ _ _ _ _ H4); constructor; [exact Bc|repeat constructor; apply M5; assumption]| |intros _; exact E6|intros; exact I].
    intros _ WF6 L6 Bd.
    assert (M6 : forall l, below (b_next F st) l -> below (b_next F st6) l) by (intros l Bl; eapply below_mono; [|exact Bl]; lia).
    eapply xr_then; [apply (add_x _ _ _ _ _ H5); constructor; [exact Bd|repeat constructor; apply M6; assumption]| |intros _; exact E7|intros; exact I].
    intros _ WF7 L7 Be.
    assert (M7 : forall l, below (b_next F st) l -> below (b_next F st7) l) by (intros l Bl; eapply below_mono; [|exact Bl]; lia).
    eapply xr_then; [apply (mul_x _ _ _ _ H6); constructor; [exact Be|repeat constructor; apply M7; assumption]| |intros _; exact E8|intros; exact I].
    intros _ WF8 L8 Bt2.
    assert (M8 : forall l, below (b_next F st) l -> below (b_next F st8) l) by (intros l Bl; eapply below_mono; [|exact Bl]; lia).
    (* the last three steps do not consume t2 at once: carry its scope along *)
    destruct (add_x _ _ _ _ _ H7 (Forall_cons _ (M8 _ B2) (Forall_cons _ (M8 _ B0) (Forall_nil _)))) as [[_ XA9] RB9].
    split; [split|].
    + intros _. exact E8.
    + intros _ _. destruct (XA9 E9 WF8) as (WF9 & L9 & R9).
      assert (M9 : forall l, below (b_next F st8) l -> below (b_next F st9) l) by (intros l Bl; eapply below_mono; [exact L9|exact Bl]).
      destruct (mul_x _ _ _ _ H8 (Forall_cons _ (RB9 E9 WF8) (Forall_cons _ (M9 _ (M8 _ Bs1)) (Forall_nil _)))) as [[_ XA10] RB10].
      destruct (XA10 E10 WF9) as (WF10 & L10 & R10).
      assert (M10 : forall l, below (b_next F st8) l -> below (b_next F st10) l) by (intros l Bl; eapply below_mono; [|exact Bl]; lia).
      destruct (add_x _ _ _ _ _ H9 (Forall_cons _ (RB10 E10 WF9) (Forall_cons _ (M10 _ Bt2) (Forall_cons _ (M10 _ (M8 _ B0)) (Forall_nil _))))) as [[_ XA11] RB11].
      destruct (XA11 E WF10) as (WF11 & L11 & R11).
      split; [exact WF11|split; [lia|]]. intros w G _.
      destruct (R9 w G I) as (w9 & A9 & G9). destruct (R10 w9 G9 I) as (w10 & A10 & G10). destruct (R11 w10 G10 I) as (w11 & A11 & G11).
      exists w11. split; [|exact G11]. eapply agree_trans; [exact L9|exact A9|]. eapply agree_trans; [exact L10|exact A10|exact A11].
    + intros _ _. destruct (XA9 E9 WF8) as (WF9 & L9 & R9).
      assert (M9 : forall l, below (b_next F st8) l -> below (b_next F st9) l) by (intros l Bl; eapply below_mono; [exact L9|exact Bl]).
      destruct (mul_x _ _ _ _ H8 (Forall_cons _ (RB9 E9 WF8) (Forall_cons _ (M9 _ (M8 _ Bs1)) (Forall_nil _)))) as [[_ XA10] RB10].
      destruct (XA10 E10 WF9) as (WF10 & L10 & R10).
      assert (M10 : forall l, below (b_next F st8) l -> below (b_next F st10) l) by (intros l Bl; eapply below_mono; [|exact Bl]; lia).
      destruct (add_x _ _ _ _ _ H9 (Forall_cons _ (RB10 E10 WF9) (Forall_cons _ (M10 _ Bt2) (Forall_cons _ (M10 _ (M8 _ B0)) (Forall_nil _))))) as [_ RB11].
      apply RB11; assumption. }
  destruct (is_const s0) as [c0|]; [|apply GEN; exact H]. destruct (is_const s1) as [c1|]; [|apply GEN; exact H].
  injection H as <- <-. split; [exact AB|]. intros E WF. destruct AB as [_ X]. destruct (X E WF) as (_ & L & _).
  assert (M : forall l, below (b_next F st) l -> below (b_next F st2) l) by (intros l Bl; eapply below_mono; [exact L|exact Bl]).
  destruct (negb _ && negb _); [apply M; exact B0|]. destruct (_ && negb _); [apply M; exact B1|]. destruct (_ && _); apply M; assumption.
Qed.

Lemma xr_weaken st st' r (P Q : (nat -> F) -> Prop) : xr st st' r P -> (forall w, good w st -> Q w -> P w) -> xr st st' r Q.
Proof. intros [X B] H. split; [eapply x_weaken; eassumption|exact B]. Qed.

Lemma bools_agree n w w1 ds : Forall (below n) ds -> agree n w w1 ->
  Forall (fun d => is_bool (ev w d)) ds -> Forall (fun d => is_bool (ev w1 d)) ds.
Proof.
  intros B A H. apply Forall_forall. intros d IN. eapply is_bool_agree; [exact (proj1 (Forall_forall _ _) B d IN)|exact A|exact (proj1 (Forall_forall _ _) H d IN)].
Qed.

Lemma frombinary_x ds : forall st acc c r st', b_frombinary st acc c ds = (r, st') ->
  below (b_next F st) acc -> Forall (below (b_next F st)) ds ->
  xr st st' r (fun w => Forall (fun d => is_bool (ev w d)) ds).
Proof.
  induction ds as [|d ds IH]; intros st acc c r st' H Ba Bd; cbn [BuilderR1CS.b_frombinary] in H.
  - injection H as <- <-. apply xr_const. intros _. exact Ba.
  - destruct (b_mul _ [cle (cst c); d]) as [m st2] eqn:M. destruct (b_add st2 [acc; m] false) as [acc' st3] eqn:A.
    pose proof (proj1 (mul_ok _ _ _ _ M)) as X2. pose proof (proj1 (add_ok _ _ _ _ _ A)) as X3. pose proof (proj1 (frombinary_ok _ _ _ _ _ _ H)) as X4.
    pose proof (Forall_inv Bd) as Bd0. pose proof (Forall_inv_tail Bd) as Bds.
    pose proof (assert_bool_x st d Bd0) as AB.
    eapply (x_xr _ _ _ _ _ _ (fun w => Forall (fun d => is_bool (ev w d)) ds)); [exact AB| |errmono|intros w _ Hw; exact (Forall_inv Hw)| ].
    + intros E WF1 L1.
      assert (Bds1 : Forall (below (b_next F (b_assert_bool st d))) ds).
      { eapply Forall_impl; [|exact Bds]. intros l Bl. eapply below_mono; [exact L1|exact Bl]. }
      eapply xr_then; [eapply xr_weaken; [apply (mul_x _ _ _ _ M); constructor; [apply below_cle; apply WF1|constructor; [bmono L1|constructor]]|intros; exact I]| |errmono| ].
      * intros _ WF2 L2 Bm.
        assert (Bds2 : Forall (below (b_next F st2)) ds).
        { eapply Forall_impl; [|exact Bds1]. intros l Bl. eapply below_mono; [exact L2|exact Bl]. }
        eapply xr_then; [eapply xr_weaken; [apply (add_x _ _ _ _ _ A); constructor; [eapply below_mono; [|exact Ba]; lia|constructor; [exact Bm|constructor]]|intros; exact I]| |errmono| ].
        -- intros _ WF3 L3 Bacc. apply (IH _ _ _ _ _ H Bacc). eapply Forall_impl; [|exact Bds2]. intros l Bl. eapply below_mono; [exact L3|exact Bl].
        -- intros w w1 _ P A1 _. eapply bools_agree; [exact Bds2|exact A1|exact P].
      * intros w w1 _ P A1 _. eapply bools_agree; [exact Bds1|exact A1|exact P].
    + intros w w1 G Hw A1 G1. eapply bools_agree; [exact Bds|exact A1|exact (Forall_inv_tail Hw)].
Qed.

(* ---------------------------------------------------------------- API calls and programs *)
Definition det_op (k : opk) : bool := match k with ODivUnchecked | OHint2 => false | _ => true end.

Lemma sem_det k a rs rs' : det_op k = true -> sem k a rs -> sem k a rs' -> rs = rs'.
Proof.
  destruct k; cbn [det_op sem]; intros D H H'; try discriminate D; try contradiction;
    repeat match goal with X : _ /\ _ |- _ => destruct X end; congruence.
Qed.

Lemma arg_below st vars a : wfst st -> Forall (below (b_next F st)) vars -> below (b_next F st) (arg_le vars a).
Proof.
  intros WF BV. destruct a as [z|i]; cbn [BuilderR1CS.arg_le]; [apply below_cle; apply WF|].
  destruct (Nat.lt_ge_cases i (length vars)) as [L|L].
  - apply (proj1 (Forall_forall _ _) BV). apply nth_In. exact L.
  - rewrite nth_overflow by exact L. apply below_cle. apply WF.
Qed.

Lemma nth_below st (a : list lexp) j : wfst st -> Forall (below (b_next F st)) a -> below (b_next F st) (nth j a le_zero).
Proof.
  intros WF BV. destruct (Nat.lt_ge_cases j (length a)) as [L|L].
  - apply (proj1 (Forall_forall _ _) BV). apply nth_In. exact L.
  - rewrite nth_overflow by exact L. apply below_cle. apply WF.
Qed.

Lemma map_ev_agree n w w' (ls : list lexp) : Forall (below n) ls -> agree n w w' -> map (ev w) ls = map (ev w') ls.
Proof.
  intros B A. apply map_ext_in. intros l IN. eapply ev_agree; [exact (proj1 (Forall_forall _ _) B l IN)|exact A].
Qed.

Definition step_goal (vars : list lexp) (st : bstate) (o : op) (vars' : list lexp) (st' : bstate) : Prop :=
  (b_err F st' = false -> b_err F st = false) /\
  (b_err F st' = false -> marks_ok st ->
     wfst st' /\ b_next F st <= b_next F st' /\ Forall (below (b_next F st')) vars' /\ marks_ok st' /\
     forall w rs, good w st -> sem (fst o) (map (aval (map (ev w) vars)) (snd o)) rs ->
       exists w', agree (b_next F st) w w' /\ good w' st' /\ map (ev w') vars' = map (ev w) vars ++ rs).

(* deterministic calls: extend the assignment (x-lemma), read the values off the soundness facts *)
Lemma step_from_x vars st o news st' (PRE : (nat -> F) -> Prop) :
  b_step (vars, st) o = (vars ++ news, st') -> wfst st -> Forall (below (b_next F st)) vars ->
  det_op (fst o) = true ->
  xstep st st' PRE -> (b_err F st' = false -> Forall (below (b_next F st')) news) ->
  (forall w rs, good w st -> sem (fst o) (map (aval (map (ev w) vars)) (snd o)) rs -> PRE w) ->
  step_goal vars st o (vars ++ news) st'.
Proof.
  intros S WF BV D [EM X] BN HP. pose proof (step_sound _ _ _ _ _ S) as [XE SS].
  split; [exact EM|]. intros E M. destruct (X E WF) as (WF' & L & R). destruct (SS M) as [M' FACT].
  split; [exact WF'|split; [exact L|]]. split; [apply Forall_app; split; [eapply Forall_impl; [|exact BV]; intros l Bl; eapply below_mono; [exact L|exact Bl]|exact (BN E)]|].
  split; [exact M'|]. intros w rs G SEM. destruct (R w G (HP w rs G SEM)) as (w' & A & G').
  exists w'. split; [exact A|split; [exact G'|]].
  destruct (FACT w' G' E) as (rs' & EQ & SEM'). rewrite <- (map_ev_agree _ w w' vars BV A) in EQ, SEM'.
  rewrite EQ. f_equal. eapply sem_det; eassumption.
Qed.

Lemma step_complete vars st o vars' st' : b_step (vars, st) o = (vars', st') -> wfst st -> Forall (below (b_next F st)) vars ->
  step_goal vars st o vars' st'.
Proof.
  destruct o as [k args]. intros S WF BV. pose proof S as S0. unfold BuilderR1CS.b_step in S. cbn [fst snd] in S.
  set (a := map (arg_le vars) args) in *.
  assert (BA : Forall (below (b_next F st)) a).
  { subst a. apply Forall_forall. intros l IN. apply in_map_iff in IN. destruct IN as (x & <- & _). apply arg_below; assumption. }
  assert (BN : forall j, below (b_next F st) (nth j a le_zero)) by (intros j; apply nth_below; assumption).
  assert (ARGS : forall w, w O = 1 -> map (aval (map (ev w) vars)) args = map (ev w) a) by (intros w G0; symmetry; apply ev_args; exact G0).
  assert (NIL : vars = vars ++ []) by (rewrite app_nil_r; reflexivity).
  destruct k.
  - (* Add *) destruct (b_add st a false) as [r st1] eqn:H. injection S as <- <-. cbn [fst snd] in *.
    destruct (add_x _ _ _ _ _ H BA) as [X B]. eapply (step_from_x vars st _ [r] st1 (fun _ => True)); try eassumption; [reflexivity|intros E; constructor; [apply B; assumption|constructor]|auto].
  - (* Sub *) destruct (b_add st a true) as [r st1] eqn:H. injection S as <- <-. cbn [fst snd] in *.
    destruct (add_x _ _ _ _ _ H BA) as [X B]. eapply (step_from_x vars st _ [r] st1 (fun _ => True)); try eassumption; [reflexivity|intros E; constructor; [apply B; assumption|constructor]|auto].
  - (* Neg *) injection S as <- <-. cbn [fst snd] in *.
    eapply (step_from_x vars st _ [b_neg st (nth 0 a le_zero)] st (fun _ => True)); try eassumption; [reflexivity|apply x_refl| |auto].
    intros _. constructor; [|constructor]. unfold BuilderR1CS.b_neg. destruct (is_const _); [apply below_cle; apply WF|apply below_neg; apply BN].
  - (* Mul *) destruct (b_mul st a) as [r st1] eqn:H. injection S as <- <-. cbn [fst snd] in *.
    destruct (mul_x _ _ _ _ H BA) as [X B]. eapply (step_from_x vars st _ [r] st1 (fun _ => True)); try eassumption; [reflexivity|intros E; constructor; [apply B; assumption|constructor]|auto].
  - (* MulAcc *) destruct (b_mulacc st _ _ _) as [r st1] eqn:H. injection S as <- <-. cbn [fst snd] in *.
    destruct (mulacc_x _ _ _ _ _ _ H (BN O) (BN 1%nat) (BN 2%nat)) as [X B]. eapply (step_from_x vars st _ [r] st1 (fun _ => True)); try eassumption; [reflexivity|intros E; constructor; [apply B; assumption|constructor]|auto].
  - (* Div *) destruct (BuilderR1CS.b_div _ _ _ _ _ _ st _ _) as [r st1] eqn:H. injection S as <- <-. cbn [fst snd] in *.
    destruct (div_x _ _ _ _ _ H (BN O) (BN 1%nat)) as [X B]. eapply (step_from_x vars st _ [r] st1); try eassumption; [reflexivity|intros E; constructor; [apply B; assumption|constructor]|].
    intros w rs G SEM. cbn [fst snd sem] in SEM. rewrite (ARGS w (proj1 G)), !nth_ev in SEM. apply SEM.
  - (* DivUnchecked *) destruct (BuilderR1CS.b_divunchecked _ _ _ _ _ _ st _ _) as [r st1] eqn:H. injection S as <- <-. cbn [fst snd] in *.
    pose proof (step_sound _ _ _ _ _ S0) as [XE SS].
    split; [apply (proj1 (divunchecked_c _ _ _ _ _ 0 H (BN O) (BN 1%nat)))|]. intros E M. destruct (SS M) as [M' FACT].
    destruct (divunchecked_c _ _ _ _ _ 0 H (BN O) (BN 1%nat)) as [_ CS0]. destruct (CS0 E WF) as (WF' & L & Br & _).
    split; [exact WF'|split; [exact L|]]. split; [apply Forall_app; split; [eapply Forall_impl; [|exact BV]; intros l Bl; eapply below_mono; [exact L|exact Bl]|constructor; [exact Br|constructor]]|].
    split; [exact M'|]. intros w rs G SEM. cbn [fst snd sem] in SEM. rewrite (ARGS w (proj1 G)), !nth_ev in SEM. destruct SEM as (q & -> & REL).
    destruct (divunchecked_c _ _ _ _ _ q H (BN O) (BN 1%nat)) as [_ CS]. destruct (CS E WF) as (_ & _ & _ & R).
    assert (PRE : ev w (nth 1 a le_zero) <> 0 \/ (ev w (nth 1 a le_zero) = 0 /\ ev w (nth 0 a le_zero) = 0)) by (destruct REL as [[NZ _]|Z]; auto).
    destruct (R w G PRE) as (w' & A & G' & V). exists w'. split; [exact A|split; [exact G'|]].
    rewrite map_app, <- (map_ev_agree _ w w' vars BV A). f_equal. cbn [map]. f_equal.
    destruct (FACT w' G' E) as (rs' & EQ & SEM'). cbn [fst snd sem] in SEM'. rewrite <- (map_ev_agree _ w w' vars BV A), (ARGS w (proj1 G)), !nth_ev in SEM'.
    destruct SEM' as (q' & -> & REL'). rewrite map_app in EQ. apply app_inv_head in EQ. cbn [map] in EQ. injection EQ as EQ. rewrite EQ.
    destruct REL as [[NZ Q]|[Z1 Z0]].
    + destruct REL' as [[_ Q']|[Z _]]; [congruence|contradiction].
    + rewrite <- EQ. apply V. exact Z1.
  - (* Inverse *) destruct (BuilderR1CS.b_inverse _ _ _ _ _ st _) as [r st1] eqn:H. injection S as <- <-. cbn [fst snd] in *.
    destruct (inverse_x _ _ _ _ H (BN O)) as [X B]. eapply (step_from_x vars st _ [r] st1); try eassumption; [reflexivity|intros E; constructor; [apply B; assumption|constructor]|].
    intros w rs G SEM. cbn [fst snd sem] in SEM. rewrite (ARGS w (proj1 G)), !nth_ev in SEM. apply SEM.
  - (* ToBinary *) injection S as <- <-. split; intros E; discriminate E.
  - (* FromBinary *) destruct a as [|a0' a'] eqn:EA; [injection S as <- <-; split; intros E; discriminate E|]. rewrite <- EA in *.
    destruct (b_frombinary st _ _ a) as [r st1] eqn:H. injection S as <- <-. cbn [fst snd] in *.
    destruct (frombinary_x _ _ _ _ _ _ H (below_cle _ _ (proj1 WF)) BA) as [X B].
    eapply (step_from_x vars st _ [r] st1); try eassumption; [reflexivity|intros E; constructor; [apply B; assumption|constructor]|].
    intros w rs G SEM. cbn [fst snd sem] in SEM. rewrite (ARGS w (proj1 G)) in SEM. destruct SEM as [HF _].
    apply Forall_forall. intros d IN. apply (proj1 (Forall_forall _ _) HF). apply in_map. exact IN.
  - (* Xor *) destruct (b_xor st _ _) as [r st1] eqn:H. injection S as <- <-. cbn [fst snd] in *.
    destruct (xor_x _ _ _ _ _ H (BN O) (BN 1%nat)) as [X B]. eapply (step_from_x vars st _ [r] st1); try eassumption; [reflexivity|intros E; constructor; [apply B; assumption|constructor]|].
    intros w rs G SEM. cbn [fst snd sem] in SEM. rewrite (ARGS w (proj1 G)), !nth_ev in SEM. split; apply SEM.
  - (* Or *) destruct (b_or st _ _) as [r st1] eqn:H. injection S as <- <-. cbn [fst snd] in *.
    destruct (or_x _ _ _ _ _ H (BN O) (BN 1%nat)) as [X B]. eapply (step_from_x vars st _ [r] st1); try eassumption; [reflexivity|intros E; constructor; [apply B; assumption|constructor]|].
    intros w rs G SEM. cbn [fst snd sem] in SEM. rewrite (ARGS w (proj1 G)), !nth_ev in SEM. split; apply SEM.
  - (* And *) destruct (b_and st _ _) as [r st1] eqn:H. injection S as <- <-. cbn [fst snd] in *.
    destruct (and_x _ _ _ _ _ H (BN O) (BN 1%nat)) as [X B]. eapply (step_from_x vars st _ [r] st1); try eassumption; [reflexivity|intros E; constructor; [apply B; assumption|constructor]|].
    intros w rs G SEM. cbn [fst snd sem] in SEM. rewrite (ARGS w (proj1 G)), !nth_ev in SEM. split; apply SEM.
  - (* Select *) destruct (b_select st _ _ _) as [r st1] eqn:H. injection S as <- <-. cbn [fst snd] in *.
    destruct (select_x _ _ _ _ _ _ H (BN O) (BN 1%nat) (BN 2%nat)) as [X B]. eapply (step_from_x vars st _ [r] st1); try eassumption; [reflexivity|intros E; constructor; [apply B; assumption|constructor]|].
    intros w rs G SEM. cbn [fst snd sem] in SEM. rewrite (ARGS w (proj1 G)), !nth_ev in SEM. apply SEM.
  - (* Lookup2 *) destruct (b_lookup2 st _ _ _ _ _ _) as [r st1] eqn:H. injection S as <- <-. cbn [fst snd] in *.
    destruct (lookup2_x _ _ _ _ _ _ _ _ _ H (BN O) (BN 1%nat) (BN 2%nat) (BN 3%nat) (BN 4%nat) (BN 5%nat)) as [X B]. eapply (step_from_x vars st _ [r] st1); try eassumption; [reflexivity|intros E; constructor; [apply B; assumption|constructor]|].
    intros w rs G SEM. cbn [fst snd sem] in SEM. rewrite (ARGS w (proj1 G)), !nth_ev in SEM. split; apply SEM.
  - (* IsZero *) destruct (b_iszero st _) as [r st1] eqn:H. injection S as <- <-. cbn [fst snd] in *.
    destruct (iszero_x _ _ _ _ H (BN O)) as [X B]. eapply (step_from_x vars st _ [r] st1 (fun _ => True)); try eassumption; [reflexivity|intros E; constructor; [apply B; assumption|constructor]|auto].
  - (* Cmp *) injection S as <- <-. split; intros E; discriminate E.
  - (* AssertEq *) injection S as <- <-. rewrite NIL in S0 at 2. rewrite NIL at 2.
    eapply (step_from_x vars st _ [] _); try eassumption; [reflexivity|apply (assert_eq_x st _ _ (BN O) (BN 1%nat))|intros; constructor|].
    intros w rs G SEM. cbn [fst snd sem] in SEM. rewrite (ARGS w (proj1 G)), !nth_ev in SEM. apply SEM.
  - (* AssertDiff *) injection S as <- <-. rewrite NIL in S0 at 2. rewrite NIL at 2.
    eapply (step_from_x vars st _ [] _); try eassumption; [reflexivity|apply (assert_diff_x st _ _ (BN O) (BN 1%nat))|intros; constructor|].
    intros w rs G SEM. cbn [fst snd sem] in SEM. rewrite (ARGS w (proj1 G)), !nth_ev in SEM. apply SEM.
  - (* AssertBool *) injection S as <- <-. rewrite NIL in S0 at 2. rewrite NIL at 2.
    eapply (step_from_x vars st _ [] _); try eassumption; [reflexivity|apply (assert_bool_x st _ (BN O))|intros; constructor|].
    intros w rs G SEM. cbn [fst snd sem] in SEM. rewrite (ARGS w (proj1 G)), !nth_ev in SEM. apply SEM.
  - (* AssertLeq *) injection S as <- <-. split; intros E; discriminate E.
  - (* Hint2 *) destruct (b_hint st _ _ 2) as [hs st1] eqn:H. injection S as <- <-.
    pose proof (step_sound _ _ _ _ _ S0) as [XE SS].
    destruct (hint_c _ _ _ _ _ _ [0; 0] H eq_refl WF) as (WF' & L & BH & EH & _).
    split; [rewrite EH; auto|]. intros E M. destruct (SS M) as [M' _].
    split; [exact WF'|split; [exact L|]]. split; [apply Forall_app; split; [eapply Forall_impl; [|exact BV]; intros l Bl; eapply below_mono; [exact L|exact Bl]|exact BH]|].
    split; [exact M'|]. intros w rs G SEM. cbn [fst snd sem] in SEM. destruct SEM as (r0 & r1 & ->).
    destruct (hint_c _ _ _ _ _ _ [r0; r1] H eq_refl WF) as (_ & _ & _ & _ & R). destruct (R w G) as (w' & A & G' & V).
    exists w'. split; [exact A|split; [exact G'|]]. rewrite map_app, <- (map_ev_agree _ w w' vars BV A), V. reflexivity.
Qed.

Lemma steps_complete prog : forall vars st vars' st', fold_left b_step prog (vars, st) = (vars', st') ->
  b_err F st' = false -> wfst st -> Forall (below (b_next F st)) vars -> marks_ok st ->
  wfst st' /\ b_next F st <= b_next F st' /\ Forall (below (b_next F st')) vars' /\ marks_ok st' /\
  forall w fin, good w st -> trace_sem prog (map (ev w) vars) fin ->
    exists w', agree (b_next F st) w w' /\ good w' st' /\ map (ev w') vars' = fin.
Proof.
  induction prog as [|o prog IH]; intros vars st vars' st' S E WF BV M; cbn [fold_left] in S.
  - injection S as <- <-. split; [exact WF|split; [lia|split; [exact BV|split; [exact M|]]]].
    intros w fin G T. cbn [trace_sem] in T. exists w. split; [apply agree_refl|split; [exact G|symmetry; exact T]].
  - destruct (b_step (vars, st) o) as [vars1 st1] eqn:S1.
    pose proof (steps_sound _ _ _ _ _ S) as [XE _]. pose proof (ext_err _ _ XE E) as E1.
    destruct (step_complete _ _ _ _ _ S1 WF BV) as [_ SC]. destruct (SC E1 M) as (WF1 & L1 & BV1 & M1 & R1).
    destruct (IH _ _ _ _ S E WF1 BV1 M1) as (WF' & L' & BV' & M' & R').
    split; [exact WF'|split; [lia|split; [exact BV'|split; [exact M'|]]]].
    intros w fin G T. cbn [trace_sem] in T. destruct T as (rs & SEM & T).
    destruct (R1 w rs G SEM) as (w1 & A1 & G1 & EQ1). rewrite <- EQ1 in T.
    destruct (R' w1 fin G1 T) as (w2 & A2 & G2 & EQ2). exists w2. split; [eapply agree_trans; eassumption|split; [exact G2|exact EQ2]].
Qed.

Lemma expose_x vars nbpub outs : forall st k, wfst st -> Forall (below (b_next F st)) vars ->
  (forall j, j < length outs -> S (nbpub + (k + j)) < b_next F st) ->
  xstep st (b_expose vars st nbpub k outs)
    (fun w => forall j o, nth_error outs j = Some o -> ev w (nth o vars le_zero) = w (S (nbpub + (k + j)))).
Proof.
  induction outs as [|o outs IH]; intros st k WF BV HO; cbn [BuilderR1CS.b_expose]; [apply x_refl|].
  assert (Bo : below (b_next F st) (nth o vars le_zero)) by (apply nth_below; assumption).
  assert (Bw : below (b_next F st) [(1, S (nbpub + k))]).
  { apply below_var. specialize (HO O (Nat.lt_0_succ _)). rewrite Nat.add_0_r in HO. exact HO. }
  pose proof (assert_eq_x st _ _ Bo Bw) as X1.
  pose proof (expose_sound vars nbpub outs (b_assert_eq st (nth o vars le_zero) [(1, S (nbpub + k))]) (S k)) as (XE & _ & _).
  destruct X1 as [E1 X1]. split; [intros E; apply E1; apply (ext_err _ _ XE E)|].
  intros E _. pose proof (ext_err _ _ XE E) as E1'. destruct (X1 E1' WF) as (WF1 & L1 & R1).
  assert (BV1 : Forall (below (b_next F (b_assert_eq st (nth o vars le_zero) [(1, S (nbpub + k))]))) vars).
  { eapply Forall_impl; [|exact BV]. intros l Bl. eapply below_mono; [exact L1|exact Bl]. }
  assert (HO1 : forall j, j < length outs -> S (nbpub + (S k + j)) < b_next F (b_assert_eq st (nth o vars le_zero) [(1, S (nbpub + k))])).
  { intros j Hj. specialize (HO (S j)). cbn [length] in HO. specialize (HO (proj1 (Nat.succ_lt_mono _ _) Hj)).
    replace (S k + j)%nat with (k + S j)%nat by lia. lia. }
  destruct (IH _ (S k) WF1 BV1 HO1) as [_ X2]. destruct (X2 E WF1) as (WF2 & L2 & R2).
  split; [exact WF2|split; [lia|]]. intros w G P.
  assert (P0 : ev w (nth o vars le_zero) = ev w [(1, S (nbpub + k))]).
  { rewrite (P O o eq_refl), ev_var, Nat.add_0_r. reflexivity. }
  destruct (R1 w G P0) as (w1 & A1 & G1).
  assert (P1 : forall j o', nth_error outs j = Some o' -> ev w1 (nth o' vars le_zero) = w1 (S (nbpub + (S k + j)))).
  { intros j o' Hj. rewrite <- (ev_agree _ w w1 _ (nth_below st vars o' WF BV) A1), (P (S j) o' Hj).
    replace (S k + j)%nat with (k + S j)%nat by lia. apply A1.
    assert (LJ : S j < length (o :: outs)). { cbn [length]. apply (proj1 (Nat.succ_lt_mono _ _)). apply nth_error_Some. rewrite Hj. discriminate. }
    apply (HO (S j) LJ). }
  destruct (R2 w1 G1 P1) as (w2 & A2 & G2). exists w2. split; [eapply agree_trans; eassumption|exact G2].
Qed.

(* C04, completeness half, for every program over the modelled core: whenever the documented meaning
   admits a value trace [fin] from the inputs [vs0] (every assertion holds) and the builder did not
   panic, the emitted system has a satisfying assignment with these inputs whose public output
   wires carry the documented values of the exposed variables. *)
Theorem compile_complete nbpub nbsec thr prog outs :
  let st := b_compile nbpub nbsec thr prog outs in
  b_err F st = false ->
  forall (vs0 fin : list F), length vs0 = (nbpub + nbsec)%nat -> trace_sem prog vs0 fin ->
  exists w, good w st /\
    (forall i, i < nbpub + nbsec -> w (input_wire nbpub (length outs) i) = nth i vs0 0) /\
    (forall j o, nth_error outs j = Some o -> w (S (nbpub + j)) = nth o fin 0).
Proof.
  unfold BuilderR1CS.b_compile. destruct (b_init nbpub nbsec (length outs) thr) as [vars0 st0] eqn:I0.
  destruct (fold_left b_step prog (vars0, st0)) as [vars st1] eqn:SF. cbn zeta. intros E vs0 fin LEN T.
  set (nout := length outs) in *.
  unfold BuilderR1CS.b_init in I0. injection I0 as IV IS.
  assert (N0 : b_next F st0 = S (nbpub + nout + nbsec)) by (rewrite <- IS; reflexivity).
  assert (WF0 : wfst st0) by (rewrite <- IS; split; [cbn; lia|constructor]).
  assert (M0 : marks_ok st0) by (rewrite <- IS; intros _ w _ l IN; destruct IN).
  assert (IWL : forall i, i < nbpub + nbsec -> input_wire nbpub nout i < b_next F st0).
  { intros i Hi. rewrite N0. unfold input_wire. destruct (Nat.ltb i nbpub) eqn:Q; [apply Nat.ltb_lt in Q; lia|apply Nat.ltb_ge in Q; lia]. }
  assert (BV0 : Forall (below (b_next F st0)) vars0).
  { rewrite <- IV. apply Forall_forall. intros l IN. apply in_map_iff in IN. destruct IN as (i & <- & Hi). apply in_seq in Hi. apply below_var. apply IWL. lia. }
  (* the initial assignment: ONE, public inputs, exposed values, secret inputs *)
  set (w0 := fun x : nat =>
     if Nat.eqb x O then 1
     else if Nat.leb x nbpub then nth (Nat.pred x) vs0 0
     else if Nat.leb x (nbpub + nout) then nth (nth (Nat.sub x (S nbpub)) outs O) fin 0
     else nth (Nat.sub (Nat.pred x) nout) vs0 0).
  assert (W0I : forall i, i < nbpub + nbsec -> w0 (input_wire nbpub nout i) = nth i vs0 0).
  { intros i Hi. unfold w0, input_wire. destruct (Nat.ltb i nbpub) eqn:Q.
    - apply Nat.ltb_lt in Q. cbn [Nat.eqb]. destruct (Nat.leb (S i) nbpub) eqn:Q2; [reflexivity|apply Nat.leb_gt in Q2; lia].
    - apply Nat.ltb_ge in Q. replace (Nat.eqb (S i + nout) O) with false by (symmetry; apply Nat.eqb_neq; lia).
      destruct (Nat.leb (S i + nout) nbpub) eqn:Q2; [apply Nat.leb_le in Q2; lia|].
      destruct (Nat.leb (S i + nout) (nbpub + nout)) eqn:Q3; [apply Nat.leb_le in Q3; lia|].
      f_equal. lia. }
  assert (W0O : forall j o, nth_error outs j = Some o -> w0 (S (nbpub + j)) = nth o fin 0).
  { intros j o Hj. assert (LJ : j < nout) by (apply nth_error_Some; rewrite Hj; discriminate).
    unfold w0. cbn [Nat.eqb]. destruct (Nat.leb (S (nbpub + j)) nbpub) eqn:Q2; [apply Nat.leb_le in Q2; lia|].
    destruct (Nat.leb (S (nbpub + j)) (nbpub + nout)) eqn:Q3; [|apply Nat.leb_gt in Q3; lia].
    replace (Nat.sub (S (nbpub + j)) (S nbpub)) with j by lia. rewrite (nth_error_nth outs j O Hj). reflexivity. }
  assert (G0 : good w0 st0) by (split; [reflexivity|rewrite <- IS; constructor]).
  assert (V0 : map (ev w0) vars0 = vs0).
  { rewrite <- IV, map_map. apply nth_ext with (d := 0) (d' := 0); [rewrite map_length, seq_length; symmetry; exact LEN|].
    intros i Hi. rewrite map_length, seq_length in Hi.
    rewrite (nth_indep _ 0 (ev w0 [(1, input_wire nbpub nout O)])) by (rewrite map_length, seq_length; exact Hi).
    rewrite (map_nth (fun i => ev w0 [(1, input_wire nbpub nout i)]) (seq 0 (nbpub + nbsec)) O i), seq_nth by exact Hi.
    rewrite ev_var. apply W0I. exact Hi. }
  pose proof (expose_sound vars nbpub outs st1 O) as (XE & _ & _). pose proof (ext_err _ _ XE E) as E1.
  destruct (steps_complete _ _ _ _ _ SF E1 WF0 BV0 M0) as (WF1 & L1 & BV1 & M1 & R1).
  rewrite <- V0 in T. destruct (R1 w0 fin G0 T) as (w1 & A1 & G1 & EQ1).
  assert (HO : forall j, j < length outs -> S (nbpub + (0 + j)) < b_next F st1) by (intros j Hj; fold nout in Hj; lia).
  destruct (expose_x vars nbpub outs st1 O WF1 BV1 HO) as [_ X2]. destruct (X2 E WF1) as (WF2 & L2 & R2).
  assert (P1 : forall j o, nth_error outs j = Some o -> ev w1 (nth o vars le_zero) = w1 (S (nbpub + (0 + j)))).
  { intros j o Hj. assert (LJ : j < nout) by (apply nth_error_Some; rewrite Hj; discriminate).
    rewrite <- nth_ev, EQ1. cbn [Nat.add]. rewrite <- (A1 (S (nbpub + j))) by lia. symmetry. apply (W0O j o Hj). }
  destruct (R2 w1 G1 P1) as (w2 & A2 & G2).
  assert (A02 : agree (b_next F st0) w0 w2) by (eapply agree_trans; eassumption).
  exists w2. split; [exact G2|split].
  - intros i Hi. rewrite <- (A02 _ (IWL i Hi)). apply W0I. exact Hi.
  - intros j o Hj. assert (LJ : j < nout) by (apply nth_error_Some; rewrite Hj; discriminate).
    rewrite <- (A02 (S (nbpub + j))) by lia. apply (W0O j o Hj).
Qed.

End BP.
