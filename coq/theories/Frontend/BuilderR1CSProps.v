(* Soundness of the R1CS builder model (Frontend/BuilderR1CS.v) with respect to the documented
   meaning of the API, over an arbitrary field:

     compile_sound : for every program over the modelled core, every compression threshold and
       every set of exposed variables, if the builder did not panic then every assignment
       satisfying the emitted rows (ONE wire = 1) gives the program variables the values the
       documented meaning prescribes (trace_sem: one existential per call, so the documented
       freedom of DivUnchecked 0/0 and of hint outputs is explicit), makes every assertion of the
       program true, and gives every exposed variable the value of its public output wire.

   Structure: [ev] evaluates a linear expression; [ev_merge] is the value of builder.add's merge;
   every builder function has a lemma of the form pstep / mstep st st' P: the system of st' extends
   the one of st, the boolean marks stay justified ([marks_ok]: every marked expression is boolean
   under every satisfying assignment - the invariant that makes skipping a repeated
   AssertIsBoolean sound), and P holds of every satisfying assignment of st'. *)
From Coq Require Import Arith List Bool ZArith Ring Field Lia.
From GnarkV Require Import CS.Solver Frontend.Spec Frontend.Gadgets Frontend.BuilderR1CS.
Import ListNotations.

Section BP.
Variable F : Type.
Variables (zero one : F) (add mul sub : F -> F -> F) (opp : F -> F) (div : F -> F -> F) (inv : F -> F).
Hypothesis Fth : field_theory zero one add mul sub opp div inv (@eq F).
Add Field Fbp : Fth.
Variable eq_dec : forall x y : F, {x = y} + {x <> y}.
Variable cst : Z -> F.
Hypothesis cst0 : cst 0%Z = zero.
Hypothesis cst1 : cst 1%Z = one.
Hypothesis cst2 : cst 2%Z = add one one.
Notation "0" := zero. Notation "1" := one.
Infix "+" := add. Infix "*" := mul. Infix "-" := sub. Infix "/" := div.
Notation lexp := (lexp F).
Notation bstate := (bstate F).
Notation is_bool := (is_bool F zero one).

Notation feqb := (feqb F eq_dec).
Notation is_const := (is_const F zero eq_dec).
Notation cle := (cle F).
Notation le_one := (le_one F one).
Notation le_zero := (le_zero F zero).
Notation scale := (scale F mul).
Notation neg_le := (neg_le F opp).
Notation ins_term := (ins_term F add).
Notation ins_le := (ins_le F zero add opp eq_dec).
Notation merge_les := (merge_les F zero add opp eq_dec).

Definition ev (w : nat -> F) (l : lexp) : F := fold_right (fun t acc => fst t * w (snd t) + acc) 0 l.

Lemma feqb_true x y : feqb x y = true <-> x = y.
Proof. unfold BuilderR1CS.feqb. destruct (eq_dec x y); split; congruence. Qed.
Lemma feqb_false x y : feqb x y = false <-> x <> y.
Proof. unfold BuilderR1CS.feqb. destruct (eq_dec x y); split; congruence. Qed.

Lemma ev_cons w c x l : ev w ((c, x) :: l) = c * w x + ev w l.
Proof. reflexivity. Qed.
Lemma ev_nil w : ev w [] = 0.
Proof. reflexivity. Qed.

Lemma ev_app w a b : ev w (a ++ b) = ev w a + ev w b.
Proof. induction a as [|[c x] a IH]; [rewrite ev_nil; simpl app; ring|]. rewrite <- app_comm_cons, !ev_cons, IH. ring. Qed.

Lemma ev_cle w c : w O = 1 -> ev w (cle c) = c.
Proof. intros H. unfold BuilderR1CS.cle. rewrite ev_cons, H, ev_nil. ring. Qed.

Lemma ev_le_zero w : ev w le_zero = 0.
Proof. unfold BuilderR1CS.le_zero, BuilderR1CS.cle. rewrite ev_cons, ev_nil. ring. Qed.

Lemma ev_scale w l k : ev w (scale l k) = ev w l * k.
Proof. unfold BuilderR1CS.scale. induction l as [|[c x] l IH]; simpl map; [rewrite !ev_nil; ring|]. rewrite !ev_cons, IH. ring. Qed.

Lemma ev_neg w l : ev w (neg_le l) = opp (ev w l).
Proof. unfold BuilderR1CS.neg_le. induction l as [|[c x] l IH]; simpl map; [rewrite !ev_nil; ring|]. rewrite !ev_cons, IH. ring. Qed.

Lemma is_const_ev w l c : w O = 1 -> is_const l = Some c -> ev w l = c.
Proof.
  intros H. unfold BuilderR1CS.is_const. destruct l as [|[c0 x] [|t l]]; try discriminate.
  destruct (feqb c0 0) eqn:E0.
  - intros [= <-]. apply feqb_true in E0. subst c0. rewrite ev_cons, ev_nil. ring.
  - destruct (Nat.eqb x O) eqn:Ex; [|discriminate]. intros [= <-]. apply Nat.eqb_eq in Ex. subst x. rewrite ev_cons, ev_nil, H. ring.
Qed.

Lemma ev_ins_term w c x l : ev w (ins_term c x l) = c * w x + ev w l.
Proof.
  induction l as [|[c' x'] l IH]; cbn [BuilderR1CS.ins_term].
  - rewrite !ev_cons, !ev_nil. ring.
  - destruct (Nat.ltb x x') eqn:E1; [rewrite !ev_cons; ring|].
    destruct (Nat.eqb x x') eqn:E2.
    + apply Nat.eqb_eq in E2. subst x'. rewrite !ev_cons. ring.
    + rewrite !ev_cons, IH. ring.
Qed.

Lemma ev_ins_le w ng l acc : ev w (ins_le ng l acc) = (if ng then opp (ev w l) else ev w l) + ev w acc.
Proof.
  unfold BuilderR1CS.ins_le. revert acc. induction l as [|[c x] l IH]; intros acc; cbn [fold_left].
  - rewrite ev_nil. destruct ng; ring.
  - rewrite IH. cbn [fst snd]. rewrite ev_cons. destruct (feqb c 0) eqn:E.
    + apply feqb_true in E. subst c. destruct ng; ring.
    + rewrite ev_ins_term. destruct ng; ring.
Qed.

Lemma ev_filter_nz w l : ev w (filter (fun t : term F => negb (feqb (fst t) 0)) l) = ev w l.
Proof.
  induction l as [|[c x] l IH]; cbn [filter]; [reflexivity|]. cbn [fst]. destruct (feqb c 0) eqn:E; cbn [negb].
  - apply feqb_true in E. subst c. rewrite ev_cons, IH. ring.
  - rewrite !ev_cons, IH. reflexivity.
Qed.

Definition sum_ev (w : nat -> F) (sb : bool) (vars : list lexp) : F :=
  match vars with
  | [] => 0
  | v :: vs => fold_left (fun a l => if sb then a - ev w l else a + ev w l) vs (ev w v)
  end.

Lemma ev_merge w vars sb : ev w (merge_les vars sb) = sum_ev w sb vars.
Proof.
  unfold BuilderR1CS.merge_les.
  set (acc := match vars with [] => [] | v :: vs => fold_left (fun a l => ins_le sb l a) vs (ins_le false v []) end).
  assert (Hacc : ev w acc = sum_ev w sb vars).
  { subst acc. destruct vars as [|v vs]; [reflexivity|]. cbn [sum_ev].
    assert (G : forall a0, ev w (fold_left (fun a l => ins_le sb l a) vs a0) =
                          fold_left (fun a l => if sb then a - ev w l else a + ev w l) vs (ev w a0)).
    { induction vs as [|u vs IH]; intros a0; cbn [fold_left]; [reflexivity|].
      rewrite IH, ev_ins_le. f_equal. destruct sb; ring. }
    rewrite G, ev_ins_le. f_equal. rewrite ev_nil. ring. }
  rewrite <- Hacc, <- (ev_filter_nz w acc).
  destruct (filter _ acc); [apply ev_le_zero|reflexivity].
Qed.


(* ---------------------------------------------------------------- states *)
Notation b_newvar := (b_newvar F one).
Notation b_row := (b_row F).
Notation b_hint := (b_hint F one).
Notation b_compress := (b_compress F one).
Notation b_add := (b_add F zero one add opp eq_dec).
Notation b_neg := (b_neg F zero opp eq_dec).
Notation b_mul2 := (b_mul2 F zero one mul eq_dec).
Notation b_mul_list := (b_mul_list F zero one mul eq_dec).
Notation b_mul := (b_mul F zero one mul eq_dec).
Notation set_err := (set_err F).

Definition row_sat (w : nat -> F) (i : instr F) : Prop :=
  match i with IR1C _ _ l r o => ev w l * ev w r = ev w o | _ => True end.
Definition good (w : nat -> F) (st : bstate) : Prop := w O = 1 /\ Forall (row_sat w) (b_instrs F st).
(* the system of st' contains the system of st; a compile-time panic is never forgotten *)
Definition ext (st st' : bstate) : Prop :=
  (forall w, good w st' -> good w st) /\ (b_err F st = true -> b_err F st' = true).
(* every linear expression marked boolean is boolean under every assignment satisfying the rows *)
Definition marks_ok (st : bstate) : Prop :=
  b_err F st = false -> forall w, good w st -> forall l, In l (b_bools F st) -> is_bool (ev w l).

Lemma ext_refl st : ext st st. Proof. split; auto. Qed.
Lemma ext_trans a b c : ext a b -> ext b c -> ext a c.
Proof. intros [H1 H2] [H3 H4]. split; auto. Qed.
Lemma ext_err st st' : ext st st' -> b_err F st' = false -> b_err F st = false.
Proof. intros [_ H] E. destruct (b_err F st); [rewrite H in E; [discriminate|reflexivity]|reflexivity]. Qed.

Lemma marks_same st st' : ext st st' -> b_bools F st' = b_bools F st -> marks_ok st -> marks_ok st'.
Proof.
  intros X B M E w G l I. rewrite B in I. apply (M (ext_err _ _ X E) w (proj1 X w G) l I).
Qed.

Lemma ext_set_err st : ext st (set_err st).
Proof. split; [intros w G; exact G|reflexivity]. Qed.

Lemma good_row w st l r o : good w (b_row st l r o) <-> good w st /\ ev w l * ev w r = ev w o.
Proof.
  unfold good, BuilderR1CS.b_row. destruct (Nat.ltb (length r) (length l)); cbn [b_instrs]; split.
  - intros [H0 HF]. inversion HF as [|i is Hi His]. cbn in Hi. repeat split; auto. rewrite <- Hi. ring.
  - intros [[H0 HF] E]. split; [exact H0|]. constructor; [cbn; rewrite <- E; ring|exact HF].
  - intros [H0 HF]. inversion HF as [|i is Hi His]. cbn in Hi. repeat split; auto.
  - intros [[H0 HF] E]. split; [exact H0|]. constructor; [exact E|exact HF].
Qed.

Lemma row_ext st l r o : ext st (b_row st l r o).
Proof.
  split; [intros w G; apply good_row in G; tauto|].
  unfold BuilderR1CS.b_row. destruct (Nat.ltb _ _); cbn; auto.
Qed.
Lemma row_bools st l r o : b_bools F (b_row st l r o) = b_bools F st.
Proof. unfold BuilderR1CS.b_row. destruct (Nat.ltb _ _); reflexivity. Qed.
Lemma row_err st l r o : b_err F (b_row st l r o) = b_err F st.
Proof. unfold BuilderR1CS.b_row. destruct (Nat.ltb _ _); reflexivity. Qed.

Lemma newvar_spec st r st' : b_newvar st = (r, st') ->
  r = [(1, b_next F st)] /\ b_instrs F st' = b_instrs F st /\ b_bools F st' = b_bools F st /\ b_err F st' = b_err F st.
Proof. unfold BuilderR1CS.b_newvar. intros [= <- <-]. cbn. auto. Qed.
Lemma newvar_ext st r st' : b_newvar st = (r, st') -> ext st st' /\ b_bools F st' = b_bools F st.
Proof.
  intros H. apply newvar_spec in H. destruct H as (_ & I & B & E). split; [|exact B].
  split; [intros w [G0 G]; split; [exact G0|rewrite <- I; exact G]|rewrite E; auto].
Qed.

Lemma hint_ext st hid ins n rs st' : b_hint st hid ins n = (rs, st') -> ext st st' /\ b_bools F st' = b_bools F st.
Proof.
  unfold BuilderR1CS.b_hint. intros [= <- <-]. cbn. split; [|reflexivity].
  split; [|cbn; auto]. intros w [G0 G]. split; [exact G0|]. cbn in G. inversion G; assumption.
Qed.

(* a non-marking step: system extended, marks unchanged, and a fact about every satisfying assignment *)
Definition pstep (st st' : bstate) (P : (nat -> F) -> Prop) : Prop :=
  ext st st' /\ b_bools F st' = b_bools F st /\ forall w, good w st' -> b_err F st' = false -> P w.

Lemma pstep_marks st st' P : pstep st st' P -> marks_ok st -> marks_ok st'.
Proof. intros (X & B & _). apply marks_same; assumption. Qed.

Lemma compress_ok st l r st' : b_compress st l = (r, st') -> pstep st st' (fun w => ev w r = ev w l).
Proof.
  unfold BuilderR1CS.b_compress. destruct (_ || _).
  - intros [= <- <-]. split; [apply ext_refl|split; [reflexivity|reflexivity]].
  - destruct (b_newvar st) as [t st1] eqn:N. intros [= <- <-].
    destruct (newvar_ext _ _ _ N) as [X B].
    split; [eapply ext_trans; [exact X|apply row_ext]|]. split; [rewrite row_bools; exact B|].
    intros w G _. apply good_row in G. destruct G as [[G0 _] E].
    unfold BuilderR1CS.le_one in E. rewrite (ev_cle w 1 G0) in E. rewrite <- E. ring.
Qed.

Lemma add_ok st vars sb r st' : b_add st vars sb = (r, st') -> pstep st st' (fun w => ev w r = sum_ev w sb vars).
Proof.
  unfold BuilderR1CS.b_add. intros H. apply compress_ok in H. destruct H as (X & B & V).
  split; [exact X|split; [exact B|]]. intros w G E. rewrite (V w G E). apply ev_merge.
Qed.

Lemma neg_ok w st v : w O = 1 -> ev w (b_neg st v) = opp (ev w v).
Proof.
  intros H. unfold BuilderR1CS.b_neg. destruct (is_const v) eqn:C.
  - rewrite (is_const_ev w v f H C), (ev_cle w _ H). reflexivity.
  - apply ev_neg.
Qed.

Lemma mul2_ok st v1 v2 r st' : b_mul2 st v1 v2 = (r, st') -> pstep st st' (fun w => ev w r = ev w v1 * ev w v2).
Proof.
  unfold BuilderR1CS.b_mul2. destruct (is_const v1) eqn:C1, (is_const v2) eqn:C2.
  - intros [= <- <-]. split; [apply ext_refl|split; [reflexivity|]]. intros w [G0 _] _.
    rewrite (ev_cle w _ G0), (is_const_ev w v1 _ G0 C1), (is_const_ev w v2 _ G0 C2). reflexivity.
  - intros [= <- <-]. split; [apply ext_refl|split; [reflexivity|]]. intros w [G0 _] _.
    rewrite ev_scale, (is_const_ev w v1 _ G0 C1). ring.
  - intros [= <- <-]. split; [apply ext_refl|split; [reflexivity|]]. intros w [G0 _] _.
    rewrite ev_scale, (is_const_ev w v2 _ G0 C2). ring.
  - destruct (b_newvar st) as [t st1] eqn:N. intros [= <- <-].
    destruct (newvar_ext _ _ _ N) as [X B].
    split; [eapply ext_trans; [exact X|apply row_ext]|]. split; [rewrite row_bools; exact B|].
    intros w G _. apply good_row in G. destruct G as [_ E]. symmetry. exact E.
Qed.

Lemma pstep_trans st st1 st2 (P Q R : (nat -> F) -> Prop) :
  pstep st st1 P -> pstep st1 st2 Q ->
  (forall w, P w -> Q w -> R w) -> pstep st st2 R.
Proof.
  intros (X1 & B1 & V1) (X2 & B2 & V2) H. split; [eapply ext_trans; eassumption|]. split; [congruence|].
  intros w G E. apply H; [apply V1; [apply X2; exact G|eapply ext_err; eassumption]|apply V2; assumption].
Qed.

Lemma pstep_refl st (P : (nat -> F) -> Prop) : (forall w, good w st -> P w) -> pstep st st P.
Proof. intros H. split; [apply ext_refl|split; [reflexivity|]]. intros w G _. auto. Qed.

Lemma pstep_weaken st st' (P Q : (nat -> F) -> Prop) : pstep st st' P -> (forall w, w O = 1 -> P w -> Q w) -> pstep st st' Q.
Proof. intros (X & B & V) H. split; [exact X|split; [exact B|]]. intros w G E. apply H; [apply G|apply V; assumption]. Qed.

Lemma mul_list_ok vs : forall st acc r st', b_mul_list st acc vs = (r, st') ->
  pstep st st' (fun w => ev w r = fold_left (fun a l => a * ev w l) vs (ev w acc)).
Proof.
  induction vs as [|v vs IH]; intros st acc r st'; cbn [BuilderR1CS.b_mul_list].
  - intros [= <- <-]. apply pstep_refl. reflexivity.
  - destruct (b_mul2 st acc v) as [r1 st1] eqn:M. intros H. apply IH in H. apply mul2_ok in M.
    eapply pstep_trans; [exact M|exact H|]. intros w E1 E2. cbn [fold_left]. rewrite E2, E1. reflexivity.
Qed.

Definition prod_ev (w : nat -> F) (vars : list lexp) : F := fold_left (fun a l => a * ev w l) vars 1.

Lemma fold_mul_scale w vs : forall a, fold_left (fun a l => a * ev w l) vs a = a * fold_left (fun a l => a * ev w l) vs 1.
Proof. induction vs as [|v vs IH]; intros a; cbn [fold_left]; [ring|]. rewrite (IH (a * ev w v)), (IH (1 * ev w v)). ring. Qed.

Lemma mul_ok st vars r st' : b_mul st vars = (r, st') -> pstep st st' (fun w => ev w r = prod_ev w vars).
Proof.
  unfold BuilderR1CS.b_mul. destruct vars as [|v1 [|v2 vs]].
  - intros [= <- <-]. split; [apply ext_set_err|split; [reflexivity|]]. intros w _ E. discriminate E.
  - intros [= <- <-]. split; [apply ext_set_err|split; [reflexivity|]]. intros w _ E. discriminate E.
  - destruct (b_mul2 st v1 v2) as [r1 st1] eqn:M. intros H. apply mul_list_ok in H. apply mul2_ok in M.
    eapply pstep_trans; [exact M|exact H|]. intros w E1 E2. unfold prod_ev. cbn [fold_left].
    rewrite E2, E1. rewrite (fold_mul_scale w vs (1 * ev w v1 * ev w v2)), (fold_mul_scale w vs (ev w v1 * ev w v2)). ring.
Qed.


(* ---------------------------------------------------------------- steps that may mark *)
Notation b_mark := (b_mark F zero one eq_dec).
Notation is_marked := (is_marked F eq_dec).
Notation le_eqb := (le_eqb F eq_dec).
Notation b_assert_bool := (b_assert_bool F zero one add opp eq_dec).
Notation b_assert_eq := (b_assert_eq F zero one eq_dec).
Notation b_inverse := (b_inverse F zero one inv eq_dec).
Notation b_div := (b_div F zero one mul inv eq_dec).
Notation b_divunchecked := (b_divunchecked F zero one mul inv eq_dec).
Notation b_assert_diff := (b_assert_diff F zero one add opp inv eq_dec).

Definition mstep (st st' : bstate) (P : (nat -> F) -> Prop) : Prop :=
  ext st st' /\ (marks_ok st -> marks_ok st' /\ forall w, good w st' -> b_err F st' = false -> P w).

Lemma pstep_mstep st st' P : pstep st st' P -> mstep st st' P.
Proof. intros H. split; [apply H|]. intros M. split; [eapply pstep_marks; eassumption|apply H]. Qed.

Lemma mstep_and st st1 st2 (P Q : (nat -> F) -> Prop) :
  mstep st st1 P -> mstep st1 st2 Q -> mstep st st2 (fun w => P w /\ Q w).
Proof.
  intros [X1 H1] [X2 H2]. split; [eapply ext_trans; eassumption|]. intros M.
  destruct (H1 M) as [M1 V1]. destruct (H2 M1) as [M2 V2]. split; [exact M2|].
  intros w G E. split; [apply V1; [apply X2; exact G|eapply ext_err; eassumption]|apply V2; assumption].
Qed.

Lemma mstep_weaken st st' (P Q : (nat -> F) -> Prop) : mstep st st' P -> (forall w, w O = 1 -> P w -> Q w) -> mstep st st' Q.
Proof. intros [X H] I. split; [exact X|]. intros M. destruct (H M) as [M' V]. split; [exact M'|]. intros w G E. apply I; [apply G|apply V; assumption]. Qed.

Lemma mstep_refl st : mstep st st (fun _ => True).
Proof. split; [apply ext_refl|]. intros M. split; auto. Qed.

Lemma mark_instrs st v : b_instrs F (b_mark st v) = b_instrs F st.
Proof. unfold BuilderR1CS.b_mark. destruct (is_const v); [destruct (_ || _)|]; reflexivity. Qed.
Lemma mark_err st v : b_err F (b_mark st v) = false -> b_err F st = false.
Proof. unfold BuilderR1CS.b_mark. destruct (is_const v); [destruct (_ || _)|]; cbn; auto; discriminate. Qed.
Lemma mark_err' st v : b_err F st = true -> b_err F (b_mark st v) = true.
Proof. unfold BuilderR1CS.b_mark. destruct (is_const v); [destruct (_ || _)|]; cbn; auto. Qed.
Lemma mark_bools st v l : In l (b_bools F (b_mark st v)) -> l = v \/ In l (b_bools F st).
Proof. unfold BuilderR1CS.b_mark. destruct (is_const v); [destruct (_ || _)|]; cbn; auto. intros [H|H]; auto. Qed.
Lemma mark_bools' st v l : In l (b_bools F st) -> b_err F (b_mark st v) = false -> In l (b_bools F (b_mark st v)).
Proof. unfold BuilderR1CS.b_mark. destruct (is_const v); [destruct (_ || _)|]; cbn; auto. Qed.
Lemma mark_good w st v : good w (b_mark st v) <-> good w st.
Proof. unfold good. rewrite mark_instrs. tauto. Qed.
Lemma mark_ext st v : ext st (b_mark st v).
Proof. split; [intros w G; exact (proj1 (mark_good w st v) G)|apply mark_err']. Qed.

(* mark a linear expression that the facts established so far force to be boolean *)
Lemma mstep_mark st st1 (P : (nat -> F) -> Prop) v :
  mstep st st1 P -> (forall w, w O = 1 -> P w -> is_bool (ev w v)) -> mstep st (b_mark st1 v) P.
Proof.
  intros [X H] I. split; [eapply ext_trans; [exact X|apply mark_ext]|]. intros M. destruct (H M) as [M1 V].
  assert (V' : forall w, good w (b_mark st1 v) -> b_err F (b_mark st1 v) = false -> P w).
  { intros w G E. apply V; [exact (proj1 (mark_good w st1 v) G)|eapply mark_err; exact E]. }
  split; [|exact V']. intros E w G l IN. apply mark_bools in IN. destruct IN as [->|IN].
  - apply I; [apply G|apply V'; assumption].
  - apply (M1 (mark_err _ _ E) w (proj1 (mark_good w st1 v) G) l IN).
Qed.

Lemma row_pstep st l r o : pstep st (b_row st l r o) (fun w => ev w l * ev w r = ev w o).
Proof. split; [apply row_ext|split; [apply row_bools|]]. intros w G _. apply good_row in G. tauto. Qed.

Lemma le_eqb_eq a : forall b, le_eqb a b = true -> a = b.
Proof.
  induction a as [|[c x] a IH]; intros [|[d y] b]; cbn; try discriminate; [reflexivity|].
  intros H. apply andb_true_iff in H. destruct H as [H H3]. apply andb_true_iff in H. destruct H as [H1 H2].
  apply feqb_true in H1. apply Nat.eqb_eq in H2. rewrite H1, H2, (IH b H3). reflexivity.
Qed.

Notation boolean_rel := (boolean_rel F zero one add mul sub opp div inv Fth eq_dec).

Lemma is_bool_01 c : feqb c 0 || feqb c 1 = true -> is_bool c.
Proof. intros H. apply orb_true_iff in H. destruct H as [H|H]; apply feqb_true in H; [left|right]; exact H. Qed.

Lemma assert_bool_ok st v : mstep st (b_assert_bool st v) (fun w => is_bool (ev w v)).
Proof.
  unfold BuilderR1CS.b_assert_bool. destruct (is_const v) as [c|] eqn:C.
  - destruct (feqb c 0 || feqb c 1) eqn:B.
    + eapply mstep_weaken; [apply mstep_refl|]. intros w G0 _. rewrite (is_const_ev w v c G0 C). apply is_bool_01; exact B.
    + split; [apply ext_set_err|]. intros M. split; [intros E; discriminate E|intros w _ E; discriminate E].
  - destruct (is_marked st v) eqn:K.
    + split; [apply ext_refl|]. intros M. split; [exact M|]. intros w G E.
      unfold BuilderR1CS.is_marked in K. apply existsb_exists in K. destruct K as (l & IN & EQ). apply le_eqb_eq in EQ. rewrite EQ.
      apply (M E w G l IN).
    + destruct (b_add (b_mark st v) [le_one; v] true) as [nv st2] eqn:A. apply add_ok in A. destruct A as (X2 & B2 & V2).
      assert (FACT : forall w, good w (b_row st2 v nv le_zero) -> b_err F (b_row st2 v nv le_zero) = false -> is_bool (ev w v)).
      { intros w G E. apply good_row in G. destruct G as [G R]. rewrite row_err in E. rewrite (V2 w G E) in R.
        cbn [sum_ev fold_left] in R. unfold BuilderR1CS.le_one in R. rewrite (ev_cle w 1 (proj1 G)), ev_le_zero in R.
        apply boolean_rel. exact R. }
      assert (X : ext st (b_row st2 v nv le_zero)).
      { eapply ext_trans; [apply mark_ext|]. eapply ext_trans; [exact X2|apply row_ext]. }
      split; [exact X|]. intros M. split; [|exact FACT]. intros E w G l IN.
      rewrite row_bools, B2 in IN. apply mark_bools in IN. destruct IN as [->|IN]; [apply FACT; assumption|].
      apply (M (ext_err _ _ X E) w (proj1 X w G) l IN).
Qed.

Lemma assert_eq_ok st v1 v2 : pstep st (b_assert_eq st v1 v2) (fun w => ev w v1 = ev w v2).
Proof.
  unfold BuilderR1CS.b_assert_eq.
  assert (R : pstep st (b_row st le_one v1 v2) (fun w => ev w v1 = ev w v2)).
  { eapply pstep_weaken; [apply row_pstep|]. intros w G0 H. cbn beta in H. unfold BuilderR1CS.le_one in H. rewrite (ev_cle w 1 G0) in H. rewrite <- H. ring. }
  destruct (is_const v1) as [c1|] eqn:C1; [|exact R]. destruct (is_const v2) as [c2|] eqn:C2; [|exact R].
  destruct (feqb c1 c2) eqn:E.
  - apply pstep_refl. intros w [G0 _]. rewrite (is_const_ev w v1 c1 G0 C1), (is_const_ev w v2 c2 G0 C2). apply feqb_true; exact E.
  - split; [apply ext_set_err|split; [reflexivity|]]. intros w _ Er. discriminate Er.
Qed.

Lemma perr st (P : (nat -> F) -> Prop) : pstep st (set_err st) P.
Proof. split; [apply ext_set_err|split; [reflexivity|]]. intros w _ Er. discriminate Er. Qed.

Notation inverse_rel := (inverse_rel F zero one add mul sub opp div inv Fth).
Notation div_rel := (div_rel F zero one add mul sub opp div inv Fth).
Notation div_unchecked_rel := (div_unchecked_rel F zero one add mul sub opp div inv Fth eq_dec).

Lemma inverse_ok st v r st' : b_inverse st v = (r, st') -> pstep st st' (fun w => ev w v <> 0 /\ ev w r = inv (ev w v)).
Proof.
  unfold BuilderR1CS.b_inverse. destruct (is_const v) as [c|] eqn:C.
  - destruct (feqb c 0) eqn:E; intros [= <- <-]; [apply perr|]. apply pstep_refl. intros w [G0 _].
    rewrite (is_const_ev w v c G0 C), (ev_cle w _ G0). apply feqb_false in E. auto.
  - destruct (b_newvar st) as [t st1] eqn:N. intros [= <- <-]. destruct (newvar_ext _ _ _ N) as [X B].
    eapply pstep_weaken; [eapply pstep_trans; [split; [exact X|split; [exact B|intros w _ _; exact I]]|apply row_pstep|intros w _ H; exact H]|].
    intros w G0 H. cbn beta in H. unfold BuilderR1CS.le_one in H. rewrite (ev_cle w 1 G0) in H. apply inverse_rel. rewrite <- H. ring.
Qed.

Lemma div_const_ok w v1 n2 : w O = 1 -> n2 <> 0 ->
  ev w (match is_const v1 with Some n1 => cle (inv n2 * n1) | None => scale v1 (inv n2) end) = ev w v1 / n2.
Proof.
  intros G0 NZ. destruct (is_const v1) as [n1|] eqn:C1.
  - rewrite (ev_cle w _ G0), (is_const_ev w v1 n1 G0 C1). field. exact NZ.
  - rewrite ev_scale. field. exact NZ.
Qed.

Lemma div_ok st v1 v2 r st' : b_div st v1 v2 = (r, st') -> pstep st st' (fun w => ev w v2 <> 0 /\ ev w r = ev w v1 / ev w v2).
Proof.
  unfold BuilderR1CS.b_div. destruct (is_const v2) as [n2|] eqn:C2.
  - destruct (feqb n2 0) eqn:E; [intros [= <- <-]; apply perr|]. apply feqb_false in E.
    intros H. assert (H' : (match is_const v1 with Some n1 => cle (inv n2 * n1) | None => scale v1 (inv n2) end, st) = (r, st')).
    { destruct (is_const v1); exact H. }
    injection H' as <- <-. apply pstep_refl. intros w [G0 _]. rewrite (is_const_ev w v2 n2 G0 C2). split; [exact E|apply div_const_ok; assumption].
  - destruct (b_newvar st) as [t st1] eqn:N1. destruct (b_newvar st1) as [vi st2] eqn:N2. intros [= <- <-].
    destruct (newvar_ext _ _ _ N1) as [X1 B1]. destruct (newvar_ext _ _ _ N2) as [X2 B2].
    assert (P0 : pstep st st2 (fun _ => True)).
    { split; [eapply ext_trans; eassumption|split; [congruence|auto]]. }
    eapply pstep_weaken; [eapply pstep_trans; [eapply pstep_trans; [exact P0|apply row_pstep|intros w _ H; exact H]|apply row_pstep|intros w H1 H2; exact (conj H1 H2)]|].
    intros w G0 [H1 H2]. cbn beta in H1, H2. unfold BuilderR1CS.le_one in H1. rewrite (ev_cle w 1 G0) in H1.
    apply div_rel. exists (ev w vi). split; [exact H1|].
    assert (NZ : ev w v2 <> 0). { intros Z. rewrite Z in H1. apply (F_1_neq_0 Fth). rewrite <- H1. ring. }
    rewrite <- H2. transitivity (ev w v1 * (ev w v2 * ev w vi)); [ring|rewrite H1; ring].
Qed.

Lemma divunchecked_ok st v1 v2 r st' : b_divunchecked st v1 v2 = (r, st') ->
  pstep st st' (fun w => (ev w v2 <> 0 /\ ev w r = ev w v1 / ev w v2) \/ (ev w v2 = 0 /\ ev w v1 = 0)).
Proof.
  unfold BuilderR1CS.b_divunchecked. destruct (is_const v2) as [n2|] eqn:C2.
  - destruct (feqb n2 0) eqn:E; [intros [= <- <-]; apply perr|]. apply feqb_false in E.
    intros H. assert (H' : (match is_const v1 with Some n1 => cle (inv n2 * n1) | None => scale v1 (inv n2) end, st) = (r, st')).
    { destruct (is_const v1); exact H. }
    injection H' as <- <-. apply pstep_refl. intros w [G0 _]. left. rewrite (is_const_ev w v2 n2 G0 C2). split; [exact E|apply div_const_ok; assumption].
  - destruct (b_newvar st) as [t st1] eqn:N1. intros [= <- <-]. destruct (newvar_ext _ _ _ N1) as [X1 B1].
    eapply pstep_weaken; [eapply pstep_trans; [split; [exact X1|split; [exact B1|intros w _ _; exact I]]|apply row_pstep|intros w _ H; exact H]|].
    intros w G0 H. cbn beta in H. apply div_unchecked_rel. rewrite <- H. ring.
Qed.

Lemma assert_diff_ok st v1 v2 : pstep st (b_assert_diff st v1 v2) (fun w => ev w v1 <> ev w v2).
Proof.
  unfold BuilderR1CS.b_assert_diff. destruct (b_add st [v1; v2] true) as [s st1] eqn:A. apply add_ok in A.
  assert (INV : pstep st (snd (b_inverse st1 s)) (fun w => ev w v1 <> ev w v2)).
  { destruct (b_inverse st1 s) as [r st2] eqn:I. apply inverse_ok in I. cbn [snd].
    eapply pstep_trans; [exact A|exact I|]. intros w E1 [NZ _] EQ. apply NZ. rewrite E1. cbn [sum_ev fold_left]. rewrite EQ. ring. }
  destruct s as [|[c x] [|t s]]; try exact INV. destruct (feqb c 0); [|exact INV].
  eapply pstep_trans; [exact A|apply perr|]. intros w _ H. exact H.
Qed.


(* ---------------------------------------------------------------- boolean and conditional operations *)
Notation b_mulacc := (b_mulacc F zero one add mul opp eq_dec).
Notation b_xor := (b_xor F zero one add mul opp eq_dec cst).
Notation b_or := (b_or F zero one add opp eq_dec).
Notation b_and := (b_and F zero one add mul opp eq_dec).
Notation b_select := (b_select F zero one add mul sub opp eq_dec).
Notation b_lookup2 := (b_lookup2 F zero one add mul opp eq_dec).
Notation b_iszero := (b_iszero F zero one add opp eq_dec cst).
Notation b_frombinary := (b_frombinary F zero one add mul opp eq_dec cst).

Lemma one_neq_zero : 1 <> 0. Proof. exact (F_1_neq_0 Fth). Qed.

Lemma is_bool_mul a b : is_bool a -> is_bool b -> is_bool (a * b).
Proof. intros [->| ->] [->| ->]; [left|left|left|right]; ring. Qed.
Lemma is_bool_xor a b : is_bool a -> is_bool b -> is_bool (a + b - (1 + 1) * a * b).
Proof. intros [->| ->] [->| ->]; [left|right|right|left]; ring. Qed.
Lemma is_bool_or a b : is_bool a -> is_bool b -> is_bool (a + b - a * b).
Proof. intros [->| ->] [->| ->]; [left|right|right|right]; ring. Qed.

Lemma mulacc_ok st a b c r st' : b_mulacc st a b c = (r, st') -> pstep st st' (fun w => ev w r = ev w a + ev w b * ev w c).
Proof.
  unfold BuilderR1CS.b_mulacc. destruct (b_mul2 st b c) as [t st1] eqn:M. intros A. apply mul2_ok in M. apply add_ok in A.
  eapply pstep_trans; [exact M|exact A|]. intros w E1 E2. rewrite E2. cbn [sum_ev fold_left]. rewrite E1. reflexivity.
Qed.

Lemma prod2 w a b : prod_ev w [a; b] = ev w a * ev w b.
Proof. unfold prod_ev. cbn [fold_left]. ring. Qed.

Lemma and_ok st a b r st' : b_and st a b = (r, st') ->
  mstep st st' (fun w => is_bool (ev w a) /\ is_bool (ev w b) /\ ev w r = ev w a * ev w b).
Proof.
  unfold BuilderR1CS.b_and. destruct (b_mul _ [a; b]) as [r0 st3] eqn:M. intros [= <- <-]. apply mul_ok in M.
  apply mstep_mark.
  - eapply mstep_weaken; [eapply mstep_and; [apply assert_bool_ok|eapply mstep_and; [apply assert_bool_ok|apply pstep_mstep; exact M]]|].
    intros w _ (Ha & Hb & E). rewrite prod2 in E. auto.
  - intros w _ (Ha & Hb & E). rewrite E. apply is_bool_mul; assumption.
Qed.

Lemma xor_ok st a b r st' : b_xor st a b = (r, st') ->
  mstep st st' (fun w => is_bool (ev w a) /\ is_bool (ev w b) /\ ev w r = ev w a + ev w b - (1 + 1) * ev w a * ev w b).
Proof.
  unfold BuilderR1CS.b_xor.
  set (ab := if Nat.ltb (length a) (length b) then (b, a) else (a, b)).
  assert (AB : forall w, ev w (fst ab) + ev w (snd ab) - (1 + 1) * ev w (fst ab) * ev w (snd ab) = ev w a + ev w b - (1 + 1) * ev w a * ev w b).
  { intros w. subst ab. destruct (Nat.ltb _ _); cbn [fst snd]; ring. }
  destruct ab as [a' b']. cbn [fst snd] in AB.
  destruct (b_mul _ [b'; cle (cst 2)]) as [b2 st3] eqn:M1.
  destruct (b_add st3 [le_one; b2] true) as [t st4] eqn:A1.
  destruct (b_mul st4 [a'; t]) as [at_ st5] eqn:M2.
  destruct (b_add st5 [at_; b'] false) as [r0 st6] eqn:A2. intros [= <- <-].
  apply mul_ok in M1, M2. apply add_ok in A1, A2.
  assert (MS : mstep st st6 (fun w => is_bool (ev w a) /\ is_bool (ev w b) /\ ev w r0 = ev w a + ev w b - (1 + 1) * ev w a * ev w b)).
  { eapply mstep_weaken; [eapply mstep_and; [apply assert_bool_ok|eapply mstep_and; [apply assert_bool_ok|
      eapply mstep_and; [apply pstep_mstep; exact M1|eapply mstep_and; [apply pstep_mstep; exact A1|
      eapply mstep_and; [apply pstep_mstep; exact M2|apply pstep_mstep; exact A2]]]]]|].
    intros w G0 (Ha & Hb & E1 & E2 & E3 & E4). split; [exact Ha|split; [exact Hb|]].
    rewrite E4. cbn [sum_ev fold_left]. rewrite E3, prod2, E2. cbn [sum_ev fold_left]. rewrite E1, prod2.
    unfold BuilderR1CS.le_one. rewrite !(ev_cle w _ G0), cst2, <- AB. ring. }
  apply mstep_mark; [exact MS|]. intros w _ (Ha & Hb & E). rewrite E. apply is_bool_xor; assumption.
Qed.

Lemma or_ok st a b r st' : b_or st a b = (r, st') ->
  mstep st st' (fun w => is_bool (ev w a) /\ is_bool (ev w b) /\ ev w r = ev w a + ev w b - ev w a * ev w b).
Proof.
  unfold BuilderR1CS.b_or. set (st2 := b_assert_bool (b_assert_bool st a) b).
  destruct (b_newvar st2) as [r0 st3] eqn:N. intros [= <- <-].
  destruct (newvar_ext _ _ _ N) as [X3 B3].
  assert (MS2 : mstep st st2 (fun w => is_bool (ev w a) /\ is_bool (ev w b))).
  { eapply mstep_and; apply assert_bool_ok. }
  destruct MS2 as [X2 H2].
  set (st4 := b_mark st3 r0). set (c := b_neg st4 r0 ++ a ++ b).
  assert (X : ext st (b_row st4 a b c)).
  { eapply ext_trans; [exact X2|]. eapply ext_trans; [exact X3|]. eapply ext_trans; [apply mark_ext|apply row_ext]. }
  split; [exact X|]. intros M. destruct (H2 M) as [M2 V2].
  assert (FACT : forall w, good w (b_row st4 a b c) -> b_err F (b_row st4 a b c) = false ->
                 is_bool (ev w a) /\ is_bool (ev w b) /\ ev w r0 = ev w a + ev w b - ev w a * ev w b).
  { intros w G E. pose proof G as G'. apply good_row in G'. destruct G' as [G4 R]. rewrite row_err in E.
    assert (G3 : good w st3) by exact (proj1 (mark_good w st3 r0) G4).
    assert (G2 : good w st2) by (apply X3; exact G3).
    assert (E2 : b_err F st2 = false) by (eapply ext_err; [exact X3|eapply mark_err; exact E]).
    destruct (V2 w G2 E2) as [Ha Hb]. split; [exact Ha|split; [exact Hb|]].
    subst c. rewrite !ev_app, (neg_ok w st4 r0 (proj1 G)) in R.
    transitivity (ev w a + ev w b - (opp (ev w r0) + (ev w a + ev w b))); [ring|rewrite <- R; ring]. }
  split; [|exact FACT]. intros E w G l IN. rewrite row_bools in IN. apply mark_bools in IN. destruct IN as [->|IN].
  - destruct (FACT w G E) as (Ha & Hb & Er). rewrite Er. apply is_bool_or; assumption.
  - rewrite B3 in IN. pose proof G as G'. apply good_row in G'. destruct G' as [G4 _]. rewrite row_err in E.
    assert (G3 : good w st3) by exact (proj1 (mark_good w st3 r0) G4).
    apply (M2 (ext_err _ _ X3 (mark_err _ _ E)) w (proj1 X3 w G3) l IN).
Qed.

Definition sel (c x y : F) : F := if eq_dec c 0 then y else x.

Lemma sel_bool c x y : is_bool c -> c * (x - y) + y = sel c x y.
Proof. unfold sel. intros [->| ->]; destruct (eq_dec _ 0) as [E|E]; try ring; [exfalso; apply E; reflexivity|exfalso; apply one_neq_zero; exact E]. Qed.

Lemma select_ok st c v1 v2 r st' : b_select st c v1 v2 = (r, st') ->
  mstep st st' (fun w => is_bool (ev w c) /\ ev w r = sel (ev w c) (ev w v1) (ev w v2)).
Proof.
  unfold BuilderR1CS.b_select. set (st1 := b_assert_bool st c).
  pose proof (assert_bool_ok st c) as AB. fold st1 in AB.
  destruct (is_const c) as [k|] eqn:C.
  - intros H. assert (H' : ((if feqb k 1 then v1 else v2), st1) = (r, st')) by (destruct (feqb k 1); exact H).
    injection H' as <- <-. eapply mstep_weaken; [exact AB|]. intros w G0 Hc. cbn beta in Hc. split; [exact Hc|].
    pose proof (is_const_ev w c k G0 C) as Ek. rewrite Ek. rewrite Ek in Hc. unfold sel. destruct (feqb k 1) eqn:K.
    + apply feqb_true in K. rewrite K. destruct (eq_dec 1 0) as [E|E]; [exfalso; apply one_neq_zero; exact E|reflexivity].
    + apply feqb_false in K. destruct Hc as [Hc|Hc]; [|contradiction]. destruct (eq_dec k 0) as [E|E]; [reflexivity|contradiction].
  - assert (GEN : forall r st', (let '(v, st2) := b_add st1 [v1; v2] true in let '(w0, st3) := b_mul st2 [c; v] in b_add st3 [w0; v2] false) = (r, st') ->
       mstep st st' (fun w => is_bool (ev w c) /\ ev w r = sel (ev w c) (ev w v1) (ev w v2))).
    { intros r1 st1'. destruct (b_add st1 [v1; v2] true) as [v st2] eqn:A1. destruct (b_mul st2 [c; v]) as [w0 st3] eqn:M. intros A2.
      apply add_ok in A1, A2. apply mul_ok in M.
      eapply mstep_weaken; [eapply mstep_and; [exact AB|eapply mstep_and; [apply pstep_mstep; exact A1|eapply mstep_and; [apply pstep_mstep; exact M|apply pstep_mstep; exact A2]]]|].
      intros w G0 (Hc & E1 & E2 & E3). split; [exact Hc|]. rewrite E3. cbn [sum_ev fold_left]. rewrite E2, prod2, E1. cbn [sum_ev fold_left].
      apply sel_bool; exact Hc. }
    assert (ZERO : forall n1 r st', is_const v1 = Some n1 -> feqb n1 0 = true ->
       (let '(v, st2) := b_add st1 [le_one; c] true in b_mul st2 [v; v2]) = (r, st') ->
       mstep st st' (fun w => is_bool (ev w c) /\ ev w r = sel (ev w c) (ev w v1) (ev w v2))).
    { intros n1 r1 st1' C1 Z. destruct (b_add st1 [le_one; c] true) as [v st2] eqn:A1. intros M. apply add_ok in A1. apply mul_ok in M.
      eapply mstep_weaken; [eapply mstep_and; [exact AB|eapply mstep_and; [apply pstep_mstep; exact A1|apply pstep_mstep; exact M]]|].
      intros w G0 (Hc & E1 & E2). split; [exact Hc|]. rewrite E2, prod2, E1. cbn [sum_ev fold_left]. unfold BuilderR1CS.le_one. rewrite (ev_cle w 1 G0).
      apply feqb_true in Z. rewrite (is_const_ev w v1 n1 G0 C1), Z, <- (sel_bool _ 0 (ev w v2) Hc). ring. }
    destruct (is_const v1) as [n1|] eqn:C1; destruct (is_const v2) as [n2|] eqn:C2.
    + destruct (b_mul st1 [c; cle (n1 - n2)]) as [r1 st2] eqn:M. intros A. apply mul_ok in M. apply add_ok in A.
      eapply mstep_weaken; [eapply mstep_and; [exact AB|eapply mstep_and; [apply pstep_mstep; exact M|apply pstep_mstep; exact A]]|].
      intros w G0 (Hc & E1 & E2). split; [exact Hc|]. rewrite E2. cbn [sum_ev fold_left]. rewrite E1, prod2, (ev_cle w _ G0).
      rewrite (is_const_ev w v1 n1 G0 C1), <- (sel_bool _ n1 (ev w v2) Hc), (is_const_ev w v2 n2 G0 C2). ring.
    + destruct (feqb n1 0) eqn:Z; [apply (ZERO n1 r st' eq_refl Z)|apply GEN].
    + apply GEN.
    + apply GEN.
Qed.


Definition lk2 (s0 s1 i0 i1 i2 i3 : F) : F := sel s1 (sel s0 i3 i2) (sel s0 i1 i0).

Lemma lookup2_ok st s0 s1 i0 i1 i2 i3 r st' : b_lookup2 st s0 s1 i0 i1 i2 i3 = (r, st') ->
  mstep st st' (fun w => is_bool (ev w s0) /\ is_bool (ev w s1) /\
                         ev w r = lk2 (ev w s0) (ev w s1) (ev w i0) (ev w i1) (ev w i2) (ev w i3)).
Proof.
  unfold BuilderR1CS.b_lookup2. set (st2 := b_assert_bool (b_assert_bool st s0) s1).
  assert (AB : mstep st st2 (fun w => is_bool (ev w s0) /\ is_bool (ev w s1))) by (eapply mstep_and; apply assert_bool_ok).
  assert (GEN : forall r st',
    (let '(t1, st3) := b_add st2 [i3; i0] false in
     let '(t1, st4) := b_add st3 [t1; i2; i1] true in
     let '(t1, st5) := b_mul st4 [t1; s1] in
     let '(t1, st6) := b_add st5 [t1; i1] false in
     let '(t1, st7) := b_add st6 [t1; i0] true in
     let '(t2, st8) := b_mul st7 [t1; s0] in
     let '(r, st9) := b_add st8 [i2; i0] true in
     let '(r, st10) := b_mul st9 [r; s1] in
     b_add st10 [r; t2; i0] false) = (r, st') ->
    mstep st st' (fun w => is_bool (ev w s0) /\ is_bool (ev w s1) /\
                         ev w r = lk2 (ev w s0) (ev w s1) (ev w i0) (ev w i1) (ev w i2) (ev w i3))).
  { intros r1 st1'.
    destruct (b_add st2 [i3; i0] false) as [ta st3] eqn:H1. destruct (b_add st3 [ta; i2; i1] true) as [tb st4] eqn:H2.
    destruct (b_mul st4 [tb; s1]) as [tc st5] eqn:H3. destruct (b_add st5 [tc; i1] false) as [td st6] eqn:H4.
    destruct (b_add st6 [td; i0] true) as [te st7] eqn:H5. destruct (b_mul st7 [te; s0]) as [t2 st8] eqn:H6.
    destruct (b_add st8 [i2; i0] true) as [ra st9] eqn:H7. destruct (b_mul st9 [ra; s1]) as [rb st10] eqn:H8. intros H9.
    apply add_ok in H1, H2, H4, H5, H7, H9. apply mul_ok in H3, H6, H8.
    eapply mstep_weaken; [eapply mstep_and; [exact AB|
      eapply mstep_and; [apply pstep_mstep; exact H1|eapply mstep_and; [apply pstep_mstep; exact H2|
      eapply mstep_and; [apply pstep_mstep; exact H3|eapply mstep_and; [apply pstep_mstep; exact H4|
      eapply mstep_and; [apply pstep_mstep; exact H5|eapply mstep_and; [apply pstep_mstep; exact H6|
      eapply mstep_and; [apply pstep_mstep; exact H7|eapply mstep_and; [apply pstep_mstep; exact H8|apply pstep_mstep; exact H9]]]]]]]]]|].
    intros w G0 ((Hs0 & Hs1) & E1 & E2 & E3 & E4 & E5 & E6 & E7 & E8 & E9). cbn beta in *. split; [exact Hs0|split; [exact Hs1|]].
    rewrite E9. cbn [sum_ev fold_left]. rewrite E8, prod2, E7, E6, prod2, E5. cbn [sum_ev fold_left]. rewrite E4. cbn [sum_ev fold_left].
    rewrite E3, prod2, E2. cbn [sum_ev fold_left]. rewrite E1. cbn [sum_ev fold_left].
    unfold lk2. rewrite <- !(sel_bool _ _ _ Hs0), <- (sel_bool _ _ _ Hs1). ring. }
  destruct (is_const s0) as [c0|] eqn:C0; [|apply GEN]. destruct (is_const s1) as [c1|] eqn:C1; [|apply GEN].
  intros [= <- <-]. eapply mstep_weaken; [exact AB|]. intros w G0 [Hs0 Hs1]. cbn beta in *. split; [exact Hs0|split; [exact Hs1|]].
  pose proof (is_const_ev w s0 c0 G0 C0) as E0. pose proof (is_const_ev w s1 c1 G0 C1) as E1. rewrite E0, E1 in *.
  unfold lk2, sel.
  assert (N10 : forall T (x y : T), (if eq_dec 1 0 then x else y) = y).
  { intros T x y. destruct (eq_dec 1 0) as [E|E]; [exfalso; apply one_neq_zero; exact E|reflexivity]. }
  destruct (feqb c0 1) eqn:K0; destruct (feqb c1 1) eqn:K1; cbn [negb andb].
  - apply feqb_true in K0, K1. rewrite K0, K1, !N10. reflexivity.
  - apply feqb_true in K0. apply feqb_false in K1. destruct Hs1 as [Z|Z]; [|contradiction]. rewrite K0, Z, !N10.
    destruct (eq_dec 0 0) as [E|E]; [reflexivity|exfalso; apply E; reflexivity].
  - apply feqb_false in K0. apply feqb_true in K1. destruct Hs0 as [Z|Z]; [|contradiction]. rewrite K1, Z, !N10.
    destruct (eq_dec 0 0) as [E|E]; [reflexivity|exfalso; apply E; reflexivity].
  - apply feqb_false in K0, K1. destruct Hs0 as [Z0|Z0]; [|contradiction]. destruct Hs1 as [Z1|Z1]; [|contradiction]. rewrite Z0, Z1.
    destruct (eq_dec 0 0) as [E|E]; [reflexivity|exfalso; apply E; reflexivity].
Qed.

Notation iszero_rel := (iszero_rel F zero one add mul sub opp div inv Fth eq_dec).

Definition isz (a : F) : F := if eq_dec a 0 then 1 else 0.

Lemma iszero_ok st a r st' : b_iszero st a = (r, st') -> mstep st st' (fun w => ev w r = isz (ev w a)).
Proof.
  unfold BuilderR1CS.b_iszero. destruct (is_const a) as [c|] eqn:C.
  - destruct (feqb c 0) eqn:Z; intros [= <- <-]; (eapply mstep_weaken; [apply mstep_refl|]); intros w G0 _;
      rewrite (is_const_ev w a c G0 C); unfold isz, BuilderR1CS.le_one.
    + apply feqb_true in Z. rewrite (ev_cle w _ G0). destruct (eq_dec c 0); [reflexivity|contradiction].
    + apply feqb_false in Z. rewrite ev_le_zero. destruct (eq_dec c 0); [contradiction|reflexivity].
  - destruct (b_newvar st) as [m st1] eqn:N. destruct (b_hint st1 (hid_invzero) [a] 1) as [xs st2] eqn:H.
    destruct (b_add st2 [m; cle (cst 1)] true) as [m1 st3] eqn:A. intros [= <- <-].
    destruct (newvar_ext _ _ _ N) as [X1 B1]. destruct (hint_ext _ _ _ _ _ _ H) as [X2 B2]. apply add_ok in A.
    assert (P2 : pstep st st2 (fun _ => True)) by (split; [eapply ext_trans; eassumption|split; [congruence|auto]]).
    apply mstep_mark.
    + eapply mstep_weaken; [apply pstep_mstep; eapply pstep_trans; [eapply pstep_trans; [eapply pstep_trans; [exact P2|exact A|intros w _ E; exact E]|apply row_pstep|intros w E1 E2; exact (conj E1 E2)]|apply row_pstep|intros w E1 E2; exact (conj E1 E2)]|].
      intros w G0 [[E1 E2] E3]. cbn beta in E1, E2, E3. rewrite (neg_ok w st3 a G0), E1 in E2. cbn [sum_ev fold_left] in E2.
      rewrite (ev_cle w _ G0), cst1 in E2. rewrite ev_le_zero in E3.
      unfold isz. assert (R : ev w m = Gadgets.inj F zero one (if eq_dec (ev w a) 0 then true else false)).
      { apply iszero_rel. exists (ev w (hd le_zero xs)). split; assumption. }
      rewrite R. destruct (eq_dec (ev w a) 0); reflexivity.
    + intros w _ E. cbn beta in E. rewrite E. unfold isz. destruct (eq_dec (ev w a) 0); [right|left]; reflexivity.
Qed.

Fixpoint fbv (w : nat -> F) (c : Z) (ds : list lexp) : F :=
  match ds with [] => 0 | d :: ds' => cst c * ev w d + fbv w (2 * c)%Z ds' end.

Lemma frombinary_ok ds : forall st acc c r st', b_frombinary st acc c ds = (r, st') ->
  mstep st st' (fun w => Forall (fun d => is_bool (ev w d)) ds /\ ev w r = ev w acc + fbv w c ds).
Proof.
  induction ds as [|d ds IH]; intros st acc c r st'; cbn [BuilderR1CS.b_frombinary].
  - intros [= <- <-]. eapply mstep_weaken; [apply mstep_refl|]. intros w _ _. split; [constructor|cbn [fbv]; ring].
  - destruct (b_mul _ [cle (cst c); d]) as [m st2] eqn:M. destruct (b_add st2 [acc; m] false) as [acc' st3] eqn:A. intros H.
    apply IH in H. apply mul_ok in M. apply add_ok in A.
    eapply mstep_weaken; [eapply mstep_and; [apply assert_bool_ok|eapply mstep_and; [apply pstep_mstep; exact M|eapply mstep_and; [apply pstep_mstep; exact A|exact H]]]|].
    intros w G0 (Hd & E1 & E2 & HF & E3). cbn beta in *. split; [constructor; assumption|].
    rewrite E3, E2. cbn [sum_ev fold_left fbv]. rewrite E1, prod2, (ev_cle w _ G0). ring.
Qed.


(* ---------------------------------------------------------------- documented meaning, programs *)
Notation b_step := (b_step F zero one add mul sub opp inv eq_dec cst).
Notation b_init := (b_init F one).
Notation b_expose := (b_expose F zero one eq_dec).
Notation b_compile := (b_compile F zero one add mul sub opp inv eq_dec cst).
Notation arg_le := (arg_le F zero cst).

Definition aval (vs : list F) (a : arg) : F := match a with AC z => cst z | AV i => nth i vs 0 end.

Definition sumF (a : list F) : F := match a with [] => 0 | x :: xs => fold_left add xs x end.
Definition subF (a : list F) : F := match a with [] => 0 | x :: xs => fold_left sub xs x end.
Fixpoint fbvF (c : Z) (ds : list F) : F := match ds with [] => 0 | d :: ds' => cst c * d + fbvF (2 * c)%Z ds' end.

(* the documented meaning of one API call on argument values [a]: results [rs] and assertion *)
Definition sem (k : opk) (a : list F) (rs : list F) : Prop :=
  let a0 := nth 0 a 0 in let a1 := nth 1 a 0 in let a2 := nth 2 a 0 in
  match k with
  | OAdd => rs = [sumF a]
  | OSub => rs = [subF a]
  | ONeg => rs = [opp a0]
  | OMul => rs = [fold_left mul a 1]
  | OMulAcc => rs = [a0 + a1 * a2]
  | ODiv => a1 <> 0 /\ rs = [a0 / a1]
  | ODivUnchecked => exists q, rs = [q] /\ ((a1 <> 0 /\ q = a0 / a1) \/ (a1 = 0 /\ a0 = 0))
  | OInverse => a0 <> 0 /\ rs = [inv a0]
  | OFromBinary => Forall is_bool a /\ rs = [fbvF 1%Z a]
  | OXor => is_bool a0 /\ is_bool a1 /\ rs = [a0 + a1 - (1 + 1) * a0 * a1]
  | OOr => is_bool a0 /\ is_bool a1 /\ rs = [a0 + a1 - a0 * a1]
  | OAnd => is_bool a0 /\ is_bool a1 /\ rs = [a0 * a1]
  | OSelect => is_bool a0 /\ rs = [sel a0 a1 a2]
  | OLookup2 => is_bool a0 /\ is_bool a1 /\ rs = [lk2 a0 a1 a2 (nth 3 a 0) (nth 4 a 0) (nth 5 a 0)]
  | OIsZero => rs = [isz a0]
  | OAssertEq => a0 = a1 /\ rs = []
  | OAssertDiff => a0 <> a1 /\ rs = []
  | OAssertBool => is_bool a0 /\ rs = []
  | OHint2 => exists r0 r1, rs = [r0; r1]
  | OToBinary _ | OCmp | OAssertLeq => False
  end.

Fixpoint trace_sem (prog : list op) (vs fin : list F) : Prop :=
  match prog with
  | [] => fin = vs
  | o :: prog' => exists rs, sem (fst o) (map (aval vs) (snd o)) rs /\ trace_sem prog' (vs ++ rs) fin
  end.

Lemma nth_ev w (a : list lexp) j : nth j (map (ev w) a) 0 = ev w (nth j a le_zero).
Proof. transitivity (nth j (map (ev w) a) (ev w le_zero)); [rewrite ev_le_zero; reflexivity|apply map_nth]. Qed.

Lemma ev_arg w vars a : w O = 1 -> ev w (arg_le vars a) = aval (map (ev w) vars) a.
Proof. intros G0. destruct a as [z|i]; cbn [BuilderR1CS.arg_le aval]; [apply ev_cle; exact G0|symmetry; apply nth_ev]. Qed.

Lemma ev_args w vars args : w O = 1 -> map (ev w) (map (arg_le vars) args) = map (aval (map (ev w) vars)) args.
Proof. intros G0. rewrite map_map. apply map_ext. intros a. apply ev_arg; exact G0. Qed.

Lemma fold_add_map w vs : forall x, fold_left (fun a l => a + ev w l) vs x = fold_left add (map (ev w) vs) x.
Proof. induction vs as [|v vs IH]; intros x; cbn [fold_left map]; [reflexivity|apply IH]. Qed.
Lemma fold_sub_map w vs : forall x, fold_left (fun a l => a - ev w l) vs x = fold_left sub (map (ev w) vs) x.
Proof. induction vs as [|v vs IH]; intros x; cbn [fold_left map]; [reflexivity|apply IH]. Qed.
Lemma fold_mul_map w vs : forall x, fold_left (fun a l => a * ev w l) vs x = fold_left mul (map (ev w) vs) x.
Proof. induction vs as [|v vs IH]; intros x; cbn [fold_left map]; [reflexivity|apply IH]. Qed.

Lemma sum_ev_add w vars : sum_ev w false vars = sumF (map (ev w) vars).
Proof. destruct vars as [|v vs]; [reflexivity|]. cbn [sum_ev sumF map]. apply fold_add_map. Qed.
Lemma sum_ev_sub w vars : sum_ev w true vars = subF (map (ev w) vars).
Proof. destruct vars as [|v vs]; [reflexivity|]. cbn [sum_ev subF map]. apply fold_sub_map. Qed.
Lemma prod_ev_map w vars : prod_ev w vars = fold_left mul (map (ev w) vars) 1.
Proof. apply fold_mul_map. Qed.
Lemma fbv_map w ds : forall c, fbv w c ds = fbvF c (map (ev w) ds).
Proof. induction ds as [|d ds IH]; intros c; cbn [fbv fbvF map]; [reflexivity|rewrite IH; reflexivity]. Qed.

Lemma step_sound vars st o vars' st' : b_step (vars, st) o = (vars', st') ->
  mstep st st' (fun w => exists rs, map (ev w) vars' = map (ev w) vars ++ rs /\ sem (fst o) (map (aval (map (ev w) vars)) (snd o)) rs).
Proof.
  destruct o as [k args]. unfold BuilderR1CS.b_step. cbn [fst snd].
  set (a := map (arg_le vars) args).
  assert (PUSH : forall (r : lexp) w, map (ev w) (vars ++ [r]) = map (ev w) vars ++ [ev w r]) by (intros; rewrite map_app; reflexivity).
  assert (NIL : forall w, map (ev w) vars = map (ev w) vars ++ []) by (intros; rewrite app_nil_r; reflexivity).
  destruct k.
  - (* Add *) destruct (b_add st a false) as [r st1] eqn:H. intros [= <- <-]. apply add_ok in H. cbn [fst snd].
    eapply mstep_weaken; [apply pstep_mstep; exact H|]. intros w G0 E. exists [ev w r]. split; [apply PUSH|].
    rewrite <- (ev_args w vars args G0). fold a. cbn [sem]. rewrite E, sum_ev_add. reflexivity.
  - (* Sub *) destruct (b_add st a true) as [r st1] eqn:H. intros [= <- <-]. apply add_ok in H. cbn [fst snd].
    eapply mstep_weaken; [apply pstep_mstep; exact H|]. intros w G0 E. exists [ev w r]. split; [apply PUSH|].
    rewrite <- (ev_args w vars args G0). fold a. cbn [sem]. rewrite E, sum_ev_sub. reflexivity.
  - (* Neg *) intros [= <- <-]. cbn [fst snd]. eapply mstep_weaken; [apply mstep_refl|]. intros w G0 _. eexists. split; [apply PUSH|].
    rewrite <- (ev_args w vars args G0). fold a. cbn [sem]. rewrite (neg_ok w st _ G0), nth_ev. reflexivity.
  - (* Mul *) destruct (b_mul st a) as [r st1] eqn:H. intros [= <- <-]. apply mul_ok in H. cbn [fst snd].
    eapply mstep_weaken; [apply pstep_mstep; exact H|]. intros w G0 E. exists [ev w r]. split; [apply PUSH|].
    rewrite <- (ev_args w vars args G0). fold a. cbn [sem]. rewrite E, prod_ev_map. reflexivity.
  - (* MulAcc *) destruct (b_mulacc st _ _ _) as [r st1] eqn:H. intros [= <- <-]. apply mulacc_ok in H. cbn [fst snd].
    eapply mstep_weaken; [apply pstep_mstep; exact H|]. intros w G0 E. exists [ev w r]. split; [apply PUSH|].
    rewrite <- (ev_args w vars args G0). fold a. cbn [sem]. rewrite E, !nth_ev. reflexivity.
  - (* Div *) destruct (BuilderR1CS.b_div _ _ _ _ _ _ st _ _) as [r st1] eqn:H. intros [= <- <-]. apply div_ok in H. cbn [fst snd].
    eapply mstep_weaken; [apply pstep_mstep; exact H|]. intros w G0 [NZ E]. exists [ev w r]. split; [apply PUSH|].
    rewrite <- (ev_args w vars args G0). fold a. cbn [sem]. rewrite !nth_ev, E. auto.
  - (* DivUnchecked *) destruct (BuilderR1CS.b_divunchecked _ _ _ _ _ _ st _ _) as [r st1] eqn:H. intros [= <- <-]. apply divunchecked_ok in H. cbn [fst snd].
    eapply mstep_weaken; [apply pstep_mstep; exact H|]. intros w G0 E. exists [ev w r]. split; [apply PUSH|].
    rewrite <- (ev_args w vars args G0). fold a. cbn [sem]. rewrite !nth_ev. exists (ev w r). auto.
  - (* Inverse *) destruct (BuilderR1CS.b_inverse _ _ _ _ _ st _) as [r st1] eqn:H. intros [= <- <-]. apply inverse_ok in H. cbn [fst snd].
    eapply mstep_weaken; [apply pstep_mstep; exact H|]. intros w G0 [NZ E]. exists [ev w r]. split; [apply PUSH|].
    rewrite <- (ev_args w vars args G0). fold a. cbn [sem]. rewrite !nth_ev, E. auto.
  - (* ToBinary *) intros [= <- <-]. apply pstep_mstep, perr.
  - (* FromBinary *) destruct (b_frombinary st _ _ a) as [r st1] eqn:H. intros [= <- <-]. apply frombinary_ok in H. cbn [fst snd].
    eapply mstep_weaken; [exact H|]. intros w G0 [HF E]. exists [ev w r]. split; [apply PUSH|].
    rewrite <- (ev_args w vars args G0). fold a. cbn [sem]. split; [apply Forall_map; exact HF|].
    rewrite E, (ev_cle w _ G0), cst0, fbv_map. f_equal. ring.
  - (* Xor *) destruct (b_xor st _ _) as [r st1] eqn:H. intros [= <- <-]. apply xor_ok in H. cbn [fst snd].
    eapply mstep_weaken; [exact H|]. intros w G0 (Ha & Hb & E). exists [ev w r]. split; [apply PUSH|].
    rewrite <- (ev_args w vars args G0). fold a. cbn [sem]. rewrite !nth_ev, E. auto.
  - (* Or *) destruct (b_or st _ _) as [r st1] eqn:H. intros [= <- <-]. apply or_ok in H. cbn [fst snd].
    eapply mstep_weaken; [exact H|]. intros w G0 (Ha & Hb & E). exists [ev w r]. split; [apply PUSH|].
    rewrite <- (ev_args w vars args G0). fold a. cbn [sem]. rewrite !nth_ev, E. auto.
  - (* And *) destruct (b_and st _ _) as [r st1] eqn:H. intros [= <- <-]. apply and_ok in H. cbn [fst snd].
    eapply mstep_weaken; [exact H|]. intros w G0 (Ha & Hb & E). exists [ev w r]. split; [apply PUSH|].
    rewrite <- (ev_args w vars args G0). fold a. cbn [sem]. rewrite !nth_ev, E. auto.
  - (* Select *) destruct (b_select st _ _ _) as [r st1] eqn:H. intros [= <- <-]. apply select_ok in H. cbn [fst snd].
    eapply mstep_weaken; [exact H|]. intros w G0 (Ha & E). exists [ev w r]. split; [apply PUSH|].
    rewrite <- (ev_args w vars args G0). fold a. cbn [sem]. rewrite !nth_ev, E. auto.
  - (* Lookup2 *) destruct (b_lookup2 st _ _ _ _ _ _) as [r st1] eqn:H. intros [= <- <-]. apply lookup2_ok in H. cbn [fst snd].
    eapply mstep_weaken; [exact H|]. intros w G0 (Ha & Hb & E). exists [ev w r]. split; [apply PUSH|].
    rewrite <- (ev_args w vars args G0). fold a. cbn [sem]. rewrite !nth_ev, E. auto.
  - (* IsZero *) destruct (b_iszero st _) as [r st1] eqn:H. intros [= <- <-]. apply iszero_ok in H. cbn [fst snd].
    eapply mstep_weaken; [exact H|]. intros w G0 E. exists [ev w r]. split; [apply PUSH|].
    rewrite <- (ev_args w vars args G0). fold a. cbn [sem]. rewrite !nth_ev, E. auto.
  - (* Cmp *) intros [= <- <-]. apply pstep_mstep, perr.
  - (* AssertEq *) intros [= <- <-]. eapply mstep_weaken; [apply pstep_mstep, assert_eq_ok|]. intros w G0 E. exists []. split; [apply NIL|].
    rewrite <- (ev_args w vars args G0). fold a. cbn [sem]. rewrite !nth_ev. auto.
  - (* AssertDiff *) intros [= <- <-]. eapply mstep_weaken; [apply pstep_mstep, assert_diff_ok|]. intros w G0 E. exists []. split; [apply NIL|].
    rewrite <- (ev_args w vars args G0). fold a. cbn [sem]. rewrite !nth_ev. auto.
  - (* AssertBool *) intros [= <- <-]. eapply mstep_weaken; [apply assert_bool_ok|]. intros w G0 E. exists []. split; [apply NIL|].
    rewrite <- (ev_args w vars args G0). fold a. cbn [sem]. rewrite !nth_ev. auto.
  - (* AssertLeq *) intros [= <- <-]. apply pstep_mstep, perr.
  - (* Hint2 *) destruct (b_hint st _ _ 2) as [rs st1] eqn:H. intros [= <- <-].
    pose proof H as H'. unfold BuilderR1CS.b_hint in H'. injection H' as RS _. apply hint_ext in H. destruct H as [X B].
    eapply mstep_weaken; [apply pstep_mstep; split; [exact X|split; [exact B|intros w _ _; exact I]]|].
    intros w G0 _. exists (map (ev w) rs). split; [apply map_app|]. cbn [sem]. rewrite <- RS. cbn [seq map]. eauto.
Qed.

Lemma steps_sound prog : forall vars st vars' st', fold_left b_step prog (vars, st) = (vars', st') ->
  mstep st st' (fun w => trace_sem prog (map (ev w) vars) (map (ev w) vars')).
Proof.
  induction prog as [|o prog IH]; intros vars st vars' st'; cbn [fold_left].
  - intros [= <- <-]. eapply mstep_weaken; [apply mstep_refl|]. intros w _ _. reflexivity.
  - destruct (b_step (vars, st) o) as [vars1 st1] eqn:S. intros H. apply IH in H. apply step_sound in S.
    eapply mstep_weaken; [eapply mstep_and; [exact S|exact H]|]. intros w G0 [(rs & E & SEM) T]. cbn beta in T.
    cbn [trace_sem]. exists rs. split; [exact SEM|]. rewrite <- E. exact T.
Qed.

Lemma expose_sound vars nbpub outs : forall st k,
  pstep st (b_expose vars st nbpub k outs)
    (fun w => forall j o, nth_error outs j = Some o -> ev w (nth o vars le_zero) = w (S (nbpub + (k + j)))).
Proof.
  induction outs as [|o outs IH]; intros st k; cbn [BuilderR1CS.b_expose].
  - apply pstep_refl. intros w _ j o H. destruct j; discriminate H.
  - eapply pstep_trans; [apply assert_eq_ok|apply IH|]. intros w E1 E2 j o' H. cbn beta in E1.
    destruct j as [|j]; cbn [nth_error] in H.
    + injection H as <-. rewrite E1, ev_cons, ev_nil, Nat.add_0_r. ring.
    + rewrite (E2 j o' H). f_equal. f_equal. lia.
Qed.

(* C04, soundness half, for every program over the modelled core: whenever the system emitted by
   the builder is satisfied by an assignment w (ONE wire = 1) and the builder did not panic, the
   values of the program variables under w follow the documented meaning of every call, every
   assertion of the program holds, and every exposed variable equals its public output wire. *)
Theorem compile_sound nbpub nbsec thr prog outs :
  let st := b_compile nbpub nbsec thr prog outs in
  b_err F st = false -> forall w, good w st ->
  exists fin, trace_sem prog (map (fun i => w (input_wire nbpub (length outs) i)) (seq 0 (nbpub + nbsec))) fin /\
              forall j o, nth_error outs j = Some o -> nth o fin 0 = w (S (nbpub + j)).
Proof.
  unfold BuilderR1CS.b_compile. destruct (b_init nbpub nbsec (length outs) thr) as [vars0 st0] eqn:I0.
  destruct (fold_left b_step prog (vars0, st0)) as [vars st1] eqn:S. cbn zeta.
  apply steps_sound in S. pose proof (expose_sound vars nbpub outs st1 O) as X.
  assert (M0 : marks_ok st0).
  { unfold BuilderR1CS.b_init in I0. injection I0 as _ <-. intros _ w _ l IN. destruct IN. }
  pose proof (mstep_and _ _ _ _ _ S (pstep_mstep _ _ _ X)) as [_ H]. destruct (H M0) as [_ V].
  intros E w G. destruct (V w G E) as [T O]. cbn beta in T, O. exists (map (ev w) vars). split.
  - assert (IN : map (ev w) vars0 = map (fun i => w (input_wire nbpub (length outs) i)) (seq 0 (nbpub + nbsec))).
    { unfold BuilderR1CS.b_init in I0. injection I0 as <- _. rewrite map_map. apply map_ext. intros i. rewrite ev_cons, ev_nil. ring. }
    rewrite <- IN. exact T.
  - intros j o Hj. rewrite nth_ev. apply (O j o Hj).
Qed.

(* ---------------------------------------------------------------- executable form of the documented meaning
   [semb] decides [sem] (for the free cases - DivUnchecked 0/0, hint outputs - it accepts what the given results
   make true); [trace_semb] checks a whole value trace.  Used to cross-check this field-generic statement of the
   documented meaning against the evaluator Frontend/Spec.v on the harness programs (Frontend/SemCases.v). *)
Definition isbb (x : F) : bool := feqb x 0 || feqb x 1.
Definition nres (k : opk) : nat :=
  match k with
  | OAssertEq | OAssertDiff | OAssertBool | OAssertLeq => 0
  | OHint2 => 2
  | OToBinary n => n
  | _ => 1
  end.

Definition one_resb (rs : list F) (x : F) : bool := match rs with [r] => feqb r x | _ => false end.
Definition no_resb (rs : list F) : bool := match rs with [] => true | _ => false end.

Definition semb (k : opk) (a rs : list F) : bool :=
  let a0 := nth 0 a 0 in let a1 := nth 1 a 0 in let a2 := nth 2 a 0 in
  let one_res := one_resb rs in
  let no_res := no_resb rs in
  match k with
  | OAdd => one_res (sumF a)
  | OSub => one_res (subF a)
  | ONeg => one_res (opp a0)
  | OMul => one_res (fold_left mul a 1)
  | OMulAcc => one_res (a0 + a1 * a2)
  | ODiv => negb (feqb a1 0) && one_res (a0 / a1)
  | ODivUnchecked => match rs with [q] => if feqb a1 0 then feqb a0 0 else feqb q (a0 / a1) | _ => false end
  | OInverse => negb (feqb a0 0) && one_res (inv a0)
  | OFromBinary => forallb isbb a && one_res (fbvF 1%Z a)
  | OXor => isbb a0 && isbb a1 && one_res (a0 + a1 - (1 + 1) * a0 * a1)
  | OOr => isbb a0 && isbb a1 && one_res (a0 + a1 - a0 * a1)
  | OAnd => isbb a0 && isbb a1 && one_res (a0 * a1)
  | OSelect => isbb a0 && one_res (sel a0 a1 a2)
  | OLookup2 => isbb a0 && isbb a1 && one_res (lk2 a0 a1 a2 (nth 3 a 0) (nth 4 a 0) (nth 5 a 0))
  | OIsZero => one_res (isz a0)
  | OAssertEq => feqb a0 a1 && no_res
  | OAssertDiff => negb (feqb a0 a1) && no_res
  | OAssertBool => isbb a0 && no_res
  | OHint2 => match rs with [_; _] => true | _ => false end
  | OToBinary _ | OCmp | OAssertLeq => false
  end.

Lemma isbb_sound x : isbb x = true -> is_bool x.
Proof. apply is_bool_01. Qed.

Lemma semb_sound k a rs : semb k a rs = true -> sem k a rs.
Proof.
  assert (ONE : forall x, one_resb rs x = true -> rs = [x]).
  { intros x. unfold one_resb. destruct rs as [|r [|r' rs']]; try discriminate. intros H. apply feqb_true in H. rewrite H. reflexivity. }
  assert (NO : no_resb rs = true -> rs = (@nil F)).
  { unfold no_resb. destruct rs; [reflexivity|discriminate]. }
  unfold semb, sem. destruct k; intros H;
    repeat match type of H with (_ && _) = true => let H1 := fresh "H" in apply andb_true_iff in H; destruct H as [H H1] end;
    repeat match goal with
           | X : isbb _ = true |- _ => apply isbb_sound in X
           | X : negb (feqb _ _) = true |- _ => apply negb_true_iff in X; apply feqb_false in X
           | X : feqb _ _ = true |- _ => apply feqb_true in X
           | X : no_resb rs = true |- _ => apply NO in X
           | X : one_resb rs _ = true |- _ => apply ONE in X
           end; auto.
  - (* DivUnchecked *) destruct rs as [|q [|q' rs']]; try discriminate. exists q. split; [reflexivity|].
    destruct (feqb (nth 1 a 0) 0) eqn:Z.
    + right. split; apply feqb_true; assumption.
    + left. split; [apply feqb_false; exact Z|apply feqb_true; exact H].
  - discriminate.
  - (* FromBinary *) split; [|assumption]. apply Forall_forall. intros x IN. apply isbb_sound. exact (proj1 (forallb_forall _ _) H x IN).
  - discriminate.
  - discriminate.
  - (* Hint2 *) destruct rs as [|r0 [|r1 [|r2 rs']]]; try discriminate. eauto.
Qed.

Fixpoint trace_semb (prog : list op) (vs rest : list F) : bool :=
  match prog with
  | [] => match rest with [] => true | _ => false end
  | o :: prog' =>
      let n := nres (fst o) in
      let rs := firstn n rest in
      semb (fst o) (map (aval vs) (snd o)) rs && trace_semb prog' (vs ++ rs) (skipn n rest)
  end.

Lemma trace_semb_sound prog : forall vs rest, trace_semb prog vs rest = true -> trace_sem prog vs (vs ++ rest).
Proof.
  induction prog as [|o prog IH]; intros vs rest; cbn [trace_semb trace_sem].
  - destruct rest; [intros _; apply app_nil_r|discriminate].
  - intros H. apply andb_true_iff in H. destruct H as [H1 H2]. exists (firstn (nres (fst o)) rest).
    split; [apply semb_sound; exact H1|]. apply IH in H2. rewrite <- app_assoc, firstn_skipn in H2. exact H2.
Qed.

End BP.
