(* C05 correspondence over F_47: for constraint systems dumped from the real builders, the set
   of outputs reachable by *any* satisfying assignment (verified enumerator, CS/Enum.v) must be
   exactly what the documented meaning (Frontend/Spec.v) allows, for every listed input tuple. *)
From Coq Require Import ZArith List Bool Arith.
From GnarkV Require Import Base.Res Base.Zp Base.Fp Base.F47 CS.Solver CS.SolverZp CS.Enum Frontend.Spec.
Import ListNotations.
Local Open Scope Z_scope.

Record ecase := {
  e_r1cs : bool;
  e_nbwires : nat;
  e_instrs : list (instr Z);
  e_in_wires : list nat;      (* wires of the program inputs, in program order *)
  e_out_wires : list nat;     (* wires of the exposed outputs *)
  e_prog : list op;
  e_outs : list nat;          (* exposed variable indices of the program *)
  e_expect : list (nat * nat); (* verdicts of the Go-side search that are not 0: (tuple index, code) *)
  e_inputs : list (list Z) }. (* input tuples to decide *)

Definition map_instr47 := map_instr F47 mk47.
Definition enum47 := enum F47 zero47 one47 add47 mul47 opp47 eq_dec47 elems47.
Definition satb47 := satb F47 zero47 one47 add47 mul47 opp47 eq_dec47.

Fixpoint assign (v : vals F47) (ws : list nat) (xs : list Z) : vals F47 :=
  match ws, xs with
  | w :: ws', x :: xs' => set F47 (assign v ws' xs') w (mk47 x)
  | _, _ => v
  end.

Definition init47 (is_r1cs : bool) : vals F47 :=
  if is_r1cs then set F47 (fun _ => None) O one47 else (fun _ => None).

Fixpoint zll_mem (x : list Z) (l : list (list Z)) : bool :=
  match l with [] => false | y :: l' => zlist_eqb x y || zll_mem x l' end.
Fixpoint zll_dedup (l : list (list Z)) : list (list Z) :=
  match l with [] => [] | x :: l' => if zll_mem x l' then zll_dedup l' else x :: zll_dedup l' end.

Definition proj47 (outs : list nat) (v : vals F47) : list Z :=
  map (fun o => match v o with Some y => val47 y | None => -1 end) outs.

(* verdict for one input tuple: 0 = agrees with the documented meaning,
   1 = enumerator could not handle the system, 2 = satisfiable although an assertion fails,
   3 = unsatisfiable although all assertions hold, 4 = an output other than the documented one is reachable *)
Definition decide_tuple (c : ecase) (sys : list (instr F47)) (inp : list Z) : nat :=
  let v0 := assign (init47 (e_r1cs c)) (e_in_wires c) inp in
  match enum47 (S (length sys + e_nbwires c)) v0 sys with
  | None => 1%nat
  | Some vs =>
      let reach := zll_dedup (map (proj47 (e_out_wires c)) vs) in
      let st := spec_eval 47 (e_prog c) inp in
      let want := map (fun o => nth o (s_vals st) 0) (e_outs c) in
      if s_free st then (if negb (s_ok st) || zll_mem want reach then 0 else 3)%nat
      else if s_ok st then
        match reach with
        | [] => 3%nat
        | [r] => if zlist_eqb r want then 0%nat else 4%nat
        | _ => 4%nat
        end
      else match reach with [] => 0%nat | _ => 2%nat end
  end.

(* tuples on which the verified enumerator's verdict differs from the verdict of the Go-side search *)
Definition check_ecase (c : ecase) : list (nat * nat) :=
  let sys := map map_instr47 (e_instrs c) in
  let fix go (k : nat) (ins : list (list Z)) : list (nat * nat) :=
      match ins with
      | [] => []
      | i :: rest => let d := decide_tuple c sys i in
                     let want := match find (fun e => Nat.eqb (fst e) k) (e_expect c) with Some e => snd e | None => O end in
                     if Nat.eqb d want then go (S k) rest else (k, d) :: go (S k) rest
      end in
  go O (e_inputs c).

Fixpoint ecases_mismatches (k : nat) (cs : list ecase) : list (nat * list (nat * nat)) :=
  match cs with
  | [] => []
  | c :: cs' => match check_ecase c with
                | [] => ecases_mismatches (S k) cs'
                | l => (k, firstn 3 l) :: ecases_mismatches (S k) cs'
                end
  end.
