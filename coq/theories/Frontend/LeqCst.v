From Coq Require Import ZArith Lia Field List Bool.
Import ListNotations.

Section LeqCst.
Variable F : Type.
Variables (zero one : F) (add mul sub : F -> F -> F) (opp : F -> F) (div : F -> F -> F) (inv : F -> F).
Hypothesis Fth : field_theory zero one add mul sub opp div inv (@eq F).
Add Field Ff : Fth.
Notation "0" := zero. Notation "1" := one.
Infix "+" := add. Infix "*" := mul. Infix "-" := sub.

Lemma one_neq_zero : 1 <> 0. Proof. exact (F_1_neq_0 Fth). Qed.

(* integral domain from field_theory: prove directly *)
Lemma integral x y : x * y = 0 -> x <> 0 -> y = 0.
Proof.
  intros H Hx.
  assert (E : y = inv x * (x * y)) by (field; exact Hx).
  rewrite E, H. ring.
Qed.

Definition inj (b : bool) : F := if b then 1 else 0.

(* constraints emitted by MustBeLessOrEqCst, bits listed MSB first, p = running product *)
Fixpoint leqc (p : F) (l : list (F * bool)) : Prop :=
  match l with
  | [] => True
  | (a, false) :: l' => (1 - p - a) * a = 0 /\ leqc p l'
  | (a, true) :: l' => a * (1 - a) = 0 /\ leqc (p * a) l'
  end.

Fixpoint val (l : list bool) (acc : Z) : Z :=
  match l with [] => acc | b :: l' => val l' (2 * acc + (if b then 1 else 0))%Z end.

Lemma val_lin l : forall acc, val l acc = (acc * 2 ^ Z.of_nat (length l) + val l 0)%Z.
Proof.
  induction l as [|b l IH]; intros acc; cbn [val length].
  - rewrite Z.pow_0_r. lia.
  - rewrite IH. rewrite (IH (2*0 + _)%Z). rewrite Nat2Z.inj_succ, Z.pow_succ_r by lia. lia.
Qed.

Lemma val_bound l : (0 <= val l 0 < 2 ^ Z.of_nat (length l))%Z.
Proof.
  induction l as [|b l IH]; cbn [val length].
  - rewrite Z.pow_0_r. lia.
  - rewrite val_lin. rewrite Nat2Z.inj_succ, Z.pow_succ_r by lia. destruct b; lia.
Qed.

Hypothesis eq_dec : forall x y : F, {x = y} + {x <> y}.

Lemma bool_cases a : a * (1 - a) = 0 -> a = 0 \/ a = 1.
Proof.
  intros H. destruct (eq_dec a 0) as [E|NE]; [left; exact E|right].
  apply integral in H; [|exact NE].
  assert (a = 1 - (1 - a)) as -> by ring. rewrite H. ring.
Qed.

(* main lemma: p is 1 (prefix equal so far) or 0 (already strictly below) *)
Lemma leqc_spec : forall l (bsA : list bool) accA accC,
  forall pb : bool,
  (pb = true -> accA = accC) -> (pb = false -> (accA < accC)%Z) ->
  (leqc (inj pb) l <->
   exists bs, map fst l = map inj bs /\
     (val bs accA <= val (map snd l) accC)%Z).
Proof.
  induction l as [|[a c] l IH]; intros _ accA accC pb Heq Hlt.
  - cbn. split.
    + intros _. exists []. split; [reflexivity|]. cbn. destruct pb; [rewrite Heq; auto; lia|specialize (Hlt eq_refl); lia].
    + auto.
  - cbn [leqc map fst snd]. destruct c.
    + (* bound bit = 1 *)
      split.
      * intros [Hb Hrest]. apply bool_cases in Hb. destruct Hb as [-> | ->].
        -- (* a = 0 : strictly below from now on *)
           assert (Hp : inj pb * 0 = inj false) by (cbn; ring). rewrite Hp in Hrest.
           apply (IH [] (2*accA+0)%Z (2*accC+1)%Z false) in Hrest.
           ++ destruct Hrest as [bs [Hm Hv]]. exists (false :: bs). split; [cbn; f_equal; exact Hm|]. cbn [val]. exact Hv.
           ++ discriminate.
           ++ intros _. destruct pb; [rewrite (Heq eq_refl)|specialize (Hlt eq_refl)]; lia.
        -- assert (Hp : inj pb * 1 = inj pb) by ring. rewrite Hp in Hrest.
           apply (IH [] (2*accA+1)%Z (2*accC+1)%Z pb) in Hrest.
           ++ destruct Hrest as [bs [Hm Hv]]. exists (true :: bs). split; [cbn; f_equal; exact Hm|]. cbn [val]. exact Hv.
           ++ intros E. rewrite (Heq E). reflexivity.
           ++ intros E. specialize (Hlt E). lia.
      * intros [bs [Hm Hv]]. destruct bs as [|b bs]; [discriminate|]. cbn in Hm. injection Hm as Ha Hm. subst a.
        split; [destruct b; cbn; ring|].
        destruct b.
        -- assert (Hp : inj pb * inj true = inj pb) by (cbn; ring). rewrite Hp.
           apply (IH [] (2*accA+1)%Z (2*accC+1)%Z pb).
           ++ intros E. rewrite (Heq E). reflexivity.
           ++ intros E. specialize (Hlt E). lia.
           ++ exists bs. split; [exact Hm|exact Hv].
        -- assert (Hp : inj pb * inj false = inj false) by (cbn; ring). rewrite Hp.
           apply (IH [] (2*accA+0)%Z (2*accC+1)%Z false).
           ++ discriminate.
           ++ intros _. destruct pb; [rewrite (Heq eq_refl)|specialize (Hlt eq_refl)]; lia.
           ++ exists bs. split; [exact Hm|exact Hv].
    + (* bound bit = 0 *)
      destruct pb.
      * (* prefix equal: a must be 0 *)
        split.
        -- intros [Hb Hrest]. cbn [inj] in Hb.
           assert (Ha : a = 0).
           { destruct (eq_dec a 0) as [E|NE]; [exact E|].
             assert (H2 : a * (1 - 1 - a) = 0) by (rewrite <- Hb; ring).
             apply integral in H2; [|exact NE]. assert (a = 0 - (1 - 1 - a)) as -> by ring. rewrite H2. ring. }
           subst a.
           apply (IH [] (2*accA+0)%Z (2*accC+0)%Z true) in Hrest.
           ++ destruct Hrest as [bs [Hm Hv]]. exists (false :: bs). split; [cbn; f_equal; exact Hm|exact Hv].
           ++ intros _. rewrite (Heq eq_refl). reflexivity.
           ++ discriminate.
        -- intros [bs [Hm Hv]]. destruct bs as [|b bs]; [discriminate|]. cbn in Hm. injection Hm as Ha Hm. subst a.
           destruct b.
           ++ (* a = 1 with equal prefix and bound bit 0: value exceeds the bound *)
              exfalso. cbn [val map snd] in Hv. rewrite (Heq eq_refl) in Hv.
              rewrite (val_lin bs), (val_lin (map snd l)) in Hv.
              pose proof (val_bound bs). pose proof (val_bound (map snd l)).
              assert (length bs = length (map snd l)).
              { rewrite map_length. apply (f_equal (@length F)) in Hm. rewrite !map_length in Hm. symmetry; exact Hm. }
              rewrite H1 in *. nia.
           ++ split; [cbn; ring|].
              apply (IH [] (2*accA+0)%Z (2*accC+0)%Z true).
              ** intros _. rewrite (Heq eq_refl). reflexivity.
              ** discriminate.
              ** exists bs. split; [exact Hm|exact Hv].
      * (* already strictly below: a only needs to be boolean *)
        split.
        -- intros [Hb Hrest]. cbn [inj] in Hb.
           assert (Hb' : a * (1 - a) = 0) by (rewrite <- Hb; ring).
           apply bool_cases in Hb'.
           specialize (Hlt eq_refl).
           destruct Hb' as [-> | ->].
           ++ apply (IH [] (2*accA+0)%Z (2*accC+0)%Z false) in Hrest; [|discriminate|intros _; lia].
              destruct Hrest as [bs [Hm Hv]]. exists (false :: bs). split; [cbn; f_equal; exact Hm|exact Hv].
           ++ apply (IH [] (2*accA+1)%Z (2*accC+0)%Z false) in Hrest; [|discriminate|intros _; lia].
              destruct Hrest as [bs [Hm Hv]]. exists (true :: bs). split; [cbn; f_equal; exact Hm|exact Hv].
        -- intros [bs [Hm Hv]]. destruct bs as [|b bs]; [discriminate|]. cbn in Hm. injection Hm as Ha Hm. subst a.
           specialize (Hlt eq_refl).
           split; [destruct b; cbn; ring|].
           destruct b.
           ++ apply (IH [] (2*accA+1)%Z (2*accC+0)%Z false); [discriminate|intros _; lia|].
              exists bs. split; [exact Hm|exact Hv].
           ++ apply (IH [] (2*accA+0)%Z (2*accC+0)%Z false); [discriminate|intros _; lia|].
              exists bs. split; [exact Hm|exact Hv].
Qed.

Theorem leq_cst_rel (l : list (F * bool)) :
  leqc 1 l <-> exists bs, map fst l = map inj bs /\ (val bs 0 <= val (map snd l) 0)%Z.
Proof. apply (leqc_spec l [] 0%Z 0%Z true); [reflexivity|discriminate]. Qed.
End LeqCst.
