(* The bit-level calls of the R1CS builder, transcribed on top of Frontend/BuilderR1CS.v:

     ToBinary             std/math/bits/conversion_binary.go toBinary (hint nBits, recomposition,
                          boolean digits, reducedness check against q-1 at full width, padding)
     MustBeLessOrEqCst    frontend/cs/r1cs/api_assertions.go (running products p[i], one row per
                          zero bit of the bound, boolean assertion per one bit)
     AssertIsLessOrEqual  constant bound -> ToBinary (unconstrained outputs) + MustBeLessOrEqCst;
                          variable bound -> mustBeLessOrEqVar
     Cmp                  two full decompositions + the IsZero / And / Select cascade

   These calls are outside the fragment for which compile_sound / compile_complete are proved (their
   meaning refers to the integer representative of a field element; the constraint patterns have
   their own field-generic lemmas in Frontend/LeqCst.v and are decided by the verified enumerator
   over F_47, C05); they are tied to the code the same way: the system [b_compile_ext] emits must be
   the system the real builder emits (BuilderCases.v).  [b_step_ext] delegates every other call to
   [b_step]. *)
From Coq Require Import Arith List Bool ZArith.
From GnarkV Require Import CS.Solver Frontend.Spec Frontend.BuilderR1CS.
Import ListNotations.

Section Bits.
Variable F : Type.
Variables (zero one : F) (add mul sub : F -> F -> F) (opp : F -> F) (inv : F -> F).
Variable eq_dec : forall x y : F, {x = y} + {x <> y}.
Variable cst : Z -> F.
Variable fbl : nat.     (* FieldBitLen *)
Variable qm1 : Z.       (* modulus - 1 *)
Variable toZ : F -> Z.  (* the canonical integer representative (used for constants only) *)

Notation lexp := (lexp F).
Notation bstate := (bstate F).
Notation cle := (cle F).
Notation le_one := (le_one F one).
Notation le_zero := (le_zero F zero).
Notation b_add := (b_add F zero one add opp eq_dec).
Notation b_mul := (b_mul F zero one mul eq_dec).
Notation b_assert_bool := (b_assert_bool F zero one add opp eq_dec).
Notation b_assert_eq := (b_assert_eq F zero one eq_dec).
Notation b_select := (b_select F zero one add mul sub opp eq_dec).
Notation b_iszero := (b_iszero F zero one add opp eq_dec cst).
Notation b_and := (b_and F zero one add mul opp eq_dec).
Notation is_const := (is_const F zero eq_dec).

Definition hid_nbits : nat := 2.

(* the recomposition loop of toBinary *)
Fixpoint tb_loop (st : bstate) (sigma : lexp) (c : Z) (bits : list lexp) (constrained : bool) : lexp * bstate :=
  match bits with
  | [] => (sigma, st)
  | b :: bs =>
      let '(m, st1) := b_mul st [b; cle (cst c)] in
      let '(s', st2) := b_add st1 [sigma; m] false in
      let st3 := if constrained then b_assert_bool st2 b else st2 in
      tb_loop st3 s' (2 * c)%Z bs constrained
  end.

Fixpoint assoc (i : nat) (l : list (nat * lexp)) : lexp :=
  match l with [] => le_zero | (j, x) :: l' => if Nat.eqb i j then x else assoc i l' end.

Fixpoint trailing_ones (bound : Z) (i n : nat) : nat :=
  match n with O => O | S n' => if Z.testbit bound (Z.of_nat i) then S (trailing_ones bound (S i) n') else O end.

Fixpoint p_loop (st : bstate) (bound : Z) (idxs : list nat) (pnext : lexp) (abits : list lexp) (acc : list (nat * lexp))
  : list (nat * lexp) * bstate :=
  match idxs with
  | [] => (acc, st)
  | i :: is =>
      if Z.testbit bound (Z.of_nat i) then
        let '(p, st1) := b_mul st [pnext; nth i abits le_zero] in p_loop st1 bound is p abits ((i, p) :: acc)
      else p_loop st bound is pnext abits ((i, pnext) :: acc)
  end.

Fixpoint leq_rows (st : bstate) (bound : Z) (idxs : list nat) (ps : list (nat * lexp)) (abits : list lexp) : bstate :=
  match idxs with
  | [] => st
  | i :: is =>
      let ai := nth i abits le_zero in
      if Z.testbit bound (Z.of_nat i) then leq_rows (b_assert_bool st ai) bound is ps abits
      else
        let '(l1, st1) := b_add st [cle (cst 1); assoc (S i) ps] true in
        let '(l, st2) := b_add st1 [l1; ai] true in
        leq_rows (b_row F st2 l ai le_zero) bound is ps abits
  end.

Definition pad_bits (abits : list lexp) : list lexp :=
  abits ++ repeat (cle (cst 0)) (fbl - length abits).

Definition b_leq_cst (st : bstate) (abits : list lexp) (bound : Z) : bstate :=
  if Nat.ltb fbl (length abits) then set_err F st
  else if (bound <? 0)%Z || (Z.of_nat fbl <? Z.log2 bound + 1)%Z && negb (bound =? 0)%Z then set_err F st
  else
    let abits := pad_bits abits in
    let t := trailing_ones bound O fbl in
    let '(ps, st1) := p_loop st bound (rev (seq t (fbl - t))) le_one abits [(fbl, le_one)] in
    leq_rows st1 bound (rev (seq 0 fbl)) ps abits.

(* toBinary with options (number of digits, unconstrained outputs, omitted modulus check) *)
Definition b_tobinary (st : bstate) (v : lexp) (n : nat) (unconstrained omit : bool) : list lexp * bstate :=
  let omit := omit || Nat.ltb n fbl in
  if Nat.eqb n 1 then ([v], b_assert_bool st v)
  else
    let n' := Nat.min n fbl in
    if Nat.eqb n' O then ([], set_err F st)
    else
      let '(bits, st1) := b_hint F one st hid_nbits [v] n' in
      let '(sigma, st2) := tb_loop st1 (cle (cst 0)) 1%Z bits (negb unconstrained) in
      let st3 := b_assert_eq st2 sigma v in
      let st4 := if omit then st3 else b_leq_cst st3 bits qm1 in
      (bits ++ repeat (cle (cst 0)) (n - n'), st4).

Fixpoint leq_var_loop (st : bstate) (idxs : list nat) (pnext : lexp) (abits bbits : list lexp) : bstate :=
  match idxs with
  | [] => st
  | i :: is =>
      let ai := nth i abits le_zero in let bi := nth i bbits le_zero in
      let '(v, st1) := b_mul st [pnext; ai] in
      let '(p, st2) := b_select st1 bi v pnext in
      let '(t, st3) := b_select st2 bi le_zero pnext in
      let '(l, st4) := b_add st3 [le_one; t; ai] true in
      let '(r, st5) := b_mul st4 [ai; le_one] in
      leq_var_loop (b_row F st5 l r le_zero) is p abits bbits
  end.

Definition b_assert_leq (st : bstate) (v bound : lexp) : bstate :=
  let st0 := match is_const v, is_const bound with
             | Some cv, Some cb => if (toZ cb <? toZ cv)%Z then set_err F st else st
             | _, _ => st
             end in
  match is_const bound with
  | Some cb =>
      let '(vbits, st1) := b_tobinary st0 v fbl true false in
      b_leq_cst st1 vbits (toZ cb)
  | None =>
      let '(abits, st1) := b_tobinary st0 v fbl true true in
      let '(bbits, st2) := b_tobinary st1 bound fbl false false in
      leq_var_loop st2 (rev (seq 0 fbl)) le_one abits bbits
  end.

Fixpoint cmp_loop (st : bstate) (idxs : list nat) (res : lexp) (b1 b2 : list lexp) : lexp * bstate :=
  match idxs with
  | [] => (res, st)
  | i :: is =>
      let x1 := nth i b1 le_zero in let x2 := nth i b2 le_zero in
      let '(z1, s1) := b_iszero st x1 in
      let '(z2, s2) := b_iszero s1 x2 in
      let '(i1i2, s3) := b_and s2 x1 z2 in
      let '(i2i1, s4) := b_and s3 x2 z1 in
      let '(n, s5) := b_select s4 i2i1 (cle (cst (-1))) (cle (cst 0)) in
      let '(m, s6) := b_select s5 i1i2 (cle (cst 1)) n in
      let '(zr, s7) := b_iszero s6 res in
      let '(res', s8) := b_select s7 zr m res in
      cmp_loop s8 is res' b1 b2
  end.

Definition b_cmp (st : bstate) (i1 i2 : lexp) : lexp * bstate :=
  let '(b1, st1) := b_tobinary st i1 fbl false false in
  let '(b2, st2) := b_tobinary st1 i2 fbl false false in
  cmp_loop st2 (rev (seq 0 fbl)) le_zero b1 b2.

Notation b_step := (b_step F zero one add mul sub opp inv eq_dec cst).

Definition b_step_ext (s : list lexp * bstate) (o : op) : list lexp * bstate :=
  let '(vars, st) := s in
  let a := map (arg_le F zero cst vars) (snd o) in
  let a0 := nth 0 a le_zero in let a1 := nth 1 a le_zero in
  match fst o with
  | OToBinary n => let '(bits, st1) := b_tobinary st a0 n false false in (vars ++ bits, st1)
  | OCmp => let '(r, st1) := b_cmp st a0 a1 in (vars ++ [r], st1)
  | OAssertLeq => (vars, b_assert_leq st a0 a1)
  | _ => b_step s o
  end.

Definition b_compile_ext (nbpub nbsec thr : nat) (prog : list op) (outs : list nat) : bstate :=
  let '(vars, st) := fold_left b_step_ext prog (b_init F one nbpub nbsec (length outs) thr) in
  b_expose F zero one eq_dec vars st nbpub O outs.

(* on programs without bit-level calls the extended compiler is the one the theorems are about *)
Lemma b_step_ext_core s o : core_op (fst o) = true -> b_step_ext s o = b_step s o.
Proof. destruct s as [vars st], o as [k args]. cbn [fst]. destruct k; cbn; intros H; try reflexivity; discriminate H. Qed.

Lemma b_compile_ext_core nbpub nbsec thr prog outs :
  forallb (fun o : op => core_op (fst o)) prog = true ->
  b_compile_ext nbpub nbsec thr prog outs = b_compile F zero one add mul sub opp inv eq_dec cst nbpub nbsec thr prog outs.
Proof.
  intros H. unfold b_compile_ext, b_compile. f_equal.
  generalize (b_init F one nbpub nbsec (length outs) thr). induction prog as [|o prog IH]; intros s; [reflexivity|].
  cbn [forallb] in H. apply andb_true_iff in H. destruct H as [H1 H2]. cbn [fold_left]. rewrite (b_step_ext_core s o H1). apply IH. exact H2.
Qed.

End Bits.
