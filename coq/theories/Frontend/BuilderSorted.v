(* The linear expressions the builder model produces are strictly sorted by wire id: the
   precondition "the frontend only builds linear expressions that are sorted" under which the
   k-way heap merge of builder.add computes what [merge_les] computes. *)
From Coq Require Import Arith List Bool Sorted Lia.
From GnarkV Require Import CS.Solver Frontend.BuilderR1CS.
Import ListNotations.

Section Sorted.
Variable F : Type.
Variables (zero one : F) (add mul sub : F -> F -> F) (opp : F -> F) (inv : F -> F).
Variable eq_dec : forall x y : F, {x = y} + {x <> y}.
Variable cst : BinNums.Z -> F.
Notation lexp := (lexp F).

Definition wires (l : lexp) : list nat := map snd l.
Definition ssorted (l : lexp) : Prop := StronglySorted lt (wires l).

Lemma ins_term_wires c x l y : In y (wires (ins_term F add c x l)) -> y = x \/ In y (wires l).
Proof.
  induction l as [|[c' x'] l IH]; cbn [ins_term].
  - cbn. intros [H|[]]; auto.
  - destruct (Nat.ltb x x') eqn:E1; [cbn; intros [H|H]; auto|].
    destruct (Nat.eqb x x') eqn:E2; [cbn; intros [H|H]; auto|].
    cbn. intros [H|H]; [auto|]. destruct (IH H); auto.
Qed.

Lemma ins_term_sorted c x l : ssorted l -> ssorted (ins_term F add c x l).
Proof.
  unfold ssorted. induction l as [|[c' x'] l IH]; cbn [ins_term]; intros S.
  - cbn. constructor; constructor.
  - destruct (Nat.ltb x x') eqn:E1.
    + apply Nat.ltb_lt in E1. cbn. constructor; [exact S|]. cbn in S. inversion S as [|a b S' Fa]; subst.
      constructor; [exact E1|]. eapply Forall_impl; [|exact Fa]. intros z Hz. cbn in Hz. lia.
    + destruct (Nat.eqb x x') eqn:E2; [exact S|].
      apply Nat.ltb_ge in E1. apply Nat.eqb_neq in E2. cbn in S. inversion S as [|a b S' Fa]; subst.
      cbn. constructor; [apply IH; exact S'|]. apply Forall_forall. intros y Hy.
      apply ins_term_wires in Hy. destruct Hy as [->|Hy]; [lia|]. exact (proj1 (Forall_forall _ _) Fa y Hy).
Qed.

Lemma ins_le_sorted ng l : forall acc, ssorted acc -> ssorted (ins_le F zero add opp eq_dec ng l acc).
Proof.
  unfold ins_le. induction l as [|t l IH]; intros acc S; cbn [fold_left]; [exact S|].
  apply IH. destruct (feqb F eq_dec (fst t) zero); [exact S|apply ins_term_sorted; exact S].
Qed.

Lemma filter_sorted (f : term F -> bool) l : ssorted l -> ssorted (filter f l).
Proof.
  unfold ssorted. induction l as [|t l IH]; cbn [filter]; intros S; [exact S|].
  cbn in S. inversion S as [|a b S' Fa]; subst. destruct (f t); [|apply IH; exact S'].
  cbn. constructor; [apply IH; exact S'|]. apply Forall_forall. intros y Hy.
  unfold wires in Hy. apply in_map_iff in Hy. destruct Hy as (u & <- & Hu). apply filter_In in Hu.
  apply (proj1 (Forall_forall _ _) Fa). apply in_map. apply Hu.
Qed.

(* whatever the operands, the result of builder.add's merge is strictly sorted by wire id *)
Theorem merge_sorted vars sb : ssorted (merge_les F zero add opp eq_dec vars sb).
Proof.
  unfold merge_les.
  set (acc := match vars with [] => [] | v :: vs => fold_left (fun a l => ins_le F zero add opp eq_dec sb l a) vs (ins_le F zero add opp eq_dec false v []) end).
  assert (SA : ssorted acc).
  { subst acc. destruct vars as [|v vs]; [constructor|].
    assert (G : forall a0, ssorted a0 -> ssorted (fold_left (fun a l => ins_le F zero add opp eq_dec sb l a) vs a0)).
    { induction vs as [|u vs IH]; intros a0 S; cbn [fold_left]; [exact S|]. apply IH. apply ins_le_sorted. exact S. }
    apply G. apply ins_le_sorted. constructor. }
  pose proof (filter_sorted (fun t : term F => negb (feqb F eq_dec (fst t) zero)) acc SA) as SF.
  destruct (filter _ acc); [repeat constructor|exact SF].
Qed.

(* coefficient maps keep the order *)
Lemma scale_sorted l k : ssorted l -> ssorted (scale F mul l k).
Proof. unfold ssorted, wires, scale. rewrite map_map. cbn. intros S. exact S. Qed.
Lemma neg_sorted l : ssorted l -> ssorted (neg_le F opp l).
Proof. unfold ssorted, wires, neg_le. rewrite map_map. cbn. intros S. exact S. Qed.


(* ---------------------------------------------------------------- every program variable is sorted *)
Notation b_newvar := (b_newvar F one).
Notation b_add := (b_add F zero one add opp eq_dec).
Notation b_mul2 := (b_mul2 F zero one mul eq_dec).
Notation b_mul_list := (b_mul_list F zero one mul eq_dec).
Notation b_mul := (b_mul F zero one mul eq_dec).
Notation b_step := (b_step F zero one add mul sub opp inv eq_dec cst).

Lemma single_sorted c x : ssorted [(c, x)].
Proof. repeat constructor. Qed.
Lemma newvar_sorted st r st' : b_newvar st = (r, st') -> ssorted r.
Proof. unfold BuilderR1CS.b_newvar. intros [= <- _]. apply single_sorted. Qed.

Lemma add_sorted st vars sb r st' : b_add st vars sb = (r, st') -> ssorted r.
Proof.
  unfold BuilderR1CS.b_add, b_compress. destruct (_ || _); [intros [= <- _]; apply merge_sorted|].
  destruct (b_newvar st) as [t st1] eqn:N. intros [= <- _]. eapply newvar_sorted; exact N.
Qed.

Lemma mul2_sorted st v1 v2 r st' : ssorted v1 -> ssorted v2 -> b_mul2 st v1 v2 = (r, st') -> ssorted r.
Proof.
  intros S1 S2. unfold BuilderR1CS.b_mul2. destruct (is_const F zero eq_dec v1), (is_const F zero eq_dec v2).
  - intros [= <- _]. apply single_sorted.
  - intros [= <- _]. apply scale_sorted; exact S2.
  - intros [= <- _]. apply scale_sorted; exact S1.
  - destruct (b_newvar st) as [t st1] eqn:N. intros [= <- _]. eapply newvar_sorted; exact N.
Qed.

Lemma mul_list_sorted vs : forall st acc r st', ssorted acc -> Forall ssorted vs -> b_mul_list st acc vs = (r, st') -> ssorted r.
Proof.
  induction vs as [|v vs IH]; intros st acc r st' SA SV; cbn [BuilderR1CS.b_mul_list]; [intros [= <- _]; exact SA|].
  inversion SV as [|a b Sv SV']; subst. destruct (b_mul2 st acc v) as [r1 st1] eqn:M. intros H.
  eapply IH; [eapply mul2_sorted; [exact SA|exact Sv|exact M]|exact SV'|exact H].
Qed.

Lemma mul_sorted st vars r st' : Forall ssorted vars -> b_mul st vars = (r, st') -> ssorted r.
Proof.
  intros SV. unfold BuilderR1CS.b_mul. destruct vars as [|v1 [|v2 vs]]; try (intros [= <- _]; apply single_sorted).
  inversion SV as [|a b S1 SV1]; subst. inversion SV1 as [|a b S2 SV2]; subst.
  destruct (b_mul2 st v1 v2) as [r1 st1] eqn:M. intros H.
  eapply mul_list_sorted; [eapply mul2_sorted; [exact S1|exact S2|exact M]|exact SV2|exact H].
Qed.

Lemma add_sorted_fst st vars sb : ssorted (fst (b_add st vars sb)).
Proof. destruct (b_add st vars sb) as [r s1] eqn:E. eapply add_sorted; exact E. Qed.
Lemma mul_sorted_fst st vars : Forall ssorted vars -> ssorted (fst (b_mul st vars)).
Proof. intros SV. destruct (b_mul st vars) as [r s1] eqn:E. eapply mul_sorted; [exact SV|exact E]. Qed.

Lemma neg_b_sorted st v : ssorted v -> ssorted (b_neg F zero opp eq_dec st v).
Proof. intros S. unfold b_neg. destruct (is_const F zero eq_dec v); [apply single_sorted|apply neg_sorted; exact S]. Qed.

Lemma nth_sorted vars i : Forall ssorted vars -> ssorted (nth i vars (le_zero F zero)).
Proof.
  intros SV. destruct (Nat.lt_ge_cases i (length vars)) as [L|L].
  - apply (proj1 (Forall_forall _ _) SV). apply nth_In. exact L.
  - rewrite nth_overflow by exact L. apply single_sorted.
Qed.

Lemma arg_sorted vars a : Forall ssorted vars -> ssorted (arg_le F zero cst vars a).
Proof. intros SV. destruct a; cbn [arg_le]; [apply single_sorted|apply nth_sorted; exact SV]. Qed.

Lemma hint_sorted st hid ins n rs st' : b_hint F one st hid ins n = (rs, st') -> Forall ssorted rs.
Proof. unfold b_hint. intros [= <- _]. apply Forall_forall. intros l IN. apply in_map_iff in IN. destruct IN as (k & <- & _). apply single_sorted. Qed.

Ltac pairs :=
  repeat match goal with
         | |- context [match ?e with pair _ _ => _ end] => let r := fresh "r" in let s := fresh "s" in let E := fresh "E" in destruct e as [r s] eqn:E
         end.

Lemma frombinary_sorted ds : forall st acc c r st', ssorted acc ->
  b_frombinary F zero one add mul opp eq_dec cst st acc c ds = (r, st') -> ssorted r.
Proof.
  induction ds as [|d ds IH]; intros st acc c r st' SA; cbn [b_frombinary]; [intros [= <- _]; exact SA|].
  pairs. intros H. match goal with E : BuilderR1CS.b_add _ _ _ _ _ _ _ _ _ = _ |- _ => eapply IH; [eapply add_sorted; exact E|exact H] end.
Qed.

(* the invariant: every variable of the program is a strictly sorted linear expression *)
Theorem step_sorted vars st o vars' st' :
  Forall ssorted vars -> b_step (vars, st) o = (vars', st') -> Forall ssorted vars'.
Proof.
  intros SV. destruct o as [k args]. unfold BuilderR1CS.b_step. cbn [fst snd].
  set (a := map (arg_le F zero cst vars) args).
  assert (SA : Forall ssorted a).
  { subst a. apply Forall_forall. intros l IN. apply in_map_iff in IN. destruct IN as (x & <- & _). apply arg_sorted; exact SV. }
  assert (SN : forall j, ssorted (nth j a (le_zero F zero))) by (intros j; apply nth_sorted; exact SA).
  assert (PUSH : forall r, ssorted r -> Forall ssorted (vars ++ [r])).
  { intros r S. apply Forall_app. split; [exact SV|constructor; [exact S|constructor]]. }
  destruct k; try (intros [= <- _]; exact SV).
  - destruct (b_add st a false) as [r s1] eqn:E. intros [= <- _]. apply PUSH. eapply add_sorted; exact E.
  - destruct (b_add st a true) as [r s1] eqn:E. intros [= <- _]. apply PUSH. eapply add_sorted; exact E.
  - intros [= <- _]. apply PUSH. apply neg_b_sorted. apply SN.
  - destruct (b_mul st a) as [r s1] eqn:E. intros [= <- _]. apply PUSH. eapply mul_sorted; [exact SA|exact E].
  - unfold b_mulacc. pairs. intros [= <- _]. apply PUSH. apply add_sorted_fst.
  - unfold b_div. destruct (is_const F zero eq_dec _) as [n2|]; [destruct (feqb F eq_dec n2 zero); [|destruct (is_const F zero eq_dec _)]|pairs];
      intros [= <- _]; apply PUSH; cbn [fst]; try apply single_sorted; try (apply scale_sorted; apply SN).
    eapply newvar_sorted; eassumption.
  - unfold b_divunchecked. destruct (is_const F zero eq_dec _) as [n2|]; [destruct (feqb F eq_dec n2 zero); [|destruct (is_const F zero eq_dec _)]|pairs];
      intros [= <- _]; apply PUSH; cbn [fst]; try apply single_sorted; try (apply scale_sorted; apply SN).
    eapply newvar_sorted; eassumption.
  - unfold b_inverse. destruct (is_const F zero eq_dec _) as [c|]; [destruct (feqb F eq_dec c zero)|pairs];
      intros [= <- _]; apply PUSH; cbn [fst]; try apply single_sorted. eapply newvar_sorted; eassumption.
  - destruct a as [|a0' a'] eqn:EA; [intros [= <- _]; exact SV|]. rewrite <- EA.
    destruct (b_frombinary F zero one add mul opp eq_dec cst st _ _ a) as [r s1] eqn:E. intros [= <- _]. apply PUSH. cbn [fst].
    eapply frombinary_sorted; [apply single_sorted|exact E].
  - unfold b_xor. pairs. intros [= <- _]. apply PUSH. cbn [fst]. eapply add_sorted; eassumption.
  - unfold b_or. pairs. intros [= <- _]. apply PUSH. cbn [fst]. eapply newvar_sorted; eassumption.
  - unfold b_and. pairs. intros [= <- _]. apply PUSH. cbn [fst]. eapply mul_sorted; [|eassumption]. repeat constructor; apply SN.
  - unfold b_select. destruct (is_const F zero eq_dec (nth 0 a (le_zero F zero))) as [c|].
    + destruct (feqb F eq_dec c one); intros [= <- _]; apply PUSH; cbn [fst]; apply SN.
    + destruct (is_const F zero eq_dec (nth 1 a (le_zero F zero))) as [n1|]; destruct (is_const F zero eq_dec (nth 2 a (le_zero F zero))) as [n2|];
        try destruct (feqb F eq_dec n1 zero); pairs; intros [= <- _]; apply PUSH; cbn [fst];
        first [apply add_sorted_fst
              | apply mul_sorted_fst; repeat constructor; first [apply SN | eapply add_sorted; eassumption]
              | pairs; cbn [fst]; eapply mul2_sorted; [| |eassumption]; first [apply SN | eapply add_sorted; eassumption]].
  - unfold b_lookup2. destruct (is_const F zero eq_dec (nth 0 a (le_zero F zero))) as [c0|]; [destruct (is_const F zero eq_dec (nth 1 a (le_zero F zero))) as [c1|]|].
    + intros [= <- _]. apply PUSH. cbn [fst].
      destruct (negb _ && negb _); [apply SN|]. destruct (_ && negb _); [apply SN|]. destruct (_ && _); apply SN.
    + pairs. intros [= <- _]. apply PUSH. apply add_sorted_fst.
    + pairs. intros [= <- _]. apply PUSH. apply add_sorted_fst.
  - unfold b_iszero. destruct (is_const F zero eq_dec _) as [c|].
    + destruct (feqb F eq_dec c zero); intros [= <- _]; apply PUSH; apply single_sorted.
    + pairs. intros [= <- _]. apply PUSH. cbn [fst]. eapply newvar_sorted; eassumption.
  - destruct (b_hint F one st _ _ 2) as [rs s1] eqn:E. intros [= <- _]. apply Forall_app. split; [exact SV|eapply hint_sorted; exact E].
Qed.

End Sorted.
