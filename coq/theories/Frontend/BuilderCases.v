(* C04 tie of the builder model to the code: for a generated program the system emitted by the
   Gallina builder (Frontend/BuilderR1CS.v, evaluated at Z mod p) must be, instruction by
   instruction, the system the real R1CS builder emitted (dumped by the harness through the
   instruction iterator): same rows, same linear expressions (wire ids and coefficients), same
   hint instructions (inputs, output wires), same number of wires; and the model raises its
   compile-time panic flag exactly when the real builder panicked. *)
From Coq Require Import ZArith List Bool Arith.
From GnarkV Require Import Base.Zp CS.Solver Frontend.Spec Frontend.BuilderR1CS Frontend.BuilderR1CSBits.
Import ListNotations.
Local Open Scope Z_scope.

(* the compiler with the bit-level calls (BuilderR1CSBits.v); on programs inside the core it is b_compile
   (b_compile_ext_core), the function compile_sound / compile_complete are about *)
Definition zb_compile (p : Z) :=
  b_compile_ext Z 0 (1 mod p) (addp p) (mulp p) (subp p) (oppp p) (invp p) Z.eq_dec (fun z => z mod p)
    (Z.to_nat (Z.log2 p + 1)) (p - 1) (fun z => z).

(* (modulus, nbpub, nbsec, threshold, program, outs, compiled without panic, nb wires, dumped instructions) *)
Definition bcase := (Z * nat * nat * nat * list op * list nat * bool * nat * list (instr Z))%type.

Definition zle_eqb (a b : lexp Z) : bool :=
  (fix go (a b : lexp Z) := match a, b with
     | [], [] => true
     | (c, x) :: a', (d, y) :: b' => (c =? d) && Nat.eqb x y && go a' b'
     | _, _ => false end) a b.

Definition canon_h (t : hterm Z) : hterm Z :=
  match snd t with Some O => (fst t, None) | _ => t end.
Definition hterm_eqb (s t : hterm Z) : bool :=
  let '(c, x) := canon_h s in let '(d, y) := canon_h t in
  (c =? d) && match x, y with None, None => true | Some i, Some j => Nat.eqb i j | _, _ => false end.
Fixpoint list_eqb {A} (e : A -> A -> bool) (a b : list A) : bool :=
  match a, b with [], [] => true | x :: a', y :: b' => e x y && list_eqb e a' b' | _, _ => false end.

Definition instr_eqb (i j : instr Z) : bool :=
  match i, j with
  | IR1C _ c l r o, IR1C _ c' l' r' o' => Nat.eqb c c' && zle_eqb l l' && zle_eqb r r' && zle_eqb o o'
  | IHint _ _ ins s n, IHint _ _ ins' s' n' => list_eqb (list_eqb hterm_eqb) ins ins' && Nat.eqb s s' && Nat.eqb n n'
  | _, _ => false
  end.

Definition bcase_check (c : bcase) : bool :=
  let '(p, nbpub, nbsec, thr, prog, outs, ok, nbw, dump) := c in
  let st := zb_compile p nbpub nbsec thr prog outs in
  if b_err Z st then negb ok
  else ok && Nat.eqb (b_next Z st) nbw && list_eqb instr_eqb (rev (b_instrs Z st)) dump.

Fixpoint bcase_mismatches (k : nat) (cs : list bcase) : list nat :=
  match cs with
  | [] => []
  | c :: cs' => if bcase_check c then bcase_mismatches (S k) cs' else k :: bcase_mismatches (S k) cs'
  end.

(* ---------------------------------------------------------------------------------------------
   Non-vacuity of compile_sound (BuilderR1CSProps.v) at the proved field instance F_47: a program
   using a product, a boolean assertion, IsZero, Select and an exposed output compiles without
   panic, and a concrete assignment satisfies every emitted row. *)
From GnarkV Require Import Base.Fp Base.F47 Frontend.BuilderR1CSProps.

Definition ex_prog : list op :=
  [(OMul, [AV 0; AV 1]); (OAssertBool, [AV 0]); (OIsZero, [AV 2]); (OSelect, [AV 0; AV 2; AC 7%Z])].
Definition ex_state := b_compile F47 zero47 one47 add47 mul47 sub47 opp47 inv47 eq_dec47 mk47 1 1 300 ex_prog [4%nat].
(* wires: 0 ONE, 1 x (public), 2 out (public), 3 y (secret), 4 x*y, 5 m = IsZero(x*y), 6 hint 1/(x*y), 7 x*(x*y-7) *)
Definition ex_w (i : nat) : F47 := mk47 (nth i [1; 1; 5; 5; 5; 0; 19; 45]%Z 0%Z).

Example compile_sound_nonvacuous :
  b_err F47 ex_state = false /\ good F47 zero47 one47 add47 mul47 ex_w ex_state /\ length (b_instrs F47 ex_state) = 7%nat.
Proof.
  split; [vm_compute; reflexivity|]. split; [|vm_compute; reflexivity].
  split; [vm_compute; reflexivity|]. vm_compute b_instrs.
  repeat (constructor; [first [exact I | apply (Fp_eq p47); vm_compute; reflexivity]|]); constructor.
Qed.
