(* Gallina transcription of gnark's R1CS builder (frontend/cs/r1cs/api.go, api_assertions.go,
   builder.go), generic in the field, for the arithmetic / boolean / conditional core of the API:

     Add Sub Neg Mul MulAcc Div DivUnchecked Inverse FromBinary Xor Or And Select Lookup2 IsZero
     AssertIsEqual AssertIsDifferent AssertIsBoolean            (+ the two-output test hint)

   Function by function:
     builder.add (k-way merge on wire ids, cancelling coefficients, empty result = constant 0,
                  compress)                                   -> [b_add]
     builder.compress                                         -> [b_compress]
     builder.constantValue                                    -> [is_const]
     builder.mulConstant / negateLinExp                       -> [scale] / [neg_le]
     Mul's inner closure, MulAcc's mulBC                      -> [b_mul2]
     builder.newR1C (shorter operand on the left) + AddR1C    -> [b_row]
     MarkBoolean / IsBoolean (mtBooleans)                     -> [b_mark] / [is_marked]
     AssertIsBoolean, AssertIsEqual, AssertIsDifferent        -> [b_assert_bool] ...
     Xor Or And Select Lookup2 IsZero Div DivUnchecked Inverse -> [b_xor] ...
   The emitted system is a list of [instr] of the solver model (CS/Solver.v): IR1C rows and IHint
   instructions, wires numbered as constraint.System numbers them (0 = ONE, public, secret,
   internal in allocation order).  In-place mutation of Go slices has no counterpart in the
   functional model: a builder that mutates an operand it should not shows up as a difference
   between the system emitted by the model and the one emitted by the code.

   A compile-time panic of the builder (division by the constant 0, assertion violated by
   constants) is the flag [b_err]. *)
From Coq Require Import Arith List Bool ZArith.
From GnarkV Require Import CS.Solver Frontend.Spec.
Import ListNotations.

Section Builder.
Variable F : Type.
Variables (zero one : F) (add mul sub : F -> F -> F) (opp : F -> F) (div : F -> F -> F) (inv : F -> F).
Variable eq_dec : forall x y : F, {x = y} + {x <> y}.
Variable cst : Z -> F.      (* constants of the program text read in the field *)
Notation "0" := zero. Notation "1" := one.
Infix "+" := add. Infix "*" := mul. Infix "-" := sub. Infix "/" := div.

Notation term := (term F).
Notation lexp := (lexp F).
Notation instr := (instr F).

Record bstate := {
  b_next : nat;            (* next free wire id *)
  b_ncs : nat;             (* number of R1C rows emitted *)
  b_instrs : list instr;   (* emitted instructions, most recent first *)
  b_bools : list lexp;     (* mtBooleans *)
  b_err : bool;            (* a compile-time panic happened *)
  b_thr : nat              (* config.CompressThreshold, 0 = off *)
}.

Definition feqb (x y : F) : bool := if eq_dec x y then true else false.

Definition cle (c : F) : lexp := [(c, O)].
Definition le_one : lexp := cle 1.
Definition le_zero : lexp := cle 0.

(* builder.constantValue on a linear expression *)
Definition is_const (l : lexp) : option F :=
  match l with
  | [(c, x)] => if feqb c 0 then Some 0 else if Nat.eqb x O then Some c else None
  | _ => None
  end.

Definition set_err (st : bstate) : bstate :=
  {| b_next := b_next st; b_ncs := b_ncs st; b_instrs := b_instrs st; b_bools := b_bools st; b_err := true; b_thr := b_thr st |}.

Definition b_newvar (st : bstate) : lexp * bstate :=
  ([(1, b_next st)],
   {| b_next := S (b_next st); b_ncs := b_ncs st; b_instrs := b_instrs st; b_bools := b_bools st; b_err := b_err st; b_thr := b_thr st |}).

(* newR1C + AddR1C *)
Definition b_row (st : bstate) (l r o : lexp) : bstate :=
  let '(l', r') := if Nat.ltb (length r) (length l) then (r, l) else (l, r) in
  {| b_next := b_next st; b_ncs := S (b_ncs st); b_instrs := IR1C F (b_ncs st) l' r' o :: b_instrs st;
     b_bools := b_bools st; b_err := b_err st; b_thr := b_thr st |}.

Definition b_hint (st : bstate) (hid : nat) (ins : list lexp) (nout : nat) : list lexp * bstate :=
  (map (fun k => [(1, (b_next st + k)%nat)]) (seq 0 nout),
   {| b_next := (b_next st + nout)%nat; b_ncs := b_ncs st;
      b_instrs := IHint F hid (map (map (fun t : term => (fst t, Some (snd t)))) ins) (b_next st) nout :: b_instrs st;
      b_bools := b_bools st; b_err := b_err st; b_thr := b_thr st |}).

Definition scale (l : lexp) (k : F) : lexp := map (fun t : term => (fst t * k, snd t)) l.
Definition neg_le (l : lexp) : lexp := map (fun t : term => (opp (fst t), snd t)) l.

(* insert a term into a list sorted by wire id, summing coefficients of the same wire *)
Fixpoint ins_term (c : F) (x : nat) (l : lexp) : lexp :=
  match l with
  | [] => [(c, x)]
  | (c', x') :: l' =>
      if Nat.ltb x x' then (c, x) :: l
      else if Nat.eqb x x' then (c' + c, x') :: l'
      else (c', x') :: ins_term c x l'
  end.

Definition ins_le (neg : bool) (l acc : lexp) : lexp :=
  fold_left (fun a (t : term) => if feqb (fst t) 0 then a else ins_term (if neg then opp (fst t) else fst t) (snd t) a) l acc.

(* the merge of builder.add: per wire the sum of the (signed) coefficients, wires in increasing
   order, wires whose coefficient cancels dropped, the empty result replaced by the constant 0 *)
Definition merge_les (vars : list lexp) (sb : bool) : lexp :=
  let acc := match vars with
             | [] => []
             | v :: vs => fold_left (fun a l => ins_le sb l a) vs (ins_le false v [])
             end in
  let r := filter (fun t : term => negb (feqb (fst t) 0)) acc in
  match r with [] => le_zero | _ => r end.

Definition b_compress (st : bstate) (l : lexp) : lexp * bstate :=
  if Nat.eqb (b_thr st) O || Nat.ltb (length l) (b_thr st) then (l, st)
  else let '(t, st1) := b_newvar st in (t, b_row st1 l le_one t).

Definition b_add (st : bstate) (vars : list lexp) (sb : bool) : lexp * bstate :=
  b_compress st (merge_les vars sb).

Definition b_neg (st : bstate) (v : lexp) : lexp :=
  match is_const v with Some n => cle (opp n) | None => neg_le v end.

Definition b_mul2 (st : bstate) (v1 v2 : lexp) : lexp * bstate :=
  match is_const v1, is_const v2 with
  | None, None => let '(r, st1) := b_newvar st in (r, b_row st1 v1 v2 r)
  | Some n1, Some n2 => (cle (n1 * n2), st)
  | Some n1, None => (scale v2 n1, st)
  | None, Some n2 => (scale v1 n2, st)
  end.

Fixpoint b_mul_list (st : bstate) (acc : lexp) (vs : list lexp) : lexp * bstate :=
  match vs with
  | [] => (acc, st)
  | v :: vs' => let '(r, st1) := b_mul2 st acc v in b_mul_list st1 r vs'
  end.

Definition b_mul (st : bstate) (vars : list lexp) : lexp * bstate :=
  match vars with
  | v1 :: v2 :: vs => let '(r, st1) := b_mul2 st v1 v2 in b_mul_list st1 r vs
  | _ => (le_zero, set_err st)
  end.

Definition b_mulacc (st : bstate) (a b c : lexp) : lexp * bstate :=
  let '(t, st1) := b_mul2 st b c in b_add st1 [a; t] false.

Definition b_divunchecked (st : bstate) (v1 v2 : lexp) : lexp * bstate :=
  match is_const v2 with
  | None => let '(r, st1) := b_newvar st in (r, b_row st1 v2 r v1)
  | Some n2 =>
      if feqb n2 0 then (le_zero, set_err st)
      else match is_const v1 with
           | Some n1 => (cle (inv n2 * n1), st)
           | None => (scale v1 (inv n2), st)
           end
  end.

Definition b_div (st : bstate) (v1 v2 : lexp) : lexp * bstate :=
  match is_const v2 with
  | None =>
      let '(r, st1) := b_newvar st in
      let '(vi, st2) := b_newvar st1 in
      (r, b_row (b_row st2 v2 vi le_one) v1 vi r)
  | Some n2 =>
      if feqb n2 0 then (le_zero, set_err st)
      else match is_const v1 with
           | Some n1 => (cle (inv n2 * n1), st)
           | None => (scale v1 (inv n2), st)
           end
  end.

Definition b_inverse (st : bstate) (v : lexp) : lexp * bstate :=
  match is_const v with
  | Some c => if feqb c 0 then (le_zero, set_err st) else (cle (inv c), st)
  | None => let '(r, st1) := b_newvar st in (r, b_row st1 r v le_one)
  end.

Fixpoint le_eqb (a b : lexp) : bool :=
  match a, b with
  | [], [] => true
  | (c, x) :: a', (d, y) :: b' => feqb c d && Nat.eqb x y && le_eqb a' b'
  | _, _ => false
  end.

Definition is_marked (st : bstate) (v : lexp) : bool := existsb (le_eqb v) (b_bools st).

Definition b_mark (st : bstate) (v : lexp) : bstate :=
  match is_const v with
  | Some b => if feqb b 0 || feqb b 1 then st else set_err st
  | None => {| b_next := b_next st; b_ncs := b_ncs st; b_instrs := b_instrs st; b_bools := v :: b_bools st; b_err := b_err st; b_thr := b_thr st |}
  end.

Definition b_assert_bool (st : bstate) (v : lexp) : bstate :=
  match is_const v with
  | Some b => if feqb b 0 || feqb b 1 then st else set_err st
  | None =>
      if is_marked st v then st
      else let st1 := b_mark st v in
           let '(nv, st2) := b_add st1 [le_one; v] true in
           b_row st2 v nv le_zero
  end.

Definition b_assert_eq (st : bstate) (v1 v2 : lexp) : bstate :=
  match is_const v1, is_const v2 with
  | Some c1, Some c2 => if feqb c1 c2 then st else set_err st
  | _, _ => b_row st le_one v1 v2
  end.

Definition b_assert_diff (st : bstate) (v1 v2 : lexp) : bstate :=
  let '(s, st1) := b_add st [v1; v2] true in
  match s with
  | [(c, _)] => if feqb c 0 then set_err st1 else snd (b_inverse st1 s)
  | _ => snd (b_inverse st1 s)
  end.

Definition b_xor (st : bstate) (a b : lexp) : lexp * bstate :=
  let st1 := b_assert_bool st a in
  let st2 := b_assert_bool st1 b in
  let '(a, b) := if Nat.ltb (length a) (length b) then (b, a) else (a, b) in
  let '(b2, st3) := b_mul st2 [b; cle (cst 2)] in
  let '(t, st4) := b_add st3 [le_one; b2] true in
  let '(at_, st5) := b_mul st4 [a; t] in
  let '(r, st6) := b_add st5 [at_; b] false in
  (r, b_mark st6 r).

Definition b_or (st : bstate) (a b : lexp) : lexp * bstate :=
  let st1 := b_assert_bool st a in
  let st2 := b_assert_bool st1 b in
  let '(r, st3) := b_newvar st2 in
  let st4 := b_mark st3 r in
  let c := b_neg st4 r ++ a ++ b in
  (r, b_row st4 a b c).

Definition b_and (st : bstate) (a b : lexp) : lexp * bstate :=
  let st1 := b_assert_bool st a in
  let st2 := b_assert_bool st1 b in
  let '(r, st3) := b_mul st2 [a; b] in
  (r, b_mark st3 r).

Definition b_select (st : bstate) (c v1 v2 : lexp) : lexp * bstate :=
  let st1 := b_assert_bool st c in
  match is_const c with
  | Some k => if feqb k 1 then (v1, st1) else (v2, st1)
  | None =>
      match is_const v1, is_const v2 with
      | Some n1, Some n2 =>
          let '(r, st2) := b_mul st1 [c; cle (n1 - n2)] in
          b_add st2 [r; v2] false
      | o1, _ =>
          if match o1 with Some n1 => feqb n1 0 | None => false end then
            let '(v, st2) := b_add st1 [le_one; c] true in
            b_mul st2 [v; v2]
          else
            let '(v, st2) := b_add st1 [v1; v2] true in
            let '(w, st3) := b_mul st2 [c; v] in
            b_add st3 [w; v2] false
      end
  end.

Definition b_lookup2 (st : bstate) (s0 s1 in0 in1 in2 in3 : lexp) : lexp * bstate :=
  let st1 := b_assert_bool st s0 in
  let st2 := b_assert_bool st1 s1 in
  match is_const s0, is_const s1 with
  | Some c0, Some c1 =>
      let b0 := feqb c0 1 in let b1 := feqb c1 1 in
      (if negb b0 && negb b1 then in0 else if b0 && negb b1 then in1 else if b0 && b1 then in3 else in2, st2)
  | _, _ =>
      let '(t1, st3) := b_add st2 [in3; in0] false in
      let '(t1, st4) := b_add st3 [t1; in2; in1] true in
      let '(t1, st5) := b_mul st4 [t1; s1] in
      let '(t1, st6) := b_add st5 [t1; in1] false in
      let '(t1, st7) := b_add st6 [t1; in0] true in
      let '(t2, st8) := b_mul st7 [t1; s0] in
      let '(r, st9) := b_add st8 [in2; in0] true in
      let '(r, st10) := b_mul st9 [r; s1] in
      b_add st10 [r; t2; in0] false
  end.

Definition hid_invzero : nat := 0.
Definition hid_test2 : nat := 1.

Definition b_iszero (st : bstate) (a : lexp) : lexp * bstate :=
  match is_const a with
  | Some c => if feqb c 0 then (le_one, st) else (le_zero, st)
  | None =>
      let '(m, st1) := b_newvar st in
      let '(xs, st2) := b_hint st1 hid_invzero [a] 1 in
      let x := hd le_zero xs in
      let '(m1, st3) := b_add st2 [m; cle (cst 1)] true in
      let st4 := b_row st3 (b_neg st3 a) x m1 in
      let st5 := b_row st4 a m le_zero in
      (m, b_mark st5 m)
  end.

(* bits.FromBinary: sum_i 2^i * b_i with every digit asserted boolean *)
Fixpoint b_frombinary (st : bstate) (acc : lexp) (c : Z) (ds : list lexp) : lexp * bstate :=
  match ds with
  | [] => (acc, st)
  | d :: ds' =>
      let st1 := b_assert_bool st d in
      let '(m, st2) := b_mul st1 [cle (cst c); d] in
      let '(acc', st3) := b_add st2 [acc; m] false in
      b_frombinary st3 acc' (2 * c)%Z ds'
  end.

(* ---------------------------------------------------------------- programs *)

Definition arg_le (vars : list lexp) (a : arg) : lexp :=
  match a with AC z => cle (cst z) | AV i => nth i vars le_zero end.

Definition core_op (k : opk) : bool :=
  match k with
  | OToBinary _ | OCmp | OAssertLeq => false
  | _ => true
  end.

(* one API call: the results appended to the program's variables *)
Definition b_step (s : list lexp * bstate) (o : op) : list lexp * bstate :=
  let '(vars, st) := s in
  let a := map (arg_le vars) (snd o) in
  let a0 := nth 0 a le_zero in let a1 := nth 1 a le_zero in let a2 := nth 2 a le_zero in
  let push (r : lexp * bstate) := (vars ++ [fst r], snd r) in
  match fst o with
  | OAdd => push (b_add st a false)
  | OSub => push (b_add st a true)
  | ONeg => push (b_neg st a0, st)
  | OMul => push (b_mul st a)
  | OMulAcc => push (b_mulacc st a0 a1 a2)
  | ODiv => push (b_div st a0 a1)
  | ODivUnchecked => push (b_divunchecked st a0 a1)
  | OInverse => push (b_inverse st a0)
  | OFromBinary => match a with [] => (vars, set_err st)   (* bits.FromBase: "needs at least 1 digit" *)
                   | _ => push (b_frombinary st (cle (cst 0)) 1%Z a) end
  | OXor => push (b_xor st a0 a1)
  | OOr => push (b_or st a0 a1)
  | OAnd => push (b_and st a0 a1)
  | OSelect => push (b_select st a0 a1 a2)
  | OLookup2 => push (b_lookup2 st a0 a1 a2 (nth 3 a le_zero) (nth 4 a le_zero) (nth 5 a le_zero))
  | OIsZero => push (b_iszero st a0)
  | OAssertEq => (vars, b_assert_eq st a0 a1)
  | OAssertDiff => (vars, b_assert_diff st a0 a1)
  | OAssertBool => (vars, b_assert_bool st a0)
  | OHint2 => let '(rs, st1) := b_hint st hid_test2 [a0; a1] 2 in (vars ++ rs, st1)
  | OToBinary _ | OCmp | OAssertLeq => (vars, set_err st)     (* outside the modelled core *)
  end.

(* the interpreter circuit of the harness: wires 0 = ONE, Pub, Out (public), Sec; program
   variables are Pub then Sec; after the program every exposed variable is asserted equal to
   its Out input *)
Definition input_wire (nbpub nbout : nat) (i : nat) : nat :=
  if Nat.ltb i nbpub then S i else (S i + nbout)%nat.

Definition b_init (nbpub nbsec nbout thr : nat) : list lexp * bstate :=
  (map (fun i => [(1, input_wire nbpub nbout i)]) (seq 0 (nbpub + nbsec)),
   {| b_next := S (nbpub + nbout + nbsec); b_ncs := O; b_instrs := []; b_bools := []; b_err := false; b_thr := thr |}).

Fixpoint b_expose (vars : list lexp) (st : bstate) (nbpub : nat) (k : nat) (outs : list nat) : bstate :=
  match outs with
  | [] => st
  | o :: outs' => b_expose vars (b_assert_eq st (nth o vars le_zero) [(1, S (nbpub + k))]) nbpub (S k) outs'
  end.

Definition b_compile (nbpub nbsec thr : nat) (prog : list op) (outs : list nat) : bstate :=
  let '(vars, st) := fold_left b_step prog (b_init nbpub nbsec (length outs) thr) in
  b_expose vars st nbpub O outs.

End Builder.
