(* The two halves of the builder theorem as one equivalence: for a program over the modelled core that compiles
   without panic, given input values and given values on the public output wires, the emitted R1CS has a
   satisfying assignment with them exactly when the documented meaning admits a value trace from these inputs
   whose exposed variables have these values. *)
From Coq Require Import Arith List Bool ZArith Field Lia.
From GnarkV Require Import CS.Solver Frontend.Spec Frontend.BuilderR1CS Frontend.BuilderR1CSProps.
Import ListNotations.

Section Exact.
Variable F : Type.
Variables (zero one : F) (add mul sub : F -> F -> F) (opp : F -> F) (div : F -> F -> F) (inv : F -> F).
Hypothesis Fth : field_theory zero one add mul sub opp div inv (@eq F).
Variable eq_dec : forall x y : F, {x = y} + {x <> y}.
Variable cst : Z -> F.
Hypothesis cst0 : cst 0%Z = zero.
Hypothesis cst1 : cst 1%Z = one.
Hypothesis cst2 : cst 2%Z = add one one.

Notation good := (BuilderR1CSProps.good F zero one add mul).
Notation trace_sem := (BuilderR1CSProps.trace_sem F zero one add mul sub opp div inv eq_dec cst).

Theorem compile_exact nbpub nbsec thr prog outs :
  let st := b_compile F zero one add mul sub opp inv eq_dec cst nbpub nbsec thr prog outs in
  b_err F st = false ->
  forall (vs0 ovals : list F), length vs0 = (nbpub + nbsec)%nat -> length ovals = length outs ->
  (exists w, good w st /\
     (forall i, i < nbpub + nbsec -> w (input_wire nbpub (length outs) i) = nth i vs0 zero) /\
     (forall j, j < length outs -> w (S (nbpub + j)) = nth j ovals zero))
  <->
  (exists fin, trace_sem prog vs0 fin /\ forall j o, nth_error outs j = Some o -> nth o fin zero = nth j ovals zero).
Proof.
  intros st E vs0 ovals LV LO. split.
  - intros (w & G & WI & WO).
    destruct (compile_sound F zero one add mul sub opp div inv Fth eq_dec cst cst0 cst1 cst2 nbpub nbsec thr prog outs E w G) as (fin & T & HO).
    exists fin. split.
    + assert (EQ : map (fun i => w (input_wire nbpub (length outs) i)) (seq 0 (nbpub + nbsec)) = vs0).
      { apply nth_ext with (d := zero) (d' := zero); [rewrite map_length, seq_length; symmetry; exact LV|].
        intros i Hi. rewrite map_length, seq_length in Hi.
        rewrite (nth_indep _ zero (w (input_wire nbpub (length outs) O))) by (rewrite map_length, seq_length; exact Hi).
        rewrite (map_nth (fun i => w (input_wire nbpub (length outs) i)) (seq 0 (nbpub + nbsec)) O i), seq_nth by exact Hi. apply WI. exact Hi. }
      rewrite <- EQ. exact T.
    + intros j o Hj. rewrite (HO j o Hj). apply WO. apply nth_error_Some. rewrite Hj. discriminate.
  - intros (fin & T & HO).
    destruct (compile_complete F zero one add mul sub opp div inv Fth eq_dec cst cst0 cst1 cst2 nbpub nbsec thr prog outs E vs0 fin LV T) as (w & G & WI & WO).
    exists w. split; [exact G|split; [exact WI|]]. intros j Hj.
    destruct (nth_error outs j) as [o|] eqn:Hn; [|apply nth_error_None in Hn; lia].
    rewrite (WO j o Hn). apply (HO j o Hn).
Qed.

End Exact.
