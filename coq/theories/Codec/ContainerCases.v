(* C09 correspondence: the bytes written by the real encoder must parse under the container model,
   carry exactly the calldata and coefficient table of the in-memory system, re-serialize to the
   same bytes, and the reader's byte count must be the file length. *)
From Coq Require Import ZArith List Bool.
From GnarkV Require Import Codec.Container.
Import ListNotations.
Local Open Scope Z_scope.

(* (bytes per limb, limbs per coefficient, file bytes, calldata words, coefficient limbs, byte count reported by WriteTo) *)
Definition kcase := (nat * nat * list Z * list Z * list (list Z) * Z)%type.

Fixpoint zl_eqb (a b : list Z) : bool :=
  match a, b with
  | [], [] => true
  | x :: a', y :: b' => Z.eqb x y && zl_eqb a' b'
  | _, _ => false
  end.
Fixpoint zll_eqb (a b : list (list Z)) : bool :=
  match a, b with
  | [], [] => true
  | x :: a', y :: b' => zl_eqb x y && zll_eqb a' b'
  | _, _ => false
  end.

Definition container_check (c : kcase) : bool :=
  let '(lw, limbs, bytes, cd, coeffs, n) := c in
  match parse lw limbs bytes with
  | None => false
  | Some (s, consumed) =>
      Nat.eqb consumed (length bytes) && Z.eqb n (Z.of_nat (length bytes)) &&
      zl_eqb (serialize lw s) bytes &&
      zll_eqb (sf_coeffs s) coeffs &&
      match calldata_dec (sf_calldata s) with
      | Some cd' => zl_eqb cd' cd && zl_eqb (calldata_enc cd) (sf_calldata s)
      | None => false
      end
  end.

Fixpoint container_mismatches (k : nat) (cs : list kcase) : list nat :=
  match cs with
  | [] => []
  | c :: cs' => if container_check c then container_mismatches (S k) cs' else k :: container_mismatches (S k) cs'
  end.
