(* Binary layout of backend/witness (WriteTo / ReadFrom / MarshalBinary):
      u32 nbPublic ‖ u32 nbSecret ‖ u32 len ‖ len × (w-byte big-endian element)
   bytes are integers in [0,256).  [decode] follows the repaired ReadFrom ("fix: witness: reject a
   header that disagrees with the vector length", finding F6): header and vector must agree. *)
From Coq Require Import ZArith List Lia Bool.
Import ListNotations.
Local Open Scope Z_scope.

Fixpoint be_enc (w : nat) (z : Z) : list Z :=
  match w with O => [] | S w' => be_enc w' (z / 256) ++ [z mod 256] end.

Definition be_dec (bs : list Z) : Z := fold_left (fun acc b => acc * 256 + b) bs 0.

Lemma be_enc_length w z : length (be_enc w z) = w.
Proof. revert z. induction w as [|w IH]; intros z; cbn [be_enc]; [reflexivity|]. rewrite app_length, IH. cbn. lia. Qed.

Lemma be_dec_snoc l b : be_dec (l ++ [b]) = be_dec l * 256 + b.
Proof. unfold be_dec. rewrite fold_left_app. reflexivity. Qed.

Lemma be_roundtrip w : forall z, 0 <= z < 256 ^ (Z.of_nat w) -> be_dec (be_enc w z) = z.
Proof.
  induction w as [|w IH]; intros z Hz.
  - cbn in *. lia.
  - cbn [be_enc]. rewrite be_dec_snoc. rewrite IH.
    + pose proof (Z.div_mod z 256). lia.
    + rewrite Nat2Z.inj_succ, Z.pow_succ_r in Hz by lia.
      split; [apply Z.div_pos; lia|apply Z.div_lt_upper_bound; lia].
Qed.

Lemma be_enc_bytes w : forall z b, In b (be_enc w z) -> 0 <= b < 256.
Proof.
  induction w as [|w IH]; intros z b H; cbn [be_enc] in H; [contradiction|].
  apply in_app_or in H. destruct H as [H|[<-|[]]]; [eapply IH; exact H|apply Z.mod_pos_bound; lia].
Qed.

Definition u32 (z : Z) : list Z := be_enc 4 z.

Definition encode (w : nat) (nb_pub nb_sec : Z) (v : list Z) : list Z :=
  u32 nb_pub ++ u32 nb_sec ++ u32 (Z.of_nat (length v)) ++ flat_map (be_enc w) v.

Definition take (n : nat) (bs : list Z) : option (list Z * list Z) :=
  if Nat.ltb (length bs) n then None else Some (firstn n bs, skipn n bs).

Lemma take_app n a r : length a = n -> take n (a ++ r) = Some (a, r).
Proof.
  intros <-. unfold take. rewrite app_length.
  destruct (Nat.ltb_spec (length a + length r) (length a)) as [C|_]; [lia|].
  rewrite firstn_app, Nat.sub_diag, firstn_all, skipn_app, Nat.sub_diag, skipn_all. cbn. rewrite app_nil_r. reflexivity.
Qed.

Fixpoint chunks (w : nat) (n : nat) (bs : list Z) : option (list Z * list Z) :=
  match n with
  | O => Some ([], bs)
  | S n' =>
      match take w bs with
      | None => None
      | Some (h, r) =>
          match chunks w n' r with
          | Some (vs, rest) => Some (be_dec h :: vs, rest)
          | None => None
          end
      end
  end.

(* result: (nbPublic, nbSecret, vector, bytes consumed) *)
Definition decode (w : nat) (bs : list Z) : option (Z * Z * list Z * nat) :=
  match take 4 bs with None => None | Some (h1, r1) =>
  match take 4 r1 with None => None | Some (h2, r2) =>
  match take 4 r2 with None => None | Some (h3, r3) =>
  let np := be_dec h1 in let ns := be_dec h2 in let len := be_dec h3 in
  match chunks w (Z.to_nat len) r3 with
  | None => None
  | Some (v, rest) =>
      if np + ns =? len then Some (np, ns, v, (length bs - length rest)%nat) else None
  end end end end.

Lemma chunks_flat w : forall v rest,
  (forall z, In z v -> 0 <= z < 256 ^ (Z.of_nat w)) ->
  chunks w (length v) (flat_map (be_enc w) v ++ rest) = Some (v, rest).
Proof.
  induction v as [|z v IH]; intros rest Hv; cbn [length chunks flat_map]; [reflexivity|].
  rewrite <- app_assoc. rewrite take_app by apply be_enc_length.
  rewrite IH by (intros y Hy; apply Hv; right; exact Hy).
  rewrite be_roundtrip by (apply Hv; left; reflexivity). reflexivity.
Qed.

Theorem witness_codec_roundtrip w np ns v :
  0 <= np -> 0 <= ns -> np + ns = Z.of_nat (length v) -> Z.of_nat (length v) < 256 ^ 4 ->
  (forall z, In z v -> 0 <= z < 256 ^ (Z.of_nat w)) ->
  decode w (encode w np ns v) = Some (np, ns, v, length (encode w np ns v)).
Proof.
  intros Hp Hs Hsum Hlen Hv. unfold decode, encode, u32.
  assert (R : forall z, 0 <= z < 256 ^ 4 -> be_dec (be_enc 4 z) = z) by (intros z Hz; apply (be_roundtrip 4); exact Hz).
  rewrite !take_app by apply be_enc_length.
  rewrite !R by lia. rewrite Nat2Z.id.
  rewrite <- (app_nil_r (flat_map (be_enc w) v)) at 1. rewrite (chunks_flat w v [] Hv).
  rewrite Hsum, Z.eqb_refl. cbn [length]. rewrite Nat.sub_0_r. reflexivity.
Qed.

(* a decoded witness always has a header that agrees with its vector (F6, after the repair) *)
Lemma chunks_length w : forall n bs v rest, chunks w n bs = Some (v, rest) -> length v = n.
Proof.
  induction n as [|n IH]; intros bs v rest H; cbn [chunks] in H.
  - injection H as <- _. reflexivity.
  - destruct (take w bs) as [[h r]|]; [|discriminate].
    destruct (chunks w n r) as [[vs rest']|] eqn:E; [|discriminate]. injection H as <- _.
    cbn. f_equal. eapply IH. exact E.
Qed.

Theorem decode_header_consistent w bs np ns v n :
  decode w bs = Some (np, ns, v, n) -> 0 <= np + ns -> np + ns = Z.of_nat (length v).
Proof.
  unfold decode. intros H Hnn.
  destruct (take 4 bs) as [[h1 r1]|]; [|discriminate].
  destruct (take 4 r1) as [[h2 r2]|]; [|discriminate].
  destruct (take 4 r2) as [[h3 r3]|]; [|discriminate].
  destruct (chunks w (Z.to_nat (be_dec h3)) r3) as [[v' rest]|] eqn:C; [|discriminate].
  destruct (be_dec h1 + be_dec h2 =? be_dec h3) eqn:E; [|discriminate].
  injection H as <- <- <- _. apply Z.eqb_eq in E.
  rewrite (chunks_length _ _ _ _ _ C). rewrite Z2Nat.id by lia. exact E.
Qed.
