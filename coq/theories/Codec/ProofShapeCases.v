(* C08 correspondence: (1) outcome classes of the real verifiers on structurally edited proofs vs
   the shape models; (2) outcome class of Witness.UnmarshalBinary on mutated bytes vs [decode]. *)
From Coq Require Import ZArith List Bool Arith.
From GnarkV Require Import Base.Res Codec.ProofShape Codec.WitnessCodec.
Import ListNotations.

(* observed class: 0 accept, 1 error, 2 panic *)
Definition class_ok (r : res verdict) (observed : nat) : bool :=
  match r, observed with
  | Ok Accept, 0 => true
  | Ok Reject, 1 => true
  | Panic, 2 => true
  | _, _ => false
  end.

(* the crypto verdict bits are not known to the harness for edited proofs; the model must agree with
   the observation for SOME value of them, and may never say Panic unless the code panicked *)
Definition bools3 : list (bool * bool * bool) :=
  [(true,true,true);(true,true,false);(true,false,true);(true,false,false);
   (false,true,true);(false,true,false);(false,false,true);(false,false,false)].

(* (nbK, committed, nb ckeys, witness len, commitments, observed class) *)
Definition g16case := (nat * list (list nat) * nat * nat * nat * nat)%type.
Definition g16_check (c : g16case) : bool :=
  let '(nbk, cm, nck, wit, ncom, obs) := c in
  existsb (fun b => let '(b1, b2, b3) := b in
    class_ok (g16_verify true {| g_vk_nbK := nbk; g_vk_committed := cm; g_vk_nb_ckeys := nck; g_wit := wit;
                                 g_commitments := ncom; g_points_valid := b1; g_pok_ok := b2; g_pairing_ok := b3 |}) obs) bools3
  && (Nat.eqb ncom (length cm) || Nat.eqb obs 1)        (* a count mismatch must be an error *)
  && negb (Nat.eqb obs 2).

(* (qcp, nb public, bsb, witness len, claimed, observed class) *)
Definition plonkcase := (nat * nat * nat * nat * nat * nat)%type.
Definition plonk_check (c : plonkcase) : bool :=
  let '(qcp, npub, bsb, wit, cl, obs) := c in
  existsb (fun b => let '(b1, b2, b3) := b in
    class_ok (plonk_verify true {| p_vk_qcp := qcp; p_vk_nb_public := npub; p_bsb := bsb; p_wit := wit; p_claimed := cl;
                                   p_points_valid := b1; p_algebraic_ok := b2; p_kzg_ok := b3 |}) obs) bools3
  && ((Nat.eqb bsb qcp && Nat.eqb cl (6 + qcp) && Nat.eqb wit npub) || Nat.eqb obs 1)
  && negb (Nat.eqb obs 2).

Fixpoint mism {A} (f : A -> bool) (k : nat) (cs : list A) : list nat :=
  match cs with
  | [] => []
  | c :: cs' => if f c then mism f (S k) cs' else k :: mism f (S k) cs'
  end.

(* witness bytes: (modulus, element width, bytes, decoded ok?) *)
Definition wbcase := (Z * nat * list Z * bool)%type.
Definition decode_strict (q : Z) (w : nat) (bs : list Z) : bool :=
  match decode w bs with
  | Some (np, ns, v, _) => forallb (fun z => Z.ltb z q) v
  | None => false
  end.
Definition wb_check (c : wbcase) : bool :=
  let '(q, w, bs, ok) := c in Bool.eqb (decode_strict q w bs) ok.
