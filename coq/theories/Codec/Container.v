(* Byte layout of a serialized constraint system (constraint/<curve>/marshal.go WriteTo,
   constraint/marshal.go ToBytes / FromBytes, coeff.go toBytes):

     u64le totalLen ‖ u64le major ‖ u64le minor ‖ u64le patch
     ‖ [ u64le levelsLen ‖ u64le instructionsLen ‖ u64le calldataLen ‖ u64le bodyLen
         ‖ levels ‖ instructions ‖ calldata ‖ body ]            (System.ToBytes)
     ‖ [ u64le nbCoeffs ‖ nbCoeffs × limbs × u64le ]             (coefficient table)

   calldata = u64le count ‖ count × uvarint (LEB128, each value < 2^32).
   levels / instructions are intcomp-compressed and body is CBOR: external codecs, kept as
   opaque byte strings here (their round trip is exercised differentially). *)
From Coq Require Import ZArith List Lia Bool.
Import ListNotations.
Local Open Scope Z_scope.

(* ---------------------------------------------------------------- little-endian fixed width *)

Fixpoint le_enc (w : nat) (z : Z) : list Z :=
  match w with O => [] | S w' => (z mod 256) :: le_enc w' (z / 256) end.

Fixpoint le_dec (bs : list Z) : Z :=
  match bs with [] => 0 | b :: bs' => b + 256 * le_dec bs' end.

Lemma le_enc_length w z : length (le_enc w z) = w.
Proof. revert z. induction w as [|w IH]; intros z; cbn; [reflexivity|]. rewrite IH. reflexivity. Qed.

Lemma le_roundtrip w : forall z, 0 <= z < 256 ^ (Z.of_nat w) -> le_dec (le_enc w z) = z.
Proof.
  induction w as [|w IH]; intros z Hz.
  - cbn in *. lia.
  - cbn [le_enc le_dec]. rewrite IH.
    + pose proof (Z.div_mod z 256). lia.
    + rewrite Nat2Z.inj_succ, Z.pow_succ_r in Hz by lia.
      split; [apply Z.div_pos; lia|apply Z.div_lt_upper_bound; lia].
Qed.

Definition u64 := le_enc 8.

(* ---------------------------------------------------------------- uvarint (encoding/binary) *)

(* AppendUvarint: 7 bits per byte, least significant group first, high bit = continuation *)
Fixpoint uvarint_enc (fuel : nat) (z : Z) : list Z :=
  match fuel with
  | O => [z mod 128]
  | S f => if z <? 128 then [z] else (z mod 128 + 128) :: uvarint_enc f (z / 128)
  end.

(* Uvarint: returns (value, bytes read); None on a truncated or over-long (> 10 bytes) encoding *)
Fixpoint uvarint_dec (fuel : nat) (bs : list Z) (shift : Z) (acc : Z) (n : nat) : option (Z * nat) :=
  match fuel with
  | O => None
  | S f =>
      match bs with
      | [] => None
      | b :: bs' =>
          if b <? 128 then Some (acc + b * 2 ^ shift, S n)
          else uvarint_dec f bs' (shift + 7) (acc + (b - 128) * 2 ^ shift) (S n)
      end
  end.

Definition uvarint_read (bs : list Z) : option (Z * nat) := uvarint_dec 10 bs 0 0 0.

Lemma uvarint_dec_cons f b bs shift acc n :
  uvarint_dec (S f) (b :: bs) shift acc n =
  if b <? 128 then Some (acc + b * 2 ^ shift, S n) else uvarint_dec f bs (shift + 7) (acc + (b - 128) * 2 ^ shift) (S n).
Proof. reflexivity. Qed.

Lemma uvarint_dec_enc : forall fuel z rest shift acc n,
  0 <= z < 2 ^ (7 * Z.of_nat (S fuel)) -> 0 <= shift ->
  uvarint_dec (S fuel) (uvarint_enc fuel z ++ rest) shift acc n
  = Some (acc + z * 2 ^ shift, (n + length (uvarint_enc fuel z))%nat).
Proof.
  induction fuel as [|fuel IH]; intros z rest shift acc n Hz Hs.
  - cbn [uvarint_enc app]. change (7 * Z.of_nat 1) with 7 in Hz. change (2 ^ 7) with 128 in Hz.
    rewrite Z.mod_small by lia. rewrite uvarint_dec_cons. destruct (Z.ltb_spec z 128); [|lia].
    cbn [length]. f_equal. f_equal. lia.
  - cbn [uvarint_enc]. destruct (Z.ltb_spec z 128) as [L|G].
    + cbn [app]. rewrite uvarint_dec_cons. destruct (Z.ltb_spec z 128); [|lia]. cbn [length]. f_equal. f_equal. lia.
    + cbn [app]. rewrite uvarint_dec_cons.
      pose proof (Z.mod_pos_bound z 128 ltac:(lia)) as M.
      destruct (Z.ltb_spec (z mod 128 + 128) 128); [lia|].
      assert (Hq : 0 <= z / 128 < 2 ^ (7 * Z.of_nat (S fuel))).
      { split; [apply Z.div_pos; lia|]. apply Z.div_lt_upper_bound; [lia|].
        replace (7 * Z.of_nat (S (S fuel))) with (7 + 7 * Z.of_nat (S fuel)) in Hz by lia.
        rewrite Z.pow_add_r in Hz by lia. change (2 ^ 7) with 128 in Hz. lia. }
      rewrite IH by (try exact Hq; lia).
      cbn [length]. f_equal. f_equal.
      * rewrite Z.pow_add_r by lia. change (2 ^ 7) with 128. pose proof (Z.div_mod z 128 ltac:(lia)). nia.
      * lia.
Qed.

(* values below 2^64 round-trip within the 10-byte limit; the decoder consumes exactly the encoding *)
Theorem uvarint_roundtrip z rest : 0 <= z < 2 ^ 64 ->
  uvarint_read (uvarint_enc 9 z ++ rest) = Some (z, length (uvarint_enc 9 z)).
Proof.
  intros Hz. unfold uvarint_read.
  rewrite uvarint_dec_enc; [|change (7 * Z.of_nat 10) with 70; assert (2 ^ 64 < 2 ^ 70) by (apply Z.pow_lt_mono_r; lia); lia|lia].
  f_equal. f_equal. rewrite Z.pow_0_r. lia.
Qed.

Definition take (n : nat) (bs : list Z) : option (list Z * list Z) :=
  if Nat.ltb (length bs) n then None else Some (firstn n bs, skipn n bs).

Lemma take_app n a r : length a = n -> take n (a ++ r) = Some (a, r).
Proof.
  intros <-. unfold take. rewrite app_length.
  destruct (Nat.ltb_spec (length a + length r) (length a)) as [C|_]; [lia|].
  rewrite firstn_app, Nat.sub_diag, firstn_all, skipn_app, Nat.sub_diag, skipn_all. cbn. rewrite app_nil_r. reflexivity.
Qed.

(* ---------------------------------------------------------------- calldata section *)

Definition calldata_enc (cd : list Z) : list Z :=
  u64 (Z.of_nat (length cd)) ++ flat_map (uvarint_enc 9) cd.

Fixpoint calldata_items (n : nat) (bs : list Z) : option (list Z) :=
  match n with
  | O => Some []
  | S n' =>
      match uvarint_read bs with
      | None => None
      | Some (v, k) =>
          match calldata_items n' (skipn k bs) with
          | Some vs => Some (v mod 2 ^ 32 :: vs)      (* stored as uint32 *)
          | None => None
          end
      end
  end.

Definition calldata_dec (bs : list Z) : option (list Z) :=
  match take 8 bs with
  | None => None
  | Some (h, r) => calldata_items (Z.to_nat (le_dec h)) r
  end.

Lemma calldata_items_roundtrip : forall cd rest, (forall v, In v cd -> 0 <= v < 2 ^ 32) ->
  calldata_items (length cd) (flat_map (uvarint_enc 9) cd ++ rest) = Some cd.
Proof.
  induction cd as [|v cd IH]; intros rest H; cbn [length calldata_items flat_map]; [reflexivity|].
  rewrite <- app_assoc.
  assert (Hv : 0 <= v < 2 ^ 32) by (apply H; left; reflexivity).
  rewrite uvarint_roundtrip by (assert (2 ^ 32 < 2 ^ 64) by (apply Z.pow_lt_mono_r; lia); lia).
  rewrite skipn_app, Nat.sub_diag, skipn_all. cbn [skipn app].
  rewrite IH by (intros y Hy; apply H; right; exact Hy).
  rewrite Z.mod_small by lia. reflexivity.
Qed.

Theorem calldata_roundtrip cd : (forall v, In v cd -> 0 <= v < 2 ^ 32) -> Z.of_nat (length cd) < 2 ^ 64 ->
  calldata_dec (calldata_enc cd) = Some cd.
Proof.
  intros H L. unfold calldata_dec, calldata_enc, u64.
  rewrite take_app by apply le_enc_length.
  rewrite le_roundtrip by (change (256 ^ Z.of_nat 8) with (2 ^ 64); lia).
  rewrite Nat2Z.id.
  rewrite <- (app_nil_r (flat_map (uvarint_enc 9) cd)). apply calldata_items_roundtrip. exact H.
Qed.

(* ---------------------------------------------------------------- the container *)

Record sysfile := {
  sf_version : Z * Z * Z;
  sf_levels : list Z; sf_instructions : list Z; sf_calldata : list Z; sf_body : list Z;   (* section bytes *)
  sf_coeffs : list (list Z) }.                                                              (* limbs per coefficient *)

Definition system_bytes (s : sysfile) : list Z :=
  u64 (Z.of_nat (length (sf_levels s))) ++ u64 (Z.of_nat (length (sf_instructions s))) ++
  u64 (Z.of_nat (length (sf_calldata s))) ++ u64 (Z.of_nat (length (sf_body s))) ++
  sf_levels s ++ sf_instructions s ++ sf_calldata s ++ sf_body s.

(* [lw] = bytes per limb: 8 for the curve scalar fields, 4 for the small fields (U32 elements) *)
Definition coeff_bytes (lw : nat) (cs : list (list Z)) : list Z :=
  u64 (Z.of_nat (length cs)) ++ flat_map (flat_map (le_enc lw)) cs.

Definition serialize (lw : nat) (s : sysfile) : list Z :=
  let '(ma, mi, pa) := sf_version s in
  let payload := system_bytes s ++ coeff_bytes lw (sf_coeffs s) in
  u64 (Z.of_nat (length payload)) ++ u64 ma ++ u64 mi ++ u64 pa ++ payload.

Fixpoint take_limbs (lw : nat) (k : nat) (bs : list Z) : option (list Z * list Z) :=
  match k with
  | O => Some ([], bs)
  | S k' => match take lw bs with
            | None => None
            | Some (h, r) => match take_limbs lw k' r with Some (ls, r') => Some (le_dec h :: ls, r') | None => None end
            end
  end.

Fixpoint take_coeffs (lw limbs : nat) (n : nat) (bs : list Z) : option (list (list Z) * list Z) :=
  match n with
  | O => Some ([], bs)
  | S n' =>
      match take_limbs lw limbs bs with
      | None => None
      | Some (c, r) => match take_coeffs lw limbs n' r with Some (cs, r') => Some (c :: cs, r') | None => None end
      end
  end.

(* parse: returns the file and the number of bytes consumed (FromBytes / ReadFrom) *)
Definition parse (lw limbs : nat) (bs : list Z) : option (sysfile * nat) :=
  match take 8 bs with None => None | Some (htot, r0) =>
  match take 8 r0 with None => None | Some (hma, r1) =>
  match take 8 r1 with None => None | Some (hmi, r2) =>
  match take 8 r2 with None => None | Some (hpa, r3) =>
  match take (Z.to_nat (le_dec htot)) r3 with None => None | Some (payload, _) =>
  match take 8 payload with None => None | Some (h1, p1) =>
  match take 8 p1 with None => None | Some (h2, p2) =>
  match take 8 p2 with None => None | Some (h3, p3) =>
  match take 8 p3 with None => None | Some (h4, p4) =>
  match take (Z.to_nat (le_dec h1)) p4 with None => None | Some (lv, p5) =>
  match take (Z.to_nat (le_dec h2)) p5 with None => None | Some (ins, p6) =>
  match take (Z.to_nat (le_dec h3)) p6 with None => None | Some (cd, p7) =>
  match take (Z.to_nat (le_dec h4)) p7 with None => None | Some (body, p8) =>
  match take 8 p8 with None => None | Some (hc, p9) =>
  match take_coeffs lw limbs (Z.to_nat (le_dec hc)) p9 with None => None | Some (cs, _) =>
    Some ({| sf_version := (le_dec hma, le_dec hmi, le_dec hpa);
             sf_levels := lv; sf_instructions := ins; sf_calldata := cd; sf_body := body; sf_coeffs := cs |},
          (32 + Z.to_nat (le_dec htot))%nat)
  end end end end end end end end end end end end end end end.

(* ---------------------------------------------------------------- round trip *)

Definition wf_sysfile (lw limbs : nat) (s : sysfile) : Prop :=
  let '(ma, mi, pa) := sf_version s in
  0 <= ma < 2 ^ 64 /\ 0 <= mi < 2 ^ 64 /\ 0 <= pa < 2 ^ 64 /\
  Z.of_nat (length (serialize lw s)) < 2 ^ 64 /\ Z.of_nat (length (sf_coeffs s)) < 2 ^ 64 /\
  (forall c, In c (sf_coeffs s) -> length c = limbs /\ forall l, In l c -> 0 <= l < 256 ^ (Z.of_nat lw)).

Lemma u64_roundtrip z : 0 <= z < 2 ^ 64 -> le_dec (u64 z) = z.
Proof. intros H. apply (le_roundtrip 8). exact H. Qed.

Lemma u64_length z : length (u64 z) = 8%nat. Proof. apply le_enc_length. Qed.

Lemma take_limbs_roundtrip lw : forall c rest, (forall l, In l c -> 0 <= l < 256 ^ (Z.of_nat lw)) ->
  take_limbs lw (length c) (flat_map (le_enc lw) c ++ rest) = Some (c, rest).
Proof.
  induction c as [|l c IH]; intros rest H; cbn [length take_limbs flat_map]; [reflexivity|].
  rewrite <- app_assoc, take_app by apply le_enc_length.
  rewrite IH by (intros y Hy; apply H; right; exact Hy).
  rewrite le_roundtrip by (apply H; left; reflexivity). reflexivity.
Qed.

Lemma take_coeffs_roundtrip lw limbs : forall cs rest,
  (forall c, In c cs -> length c = limbs /\ forall l, In l c -> 0 <= l < 256 ^ (Z.of_nat lw)) ->
  take_coeffs lw limbs (length cs) (flat_map (flat_map (le_enc lw)) cs ++ rest) = Some (cs, rest).
Proof.
  induction cs as [|c cs IH]; intros rest H; cbn [length take_coeffs flat_map]; [reflexivity|].
  destruct (H c (or_introl eq_refl)) as [Hl Hc]. rewrite <- app_assoc, <- Hl.
  rewrite take_limbs_roundtrip by exact Hc. rewrite Hl.
  rewrite IH by (intros y Hy; apply H; right; exact Hy). reflexivity.
Qed.

Lemma take_all a : take (length a) a = Some (a, []).
Proof. rewrite <- (app_nil_r a) at 2. apply take_app. reflexivity. Qed.

Lemma len_bound (a : list Z) (b : list Z) : Z.of_nat (length (a ++ b)) < 2 ^ 64 -> 0 <= Z.of_nat (length b) < 2 ^ 64.
Proof. rewrite app_length. lia. Qed.

(* decode (encode s) = s on every serialized field, and the byte count reported by the reader
   equals the number of bytes the writer produced *)
Theorem container_roundtrip lw limbs s : wf_sysfile lw limbs s ->
  parse lw limbs (serialize lw s) = Some (s, length (serialize lw s)).
Proof.
  destruct s as [[[ma mi] pa] lv ins cd body cs]. unfold wf_sysfile, serialize, system_bytes, coeff_bytes.
  cbn [sf_version sf_levels sf_instructions sf_calldata sf_body sf_coeffs].
  intros (Hma & Hmi & Hpa & Hlen & Hncs & Hcs).
  set (payload := (u64 (Z.of_nat (length lv)) ++ u64 (Z.of_nat (length ins)) ++ u64 (Z.of_nat (length cd)) ++
                   u64 (Z.of_nat (length body)) ++ lv ++ ins ++ cd ++ body) ++
                  u64 (Z.of_nat (length cs)) ++ flat_map (flat_map (le_enc lw)) cs) in *.
  assert (Lp : 0 <= Z.of_nat (length payload) < 2 ^ 64).
  { rewrite !app_length, !u64_length in Hlen. lia. }
  assert (Bound : forall l : list Z, (length l <= length payload)%nat -> 0 <= Z.of_nat (length l) < 2 ^ 64) by (intros; lia).
  unfold parse.
  rewrite take_app by apply u64_length. rewrite take_app by apply u64_length.
  rewrite take_app by apply u64_length. rewrite take_app by apply u64_length.
  rewrite !u64_roundtrip by assumption. rewrite Nat2Z.id.
  rewrite take_all.
  unfold payload at 1. rewrite <- !app_assoc.
  rewrite take_app by apply u64_length. rewrite take_app by apply u64_length.
  rewrite take_app by apply u64_length. rewrite take_app by apply u64_length.
  assert (Llv : (length lv <= length payload)%nat) by (unfold payload; rewrite !app_length; lia).
  assert (Lins : (length ins <= length payload)%nat) by (unfold payload; rewrite !app_length; lia).
  assert (Lcd : (length cd <= length payload)%nat) by (unfold payload; rewrite !app_length; lia).
  assert (Lbody : (length body <= length payload)%nat) by (unfold payload; rewrite !app_length; lia).
  rewrite !u64_roundtrip by (apply Bound; assumption). rewrite !Nat2Z.id.
  rewrite take_app by reflexivity. rewrite take_app by reflexivity.
  rewrite take_app by reflexivity. rewrite take_app by reflexivity.
  rewrite take_app by apply u64_length.
  rewrite u64_roundtrip by lia. rewrite Nat2Z.id.
  rewrite <- (app_nil_r (flat_map (flat_map (le_enc lw)) cs)).
  rewrite take_coeffs_roundtrip by exact Hcs.
  f_equal; f_equal; rewrite ?app_length, ?u64_length; lia.
Qed.

(* the premises of [container_roundtrip] are satisfiable by a non-trivial file *)
Definition example_sysfile : sysfile :=
  {| sf_version := (0, 11, 0); sf_levels := [1; 2]; sf_instructions := [3]; sf_calldata := calldata_enc [7; 300];
     sf_body := [9; 9; 9]; sf_coeffs := [[0; 0]; [5; 18446744073709551615]] |}.

Lemma example_sysfile_wf : wf_sysfile 8 2 example_sysfile.
Proof.
  unfold wf_sysfile, example_sysfile. cbn [sf_version sf_coeffs].
  split; [lia|]. split; [lia|]. split; [lia|]. split; [vm_compute; reflexivity|]. split; [vm_compute; reflexivity|].
  intros c [<-|[<-|[]]]; (split; [reflexivity|]); intros l [<-|[<-|[]]]; vm_compute; split; congruence.
Qed.
