(* Shape-level models of groth16.Verify and plonk.Verify on untrusted proofs (C08): only the
   lengths of the variable-length parts and the verdicts of the cryptographic sub-checks matter
   for "returns an error, never panics".  Every slice index of the Go code goes through [idx],
   which yields [Panic] out of range, in the order the code performs them.

   Verdicts of gnark-crypto routines (subgroup tests, Pedersen batch verification, KZG batch
   opening, pairing product) are parameters [oracle bits]: the model is total over them. *)
From Coq Require Import List Arith Bool Lia.
From GnarkV Require Import Base.Res.
Import ListNotations.

Definition idx {A} (l : list A) (i : nat) : res A :=
  match nth_error l i with Some x => Ok x | None => Panic end.

(* ---------------------------------------------------------------- Groth16 *)

Record g16_in := {
  g_vk_nbK : nat;                       (* len(vk.G1.K) *)
  g_vk_committed : list (list nat);     (* vk.PublicAndCommitmentCommitted (1-based public indices) *)
  g_vk_nb_ckeys : nat;                  (* len(vk.CommitmentKeys) *)
  g_wit : nat;                          (* len(publicWitness) *)
  g_commitments : nat;                  (* len(proof.Commitments) *)
  g_points_valid : bool;                (* proof.isValid() *)
  g_pok_ok : bool;                      (* pedersen.BatchVerifyMultiVk *)
  g_pairing_ok : bool }.

Inductive verdict := Accept | Reject.

(* [count_check] = true: the repaired verifier (commitment count compared with the key up front) *)
Definition g16_verify (count_check : bool) (x : g16_in) : res verdict :=
  let nb_public := g_vk_nbK x - length (g_vk_committed x) in
  if negb (Nat.eqb (g_wit x) (nb_public - 1)) then Ok Reject else
  if count_check && negb (Nat.eqb (g_commitments x) (length (g_vk_committed x))) then Ok Reject else
  if negb (g_points_valid x) then Ok Reject else
  (* for i := range vk.PublicAndCommitmentCommitted: proof.Commitments[i], publicWitness[idx-1] (the
     witness grows by one challenge per iteration) *)
  let fix loop (i : nat) (cs : list (list nat)) (wit_len : nat) : res nat :=
      match cs with
      | [] => Ok wit_len
      | c :: cs' =>
          do _ <- idx (repeat tt (g_commitments x)) i;
          do _ <- (fix each (js : list nat) : res unit :=
                     match js with
                     | [] => Ok tt
                     | j :: js' => if Nat.ltb (j - 1) wit_len && negb (Nat.eqb j 0) then each js' else Panic
                     end) c;
          loop (S i) cs' (S wit_len)
      end in
  do wl <- loop 0 (g_vk_committed x) (g_wit x);
  if negb (Nat.eqb (g_vk_nb_ckeys x) 0) && negb (g_pok_ok x) then Ok Reject else
  (* MultiExp(vk.G1.K[1:], publicWitness): gnark-crypto returns an error on a length mismatch *)
  if negb (Nat.eqb wl (g_vk_nbK x - 1)) then Ok Reject else
  if g_pairing_ok x then Ok Accept else Ok Reject.

(* a verifying key produced by Setup: committed indices refer to public inputs *)
Definition g16_vk_wf (x : g16_in) : Prop :=
  length (g_vk_committed x) < g_vk_nbK x /\
  forall c j, In c (g_vk_committed x) -> In j c -> 1 <= j < g_vk_nbK x - length (g_vk_committed x).

Lemma g16_loop_ok x : forall cs i wl,
  (forall c j, In c cs -> In j c -> 1 <= j <= wl) -> i + length cs <= g_commitments x ->
  exists r,
  (fix loop (i : nat) (cs : list (list nat)) (wit_len : nat) : res nat :=
      match cs with
      | [] => Ok wit_len
      | c :: cs' =>
          do _ <- idx (repeat tt (g_commitments x)) i;
          do _ <- (fix each (js : list nat) : res unit :=
                     match js with
                     | [] => Ok tt
                     | j :: js' => if Nat.ltb (j - 1) wit_len && negb (Nat.eqb j 0) then each js' else Panic
                     end) c;
          loop (S i) cs' (S wit_len)
      end) i cs wl = Ok r.
Proof.
  induction cs as [|c cs IH]; intros i wl Hc Hi; [eexists; reflexivity|].
  cbn [length] in Hi.
  assert (E : idx (repeat tt (g_commitments x)) i = Ok tt).
  { unfold idx. destruct (nth_error (repeat tt (g_commitments x)) i) as [[]|] eqn:N; [reflexivity|].
    apply nth_error_None in N. rewrite repeat_length in N. lia. }
  rewrite E. cbn [bind].
  assert (Each : forall js, (forall j, In j js -> 1 <= j <= wl) ->
     (fix each (js : list nat) : res unit :=
        match js with
        | [] => Ok tt
        | j :: js' => if Nat.ltb (j - 1) wl && negb (Nat.eqb j 0) then each js' else Panic
        end) js = Ok tt).
  { induction js as [|j js IHj]; intros Hj; [reflexivity|].
    assert (1 <= j <= wl) by (apply Hj; left; reflexivity).
    replace (Nat.ltb (j - 1) wl) with true by (symmetry; apply Nat.ltb_lt; lia).
    replace (Nat.eqb j 0) with false by (symmetry; apply Nat.eqb_neq; lia).
    cbn [andb negb]. apply IHj. intros j' Hj'. apply Hj. right. exact Hj'. }
  rewrite (Each c) by (intros j Hj; apply (Hc c j); [left; reflexivity|exact Hj]). cbn [bind].
  apply IH; [|lia]. intros c' j Hc' Hj. specialize (Hc c' j (or_intror Hc') Hj). lia.
Qed.

(* C08: the repaired Groth16 verifier never panics, whatever the proof and the witness are *)
Theorem g16_verify_no_panic x : g16_vk_wf x -> g16_verify true x <> Panic.
Proof.
  intros [Hlen Hidx]. unfold g16_verify.
  destruct (negb (Nat.eqb (g_wit x) _)) eqn:E1; [discriminate|].
  cbn [andb]. destruct (negb (Nat.eqb (g_commitments x) _)) eqn:E2; [discriminate|].
  destruct (negb (g_points_valid x)); [discriminate|].
  apply negb_false_iff, Nat.eqb_eq in E1, E2.
  destruct (g16_loop_ok x (g_vk_committed x) 0 (g_wit x)) as [r ->].
  - intros c j Hc Hj. specialize (Hidx c j Hc Hj). lia.
  - lia.
  - cbn [bind]. destruct (_ && _); [discriminate|]. destruct (negb _); [discriminate|].
    destruct (g_pairing_ok x); discriminate.
Qed.

(* any commitment-count mismatch is an error *)
Theorem g16_count_mismatch_rejected x :
  g_commitments x <> length (g_vk_committed x) -> g16_verify true x = Ok Reject.
Proof.
  intros H. unfold g16_verify. destruct (negb (Nat.eqb (g_wit x) _)); [reflexivity|].
  cbn [andb]. replace (Nat.eqb (g_commitments x) (length (g_vk_committed x))) with false
    by (symmetry; apply Nat.eqb_neq; exact H). reflexivity.
Qed.

(* the verifier as it was before the repair: a proof with fewer commitments than the key panics (F2) *)
Definition f2_input : g16_in :=
  {| g_vk_nbK := 3; g_vk_committed := [[1]]; g_vk_nb_ckeys := 1; g_wit := 1; g_commitments := 0;
     g_points_valid := true; g_pok_ok := true; g_pairing_ok := false |}.
Theorem g16_verify_unrepaired_panics : g16_vk_wf f2_input /\ g16_verify false f2_input = Panic.
Proof. split; [|reflexivity]. split; [cbn; lia|]. intros c j [<-|[]] [<-|[]]. cbn. lia. Qed.

(* ---------------------------------------------------------------- PLONK *)

Record plonk_in := {
  p_vk_qcp : nat;            (* len(vk.Qcp) *)
  p_vk_nb_public : nat;
  p_bsb : nat;               (* len(proof.Bsb22Commitments) *)
  p_wit : nat;
  p_claimed : nat;           (* len(proof.BatchedProof.ClaimedValues) *)
  p_points_valid : bool;
  p_algebraic_ok : bool;     (* constant term of the linearised polynomial *)
  p_kzg_ok : bool }.         (* FoldProof + BatchVerifyMultiPoints *)

Definition plonk_verify (claimed_check : bool) (x : plonk_in) : res verdict :=
  if negb (Nat.eqb (p_bsb x) (p_vk_qcp x)) then Ok Reject else
  if claimed_check && negb (Nat.eqb (p_claimed x) (6 + p_vk_qcp x)) then Ok Reject else
  if negb (Nat.eqb (p_wit x) (p_vk_nb_public x)) then Ok Reject else
  if negb (p_points_valid x) then Ok Reject else
  let cv := repeat tt (p_claimed x) in
  (* ClaimedValues[1..5], then [0], then copy(qC, ClaimedValues[6:]) (a slice expression: needs len >= 6) *)
  do _ <- idx cv 1; do _ <- idx cv 2; do _ <- idx cv 3; do _ <- idx cv 4; do _ <- idx cv 5;
  do _ <- idx cv 0;
  if Nat.ltb (p_claimed x) 6 then Panic else
  if negb (p_algebraic_ok x) then Ok Reject else
  (* digests and claimed values are handed to kzg.FoldProof, which returns an error on a length mismatch *)
  if negb (Nat.eqb (p_claimed x) (6 + p_vk_qcp x)) then Ok Reject else
  if p_kzg_ok x then Ok Accept else Ok Reject.

Theorem plonk_verify_no_panic x : plonk_verify true x <> Panic.
Proof.
  unfold plonk_verify. destruct (negb (Nat.eqb (p_bsb x) _)); [discriminate|].
  cbn [andb]. destruct (negb (Nat.eqb (p_claimed x) _)) eqn:E; [discriminate|].
  apply negb_false_iff, Nat.eqb_eq in E.
  destruct (negb (Nat.eqb (p_wit x) _)); [discriminate|]. destruct (negb (p_points_valid x)); [discriminate|].
  rewrite E. cbn [repeat Nat.add idx nth_error bind].
  repeat match goal with
  | |- context [Nat.ltb ?a ?b] => destruct (Nat.ltb_spec a b); [lia|]
  | |- context [if negb ?c then _ else _] => destruct (negb c); [discriminate|]
  | |- context [if p_kzg_ok x then _ else _] => destruct (p_kzg_ok x); discriminate
  end.
Qed.

Theorem plonk_count_mismatch_rejected x :
  p_bsb x <> p_vk_qcp x \/ p_claimed x <> 6 + p_vk_qcp x \/ p_wit x <> p_vk_nb_public x ->
  plonk_verify true x = Ok Reject.
Proof.
  intros H. unfold plonk_verify.
  destruct (Nat.eqb_spec (p_bsb x) (p_vk_qcp x)) as [E1|N1]; cbn [negb]; [|reflexivity].
  destruct (Nat.eqb_spec (p_claimed x) (6 + p_vk_qcp x)) as [E2|N2]; cbn [negb andb]; [|reflexivity].
  destruct (Nat.eqb_spec (p_wit x) (p_vk_nb_public x)) as [E3|N3]; cbn [negb]; [|reflexivity].
  exfalso. destruct H as [H|[H|H]]; contradiction.
Qed.

(* before the repair a proof with 3 claimed values panics (F3) *)
Definition f3_input : plonk_in :=
  {| p_vk_qcp := 0; p_vk_nb_public := 1; p_bsb := 0; p_wit := 1; p_claimed := 3;
     p_points_valid := true; p_algebraic_ok := true; p_kzg_ok := true |}.
Theorem plonk_verify_unrepaired_panics : plonk_verify false f3_input = Panic.
Proof. reflexivity. Qed.
