#!/bin/bash
# seed_round.sh <Cxx> : confirm and run the two round-C mutations of a sub-agent worktree /tmp/wtc-<Cxx>
# (out/mutA.diff, out/mutB.diff, out/demoA, out/demoB); results in $SD/<Cxx>/result_{A,B}.txt
id=$1; R=${ROUND:-C}; r=$(echo $R | tr A-Z a-z); wt=/tmp/wt$r-$id; SD=/tmp/seed$R
export GOFLAGS=-mod=mod GOPROXY=off GOSUMDB=off GOTOOLCHAIN=local
cd $wt || exit 2
git checkout -q -- .
git checkout -q --detach $(git -C /repo rev-parse HEAD)
for X in ${2:-A B}; do
  out=$SD/$id/result_$X.txt; : > $out
  [ -f out/mut$X.diff ] || { echo "no mut$X.diff" >> $out; continue; }
  go test -vet=off -count=1 ./out/demo$X/ > $SD/$id/demo_clean_$X.log 2>&1; echo "clean_demo_rc=$?" >> $out
  git apply out/mut$X.diff || { echo "APPLYFAIL" >> $out; continue; }
  go build ./... > $SD/$id/build_$X.log 2>&1; echo "build_rc=$?" >> $out
  go test -vet=off -count=1 ./out/demo$X/ > $SD/$id/demo_mut_$X.log 2>&1; echo "mut_demo_rc=$?" >> $out
  (cd /verif && VERIF_REPO=$wt ./check $id > $SD/$id/check_$X.log 2>&1; echo "check_rc=$?" >> $out)
  grep -c "^VIOLATION" $SD/$id/check_$X.log >> $out
  grep "^C[0-9][0-9]:" $SD/$id/check_$X.log | head -2 >> $out
  python3 - $id >> $out <<'PY'
import json,glob,sys
sigs={}
for f in sorted(glob.glob('/verif/replays/%s-*.json'%sys.argv[1])):
    try: r=json.load(open(f))
    except Exception: continue
    sigs.setdefault(r.get('signature') or r.get('kind'), (r.get('what') or str(r))[:260])
for k,v in list(sigs.items())[:6]: print("SIG", k, "::", v)
PY
  git checkout -q -- .
done
cat $SD/$id/result_*.txt
