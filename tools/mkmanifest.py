#!/usr/bin/env python3
"""Regenerate MANIFEST.json from lib/propcfg.py + properties.jsonl (run after adding a property)."""
import json, os, sys
ROOT = os.path.dirname(os.path.dirname(os.path.abspath(__file__)))
sys.path.insert(0, os.path.join(ROOT, "lib"))
from propcfg import PROPS
props = [json.loads(l) for l in open(os.path.join(ROOT, "properties.jsonl"))]
hooks_file = os.path.join(ROOT, "MANIFEST.hooks")
commits = []
if os.path.exists(hooks_file):
    for l in open(hooks_file):
        if l.startswith("commit "):
            commits.append(l.split()[1])
checks, na = [], []
for p in props:
    pid = p["id"]
    if pid in PROPS:
        c = PROPS[pid]
        checks.append({
            "property_id": pid,
            "quick_cmd": "./check %s --tier quick" % pid,
            "thorough_cmd": "./check %s --tier thorough" % pid,
            "evidence_file": "/verif/evidence/%s.json" % pid,
            "replay_cmd_template": "./check %s --replay {path}" % pid,
            "engine": "coq-model+correspondence",
            "level_claimed": {"category": c.get("level", "proof"),
                              "text": c.get("level_text", "Theorems in coq/theories/Props/%s.v proved for all inputs of the Gallina model; the model's executable definitions are evaluated by vm_compute on the inputs the real code was run on and must reproduce every observation (correspondence), and a model-independent oracle decides the property text on each explored case." % pid),
                              "design_ref": c.get("design_ref", "DESIGN.md section 5, " + pid)},
            "level_note": "; ".join(c.get("trusted_base", []) + c.get("assumptions", [])),
            "technique": c.get("technique", "machine-checked proof in Coq 8.16 of a Gallina model + differential correspondence check (vm_compute) against the Go implementation"),
        })
    else:
        na.append({"property_id": pid, "reason": "not claimed in this commit: model/harness not built yet (see DESIGN.md section 8, build order)"})
m = {
    "version": 1,
    "setup_cmd": "./setup.sh",
    "hooks": {"guard": "verif", "enable": "go build -tags verif (the harness module replaces github.com/consensys/gnark by /repo)",
              "baseline_off_cmd": "cd /repo && go test -vet=off -count=1 -timeout 25m ./...",
              "source_commits": commits, "add_only": True},
    "engines": [{"name": "coq-model+correspondence", "path": "/verif/check", "serves_properties": [c["property_id"] for c in checks],
                 "kind_free_text": "Coq 8.16.1 development under /verif/coq (models, theorems, Props/*.v) + Go harness /verif/harness built with -tags verif against /repo + python driver"}],
    "checks": checks,
    "notes": "Every check: full .vo build, harness rebuilt against the current /repo tree, real code run on seeded inputs, Gallina model evaluated on the same inputs by vm_compute, oracle verdicts; KNOWN_FINDINGS.jsonl lists recorded defects.",
    "not_applicable": na,
}
json.dump(m, open(os.path.join(ROOT, "MANIFEST.json"), "w"), indent=1)
print("claimed:", [c["property_id"] for c in checks])
