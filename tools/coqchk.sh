#!/bin/sh
# coqchk.sh [Module ...] : re-check compiled theories with Coq's independent checker and print the axioms
# they rely on.  Default: every Props module.  Expects the .vo files to be built (check / setup.sh do that).
cd "$(dirname "$0")/../coq" || exit 2
mods="$*"
if [ -z "$mods" ]; then
  mods=$(ls theories/Props/*.v | sed 's|theories/Props/\(.*\)\.v|GnarkV.Props.\1|')
fi
exec coqchk -silent -o -Q theories GnarkV $mods
