#!/usr/bin/env python3
# store_seed.py <Cxx> <A|B> <letter> <detected text>: copy a confirmed round-C mutation into seeded/<Cxx>-<letter>/
import sys, os, shutil, json, re
pid, X, letter, detected = sys.argv[1:5]
R = os.environ.get("ROUND", "C")
wt = "/tmp/wt%s-" % R.lower() + pid
dst = "/verif/seeded/%s-%s" % (pid, letter)
os.makedirs(dst, exist_ok=True)
shutil.copy(wt + "/out/mut%s.diff" % X, dst + "/patch.diff")
if os.path.isdir(dst + "/demo"):
    shutil.rmtree(dst + "/demo")
shutil.copytree(wt + "/out/demo%s" % X, dst + "/demo")
shutil.copy(wt + "/out/README.md", dst + "/AGENT_README.md")
res = open("/tmp/seed%s/%s/result_%s.txt" % (R, pid, X)).read()
readme = open(wt + "/out/README.md").read()
files = sorted(set(re.findall(r"^\+\+\+ b/(\S+)", open(dst + "/patch.diff").read(), re.M)))
meta = {
    "id": "%s-%s" % (pid, letter), "property": pid, "round": R,
    "files": files,
    "breaks": sys.argv[5] if len(sys.argv) > 5 else "see AGENT_README.md (mutation %s)" % X,
    "confirmed": "tools/seed_round.sh in the sub-agent's scratch worktree re-based on /repo HEAD: " + " ".join(l for l in res.splitlines() if "_rc=" in l and "check" not in l) + "; existing tests of the touched packages were run by the sub-agent with the patch applied (commands in AGENT_README.md)",
    "ran": "VERIF_REPO=<scratch worktree with patch> ./check %s" % pid,
    "detected": detected,
}
json.dump(meta, open(dst + "/meta.json", "w"), indent=1)
print("stored", dst)
