#!/bin/sh
# confirm_seed.sh <worktree> <patch> <demo-test-package-relative-to-worktree> [extra test packages...]
# Confirms: the patch applies and builds, the demo fails with it and passes without it, and the
# listed existing test packages pass with it.  Leaves the worktree clean.
set -u
WT=$1; PATCH=$2; DEMO=$3; shift 3
export GOFLAGS=-mod=mod GOPROXY=off GOSUMDB=off GOTOOLCHAIN=local
cd "$WT" || exit 2
git checkout -q -- . || exit 2
echo "== clean tree: demo must pass"
go test -vet=off -count=1 "$DEMO" > /tmp/confirm_clean.log 2>&1; C=$?
tail -2 /tmp/confirm_clean.log
git apply "$PATCH" || { echo "patch does not apply"; exit 2; }
echo "== mutated tree: build"
go build ./... > /tmp/confirm_build.log 2>&1; B=$?
echo "== mutated tree: demo must fail"
go test -vet=off -count=1 "$DEMO" > /tmp/confirm_mut.log 2>&1; M=$?
tail -3 /tmp/confirm_mut.log
T=0
if [ $# -gt 0 ]; then
  echo "== mutated tree: existing tests $*"
  go test -vet=off -count=1 "$@" > /tmp/confirm_tests.log 2>&1; T=$?
  grep -v "no test files" /tmp/confirm_tests.log | grep -v "^ok" | tail -5
fi
git checkout -q -- .
echo "RESULT clean_demo_rc=$C build_rc=$B mutated_demo_rc=$M existing_tests_rc=$T"
[ $C -eq 0 ] && [ $B -eq 0 ] && [ $M -ne 0 ] && [ $T -eq 0 ]
