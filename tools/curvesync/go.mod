module curvesync

go 1.23
