// curvesync: the per-curve packages of gnark (backend/groth16/<curve>, backend/plonk/<curve>,
// backend/groth16/<curve>/mpcsetup, constraint/<curve>) are instances of one template.  The models and
// most correspondence runs of /verif are tied to the bn254 instance; this tool regenerates, from the
// current source, the normalised text of every top-level function of every instance (curve names replaced
// by a token, comments dropped) and reports every function whose text differs from the reference instance
// or exists in one instance only.  Output: JSON {"diffs":[{group,file,func,curve,kind}], "functions":N}.
package main

import (
	"bytes"
	"crypto/sha256"
	"encoding/json"
	"fmt"
	"go/ast"
	"go/parser"
	"go/printer"
	"go/token"
	"os"
	"path/filepath"
	"regexp"
	"sort"
	"strings"
)

var curves = []string{"bls12-381", "bn254", "bls12-377", "bls24-315", "bls24-317", "bw6-633", "bw6-761"}

var curveRe = regexp.MustCompile(`(?i)(bn254|bls12[-_]?377|bls12[-_]?381|bls24[-_]?315|bls24[-_]?317|bw6[-_]?633|bw6[-_]?761)`)

type diff struct {
	Group string `json:"group"`
	File  string `json:"file"`
	Func  string `json:"func"`
	Curve string `json:"curve"`
	Kind  string `json:"kind"` // differs | missing | extra
}

func funcsOf(path string) (map[string]string, error) {
	fset := token.NewFileSet()
	f, err := parser.ParseFile(fset, path, nil, 0)
	if err != nil {
		return nil, err
	}
	out := map[string]string{}
	for _, d := range f.Decls {
		fd, ok := d.(*ast.FuncDecl)
		if !ok {
			continue
		}
		name := fd.Name.Name
		if fd.Recv != nil && len(fd.Recv.List) > 0 {
			var b bytes.Buffer
			printer.Fprint(&b, fset, fd.Recv.List[0].Type)
			name = "(" + b.String() + ")." + name
		}
		var b bytes.Buffer
		printer.Fprint(&b, token.NewFileSet(), fd)
		txt := curveRe.ReplaceAllString(b.String(), "CURVE")
		out[curveRe.ReplaceAllString(name, "CURVE")] = fmt.Sprintf("%x", sha256.Sum256([]byte(txt)))[:16]
	}
	return out, nil
}

func main() {
	repo := os.Args[1]
	groups := []string{"backend/groth16/%s", "backend/plonk/%s", "backend/groth16/%s/mpcsetup", "constraint/%s"}
	var diffs []diff
	nfuncs := 0
	for _, g := range groups {
		ref := filepath.Join(repo, fmt.Sprintf(g, curves[0]))
		ents, err := os.ReadDir(ref)
		if err != nil {
			fmt.Fprintln(os.Stderr, err)
			os.Exit(2)
		}
		files := map[string]bool{}
		for _, c := range curves {
			es, _ := os.ReadDir(filepath.Join(repo, fmt.Sprintf(g, c)))
			for _, e := range es {
				n := e.Name()
				if strings.HasSuffix(n, ".go") && !strings.HasSuffix(n, "_test.go") && !strings.HasPrefix(n, "verif_") {
					files[n] = true
				}
			}
		}
		_ = ents
		var names []string
		for n := range files {
			names = append(names, n)
		}
		sort.Strings(names)
		for _, n := range names {
			rf, err := funcsOf(filepath.Join(ref, n))
			if err != nil {
				rf = nil
			}
			for _, c := range curves[1:] {
				cf, err := funcsOf(filepath.Join(repo, fmt.Sprintf(g, c), n))
				if err != nil {
					if rf != nil {
						diffs = append(diffs, diff{g, n, "*", c, "missing"})
					}
					continue
				}
				if rf == nil {
					for fn := range cf {
						diffs = append(diffs, diff{g, n, fn, c, "extra"})
					}
					continue
				}
				for fn, h := range rf {
					nfuncs++
					h2, ok := cf[fn]
					switch {
					case !ok:
						diffs = append(diffs, diff{g, n, fn, c, "missing"})
					case h != h2:
						diffs = append(diffs, diff{g, n, fn, c, "differs"})
					}
				}
				for fn := range cf {
					if _, ok := rf[fn]; !ok {
						diffs = append(diffs, diff{g, n, fn, c, "extra"})
					}
				}
			}
		}
	}
	sort.Slice(diffs, func(i, j int) bool {
		a, b := diffs[i], diffs[j]
		return a.Group+a.File+a.Func+a.Curve < b.Group+b.File+b.Func+b.Curve
	})
	json.NewEncoder(os.Stdout).Encode(map[string]interface{}{"diffs": diffs, "functions": nfuncs})
}
