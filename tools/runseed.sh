#!/bin/bash
# usage: runseed.sh <wt> <patch> <Cxx>
wt=$1; patch=$2; id=$3
git -C $wt checkout -q --detach $(git -C /repo rev-parse HEAD) 2>&1 | tail -2
git -C $wt apply $patch || { echo APPLYFAIL; exit 2; }
cd /verif && VERIF_REPO=$wt ./check $id 2>&1 | tail -8
git -C $wt checkout -q -- . 
