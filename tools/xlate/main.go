// xlate: source -> Gallina translators for facts the proofs are about.
//
//	xlate nondet <repo> <out.v>   lists every source of nondeterminism (range over a map, go
//	                              statement, select, sync.Pool use, time/rand use) in the packages
//	                              that take part in circuit compilation, with a hash of the loop body.
package main

import (
	"crypto/sha256"
	"fmt"
	"go/ast"
	"go/printer"
	"go/token"
	"go/types"
	"os"
	"sort"
	"strings"

	"golang.org/x/tools/go/packages"
)

var compilePkgs = []string{
	"github.com/consensys/gnark/frontend/...",
	"github.com/consensys/gnark/constraint",
	"github.com/consensys/gnark/constraint/bn254",
	"github.com/consensys/gnark/constraint/tinyfield",
	"github.com/consensys/gnark/constraint/solver",
	"github.com/consensys/gnark/internal/kvstore",
	"github.com/consensys/gnark/internal/utils",
	"github.com/consensys/gnark/internal/frontendtype",
	"github.com/consensys/gnark/std/...",
}

type site struct {
	File, Func, Kind, Detail, Hash string
	Line                           int
}

func main() {
	if len(os.Args) < 4 || os.Args[1] != "nondet" {
		fmt.Println("usage: xlate nondet <repo> <out.v>")
		os.Exit(2)
	}
	repo, out := os.Args[2], os.Args[3]
	cfg := &packages.Config{Mode: packages.NeedName | packages.NeedFiles | packages.NeedSyntax | packages.NeedTypes | packages.NeedTypesInfo, Dir: repo, Tests: false,
		Env: append(os.Environ(), "GOFLAGS=-mod=mod", "GOPROXY=off", "GOSUMDB=off", "GOTOOLCHAIN=local")}
	pkgs, err := packages.Load(cfg, compilePkgs...)
	if err != nil {
		fmt.Println("load:", err)
		os.Exit(1)
	}
	var sites []site
	seenGlobal := map[string]bool{}
	for _, p := range pkgs {
		if len(p.Errors) > 0 {
			fmt.Println("package errors:", p.PkgPath, p.Errors[0])
			os.Exit(1)
		}
		for _, f := range p.Syntax {
			fname := strings.TrimPrefix(p.Fset.Position(f.Pos()).Filename, repo+"/")
			if strings.HasSuffix(fname, "_test.go") {
				continue
			}
			var curFunc string
			ast.Inspect(f, func(n ast.Node) bool {
				switch x := n.(type) {
				case *ast.FuncDecl:
					curFunc = x.Name.Name
					if x.Recv != nil && len(x.Recv.List) > 0 {
						var sb strings.Builder
						printer.Fprint(&sb, token.NewFileSet(), x.Recv.List[0].Type)
						curFunc = strings.TrimPrefix(strings.SplitN(sb.String(), "[", 2)[0], "*") + "." + curFunc
					}
				case *ast.RangeStmt:
					if t := p.TypesInfo.TypeOf(x.X); t != nil {
						if _, ok := t.Underlying().(*types.Map); ok {
							var sb strings.Builder
							printer.Fprint(&sb, token.NewFileSet(), x.Body)
							body := strings.Join(strings.Fields(sb.String()), " ")
							var xs strings.Builder
							printer.Fprint(&xs, token.NewFileSet(), x.X)
							sites = append(sites, site{fname, curFunc, "maprange", xs.String(), fmt.Sprintf("%x", sha256.Sum256([]byte(body)))[:12], p.Fset.Position(x.Pos()).Line})
						}
					}
				case *ast.Ident:
					// package-level variables of the scanned packages that function bodies use: state that
					// survives a compilation (caches, counters, registries)
					if curFunc != "" {
						if v, ok := p.TypesInfo.Uses[x].(*types.Var); ok && !v.IsField() && v.Pkg() != nil && v.Parent() == v.Pkg().Scope() && strings.HasPrefix(v.Pkg().Path(), "github.com/consensys/gnark") {
							key := fname + "|" + v.Pkg().Path() + "." + v.Name()
							ts := types.TypeString(v.Type(), func(p *types.Package) string { return p.Name() })
							// only state that can change after initialisation: maps, slices, pointers, sync primitives
							mutable := strings.HasPrefix(ts, "map[") || strings.HasPrefix(ts, "[]") || strings.HasPrefix(ts, "*") || strings.HasPrefix(ts, "sync.") || strings.Contains(ts, "Pool") || strings.HasPrefix(ts, "atomic.") || ts == "int" || ts == "uint64" || ts == "bool"
							if mutable && !seenGlobal[key] {
								seenGlobal[key] = true
								sites = append(sites, site{fname, "", "global", strings.TrimPrefix(v.Pkg().Path(), "github.com/consensys/gnark/") + "." + v.Name(), ts, 0})
							}
						}
					}
				case *ast.GoStmt:
					sites = append(sites, site{fname, curFunc, "go", "", "", p.Fset.Position(x.Pos()).Line})
				case *ast.SelectStmt:
					sites = append(sites, site{fname, curFunc, "select", "", "", p.Fset.Position(x.Pos()).Line})
				case *ast.SelectorExpr:
					if id, ok := x.X.(*ast.Ident); ok {
						if obj, ok := p.TypesInfo.Uses[id].(*types.PkgName); ok {
							pp := obj.Imported().Path()
							if pp == "math/rand" || pp == "crypto/rand" || (pp == "time" && x.Sel.Name == "Now") || (pp == "sync" && x.Sel.Name == "Pool") {
								sites = append(sites, site{fname, curFunc, "use:" + pp + "." + x.Sel.Name, "", "", p.Fset.Position(x.Pos()).Line})
							}
						}
					}
				}
				return true
			})
		}
	}
	sort.Slice(sites, func(i, j int) bool {
		if sites[i].File != sites[j].File {
			return sites[i].File < sites[j].File
		}
		if sites[i].Line != sites[j].Line {
			return sites[i].Line < sites[j].Line
		}
		return sites[i].Detail < sites[j].Detail
	})
	var sb strings.Builder
	sb.WriteString("(* generated by tools/xlate nondet from the current source: do not edit *)\nFrom Coq Require Import List String.\nFrom GnarkV Require Import Det.Sites.\nImport ListNotations.\nLocal Open Scope string_scope.\n")
	sb.WriteString("(* (file, function, kind, ranged expression, hash of the loop body) *)\nDefinition nondet_sites : list (string * string * string * string * string) := [\n")
	for i, s := range sites {
		sep := ";"
		if i == len(sites)-1 {
			sep = ""
		}
		fmt.Fprintf(&sb, "  (%q, %q, %q, %q, %q)%s\n", s.File, s.Func, s.Kind, s.Detail, s.Hash, sep)
	}
	sb.WriteString("].\n")
	sb.WriteString("Definition mism_c11_unreviewed_sites := Eval vm_compute in sites_unreviewed nondet_sites.\nPrint mism_c11_unreviewed_sites.\n")
	sb.WriteString("Definition mism_c11_vanished_sites := Eval vm_compute in sites_gone nondet_sites.\nPrint mism_c11_vanished_sites.\n")
	if err := os.WriteFile(out, []byte(sb.String()), 0o644); err != nil {
		fmt.Println(err)
		os.Exit(1)
	}
	fmt.Printf("%d sites\n", len(sites))
}
