#!/usr/bin/env python3
"""Scan the Coq development for forbidden vernacular (outside comments and strings)."""
import re, sys, os
root = sys.argv[1] if len(sys.argv) > 1 else os.path.join(os.path.dirname(os.path.dirname(os.path.abspath(__file__))), "coq", "theories")
pat = re.compile(r"\b(Admitted|admit|Axiom|Axioms|Parameter|Parameters|Conjecture|Admit\s+Obligations|bypass_check|Unset\s+Guard\s+Checking|Unset\s+Positivity\s+Checking|Unset\s+Universe\s+Checking|native_compute)\b")
def strip(s):
    out, depth, i, instr = [], 0, 0, False
    while i < len(s):
        if not instr and s.startswith("(*", i):
            depth += 1; i += 2; continue
        if not instr and depth and s.startswith("*)", i):
            depth -= 1; i += 2; continue
        c = s[i]
        if depth == 0:
            if c == '"':
                instr = not instr
            out.append(c if not instr or c == '"' else " ")
        elif c == "\n":
            out.append("\n")
        i += 1
    return "".join(out)
bad = 0
for d, _, fs in os.walk(root):
    for f in fs:
        if f.endswith(".v"):
            p = os.path.join(d, f)
            txt = strip(open(p).read())
            for n, line in enumerate(txt.split("\n"), 1):
                m = pat.search(line)
                if m:
                    print("%s:%d: forbidden vernacular: %s" % (p, n, m.group(0))); bad += 1
            # Variable / Hypothesis outside a section
            depth = 0
            for n, line in enumerate(txt.split("\n"), 1):
                if re.match(r"\s*Section\s+\w+", line): depth += 1
                elif re.match(r"\s*End\s+\w+", line) and depth: depth -= 1
                elif depth == 0 and re.match(r"\s*(Variable|Variables|Hypothesis|Hypotheses|Context)\b", line):
                    print("%s:%d: Variable/Hypothesis outside a section" % (p, n)); bad += 1
sys.exit(1 if bad else 0)
