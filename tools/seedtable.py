#!/usr/bin/env python3
# prints the markdown rows of DESIGN.md A.7 for the seeds of rounds C-F (letters C..L) from seeded/*/meta.json
import json, glob
rows = []
for d in sorted(glob.glob('/verif/seeded/C??-[C-L]')):
    m = json.load(open(d + '/meta.json'))
    det = m['detected']
    kind = 'at first' if det.startswith('caught') else ('pre-strengthened' if det.startswith('strengthened') else 'after')
    rows.append("| %s | %s | %s: %s |" % (m['id'], m['breaks'].replace('|', '/'), kind, det.replace('|', '/')))
print("\n".join(rows))

# with --update: rewrite the table between the markers of DESIGN.md
import sys
if "--update" in sys.argv:
    p = '/verif/DESIGN.md'
    s = open(p).read()
    a, b = s.index("<!-- SEEDTABLE-BEGIN -->"), s.index("<!-- SEEDTABLE-END -->")
    s = s[:a] + "<!-- SEEDTABLE-BEGIN -->\n| seed | change | outcome |\n|------|--------|---------|\n" + "\n".join(rows) + "\n" + s[b:]
    open(p, 'w').write(s)
