#!/usr/bin/env python3
# prints the markdown rows of DESIGN.md A.7 for the seeds of rounds C / D (letters C..F) from seeded/*/meta.json
import json, glob
rows = []
for d in sorted(glob.glob('/verif/seeded/C??-[C-F]')):
    m = json.load(open(d + '/meta.json'))
    det = m['detected']
    kind = 'at first' if det.startswith('caught') else ('pre-strengthened' if det.startswith('strengthened') else 'after')
    rows.append("| %s | %s | %s: %s |" % (m['id'], m['breaks'].replace('|', '/'), kind, det.replace('|', '/')))
print("\n".join(rows))
