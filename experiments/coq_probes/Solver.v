From Coq Require Import Arith Lia Field List Bool.
Import ListNotations.

Section Solver.
Variable F : Type.
Variables (zero one : F) (add mul sub : F -> F -> F) (opp : F -> F) (div : F -> F -> F) (inv : F -> F).
Hypothesis Fth : field_theory zero one add mul sub opp div inv (@eq F).
Add Field Ff : Fth.
Hypothesis eq_dec : forall x y : F, {x = y} + {x <> y}.
Notation "0" := zero. Notation "1" := one.
Infix "+" := add. Infix "*" := mul. Infix "-" := sub. Infix "/" := div.

Definition term := (F * nat)%type.           (* coefficient value, wire *)
Definition lexp := list term.
Record r1c := { cL : lexp; cR : lexp; cO : lexp }.
Definition vals := nat -> option F.

Inductive res (A : Type) := Ok (a : A) | Unsat (i : nat) | Panic.
Arguments Ok {A}. Arguments Unsat {A}. Arguments Panic {A}.

(* accumulate solved terms, collect the unsolved ones (processLExp) *)
Fixpoint scan (v : vals) (l : lexp) : F * list term :=
  match l with
  | [] => (0, [])
  | (k, x) :: l' =>
      let '(acc, us) := scan v l' in
      match v x with Some y => (k * y + acc, us) | None => (acc, (k, x) :: us) end
  end.

Definition set (v : vals) (x : nat) (y : F) : vals := fun z => if Nat.eqb z x then Some y else v z.

(* solveR1C *)
Definition step (i : nat) (v : vals) (c : r1c) : res vals :=
  let '(a, ua) := scan v (cL c) in
  let '(b, ub) := scan v (cR c) in
  let '(o, uo) := scan v (cO c) in
  match ua, ub, uo with
  | [], [], [] => if eq_dec (a * b) o then Ok v else Unsat i
  | [(k, x)], [], [] =>
      if eq_dec k 0 then Panic else
      if eq_dec b 0 then (if eq_dec (a * b) o then Ok (set v x 0) else Unsat i)
      else Ok (set v x ((o / b - a) / k))
  | [], [(k, x)], [] =>
      if eq_dec k 0 then Panic else
      if eq_dec a 0 then (if eq_dec (a * b) o then Ok (set v x 0) else Unsat i)
      else Ok (set v x ((o / a - b) / k))
  | [], [], [(k, x)] =>
      if eq_dec k 0 then Panic else Ok (set v x ((a * b - o) / k))
  | _, _, _ => Panic
  end.

Fixpoint run (i : nat) (v : vals) (cs : list r1c) : res vals :=
  match cs with
  | [] => Ok v
  | c :: cs' => match step i v c with Ok v' => run (S i) v' cs' | Unsat j => Unsat j | Panic => Panic end
  end.

(* semantics *)
Definition solved_in (v : vals) (l : lexp) : Prop := forall k x, In (k, x) l -> v x <> None.
Fixpoint ev (v : vals) (l : lexp) : F :=
  match l with [] => 0 | (k, x) :: l' => k * (match v x with Some y => y | None => 0 end) + ev v l' end.
Definition holds (v : vals) (c : r1c) : Prop :=
  solved_in v (cL c) /\ solved_in v (cR c) /\ solved_in v (cO c) /\ ev v (cL c) * ev v (cR c) = ev v (cO c).
Definition extends (v v' : vals) : Prop := forall x y, v x = Some y -> v' x = Some y.

Lemma scan_spec v l : forall acc us, scan v l = (acc, us) ->
  ev v l = acc /\ (forall k x, In (k, x) us -> v x = None /\ In (k, x) l) /\
  (forall k x, In (k, x) l -> v x = None -> In (k, x) us).
Proof.
  induction l as [|[k x] l IH]; intros acc us H; cbn [scan ev] in *.
  - injection H as <- <-. repeat split; intros; try contradiction.
  - destruct (scan v l) as [acc' us'] eqn:E. specialize (IH acc' us' eq_refl). destruct IH as [IH1 [IH2 IH3]].
    destruct (v x) as [y|] eqn:Ex.
    + injection H as <- <-. rewrite IH1. split; [ring|]. split.
      * intros k0 x0 Hin. destruct (IH2 k0 x0 Hin). split; [assumption|right; assumption].
      * intros k0 x0 [Heq|Hin] Hn; [injection Heq as <- <-; congruence|auto].
    + injection H as <- <-. rewrite IH1. split; [ring|]. split.
      * intros k0 x0 [Heq|Hin]; [injection Heq as <- <-; split; [assumption|left; reflexivity]|destruct (IH2 k0 x0 Hin); split; [assumption|right; assumption]].
      * intros k0 x0 [Heq|Hin] Hn; [left; assumption|right; auto].
Qed.

Lemma ev_ext v v' l : extends v v' -> solved_in v l -> ev v' l = ev v l.
Proof.
  intros He Hs. induction l as [|[k x] l IH]; cbn [ev]; [reflexivity|].
  rewrite IH by (intros k0 x0 Hin; apply (Hs k0 x0); right; exact Hin).
  destruct (v x) as [y|] eqn:E; [rewrite (He x y E); reflexivity|exfalso; apply (Hs k x); [left; reflexivity|exact E]].
Qed.

Lemma holds_ext v v' c : extends v v' -> holds v c -> holds v' c.
Proof.
  intros He [HL [HR [HO Heq]]].
  assert (S : forall l, solved_in v l -> solved_in v' l).
  { intros l Hs k x Hin Hn. specialize (Hs k x Hin). destruct (v x) as [y|] eqn:E; [rewrite (He x y E) in Hn; discriminate|congruence]. }
  repeat split; auto. rewrite !(ev_ext v v') by assumption. exact Heq.
Qed.

Lemma extends_set v x y : v x = None -> extends v (set v x y).
Proof. intros Hn z w Hz. unfold set. destruct (Nat.eqb z x) eqn:E; [apply Nat.eqb_eq in E; subst; congruence|exact Hz]. Qed.

Lemma extends_refl v : extends v v. Proof. intros x y H; exact H. Qed.
Lemma extends_trans a b c : extends a b -> extends b c -> extends a c.
Proof. intros H1 H2 x y H. apply H2, H1, H. Qed.

(* evaluation of an expression whose only unsolved term is (k,x), after setting x *)
Lemma ev_set_single v l acc k x y :
  scan v l = (acc, [(k, x)]) -> ev (set v x y) l = acc + k * y /\ solved_in (set v x y) l.
Proof.
  revert acc. induction l as [|[k0 x0] l IH]; intros acc H; cbn [scan] in H; [discriminate|].
  destruct (scan v l) as [acc' us'] eqn:E.
  destruct (v x0) as [y0|] eqn:Ex0.
  - injection H as <- ->. destruct (IH acc' eq_refl) as [IH1 IH2]. split.
    + cbn [ev]. rewrite IH1. unfold set at 1.
      destruct (Nat.eqb x0 x) eqn:Eq.
      * apply Nat.eqb_eq in Eq. subst x0.
        destruct (scan_spec v l acc' [(k, x)] E) as [_ [H2 _]]. destruct (H2 k x (or_introl eq_refl)). congruence.
      * rewrite Ex0. ring.
    + intros k1 x1 [Heq|Hin]; [injection Heq as <- <-; unfold set; destruct (Nat.eqb x0 x); congruence|exact (IH2 k1 x1 Hin)].
  - injection H as Hacc Hk Hx Hus. subst acc' k0 x0 us'.
    destruct (scan_spec v l acc [] E) as [E1 [_ E3]].
    assert (Hs : solved_in v l). { intros k1 x1 Hin Hn. exact (E3 k1 x1 Hin Hn). }
    split.
    + cbn [ev]. unfold set at 1. rewrite Nat.eqb_refl.
      (* remaining terms do not mention x0 unsolved: they are solved in v, and v x0 = None so they differ from x0 *)
      assert (ev (set v x y) l = ev v l).
      { apply ev_ext; [apply extends_set; exact Ex0|exact Hs]. }
      rewrite H, E1. ring.
    + intros k1 x1 [Heq|Hin]; [injection Heq as <- <-; unfold set; rewrite Nat.eqb_refl; discriminate|].
      unfold set. destruct (Nat.eqb x1 x); [discriminate|exact (Hs k1 x1 Hin)].
Qed.

Lemma ev_solved v l acc : scan v l = (acc, []) -> ev v l = acc /\ solved_in v l.
Proof.
  intros H. destruct (scan_spec v l acc [] H) as [E1 [_ E3]]. split; [exact E1|].
  intros k x Hin Hn. exact (E3 k x Hin Hn).
Qed.

Lemma unsolved_none v l acc k x : scan v l = (acc, [(k, x)]) -> v x = None.
Proof. intros H. destruct (scan_spec v l acc _ H) as [_ [H2 _]]. destruct (H2 k x (or_introl eq_refl)); assumption. Qed.

Lemma step_ok i v c v' : step i v c = Ok v' -> extends v v' /\ holds v' c.
Proof.
  unfold step.
  destruct (scan v (cL c)) as [a ua] eqn:EA.
  destruct (scan v (cR c)) as [b ub] eqn:EB.
  destruct (scan v (cO c)) as [o uo] eqn:EO.
  destruct ua as [|[ka xa] [|? ?]]; destruct ub as [|[kb xb] [|? ?]]; destruct uo as [|[ko xo] [|? ?]]; try discriminate.
  - (* nothing to solve *)
    destruct (eq_dec (a * b) o) as [E|]; [|discriminate]. intros H; injection H as <-.
    split; [apply extends_refl|].
    destruct (ev_solved _ _ _ EA) as [EA1 SA], (ev_solved _ _ _ EB) as [EB1 SB], (ev_solved _ _ _ EO) as [EO1 SO].
    repeat split; try assumption. rewrite EA1, EB1, EO1. exact E.
  - (* unsolved in O *)
    destruct (eq_dec ko 0); [discriminate|]. intros H; injection H as <-.
    pose proof (unsolved_none _ _ _ _ _ EO) as Hn.
    pose proof (extends_set v xo ((a * b - o) / ko) Hn) as Hext. split; [exact Hext|].
    destruct (ev_solved _ _ _ EA) as [EA1 SA], (ev_solved _ _ _ EB) as [EB1 SB].
    destruct (ev_set_single _ _ _ _ _ ((a * b - o) / ko) EO) as [EO1 SO].
    assert (SS : forall l, solved_in v l -> solved_in (set v xo ((a * b - o) / ko)) l).
    { intros l Hs k x Hin. unfold set. destruct (Nat.eqb x xo); [discriminate|exact (Hs k x Hin)]. }
    repeat split; auto. rewrite (ev_ext v _ _ Hext SA), (ev_ext v _ _ Hext SB), EA1, EB1, EO1. field. assumption.
  - (* unsolved in R *)
    destruct (eq_dec kb 0); [discriminate|].
    pose proof (unsolved_none _ _ _ _ _ EB) as Hn.
    destruct (ev_solved _ _ _ EA) as [EA1 SA], (ev_solved _ _ _ EO) as [EO1 SO].
    assert (SS : forall y l, solved_in v l -> solved_in (set v xb y) l).
    { intros y l Hs k x Hin. unfold set. destruct (Nat.eqb x xb); [discriminate|exact (Hs k x Hin)]. }
    destruct (eq_dec a 0) as [Ea0|Ea0].
    + destruct (eq_dec (a * b) o) as [E|]; [|discriminate]. intros H; injection H as <-.
      pose proof (extends_set v xb 0 Hn) as Hext. split; [exact Hext|].
      destruct (ev_set_single _ _ _ _ _ 0 EB) as [EB1 SB].
      repeat split; auto. rewrite (ev_ext v _ _ Hext SA), (ev_ext v _ _ Hext SO), EA1, EO1, EB1. rewrite <- E, Ea0. ring.
    + intros H; injection H as <-.
      pose proof (extends_set v xb ((o / a - b) / kb) Hn) as Hext. split; [exact Hext|].
      destruct (ev_set_single _ _ _ _ _ ((o / a - b) / kb) EB) as [EB1 SB].
      repeat split; auto. rewrite (ev_ext v _ _ Hext SA), (ev_ext v _ _ Hext SO), EA1, EO1, EB1. field. split; assumption.
  - (* unsolved in L *)
    destruct (eq_dec ka 0); [discriminate|].
    pose proof (unsolved_none _ _ _ _ _ EA) as Hn.
    destruct (ev_solved _ _ _ EB) as [EB1 SB], (ev_solved _ _ _ EO) as [EO1 SO].
    assert (SS : forall y l, solved_in v l -> solved_in (set v xa y) l).
    { intros y l Hs k x Hin. unfold set. destruct (Nat.eqb x xa); [discriminate|exact (Hs k x Hin)]. }
    destruct (eq_dec b 0) as [Eb0|Eb0].
    + destruct (eq_dec (a * b) o) as [E|]; [|discriminate]. intros H; injection H as <-.
      pose proof (extends_set v xa 0 Hn) as Hext. split; [exact Hext|].
      destruct (ev_set_single _ _ _ _ _ 0 EA) as [EA1 SA].
      repeat split; auto. rewrite (ev_ext v _ _ Hext SB), (ev_ext v _ _ Hext SO), EA1, EO1, EB1. rewrite <- E, Eb0. ring.
    + intros H; injection H as <-.
      pose proof (extends_set v xa ((o / b - a) / ka) Hn) as Hext. split; [exact Hext|].
      destruct (ev_set_single _ _ _ _ _ ((o / b - a) / ka) EA) as [EA1 SA].
      repeat split; auto. rewrite (ev_ext v _ _ Hext SB), (ev_ext v _ _ Hext SO), EA1, EO1, EB1. field. split; assumption.
Qed.

Theorem run_ok_sat : forall cs i v v', run i v cs = Ok v' ->
  extends v v' /\ forall c, In c cs -> holds v' c.
Proof.
  induction cs as [|c cs IH]; intros i v v' H; cbn [run] in H.
  - injection H as <-. split; [apply extends_refl|intros ? []].
  - destruct (step i v c) as [v1| |] eqn:E; try discriminate.
    destruct (step_ok _ _ _ _ E) as [Hext Hc]. destruct (IH _ _ _ H) as [Hext' Hrest].
    split; [eapply extends_trans; eassumption|].
    intros c0 [<-|Hin]; [eapply holds_ext; eassumption|auto].
Qed.
End Solver.
Print Assumptions run_ok_sat.
