From Coq Require Import ZArith List Lia. Import ListNotations. Open Scope Z_scope.
(* native field: BN254 scalar field; emulated modulus: secp256k1 base field; 4 limbs of 64 bits *)
Definition rn := 21888242871839275222246405745257275088548364400416034343698204186575808495617.
Definition q  := 115792089237316195423570985008687907853269984665640564039457584007908834671663.
Definition w := 64.
Definition limbs4 (x : Z) : list Z := [x mod 2^w; (x / 2^w) mod 2^w; (x / 2^(2*w)) mod 2^w; (x / 2^(3*w)) mod 2^w].
Definition val (l : list Z) : Z := fold_right (fun x acc => x + 2^w * acc) 0 l.
Definition fits4 (x : Z) : bool := (0 <=? x) && (x <? 2^(4*w)).
(* what the deferred check enforces once carries are free field elements:
   (2^w - X) | a(X)b(X) - r(X) - k(X)p(X) over Z_rn  <->  equality at X = 2^w modulo rn *)
Definition check_mod_native (a b k r : Z) : bool :=
  ((val (limbs4 a) * val (limbs4 b) - val (limbs4 r) - val (limbs4 k) * val (limbs4 q)) mod rn =? 0).

Definition a := 1234567891234567891234567891234567891234567891234567891234567891234567.
Definition b := 987654321987654321987654321987654321.

(* search b upward until the forged remainder fits in 4 limbs, as the experiment did *)
Fixpoint find (fuel : nat) (b : Z) : Z :=
  match fuel with O => b | S f =>
    let r := (a * b) mod q in if r + q - rn <? 2^(4*w) then b else find f (3 * b + 7) end.
Definition b' := Eval vm_compute in find 200 b.
Definition k  := (a * b') / q.
Definition r  := (a * b') mod q.
Definition kf := k - 1.
Definition rf := r + q - rn.

Lemma mulcheck_unbounded_refuted :
  exists a b k r,
    fits4 a = true /\ fits4 b = true /\ fits4 k = true /\ fits4 r = true /\
    check_mod_native a b k r = true /\ (r - a * b) mod q <> 0.
Proof.
  exists a, b', kf, rf.
  repeat split; try (vm_compute; reflexivity).
  intro H. vm_compute in H. discriminate H.
Qed.
Print Assumptions mulcheck_unbounded_refuted.
