From Coq Require Import Arith Lia Field List Bool.
Import ListNotations.

Section G16.
Variable F : Type.
Variables (zero one : F) (add mul sub : F -> F -> F) (opp : F -> F) (div : F -> F -> F) (inv : F -> F).
Hypothesis Fth : field_theory zero one add mul sub opp div inv (@eq F).
Add Field Ff : Fth.
Notation "0" := zero. Notation "1" := one.
Infix "+" := add. Infix "*" := mul. Infix "-" := sub. Infix "/" := div.

(* per-wire data: A_i(tau), B_i(tau), C_i(tau), class (true = goes to vk / gamma, false = pk / delta), value *)
Record wire := { wa : F; wb : F; wc : F; cls : bool; wv : F }.

Fixpoint sumf (f : wire -> F) (l : list wire) : F :=
  match l with [] => 0 | x :: l' => f x + sumf f l' end.

Lemma sumf_add f g l : sumf (fun x => f x + g x) l = sumf f l + sumf g l.
Proof. induction l; cbn; [ring|rewrite IHl; ring]. Qed.
Lemma sumf_scale k f l : sumf (fun x => k * f x) l = k * sumf f l.
Proof. induction l; cbn; [ring|rewrite IHl; ring]. Qed.
Lemma sumf_ext f g l : (forall x, f x = g x) -> sumf f l = sumf g l.
Proof. intros H; induction l; cbn; [reflexivity|rewrite H, IHl; reflexivity]. Qed.
Lemma sumf_split (f : wire -> F) l :
  sumf f l = sumf (fun x => if cls x then f x else 0) l + sumf (fun x => if cls x then 0 else f x) l.
Proof. induction l as [|x l IH]; cbn; [ring|rewrite IH; destruct (cls x); ring]. Qed.

Variables alpha beta gamma delta : F.
Hypothesis gamma_nz : gamma <> 0.
Hypothesis delta_nz : delta <> 0.

Definition K (x : wire) : F := beta * wa x + alpha * wb x + wc x.
(* setup: vk bases K/gamma for class true, pk bases K/delta for class false *)
Definition vkK (x : wire) : F := K x / gamma.
Definition pkK (x : wire) : F := K x / delta.

Section Proof.
Variable ws : list wire.
Variables r s hz : F.   (* hz = h(tau) * Z(tau); the pk stores Z_k = tau^k Z(tau)/delta *)
Definition wA := sumf (fun x => wv x * wa x) ws.
Definition wB := sumf (fun x => wv x * wb x) ws.
Definition wC := sumf (fun x => wv x * wc x) ws.
Definition Ar := alpha + wA + r * delta.
Definition Bs := beta + wB + s * delta.
Definition Krs := sumf (fun x => if cls x then 0 else wv x * pkK x) ws + hz / delta + s * Ar + r * Bs - r * s * delta.
Definition vkx := sumf (fun x => if cls x then wv x * vkK x else 0) ws.
Definition verify : Prop := Ar * Bs = alpha * beta + vkx * gamma + Krs * delta.

Lemma sumK : sumf (fun x => wv x * K x) ws = beta * wA + alpha * wB + wC.
Proof.
  unfold wA, wB, wC, K. rewrite <- !sumf_scale, <- !sumf_add. apply sumf_ext. intros x. ring.
Qed.

Lemma vk_part : vkx * gamma = sumf (fun x => if cls x then wv x * K x else 0) ws.
Proof.
  unfold vkx, vkK. rewrite (Fth.(F_R).(Rmul_comm)). rewrite <- sumf_scale. apply sumf_ext. intros x. destruct (cls x); field; assumption.
Qed.
Lemma pk_part : sumf (fun x => if cls x then 0 else wv x * pkK x) ws * delta = sumf (fun x => if cls x then 0 else wv x * K x) ws.
Proof.
  unfold pkK. rewrite (Fth.(F_R).(Rmul_comm)). rewrite <- sumf_scale. apply sumf_ext. intros x. destruct (cls x); field; assumption.
Qed.

Theorem g16_verify_iff_qap : verify <-> wA * wB - wC = hz.
Proof.
  unfold verify.
  assert (E : alpha * beta + vkx * gamma + Krs * delta
            = alpha * beta + (beta * wA + alpha * wB + wC) + hz + (s * Ar + r * Bs - r * s * delta) * delta).
  { rewrite <- sumK. rewrite (sumf_split (fun x => wv x * K x)). rewrite <- vk_part, <- pk_part.
    unfold Krs. field. assumption. }
  rewrite E. unfold Ar, Bs. split; intros H.
  - assert (H2 : wA * wB - wC = hz + ((alpha + wA + r * delta) * (beta + wB + s * delta)
        - (alpha * beta + (beta * wA + alpha * wB + wC) + hz + (s * (alpha + wA + r * delta) + r * (beta + wB + s * delta) - r * s * delta) * delta))) by ring.
    rewrite H2, H. ring.
  - rewrite <- H. ring.
Qed.
End Proof.
End G16.
Print Assumptions g16_verify_iff_qap.
