#!/bin/sh
# offline setup: forbidden-vernacular scan, full .vo build, harness build
set -e
cd "$(dirname "$0")"
export GOFLAGS=-mod=mod GOPROXY=off GOSUMDB=off GOTOOLCHAIN=local CGO_ENABLED=0
python3 tools/scan_forbidden.py || { echo "forbidden vernacular found"; exit 1; }
mkdir -p bin evidence replays coq/gen
(cd coq && ./mkproject.sh && timeout 3000 make -j16 > /tmp/verif-coq-build.log 2>&1) || { tail -30 /tmp/verif-coq-build.log; exit 1; }
cp /repo/go.sum harness/go.sum
(cd harness && timeout 1500 go build -tags verif -o ../bin/harness .)
(cd tools/xlate && timeout 1500 go build -o ../../bin/xlate .)
(cd tools/curvesync && timeout 600 go build -o ../../bin/curvesync .)
echo setup ok
