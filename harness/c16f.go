package main

// C16 adversary on the emulated complete-arithmetic scalar multiplication (compiled circuit, forged result hint)

import (
	"fmt"
	"math/big"
	"strings"
	"time"

	"github.com/consensys/gnark/constraint"
	"github.com/consensys/gnark/constraint/solver"
	"github.com/consensys/gnark/frontend"
	"github.com/consensys/gnark/frontend/cs/r1cs"
	"github.com/consensys/gnark/std/algebra/emulated/sw_emulated"
	"github.com/consensys/gnark/std/math/emulated"
	"github.com/consensys/gnark/std/math/emulated/emparams"
)

// forgedScalarMulComplete compiles [s]P with complete arithmetic on secp256k1 and solves it with the result hint
// replaced: the hinted point keeps P's abscissa and takes an arbitrary ordinate.  Returns the solver's verdict.
func forgedScalarMulComplete(rng *RNG, wc *wcurve, variant string) (cls, msg string, took time.Duration) {
	return forgedScalarMulCompleteG[emparams.Secp256k1Fp, emparams.Secp256k1Fr](rng, wc, variant)
}

func forgedScalarMulCompleteG[B, S emulated.FieldParams](rng *RNG, wc *wcurve, variant string) (cls, msg string, took time.Duration) {
	t0 := time.Now()
	tmpl := &swCircuit[B, S]{op: "ScalarMul", complete: true}
	ccs, err := frontend.Compile(bnQ, r1cs.NewBuilder[constraint.U64], tmpl)
	if err != nil {
		return "compile-error", err.Error(), time.Since(t0)
	}
	P := wc.mul(wc.g, big.NewInt(98765))
	s := rng.Big(wc.n)
	var claimed *wpt
	switch variant {
	case "same-x-arbitrary-y":
		claimed = &wpt{P.x, big.NewInt(1)}
	case "P-itself":
		claimed = P
	case "zero-scalar-arbitrary-result":
		s = big.NewInt(0)
		claimed = &wpt{big.NewInt(5), big.NewInt(7)}
	}
	pt := func(Q *wpt) sw_emulated.AffinePoint[B] {
		return sw_emulated.AffinePoint[B]{X: emulated.ValueOf[B](Q.x), Y: emulated.ValueOf[B](Q.y)}
	}
	asg := &swCircuit[B, S]{P: pt(P), Q: pt(P), R: pt(claimed), S1: emulated.ValueOf[S](s), S2: emulated.ValueOf[S](1)}
	w, _ := frontend.NewWitness(asg, bnQ)
	var smID solver.HintID
	var smFn solver.Hint
	for _, h := range sw_emulated.GetHints() {
		if strings.HasSuffix(solver.GetHintName(h), ".scalarMulHint") {
			smID, smFn = solver.GetHintID(h), h
		}
	}
	if smFn == nil {
		return "harness", "hint not found", time.Since(t0)
	}
	forged := func(m *big.Int, in, out []*big.Int) error {
		if err := smFn(m, in, out); err != nil {
			return err
		}
		// outputs: 4 limbs of X then 4 limbs of Y (64 bits each)
		xl := decompLimbs(claimed.x, 64, 4)
		yl := decompLimbs(claimed.y, 64, 4)
		if len(out) != 8 {
			return fmt.Errorf("unexpected number of outputs %d", len(out))
		}
		for i := 0; i < 4; i++ {
			out[i].Set(xl[i])
			out[4+i].Set(yl[i])
		}
		return nil
	}
	obs := SolveCapture(ccs, w, 8, solver.OverrideHint(smID, forged))
	return obs.Class, obs.Msg, time.Since(t0)
}

