package main

// C02: PLONK verification accepts only proofs of the stated public inputs, and the verifying key
// commits to exactly the gates, the wiring permutation and the commitment selectors of the system.

import (
	"bytes"
	"fmt"
	"math/big"
	"reflect"
	"strings"

	"github.com/consensys/gnark-crypto/ecc"
	curve "github.com/consensys/gnark-crypto/ecc/bn254"
	"github.com/consensys/gnark-crypto/ecc/bn254/fr"
	"github.com/consensys/gnark-crypto/ecc/bn254/fr/fft"
	"github.com/consensys/gnark-crypto/ecc/bn254/fr/hash_to_field"
	"github.com/consensys/gnark/backend/plonk"
	pl "github.com/consensys/gnark/backend/plonk/bn254"
	"github.com/consensys/gnark/backend/witness"
	"github.com/consensys/gnark/constraint"
	cs_bn254 "github.com/consensys/gnark/constraint/bn254"
	"github.com/consensys/gnark/frontend"
	"github.com/consensys/gnark/frontend/cs/scs"
	"github.com/consensys/gnark/test/unsafekzg"
)

func init() { commands["c02"] = runC02 }

type pgate struct {
	xa, xb, xc         int
	ql, qr, qo, qm, qc *big.Int
}

// the gates as the sparse iterator decompresses them (specialised gates included)
func plonkGates(d *DSystem) []pgate {
	zero := big.NewInt(0)
	m1 := new(big.Int).Sub(d.Field, big.NewInt(1))
	var gs []pgate
	for _, in := range d.Instrs {
		switch in.Kind {
		case "Sparse":
			gs = append(gs, pgate{in.XA, in.XB, in.XC, in.QL, in.QR, in.QO, in.QM, in.QC})
		case "Mul":
			gs = append(gs, pgate{in.XA, in.XB, in.XC, zero, zero, m1, in.QM, zero})
		case "Add":
			gs = append(gs, pgate{in.XA, in.XB, in.XC, in.QL, in.QR, m1, zero, in.QC})
		case "Bool":
			gs = append(gs, pgate{in.XA, in.XA, 0, in.QL, zero, zero, in.QM, zero})
		}
	}
	return gs
}

func frVec(v []fr.Element) []*big.Int {
	out := make([]*big.Int, len(v))
	for i := range v {
		out[i] = v[i].BigInt(new(big.Int))
	}
	return out
}

func bigsEq(a, b []*big.Int) bool {
	if len(a) != len(b) {
		return false
	}
	for i := range a {
		if a[i].Cmp(b[i]) != 0 {
			return false
		}
	}
	return true
}

type c02Desc struct {
	Circuit string `json:"circuit"`
	Curve   string `json:"curve"`
	Edit    string `json:"edit"`
	Verdict string `json:"verdict"`
}

func clonePlonkProof(p *pl.Proof) *pl.Proof {
	var b bytes.Buffer
	p.WriteRawTo(&b)
	q := &pl.Proof{}
	q.ReadFrom(bytes.NewReader(b.Bytes()))
	return q
}

func runC02(args []string) int {
	o := parseOpts(args)
	rng := NewRNG(o.Seed)
	rep := NewReport("C02")
	rep.Rule = "bn254 white box: for sparse systems compiled from fixed circuits (0,1,2 commitments, hints) and seeded API programs, the exported Trace of the real Setup (selector columns, commitment selectors, permutation S) is compared with the Go and Gallina models computed from the dumped gate list, and every verifying-key digest with [column(tau)]·G for the SRS secret tau chosen by the harness; black box on the real verifier: replay against other public inputs, every commitment / opening / claimed value altered, proofs computed (through the post-solve hook) from L/R/O values violating one gate or one copy constraint; non-trivial = every (circuit, check/edit); distinct as counted"
	tau := rng.Big(bnQ)
	var coqCases, vcases []string
	type spec struct {
		name string
		mk   func() frontend.Circuit
		asg  func() frontend.Circuit
	}
	var specs []spec
	for si, sp := range g16Specs() {
		si, sp := si, sp
		specs = append(specs, spec{sp.name, sp.mk, func() frontend.Circuit { return sp.asg(si) }})
	}
	nprog := 10
	if o.Thorough() {
		nprog = 60
	}
	for pi := 0; pi < nprog; pi++ {
		p := GenProg(rng, bnQ, GenCfg{MaxOps: 8, NoAsserts: true})
		nin := p.NbPub + p.NbSec
		in := make([]*big.Int, nin)
		for i := range in {
			in[i] = rng.FieldElem(bnQ)
		}
		vals, ok, _, _ := EvalSpec(p, bnQ, in)
		if !ok || len(p.Outs) == 0 {
			continue
		}
		specs = append(specs, spec{"prog:" + p.String(), func() frontend.Circuit { return NewProgCircuit(p) }, func() frontend.Circuit {
			a := NewProgCircuit(p)
			for i := 0; i < p.NbPub; i++ {
				a.Pub[i] = in[i]
			}
			for i, ov := range p.Outs {
				a.Out[i] = vals[ov]
			}
			for i := 0; i < p.NbSec; i++ {
				a.Sec[i] = in[p.NbPub+i]
			}
			return a
		}})
	}
	for _, sp := range specs {
		short := sp.name
		if len(short) > 60 {
			short = short[:60]
		}
		desc := c02Desc{Circuit: sp.name, Curve: "bn254"}
		ccs, err := frontend.Compile(bnQ, scs.NewBuilder[constraint.U64], sp.mk())
		if err != nil {
			continue
		}
		spr := ccs.(*cs_bn254.SparseR1CS)
		d := DumpSystem(ccs)
		gs := plonkGates(d)
		nbPub := len(spr.Public)
		domain := fft.NewDomain(uint64(spr.GetNbConstraints() + nbPub))
		size := int(domain.Cardinality)
		omega := domain.Generator.BigInt(new(big.Int))
		trace := pl.NewTrace(spr, domain)
		rep.Eval("trace|"+short, true)
		rep.Count(fmt.Sprintf("domain-size:%d commitments:%d", size, len(spr.CommitmentInfo.(constraint.PlonkCommitments))))
		// ---- Go model of the trace
		col := func(f func(g pgate) *big.Int, ph *big.Int) []*big.Int {
			out := make([]*big.Int, size)
			for i := range out {
				out[i] = big.NewInt(0)
			}
			for i := 0; i < nbPub; i++ {
				out[i] = ph
			}
			for j, g := range gs {
				out[nbPub+j] = f(g)
			}
			return out
		}
		m1 := new(big.Int).Sub(bnQ, big.NewInt(1))
		zero := big.NewInt(0)
		mql := col(func(g pgate) *big.Int { return g.ql }, m1)
		mqr := col(func(g pgate) *big.Int { return g.qr }, zero)
		mqm := col(func(g pgate) *big.Int { return g.qm }, zero)
		mqo := col(func(g pgate) *big.Int { return g.qo }, zero)
		mqk := col(func(g pgate) *big.Int { return g.qc }, zero)
		cols := map[string][2][]*big.Int{"Ql": {mql, frVec(trace.Ql.Coefficients())}, "Qr": {mqr, frVec(trace.Qr.Coefficients())},
			"Qm": {mqm, frVec(trace.Qm.Coefficients())}, "Qo": {mqo, frVec(trace.Qo.Coefficients())}, "Qk": {mqk, frVec(trace.Qk.Coefficients())}}
		for n, c := range cols {
			if !bigsEq(c[0], c[1]) {
				rep.Fail("c02:trace-column:"+n, "selector column "+n+" of the real trace differs from the gate list of the system", desc)
			}
		}
		ci := spr.CommitmentInfo.(constraint.PlonkCommitments)
		var committed [][]int
		var mqcp [][]*big.Int
		for i := range ci {
			committed = append(committed, ci[i].Committed)
			c := make([]*big.Int, size)
			for k := range c {
				c[k] = big.NewInt(0)
			}
			for _, cc := range ci[i].Committed {
				c[nbPub+cc] = big.NewInt(1)
			}
			mqcp = append(mqcp, c)
			if i >= len(trace.Qcp) || !bigsEq(c, frVec(trace.Qcp[i].Coefficients())) {
				rep.Fail("c02:trace-column:Qcp", fmt.Sprintf("commitment selector %d differs from the committed constraint list", i), desc)
			}
		}
		// permutation: positions of the same wire form one cycle (previous occurrence, first -> last)
		lro := make([]int, 3*size)
		for i := 0; i < nbPub; i++ {
			lro[i] = i
		}
		for j, g := range gs {
			lro[nbPub+j], lro[size+nbPub+j], lro[2*size+nbPub+j] = g.xa, g.xb, g.xc
		}
		last := map[int]int{}
		mS := make([]int, 3*size)
		for i := range mS {
			mS[i] = -1
		}
		for i, w := range lro {
			if p, ok := last[w]; ok {
				mS[i] = p
			}
			last[w] = i
		}
		for i, w := range lro {
			if mS[i] == -1 {
				mS[i] = last[w]
			}
		}
		okS := len(trace.S) == len(mS)
		for i := 0; okS && i < len(mS); i++ {
			okS = int(trace.S[i]) == mS[i]
		}
		if !okS {
			rep.Fail("c02:trace-permutation", "the wiring permutation of the real trace differs from the wire classes of the system", desc)
		}
		// copy-constraint semantics (oracle): S-invariant value vectors are exactly those constant on wire classes
		for i := range lro {
			if int(trace.S[i]) >= len(lro) || lro[trace.S[i]] != lro[i] {
				rep.Fail("c02:trace-permutation:crosses-wires", fmt.Sprintf("S maps position %d (wire %d) to a position of another wire", i, lro[i]), desc)
				break
			}
		}
		if size <= 64 && len(coqCases) < 14 {
			gsS := make([]string, len(gs))
			for i, g := range gs {
				gsS[i] = fmt.Sprintf("(%d, %d, %d, %s, %s, %s, %s, %s)", g.xa, g.xb, g.xc, zlit(g.ql), zlit(g.qr), zlit(g.qo), zlit(g.qm), zlit(g.qc))
			}
			cm := make([]string, len(committed))
			for i, c := range committed {
				cm[i] = intlist(c)
			}
			qc := make([]string, len(mqcp))
			for i := range trace.Qcp {
				qc[i] = zlist(frVec(trace.Qcp[i].Coefficients()))
			}
			sInts := make([]int, len(trace.S))
			for i, x := range trace.S {
				sInts[i] = int(x)
			}
			coqCases = append(coqCases, fmt.Sprintf("{| pc_p := %s; pc_nbpub := %d; pc_size := %d;\n pc_gates := %s;\n pc_committed := %s;\n pc_ql := %s; pc_qr := %s; pc_qm := %s; pc_qo := %s; pc_qk := %s;\n pc_qcp := %s; pc_S := %s |}",
				zlit(bnQ), nbPub, size, coqlistNL(gsS), coqlist(cm), zlist(cols["Ql"][1]), zlist(cols["Qr"][1]), zlist(cols["Qm"][1]), zlist(cols["Qo"][1]), zlist(cols["Qk"][1]), coqlist(qc), intlist(sInts)))
		}
		// ---- verifying key digests in the exponent
		srs, srsL, err := unsafekzg.NewSRS(ccs, unsafekzg.WithToxicValue(tau))
		if err != nil {
			rep.Fail("harness:srs", err.Error(), desc)
			continue
		}
		pkI, vkI, err := plonk.Setup(ccs, srs, srsL)
		if err != nil {
			rep.Fail("harness:setup", err.Error(), desc)
			continue
		}
		vk := vkI.(*pl.VerifyingKey)
		digest := func(name string, got curve.G1Affine, vals []*big.Int) {
			want := g1Mul(lagrangeEval(vals, size, omega, tau))
			rep.Eval("vk|"+short+"|"+name, true)
			if !got.Equal(&want) {
				rep.Fail("c02:vk-digest:"+strings.TrimRight(name, "0123456789"), "verifying key digest "+name+" is not the commitment to the column of the system", desc)
			}
		}
		digest("Ql", vk.Ql, mql)
		digest("Qr", vk.Qr, mqr)
		digest("Qm", vk.Qm, mqm)
		digest("Qo", vk.Qo, mqo)
		digest("Qk", vk.Qk, mqk)
		for i := range mqcp {
			if i < len(vk.Qcp) {
				digest(fmt.Sprintf("Qcp%d", i), vk.Qcp[i], mqcp[i])
			}
		}
		// support of the permutation: (w^i, u w^i, u^2 w^i)
		u := vk.CosetShift.BigInt(new(big.Int))
		support := make([]*big.Int, 3*size)
		wi := big.NewInt(1)
		for i := 0; i < size; i++ {
			support[i] = new(big.Int).Set(wi)
			support[size+i] = mulq(u, wi)
			support[2*size+i] = mulq(mulq(u, u), wi)
			wi = mulq(wi, omega)
		}
		for k := 0; k < 3; k++ {
			vals := make([]*big.Int, size)
			for i := 0; i < size; i++ {
				vals[i] = support[mS[k*size+i]]
			}
			digest(fmt.Sprintf("S%d", k+1), vk.S[k], vals)
		}
		if int(vk.Size) != size || int(vk.NbPublicVariables) != nbPub || vk.Generator.BigInt(new(big.Int)).Cmp(omega) != 0 {
			rep.Fail("c02:vk-params", "verifying key size / generator / number of public inputs differ from the system", desc)
		}
		// ---- the verifier on genuine, replayed and perturbed proofs
		full, err := frontend.NewWitness(sp.asg(), bnQ)
		if err != nil {
			rep.Fail("harness:witness", err.Error(), desc)
			continue
		}
		pub, _ := full.Public()
		prI, err := plonk.Prove(ccs, pkI, full)
		if err != nil {
			rep.Fail("c02:prove-error", "Prove failed on a valid witness: "+shortErr(err), desc)
			continue
		}
		proof := prI.(*pl.Proof)
		verify := func(p *pl.Proof, w witness.Witness) (int, string) { return classOf(func() error { return plonk.Verify(p, vk, w) }) }
		expect := func(edit string, cls int, msg string, wantAccept bool) {
			dd := desc
			dd.Edit, dd.Verdict = edit, className[cls]
			rep.Eval(short+"|"+edit, true)
			rep.Count("verdict:" + className[cls])
			rep.Sample(dd)
			switch {
			case cls == 2:
				rep.Fail("c02:verify-panic:"+strings.SplitN(edit, "=", 2)[0], "Verify panicked: "+msg, dd)
			case wantAccept && cls != 0:
				rep.Fail("c02:genuine-rejected", "a genuine proof was rejected: "+msg, dd)
			case !wantAccept && cls == 0:
				rep.Fail("c02:accepted:"+strings.SplitN(strings.SplitN(edit, "=", 2)[0], "[", 2)[0], "Verify accepted "+edit, dd)
			}
		}
		var vs struct{ gamma, beta, alpha, zeta, pi, constLin fr.Element }
		seen := false
		pl.VerifHookVerifierState = func(gamma, beta, alpha, zeta, pi, constLin fr.Element) {
			vs.gamma, vs.beta, vs.alpha, vs.zeta, vs.pi, vs.constLin = gamma, beta, alpha, zeta, pi, constLin
			seen = true
		}
		cls, msg := verify(proof, pub)
		pl.VerifHookVerifierState = nil
		expect("genuine", cls, msg, true)
		if seen && size <= 128 && len(vcases) < 12 {
			b := func(e fr.Element) *big.Int { return e.BigInt(new(big.Int)) }
			var hashed []*big.Int
			for i := range vk.CommitmentConstraintIndexes {
				h := hash_to_field.New([]byte("BSB22-Plonk"))
				h.Write(proof.Bsb22Commitments[i].Marshal())
				var e fr.Element
				e.SetBytes(h.Sum(nil)[:fr.Bytes])
				hashed = append(hashed, b(e))
			}
			ccis := make([]int, len(vk.CommitmentConstraintIndexes))
			for i, c := range vk.CommitmentConstraintIndexes {
				ccis[i] = int(c)
			}
			cv := proof.BatchedProof.ClaimedValues
			// the opening actually accepted must be the constant term observed
			if !vs.constLin.Equal(&cv[0]) {
				rep.Fail("c02:verifier-constlin", "Verify accepted although the opening of the linearised polynomial differs from the constant term", desc)
			}
			rep.Eval("verifier-arith|"+short, true)
			vcases = append(vcases, fmt.Sprintf("{| vc_p := %s; vc_size := %d; vc_nbpub := %d; vc_gen := %s; vc_sizeinv := %s;\n vc_pubs := %s; vc_ccis := %s; vc_hashed := %s;\n vc_gamma := %s; vc_beta := %s; vc_alpha := %s; vc_zeta := %s;\n vc_l := %s; vc_r := %s; vc_o := %s; vc_s1 := %s; vc_s2 := %s; vc_zu := %s;\n vc_pi := %s; vc_constlin := %s |}",
				zlit(bnQ), size, nbPub, zlit(omega), zlit(b(vk.SizeInv)), zlist(vecToBig(pub.Vector(), bnQ)), intlist(ccis), zlist(hashed),
				zlit(b(vs.gamma)), zlit(b(vs.beta)), zlit(b(vs.alpha)), zlit(b(vs.zeta)),
				zlit(b(cv[1])), zlit(b(cv[2])), zlit(b(cv[3])), zlit(b(cv[4])), zlit(b(cv[5])), zlit(b(proof.ZShiftedOpening.ClaimedValue)),
				zlit(b(vs.pi)), zlit(b(vs.constLin))))
		}
		pv := vecToBig(pub.Vector(), bnQ)
		for k := range pv {
			alt := append([]*big.Int{}, pv...)
			alt[k] = addq(pv[k], big.NewInt(1))
			cls, msg = verify(proof, witnessFromValues(bnQ, len(alt), alt))
			expect(fmt.Sprintf("replay: public input %d changed", k), cls, msg, false)
		}
		one1 := g1Mul(big.NewInt(1))
		editG1 := func(name string, f func(p *pl.Proof) *curve.G1Affine) {
			p2 := clonePlonkProof(proof)
			pt := f(p2)
			pt.Add(pt, &one1)
			cls, msg := verify(p2, pub)
			expect("element: "+name+" + G", cls, msg, false)
		}
		for i := 0; i < 3; i++ {
			i := i
			editG1(fmt.Sprintf("LRO[%d]", i), func(p *pl.Proof) *curve.G1Affine { return &p.LRO[i] })
			editG1(fmt.Sprintf("H[%d]", i), func(p *pl.Proof) *curve.G1Affine { return &p.H[i] })
		}
		editG1("Z", func(p *pl.Proof) *curve.G1Affine { return &p.Z })
		editG1("BatchedProof.H", func(p *pl.Proof) *curve.G1Affine { return &p.BatchedProof.H })
		editG1("ZShiftedOpening.H", func(p *pl.Proof) *curve.G1Affine { return &p.ZShiftedOpening.H })
		for j := range proof.Bsb22Commitments {
			j := j
			editG1(fmt.Sprintf("Bsb22Commitments[%d]", j), func(p *pl.Proof) *curve.G1Affine { return &p.Bsb22Commitments[j] })
		}
		for k := range proof.BatchedProof.ClaimedValues {
			p2 := clonePlonkProof(proof)
			var one fr.Element
			one.SetOne()
			p2.BatchedProof.ClaimedValues[k].Add(&p2.BatchedProof.ClaimedValues[k], &one)
			cls, msg = verify(p2, pub)
			expect(fmt.Sprintf("claimed value [%d] + 1", k), cls, msg, false)
		}
		{
			p2 := clonePlonkProof(proof)
			var one fr.Element
			one.SetOne()
			p2.ZShiftedOpening.ClaimedValue.Add(&p2.ZShiftedOpening.ClaimedValue, &one)
			cls, msg = verify(p2, pub)
			expect("claimed value Z(omega zeta) + 1", cls, msg, false)
		}
		// proofs computed from tampered L/R/O: a gate violated, a copy constraint violated
		tamper := func(name string, f func(l, r, o []fr.Element)) {
			pl.VerifHookPostSolve = f
			pr2, err := plonk.Prove(ccs, pkI, full)
			pl.VerifHookPostSolve = nil
			rep.Eval(short+"|tamper:"+name, true)
			if err != nil {
				rep.Count("tamper:prove-error")
				return
			}
			cls, msg := verify(pr2.(*pl.Proof), pub)
			expect("proof computed from values "+name, cls, msg, false)
		}
		if len(gs) > 0 {
			row := nbPub + rng.Intn(len(gs))
			tamper("violating one gate (O changed at one row and at every other position of that wire)", func(l, r, o []fr.Element) {
				// change the value of wire xc everywhere (copy constraints intact), so that only gates break
				w := lro[2*size+row]
				var one fr.Element
				one.SetOne()
				for i := 0; i < 3*size; i++ {
					if lro[i] == w {
						switch i / size {
						case 0:
							l[i%size].Add(&l[i%size], &one)
						case 1:
							r[i%size].Add(&r[i%size], &one)
						default:
							o[i%size].Add(&o[i%size], &one)
						}
					}
				}
			})
			// copy constraint: a wire that occurs at two positions at least; change one occurrence that is unused by its gate
			tamper("violating one copy constraint (padding position of wire 0 changed)", func(l, r, o []fr.Element) {
				var one fr.Element
				one.SetOne()
				if nbPub+len(gs) < size {
					o[size-1].Add(&o[size-1], &one) // padding row: all selectors are zero, only the permutation sees it
				} else {
					o[0].Add(&o[0], &one) // placeholder row: qo = 0
				}
			})
		}
	}
	// black box on another curve: genuine accepted, replay rejected
	ids := []ecc.ID{ecc.BLS12_377}
	if o.AllCurves() {
		ids = []ecc.ID{ecc.BLS12_377, ecc.BLS12_381, ecc.BW6_761, ecc.BLS24_315, ecc.BLS24_317, ecc.BW6_633}
	}
	for _, id := range ids {
		q := id.ScalarField()
		for si, sp := range g16Specs()[:4] {
			desc := c02Desc{Circuit: sp.name, Curve: id.String()}
			ccs, err := frontend.Compile(q, scs.NewBuilder[constraint.U64], sp.mk())
			if err != nil {
				continue
			}
			srs, srsL, _ := unsafekzg.NewSRS(ccs)
			pk, vk, err := plonk.Setup(ccs, srs, srsL)
			if err != nil {
				continue
			}
			full, _ := frontend.NewWitness(sp.asg(si), q)
			pub, _ := full.Public()
			proof, err := plonk.Prove(ccs, pk, full)
			if err != nil {
				rep.Fail("c02:prove-error", shortErr(err), desc)
				continue
			}
			rep.Eval(fmt.Sprintf("%s|%s|genuine", id, sp.name), true)
			if cls, msg := classOf(func() error { return plonk.Verify(proof, vk, pub) }); cls != 0 {
				rep.Fail("c02:genuine-rejected", msg, desc)
			}
			pv := vecToBig(pub.Vector(), q)
			for k := range pv {
				alt := append([]*big.Int{}, pv...)
				alt[k] = new(big.Int).Add(pv[k], big.NewInt(1))
				rep.Eval(fmt.Sprintf("%s|%s|replay%d", id, sp.name, k), true)
				if cls, msg := classOf(func() error { return plonk.Verify(proof, vk, witnessFromValues(q, len(alt), alt)) }); cls != 1 {
					rep.Fail("c02:accepted:replay", "Verify did not reject a replayed proof: "+className[cls]+" "+msg, desc)
				}
			}
			// claimed values altered (generic, by reflection on the concrete proof type)
			v := reflect.ValueOf(proof).Elem().FieldByName("BatchedProof").FieldByName("ClaimedValues")
			if v.IsValid() && v.Len() > 1 {
				save := reflect.New(v.Index(1).Type()).Elem()
				save.Set(v.Index(1))
				v.Index(1).Set(v.Index(2))
				rep.Eval(fmt.Sprintf("%s|%s|claimed", id, sp.name), true)
				if cls, _ := classOf(func() error { return plonk.Verify(proof, vk, pub) }); cls == 0 && !reflect.DeepEqual(save.Interface(), v.Index(2).Interface()) {
					rep.Fail("c02:accepted:claimed", "Verify accepted a proof with claimed value l replaced by r", desc)
				}
				v.Index(1).Set(save)
			}
		}
	}
	var sb strings.Builder
	sb.WriteString("From Coq Require Import ZArith List Bool.\nFrom GnarkV Require Import Backend.PlonkCases.\nImport ListNotations.\n")
	sb.WriteString(fmt.Sprintf("Definition cases : list pcase := %s.\n", coqlistNL(coqCases)))
	sb.WriteString("Definition mism_plonk_trace := Eval vm_compute in pmismatches 0 cases.\nPrint mism_plonk_trace.\n")
	sb.WriteString(fmt.Sprintf("Definition vcases : list vcase := %s.\n", coqlistNL(vcases)))
	sb.WriteString("Definition mism_plonk_verifier_arith := Eval vm_compute in vmismatches 0 vcases.\nPrint mism_plonk_verifier_arith.\n")
	writeFile(o.Out, "cases_C02.v", sb.String())
	rep.CoqCases = len(coqCases) + len(vcases)
	// every supported curve: each group element of a genuine proof replaced in memory
	allCurvesPlonk(o, rep)
	rep.Write(o.Out)
	return 0
}
