package main

// C03: every satisfying assignment yields a proof that verifies; a non-satisfying one yields an
// error in bounded time (no proof, no panic, no hang).

import (
	"crypto/sha512"
	"fmt"
	"math/big"
	"os"
	"strings"
	"time"

	"github.com/consensys/gnark-crypto/ecc"
	"github.com/consensys/gnark/backend"
	"github.com/consensys/gnark/backend/groth16"
	"github.com/consensys/gnark/backend/plonk"
	"github.com/consensys/gnark/backend/witness"
	"github.com/consensys/gnark/constraint"
	"github.com/consensys/gnark/frontend"
	"github.com/consensys/gnark/frontend/cs/r1cs"
	"github.com/consensys/gnark/frontend/cs/scs"
	"github.com/consensys/gnark/test/unsafekzg"
	"golang.org/x/crypto/sha3"
)

func init() { commands["c03"] = runC03 }

type c03Desc struct {
	Backend string `json:"backend"`
	Curve   string `json:"curve"`
	Circuit string `json:"circuit"`
	Options string `json:"options"`
	Witness string `json:"witness"`
}

// edge shapes
type noSecret struct {
	Y, Z frontend.Variable `gnark:",public"`
}

func (c *noSecret) Define(api frontend.API) error {
	api.AssertIsEqual(api.Mul(c.Y, c.Y), c.Z)
	return nil
}

type constantFolded struct {
	X frontend.Variable
	Y frontend.Variable `gnark:",public"`
}

func (c *constantFolded) Define(api frontend.API) error {
	k := api.Mul(3, 4)
	api.AssertIsEqual(api.Add(c.X, k), c.Y)
	return nil
}

type onlyCommit struct {
	X frontend.Variable
	Y frontend.Variable `gnark:",public"`
}

func (c *onlyCommit) Define(api frontend.API) error {
	cm, err := api.(frontend.Committer).Commit(c.X, c.Y)
	if err != nil {
		return err
	}
	api.AssertIsDifferent(cm, 0)
	return nil
}

type sizedCircuit struct { // domain-size sweep
	X frontend.Variable
	Y frontend.Variable `gnark:",public"`
	n int
}

func (c *sizedCircuit) Define(api frontend.API) error {
	acc := c.X
	for i := 0; i < c.n; i++ {
		acc = api.Mul(acc, c.X)
	}
	api.AssertIsEqual(acc, c.Y)
	return nil
}

type progSpec struct {
	name  string
	mk    func() frontend.Circuit
	valid func(q *big.Int) frontend.Circuit
	bad   func(q *big.Int) frontend.Circuit
}

func c03Specs() []progSpec {
	pw := func(x int64, n int, q *big.Int) *big.Int {
		r := big.NewInt(x)
		for i := 0; i < n; i++ {
			r.Mul(r, big.NewInt(x)).Mod(r, q)
		}
		return r
	}
	specs := []progSpec{
		{"no-secret", func() frontend.Circuit { return &noSecret{} }, func(q *big.Int) frontend.Circuit { return &noSecret{Y: 5, Z: 25} }, func(q *big.Int) frontend.Circuit { return &noSecret{Y: 5, Z: 26} }},
		{"constant-folded", func() frontend.Circuit { return &constantFolded{} }, func(q *big.Int) frontend.Circuit { return &constantFolded{X: 1, Y: 13} }, func(q *big.Int) frontend.Circuit { return &constantFolded{X: 1, Y: 14} }},
		{"only-commitment", func() frontend.Circuit { return &onlyCommit{} }, func(q *big.Int) frontend.Circuit { return &onlyCommit{X: 1, Y: 2} }, nil},
		{"commit1", func() frontend.Circuit { return &cm1{} }, func(q *big.Int) frontend.Circuit { return &cm1{X: 3, W: 5, Y: 9} }, func(q *big.Int) frontend.Circuit { return &cm1{X: 3, W: 5, Y: 10} }},
		{"commit2", func() frontend.Circuit { return &cm2{} }, func(q *big.Int) frontend.Circuit { return &cm2{X: 3, W: 5, Y: 9, Z: 4} }, func(q *big.Int) frontend.Circuit { return &cm2{X: 3, W: 5, Y: 8, Z: 4} }},
		{"commit2-independent", func() frontend.Circuit { return &cm2i{} }, func(q *big.Int) frontend.Circuit { return &cm2i{X: 3, W: 5, P1: 9, P2: 7} }, func(q *big.Int) frontend.Circuit { return &cm2i{X: 3, W: 5, P1: 10, P2: 7} }},
		{"commit3", func() frontend.Circuit { return &cm3{} }, func(q *big.Int) frontend.Circuit { return &cm3{X: 2, W: 5, V: 11, P1: 4, P2: 6} }, func(q *big.Int) frontend.Circuit { return &cm3{X: 2, W: 5, V: 11, P1: 5, P2: 6} }},
		{"commit3-second-only", func() frontend.Circuit { return &cm3b{} }, func(q *big.Int) frontend.Circuit { return &cm3b{X: 2, W: 5, V: 11, P1: 4} }, func(q *big.Int) frontend.Circuit { return &cm3b{X: 2, W: 5, V: 11, P1: 5} }},
		{"commit4-crossing", func() frontend.Circuit { return &cm4x{} }, func(q *big.Int) frontend.Circuit { return &cm4x{X: 2, Y: 5, Z: 11, W: 13, P1: 4} }, func(q *big.Int) frontend.Circuit { return &cm4x{X: 2, Y: 5, Z: 11, W: 13, P1: 5} }},
		{"hints+wide-level", func() frontend.Circuit { return &hintyCircuit{} }, func(q *big.Int) frontend.Circuit { return &hintyCircuit{X: 300, Y: 7, Z: 300*7 + 44} }, func(q *big.Int) frontend.Circuit { return &hintyCircuit{X: 300, Y: 7, Z: 1} }},
	}
	for _, n := range []int{1, 2, 3, 4, 5, 6, 7, 14, 15} { // domain sizes 2..16 incl. the tiny-domain rule of the PLONK prover
		n := n
		specs = append(specs, progSpec{fmt.Sprintf("size-%d", n), func() frontend.Circuit { return &sizedCircuit{n: n} },
			func(q *big.Int) frontend.Circuit { return &sizedCircuit{X: 3, Y: pw(3, n, q), n: n} },
			func(q *big.Int) frontend.Circuit { return &sizedCircuit{X: 3, Y: 1, n: n} }})
	}
	return specs
}

func runC03(args []string) int {
	o := parseOpts(args)
	rng := NewRNG(o.Seed)
	rep := NewReport("C03")
	rep.Rule = "circuits over edge shapes (no secret input, everything constant-folded, only a commitment, 1 and 2 commitments, hints with a wide level, domain sizes 2..16) plus seeded satisfiable API programs, on every curve x both backends (quick: bn254 and two more curves per backend in rotation; thorough: all 7), under consistent prover/verifier option sets (default; custom hash-to-field; custom challenge hash; custom KZG folding hash; statistical zero-knowledge): Prove must succeed and Verify accept for the valid assignment; for the invalid assignment Prove must return an error within the watchdog and without panicking; bn254 Groth16 additionally ties Krs to the model (the quotient is the right one); non-trivial = every run; distinct = (backend, curve, circuit, options, witness)"
	curves := []ecc.ID{ecc.BN254, ecc.BLS12_377, ecc.BLS12_381, ecc.BW6_761, ecc.BLS24_315, ecc.BLS24_317, ecc.BW6_633}
	specs := c03Specs()
	// seeded satisfiable programs
	type optset struct {
		name string
		p    []backend.ProverOption
		v    []backend.VerifierOption
	}
	optsets := []optset{
		{"default", nil, nil},
		{"hash-to-field=keccak", []backend.ProverOption{backend.WithProverHashToFieldFunction(sha3.NewLegacyKeccak256())}, []backend.VerifierOption{backend.WithVerifierHashToFieldFunction(sha3.NewLegacyKeccak256())}},
		{"hash-to-field=sha512", []backend.ProverOption{backend.WithProverHashToFieldFunction(sha512.New())}, []backend.VerifierOption{backend.WithVerifierHashToFieldFunction(sha512.New())}}, // digest wider than a field element
		{"challenge-hash=keccak", []backend.ProverOption{backend.WithProverChallengeHashFunction(sha3.NewLegacyKeccak256())}, []backend.VerifierOption{backend.WithVerifierChallengeHashFunction(sha3.NewLegacyKeccak256())}},
		{"kzg-fold-hash=keccak", []backend.ProverOption{backend.WithProverKZGFoldingHashFunction(sha3.NewLegacyKeccak256())}, []backend.VerifierOption{backend.WithVerifierKZGFoldingHashFunction(sha3.NewLegacyKeccak256())}},
		{"statistical-zk", []backend.ProverOption{backend.WithStatisticalZeroKnowledge()}, nil},
	}
	run := func(be string, id ecc.ID, name string, circ frontend.Circuit, valid, bad frontend.Circuit, os optset) {
		q := id.ScalarField()
		desc := c03Desc{be, id.String(), name, os.name, ""}
		var prove func(w witness.Witness) (interface{}, error)
		var verify func(p interface{}, pub witness.Witness) error
		perr := catchPanic(func() {
			if be == "groth16" {
				ccs, err := frontend.Compile(q, r1cs.NewBuilder[constraint.U64], circ)
				if err != nil {
					panic("compile: " + err.Error())
				}
				pk, vk, err := groth16.Setup(ccs)
				if err != nil {
					panic("setup: " + err.Error())
				}
				prove = func(w witness.Witness) (interface{}, error) { return groth16.Prove(ccs, pk, w, os.p...) }
				verify = func(p interface{}, pub witness.Witness) error {
					return groth16.Verify(p.(groth16.Proof), vk, pub, os.v...)
				}
			} else {
				ccs, err := frontend.Compile(q, scs.NewBuilder[constraint.U64], circ)
				if err != nil {
					panic("compile: " + err.Error())
				}
				srs, srsL, err := unsafekzg.NewSRS(ccs)
				if err != nil {
					panic("srs: " + err.Error())
				}
				pk, vk, err := plonk.Setup(ccs, srs, srsL)
				if err != nil {
					panic("setup: " + err.Error())
				}
				prove = func(w witness.Witness) (interface{}, error) { return plonk.Prove(ccs, pk, w, os.p...) }
				verify = func(p interface{}, pub witness.Witness) error { return plonk.Verify(p.(plonk.Proof), vk, pub, os.v...) }
			}
		})
		if perr != "" {
			if strings.HasPrefix(perr, "compile:") {
				rep.Count("compile-refused:" + name)
				return
			}
			rep.Fail("c03:setup-failed:"+be+":"+name, "Compile/Setup failed or panicked: "+perr, desc)
			return
		}
		for _, wk := range []string{"valid", "invalid"} {
			a := valid
			if wk == "invalid" {
				a = bad
			}
			if a == nil {
				continue
			}
			d := desc
			d.Witness = wk
			w, err := frontend.NewWitness(a, q)
			if err != nil {
				rep.Fail("harness:witness", err.Error(), d)
				continue
			}
			pub, _ := w.Public()
			var proof interface{}
			var perr, verr error
			var pn string
			finished := withWatchdog(90*time.Second, func() {
				pn = catchPanic(func() {
					proof, perr = prove(w)
					if perr == nil {
						verr = verify(proof, pub)
					}
				})
			})
			rep.Eval(fmt.Sprintf("%s|%s|%s|%s|%s", be, id, name, os.name, wk), true)
			rep.Count(be + ":" + wk)
			rep.Sample(d)
			sigTail := be + ":" + strings.TrimRight(name, "0123456789") + ":" + os.name
			switch {
			case !finished:
				rep.Fail("c03:hang:"+wk+":"+sigTail, "Prove/Verify did not return within 90 s", d)
			case pn != "":
				rep.Fail("c03:panic:"+wk+":"+sigTail, "Prove/Verify panicked: "+pn, d)
			case wk == "valid" && perr != nil:
				rep.Fail("c03:prove-failed:"+sigTail, "Prove failed on a satisfying assignment: "+shortErr(perr), d)
			case wk == "valid" && verr != nil:
				rep.Fail("c03:honest-proof-rejected:"+sigTail, "Verify rejected the proof of a satisfying assignment: "+shortErr(verr), d)
			case wk == "invalid" && perr == nil:
				rep.Fail("c03:proof-of-unsat:"+sigTail, "Prove returned a proof for a non-satisfying assignment (verifier says: "+shortErr(verr)+")", d)
			}
		}
	}
	ci := 0
	for si, sp := range specs {
		for _, be := range []string{"groth16", "plonk"} {
			ids := []ecc.ID{ecc.BN254, curves[1+(si+ci)%6]}
			if o.AllCurves() {
				ids = curves
			}
			ci++
			for _, id := range ids {
				oss := optsets[:1]
				if (id == ecc.BN254 && (si < 9 || o.Thorough())) || (os.Getenv("VERIF_ALL_CURVES") != "" && si < 3) {
					oss = optsets
				}
				for _, os := range oss {
					if be == "groth16" && (os.name == "challenge-hash=keccak" || os.name == "kzg-fold-hash=keccak" || os.name == "statistical-zk") {
						continue // PLONK-only options
					}
					q := id.ScalarField()
					var bad frontend.Circuit
					if sp.bad != nil {
						bad = sp.bad(q)
					}
					run(be, id, sp.name, sp.mk(), sp.valid(q), bad, os)
				}
			}
		}
	}
	// seeded satisfiable programs (values from the documented-meaning evaluator)
	nprog := 10
	if o.Thorough() {
		nprog = 120
	}
	for pi := 0; pi < nprog; pi++ {
		id := curves[pi%len(curves)]
		q := id.ScalarField()
		p := GenProg(rng, q, GenCfg{MaxOps: 8, NoAsserts: true})
		nin := p.NbPub + p.NbSec
		in := make([]*big.Int, nin)
		for i := range in {
			in[i] = rng.FieldElem(q)
		}
		vals, ok, _, _ := EvalSpec(p, q, in)
		if !ok || len(p.Outs) == 0 {
			continue
		}
		outs := make([]*big.Int, len(p.Outs))
		badOuts := make([]*big.Int, len(p.Outs))
		for i, ov := range p.Outs {
			outs[i] = vals[ov]
			badOuts[i] = vals[ov]
		}
		badOuts[0] = new(big.Int).Add(outs[0], big.NewInt(1))
		mkA := func(os []*big.Int) frontend.Circuit {
			a := NewProgCircuit(p)
			for i := 0; i < p.NbPub; i++ {
				a.Pub[i] = in[i]
			}
			for i := range p.Outs {
				a.Out[i] = os[i]
			}
			for i := 0; i < p.NbSec; i++ {
				a.Sec[i] = in[p.NbPub+i]
			}
			return a
		}
		for _, be := range []string{"groth16", "plonk"} {
			run(be, id, "prog:"+p.String(), NewProgCircuit(p), mkA(outs), mkA(badOuts), optsets[0])
		}
	}
	// bn254 Groth16: the quotient used by the prover is the right one (Krs tie)
	var coqCases []string
	for si, sp := range g16Specs() {
		r, err := g16Setup(sp.name, sp.mk(), rng)
		if err != nil {
			continue
		}
		full, _ := frontend.NewWitness(sp.asg(si+2), bnQ)
		po, err := r.prove(full)
		rep.Eval("g16-krs-tie|"+sp.name, true)
		if err != nil {
			rep.Fail("c03:prove-failed:groth16:"+sp.name, shortErr(err), sp.name)
			continue
		}
		for _, e := range po.errs {
			rep.Fail("c03:g16-proof-element:"+strings.SplitN(e, "[", 2)[0], "proof element is not [model scalar]·G (for Krs: the quotient h is not (A·w)(B·w)-C·w over Z): "+e, sp.name)
		}
		if r.n <= 16 {
			coqCases = append(coqCases, r.coqCase(po))
		}
	}
	var sb strings.Builder
	sb.WriteString("From Coq Require Import ZArith List Bool.\nFrom GnarkV Require Import Backend.Groth16Setup Backend.Groth16Cases.\nImport ListNotations.\n")
	sb.WriteString(fmt.Sprintf("Definition cases : list gcase := %s.\n", coqlistNL(coqCases)))
	sb.WriteString("Definition mism_g16_complete := Eval vm_compute in gmismatches 0 cases.\nPrint mism_g16_complete.\n")
	writeFile(o.Out, "cases_C03.v", sb.String())
	rep.CoqCases = len(coqCases)
	rep.Write(o.Out)
	return 0
}
