package main

// C17: recursive in-circuit verifiers accept exactly what the native verifiers accept.

import (
	"bytes"
	"fmt"
	"math/big"
	"reflect"
	"strconv"
	"strings"
	"sync"

	"github.com/consensys/gnark-crypto/ecc"
	bls12377 "github.com/consensys/gnark-crypto/ecc/bls12-377"
	"github.com/consensys/gnark/backend/groth16"
	g16_377 "github.com/consensys/gnark/backend/groth16/bls12-377"
	g16_381 "github.com/consensys/gnark/backend/groth16/bls12-381"
	g16_254 "github.com/consensys/gnark/backend/groth16/bn254"
	"github.com/consensys/gnark/backend/plonk"
	pl_377 "github.com/consensys/gnark/backend/plonk/bls12-377"
	pl_381 "github.com/consensys/gnark/backend/plonk/bls12-381"
	pl_254 "github.com/consensys/gnark/backend/plonk/bn254"
	"github.com/consensys/gnark/backend/witness"
	"github.com/consensys/gnark/constraint"
	"github.com/consensys/gnark/frontend"
	"github.com/consensys/gnark/frontend/cs/r1cs"
	"github.com/consensys/gnark/frontend/cs/scs"
	"github.com/consensys/gnark/std/algebra"
	"github.com/consensys/gnark/std/algebra/emulated/sw_bls12381"
	"github.com/consensys/gnark/std/algebra/emulated/sw_bn254"
	"github.com/consensys/gnark/std/algebra/native/sw_bls12377"
	"github.com/consensys/gnark/std/math/emulated"
	stdgroth16 "github.com/consensys/gnark/std/recursion/groth16"
	stdplonk "github.com/consensys/gnark/std/recursion/plonk"
	"github.com/consensys/gnark/test"
	"github.com/consensys/gnark/test/unsafekzg"
)

func init() { commands["c17"] = runC17 }

type c17Inner struct {
	P, Q frontend.Variable
	N    frontend.Variable `gnark:",public"`
}

func (c *c17Inner) Define(api frontend.API) error {
	api.AssertIsEqual(api.Mul(c.P, c.Q), c.N)
	api.AssertIsDifferent(c.P, 1)
	return nil
}

type c17InnerCommit struct {
	P, Q frontend.Variable
	N    frontend.Variable `gnark:",public"`
}

func (c *c17InnerCommit) Define(api frontend.API) error {
	api.AssertIsEqual(api.Mul(c.P, c.Q), c.N)
	cm, err := api.(frontend.Committer).Commit(c.P, c.N)
	if err != nil {
		return err
	}
	api.AssertIsDifferent(cm, c.Q)
	return nil
}

// a commitment over private wires only (what range checks and lookups produce)
type c17InnerPrivCommit struct {
	P, Q frontend.Variable
	N    frontend.Variable `gnark:",public"`
}

func (c *c17InnerPrivCommit) Define(api frontend.API) error {
	api.AssertIsEqual(api.Mul(c.P, c.Q), c.N)
	cm, err := api.(frontend.Committer).Commit(c.P, c.Q)
	if err != nil {
		return err
	}
	api.AssertIsDifferent(cm, c.N)
	return nil
}

// two commitments (the hash-to-field of every commitment after the first starts from a fresh state)
type c17InnerCommit2 struct {
	P, Q frontend.Variable
	N    frontend.Variable `gnark:",public"`
}

func (c *c17InnerCommit2) Define(api frontend.API) error {
	api.AssertIsEqual(api.Mul(c.P, c.Q), c.N)
	cm, err := api.(frontend.Committer).Commit(c.P, c.N)
	if err != nil {
		return err
	}
	cm2, err := api.(frontend.Committer).Commit(c.Q, cm)
	if err != nil {
		return err
	}
	api.AssertIsDifferent(cm2, c.Q)
	return nil
}

// another inner circuit with the same public interface
type c17Other struct {
	P, Q frontend.Variable
	N    frontend.Variable `gnark:",public"`
}

func (c *c17Other) Define(api frontend.API) error {
	api.AssertIsEqual(api.Add(c.P, c.Q), c.N)
	return nil
}

type (
	sfr377 = sw_bls12377.ScalarField
	g1t    = sw_bls12377.G1Affine
	g2t    = sw_bls12377.G2Affine
	gtt    = sw_bls12377.GT
)

// generic outer circuits for the emulated pairings
type g16OuterG[FR emulated.FieldParams, G1El algebra.G1ElementT, G2El algebra.G2ElementT, GtEl algebra.GtElementT] struct {
	Proof        stdgroth16.Proof[G1El, G2El]
	VerifyingKey stdgroth16.VerifyingKey[G1El, G2El, GtEl]
	InnerWitness stdgroth16.Witness[FR]
}

func (c *g16OuterG[FR, G1El, G2El, GtEl]) Define(api frontend.API) error {
	v, err := stdgroth16.NewVerifier[FR, G1El, G2El, GtEl](api)
	if err != nil {
		return err
	}
	return v.AssertProof(c.VerifyingKey, c.Proof, c.InnerWitness, stdgroth16.WithCompleteArithmetic())
}

type plOuterG[FR emulated.FieldParams, G1El algebra.G1ElementT, G2El algebra.G2ElementT, GtEl algebra.GtElementT] struct {
	Proof        stdplonk.Proof[FR, G1El, G2El]
	VerifyingKey stdplonk.VerifyingKey[FR, G1El, G2El]
	InnerWitness stdplonk.Witness[FR]
}

func (c *plOuterG[FR, G1El, G2El, GtEl]) Define(api frontend.API) error {
	v, err := stdplonk.NewVerifier[FR, G1El, G2El, GtEl](api)
	if err != nil {
		return err
	}
	return v.AssertProof(c.VerifyingKey, c.Proof, c.InnerWitness, stdplonk.WithCompleteArithmetic())
}

// swapField copies the named (possibly nested) field of src into a serialisation-clone of dst
func hybridProof(dst, src interface{}, path ...string) {
	d, s := reflect.ValueOf(dst).Elem(), reflect.ValueOf(src).Elem()
	for _, f := range path {
		if i, err := strconv.Atoi(f); err == nil {
			d, s = d.Index(i), s.Index(i)
		} else {
			d, s = d.FieldByName(f), s.FieldByName(f)
		}
	}
	d.Set(s)
}

// emulated recursion: a genuine inner proof, a replay, hybrids of two genuine proofs (one element taken from a
// proof of another witness), a key of another setup — native verdict vs in-circuit verdict
func emulatedJobs[FR emulated.FieldParams, G1El algebra.G1ElementT, G2El algebra.G2ElementT, GtEl algebra.GtElementT](id ecc.ID, outF *big.Int, newG16 func() groth16.Proof, newPl func() plonk.Proof, add func(scheme, inner string, name string, run func() (error, error))) {
	inF := id.ScalarField()
	tag := id.String() + " emulated"
	// Groth16
	{
		ccs, err := frontend.Compile(inF, r1cs.NewBuilder[constraint.U64], &c17InnerCommit{})
		if err != nil {
			return
		}
		pk, vk, _ := groth16.Setup(ccs)
		_, vk2, _ := groth16.Setup(ccs)
		fullA, _ := frontend.NewWitness(&c17InnerCommit{P: 3, Q: 5, N: 15}, inF)
		fullB, _ := frontend.NewWitness(&c17InnerCommit{P: 3, Q: 7, N: 21}, inF)
		pubA, _ := fullA.Public()
		pubB, _ := fullB.Public()
		prA, err1 := groth16.Prove(ccs, pk, fullA, stdgroth16.GetNativeProverOptions(outF, inF))
		prB, err2 := groth16.Prove(ccs, pk, fullB, stdgroth16.GetNativeProverOptions(outF, inF))
		if err1 != nil || err2 != nil {
			return
		}
		clone := func(p groth16.Proof) groth16.Proof {
			var b bytes.Buffer
			p.WriteTo(&b)
			q := newG16()
			q.ReadFrom(bytes.NewReader(b.Bytes()))
			return q
		}
		mk := func(name string, pr groth16.Proof, key groth16.VerifyingKey, w witness.Witness) {
			add("groth16", tag, name, func() (error, error) {
				nat := groth16.Verify(pr, key, w, stdgroth16.GetNativeVerifierOptions(outF, inF))
				cvk, err := stdgroth16.ValueOfVerifyingKey[G1El, G2El, GtEl](key)
				if err != nil {
					return nat, err
				}
				cw, err := stdgroth16.ValueOfWitness[FR](w)
				if err != nil {
					return nat, err
				}
				cp, err := stdgroth16.ValueOfProof[G1El, G2El](pr)
				if err != nil {
					return nat, err
				}
				tmpl := &g16OuterG[FR, G1El, G2El, GtEl]{InnerWitness: stdgroth16.PlaceholderWitness[FR](ccs), VerifyingKey: stdgroth16.PlaceholderVerifyingKey[G1El, G2El, GtEl](ccs), Proof: stdgroth16.PlaceholderProof[G1El, G2El](ccs)}
				asg := &g16OuterG[FR, G1El, G2El, GtEl]{InnerWitness: cw, VerifyingKey: cvk, Proof: cp}
				return nat, test.IsSolved(tmpl, asg, outF)
			})
		}
		mk("genuine", prA, vk, pubA)
		mk("replayed against another public witness", prA, vk, pubB)
		mk("key of another setup", prA, vk2, pubA)
		for _, f := range []string{"Ar", "Bs", "Krs", "CommitmentPok"} {
			h := clone(prA)
			hybridProof(h, prB, f)
			mk("hybrid: "+f+" from a proof of another witness", h, vk, pubA)
		}
		{
			h := clone(prA)
			hybridProof(h, prB, "Commitments", "0")
			mk("hybrid: commitment from a proof of another witness", h, vk, pubA)
		}
	}
	// PLONK
	if newPl != nil {
		ccs, err := frontend.Compile(inF, scs.NewBuilder[constraint.U64], &c17Inner{})
		if err != nil {
			return
		}
		srs, srsL, err := unsafekzg.NewSRS(ccs)
		if err != nil {
			return
		}
		pk, vk, _ := plonk.Setup(ccs, srs, srsL)
		fullA, _ := frontend.NewWitness(&c17Inner{P: 3, Q: 5, N: 15}, inF)
		fullB, _ := frontend.NewWitness(&c17Inner{P: 3, Q: 7, N: 21}, inF)
		pubA, _ := fullA.Public()
		pubB, _ := fullB.Public()
		prA, err1 := plonk.Prove(ccs, pk, fullA, stdplonk.GetNativeProverOptions(outF, inF))
		prB, err2 := plonk.Prove(ccs, pk, fullB, stdplonk.GetNativeProverOptions(outF, inF))
		if err1 != nil || err2 != nil {
			return
		}
		clone := func(p plonk.Proof) plonk.Proof {
			var b bytes.Buffer
			p.WriteTo(&b)
			q := newPl()
			q.ReadFrom(bytes.NewReader(b.Bytes()))
			return q
		}
		mk := func(name string, pr plonk.Proof, key plonk.VerifyingKey, w witness.Witness) {
			add("plonk", tag, name, func() (error, error) {
				nat := plonk.Verify(pr, key, w, stdplonk.GetNativeVerifierOptions(outF, inF))
				cvk, err := stdplonk.ValueOfVerifyingKey[FR, G1El, G2El](key)
				if err != nil {
					return nat, err
				}
				cw, err := stdplonk.ValueOfWitness[FR](w)
				if err != nil {
					return nat, err
				}
				cp, err := stdplonk.ValueOfProof[FR, G1El, G2El](pr)
				if err != nil {
					return nat, err
				}
				tmpl := &plOuterG[FR, G1El, G2El, GtEl]{InnerWitness: stdplonk.PlaceholderWitness[FR](ccs), VerifyingKey: stdplonk.PlaceholderVerifyingKey[FR, G1El, G2El](ccs), Proof: stdplonk.PlaceholderProof[FR, G1El, G2El](ccs)}
				asg := &plOuterG[FR, G1El, G2El, GtEl]{InnerWitness: cw, VerifyingKey: cvk, Proof: cp}
				return nat, test.IsSolved(tmpl, asg, outF)
			})
		}
		mk("genuine", prA, vk, pubA)
		mk("replayed against another public witness", prA, vk, pubB)
		for _, path := range [][]string{{"LRO", "0"}, {"Z"}, {"H", "1"}, {"BatchedProof", "H"}, {"BatchedProof", "ClaimedValues", "1"}, {"ZShiftedOpening", "ClaimedValue"}, {"ZShiftedOpening", "H"}} {
			h := clone(prA)
			hybridProof(h, prB, path...)
			mk("hybrid: "+strings.Join(path, ".")+" from a proof of another witness", h, vk, pubA)
		}
	}
}

type g16Outer struct {
	Proof        stdgroth16.Proof[g1t, g2t]
	VerifyingKey stdgroth16.VerifyingKey[g1t, g2t, gtt]
	InnerWitness stdgroth16.Witness[sfr377]
	complete     bool
	subgroup     bool
}

func (c *g16Outer) Define(api frontend.API) error {
	v, err := stdgroth16.NewVerifier[sfr377, g1t, g2t, gtt](api)
	if err != nil {
		return err
	}
	var opts []stdgroth16.VerifierOption
	if c.complete {
		opts = append(opts, stdgroth16.WithCompleteArithmetic())
	}
	if c.subgroup {
		opts = append(opts, stdgroth16.WithSubgroupCheck())
	}
	return v.AssertProof(c.VerifyingKey, c.Proof, c.InnerWitness, opts...)
}

// key switching: two keys in the circuit, a selector, one proof
type g16Switch struct {
	Proof        stdgroth16.Proof[g1t, g2t]
	Keys         [2]stdgroth16.VerifyingKey[g1t, g2t, gtt]
	Sel          frontend.Variable
	InnerWitness stdgroth16.Witness[sfr377]
}

func (c *g16Switch) Define(api frontend.API) error {
	v, err := stdgroth16.NewVerifier[sfr377, g1t, g2t, gtt](api)
	if err != nil {
		return err
	}
	vk, err := v.SwitchVerificationKey(c.Sel, c.Keys[:])
	if err != nil {
		return err
	}
	return v.AssertProof(vk, c.Proof, c.InnerWitness)
}

type plOuter struct {
	Proof        stdplonk.Proof[sfr377, g1t, g2t]
	VerifyingKey stdplonk.VerifyingKey[sfr377, g1t, g2t]
	InnerWitness stdplonk.Witness[sfr377]
}

func (c *plOuter) Define(api frontend.API) error {
	v, err := stdplonk.NewVerifier[sfr377, g1t, g2t, gtt](api)
	if err != nil {
		return err
	}
	return v.AssertProof(c.VerifyingKey, c.Proof, c.InnerWitness, stdplonk.WithCompleteArithmetic())
}

// PLONK key switching: base key + per-circuit keys, a selector, one proof
type plSwitch struct {
	Proof        stdplonk.Proof[sfr377, g1t, g2t]
	Base         stdplonk.BaseVerifyingKey[sfr377, g1t, g2t]
	Keys         []stdplonk.CircuitVerifyingKey[sfr377, g1t]
	Sel          frontend.Variable
	InnerWitness stdplonk.Witness[sfr377]
}

func (c *plSwitch) Define(api frontend.API) error {
	v, err := stdplonk.NewVerifier[sfr377, g1t, g2t, gtt](api)
	if err != nil {
		return err
	}
	vk, err := v.SwitchVerificationKey(c.Base, c.Sel, c.Keys)
	if err != nil {
		return err
	}
	return v.AssertProof(vk, c.Proof, c.InnerWitness, stdplonk.WithCompleteArithmetic())
}

type c17Desc struct {
	Scheme  string `json:"scheme"`
	Inner   string `json:"inner"`
	Variant string `json:"variant"`
	Native  string `json:"native"`
	Circuit string `json:"incircuit"`
}

func runC17(args []string) int {
	o := parseOpts(args)
	rng := NewRNG(o.Seed)
	rep := NewReport("C17")
	rep.Rule = "two-chain BLS12-377 in BW6-761 and emulated BN254 in BN254 (thorough: emulated BLS12-381), test engine: inner circuits with and without a commitment; for Groth16 and PLONK every inner triple (genuine; replayed against another public witness; each proof element replaced by another valid point / scalar; a proof made under another setup's key; a proof of another circuit with the same interface) is decided by the native verifier configured with the recursion options and by the in-circuit verifier (witness-supplied key; complete arithmetic on and off for Groth16): the verdicts must coincide; Groth16 key switching: the proof verifies under the selected key only; non-trivial = every (scheme, inner circuit, variant); distinct as counted"
	inF, outF := ecc.BLS12_377.ScalarField(), ecc.BW6_761.ScalarField()
	type triple struct {
		name string
		run  func() (native error, circuit error)
	}
	type jobT struct {
		scheme, inner string
		t             triple
		nat, cir      error
		pm            string
	}
	var jobs []*jobT
	_, _, g1gen, g2gen := bls12377.Generators()
	// ---------------------------------------------------------------- Groth16
	for _, inner := range []struct {
		name string
		mk   func() frontend.Circuit
		asg  func(p, q int64) frontend.Circuit
	}{
		{"mul", func() frontend.Circuit { return &c17Inner{} }, func(p, q int64) frontend.Circuit { return &c17Inner{P: p, Q: q, N: p * q} }},
		{"mul+commitment", func() frontend.Circuit { return &c17InnerCommit{} }, func(p, q int64) frontend.Circuit { return &c17InnerCommit{P: p, Q: q, N: p * q} }},
		{"mul+private-only commitment", func() frontend.Circuit { return &c17InnerPrivCommit{} }, func(p, q int64) frontend.Circuit { return &c17InnerPrivCommit{P: p, Q: q, N: p * q} }},
	} {
		ccs, err := frontend.Compile(inF, r1cs.NewBuilder[constraint.U64], inner.mk())
		if err != nil {
			rep.Fail("harness:compile", err.Error(), nil)
			continue
		}
		pk, vk, _ := groth16.Setup(ccs)
		_, vk2, _ := groth16.Setup(ccs)
		full, _ := frontend.NewWitness(inner.asg(3, 5), inF)
		pub, _ := full.Public()
		proof, err := groth16.Prove(ccs, pk, full, stdgroth16.GetNativeProverOptions(outF, inF))
		if err != nil {
			rep.Fail("harness:inner-prove", err.Error(), nil)
			continue
		}
		fullB, _ := frontend.NewWitness(inner.asg(3, 7), inF)
		pubB, _ := fullB.Public()
		clone := func() *g16_377.Proof {
			var b bytes.Buffer
			proof.(*g16_377.Proof).WriteRawTo(&b)
			q := &g16_377.Proof{}
			q.ReadFrom(bytes.NewReader(b.Bytes()))
			return q
		}
		mk := func(name string, pr groth16.Proof, key groth16.VerifyingKey, w witness.Witness, complete bool) triple {
			return triple{name, func() (error, error) {
				nat := groth16.Verify(pr, key, w, stdgroth16.GetNativeVerifierOptions(outF, inF))
				cvk, err := stdgroth16.ValueOfVerifyingKey[g1t, g2t, gtt](key)
				if err != nil {
					return nat, err
				}
				cw, err := stdgroth16.ValueOfWitness[sfr377](w)
				if err != nil {
					return nat, err
				}
				cp, err := stdgroth16.ValueOfProof[g1t, g2t](pr)
				if err != nil {
					return nat, err
				}
				tmpl := &g16Outer{InnerWitness: stdgroth16.PlaceholderWitness[sfr377](ccs), VerifyingKey: stdgroth16.PlaceholderVerifyingKey[g1t, g2t, gtt](ccs), Proof: stdgroth16.PlaceholderProof[g1t, g2t](ccs), complete: complete}
				asg := &g16Outer{InnerWitness: cw, VerifyingKey: cvk, Proof: cp}
				return nat, test.IsSolved(tmpl, asg, outF)
			}}
		}
		// with the subgroup-check option the in-circuit verifier must, like the native one, reject elements shifted by a point of
		// small order (on the curve, outside G1; invisible to the pairings)
		mkSub := func(name string, pr groth16.Proof) triple {
			return triple{name, func() (error, error) {
				nat := groth16.Verify(pr, vk, pub, stdgroth16.GetNativeVerifierOptions(outF, inF))
				cvk, _ := stdgroth16.ValueOfVerifyingKey[g1t, g2t, gtt](vk)
				cw, _ := stdgroth16.ValueOfWitness[sfr377](pub)
				cp, err := stdgroth16.ValueOfProof[g1t, g2t](pr)
				if err != nil {
					return nat, err
				}
				tmpl := &g16Outer{InnerWitness: stdgroth16.PlaceholderWitness[sfr377](ccs), VerifyingKey: stdgroth16.PlaceholderVerifyingKey[g1t, g2t, gtt](ccs), Proof: stdgroth16.PlaceholderProof[g1t, g2t](ccs), subgroup: true}
				asg := &g16Outer{InnerWitness: cw, VerifyingKey: cvk, Proof: cp}
				return nat, test.IsSolved(tmpl, asg, outF)
			}}
		}
		var ts []triple
		ts = append(ts, mk("genuine", proof, vk, pub, false), mk("genuine (complete arithmetic)", proof, vk, pub, true))
		ts = append(ts, mkSub("genuine (subgroup checks)", proof))
		{
			edits := []struct {
				name string
				pt   func(p *g16_377.Proof) interface{}
			}{{"Ar", func(p *g16_377.Proof) interface{} { return &p.Ar }}, {"Krs", func(p *g16_377.Proof) interface{} { return &p.Krs }},
				{"commitment PoK", func(p *g16_377.Proof) interface{} { return &p.CommitmentPok }}}
			for _, e := range edits {
				pe := clone()
				if e.name == "commitment PoK" && len(pe.Commitments) == 0 {
					continue
				}
				if editPoint(e.pt(pe), "torsion") {
					ts = append(ts, mkSub(e.name+" + point of small order (subgroup checks)", pe))
				}
			}
		}
		ts = append(ts, mk("replayed against another public witness", proof, vk, pubB, false))
		ts = append(ts, mk("key of another setup", proof, vk2, pub, false))
		{
			p2 := clone()
			p2.Ar.Add(&p2.Ar, &g1gen)
			ts = append(ts, mk("Ar + G", p2, vk, pub, false))
			p3 := clone()
			p3.Krs.Add(&p3.Krs, &g1gen)
			ts = append(ts, mk("Krs + G", p3, vk, pub, true))
			p4 := clone()
			p4.Bs.Add(&p4.Bs, &g2gen)
			ts = append(ts, mk("Bs + G2", p4, vk, pub, false))
			if len(p4.Commitments) > 0 {
				p5 := clone()
				p5.Commitments[0].Add(&p5.Commitments[0], &g1gen)
				ts = append(ts, mk("commitment + G", p5, vk, pub, false))
				p6 := clone()
				p6.CommitmentPok.Add(&p6.CommitmentPok, &g1gen)
				ts = append(ts, mk("commitment PoK + G", p6, vk, pub, false))
			}
		}
		for _, t := range ts {
			jobs = append(jobs, &jobT{scheme: "groth16", inner: inner.name, t: t})
		}
		// proof of another circuit with the same interface, against this key
		if inner.name == "mul" {
			ccsO, _ := frontend.Compile(inF, r1cs.NewBuilder[constraint.U64], &c17Other{})
			pkO, vkO, _ := groth16.Setup(ccsO)
			fullO, _ := frontend.NewWitness(&c17Other{P: 3, Q: 12, N: 15}, inF)
			proofO, _ := groth16.Prove(ccsO, pkO, fullO, stdgroth16.GetNativeProverOptions(outF, inF))
			jobs = append(jobs, &jobT{scheme: "groth16", inner: inner.name, t: mk("proof of another circuit (same public input)", proofO, vk, pub, false)})
			// key switching
			for _, sel := range []int{0, 1} {
				sel := sel
				jobs = append(jobs, &jobT{scheme: "groth16", inner: inner.name, t: triple{fmt.Sprintf("key switching: proof under key 0, selector %d", sel), func() (error, error) {
					keys := []groth16.VerifyingKey{vk, vkO}
					nat := groth16.Verify(proof, keys[sel], pub, stdgroth16.GetNativeVerifierOptions(outF, inF))
					var cks [2]stdgroth16.VerifyingKey[g1t, g2t, gtt]
					for i := range keys {
						k, err := stdgroth16.ValueOfVerifyingKey[g1t, g2t, gtt](keys[i])
						if err != nil {
							return nat, err
						}
						cks[i] = k
					}
					cw, _ := stdgroth16.ValueOfWitness[sfr377](pub)
					cp, _ := stdgroth16.ValueOfProof[g1t, g2t](proof)
					tmpl := &g16Switch{InnerWitness: stdgroth16.PlaceholderWitness[sfr377](ccs), Proof: stdgroth16.PlaceholderProof[g1t, g2t](ccs)}
					tmpl.Keys[0] = stdgroth16.PlaceholderVerifyingKey[g1t, g2t, gtt](ccs)
					tmpl.Keys[1] = stdgroth16.PlaceholderVerifyingKey[g1t, g2t, gtt](ccsO)
					asg := &g16Switch{InnerWitness: cw, Proof: cp, Keys: cks, Sel: sel}
					return nat, test.IsSolved(tmpl, asg, outF)
				}}})
			}
		}
	}
	// ---------------------------------------------------------------- PLONK
	for _, inner := range []struct {
		name string
		mk   func() frontend.Circuit
		asg  func(p, q int64) frontend.Circuit
	}{
		{"mul", func() frontend.Circuit { return &c17Inner{} }, func(p, q int64) frontend.Circuit { return &c17Inner{P: p, Q: q, N: p * q} }},
		{"mul+commitment", func() frontend.Circuit { return &c17InnerCommit{} }, func(p, q int64) frontend.Circuit { return &c17InnerCommit{P: p, Q: q, N: p * q} }},
		{"mul+two commitments", func() frontend.Circuit { return &c17InnerCommit2{} }, func(p, q int64) frontend.Circuit { return &c17InnerCommit2{P: p, Q: q, N: p * q} }},
	} {
		if inner.name == "mul+commitment" && !o.Thorough() && o.Seed%2 == 0 {
			continue
		}
		ccs, err := frontend.Compile(inF, scs.NewBuilder[constraint.U64], inner.mk())
		if err != nil {
			rep.Fail("harness:compile", err.Error(), nil)
			continue
		}
		srs, srsL, err := unsafekzg.NewSRS(ccs)
		if err != nil {
			rep.Fail("harness:srs", err.Error(), nil)
			continue
		}
		pk, vk, _ := plonk.Setup(ccs, srs, srsL)
		full, _ := frontend.NewWitness(inner.asg(3, 5), inF)
		pub, _ := full.Public()
		proof, err := plonk.Prove(ccs, pk, full, stdplonk.GetNativeProverOptions(outF, inF))
		if err != nil {
			rep.Fail("harness:inner-prove", err.Error(), nil)
			continue
		}
		fullB, _ := frontend.NewWitness(inner.asg(3, 7), inF)
		pubB, _ := fullB.Public()
		clone := func() *pl_377.Proof {
			var b bytes.Buffer
			proof.(*pl_377.Proof).WriteRawTo(&b)
			q := &pl_377.Proof{}
			q.ReadFrom(bytes.NewReader(b.Bytes()))
			return q
		}
		mk := func(name string, pr plonk.Proof, key plonk.VerifyingKey, w witness.Witness) triple {
			return triple{name, func() (error, error) {
				nat := plonk.Verify(pr, key, w, stdplonk.GetNativeVerifierOptions(outF, inF))
				cvk, err := stdplonk.ValueOfVerifyingKey[sfr377, g1t, g2t](key)
				if err != nil {
					return nat, err
				}
				cw, err := stdplonk.ValueOfWitness[sfr377](w)
				if err != nil {
					return nat, err
				}
				cp, err := stdplonk.ValueOfProof[sfr377, g1t, g2t](pr)
				if err != nil {
					return nat, err
				}
				tmpl := &plOuter{InnerWitness: stdplonk.PlaceholderWitness[sfr377](ccs), VerifyingKey: stdplonk.PlaceholderVerifyingKey[sfr377, g1t, g2t](ccs), Proof: stdplonk.PlaceholderProof[sfr377, g1t, g2t](ccs)}
				asg := &plOuter{InnerWitness: cw, VerifyingKey: cvk, Proof: cp}
				return nat, test.IsSolved(tmpl, asg, outF)
			}}
		}
		var ts []triple
		ts = append(ts, mk("genuine", proof, vk, pub), mk("replayed against another public witness", proof, vk, pubB))
		{
			p2 := clone()
			p2.LRO[1].Add(&p2.LRO[1], &g1gen)
			ts = append(ts, mk("LRO[1] + G", p2, vk, pub))
			p3 := clone()
			p3.Z.Add(&p3.Z, &g1gen)
			ts = append(ts, mk("Z + G", p3, vk, pub))
			p4 := clone()
			p4.H[2].Add(&p4.H[2], &g1gen)
			ts = append(ts, mk("H[2] + G", p4, vk, pub))
			p5 := clone()
			p5.BatchedProof.ClaimedValues[2].SetUint64(12345)
			ts = append(ts, mk("claimed value r(zeta) replaced", p5, vk, pub))
			p6 := clone()
			p6.ZShiftedOpening.ClaimedValue.SetUint64(777)
			ts = append(ts, mk("claimed value Z(omega zeta) replaced", p6, vk, pub))
			p7 := clone()
			p7.ZShiftedOpening.H.Add(&p7.ZShiftedOpening.H, &g1gen)
			ts = append(ts, mk("ZShiftedOpening.H + G", p7, vk, pub))
			if len(p7.Bsb22Commitments) > 0 {
				p8 := clone()
				p8.Bsb22Commitments[0].Add(&p8.Bsb22Commitments[0], &g1gen)
				ts = append(ts, mk("BSB22 commitment + G", p8, vk, pub))
			}
		}
		if inner.name == "mul" {
			// key switching with a single registered key: only selector 0 names a key
			for _, sel := range []int{0, 1, 5} {
				sel := sel
				ts = append(ts, triple{fmt.Sprintf("key switching: one registered key, selector %d", sel), func() (error, error) {
					var nat error
					if sel != 0 {
						nat = fmt.Errorf("selector %d names no registered key", sel)
					} else {
						nat = plonk.Verify(proof, vk, pub, stdplonk.GetNativeVerifierOptions(outF, inF))
					}
					cvk, err := stdplonk.ValueOfVerifyingKey[sfr377, g1t, g2t](vk)
					if err != nil {
						return nat, err
					}
					cw, _ := stdplonk.ValueOfWitness[sfr377](pub)
					cp, _ := stdplonk.ValueOfProof[sfr377, g1t, g2t](proof)
					pvk := stdplonk.PlaceholderVerifyingKey[sfr377, g1t, g2t](ccs)
					tmpl := &plSwitch{InnerWitness: stdplonk.PlaceholderWitness[sfr377](ccs), Proof: stdplonk.PlaceholderProof[sfr377, g1t, g2t](ccs),
						Base: pvk.BaseVerifyingKey, Keys: []stdplonk.CircuitVerifyingKey[sfr377, g1t]{pvk.CircuitVerifyingKey}}
					asg := &plSwitch{InnerWitness: cw, Proof: cp, Base: cvk.BaseVerifyingKey, Keys: []stdplonk.CircuitVerifyingKey[sfr377, g1t]{cvk.CircuitVerifyingKey}, Sel: sel}
					return nat, test.IsSolved(tmpl, asg, outF)
				}})
			}
		}
		{
			// a key from another SRS
			srs2, srsL2, _ := unsafekzg.NewSRS(ccs, unsafekzg.WithToxicValue(big.NewInt(424242)))
			_, vk2, _ := plonk.Setup(ccs, srs2, srsL2)
			ts = append(ts, mk("key of another SRS", proof, vk2, pub))
		}
		for _, t := range ts {
			jobs = append(jobs, &jobT{scheme: "plonk", inner: inner.name, t: t})
		}
	}
	_ = rng
	addJob := func(scheme, inner, name string, run func() (error, error)) {
		jobs = append(jobs, &jobT{scheme: scheme, inner: inner, t: triple{name, run}})
	}
	emulatedJobs[sw_bn254.ScalarField, sw_bn254.G1Affine, sw_bn254.G2Affine, sw_bn254.GTEl](ecc.BN254, bnQ,
		func() groth16.Proof { return &g16_254.Proof{} }, func() plonk.Proof { return &pl_254.Proof{} }, addJob)
	if o.Thorough() {
		emulatedJobs[sw_bls12381.ScalarField, sw_bls12381.G1Affine, sw_bls12381.G2Affine, sw_bls12381.GTEl](ecc.BLS12_381, bnQ,
			func() groth16.Proof { return &g16_381.Proof{} }, func() plonk.Proof { return &pl_381.Proof{} }, addJob)
	}
	sem := make(chan struct{}, 12)
	var wg sync.WaitGroup
	for _, j := range jobs {
		j := j
		wg.Add(1)
		sem <- struct{}{}
		go func() {
			defer wg.Done()
			defer func() { <-sem }()
			j.pm = catchPanic(func() { j.nat, j.cir = j.t.run() })
		}()
	}
	wg.Wait()
	for _, j := range jobs {
		v := func(e error) string {
			if e == nil {
				return "accept"
			}
			return "reject"
		}
		desc := c17Desc{Scheme: j.scheme, Inner: j.inner, Variant: j.t.name, Native: v(j.nat), Circuit: v(j.cir)}
		rep.Eval(fmt.Sprintf("%s|%s|%s", j.scheme, j.inner, j.t.name), true)
		rep.Count(j.scheme + ":native=" + v(j.nat) + ",circuit=" + v(j.cir))
		if len(rep.Samples) < 5 {
			rep.Sample(desc)
		}
		if j.pm != "" {
			rep.Fail("c17:panic:"+j.scheme, j.pm, desc)
			continue
		}
		if (j.nat == nil) != (j.cir == nil) {
			detail := ""
			if j.cir != nil {
				detail = shortErr(j.cir)
			}
			if j.nat != nil {
				detail += " / native: " + shortErr(j.nat)
			}
			which := "circuit-accepts-native-rejects"
			if j.nat == nil {
				which = "circuit-rejects-native-accepts"
			}
			rep.Fail("c17:"+which+":"+j.scheme+":"+j.t.name, fmt.Sprintf("%s, inner %s, %s: native verifier %ss, in-circuit verifier %ss (%s)", j.scheme, j.inner, j.t.name, v(j.nat), v(j.cir), detail), desc)
		}
		if j.t.name == "genuine" && j.nat != nil {
			rep.Fail("harness:genuine-rejected", shortErr(j.nat), desc)
		}
	}
	c17KZGBatch(rep, rng)
	rep.Write(o.Out)
	return 0
}
