package main

// C06, additional system sources: (1) circuits with lookup tables (stateful blueprint), range-check
// commitments and hints; (2) systems built directly through the constraint-system API with arbitrary
// coefficients on the wire to solve, then restored from bytes.

import (
	"bytes"
	"fmt"
	"io"
	"math/big"

	"github.com/consensys/gnark/backend/witness"
	"github.com/consensys/gnark/constraint"
	cs_bn254 "github.com/consensys/gnark/constraint/bn254"
	cs_tiny "github.com/consensys/gnark/constraint/tinyfield"
	"github.com/consensys/gnark/frontend"
	"github.com/consensys/gnark/std/lookup/logderivlookup"
)

// lookupCircuit: a table filled in two steps with queries in between (the blueprint caches
// resolved entries across instructions), constant and variable entries, repeated queries.
type lookupCircuit struct {
	A, B, C frontend.Variable
	I0, I1  frontend.Variable
	R0, R1  frontend.Variable `gnark:",public"`
	mode    int
}

func (c *lookupCircuit) Define(api frontend.API) error {
	t := logderivlookup.New(api)
	t.Insert(c.A)
	t.Insert(api.Add(c.A, c.B))
	t.Insert(7)
	var r0, r1 []frontend.Variable
	switch c.mode {
	case 0: // fill, then query
		t.Insert(c.C)
		t.Insert(api.Mul(c.B, c.C))
		r0 = t.Lookup(c.I0)
		r1 = t.Lookup(c.I1)
	case 1: // query, extend, query the new part
		r0 = t.Lookup(c.I0)
		t.Insert(c.C)
		t.Insert(api.Mul(c.B, c.C))
		r1 = t.Lookup(c.I1)
	default: // several queries in one call, then extend twice
		rr := t.Lookup(c.I0, c.I0)
		r0 = rr[:1]
		api.AssertIsEqual(rr[0], rr[1])
		t.Insert(c.C)
		_ = t.Lookup(c.I0)
		t.Insert(api.Mul(c.B, c.C))
		r1 = t.Lookup(c.I1)
	}
	api.AssertIsEqual(r0[0], c.R0)
	api.AssertIsEqual(r1[0], c.R1)
	return nil
}

type handBuilt struct {
	ccs      interface{}
	wit      []*big.Int // public (without ONE) then secret
	expected []*big.Int // all wires (R1CS) in wire order; nil for sparse
	desc     string
	nbPub    int
}

// genLin picks a random linear expression over known wires and returns (terms, value)
func coefPool(r *RNG, q *big.Int) *big.Int {
	switch r.Intn(8) {
	case 0:
		return big.NewInt(1)
	case 1:
		return new(big.Int).Sub(q, big.NewInt(1))
	case 2:
		return big.NewInt(2)
	case 3:
		return new(big.Int).Sub(q, big.NewInt(2))
	case 4:
		return big.NewInt(7)
	default:
		return r.FieldElem(q)
	}
}

func buildHandR1CS[E constraint.Element](r *RNG, q *big.Int, sys interface {
	constraint.ConstraintSystemGeneric[E]
	constraint.R1CS[E]
}) *handBuilt {
	bid := sys.AddBlueprint(&constraint.BlueprintGenericR1C{})
	vals := []*big.Int{big.NewInt(1)}
	sys.AddPublicVariable("1")
	nPub, nSec := 1+r.Intn(2), 1+r.Intn(2)
	var wit []*big.Int
	for i := 0; i < nPub; i++ {
		sys.AddPublicVariable(fmt.Sprintf("p%d", i))
		v := r.FieldElem(q)
		vals = append(vals, v)
		wit = append(wit, v)
	}
	for i := 0; i < nSec; i++ {
		sys.AddSecretVariable(fmt.Sprintf("s%d", i))
		v := r.FieldElem(q)
		vals = append(vals, v)
		wit = append(wit, v)
	}
	mulm := func(a, b *big.Int) *big.Int { x := new(big.Int).Mul(a, b); return x.Mod(x, q) }
	lin := func(maxTerms int) (constraint.LinearExpression, *big.Int) {
		n := 1 + r.Intn(maxTerms)
		var le constraint.LinearExpression
		val := new(big.Int)
		for i := 0; i < n; i++ {
			w := r.Intn(len(vals))
			c := coefPool(r, q)
			le = append(le, sys.MakeTerm(sys.FromInterface(c), w))
			val.Add(val, mulm(c, vals[w]))
		}
		return le, val.Mod(val, q)
	}
	desc := ""
	m := 2 + r.Intn(6)
	for k := 0; k < m; k++ {
		side := r.Intn(4)
		la, va := lin(3)
		lb, vb := lin(3)
		lo, vo := lin(3)
		if side == 3 { // assertion: O := constant la*lb on the ONE wire
			prod := mulm(va, vb)
			sys.AddR1C(constraint.R1C{L: la, R: lb, O: constraint.LinearExpression{sys.MakeTerm(sys.FromInterface(prod), 0)}}, bid)
			desc += "assert;"
			continue
		}
		c := coefPool(r, q)
		if c.Sign() == 0 {
			c = big.NewInt(3)
		}
		w := sys.AddInternalVariable()
		t := sys.MakeTerm(sys.FromInterface(c), w)
		cinv := new(big.Int).ModInverse(c, q)
		var wv *big.Int
		switch side {
		case 0: // (la + c*w) * lb = lo
			if vb.Sign() == 0 {
				lb = append(lb, sys.MakeTerm(sys.FromInterface(big.NewInt(1)), 0))
				vb = big.NewInt(1)
			}
			wv = mulm(new(big.Int).Sub(mulm(vo, new(big.Int).ModInverse(vb, q)), va), cinv)
			la = append(la, t)
		case 1:
			if va.Sign() == 0 {
				la = append(la, sys.MakeTerm(sys.FromInterface(big.NewInt(1)), 0))
				va = big.NewInt(1)
			}
			wv = mulm(new(big.Int).Sub(mulm(vo, new(big.Int).ModInverse(va, q)), vb), cinv)
			lb = append(lb, t)
		case 2: // la*lb = lo + c*w
			wv = mulm(new(big.Int).Sub(mulm(va, vb), vo), cinv)
			lo = append(lo, t)
		}
		wv.Mod(wv, q)
		vals = append(vals, wv)
		sys.AddR1C(constraint.R1C{L: la, R: lb, O: lo}, bid)
		desc += fmt.Sprintf("solve side %d coeff %s;", side, c)
	}
	return &handBuilt{ccs: sys, wit: wit, expected: vals, desc: "hand-built r1cs: " + desc, nbPub: nPub}
}

func buildHandSCS[E constraint.Element](r *RNG, q *big.Int, sys interface {
	constraint.ConstraintSystemGeneric[E]
	constraint.SparseR1CS[E]
}) *handBuilt {
	bid := sys.AddBlueprint(&constraint.BlueprintGenericSparseR1C[E]{})
	bidMul := sys.AddBlueprint(&constraint.BlueprintSparseR1CMul[E]{})
	bidAdd := sys.AddBlueprint(&constraint.BlueprintSparseR1CAdd[E]{})
	bidBool := sys.AddBlueprint(&constraint.BlueprintSparseR1CBool[E]{})
	var vals []*big.Int
	nPub, nSec := 1+r.Intn(2), 1+r.Intn(2)
	var wit []*big.Int
	for i := 0; i < nPub; i++ {
		sys.AddPublicVariable(fmt.Sprintf("p%d", i))
		v := r.FieldElem(q)
		vals = append(vals, v)
		wit = append(wit, v)
	}
	for i := 0; i < nSec; i++ {
		sys.AddSecretVariable(fmt.Sprintf("s%d", i))
		v := r.FieldElem(q)
		vals = append(vals, v)
		wit = append(wit, v)
	}
	mulm := func(a, b *big.Int) *big.Int { x := new(big.Int).Mul(a, b); return x.Mod(x, q) }
	cid := func(c *big.Int) uint32 { return sys.AddCoeff(sys.FromInterface(c)) }
	desc := ""
	m := 2 + r.Intn(6)
	for k := 0; k < m; k++ {
		pos := r.Intn(4)
		xa, xb, xc := r.Intn(len(vals)), r.Intn(len(vals)), r.Intn(len(vals))
		ql, qr, qo, qm := coefPool(r, q), coefPool(r, q), coefPool(r, q), coefPool(r, q)
		// the specialised blueprints (what the builder emits for Mul / Add / AssertIsBoolean), with arbitrary coefficients
		switch r.Intn(6) {
		case 0: // xc := qm * xa * xb
			w := sys.AddInternalVariable()
			vals = append(vals, mulm(qm, mulm(vals[xa], vals[xb])))
			sys.AddSparseR1C(constraint.SparseR1C{XA: uint32(xa), XB: uint32(xb), XC: uint32(w), QM: cid(qm), QO: cid(new(big.Int).Sub(q, big.NewInt(1)))}, bidMul)
			desc += "mul-blueprint;"
			continue
		case 1: // xc := ql * xa + qr * xb + qc
			w := sys.AddInternalVariable()
			qc := coefPool(r, q)
			t := new(big.Int).Add(mulm(ql, vals[xa]), mulm(qr, vals[xb]))
			t.Add(t, qc)
			vals = append(vals, t.Mod(t, q))
			sys.AddSparseR1C(constraint.SparseR1C{XA: uint32(xa), XB: uint32(xb), XC: uint32(w), QL: cid(ql), QR: cid(qr), QC: cid(qc), QO: cid(new(big.Int).Sub(q, big.NewInt(1)))}, bidAdd)
			desc += "add-blueprint;"
			continue
		case 2: // ql * xa + qm * xa^2 == 0 with ql := -qm * xa (holds; the coefficients are not the builder's -1 / 1)
			if qm.Sign() == 0 {
				qm = big.NewInt(3)
			}
			ql = mulm(new(big.Int).Neg(qm), vals[xa])
			ql.Mod(ql, q)
			sys.AddSparseR1C(constraint.SparseR1C{XA: uint32(xa), XB: uint32(xa), QL: cid(ql), QM: cid(qm)}, bidBool)
			desc += "bool-blueprint;"
			continue
		}
		if r.Intn(3) == 0 {
			qm = big.NewInt(0)
		}
		ev := func(a, b, c *big.Int) *big.Int { // ql a + qr b + qo c + qm a b
			t := new(big.Int).Add(mulm(ql, a), mulm(qr, b))
			t.Add(t, mulm(qo, c))
			t.Add(t, mulm(qm, mulm(a, b)))
			return t.Mod(t, q)
		}
		if pos == 3 { // assertion: qc := -(rest)
			qc := new(big.Int).Neg(ev(vals[xa], vals[xb], vals[xc]))
			qc.Mod(qc, q)
			sys.AddSparseR1C(constraint.SparseR1C{XA: uint32(xa), XB: uint32(xb), XC: uint32(xc), QL: cid(ql), QR: cid(qr), QO: cid(qo), QM: cid(qm), QC: cid(qc)}, bid)
			desc += "assert;"
			continue
		}
		qc := r.FieldElem(q)
		w := sys.AddInternalVariable()
		var wv *big.Int
		zero := big.NewInt(0)
		switch pos {
		case 0: // solve xa: (ql + qm*b) a + qr b + qo c + qc = 0
			den := new(big.Int).Add(ql, mulm(qm, vals[xb]))
			den.Mod(den, q)
			if den.Sign() == 0 {
				ql = new(big.Int).Add(ql, big.NewInt(1))
				den = big.NewInt(1)
			}
			rest := new(big.Int).Add(mulm(qr, vals[xb]), mulm(qo, vals[xc]))
			rest.Add(rest, qc)
			wv = mulm(new(big.Int).Neg(rest), new(big.Int).ModInverse(den, q))
			xa = w
		case 1:
			den := new(big.Int).Add(qr, mulm(qm, vals[xa]))
			den.Mod(den, q)
			if den.Sign() == 0 {
				qr = new(big.Int).Add(qr, big.NewInt(1))
				den = big.NewInt(1)
			}
			rest := new(big.Int).Add(mulm(ql, vals[xa]), mulm(qo, vals[xc]))
			rest.Add(rest, qc)
			wv = mulm(new(big.Int).Neg(rest), new(big.Int).ModInverse(den, q))
			xb = w
		case 2:
			if qo.Sign() == 0 {
				qo = big.NewInt(5)
			}
			rest := new(big.Int).Add(ev(vals[xa], vals[xb], zero), qc)
			wv = mulm(new(big.Int).Neg(rest), new(big.Int).ModInverse(qo, q))
			xc = w
		}
		wv.Mod(wv, q)
		vals = append(vals, wv)
		sys.AddSparseR1C(constraint.SparseR1C{XA: uint32(xa), XB: uint32(xb), XC: uint32(xc), QL: cid(ql), QR: cid(qr), QO: cid(qo), QM: cid(qm), QC: cid(qc)}, bid)
		desc += fmt.Sprintf("solve pos %d;", pos)
	}
	return &handBuilt{ccs: sys, wit: wit, expected: nil, desc: "hand-built scs: " + desc, nbPub: nPub}
}

func genHandBuilt(r *RNG, t Target) *handBuilt {
	switch {
	case t.Name == "tiny" && t.R1CS:
		return buildHandR1CS[constraint.U32](r, t.Field, cs_tiny.NewR1CS(0))
	case t.Name == "tiny":
		return buildHandSCS[constraint.U32](r, t.Field, cs_tiny.NewSparseR1CS(0))
	case t.R1CS:
		return buildHandR1CS[constraint.U64](r, t.Field, cs_bn254.NewR1CS(0))
	default:
		return buildHandSCS[constraint.U64](r, t.Field, cs_bn254.NewSparseR1CS(0))
	}
}

func witnessFromValues(q *big.Int, nbPub int, vals []*big.Int) witness.Witness {
	w, _ := witness.New(q)
	ch := make(chan any, len(vals))
	for _, v := range vals {
		ch <- new(big.Int).Set(v)
	}
	close(ch)
	w.Fill(nbPub, len(vals)-nbPub, ch)
	return w
}

// restore a system from its bytes (zero-value receiver of the same concrete type)
func restoreFromBytes(t Target, ccs interface{}) (interface{}, error) {
	var b bytes.Buffer
	if _, err := ccs.(io.WriterTo).WriteTo(&b); err != nil {
		return nil, err
	}
	dec := newEmptyCS(t)
	_, err := dec.(io.ReaderFrom).ReadFrom(bytes.NewReader(b.Bytes()))
	return dec, err
}

// checkLookupLevels: static schedule invariant of a compiled system with lookup tables — every internal wire a lookup
// instruction reads (its query inputs and the table entries it sees) is solved in a strictly earlier level than the
// instruction itself, so that no interleaving of a level's workers can read an unsolved entry.
func checkLookupLevels(ccs interface{}) string {
	sys := sysOf(ccs)
	levelOf := map[uint32]int{}
	for l, ids := range sys.Levels {
		for _, id := range ids {
			levelOf[id] = l
		}
	}
	for iid, pi := range sys.Instructions {
		bp, ok := sys.Blueprints[pi.BlueprintID].(*constraint.BlueprintLookupHint[constraint.U64])
		if !ok {
			continue
		}
		inst := pi.Unpack(sys)
		lvl, has := levelOf[uint32(iid)]
		if !has {
			return fmt.Sprintf("lookup instruction %d is in no level", iid)
		}
		nbEntries, nbInputs := int(inst.Calldata[1]), int(inst.Calldata[2])
		var wires []uint32
		off := 3
		for i := 0; i < nbInputs; i++ {
			n := int(inst.Calldata[off])
			off++
			for k := 0; k < n; k++ {
				wires = append(wires, inst.Calldata[off+1])
				off += 2
			}
		}
		eo := 0
		for e := 0; e < nbEntries && eo < len(bp.EntriesCalldata); e++ {
			n := int(bp.EntriesCalldata[eo])
			eo++
			for k := 0; k < n; k++ {
				wires = append(wires, bp.EntriesCalldata[eo+1])
				eo += 2
			}
		}
		for _, w := range wires {
			if sys.HasWire(w) {
				if wl := int(sys.GetWireLevel(w)); wl >= lvl {
					return fmt.Sprintf("lookup instruction %d sits in level %d but reads wire %d, which is solved in level %d", iid, lvl, w, wl)
				}
			}
		}
	}
	return ""
}
