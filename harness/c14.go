package main

// C14: comparison, selection, bit-slice and small-integer gadgets have exact semantics.

import (
	"fmt"
	"math/big"
	"math/bits"
	"strings"

	"github.com/consensys/gnark/constraint"
	"github.com/consensys/gnark/constraint/solver"
	"github.com/consensys/gnark/frontend"
	"github.com/consensys/gnark/std/math/bitslice"
	"github.com/consensys/gnark/std/math/cmp"
	"github.com/consensys/gnark/std/math/uints"
	"github.com/consensys/gnark/std/selector"
	"github.com/consensys/gnark/test"
)

func init() { commands["c14"] = runC14 }

type gadgetDef struct {
	id     int
	name   string
	params []int64
	nIn    int
	nOut   int
	build  func(api frontend.API, in []frontend.Variable) []frontend.Variable
}

type gadgetCircuit struct {
	Out []frontend.Variable `gnark:",public"`
	In  []frontend.Variable
	g   *gadgetDef
}

func newGadgetCircuit(g *gadgetDef) *gadgetCircuit {
	return &gadgetCircuit{Out: make([]frontend.Variable, g.nOut), In: make([]frontend.Variable, g.nIn), g: g}
}

func (c *gadgetCircuit) Define(api frontend.API) error {
	outs := c.g.build(api, c.In)
	if len(outs) != len(c.Out) {
		panic(fmt.Sprintf("gadget %s: %d outputs, %d declared", c.g.name, len(outs), len(c.Out)))
	}
	for i := range outs {
		api.AssertIsEqual(outs[i], c.Out[i])
	}
	return nil
}

func tinyGadgets() []*gadgetDef {
	var gs []*gadgetDef
	one := func(v frontend.Variable) []frontend.Variable { return []frontend.Variable{v} }
	gs = append(gs, &gadgetDef{0, "cmp.IsLess", nil, 2, 1, func(api frontend.API, in []frontend.Variable) []frontend.Variable {
		return one(cmp.IsLess(api, in[0], in[1]))
	}})
	gs = append(gs, &gadgetDef{1, "cmp.IsLessOrEqual", nil, 2, 1, func(api frontend.API, in []frontend.Variable) []frontend.Variable {
		return one(cmp.IsLessOrEqual(api, in[0], in[1]))
	}})
	for _, U := range []int64{1, 2, 3, 5, 7, 8, 15} {
		U := U
		bc := func(api frontend.API) *cmp.BoundedComparator { return cmp.NewBoundedComparator(api, big.NewInt(U), false) }
		gs = append(gs, &gadgetDef{2, fmt.Sprintf("Bounded(%d).IsLess", U), []int64{U}, 2, 1, func(api frontend.API, in []frontend.Variable) []frontend.Variable {
			return one(bc(api).IsLess(in[0], in[1]))
		}})
		gs = append(gs, &gadgetDef{3, fmt.Sprintf("Bounded(%d).IsLessEq", U), []int64{U}, 2, 1, func(api frontend.API, in []frontend.Variable) []frontend.Variable {
			return one(bc(api).IsLessEq(in[0], in[1]))
		}})
		gs = append(gs, &gadgetDef{4, fmt.Sprintf("Bounded(%d).AssertIsLessEq", U), []int64{U}, 2, 0, func(api frontend.API, in []frontend.Variable) []frontend.Variable {
			bc(api).AssertIsLessEq(in[0], in[1])
			return nil
		}})
		gs = append(gs, &gadgetDef{5, fmt.Sprintf("Bounded(%d).AssertIsLess", U), []int64{U}, 2, 0, func(api frontend.API, in []frontend.Variable) []frontend.Variable {
			bc(api).AssertIsLess(in[0], in[1])
			return nil
		}})
		gs = append(gs, &gadgetDef{6, fmt.Sprintf("Bounded(%d).Min", U), []int64{U}, 2, 1, func(api frontend.API, in []frontend.Variable) []frontend.Variable {
			return one(bc(api).Min(in[0], in[1]))
		}})
	}
	for _, n := range []int{1, 2, 3, 4, 5, 6, 7, 8, 9} {
		n := n
		gs = append(gs, &gadgetDef{7, fmt.Sprintf("selector.Mux(%d)", n), []int64{int64(n)}, 1 + n, 1, func(api frontend.API, in []frontend.Variable) []frontend.Variable {
			return one(selector.Mux(api, in[0], in[1:]...))
		}})
		if n <= 6 {
			gs = append(gs, &gadgetDef{9, fmt.Sprintf("selector.Decoder(%d)", n), []int64{int64(n)}, 1, n, func(api frontend.API, in []frontend.Variable) []frontend.Variable {
				return selector.Decoder(api, n, in[0])
			}})
		}
		if n >= 2 && n <= 6 {
			gs = append(gs, &gadgetDef{10, fmt.Sprintf("selector.Slice(%d)", n), []int64{int64(n)}, 2 + n, n, func(api frontend.API, in []frontend.Variable) []frontend.Variable {
				return selector.Slice(api, in[0], in[1], in[2:])
			}})
			gs = append(gs, &gadgetDef{11, fmt.Sprintf("selector.Partition(%d,left)", n), []int64{int64(n)}, 1 + n, n, func(api frontend.API, in []frontend.Variable) []frontend.Variable {
				return selector.Partition(api, in[0], false, in[1:])
			}})
			gs = append(gs, &gadgetDef{12, fmt.Sprintf("selector.Partition(%d,right)", n), []int64{int64(n)}, 1 + n, n, func(api frontend.API, in []frontend.Variable) []frontend.Variable {
				return selector.Partition(api, in[0], true, in[1:])
			}})
		}
	}
	for _, keys := range [][]int64{{5}, {0, 46}, {3, 9, 27}, {1, 2, 3, 4, 40}} {
		keys := keys
		gs = append(gs, &gadgetDef{8, fmt.Sprintf("selector.Map(keys=%v)", keys), keys, 1 + len(keys), 1, func(api frontend.API, in []frontend.Variable) []frontend.Variable {
			ks := make([]frontend.Variable, len(keys))
			for i, k := range keys {
				ks[i] = k
			}
			return one(selector.Map(api, in[0], ks, in[1:]))
		}})
	}
	return gs
}

// Go mirror of Std/Gadget47Cases.v gadget_spec: kind in exact|unsat|atmost|unique|any
func gadgetSpecGo(g *gadgetDef, inp []int64) (string, []int64) {
	const p = 47
	b2 := func(b bool) int64 {
		if b {
			return 1
		}
		return 0
	}
	centered := func(d int64) int64 {
		x := ((d % p) + p) % p
		if x <= 23 {
			return x
		}
		return x - p
	}
	abs := func(x int64) int64 {
		if x < 0 {
			return -x
		}
		return x
	}
	var a, b int64
	if len(inp) > 0 {
		a = inp[0]
	}
	if len(inp) > 1 {
		b = inp[1]
	}
	zoneOf := func(U, d int64) int {
		k := bits.Len64(uint64(U))
		if abs(d) <= U {
			return 0
		}
		if abs(d) < p-(1<<uint(k)) {
			return 1
		}
		return 2
	}
	switch g.id {
	case 0:
		return "exact", []int64{b2(a < b)}
	case 1:
		return "exact", []int64{b2(a <= b)}
	case 2, 3, 6:
		d := centered(a - b)
		var out int64
		switch g.id {
		case 2:
			out = b2(d < 0)
		case 3:
			out = b2(d <= 0)
		default:
			out = b
			if d < 0 {
				out = a
			}
		}
		return []string{"exact", "atmost", "unique"}[zoneOf(g.params[0], d)], []int64{out}
	case 4, 5:
		d := centered(a - b)
		holds := d <= 0
		if g.id == 5 {
			holds = d < 0
		}
		switch zoneOf(g.params[0], d) {
		case 0:
			if holds {
				return "exact", []int64{}
			}
			return "unsat", nil
		case 1:
			if holds {
				return "any", nil
			}
			return "unsat", nil
		}
		return "any", nil
	case 7:
		vals := inp[1:]
		if a < int64(len(vals)) {
			return "exact", []int64{vals[a]}
		}
		return "unsat", nil
	case 8:
		for j, k := range g.params {
			if k == a {
				return "exact", []int64{inp[1+j]}
			}
		}
		return "unsat", nil
	case 9:
		n := g.params[0]
		if a < n {
			out := make([]int64, n)
			out[a] = 1
			return "exact", out
		}
		return "unsat", nil
	case 10:
		vals := inp[2:]
		n := int64(len(vals))
		if a <= n && b <= n {
			out := make([]int64, n)
			for i := range out {
				if a <= int64(i) && int64(i) < b {
					out[i] = vals[i]
				}
			}
			return "exact", out
		}
		return "unsat", nil
	case 11, 12:
		vals := inp[1:]
		n := int64(len(vals))
		if a <= n {
			out := make([]int64, n)
			for i := range out {
				if (g.id == 11 && int64(i) < a) || (g.id == 12 && a <= int64(i)) {
					out[i] = vals[i]
				}
			}
			return "exact", out
		}
		return "unsat", nil
	}
	return "any", nil
}

type c14Desc struct {
	Gadget string      `json:"gadget"`
	Target string      `json:"target"`
	Input  interface{} `json:"input,omitempty"`
	Detail string      `json:"detail,omitempty"`
}

// ---- BN254 circuits

type bcCircuit struct {
	A, B        frontend.Variable
	Less, LessE frontend.Variable `gnark:",public"`
	Min         frontend.Variable `gnark:",public"`
	u           *big.Int
	assertLE    bool
	assertLT    bool
}

func (c *bcCircuit) Define(api frontend.API) error {
	bc := cmp.NewBoundedComparator(api, c.u, false)
	api.AssertIsEqual(bc.IsLess(c.A, c.B), c.Less)
	api.AssertIsEqual(bc.IsLessEq(c.A, c.B), c.LessE)
	api.AssertIsEqual(bc.Min(c.A, c.B), c.Min)
	if c.assertLE {
		bc.AssertIsLessEq(c.A, c.B)
	}
	if c.assertLT {
		bc.AssertIsLess(c.A, c.B)
	}
	return nil
}

type bsCircuit struct {
	V            frontend.Variable
	Lower, Upper frontend.Variable `gnark:",public"`
	split        uint
	digits       int
}

func (c *bsCircuit) Define(api frontend.API) error {
	var opts []bitslice.Option
	if c.digits > 0 {
		opts = append(opts, bitslice.WithNbDigits(c.digits))
	}
	l, u := bitslice.Partition(api, c.V, c.split, opts...)
	api.AssertIsEqual(l, c.Lower)
	api.AssertIsEqual(u, c.Upper)
	return nil
}

type u32Circuit struct {
	A, B, C uints.U32
	R       uints.U32 `gnark:",public"`
	op      string
	k       int
}

func (c *u32Circuit) Define(api frontend.API) error {
	bf, err := uints.New[uints.U32](api)
	if err != nil {
		return err
	}
	var r uints.U32
	switch c.op {
	case "add2":
		r = bf.Add(c.A, c.B)
	case "add3":
		r = bf.Add(c.A, c.B, c.C)
	case "and":
		r = bf.And(c.A, c.B)
	case "or":
		r = bf.Or(c.A, c.B)
	case "xor":
		r = bf.Xor(c.A, c.B, c.C)
	case "not":
		r = bf.Not(c.A)
	case "lrot":
		r = bf.Lrot(c.A, c.k)
	case "rshift":
		r = bf.Rshift(c.A, c.k)
	}
	bf.AssertEq(r, c.R)
	return nil
}

type u64Circuit struct {
	A, B uints.U64
	R    uints.U64 `gnark:",public"`
	op   string
	k    int
}

func (c *u64Circuit) Define(api frontend.API) error {
	bf, err := uints.New[uints.U64](api)
	if err != nil {
		return err
	}
	var r uints.U64
	switch c.op {
	case "add2":
		r = bf.Add(c.A, c.B)
	case "lrot":
		r = bf.Lrot(c.A, c.k)
	case "rshift":
		r = bf.Rshift(c.A, c.k)
	case "xor":
		r = bf.Xor(c.A, c.B)
	}
	bf.AssertEq(r, c.R)
	return nil
}

func solveOn(t Target, tmpl, asg frontend.Circuit, extra ...solver.Option) (string, string) {
	ccs, cerr := compileTarget(t, tmpl)
	if cerr != "" {
		return "compile-error", cerr
	}
	w, err := frontend.NewWitness(asg, t.Field)
	if err != nil {
		return "witness-error", err.Error()
	}
	obs := SolveCapture(ccs, w, 1, extra...)
	return obs.Class, obs.Msg
}

func runC14(args []string) int {
	o := parseOpts(args)
	rng := NewRNG(o.Seed)
	rep := NewReport("C14")
	rep.Rule = "F_47, both builders: cmp.IsLess / IsLessOrEqual, BoundedComparator(U in {1,2,3,5,7,8,15}).{IsLess, IsLessEq, AssertIsLessEq, AssertIsLess, Min}, selector.Mux / Decoder (1..9 inputs), Map (constant keys), Slice, Partition (2..6): for every input pair (all 2209) or a boundary-biased sample of longer inputs, the complete set of satisfying assignments of the emitted constraints is enumerated (Go search; verified Coq enumerator on a spread of the tuples) and its projection on the outputs compared with the documented meaning: exact inside the documented domain, unsatisfiable where the documentation promises failure, unique where it promises well-definedness (this is also the check that hinted outputs have no second solution); BN254: BoundedComparator with wide bounds at the thresholds, bitslice.Partition (splits x digit bounds, in and out of range), uints U32/U64 add / and / or / xor / not / rotations / shifts against Go integer arithmetic on the test engine and both builders with right and wrong results; adversary: forged partition / indicator / step hints; non-trivial = every (gadget, builder, input); distinct as counted"
	gs := tinyGadgets()
	var cases []string
	maxCoqTuples := 24
	if o.Thorough() {
		maxCoqTuples = 300
	}
	for _, g := range gs {
		for _, t := range []Target{{"tiny", tinyMod, true}, {"tiny", tinyMod, false}} {
			desc := c14Desc{Gadget: g.name, Target: t.String()}
			ccs, cerr := compileTarget(t, newGadgetCircuit(g))
			if cerr != "" {
				rep.Count("compile:" + g.name + ":" + strings.SplitN(cerr, "\n", 2)[0])
				if strings.HasPrefix(cerr, "panic") {
					d := desc
					d.Detail = cerr
					rep.Fail(fmt.Sprintf("c14:compile-panic:%s:%s", strings.SplitN(g.name, "(", 2)[0], t.String()), "the gadget panics at compile time: "+cerr, d)
				}
				continue
			}
			d := DumpSystem(ccs)
			if d.HasOther {
				rep.Count("skipped:blueprint:" + g.name)
				continue
			}
			var tuples [][]int64
			if g.nIn <= 2 {
				tuples = allTuples(g.nIn, 47)
				if !o.Thorough() && g.id >= 2 && g.id <= 6 && g.params[0] != 15 && g.params[0] != 3 {
					// quick tier: all pairs for two of the bounds, every third pair for the others
					var sub [][]int64
					for i := int(o.Seed) % 3; i < len(tuples); i += 3 {
						sub = append(sub, tuples[i])
					}
					tuples = sub
				}
			} else {
				tuples = sampleTuples(rng, g.nIn, 47, 150)
				// selectors: every selector value with a few value vectors
				for s := int64(0); s < 47; s += 1 {
					tu := make([]int64, g.nIn)
					tu[0] = s
					for i := 1; i < g.nIn; i++ {
						tu[i] = int64(rng.Intn(47))
					}
					if g.id == 10 {
						tu[1] = int64(rng.Intn(int(g.params[0]) + 2))
					}
					tuples = append(tuples, tu)
				}
			}
			off := 0
			if d.IsR1CS {
				off = 1
			}
			var inW, outW []int
			for i := 0; i < g.nOut; i++ {
				outW = append(outW, off+i)
			}
			for i := 0; i < g.nIn; i++ {
				inW = append(inW, off+g.nOut+i)
			}
			ss := newSmallSys(47, d)
			pending := make([]int, len(d.Instrs))
			for i := range pending {
				pending[i] = i
			}
			nfail := 0
			over := false
			for _, tu := range tuples {
				v := make([]int64, d.NbWires())
				for i := range v {
					v[i] = -1
				}
				if d.IsR1CS {
					v[0] = 1
				}
				for i, w := range inW {
					v[w] = tu[i]
				}
				ss.nodes, ss.budget = 0, 400000
				sols, ok := ss.enumerate(v, pending, 5000)
				if ss.nodes > ss.budget || !ok {
					rep.Count("skipped:search-budget:" + g.name)
					over = true
					break
				}
				rep.Eval(fmt.Sprintf("%s|%s|%v", g.name, t, tu), true)
				reach := map[string]bool{}
				for _, s := range sols {
					r := make([]int64, len(outW))
					for i, w := range outW {
						r[i] = s[w]
					}
					reach[fmt.Sprint(r)] = true
				}
				kind, want := gadgetSpecGo(g, tu)
				rep.Count("spec:" + kind)
				verdict := ""
				switch kind {
				case "exact":
					if len(reach) == 0 {
						verdict = "unsat-inside-domain"
					} else if len(reach) > 1 || !reach[fmt.Sprint(want)] {
						verdict = "wrong-output-satisfiable"
					}
				case "unsat":
					if len(reach) > 0 {
						verdict = "satisfiable-outside-domain"
					}
				case "atmost":
					if len(reach) > 1 || (len(reach) == 1 && !reach[fmt.Sprint(want)]) {
						verdict = "wrong-output-satisfiable"
					}
				case "unique":
					if len(reach) > 1 {
						verdict = "second-solution"
					}
				}
				if verdict != "" {
					nfail++
					rep.Count("verdict:" + verdict)
					if nfail <= 3 {
						dd := desc
						dd.Input = tu
						var rs []string
						for k := range reach {
							rs = append(rs, k)
						}
						dd.Detail = fmt.Sprintf("documented: %s %v; reachable outputs: %v", kind, want, rs)
						rep.Fail(fmt.Sprintf("c14:%s:%s:%s", verdict, strings.SplitN(g.name, "(", 2)[0], t.String()), fmt.Sprintf("%s on %s, inputs %v: %s", g.name, t, tu, dd.Detail), dd)
					}
				}
			}
			if len(rep.Samples) < 5 {
				rep.Sample(desc)
			}
			if over || len(d.Instrs) > 120 {
				continue
			}
			// Coq case: a spread of the tuples
			nt := tuples
			maxT := maxCoqTuples
			if len(d.Instrs) > 12 {
				maxT = 6000 / (len(d.Instrs) * len(d.Instrs) / 4)
				if maxT < 4 {
					maxT = 4
				}
				if maxT > maxCoqTuples {
					maxT = maxCoqTuples
				}
			}
			if len(nt) > maxT {
				var sel [][]int64
				step := len(nt) / maxT
				for i := 0; i < len(nt) && len(sel) < maxT; i += step {
					sel = append(sel, nt[(i*7+int(o.Seed))%len(nt)])
				}
				nt = sel
			}
			ts := make([]string, len(nt))
			for i, tu := range nt {
				bs := make([]*big.Int, len(tu))
				for j, x := range tu {
					bs[j] = big.NewInt(x)
				}
				ts[i] = zlist(bs)
			}
			ps := make([]*big.Int, len(g.params))
			for i, x := range g.params {
				ps[i] = big.NewInt(x)
			}
			cases = append(cases, fmt.Sprintf("{| gc_r1cs := %s; gc_nbwires := %d; gc_instrs := %s;\n   gc_in_wires := %s; gc_out_wires := %s; gc_gadget := %d; gc_params := %s;\n   gc_inputs := %s |}",
				coqbool(d.IsR1CS), d.NbWires(), coqlistNL(coqInstrList(d)), intlist(inW), intlist(outW), g.id, zlist(ps), coqlist(ts)))
		}
	}
	nshard := 16
	for s := 0; s < nshard; s++ {
		var sub []string
		for i := s; i < len(cases); i += nshard {
			sub = append(sub, cases[i])
		}
		writeFile(o.Out, fmt.Sprintf("cases_C14_%d.v", s), "From Coq Require Import ZArith List Bool.\nFrom GnarkV Require Import Base.Res CS.Solver Std.Gadget47Cases.\nImport ListNotations.\n"+
			fmt.Sprintf("Definition gcases : list gcase := %s.\n", coqlistNL(sub))+
			fmt.Sprintf("Definition mism_c14_%d := Eval vm_compute in gmism 0 gcases.\nPrint mism_c14_%d.\n", s, s))
	}
	rep.CoqCases = len(cases)

	// ---------------------------------------------------------------- BN254
	bn := []Target{{"bn254", bnQ, true}, {"bn254", bnQ, false}}
	runBoth := func(name string, tmpl, asg frontend.Circuit, want bool, desc c14Desc, sigTail string, extra ...solver.Option) {
		for _, t := range bn {
			cls, msg := solveOn(t, tmpl, asg, extra...)
			rep.Eval(fmt.Sprintf("%s|%s|%v|%v", name, t, desc.Input, want), true)
			rep.Count(name + ":" + cls)
			d := desc
			d.Target = t.String()
			d.Detail += " " + msg
			if cls == "panic" || cls == "compile-error" {
				rep.Fail("c14:"+cls+":"+sigTail, name+": "+msg, d)
			} else if want && cls != "ok" {
				rep.Fail("c14:rejects-correct:"+sigTail, name+": the correct result is rejected: "+msg, d)
			} else if !want && cls == "ok" {
				rep.Fail("c14:accepts-wrong:"+sigTail, name+": a wrong result is accepted", d)
			}
		}
		if len(extra) == 0 {
			var err error
			pm := catchPanic(func() { err = test.IsSolved(tmpl, asg, bnQ) })
			rep.Eval(fmt.Sprintf("%s|engine|%v|%v", name, desc.Input, want), true)
			d := desc
			d.Target = "engine"
			if pm != "" {
				rep.Fail("c14:engine-panic:"+sigTail, name+": "+pm, d)
			} else if want && err != nil {
				rep.Fail("c14:engine-rejects-correct:"+sigTail, name+": "+shortErr(err), d)
			} else if !want && err == nil {
				rep.Fail("c14:engine-accepts-wrong:"+sigTail, name+": a wrong result is accepted by the test engine", d)
			}
		}
	}
	// bounded comparator, wide bounds: a, b signed integers with |a-b| <= U
	for _, ub := range []int{8, 63, 64, 128, 250} {
		U := new(big.Int).Sub(pow2(ub), big.NewInt(1))
		for _, dk := range []string{"0", "1", "-1", "U", "-U", "U-1", "random", "-random"} {
			base := rng.Big(bnQ)
			var d *big.Int
			switch dk {
			case "0":
				d = big.NewInt(0)
			case "1":
				d = big.NewInt(1)
			case "-1":
				d = big.NewInt(-1)
			case "U":
				d = new(big.Int).Set(U)
			case "-U":
				d = new(big.Int).Neg(U)
			case "U-1":
				d = new(big.Int).Sub(U, big.NewInt(1))
			case "random":
				d = rng.Big(U)
			default:
				d = new(big.Int).Neg(rng.Big(U))
			}
			// a = base + d, b = base (so a - b = d as signed integers)
			a := new(big.Int).Mod(new(big.Int).Add(base, d), bnQ)
			b := base
			less, lessE := int64(0), int64(0)
			if d.Sign() < 0 {
				less = 1
			}
			if d.Sign() <= 0 {
				lessE = 1
			}
			min := b
			if d.Sign() < 0 {
				min = a
			}
			desc := c14Desc{Gadget: fmt.Sprintf("BoundedComparator(2^%d-1)", ub), Input: []string{a.String(), b.String()}, Detail: "a-b=" + dk}
			tm := func() *bcCircuit { return &bcCircuit{u: U, assertLE: lessE == 1, assertLT: less == 1} }
			asg := tm()
			asg.A, asg.B, asg.Less, asg.LessE, asg.Min = a, b, less, lessE, min
			runBoth("bounded", tm(), asg, true, desc, "bounded")
			wrong := tm()
			wrong.A, wrong.B, wrong.Less, wrong.LessE, wrong.Min = a, b, 1-less, lessE, min
			runBoth("bounded-wrong-less", tm(), wrong, false, desc, "bounded:isless")
			if a.Cmp(b) != 0 {
				wrong2 := tm()
				wrong2.A, wrong2.B, wrong2.Less, wrong2.LessE = a, b, less, lessE
				if d.Sign() < 0 {
					wrong2.Min = b
				} else {
					wrong2.Min = a
				}
				runBoth("bounded-wrong-min", tm(), wrong2, false, desc, "bounded:min")
			}
			// asserting the opposite order must fail
			opp := &bcCircuit{u: U, assertLE: lessE == 0, assertLT: less == 0 && lessE == 0}
			if opp.assertLE || opp.assertLT {
				oa := &bcCircuit{u: U}
				oa.A, oa.B, oa.Less, oa.LessE, oa.Min = a, b, less, lessE, min
				runBoth("bounded-wrong-assert", opp, oa, false, desc, "bounded:assert")
			}
		}
	}
	// bitslice.Partition
	for _, cfg := range [][2]int{{0, 0}, {0, 8}, {0, 16}, {0, 64}, {1, 8}, {3, 8}, {8, 8}, {8, 16}, {5, 13}, {32, 35}, {64, 67}, {100, 200}, {7, 0}, {128, 0}, {253, 0}} {
		split, digits := cfg[0], cfg[1]
		bound := digits
		if bound == 0 {
			bound = 254
		}
		for _, vk := range []string{"0", "1", "2^split-1", "2^split", "2^d-1", "2^d", "2^d+1", "random-in", "r-1"} {
			var v *big.Int
			switch vk {
			case "0":
				v = big.NewInt(0)
			case "1":
				v = big.NewInt(1)
			case "2^split-1":
				v = new(big.Int).Sub(pow2(split), big.NewInt(1))
			case "2^split":
				v = pow2(split)
			case "2^d-1":
				v = new(big.Int).Sub(pow2(bound), big.NewInt(1))
			case "2^d":
				v = pow2(bound)
			case "2^d+1":
				v = new(big.Int).Add(pow2(bound), big.NewInt(1))
			case "random-in":
				v = rng.Big(pow2(bound))
			default:
				v = new(big.Int).Sub(bnQ, big.NewInt(1))
			}
			v.Mod(v, bnQ)
			in := v.Cmp(pow2(bound)) < 0
			lower := new(big.Int).Mod(v, pow2(split))
			upper := new(big.Int).Rsh(v, uint(split))
			desc := c14Desc{Gadget: fmt.Sprintf("bitslice.Partition(split=%d,digits=%d)", split, digits), Input: v.String(), Detail: vk}
			tm := func() *bsCircuit { return &bsCircuit{split: uint(split), digits: digits} }
			asg := tm()
			asg.V, asg.Lower, asg.Upper = v, lower, upper
			runBoth("bitslice", tm(), asg, in, desc, "bitslice")
			if in && split > 0 {
				w := tm()
				w.V, w.Lower, w.Upper = v, addq(lower, pow2(split)), subq(upper, big.NewInt(1))
				runBoth("bitslice-borrow", tm(), w, false, desc, "bitslice:borrow")
			}
		}
	}
	// uints
	ops32 := []string{"add2", "add3", "and", "or", "xor", "not", "lrot", "rshift"}
	ev32 := func(op string, a, b, c uint32, k int) uint32 {
		switch op {
		case "add2":
			return a + b
		case "add3":
			return a + b + c
		case "and":
			return a & b
		case "or":
			return a | b
		case "xor":
			return a ^ b ^ c
		case "not":
			return ^a
		case "lrot":
			return bits.RotateLeft32(a, k)
		default:
			return a >> uint(k)
		}
	}
	pick32 := func() uint32 {
		switch rng.Intn(5) {
		case 0:
			return 0
		case 1:
			return 0xffffffff
		case 2:
			return 0x80000000
		default:
			return uint32(rng.U64())
		}
	}
	nU := 2
	if o.Thorough() {
		nU = 10
	}
	for _, op := range ops32 {
		for i := 0; i < nU; i++ {
			a, b, c := pick32(), pick32(), pick32()
			k := rng.Intn(32)
			if op == "lrot" && rng.Bool() {
				k = -rng.Intn(32)
			}
			kk := k
			if kk < 0 {
				kk += 32
			}
			r := ev32(op, a, b, c, kk)
			desc := c14Desc{Gadget: "uints.U32." + op, Input: []interface{}{a, b, c, k}}
			tm := func() *u32Circuit { return &u32Circuit{op: op, k: k} }
			asg := tm()
			asg.A, asg.B, asg.C, asg.R = uints.NewU32(a), uints.NewU32(b), uints.NewU32(c), uints.NewU32(r)
			runBoth("u32:"+op, tm(), asg, true, desc, "uints:"+op)
			w := tm()
			w.A, w.B, w.C, w.R = uints.NewU32(a), uints.NewU32(b), uints.NewU32(c), uints.NewU32(r^(1<<uint(rng.Intn(32))))
			runBoth("u32-wrong:"+op, tm(), w, false, desc, "uints:"+op)
		}
	}
	// words whose bytes are not bytes: every operation must refuse them (the byte width is part of the type's contract)
	for _, op := range ops32 {
		for _, k := range []int{0, 8, 16, 5} {
			if (op != "lrot" && op != "rshift") && k != 0 {
				continue
			}
			if op == "rshift" && k == 0 {
				continue
			}
			for _, badByte := range []int64{256, 300, 1 << 40} {
				tm := func() *u32Circuit { return &u32Circuit{op: op, k: k} }
				asg := tm()
				asg.A = uints.NewU32(0x01020304)
				bi := 1
				if op == "rshift" {
					bi = 3 // a byte that is not shifted out: a discarded operand byte does not influence the result
				}
				asg.A[bi] = uints.U8{Val: badByte}
				asg.B, asg.C = uints.NewU32(7), uints.NewU32(9)
				// the "result" a careless implementation would compute: any claimed result must be refused; try the natural one
				asg.R = uints.NewU32(0)
				switch op {
				case "lrot", "rshift":
					// bytes moved as they are
					var r uints.U32
					src := asg.A
					for i := 0; i < 4; i++ {
						r[i] = uints.NewU8(0)
					}
					if k%8 == 0 {
						sh := k / 8
						for i := 0; i < 4; i++ {
							if op == "lrot" {
								r[(i+sh)%4] = src[i]
							} else if i-sh >= 0 {
								r[i-sh] = src[i]
							}
						}
					}
					asg.R = r
				}
				desc := c14Desc{Gadget: "uints.U32." + op, Input: []interface{}{"byte", bi, badByte, "k=", k}, Detail: "operand with a byte outside 0..255"}
				runBoth("u32-invalid-byte:"+op, tm(), asg, false, desc, "uints:invalid-byte:"+op)
			}
		}
	}
	for _, op := range []string{"add2", "lrot", "rshift", "xor"} {
		a, b := rng.U64()|1<<63, rng.U64()|1<<63
		k := 1 + rng.Intn(63)
		var r uint64
		switch op {
		case "add2":
			r = a + b
		case "lrot":
			r = bits.RotateLeft64(a, k)
		case "rshift":
			r = a >> uint(k)
		default:
			r = a ^ b
		}
		desc := c14Desc{Gadget: "uints.U64." + op, Input: []interface{}{a, b, k}}
		tm := func() *u64Circuit { return &u64Circuit{op: op, k: k} }
		asg := tm()
		asg.A, asg.B, asg.R = uints.NewU64(a), uints.NewU64(b), uints.NewU64(r)
		runBoth("u64:"+op, tm(), asg, true, desc, "uints64:"+op)
		w := tm()
		w.A, w.B, w.R = uints.NewU64(a), uints.NewU64(b), uints.NewU64(r+1)
		runBoth("u64-wrong:"+op, tm(), w, false, desc, "uints64:"+op)
	}
	// ---- adversary: forged partition hint (uints.Add: F9; bitslice.Partition), forged indicators / step outputs
	var partID, muxID, mapID, stepID solver.HintID
	var partFn, muxFn, mapFn, stepFn solver.Hint
	for _, h := range solver.GetRegisteredHints() {
		n := solver.GetHintName(h)
		switch {
		case strings.HasSuffix(n, "bitslice.partitionHint"):
			partID, partFn = solver.GetHintID(h), h
		case strings.HasSuffix(n, "selector.muxIndicators"):
			muxID, muxFn = solver.GetHintID(h), h
		case strings.HasSuffix(n, "selector.mapIndicators"):
			mapID, mapFn = solver.GetHintID(h), h
		case strings.HasSuffix(n, "selector.stepOutput"):
			stepID, stepFn = solver.GetHintID(h), h
		}
	}
	if partFn == nil || muxFn == nil || mapFn == nil || stepFn == nil {
		rep.Fail("harness:hints", "std hints not found by name", nil)
	} else {
		// uints.Add: 5 + 7 = 999 with the low part of the partition forged
		{
			tm := func() *u32Circuit { return &u32Circuit{op: "add2"} }
			asg := tm()
			asg.A, asg.B, asg.C, asg.R = uints.NewU32(5), uints.NewU32(7), uints.NewU32(0), uints.NewU32(999)
			forged := func(m *big.Int, in, out []*big.Int) error {
				if err := partFn(m, in, out); err != nil {
					return err
				}
				if in[0].Int64() == 32 {
					out[1].SetInt64(999)
				}
				return nil
			}
			runBoth("u32-add-forged-partition", tm(), asg, false, c14Desc{Gadget: "uints.U32.add2", Input: []int{5, 7, 999}, Detail: "partition hint: lower := 999"}, "uints:add:forged-partition", solver.OverrideHint(partID, forged))
		}
		{
			tm := func() *bsCircuit { return &bsCircuit{split: 8, digits: 16} }
			asg := tm()
			asg.V, asg.Lower, asg.Upper = big.NewInt(0x1234), big.NewInt(0x35), big.NewInt(0x12)
			forged := func(m *big.Int, in, out []*big.Int) error {
				if err := partFn(m, in, out); err != nil {
					return err
				}
				out[1].Add(out[1], big.NewInt(1))
				return nil
			}
			runBoth("bitslice-forged-partition", tm(), asg, false, c14Desc{Gadget: "bitslice.Partition(8,16)", Input: "0x1234", Detail: "partition hint: lower + 1"}, "bitslice:forged-partition", solver.OverrideHint(partID, forged))
		}
		// aliased decomposition: the prover answers with the parts (and bits) of v + p, which recompose to v in the field; every
		// digit bound at or around the field width must exclude it
		{
			var nbitsID solver.HintID
			for _, h := range solver.GetRegisteredHints() {
				if strings.HasSuffix(solver.GetHintName(h), "math/bits.nBits") {
					nbitsID = solver.GetHintID(h)
				}
			}
			v := big.NewInt(0x1234)
			vp := new(big.Int).Add(v, bnQ)
			for _, digits := range []int{0, 250, 253, 254, 255, 256} {
				for _, split := range []uint{1, 8, 128} {
					split := split
					lo := new(big.Int).And(vp, new(big.Int).Sub(pow2(int(split)), big.NewInt(1)))
					up := new(big.Int).Rsh(vp, split)
					tm := func() *bsCircuit { return &bsCircuit{split: split, digits: digits} }
					asg := tm()
					asg.V, asg.Lower, asg.Upper = v, lo, up
					fpart := func(m *big.Int, in, out []*big.Int) error {
						out[0].Set(up)
						out[1].Set(lo)
						return nil
					}
					fbits := func(m *big.Int, in, out []*big.Int) error {
						for i := range out {
							out[i].SetUint64(uint64(vp.Bit(i)))
						}
						return nil
					}
					runBoth("bitslice-aliased", tm(), asg, false, c14Desc{Gadget: fmt.Sprintf("bitslice.Partition(split=%d,digits=%d)", split, digits), Input: "0x1234", Detail: "partition and bit hints answer with the decomposition of v + p"},
						"bitslice:aliased-decomposition", solver.OverrideHint(partID, fpart), solver.OverrideHint(nbitsID, fbits))
				}
			}
		}
		// bounded comparator built for deterministic behaviour (allowNonDeterministicBehaviour = false) with bounds at and beyond the
		// documented limit P > 2^(bitlen(U)+1): either construction is refused, or both answers of a dishonest prover must not be
		// satisfiable for operands in the threshold zone
		{
			var lessID, minID solver.HintID
			for _, h := range solver.GetRegisteredHints() {
				n := solver.GetHintName(h)
				if strings.HasSuffix(n, "cmp.isLessOutputHint") {
					lessID = solver.GetHintID(h)
				}
				if strings.HasSuffix(n, "cmp.minOutputHint") {
					minID = solver.GetHintID(h)
				}
			}
			for _, ub := range []int{250, 251, 252, 253} {
				U := pow2(ub)
				a := new(big.Int).Sub(pow2(253), big.NewInt(1))
				b := big.NewInt(0)
				accepted := 0
				refused := false
				for _, claimLess := range []int64{0, 1} {
					claimLess := claimLess
					tm := &bcCircuit{u: U}
					asg := &bcCircuit{u: U, A: a, B: b, Less: claimLess, LessE: claimLess, Min: b}
					if claimLess == 1 {
						asg.Min = a
					}
					fless := func(m *big.Int, in, out []*big.Int) error { out[0].SetInt64(claimLess); return nil }
					fmin := func(m *big.Int, in, out []*big.Int) error {
						if claimLess == 1 {
							out[0].Set(in[0])
						} else {
							out[0].Set(in[1])
						}
						return nil
					}
					cls, _ := solveOn(bn[0], tm, asg, solver.OverrideHint(lessID, fless), solver.OverrideHint(minID, fmin))
					rep.Eval(fmt.Sprintf("bounded-deterministic|%d|%d", ub, claimLess), true)
					rep.Count("bounded-deterministic:" + cls)
					if cls == "ok" {
						accepted++
					}
					if cls == "panic" || cls == "compile-error" {
						refused = true
					}
				}
				if accepted > 1 && !refused {
					rep.Fail("c14:accepts-wrong:bounded:deterministic-flag", fmt.Sprintf("BoundedComparator(2^%d, allowNonDeterministicBehaviour=false) is constructed and both IsLess = 0 and IsLess = 1 (Min = b and Min = a) are satisfiable for a = 2^253-1, b = 0", ub),
						c14Desc{Gadget: fmt.Sprintf("Bounded(2^%d, deterministic)", ub), Input: "a=2^253-1 b=0", Detail: "forged isLessOutputHint / minOutputHint"})
				}
			}
		}
		// selector.Map / Decoder / Partition with forged hints on BN254
		mapG := &gadgetDef{8, "selector.Map(keys=[3 9 27])", []int64{3, 9, 27}, 4, 1, func(api frontend.API, in []frontend.Variable) []frontend.Variable {
			return []frontend.Variable{selector.Map(api, in[0], []frontend.Variable{3, 9, 27}, in[1:])}
		}}
		{
			asg := newGadgetCircuit(mapG)
			asg.In = []frontend.Variable{9, 100, 200, 300}
			asg.Out = []frontend.Variable{300}
			forged := func(m *big.Int, in, out []*big.Int) error {
				for i := range out {
					out[i].SetInt64(0)
				}
				out[2].SetInt64(1) // indicator on the wrong key
				return nil
			}
			runBoth("map-forged-indicator", newGadgetCircuit(mapG), asg, false, c14Desc{Gadget: mapG.name, Input: []int{9, 100, 200, 300}, Detail: "indicator on key 27 for query 9"}, "selector:map:forged", solver.OverrideHint(mapID, forged))
			asg2 := newGadgetCircuit(mapG)
			asg2.In = []frontend.Variable{9, 100, 200, 300}
			asg2.Out = []frontend.Variable{400} // 2*200: indicator 2 on the right key
			forged2 := func(m *big.Int, in, out []*big.Int) error {
				for i := range out {
					out[i].SetInt64(0)
				}
				out[1].SetInt64(2)
				return nil
			}
			runBoth("map-forged-indicator-2", newGadgetCircuit(mapG), asg2, false, c14Desc{Gadget: mapG.name, Detail: "indicator 2 on the matching key"}, "selector:map:forged", solver.OverrideHint(mapID, forged2))
		}
		muxG := &gadgetDef{7, "selector.Mux(5)", []int64{5}, 6, 1, func(api frontend.API, in []frontend.Variable) []frontend.Variable {
			return []frontend.Variable{selector.Mux(api, in[0], in[1:]...)}
		}}
		{
			asg := newGadgetCircuit(muxG)
			asg.In = []frontend.Variable{6, 10, 20, 30, 40, 50}
			asg.Out = []frontend.Variable{30}
			runBoth("mux-out-of-range", newGadgetCircuit(muxG), asg, false, c14Desc{Gadget: muxG.name, Detail: "sel = 6 of 5"}, "selector:mux:range")
			ok := newGadgetCircuit(muxG)
			ok.In = []frontend.Variable{4, 10, 20, 30, 40, 50}
			ok.Out = []frontend.Variable{50}
			runBoth("mux-last", newGadgetCircuit(muxG), ok, true, c14Desc{Gadget: muxG.name, Detail: "sel = 4 of 5"}, "selector:mux")
		}
		decG := &gadgetDef{9, "selector.Decoder(5)", []int64{5}, 1, 5, func(api frontend.API, in []frontend.Variable) []frontend.Variable {
			return selector.Decoder(api, 5, in[0])
		}}
		{
			asg := newGadgetCircuit(decG)
			asg.In = []frontend.Variable{7}
			asg.Out = []frontend.Variable{0, 0, 1, 0, 0}
			forged := func(m *big.Int, in, out []*big.Int) error {
				for i := range out {
					out[i].SetInt64(0)
				}
				out[2].SetInt64(1)
				return nil
			}
			runBoth("decoder-forged", newGadgetCircuit(decG), asg, false, c14Desc{Gadget: decG.name, Detail: "sel = 7, indicator forced on 2"}, "selector:decoder:forged", solver.OverrideHint(muxID, forged))
		}
		partG := &gadgetDef{11, "selector.Partition(4,left)", []int64{4}, 5, 4, func(api frontend.API, in []frontend.Variable) []frontend.Variable {
			return selector.Partition(api, in[0], false, in[1:])
		}}
		{
			asg := newGadgetCircuit(partG)
			asg.In = []frontend.Variable{2, 10, 20, 30, 40}
			asg.Out = []frontend.Variable{10, 20, 30, 0}
			forged := func(m *big.Int, in, out []*big.Int) error {
				if err := stepFn(m, in, out); err != nil {
					return err
				}
				out[2].Set(out[1]) // the step one position later
				return nil
			}
			runBoth("partition-forged-step", newGadgetCircuit(partG), asg, false, c14Desc{Gadget: partG.name, Detail: "pivot 2, step forged at 3"}, "selector:partition:forged", solver.OverrideHint(stepID, forged))
			oo := newGadgetCircuit(partG)
			oo.In = []frontend.Variable{5, 10, 20, 30, 40}
			oo.Out = []frontend.Variable{10, 20, 30, 40}
			runBoth("partition-out-of-range", newGadgetCircuit(partG), oo, false, c14Desc{Gadget: partG.name, Detail: "pivot 5 of 4"}, "selector:partition:range")
		}
	}
	_ = constraint.U64{}
	rep.Extra["coq_shards"] = nshard
	rep.Write(o.Out)
	return 0
}
