package main

// C12: emulated field arithmetic is correct and cannot be cheated.

import (
	"fmt"
	"math/big"
	"strings"

	"github.com/consensys/gnark/constraint"
	"github.com/consensys/gnark/constraint/solver"
	"github.com/consensys/gnark/frontend"
	"github.com/consensys/gnark/frontend/cs/r1cs"
	"github.com/consensys/gnark/frontend/cs/scs"
	"github.com/consensys/gnark/std/math/emulated"
	"github.com/consensys/gnark/std/math/emulated/emparams"
	"github.com/consensys/gnark/test"
)

func init() { commands["c12"] = runC12 }

// ---- custom parameter sets: a small modulus on narrow limbs, and a composite-free odd one
type c12Small struct{} // 2^31-1 on 2 limbs of 16 bits

func (c12Small) NbLimbs() uint     { return 2 }
func (c12Small) BitsPerLimb() uint { return 16 }
func (c12Small) IsPrime() bool     { return true }
func (c12Small) Modulus() *big.Int { return big.NewInt(2147483647) }

type c12Odd struct{} // 2^127-1 on 3 limbs of 48 bits (modulus width not a multiple of the limb width)

func (c12Odd) NbLimbs() uint     { return 3 }
func (c12Odd) BitsPerLimb() uint { return 48 }
func (c12Odd) IsPrime() bool     { return true }
func (c12Odd) Modulus() *big.Int {
	m := new(big.Int).Lsh(big.NewInt(1), 127)
	return m.Sub(m, big.NewInt(1))
}

// ---- programs over an emulated field
type eOp struct {
	Kind       string   `json:"kind"`
	A, B, C, D int      `json:"-"`
	Args       []int    `json:"args"`
	K          *big.Int `json:"k,omitempty"`
	S0, S1     int      `json:"-"`
}
type eProg struct {
	NIn   int   `json:"nin"`
	NBits int   `json:"nbits"`
	Ops   []eOp `json:"ops"`
}

func (p *eProg) String() string {
	var ss []string
	for _, o := range p.Ops {
		s := fmt.Sprintf("%s%v", o.Kind, o.Args)
		if o.K != nil {
			s += "k" + o.K.String()
		}
		ss = append(ss, s)
	}
	return fmt.Sprintf("in%d;%s", p.NIn, strings.Join(ss, ","))
}

func (p *eProg) nbVals() int {
	n := 0
	for _, o := range p.Ops {
		if o.Kind != "IsZero" && o.Kind != "AssertInRange" && o.Kind != "BitsC" {
			n++
		}
	}
	return n
}
func (p *eProg) nbExpBits() int {
	n := 0
	for _, o := range p.Ops {
		if o.Kind == "IsZero" {
			n++
		}
		if o.Kind == "BitsC" {
			n += o.K.BitLen() // K = the modulus: one expected bit per modulus bit
		}
	}
	return n
}

// documented meaning, over the integers modulo q; ok=false when the program is not satisfiable
func evalEProg(p *eProg, q *big.Int, in []*big.Int, bits []int) (vals []*big.Int, expBits []int, ok bool) {
	mod := func(x *big.Int) *big.Int { return x.Mod(x, q) }
	raw := in
	for _, x := range in {
		vals = append(vals, mod(new(big.Int).Set(x)))
	}
	for _, o := range p.Ops {
		a := func(i int) *big.Int { return vals[o.Args[i]] }
		var r *big.Int
		switch o.Kind {
		case "Const":
			r = mod(new(big.Int).Set(o.K))
		case "Add":
			r = mod(new(big.Int).Add(a(0), a(1)))
		case "Sub":
			r = mod(new(big.Int).Sub(a(0), a(1)))
		case "Neg":
			r = mod(new(big.Int).Neg(a(0)))
		case "Mul", "MulNoReduce":
			r = mod(new(big.Int).Mul(a(0), a(1)))
		case "MulConst":
			r = mod(new(big.Int).Mul(a(0), o.K))
		case "Div":
			if a(1).Sign() == 0 {
				return nil, nil, false
			}
			r = mod(new(big.Int).Mul(a(0), new(big.Int).ModInverse(a(1), q)))
		case "Inverse":
			if a(0).Sign() == 0 {
				return nil, nil, false
			}
			r = new(big.Int).ModInverse(a(0), q)
		case "SqrtSq": // Sqrt(a*a) squared again
			r = mod(new(big.Int).Mul(a(0), a(0)))
		case "Select":
			if bits[o.S0] == 1 {
				r = new(big.Int).Set(a(0))
			} else {
				r = new(big.Int).Set(a(1))
			}
		case "Lookup2":
			r = new(big.Int).Set(a(bits[o.S0] + 2*bits[o.S1]))
		case "Mux":
			r = new(big.Int).Set(a(bits[o.S0] + 2*bits[o.S1]))
		case "Reduce", "ReduceStrict", "BitsRT", "BitsRTC":
			r = new(big.Int).Set(a(0))
		case "Sum":
			r = new(big.Int)
			for i := range o.Args {
				r.Add(r, a(i))
			}
			mod(r)
		case "AssertInRange": // only on program inputs: the representation given must be canonical
			if o.Args[0] >= len(raw) || raw[o.Args[0]].Cmp(q) >= 0 {
				return vals, expBits, false
			}
			continue
		case "BitsC": // ToBitsCanonical: the bits of the canonical representative
			for i := 0; i < q.BitLen(); i++ {
				expBits = append(expBits, int(a(0).Bit(i)))
			}
			continue
		case "IsZero":
			if a(0).Sign() == 0 {
				expBits = append(expBits, 1)
			} else {
				expBits = append(expBits, 0)
			}
			continue
		default:
			panic("evalEProg: " + o.Kind)
		}
		vals = append(vals, r)
	}
	return vals, expBits, true
}

var c12Kinds = []string{"Add", "Add", "Sub", "Sub", "Neg", "Mul", "Mul", "MulNoReduce", "MulConst", "Div", "Inverse", "SqrtSq", "Select", "Lookup2", "Mux",
	"Reduce", "ReduceStrict", "Sum", "IsZero", "BitsRT", "BitsRTC", "Const"}

// selMotif: an operand with a higher overflow counter than the others in every position of Lookup2 / Mux / Select; with
// the selector bits (j&1, j>>1) the j-th operand is the one returned; the results feed Sub / IsZero / Mul
func selMotif() *eProg {
	p := &eProg{NIn: 2, NBits: 2}
	add := func(k string, args ...int) int {
		p.Ops = append(p.Ops, eOp{Kind: k, Args: args, S0: 0, S1: 1})
		return 2 + len(p.Ops) - 1 - countIsZero(p)
	}
	v2 := add("Add", 0, 1)
	v3 := add("Add", v2, v2)
	v4 := add("Sub", v3, 0) // another high-overflow value
	var res []int
	for j := 0; j < 4; j++ {
		args := []int{0, 1, 0, 1}
		args[j] = v3
		res = append(res, add("Lookup2", args...))
		args2 := []int{1, 0, 1, 0}
		args2[j] = v4
		res = append(res, add("Mux", args2...))
	}
	res = append(res, add("Select", v3, 0), add("Select", 1, v4))
	for _, r := range res {
		add("Sub", r, 1)
	}
	for _, r := range res[:4] {
		add("Mul", r, 0)
	}
	return p
}

func countIsZero(p *eProg) int {
	n := 0
	for _, o := range p.Ops {
		if o.Kind == "IsZero" {
			n++
		}
	}
	return n
}

func genEProg(r *RNG, q *big.Int, maxOps int) *eProg {
	p := &eProg{NIn: 2 + r.Intn(3), NBits: 2}
	n := p.NIn
	nops := 3 + r.Intn(maxOps-2)
	pick := func() int {
		if r.Intn(3) == 0 {
			return r.Intn(n)
		}
		lo := n - 4
		if lo < 0 {
			lo = 0
		}
		return lo + r.Intn(n-lo)
	}
	for len(p.Ops) < nops {
		k := c12Kinds[r.Intn(len(c12Kinds))]
		o := eOp{Kind: k, S0: 0, S1: 1}
		switch k {
		case "Const":
			o.K = r.FieldElem(q)
		case "Add", "Sub", "Mul", "MulNoReduce", "Div", "Select":
			o.Args = []int{pick(), pick()}
		case "Neg", "Inverse", "SqrtSq", "Reduce", "ReduceStrict", "IsZero", "BitsRT", "BitsRTC":
			o.Args = []int{pick()}
		case "MulConst":
			o.Args = []int{pick()}
			switch r.Intn(4) { // MulConst documents a "small" constant
			case 0:
				o.K = big.NewInt(int64(r.Intn(5)))
			case 1:
				o.K = new(big.Int).SetUint64(1<<32 - 1)
			default:
				o.K = big.NewInt(int64(r.Intn(1 << 20)))
			}
		case "Lookup2", "Mux":
			o.Args = []int{pick(), pick(), pick(), pick()}
		case "Sum":
			o.Args = []int{pick(), pick(), pick()}
		}
		p.Ops = append(p.Ops, o)
		if k != "IsZero" {
			n++
		}
	}
	return p
}

// ---- capture under the test engine
type eCapture struct {
	Kind           string
	A, B, Res      []*big.Int
	OA, OB, ORes   uint
	PreReduced     bool // an operand had to be reduced first: the operands seen are not the ones combined
	BothConst      bool
	NbLimbsOperand int
}
type eRec struct {
	caps     []eCapture
	resVals  [][]*big.Int // limbs of every result (engine)
	resOvf   []uint
	kinds    []string
	problems []string
}

func toBigVar(v frontend.Variable) (*big.Int, bool) {
	switch x := v.(type) {
	case *big.Int:
		return new(big.Int).Set(x), true
	case big.Int:
		return new(big.Int).Set(&x), true
	case int:
		return big.NewInt(int64(x)), true
	case int64:
		return big.NewInt(x), true
	case uint:
		return new(big.Int).SetUint64(uint64(x)), true
	case uint64:
		return new(big.Int).SetUint64(x), true
	case uint32:
		return new(big.Int).SetUint64(uint64(x)), true
	case int32:
		return big.NewInt(int64(x)), true
	case uint8:
		return big.NewInt(int64(x)), true
	}
	return nil, false
}

func limbVals[T emulated.FieldParams](e *emulated.Element[T]) ([]*big.Int, bool) {
	out := make([]*big.Int, len(e.Limbs))
	for i, l := range e.Limbs {
		b, ok := toBigVar(l)
		if !ok {
			return nil, false
		}
		out[i] = b
	}
	return out, true
}

type emuChainCircuit[T emulated.FieldParams] struct {
	In      []emulated.Element[T]
	Exp     []emulated.Element[T] `gnark:",public"`
	Bits    []frontend.Variable
	ExpBits []frontend.Variable `gnark:",public"`
	prog    *eProg
	rec     *eRec
}

func newEmuChainCircuit[T emulated.FieldParams](p *eProg) *emuChainCircuit[T] {
	return &emuChainCircuit[T]{In: make([]emulated.Element[T], p.NIn), Exp: make([]emulated.Element[T], p.nbVals()),
		Bits: make([]frontend.Variable, p.NBits), ExpBits: make([]frontend.Variable, p.nbExpBits()), prog: p}
}

func (c *emuChainCircuit[T]) Define(api frontend.API) error {
	f, err := emulated.NewField[T](api)
	if err != nil {
		return err
	}
	maxOvf := emulated.VerifMaxOverflow(f)
	var vals []*emulated.Element[T]
	for i := range c.In {
		vals = append(vals, &c.In[i])
	}
	for _, b := range c.Bits {
		api.AssertIsBoolean(b)
	}
	nb := 0
	for _, o := range c.prog.Ops {
		a := func(i int) *emulated.Element[T] { return vals[o.Args[i]] }
		var r *emulated.Element[T]
		capture := func(kind string, x, y *emulated.Element[T], res *emulated.Element[T]) {
			if c.rec == nil {
				return
			}
			xa, ok1 := limbVals(x)
			ya, ok2 := limbVals(y)
			ra, ok3 := limbVals(res)
			if !(ok1 && ok2 && ok3) {
				return
			}
			ox, oy := emulated.VerifOverflow(x), emulated.VerifOverflow(y)
			var next uint
			if kind == "Add" {
				next = max(ox, oy) + 1
			} else {
				next = max(oy+1, ox) + 1
			}
			c.rec.caps = append(c.rec.caps, eCapture{Kind: kind, A: xa, B: ya, Res: ra, OA: ox, OB: oy, ORes: emulated.VerifOverflow(res), PreReduced: next > maxOvf})
		}
		switch o.Kind {
		case "Const":
			r = f.NewElement(o.K)
		case "Add":
			r = f.Add(a(0), a(1))
			capture("Add", a(0), a(1), r)
		case "Sub":
			r = f.Sub(a(0), a(1))
			capture("Sub", a(0), a(1), r)
		case "Neg":
			r = f.Neg(a(0))
		case "Mul":
			r = f.Mul(a(0), a(1))
		case "MulNoReduce":
			r = f.MulNoReduce(a(0), a(1))
		case "MulConst":
			r = f.MulConst(a(0), o.K)
		case "Div":
			r = f.Div(a(0), a(1))
		case "Inverse":
			r = f.Inverse(a(0))
		case "SqrtSq":
			s := f.Sqrt(f.Mul(a(0), a(0)))
			r = f.Mul(s, s)
		case "Select":
			r = f.Select(c.Bits[o.S0], a(0), a(1))
		case "Lookup2":
			r = f.Lookup2(c.Bits[o.S0], c.Bits[o.S1], a(0), a(1), a(2), a(3))
		case "Mux":
			sel := api.Add(c.Bits[o.S0], api.Mul(2, c.Bits[o.S1]))
			r = f.Mux(sel, a(0), a(1), a(2), a(3))
		case "Reduce":
			r = f.Reduce(a(0))
		case "ReduceStrict":
			r = f.ReduceStrict(a(0))
		case "Sum":
			r = f.Sum(a(0), a(1), a(2))
		case "BitsRT":
			r = f.FromBits(f.ToBits(a(0))...)
		case "BitsRTC":
			r = f.FromBits(f.ToBitsCanonical(a(0))...)
		case "IsZero":
			api.AssertIsEqual(f.IsZero(a(0)), c.ExpBits[nb])
			nb++
			continue
		case "AssertInRange":
			f.AssertIsInRange(a(0))
			continue
		case "BitsC":
			for _, b := range f.ToBitsCanonical(a(0)) {
				api.AssertIsEqual(b, c.ExpBits[nb])
				nb++
			}
			continue
		default:
			panic("Define: " + o.Kind)
		}
		if c.rec != nil {
			c.rec.kinds = append(c.rec.kinds, o.Kind)
			if lv, ok := limbVals(r); ok {
				c.rec.resVals = append(c.rec.resVals, lv)
				c.rec.resOvf = append(c.rec.resOvf, emulated.VerifOverflow(r))
			} else {
				c.rec.resVals = append(c.rec.resVals, nil)
				c.rec.resOvf = append(c.rec.resOvf, 0)
			}
		}
		vals = append(vals, r)
	}
	for i := range c.Exp {
		f.AssertIsEqual(vals[len(c.In)+i], &c.Exp[i])
	}
	return nil
}

func rawElement[T emulated.FieldParams](limbs []*big.Int) emulated.Element[T] {
	ls := make([]frontend.Variable, len(limbs))
	for i := range limbs {
		ls[i] = new(big.Int).Set(limbs[i])
	}
	return emulated.Element[T]{Limbs: ls}
}

func decompLimbs(v *big.Int, w uint, n int) []*big.Int {
	t := new(big.Int).Set(v)
	mask := new(big.Int).Sub(new(big.Int).Lsh(big.NewInt(1), w), big.NewInt(1))
	out := make([]*big.Int, n)
	for i := range out {
		out[i] = new(big.Int).And(t, mask)
		t.Rsh(t, w)
	}
	return out
}
func recompLimbs(l []*big.Int, w uint) *big.Int {
	r := new(big.Int)
	for i := len(l) - 1; i >= 0; i-- {
		r.Lsh(r, w)
		r.Add(r, l[i])
	}
	return r
}

// operand patterns: canonical and non-canonical representations the witness parser accepts
func c12Input(r *RNG, q *big.Int, w uint, nl int) (*big.Int, string) {
	// the witness parser enforces the width of the modulus on the most significant limb: representable
	// values are those below 2^bitlen(q)
	full := new(big.Int).Lsh(big.NewInt(1), uint(q.BitLen()))
	fits := func(x *big.Int) bool { return x.Cmp(full) < 0 }
	_ = w
	_ = nl
	switch r.Intn(12) {
	case 0:
		return big.NewInt(0), "0"
	case 1:
		return big.NewInt(1), "1"
	case 2:
		return new(big.Int).Sub(q, big.NewInt(1)), "q-1"
	case 3:
		if fits(q) {
			return new(big.Int).Set(q), "q"
		}
	case 4:
		m := new(big.Int).Mul(q, big.NewInt(int64(2+r.Intn(3))))
		if fits(m) {
			return m, "kq"
		}
	case 5:
		return new(big.Int).Sub(full, big.NewInt(1)), "max-limbs"
	case 6:
		m := new(big.Int).Add(q, big.NewInt(1))
		if fits(m) {
			return m, "q+1"
		}
	case 7:
		return r.Big(full), "unreduced"
	}
	return r.Big(q), "reduced"
}

type emuRunner struct {
	name string
	q    *big.Int
	w    uint
	nl   int
	// mode: engine | r1cs | scs ; returns class ("ok", "unsat", "panic", ...), message and (engine) the recording
	run func(p *eProg, in []*big.Int, bits []int, exp []*big.Int, expBits []int, mode string, extra ...solver.Option) (string, string, *eRec, *SolveObs)
}

var c12Compiled = map[string]constraint.ConstraintSystem{}

func mkRunner[T emulated.FieldParams](name string) emuRunner {
	var t T
	ru := emuRunner{name: name, q: t.Modulus(), w: t.BitsPerLimb(), nl: int(t.NbLimbs())}
	ru.run = func(p *eProg, in []*big.Int, bits []int, exp []*big.Int, expBits []int, mode string, extra ...solver.Option) (string, string, *eRec, *SolveObs) {
		asg := newEmuChainCircuit[T](p)
		for i := range in {
			asg.In[i] = rawElement[T](decompLimbs(in[i], ru.w, ru.nl))
		}
		for i := range exp {
			asg.Exp[i] = emulated.ValueOf[T](exp[i])
		}
		for i := range bits {
			asg.Bits[i] = bits[i]
		}
		for i := range expBits {
			asg.ExpBits[i] = expBits[i]
		}
		if mode == "engine" {
			tmpl := newEmuChainCircuit[T](p)
			tmpl.rec = &eRec{}
			var err error
			pm := catchPanic(func() { err = test.IsSolved(tmpl, asg, bnQ) })
			if pm != "" {
				return "panic", pm, tmpl.rec, nil
			}
			if err != nil {
				return "unsat", shortErr(err), tmpl.rec, nil
			}
			return "ok", "", tmpl.rec, nil
		}
		key := name + "|" + mode + "|" + p.String()
		ccs, ok := c12Compiled[key]
		if !ok {
			var err error
			pm := catchPanic(func() {
				if mode == "r1cs" {
					ccs, err = frontend.Compile(bnQ, r1cs.NewBuilder[constraint.U64], newEmuChainCircuit[T](p))
				} else {
					ccs, err = frontend.Compile(bnQ, scs.NewBuilder[constraint.U64], newEmuChainCircuit[T](p))
				}
			})
			if pm != "" {
				return "compile-panic", pm, nil, nil
			}
			if err != nil {
				return "compile-error", shortErr(err), nil, nil
			}
			if len(c12Compiled) > 40 {
				c12Compiled = map[string]constraint.ConstraintSystem{}
			}
			c12Compiled[key] = ccs
		}
		w, err := frontend.NewWitness(asg, bnQ)
		if err != nil {
			return "witness-error", shortErr(err), nil, nil
		}
		obs := SolveCapture(ccs, w, 1, extra...)
		return obs.Class, obs.Msg, nil, obs
	}
	return ru
}

func c12Runners() []emuRunner {
	return []emuRunner{
		mkRunner[emparams.Secp256k1Fp]("secp256k1.Fp"),
		mkRunner[emparams.BN254Fr]("bn254.Fr(=native)"),
		mkRunner[emparams.Goldilocks]("goldilocks"),
		mkRunner[emparams.BLS12381Fp]("bls12-381.Fp"),
		mkRunner[emparams.BW6761Fp]("bw6-761.Fp"),
		mkRunner[emparams.BLS24315Fp]("bls24-315.Fp"),
		mkRunner[emparams.P384Fr]("p384.Fr"),
		mkRunner[c12Small]("custom 2^31-1 (2x16)"),
		mkRunner[c12Odd]("custom 2^127-1 (3x48)"),
	}
}

type c12Desc struct {
	Field  string     `json:"field"`
	Mode   string     `json:"mode"`
	Prog   *eProg     `json:"prog"`
	In     []*big.Int `json:"in"`
	Bits   []int      `json:"bits"`
	Detail string     `json:"detail,omitempty"`
}

func opKindsOf(p *eProg) string {
	m := map[string]bool{}
	for _, o := range p.Ops {
		m[o.Kind] = true
	}
	var ks []string
	for _, k := range sortedKeysB(m) {
		ks = append(ks, k)
	}
	return strings.Join(ks, "+")
}
func sortedKeysB(m map[string]bool) []string {
	mm := map[string]int{}
	for k := range m {
		mm[k] = 1
	}
	return sortedKeys(mm)
}

func runC12(args []string) int {
	o := parseOpts(args)
	rng := NewRNG(o.Seed)
	rep := NewReport("C12")
	rep.Rule = "parameter tie: subPadding of the real package (verif export) on (modulus, limb width, overflow, limb count) sweeps vs the Gallina sub_padding, with the Go-side spec check (multiple of q, every limb >= 2^(w+ovf)); op-trace tie: seeded chains of Add/Sub/Neg/Mul/MulNoReduce/MulConst/Div/Inverse/Sqrt/Select/Lookup2/Mux/Reduce/ReduceStrict/Sum/IsZero/ToBits/FromBits over 9 parameter sets (modulus smaller than, equal to, larger than the native field; custom moduli) run in the test engine with the limbs and overflow counters of every Add/Sub observed and compared with Gallina add_limbs / sub_limbs / next-overflow, every result recomposed over Z and compared with big-integer arithmetic, and solved on compiled R1CS and SCS with right and wrong expected results; hint tie: (k, r, c) returned by the real mulHint are checked against Gallina mul_diff (all coefficients 0, over Z); adversary: forged quotient / remainder / carries / inverse / quotient-of-division with the commitment replaced by a hash of the committed values; non-trivial = every (parameter set, program, mode) and (parameter, sweep point); distinct as counted"
	runners := c12Runners()
	var padCases, opCases, mulCases []string
	// ---- A: subPadding sweep
	type padq struct {
		q *big.Int
		w uint
	}
	var pq []padq
	for _, ru := range runners {
		pq = append(pq, padq{ru.q, ru.w})
	}
	pq = append(pq, padq{big.NewInt(13), 4}, padq{big.NewInt(65521), 8}, padq{new(big.Int).Sub(new(big.Int).Lsh(big.NewInt(1), 521), big.NewInt(1)), 70}, padq{big.NewInt(2), 1}, padq{big.NewInt(1), 3})
	ovfs := []uint{0, 1, 2, 5, 17, 60, 120}
	for _, c := range pq {
		req := (uint(c.q.BitLen()) + c.w - 1) / c.w
		for _, ovf := range ovfs {
			for _, nb := range []uint{0, req, req + 1, req + 3} {
				var pad []*big.Int
				pm := catchPanic(func() { pad = emulated.VerifSubPadding(c.q, c.w, ovf, nb) })
				key := fmt.Sprintf("pad|%s|%d|%d|%d", c.q.String(), c.w, ovf, nb)
				rep.Eval(key, true)
				rep.Count("pad")
				desc := map[string]interface{}{"q": c.q.String(), "w": c.w, "ovf": ovf, "nb": nb}
				if pm != "" {
					rep.Fail("c12:subpadding-panic", pm, desc)
					continue
				}
				v := recompLimbs(pad, c.w)
				lo := new(big.Int).Lsh(big.NewInt(1), c.w+ovf)
				bad := new(big.Int).Mod(v, c.q).Sign() != 0
				for _, l := range pad {
					if l.Cmp(lo) < 0 {
						bad = true
					}
				}
				if bad {
					rep.Fail("c12:subpadding-spec", "subPadding is not a multiple of the modulus or has a limb below 2^(w+overflow)", desc)
				}
				if len(padCases) < 400 {
					padCases = append(padCases, fmt.Sprintf("(%s, %d%%Z, %d%%Z, %d, %s)", zlit(c.q), c.w, ovf, nb, zlist(pad)))
				}
			}
		}
	}
	// ---- B: op chains
	nprog := 4
	if o.Thorough() {
		nprog = 40
	}
	var mulID solver.HintID
	var mulFn solver.Hint
	var invID, divID solver.HintID
	var invFn, divFn solver.Hint
	for _, h := range emulated.GetHints() {
		n := solver.GetHintName(h)
		switch {
		case strings.HasSuffix(n, ".mulHint"):
			mulID, mulFn = solver.GetHintID(h), h
		case strings.HasSuffix(n, ".InverseHint"):
			invID, invFn = solver.GetHintID(h), h
		case strings.HasSuffix(n, ".DivHint"):
			divID, divFn = solver.GetHintID(h), h
		}
	}
	if mulFn == nil || invFn == nil || divFn == nil {
		rep.Fail("harness:hints", "emulated hints not found by name", nil)
	}
	for ri, ru := range runners {
		np := nprog
		if ru.nl >= 12 && !o.Thorough() {
			np = 2
		}
		for pi := 0; pi < np+4; pi++ {
			var p *eProg
			var in []*big.Int
			var bits []int
			var exp []*big.Int
			var expBits []int
			var pats []string
			for try := 0; ; try++ {
				p = genEProg(rng, ru.q, 9)
				if pi >= np {
					p = selMotif()
				}
				in, pats = nil, nil
				for i := 0; i < p.NIn; i++ {
					v, pat := c12Input(rng, ru.q, ru.w, ru.nl)
					in = append(in, v)
					pats = append(pats, pat)
				}
				bits = []int{rng.Intn(2), rng.Intn(2)}
				if pi >= np {
					bits = []int{(pi - np) & 1, (pi - np) >> 1}
				}
				var ok bool
				exp, expBits, ok = evalEProg(p, ru.q, in, bits)
				if ok {
					exp = exp[p.NIn:]
					break
				}
			}
			for _, pat := range pats {
				rep.Count("operand:" + pat)
			}
			for _, op := range p.Ops {
				rep.Count("op:" + op.Kind)
			}
			desc := c12Desc{Field: ru.name, Prog: p, In: in, Bits: bits}
			// engine with capture
			cls, msg, rec, _ := ru.run(p, in, bits, exp, expBits, "engine")
			desc.Mode = "engine"
			rep.Eval(fmt.Sprintf("%s|engine|%s", ru.name, p.String()), true)
			rep.Sample(desc)
			if cls != "ok" {
				d := desc
				d.Detail = msg
				sig := "c12:engine-rejects-valid:"
				if cls == "panic" {
					sig = "c12:engine-panic:"
				}
				rep.Fail(sig+opKindsOf(p), "the test engine "+cls+" on a chain whose expected values are the big-integer results: "+msg, d)
			} else if rec != nil {
				// every result recomposed over Z is congruent to the big-integer result
				for i, lv := range rec.resVals {
					if lv == nil || i >= len(exp) {
						continue
					}
					v := recompLimbs(lv, ru.w)
					if new(big.Int).Mod(v, ru.q).Cmp(exp[i]) != 0 {
						d := desc
						d.Detail = fmt.Sprintf("value #%d", i)
						rep.Fail("c12:value-incongruent:"+opKindsOf(p), "a result recomposed from its limbs is not congruent to the integer result", d)
					}
					if i < len(rec.kinds) && rec.kinds[i] == "ReduceStrict" && v.Cmp(ru.q) >= 0 {
						d := desc
						d.Detail = fmt.Sprintf("value #%d", i)
						rep.Fail("c12:reducestrict-not-canonical", "the result of ReduceStrict recomposed from its limbs is not below the modulus", d)
					}
					lim := new(big.Int).Lsh(big.NewInt(1), ru.w+rec.resOvf[i])
					for _, l := range lv {
						if l.Cmp(lim) >= 0 {
							d := desc
							d.Detail = fmt.Sprintf("value #%d overflow counter %d", i, rec.resOvf[i])
							rep.Fail("c12:overflow-counter-too-small", "a limb exceeds 2^(w+overflow) for the overflow the library tracks", d)
							break
						}
					}
				}
				for _, c := range rec.caps {
					if c.PreReduced {
						rep.Count("capture:operand-reduced-first")
						continue
					}
					rep.Count("capture:" + c.Kind)
					if len(opCases) < 300 {
						kind := 0
						if c.Kind == "Sub" {
							kind = 1
						}
						opCases = append(opCases, fmt.Sprintf("(%d, %s, %d%%Z, %d, (%s, %d%%Z), (%s, %d%%Z), (%s, %d%%Z))", kind, zlit(ru.q), ru.w, ru.nl,
							zlist(c.A), c.OA, zlist(c.B), c.OB, zlist(c.Res), c.ORes))
					}
				}
			}
			// compiled: right and wrong expected values
			for _, mode := range []string{"r1cs", "scs"} {
				if ru.nl >= 12 && mode == "scs" && !o.Thorough() {
					continue
				}
				desc.Mode = mode
				cls, msg, _, obs := ru.run(p, in, bits, exp, expBits, mode)
				rep.Eval(fmt.Sprintf("%s|%s|%s", ru.name, mode, p.String()), true)
				rep.Count("solve:" + mode + ":" + cls)
				if cls != "ok" {
					d := desc
					d.Detail = msg
					rep.Fail("c12:"+cls+":"+mode+":"+opKindsOf(p), "compiled circuit: "+cls+" on a chain whose expected values are the big-integer results: "+msg, d)
					continue
				}
				// the real mulHint's outputs against the Gallina difference polynomial
				if obs != nil && mode == "r1cs" {
					for _, hc := range obs.Hints {
						if solver.HintID(hc.ID) != mulID || len(mulCases) >= 60 {
							continue
						}
						nbBits := int(hc.In[0].Int64())
						nbLimbs := int(hc.In[1].Int64())
						aLen := int(hc.In[2].Int64())
						quoLen := int(hc.In[3].Int64())
						pl := hc.In[4 : 4+nbLimbs]
						al := hc.In[4+nbLimbs : 4+nbLimbs+aLen]
						bl := hc.In[4+nbLimbs+aLen:]
						quo := hc.Out[:quoLen]
						rem := hc.Out[quoLen : quoLen+nbLimbs]
						car := hc.Out[quoLen+nbLimbs:]
						signed := make([]*big.Int, len(car))
						half := new(big.Int).Rsh(bnQ, 1)
						for i, cv := range car {
							signed[i] = new(big.Int).Set(cv)
							if cv.Cmp(half) > 0 {
								signed[i].Sub(cv, bnQ)
							}
						}
						rep.Count("mulhint-case")
						mulCases = append(mulCases, fmt.Sprintf("(%d%%Z, %s, %s, %s, %s, %s, %s)", nbBits, zlist(al), zlist(bl), zlist(rem), zlist(quo), zlist(pl), zlist(signed)))
					}
				}
				if len(exp) > 0 {
					bad := append([]*big.Int{}, exp...)
					j := rng.Intn(len(bad))
					bad[j] = new(big.Int).Add(bad[j], big.NewInt(1))
					bad[j].Mod(bad[j], ru.q)
					cls, _, _, _ = ru.run(p, in, bits, bad, expBits, mode)
					rep.Eval(fmt.Sprintf("%s|%s|%s|wrong%d", ru.name, mode, p.String(), j), true)
					if cls == "ok" {
						d := desc
						d.Detail = fmt.Sprintf("expected value #%d off by one", j)
						rep.Fail("c12:accepts-wrong:"+mode+":"+opKindsOf(p), "compiled circuit is satisfied with a result that is not congruent to the integer result", d)
					}
				}
				if len(expBits) > 0 {
					bad := append([]int{}, expBits...)
					bad[0] = 1 - bad[0]
					cls, _, _, _ = ru.run(p, in, bits, exp, bad, mode)
					rep.Eval(fmt.Sprintf("%s|%s|%s|wrongbit", ru.name, mode, p.String()), true)
					if cls == "ok" {
						rep.Fail("c12:accepts-wrong-iszero:"+mode, "IsZero accepted with the wrong output bit", desc)
					}
				}
			}
		}
		_ = ri
	}
	// ---- B2: canonical representatives: AssertIsInRange and ToBitsCanonical on canonical / non-canonical inputs
	for _, ru := range runners {
		if ru.nl >= 12 && !o.Thorough() {
			continue
		}
		full := new(big.Int).Lsh(big.NewInt(1), uint(ru.q.BitLen()))
		cands := map[string]*big.Int{"0": big.NewInt(0), "q-1": new(big.Int).Sub(ru.q, big.NewInt(1)), "q": new(big.Int).Set(ru.q),
			"q+1": new(big.Int).Add(ru.q, big.NewInt(1)), "max": new(big.Int).Sub(full, big.NewInt(1)), "random": rng.Big(ru.q)}
		for _, name := range sortedKeysB(map[string]bool{"0": true, "q-1": true, "q": true, "q+1": true, "max": true, "random": true}) {
			x := cands[name]
			if x.Cmp(full) >= 0 {
				continue
			}
			p := &eProg{NIn: 1, NBits: 2, Ops: []eOp{{Kind: "AssertInRange", Args: []int{0}}}}
			_, _, want := evalEProg(p, ru.q, []*big.Int{x}, []int{0, 0})
			for _, mode := range []string{"engine", "r1cs", "scs"} {
				cls, msg, _, _ := ru.run(p, []*big.Int{x}, []int{0, 0}, nil, nil, mode)
				rep.Eval(fmt.Sprintf("inrange|%s|%s|%s", ru.name, mode, name), true)
				rep.Count("inrange:" + name + ":" + cls)
				d := c12Desc{Field: ru.name, Mode: mode, Prog: p, In: []*big.Int{x}, Detail: name + " " + msg}
				if want && cls != "ok" {
					rep.Fail("c12:inrange-rejects-canonical:"+mode, "AssertIsInRange rejects a value below the modulus: "+msg, d)
				}
				if !want && cls == "ok" {
					rep.Fail("c12:inrange-accepts:"+name+":"+mode, "AssertIsInRange accepts a representation that is not below the modulus", d)
				}
			}
			// ToBitsCanonical of the same representation: only the bits of the canonical representative are accepted
			pb := &eProg{NIn: 1, NBits: 2, Ops: []eOp{{Kind: "BitsC", Args: []int{0}, K: ru.q}}}
			_, canon, _ := evalEProg(pb, ru.q, []*big.Int{x}, []int{0, 0})
			rawBits := make([]int, ru.q.BitLen())
			for i := range rawBits {
				rawBits[i] = int(x.Bit(i))
			}
			for _, mode := range []string{"engine", "r1cs"} {
				cls, msg, _, _ := ru.run(pb, []*big.Int{x}, []int{0, 0}, nil, canon, mode)
				rep.Eval(fmt.Sprintf("bitsc|%s|%s|%s", ru.name, mode, name), true)
				d := c12Desc{Field: ru.name, Mode: mode, Prog: pb, In: []*big.Int{x}, Detail: name + " " + msg}
				if cls != "ok" {
					rep.Fail("c12:bitscanonical-rejects:"+mode, "ToBitsCanonical does not produce the bits of the canonical representative: "+msg, d)
				}
				if x.Cmp(ru.q) >= 0 {
					cls, _, _, _ = ru.run(pb, []*big.Int{x}, []int{0, 0}, nil, rawBits, mode)
					rep.Eval(fmt.Sprintf("bitsc-raw|%s|%s|%s", ru.name, mode, name), true)
					if cls == "ok" {
						rep.Fail("c12:bitscanonical-accepts-noncanonical:"+mode, "ToBitsCanonical accepts the bits of a non-canonical representative", d)
					}
				}
			}
		}
		// dishonest prover: x = q, the reduction hint answers (quotient 0, remainder q) instead of (1, 0); claimed bits = bits(q)
		if ru.q.Cmp(full) < 0 && mulFn != nil {
			pb := &eProg{NIn: 1, NBits: 2, Ops: []eOp{{Kind: "BitsC", Args: []int{0}, K: ru.q}}}
			qbits := make([]int, ru.q.BitLen())
			for i := range qbits {
				qbits[i] = int(ru.q.Bit(i))
			}
			forged := func(field *big.Int, in, out []*big.Int) error {
				if err := mulFn(field, in, out); err != nil {
					return err
				}
				nbBits := uint(in[0].Int64())
				nbLimbs := int(in[1].Int64())
				quoLen := int(in[3].Int64())
				quo := out[:quoLen]
				rem := out[quoLen : quoLen+nbLimbs]
				if recompLimbs(quo, nbBits).Cmp(big.NewInt(1)) == 0 && recompLimbs(rem, nbBits).Sign() == 0 {
					for i := range quo {
						quo[i].SetInt64(0)
					}
					for i, l := range decompLimbs(ru.q, nbBits, len(rem)) {
						rem[i].Set(l)
					}
					for _, c := range out[quoLen+nbLimbs:] { // the integer identity still holds: carries of x*1 - q are those of 0
						_ = c
					}
				}
				return nil
			}
			for _, mode := range []string{"r1cs", "scs"} {
				cls, msg, _, _ := ru.run(pb, []*big.Int{ru.q}, []int{0, 0}, nil, qbits, mode, solver.OverrideHint(mulID, forged))
				rep.Eval(fmt.Sprintf("bitsc-forge|%s|%s", ru.name, mode), true)
				rep.Count("bitsc-forge:" + cls)
				if cls == "ok" {
					rep.Fail("c12:forged-accepted:bitscanonical:"+mode, "with a forged reduction (remainder = q) ToBitsCanonical yields the bits of q", c12Desc{Field: ru.name, Mode: mode, Prog: pb, In: []*big.Int{ru.q}, Detail: msg})
				}
			}
		}
	}
	// ---- C: adversarial hints on a.b = r (first multiplication forged)
	// forge(field, K, R) proposes another quotient / remainder; the carries are then recomputed modulo the
	// native field so that the deferred identity holds coefficient-wise there
	forgeRun := func(ru emuRunner, name string, forge func(field, K, R *big.Int) (*big.Int, *big.Int, bool)) {
		p := &eProg{NIn: 2, NBits: 2, Ops: []eOp{{Kind: "Mul", Args: []int{0, 1}}}}
		full := new(big.Int).Lsh(big.NewInt(1), uint(ru.q.BitLen()))
		var a, b, claimed *big.Int
		found := false
		for try := 0; try < 200 && !found; try++ {
			a, b = rng.Big(ru.q), rng.Big(ru.q)
			ab := new(big.Int).Mul(a, b)
			K, R := new(big.Int).DivMod(ab, ru.q, new(big.Int))
			K2, R2, ok := forge(bnQ, K, R)
			if ok && K2.Sign() >= 0 && R2.Sign() >= 0 && R2.Cmp(full) < 0 {
				found, claimed = true, R2
			}
		}
		if !found {
			rep.Count("forge:not-applicable:" + name)
			return
		}
		for _, mode := range []string{"r1cs", "scs"} {
			call := 0
			forged := func(field *big.Int, in, out []*big.Int) error {
				if err := mulFn(field, in, out); err != nil {
					return err
				}
				call++
				if call != 1 {
					return nil
				}
				nbBits := uint(in[0].Int64())
				nbLimbs := int(in[1].Int64())
				aLen := int(in[2].Int64())
				quoLen := int(in[3].Int64())
				pl := in[4 : 4+nbLimbs]
				al := in[4+nbLimbs : 4+nbLimbs+aLen]
				bl := in[4+nbLimbs+aLen:]
				quo := out[:quoLen]
				rem := out[quoLen : quoLen+nbLimbs]
				car := out[quoLen+nbLimbs:]
				K2, R2, ok := forge(field, recompLimbs(quo, nbBits), recompLimbs(rem, nbBits))
				if !ok {
					return nil
				}
				for i, l := range decompLimbs(K2, nbBits, len(quo)) {
					quo[i].Set(l)
				}
				for i, l := range decompLimbs(R2, nbBits, len(rem)) {
					rem[i].Set(l)
				}
				lhs := limbMulBig(al, bl)
				rhs := limbMulBig(quo, pl)
				for i := range rem {
					if i < len(rhs) {
						rhs[i].Add(rhs[i], rem[i])
					} else {
						rhs = append(rhs, new(big.Int).Set(rem[i]))
					}
				}
				inv := new(big.Int).ModInverse(new(big.Int).Lsh(big.NewInt(1), nbBits), field)
				carry := new(big.Int)
				for i := range car {
					if i < len(lhs) {
						carry.Add(carry, lhs[i])
					}
					if i < len(rhs) {
						carry.Sub(carry, rhs[i])
					}
					carry.Mul(carry, inv)
					carry.Mod(carry, field)
					car[i].Set(carry)
				}
				return nil
			}
			exp, _, _ := evalEProg(p, ru.q, []*big.Int{a, b}, []int{0, 0})
			honest := exp[2]
			claimedMod := new(big.Int).Mod(claimed, ru.q)
			cls, msg, _, _ := ru.run(p, []*big.Int{a, b}, []int{0, 0}, []*big.Int{claimedMod}, nil, mode, solver.OverrideHint(mulID, forged))
			congruent := claimedMod.Cmp(honest) == 0
			rep.Eval(fmt.Sprintf("forge|%s|%s|%s", ru.name, mode, name), true)
			rep.Count("forge:" + name + ":" + cls)
			d := c12Desc{Field: ru.name, Mode: mode, Prog: p, In: []*big.Int{a, b}, Detail: name + " claimed=" + claimed.String()}
			if cls == "ok" && !congruent {
				sigName := name
				if name == "k-1,r+q-rn" || name == "k+1,r-q+rn" {
					sigName = "remainder-shifted-by-q-minus-native"
				}
				rep.Fail("c12:forged-accepted:mul:"+sigName+":"+name+":"+ru.name+":"+mode, "a forged mulHint output (quotient, remainder within their range-checked widths, carries recomputed modulo the native field) makes a.b = r' hold in the circuit with r' not congruent to a.b modulo the emulated modulus", d)
			}
			if cls == "panic" {
				rep.Fail("c12:forge-panic:"+name, msg, d)
			}
		}
	}
	for _, ru := range runners {
		if ru.nl >= 12 && !o.Thorough() {
			continue
		}
		q := ru.q
		forgeRun(ru, "k-1,r+q-rn", func(field, K, R *big.Int) (*big.Int, *big.Int, bool) {
			R2 := new(big.Int).Add(R, q)
			R2.Sub(R2, field)
			return new(big.Int).Sub(K, big.NewInt(1)), R2, field.Cmp(q) != 0
		})
		forgeRun(ru, "k+1,r-q+rn", func(field, K, R *big.Int) (*big.Int, *big.Int, bool) {
			R2 := new(big.Int).Sub(R, q)
			R2.Add(R2, field)
			return new(big.Int).Add(K, big.NewInt(1)), R2, field.Cmp(q) != 0
		})
		forgeRun(ru, "r+1", func(field, K, R *big.Int) (*big.Int, *big.Int, bool) {
			return K, new(big.Int).Add(R, big.NewInt(1)), true
		})
		forgeRun(ru, "k+1", func(field, K, R *big.Int) (*big.Int, *big.Int, bool) {
			return new(big.Int).Add(K, big.NewInt(1)), R, true
		})
		forgeRun(ru, "k-1,r+q", func(field, K, R *big.Int) (*big.Int, *big.Int, bool) {
			// the same integer identity with a non-canonical remainder: congruent, may be accepted
			return new(big.Int).Sub(K, big.NewInt(1)), new(big.Int).Add(R, q), true
		})
	}
	// forged inverse / division results
	for _, ru := range runners[:6] {
		for _, kind := range []string{"Inverse", "Div"} {
			p := &eProg{NIn: 2, NBits: 2, Ops: []eOp{{Kind: kind, Args: []int{0, 1}}}}
			if kind == "Inverse" {
				p.Ops[0].Args = []int{0}
			}
			a, b := rng.Big(ru.q), rng.Big(ru.q)
			if a.Sign() == 0 {
				a.SetInt64(3)
			}
			if b.Sign() == 0 {
				b.SetInt64(5)
			}
			exp, _, _ := evalEProg(p, ru.q, []*big.Int{a, b}, []int{0, 0})
			wrong := new(big.Int).Add(exp[2], big.NewInt(1))
			wrong.Mod(wrong, ru.q)
			id, fn := invID, invFn
			if kind == "Div" {
				id, fn = divID, divFn
			}
			forged := func(field *big.Int, in, out []*big.Int) error {
				if err := fn(field, in, out); err != nil {
					return err
				}
				// outputs are the limbs of the result: add one to the least significant limb
				out[0].Add(out[0], big.NewInt(1))
				return nil
			}
			for _, mode := range []string{"r1cs", "scs"} {
				cls, msg, _, _ := ru.run(p, []*big.Int{a, b}, []int{0, 0}, []*big.Int{wrong}, nil, mode, solver.OverrideHint(id, forged))
				rep.Eval(fmt.Sprintf("forge|%s|%s|%s+1", ru.name, mode, kind), true)
				rep.Count("forge:" + kind + "+1:" + cls)
				d := c12Desc{Field: ru.name, Mode: mode, Prog: p, In: []*big.Int{a, b}, Detail: "hint result + 1"}
				if cls == "ok" {
					rep.Fail("c12:forged-accepted:"+kind, "a forged "+kind+" hint result is accepted", d)
				}
				if cls == "panic" {
					rep.Fail("c12:forge-panic:"+kind, msg, d)
				}
			}
		}
	}
	hdr := "From Coq Require Import ZArith List Bool.\nFrom GnarkV Require Import Std.Emulated Std.MulCheck Std.EmulatedCases.\nImport ListNotations.\n"
	half := len(padCases) / 2
	writeFile(o.Out, "cases_C12_pad1.v", hdr+fmt.Sprintf("Definition padcases : list (Z * Z * Z * nat * list Z) := %s.\n", coqlistNL(padCases[:half]))+
		"Definition mism_subpadding_1 := Eval vm_compute in pad_mismatches 0 padcases.\nPrint mism_subpadding_1.\n")
	writeFile(o.Out, "cases_C12_pad2.v", hdr+fmt.Sprintf("Definition padcases : list (Z * Z * Z * nat * list Z) := %s.\n", coqlistNL(padCases[half:]))+
		"Definition mism_subpadding_2 := Eval vm_compute in pad_mismatches 0 padcases.\nPrint mism_subpadding_2.\n")
	writeFile(o.Out, "cases_C12_ops.v", hdr+fmt.Sprintf("Definition opcases : list (nat * Z * Z * nat * (list Z * Z) * (list Z * Z) * (list Z * Z)) := %s.\n", coqlistNL(opCases))+
		"Definition mism_addsub := Eval vm_compute in op_mismatches 0 opcases.\nPrint mism_addsub.\n")
	writeFile(o.Out, "cases_C12_mul.v", hdr+fmt.Sprintf("Definition mulcases : list (Z * list Z * list Z * list Z * list Z * list Z * list Z) := %s.\n", coqlistNL(mulCases))+
		fmt.Sprintf("Definition mism_mulhint := Eval vm_compute in mul_mismatches %s 0 mulcases.\nPrint mism_mulhint.\n", zlit(bnQ)))
	rep.CoqCases = len(padCases) + len(opCases) + len(mulCases)
	c12ShortElems(rep, rng)
	rep.Write(o.Out)
	return 0
}

func limbMulBig(x, y []*big.Int) []*big.Int {
	if len(x) == 0 || len(y) == 0 {
		return nil
	}
	res := make([]*big.Int, len(x)+len(y)-1)
	for i := range res {
		res[i] = new(big.Int)
	}
	for i := range x {
		for j := range y {
			res[i+j].Add(res[i+j], new(big.Int).Mul(x[i], y[j]))
		}
	}
	return res
}
