package main

// C01: Groth16 verification accepts only proofs of the stated public inputs.

import (
	"bytes"
	"fmt"
	"math/big"
	"strings"

	"github.com/consensys/gnark-crypto/ecc"
	curve "github.com/consensys/gnark-crypto/ecc/bn254"
	"github.com/consensys/gnark-crypto/ecc/bn254/fr"
	"github.com/consensys/gnark-crypto/ecc/bn254/fr/pedersen"
	"github.com/consensys/gnark/backend/groth16"
	g16 "github.com/consensys/gnark/backend/groth16/bn254"
	"github.com/consensys/gnark/backend/witness"
	"github.com/consensys/gnark/constraint"
	"github.com/consensys/gnark/frontend"
	"github.com/consensys/gnark/frontend/cs/r1cs"
)

func init() { commands["c01"] = runC01 }

type c01Desc struct {
	Circuit string `json:"circuit"`
	Curve   string `json:"curve"`
	Edit    string `json:"edit"`
	Verdict string `json:"verdict"`
}

func cloneG16Proof(p *g16.Proof) *g16.Proof {
	var b bytes.Buffer
	p.WriteRawTo(&b)
	q := &g16.Proof{}
	q.ReadFrom(bytes.NewReader(b.Bytes()))
	return q
}

func runC01(args []string) int {
	o := parseOpts(args)
	rng := NewRNG(o.Seed)
	rep := NewReport("C01")
	rep.Rule = "bn254 white box: Setup runs with toxic waste chosen by the harness (verif hook), every element of pk and vk is compared with [scalar]·G for the scalars of the exponent-level model (Go transcription; the Gallina model recomputes the same scalars from the dumped R1CS), Prove is observed (r, s, solved wires) and every proof element compared likewise; black box on the real verifier: a genuine proof is replayed against other public inputs, each of Ar/Bs/Krs/commitments/PoK is replaced by another valid group element, commitments are dropped, duplicated, appended (incl. the F1 forgery point), swapped; proofs of circuits with 0,1,2 commitments; 7 curves for the black-box part in the thorough tier; non-trivial = every (circuit, edit); distinct as counted"
	var coqCases []string
	specs := g16Specs()
	for si, sp := range specs {
		run, err := g16Setup(sp.name, sp.mk(), rng)
		desc := c01Desc{Circuit: sp.name, Curve: "bn254"}
		if err != nil {
			rep.Fail("harness:setup", err.Error(), desc)
			continue
		}
		rep.Eval("setup|"+sp.name, true)
		for _, e := range run.keyErrs {
			rep.Fail("c01:key-element:"+strings.SplitN(e, "[", 2)[0], "a key element is not [model scalar]·G: "+e, desc)
		}
		full, _ := frontend.NewWitness(sp.asg(si), bnQ)
		pub, _ := full.Public()
		po, err := run.prove(full)
		if err != nil {
			rep.Fail("c01:prove-error", "Prove failed on a valid witness: "+err.Error(), desc)
			continue
		}
		for _, e := range po.errs {
			rep.Fail("c01:proof-element:"+strings.SplitN(e, "[", 2)[0], "a proof element is not [model scalar]·G: "+e, desc)
		}
		if run.n <= 16 { // the Gallina model recomputes every scalar with 254-bit arithmetic in vm_compute
			coqCases = append(coqCases, run.coqCase(po))
		}
		verify := func(p *g16.Proof, w witness.Witness) (int, string) {
			return classOf(func() error { return groth16.Verify(p, run.vk, w) })
		}
		expect := func(edit string, cls int, msg string, wantAccept bool) {
			d := desc
			d.Edit, d.Verdict = edit, className[cls]
			rep.Eval(sp.name+"|"+edit, true)
			rep.Count("verdict:" + className[cls])
			rep.Sample(d)
			switch {
			case cls == 2:
				rep.Fail("c01:verify-panic:"+strings.SplitN(edit, "=", 2)[0], "Verify panicked: "+msg, d)
			case wantAccept && cls != 0:
				rep.Fail("c01:genuine-rejected", "a genuine proof was rejected: "+msg, d)
			case !wantAccept && cls == 0:
				rep.Fail("c01:accepted:"+strings.SplitN(edit, "=", 2)[0], "Verify accepted "+edit, d)
			}
		}
		cls, msg := verify(po.proof, pub)
		expect("genuine", cls, msg, true)
		// replay against other public inputs
		pv := vecToBig(pub.Vector(), bnQ)
		for k := range pv {
			alt := make([]*big.Int, len(pv))
			copy(alt, pv)
			alt[k] = addq(pv[k], big.NewInt(1))
			cls, msg = verify(po.proof, witnessFromValues(bnQ, len(alt), alt))
			expect(fmt.Sprintf("replay: public input %d changed", k), cls, msg, false)
			// F1: replay with the compensating point appended as a surplus commitment
			p2 := cloneG16Proof(po.proof)
			var comp curve.G1Affine
			neg := new(big.Int).Neg(big.NewInt(1))
			neg.Mod(neg, bnQ)
			comp.ScalarMultiplication(&run.vk.G1.K[k+1], neg) // (x_k - x'_k) K_k with x'_k = x_k + 1
			p2.Commitments = append(p2.Commitments, comp)
			cls, msg = verify(p2, witnessFromValues(bnQ, len(alt), alt))
			expect(fmt.Sprintf("replay+surplus-commitment: public input %d changed and compensated by an appended commitment", k), cls, msg, false)
		}
		// single replaced elements (by other valid subgroup points with known logs)
		one1, one2 := g1Mul(big.NewInt(1)), g2Mul(big.NewInt(1))
		{
			p2 := cloneG16Proof(po.proof)
			p2.Ar.Add(&p2.Ar, &one1)
			cls, msg = verify(p2, pub)
			expect("element: Ar + G", cls, msg, false)
			p2 = cloneG16Proof(po.proof)
			p2.Krs.Add(&p2.Krs, &one1)
			cls, msg = verify(p2, pub)
			expect("element: Krs + G", cls, msg, false)
			p2 = cloneG16Proof(po.proof)
			p2.Bs.Add(&p2.Bs, &one2)
			cls, msg = verify(p2, pub)
			expect("element: Bs + G2", cls, msg, false)
			p2 = cloneG16Proof(po.proof)
			p2.Ar, p2.Krs = p2.Krs, p2.Ar
			cls, msg = verify(p2, pub)
			expect("element: Ar and Krs swapped", cls, msg, false)
			p2 = cloneG16Proof(po.proof)
			p2.Ar = curve.G1Affine{}
			cls, msg = verify(p2, pub)
			expect("element: Ar = infinity", cls, msg, false)
			p2 = cloneG16Proof(po.proof)
			p2.CommitmentPok.Add(&p2.CommitmentPok, &one1)
			cls, msg = verify(p2, pub)
			expect("element: CommitmentPok + G", cls, msg, len(po.proof.Commitments) == 0) // the PoK is only checked when the key has commitments
		}
		nc := len(po.proof.Commitments)
		for j := 0; j < nc; j++ {
			p2 := cloneG16Proof(po.proof)
			p2.Commitments[j].Add(&p2.Commitments[j], &one1)
			cls, msg = verify(p2, pub)
			expect(fmt.Sprintf("commitment %d + G", j), cls, msg, false)
		}
		for n := 0; n <= nc+2; n++ {
			if n == nc {
				continue
			}
			p2 := cloneG16Proof(po.proof)
			resizeField(p2, []string{"Commitments"}, n, false)
			if nc == 0 {
				for i := range p2.Commitments {
					p2.Commitments[i] = one1
				}
			}
			cls, msg = verify(p2, pub)
			expect(fmt.Sprintf("commitments=%d of %d", n, nc), cls, msg, false)
		}
		if nc >= 2 {
			p2 := cloneG16Proof(po.proof)
			p2.Commitments[0], p2.Commitments[1] = p2.Commitments[1], p2.Commitments[0]
			cls, msg = verify(p2, pub)
			expect("commitments swapped", cls, msg, false)
		}
		// the Pedersen keys made by Setup must bind commitment i to basis i: a multiple of a basis element of
		// commitment 0 moved into commitment 1 (sum unchanged), with the knowledge proofs an adversary can
		// compute from the proving key, must be rejected by the batched knowledge-proof verification
		if nc >= 2 && len(run.pk.CommitmentKeys[0].Basis) > 0 {
			pks := run.pk.CommitmentKeys
			poks := make([]curve.G1Affine, nc)
			okLen := true
			for j := 0; j < nc; j++ {
				if len(po.CV[j]) != len(pks[j].BasisExpSigma) {
					okLen = false
					break
				}
				var acc curve.G1Jac
				for i, v := range po.CV[j] {
					var t curve.G1Affine
					t.ScalarMultiplication(&pks[j].BasisExpSigma[i], v)
					acc.AddMixed(&t)
				}
				poks[j].FromJacobian(&acc)
			}
			if okLen {
				var ch fr.Element
				ch.SetBigInt(rng.FieldElem(bnQ))
				d := desc
				d.Edit = "pedersen: honest per-commitment knowledge proofs"
				rep.Eval(sp.name+"|pedersen-honest", true)
				if err := pedersen.BatchVerifyMultiVk(run.vk.CommitmentKeys, po.proof.Commitments, poks, ch); err != nil {
					rep.Fail("c01:pedersen-honest-rejected", "knowledge proofs computed from the proving key and the committed values are rejected: "+err.Error(), d)
				} else {
					cm := append([]curve.G1Affine{}, po.proof.Commitments...)
					pk2 := append([]curve.G1Affine{}, poks...)
					// a basis element that is not the point at infinity (a committed wire used by no constraint has a zero base)
					bi := -1
					for i := range pks[0].Basis {
						if !pks[0].Basis[i].IsInfinity() {
							bi = i
							break
						}
					}
					if bi < 0 {
						continue
					}
					cm[0].Sub(&cm[0], &pks[0].Basis[bi])
					cm[1].Add(&cm[1], &pks[0].Basis[bi])
					pk2[0].Sub(&pk2[0], &pks[0].BasisExpSigma[bi])
					pk2[1].Add(&pk2[1], &pks[0].BasisExpSigma[bi])
					d.Edit = "pedersen: basis element of commitment 0 moved into commitment 1"
					rep.Eval(sp.name+"|pedersen-migration", true)
					if err := pedersen.BatchVerifyMultiVk(run.vk.CommitmentKeys, cm, pk2, ch); err == nil {
						rep.Fail("c01:accepted:pedersen-migration", "the commitment keys accept a commitment containing a multiple of another commitment's basis (shared sigma): the knowledge proof does not bind commitment 1 to its own basis", d)
					}
				}
			}
		}
		// a proof of another witness of the same circuit against this public input
		full2, _ := frontend.NewWitness(sp.asg(si+5), bnQ)
		if po2, err := run.prove(full2); err == nil {
			cls, msg = verify(po2.proof, pub)
			expect("proof of another assignment against this public input", cls, msg, false)
		}
	}
	// black box on the other curves: genuine accepted, replay rejected
	curves := []ecc.ID{ecc.BLS12_381}
	if o.AllCurves() {
		curves = []ecc.ID{ecc.BLS12_377, ecc.BLS12_381, ecc.BW6_761, ecc.BLS24_315, ecc.BLS24_317, ecc.BW6_633}
	}
	for _, id := range curves {
		q := id.ScalarField()
		for si, sp := range specs[:4] {
			desc := c01Desc{Circuit: sp.name, Curve: id.String()}
			ccs, err := frontend.Compile(q, r1cs.NewBuilder[constraint.U64], sp.mk())
			if err != nil {
				continue
			}
			pk, vk, err := groth16.Setup(ccs)
			if err != nil {
				rep.Fail("harness:setup", err.Error(), desc)
				continue
			}
			full, _ := frontend.NewWitness(sp.asg(si), q)
			pub, _ := full.Public()
			proof, err := groth16.Prove(ccs, pk, full)
			if err != nil {
				rep.Fail("c01:prove-error", "Prove failed on a valid witness: "+err.Error(), desc)
				continue
			}
			rep.Eval(fmt.Sprintf("%s|%s|genuine", id, sp.name), true)
			if cls, msg := classOf(func() error { return groth16.Verify(proof, vk, pub) }); cls != 0 {
				rep.Fail("c01:genuine-rejected", "a genuine proof was rejected: "+msg, desc)
			}
			pv := vecToBig(pub.Vector(), q)
			for k := range pv {
				alt := append([]*big.Int{}, pv...)
				alt[k] = new(big.Int).Add(pv[k], big.NewInt(1))
				rep.Eval(fmt.Sprintf("%s|%s|replay%d", id, sp.name, k), true)
				if cls, msg := classOf(func() error { return groth16.Verify(proof, vk, witnessFromValues(q, len(alt), alt)) }); cls != 1 {
					d := desc
					d.Edit = fmt.Sprintf("replay: public input %d changed", k)
					rep.Fail("c01:accepted:replay", "Verify did not reject a replayed proof: "+className[cls]+" "+msg, d)
				}
			}
		}
	}
	var sb strings.Builder
	sb.WriteString("From Coq Require Import ZArith List Bool.\nFrom GnarkV Require Import Backend.Groth16Setup Backend.Groth16Cases.\nImport ListNotations.\n")
	sb.WriteString(fmt.Sprintf("Definition cases : list gcase := %s.\n", coqlistNL(coqCases)))
	sb.WriteString("Definition mism_g16 := Eval vm_compute in gmismatches 0 cases.\nPrint mism_g16.\n")
	writeFile(o.Out, "cases_C01.v", sb.String())
	rep.CoqCases = len(coqCases)
	// every supported curve: each group element of a genuine proof replaced in memory
	allCurvesGroth16(o, rep)
	rep.Write(o.Out)
	return 0
}
