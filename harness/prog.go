package main

// Straight-line programs over the frontend API: generator, interpreter circuit (runs the
// program through the *real* builders) and an independent evaluator of the documented
// meaning of each API call (the Go-side property oracle of C04/C05/C06).

import (
	"fmt"
	"math/big"
	"strings"

	"github.com/consensys/gnark/constraint/solver"
	"github.com/consensys/gnark/frontend"
)

type Arg struct {
	Const bool     `json:"c,omitempty"`
	C     *big.Int `json:"k,omitempty"` // constant value (canonical)
	V     int      `json:"v"`           // variable index (inputs first, then results in order)
}

type Op struct {
	Kind string `json:"op"`
	Args []Arg  `json:"args"`
	N    int    `json:"n,omitempty"` // ToBinary width
}

type Prog struct {
	NbPub int   `json:"nb_pub"`
	NbSec int   `json:"nb_sec"`
	Ops   []Op  `json:"ops"`
	Outs  []int `json:"outs"` // variable indices exposed through AssertIsEqual with a public input
}

func (a Arg) String() string {
	if a.Const {
		return "c" + a.C.String()
	}
	return fmt.Sprintf("v%d", a.V)
}
func (o Op) String() string {
	ss := make([]string, len(o.Args))
	for i, a := range o.Args {
		ss[i] = a.String()
	}
	s := o.Kind + "(" + strings.Join(ss, ",") + ")"
	if o.Kind == "ToBinary" {
		s += fmt.Sprintf("[%d]", o.N)
	}
	return s
}
func (p *Prog) String() string {
	ss := make([]string, len(p.Ops))
	for i, o := range p.Ops {
		ss[i] = o.String()
	}
	return fmt.Sprintf("pub=%d sec=%d outs=%v: %s", p.NbPub, p.NbSec, p.Outs, strings.Join(ss, "; "))
}

// number of results an op produces
func (o Op) nres(fieldBits int) int {
	switch o.Kind {
	case "ToBinary":
		return o.N
	case "AssertIsEqual", "AssertIsDifferent", "AssertIsBoolean", "AssertIsLessOrEqual":
		return 0
	case "Hint2":
		return 2
	}
	return 1
}

// ---------------------------------------------------------------- interpreter circuit

type ProgCircuit struct {
	Pub  []frontend.Variable `gnark:",public"`
	Out  []frontend.Variable `gnark:",public"`
	Sec  []frontend.Variable
	prog *Prog
}

func NewProgCircuit(p *Prog) *ProgCircuit {
	return &ProgCircuit{Pub: make([]frontend.Variable, p.NbPub), Out: make([]frontend.Variable, len(p.Outs)),
		Sec: make([]frontend.Variable, p.NbSec), prog: p}
}

// verifHint2: a test hint with two outputs: (in0+in1, in0*in1+1)
func verifHint2(q *big.Int, in, out []*big.Int) error {
	out[0].Add(in[0], in[1]).Mod(out[0], q)
	out[1].Mul(in[0], in[1]).Add(out[1], big.NewInt(1)).Mod(out[1], q)
	return nil
}

func init() { solver.RegisterHint(verifHint2) }

func (c *ProgCircuit) Define(api frontend.API) error {
	vars := make([]frontend.Variable, 0, 64)
	vars = append(vars, c.Pub...)
	vars = append(vars, c.Sec...)
	get := func(a Arg) frontend.Variable {
		if a.Const {
			return new(big.Int).Set(a.C)
		}
		return vars[a.V]
	}
	for _, op := range c.prog.Ops {
		a := make([]frontend.Variable, len(op.Args))
		for i := range op.Args {
			a[i] = get(op.Args[i])
		}
		switch op.Kind {
		case "Add":
			vars = append(vars, api.Add(a[0], a[1], a[2:]...))
		case "Sub":
			vars = append(vars, api.Sub(a[0], a[1], a[2:]...))
		case "Neg":
			vars = append(vars, api.Neg(a[0]))
		case "Mul":
			vars = append(vars, api.Mul(a[0], a[1], a[2:]...))
		case "MulAcc":
			vars = append(vars, api.MulAcc(a[0], a[1], a[2]))
		case "Div":
			vars = append(vars, api.Div(a[0], a[1]))
		case "DivUnchecked":
			vars = append(vars, api.DivUnchecked(a[0], a[1]))
		case "Inverse":
			vars = append(vars, api.Inverse(a[0]))
		case "ToBinary":
			vars = append(vars, api.ToBinary(a[0], op.N)...)
		case "FromBinary":
			vars = append(vars, api.FromBinary(a...))
		case "Xor":
			vars = append(vars, api.Xor(a[0], a[1]))
		case "Or":
			vars = append(vars, api.Or(a[0], a[1]))
		case "And":
			vars = append(vars, api.And(a[0], a[1]))
		case "Select":
			vars = append(vars, api.Select(a[0], a[1], a[2]))
		case "Lookup2":
			vars = append(vars, api.Lookup2(a[0], a[1], a[2], a[3], a[4], a[5]))
		case "IsZero":
			vars = append(vars, api.IsZero(a[0]))
		case "Cmp":
			vars = append(vars, api.Cmp(a[0], a[1]))
		case "AssertIsEqual":
			api.AssertIsEqual(a[0], a[1])
		case "AssertIsDifferent":
			api.AssertIsDifferent(a[0], a[1])
		case "AssertIsBoolean":
			api.AssertIsBoolean(a[0])
		case "AssertIsLessOrEqual":
			api.AssertIsLessOrEqual(a[0], a[1])
		case "Hint2":
			r, err := api.Compiler().NewHint(verifHint2, 2, a[0], a[1])
			if err != nil {
				return err
			}
			vars = append(vars, r...)
		default:
			return fmt.Errorf("unknown op %s", op.Kind)
		}
	}
	for i, o := range c.prog.Outs {
		api.AssertIsEqual(vars[o], c.Out[i])
	}
	return nil
}

// ---------------------------------------------------------------- documented meaning

// EvalSpec evaluates the documented meaning of the program on the inputs (canonical values).
// ok=false: some assertion of the program fails.  free=true: the program hit the documented
// unconstrained case (DivUnchecked 0/0), for which any result is allowed (we use 0, the
// value the solver is documented to return).
func EvalSpec(p *Prog, q *big.Int, inputs []*big.Int) (vals []*big.Int, ok bool, free bool, why string) {
	ok = true
	vals = make([]*big.Int, 0, 64)
	for _, x := range inputs {
		vals = append(vals, new(big.Int).Mod(x, q))
	}
	fail := func(s string) {
		if ok {
			why = s
		}
		ok = false
	}
	mod := func(x *big.Int) *big.Int { return x.Mod(x, q) }
	isBool := func(x *big.Int) bool { return x.Sign() == 0 || x.Cmp(big.NewInt(1)) == 0 }
	b2i := func(b bool) *big.Int {
		if b {
			return big.NewInt(1)
		}
		return big.NewInt(0)
	}
	for k, op := range p.Ops {
		a := make([]*big.Int, len(op.Args))
		for i, ar := range op.Args {
			if ar.Const {
				a[i] = new(big.Int).Mod(ar.C, q)
			} else {
				a[i] = vals[ar.V]
			}
		}
		tag := fmt.Sprintf("op%d:%s", k, op.Kind)
		switch op.Kind {
		case "Add":
			r := new(big.Int)
			for _, x := range a {
				r.Add(r, x)
			}
			vals = append(vals, mod(r))
		case "Sub":
			r := new(big.Int).Set(a[0])
			for _, x := range a[1:] {
				r.Sub(r, x)
			}
			vals = append(vals, mod(r))
		case "Neg":
			vals = append(vals, mod(new(big.Int).Neg(a[0])))
		case "Mul":
			r := big.NewInt(1)
			for _, x := range a {
				r.Mul(r, x)
				r.Mod(r, q)
			}
			vals = append(vals, r)
		case "MulAcc":
			r := new(big.Int).Mul(a[1], a[2])
			vals = append(vals, mod(r.Add(r, a[0])))
		case "Div", "DivUnchecked":
			if a[1].Sign() == 0 {
				if op.Kind == "DivUnchecked" && a[0].Sign() == 0 {
					free = true
				} else {
					fail(tag + " by zero")
				}
				vals = append(vals, big.NewInt(0))
			} else {
				r := new(big.Int).ModInverse(a[1], q)
				vals = append(vals, mod(r.Mul(r, a[0])))
			}
		case "Inverse":
			if a[0].Sign() == 0 {
				fail(tag + " of zero")
				vals = append(vals, big.NewInt(0))
			} else {
				vals = append(vals, new(big.Int).ModInverse(a[0], q))
			}
		case "ToBinary":
			if a[0].BitLen() > op.N {
				fail(tag + " does not fit")
			}
			for i := 0; i < op.N; i++ {
				vals = append(vals, big.NewInt(int64(a[0].Bit(i))))
			}
		case "FromBinary":
			r := new(big.Int)
			for i, x := range a {
				if !isBool(x) {
					fail(tag + " non-boolean bit")
				}
				r.Add(r, new(big.Int).Lsh(x, uint(i)))
			}
			vals = append(vals, mod(r))
		case "Xor", "Or", "And":
			if !isBool(a[0]) || !isBool(a[1]) {
				fail(tag + " non-boolean operand")
			}
			x, y := a[0].Sign() != 0, a[1].Sign() != 0
			var r bool
			switch op.Kind {
			case "Xor":
				r = x != y
			case "Or":
				r = x || y
			case "And":
				r = x && y
			}
			// for non-boolean operands the value is the algebraic form; irrelevant since ok=false
			vals = append(vals, b2i(r))
		case "Select":
			if !isBool(a[0]) {
				fail(tag + " non-boolean selector")
			}
			if a[0].Sign() != 0 {
				vals = append(vals, a[1])
			} else {
				vals = append(vals, a[2])
			}
		case "Lookup2":
			if !isBool(a[0]) || !isBool(a[1]) {
				fail(tag + " non-boolean selector")
			}
			idx := 0
			if a[0].Sign() != 0 {
				idx++
			}
			if a[1].Sign() != 0 {
				idx += 2
			}
			vals = append(vals, a[2+idx])
		case "IsZero":
			vals = append(vals, b2i(a[0].Sign() == 0))
		case "Cmp":
			c := a[0].Cmp(a[1])
			vals = append(vals, mod(big.NewInt(int64(c))))
		case "AssertIsEqual":
			if a[0].Cmp(a[1]) != 0 {
				fail(tag)
			}
		case "AssertIsDifferent":
			if a[0].Cmp(a[1]) == 0 {
				fail(tag)
			}
		case "AssertIsBoolean":
			if !isBool(a[0]) {
				fail(tag)
			}
		case "AssertIsLessOrEqual":
			if a[0].Cmp(a[1]) > 0 {
				fail(tag)
			}
		case "Hint2":
			r0 := new(big.Int).Add(a[0], a[1])
			r1 := new(big.Int).Mul(a[0], a[1])
			r1.Add(r1, big.NewInt(1))
			vals = append(vals, mod(r0), mod(r1))
		default:
			panic("EvalSpec: unknown op " + op.Kind)
		}
	}
	return
}

// ---------------------------------------------------------------- generator

type GenCfg struct {
	MaxOps    int
	Kinds     []string // allowed op kinds (nil = all)
	NoAsserts bool     // do not generate Assert* ops nor partial ops (programs always satisfiable)
	NoMotifs  bool     // only independent random ops
}

var allKinds = []string{"Add", "Sub", "Neg", "Mul", "MulAcc", "Div", "DivUnchecked", "Inverse", "ToBinary", "FromBinary",
	"Xor", "Or", "And", "Select", "Lookup2", "IsZero", "Cmp", "AssertIsEqual", "AssertIsDifferent", "AssertIsBoolean",
	"AssertIsLessOrEqual", "Hint2"}

// GenProg draws a program.  Operand kinds: constant, public, secret, earlier result, the same
// variable twice, with a bias towards reuse of recent results (dedup / in-place paths).
func GenProg(r *RNG, q *big.Int, cfg GenCfg) *Prog {
	if cfg.Kinds == nil && !cfg.NoAsserts && !cfg.NoMotifs && r.Intn(5) < 2 {
		return GenMotifProg(r, q)
	}
	p := &Prog{NbPub: r.Intn(3), NbSec: 1 + r.Intn(3)}
	fieldBits := q.BitLen()
	nvars := p.NbPub + p.NbSec
	boolVars := []int{} // variables known boolean by construction
	kinds := cfg.Kinds
	if kinds == nil {
		kinds = allKinds
	}
	// the API documents that MulAcc may mutate its first argument, which must not be used afterwards
	// Select / Lookup2 may return one of their data operands itself (constant selectors - also after inputs are
	// replaced by constants in the variants): result and operands then share one slice, and a later MulAcc on any of
	// them mutates all.  Variables are therefore grouped in alias classes; an accumulator kills its whole class.
	dead := map[int]bool{}
	parent := map[int]int{}
	var root func(v int) int
	root = func(v int) int {
		if pv, ok := parent[v]; ok && pv != v {
			return root(pv)
		}
		return v
	}
	isDead := func(v int) bool { return dead[root(v)] }
	anyArg := func(allowConst bool) Arg {
		if allowConst && r.Intn(5) == 0 {
			return Arg{Const: true, C: r.FieldElem(q)}
		}
		for try := 0; try < 20; try++ {
			v := r.Intn(nvars)
			if nvars > 4 && r.Intn(2) == 0 { // recent
				v = nvars - 1 - r.Intn(3)
			}
			if !isDead(v) {
				return Arg{V: v}
			}
		}
		return Arg{Const: true, C: big.NewInt(3)}
	}
	boolArg := func() Arg {
		if len(boolVars) > 0 && r.Intn(8) != 0 {
			if v := boolVars[r.Intn(len(boolVars))]; !isDead(v) {
				return Arg{V: v}
			}
		}
		if r.Intn(3) == 0 {
			return Arg{Const: true, C: big.NewInt(int64(r.Intn(2)))}
		}
		return anyArg(false)
	}
	nops := 1 + r.Intn(cfg.MaxOps)
	for len(p.Ops) < nops {
		k := kinds[r.Intn(len(kinds))]
		if cfg.NoAsserts && (strings.HasPrefix(k, "Assert") || k == "Div" || k == "Inverse" || k == "DivUnchecked") {
			continue
		}
		op := Op{Kind: k}
		isBoolRes := false
		switch k {
		case "Add", "Sub", "Mul":
			n := 2 + r.Intn(3)
			if r.Intn(3) != 0 {
				n = 2
			}
			for i := 0; i < n; i++ {
				op.Args = append(op.Args, anyArg(true))
			}
			if r.Intn(6) == 0 { // same variable twice / cancelling pattern
				op.Args[1] = op.Args[0]
			}
		case "Neg", "IsZero", "Inverse":
			op.Args = []Arg{anyArg(r.Intn(6) == 0)}
			if k == "Inverse" && op.Args[0].Const && op.Args[0].C.Sign() == 0 {
				continue // compile-time panic, documented
			}
			isBoolRes = k == "IsZero"
		case "MulAcc":
			op.Args = []Arg{anyArg(true), anyArg(true), anyArg(true)}
			if !op.Args[0].Const {
				if (!op.Args[1].Const && op.Args[1].V == op.Args[0].V) || (!op.Args[2].Const && op.Args[2].V == op.Args[0].V) {
					continue // the accumulator may not alias the factors either
				}
				dead[root(op.Args[0].V)] = true
			}
		case "Div", "DivUnchecked":
			op.Args = []Arg{anyArg(true), anyArg(true)}
			if op.Args[1].Const && op.Args[1].C.Sign() == 0 {
				continue // division by constant zero panics at compile time (documented)
			}
		case "ToBinary":
			op.Args = []Arg{anyArg(r.Intn(8) == 0)}
			switch r.Intn(4) {
			case 0:
				op.N = fieldBits
			case 1:
				op.N = 1 + r.Intn(fieldBits+2) // up to two bits wider than the field
			default:
				op.N = 1 + r.Intn(4)
			}
			if op.Args[0].Const && op.Args[0].C.BitLen() > op.N {
				continue
			}
		case "FromBinary":
			n := 1 + r.Intn(4)
			for i := 0; i < n; i++ {
				op.Args = append(op.Args, boolArg())
			}
		case "Xor", "Or", "And":
			op.Args = []Arg{boolArg(), boolArg()}
			isBoolRes = true
		case "Select":
			op.Args = []Arg{boolArg(), anyArg(true), anyArg(true)}
		case "Lookup2":
			op.Args = []Arg{boolArg(), boolArg(), anyArg(true), anyArg(true), anyArg(true), anyArg(true)}
		case "Cmp":
			op.Args = []Arg{anyArg(false), anyArg(false)}
		case "AssertIsEqual", "AssertIsDifferent":
			op.Args = []Arg{anyArg(false), anyArg(true)}
		case "AssertIsBoolean":
			op.Args = []Arg{boolArg()}
		case "AssertIsLessOrEqual":
			op.Args = []Arg{anyArg(false), anyArg(true)}
		case "Hint2":
			op.Args = []Arg{anyArg(true), anyArg(true)}
		}
		// constants given to boolean positions must be boolean (otherwise compile-time panic, documented)
		bad := false
		switch k {
		case "Xor", "Or", "And", "FromBinary", "AssertIsBoolean":
			for _, a := range op.Args {
				if a.Const && a.C.Cmp(big.NewInt(1)) > 0 {
					bad = true
				}
			}
		case "Select":
			bad = op.Args[0].Const && op.Args[0].C.Cmp(big.NewInt(1)) > 0
		case "Lookup2":
			bad = (op.Args[0].Const && op.Args[0].C.Cmp(big.NewInt(1)) > 0) || (op.Args[1].Const && op.Args[1].C.Cmp(big.NewInt(1)) > 0)
		}
		if bad {
			continue
		}
		if k == "Select" || k == "Lookup2" {
			first := 1
			if k == "Lookup2" {
				first = 2
			}
			for _, a := range op.Args[first:] {
				if !a.Const {
					parent[root(a.V)] = nvars // the result joins the class of every data operand
				}
			}
		}
		n := op.nres(fieldBits)
		for i := 0; i < n; i++ {
			if isBoolRes || k == "ToBinary" {
				boolVars = append(boolVars, nvars+i)
			}
		}
		nvars += n
		p.Ops = append(p.Ops, op)
	}
	// expose up to 3 results
	first := p.NbPub + p.NbSec
	if nvars > first {
		no := 1 + r.Intn(3)
		for i := 0; i < no; i++ {
			o := first + r.Intn(nvars-first)
			// never expose an accumulator that was handed to MulAcc (documented: it may have been mutated): take the next
			// live result instead (no extra random draw: the rest of the stream is unchanged)
			for k := 0; k < nvars-first && isDead(o); k++ {
				o = first + (o-first+1)%(nvars-first)
			}
			if isDead(o) {
				continue
			}
			p.Outs = append(p.Outs, o)
		}
	}
	return p
}

// constant-only ops are evaluated at compile time by the builders and may panic for documented
// reasons (e.g. AssertIsEqual on unequal constants); programs are compiled under recover.

// ---------------------------------------------------------------- motifs
//
// Short op sequences aimed at the builders' sharing machinery: dedup caches keyed by wire pairs
// (proportional coefficients, constants), in-place scaling of earlier expressions, accumulator
// reuse, cancelling terms, the same variable in several operand positions, reserved coefficients.

func GenMotifProg(r *RNG, q *big.Int) *Prog {
	p := &Prog{NbPub: 1 + r.Intn(2), NbSec: 1 + r.Intn(2)}
	nin := p.NbPub + p.NbSec
	nvars := nin
	V := func(i int) Arg { return Arg{V: i} }
	C := func(x int64) Arg { return Arg{Const: true, C: new(big.Int).Mod(big.NewInt(x), q)} }
	emit := func(kind string, args ...Arg) int {
		p.Ops = append(p.Ops, Op{Kind: kind, Args: args})
		nvars++
		return nvars - 1
	}
	smallc := func() int64 { return []int64{1, 2, 3, 5, 7, -1, -2}[r.Intn(7)] }
	x, y := r.Intn(nin), r.Intn(nin)
	if nin > 1 {
		for y == x {
			y = r.Intn(nin)
		}
	}
	var outs []int
	nm := 1 + r.Intn(2)
	for m := 0; m < nm; m++ {
		switch r.Intn(7) {
		case 0: // scaled sum: same wire pair, proportional coefficients, constant term
			a, b, n := smallc(), smallc(), []int64{2, 3, -1, 5}[r.Intn(4)]
			k := []int64{0, 5, 1, -3}[r.Intn(4)]
			t0, t1 := V(x), V(y)
			if a != 1 || r.Bool() {
				t0 = V(emit("Mul", V(x), C(a)))
			} else {
				a = 1
			}
			if b != 1 || r.Bool() {
				t1 = V(emit("Mul", V(y), C(b)))
			} else {
				b = 1
			}
			s1 := emit("Add", t0, t1, C(k))
			u0 := V(emit("Mul", V(x), C(n*a)))
			u1 := V(emit("Mul", V(y), C(n*b)))
			k2 := []int64{k, n * k, 0, k + 1}[r.Intn(4)]
			var s2 int
			if r.Bool() {
				s2 = emit("Add", u0, u1, C(k2))
			} else {
				s2 = emit("Add", u1, C(k2), u0)
			}
			outs = append(outs, s1, s2)
		case 1: // variadic Mul with constants in various positions, then the variable is used again
			n := 3 + r.Intn(2)
			args := make([]Arg, n)
			vpos := r.Intn(n)
			for i := range args {
				args[i] = C(smallc() + 1)
				if i == vpos || (r.Intn(4) == 0) {
					args[i] = V([]int{x, y}[r.Intn(2)])
				}
			}
			args[vpos] = V(x)
			m1 := emit("Mul", args...)
			a1 := emit("Add", V(x), C(1))
			a2 := emit("Mul", V(x), V(y))
			outs = append(outs, m1, a1, a2)
		case 2: // cancelling terms
			ny := emit("Neg", V(y))
			s1 := emit("Add", V(x), V(y), V(ny))
			x2 := emit("Mul", V(x), C(2))
			s2 := emit("Add", V(x2), V(y), V(ny))
			outs = append(outs, s1, s2)
		case 3: // accumulator chains (MulAcc may mutate its first argument: each accumulator is used once)
			a0 := emit("Mul", V(x), C(1))
			acc := emit("MulAcc", V(a0), V(y), V(x))
			acc2 := emit("MulAcc", V(acc), V(y), C(smallc()))
			third := emit("MulAcc", C(4), V(x), V(acc2))
			other := emit("Add", V(x), V(y))
			outs = append(outs, third, other)
		case 4: // the same variable in several positions
			s := emit("Sub", V(x), V(x))
			m3 := emit("Mul", V(x), V(x), V(x))
			d := emit("DivUnchecked", V(y), V(y))
			sel := emit("Select", C(int64(r.Intn(2))), V(x), V(x))
			outs = append(outs, s, m3, d, sel)
		case 5: // reserved coefficients -1, 2, -2 and sums of scaled copies
			a := emit("Mul", V(x), C(-1))
			b := emit("Mul", V(x), C(2))
			c := emit("Mul", V(y), C(-2))
			s1 := emit("Add", V(a), V(b), V(c))
			s2 := emit("Sub", V(b), V(a), V(c))
			d := emit("Div", V(s1), C(-2))
			outs = append(outs, s1, s2, d)
		case 6: // expression shared between a product and a sum, operands in both orders
			s := emit("Add", V(x), V(y))
			m1 := emit("Mul", V(s), V(x))
			m2 := emit("Mul", V(x), V(s))
			t := emit("Add", V(y), V(x))
			m3 := emit("Mul", V(t), V(s))
			outs = append(outs, m1, m2, m3)
		}
	}
	// a few independent ops on top (never on an accumulator that was passed as first argument to MulAcc:
	// the API documents that it may have been mutated)
	deadAcc := map[int]bool{}
	for _, op := range p.Ops {
		if op.Kind == "MulAcc" && !op.Args[0].Const {
			deadAcc[op.Args[0].V] = true
		}
	}
	live := func() int {
		for try := 0; try < 30; try++ {
			if v := r.Intn(nvars); !deadAcc[v] {
				return v
			}
		}
		return 0
	}
	for i := 0; i < r.Intn(3); i++ {
		k := []string{"Add", "Mul", "Sub", "IsZero", "Neg"}[r.Intn(5)]
		switch k {
		case "IsZero", "Neg":
			outs = append(outs, emit(k, V(live())))
		default:
			outs = append(outs, emit(k, V(live()), V(live())))
		}
	}
	// expose up to 3 of the results
	for len(outs) > 3 {
		i := r.Intn(len(outs))
		outs = append(outs[:i], outs[i+1:]...)
	}
	p.Outs = outs
	return p
}
