package main

// Straight-line programs over the frontend API: generator, interpreter circuit (runs the
// program through the *real* builders) and an independent evaluator of the documented
// meaning of each API call (the Go-side property oracle of C04/C05/C06).

import (
	"fmt"
	"math/big"
	"strings"

	"github.com/consensys/gnark/constraint/solver"
	"github.com/consensys/gnark/frontend"
)

type Arg struct {
	Const bool     `json:"c,omitempty"`
	C     *big.Int `json:"k,omitempty"` // constant value (canonical)
	V     int      `json:"v"`           // variable index (inputs first, then results in order)
}

type Op struct {
	Kind string `json:"op"`
	Args []Arg  `json:"args"`
	N    int    `json:"n,omitempty"` // ToBinary width
}

type Prog struct {
	NbPub int   `json:"nb_pub"`
	NbSec int   `json:"nb_sec"`
	Ops   []Op  `json:"ops"`
	Outs  []int `json:"outs"` // variable indices exposed through AssertIsEqual with a public input
}

func (a Arg) String() string {
	if a.Const {
		return "c" + a.C.String()
	}
	return fmt.Sprintf("v%d", a.V)
}
func (o Op) String() string {
	ss := make([]string, len(o.Args))
	for i, a := range o.Args {
		ss[i] = a.String()
	}
	s := o.Kind + "(" + strings.Join(ss, ",") + ")"
	if o.Kind == "ToBinary" {
		s += fmt.Sprintf("[%d]", o.N)
	}
	return s
}
func (p *Prog) String() string {
	ss := make([]string, len(p.Ops))
	for i, o := range p.Ops {
		ss[i] = o.String()
	}
	return fmt.Sprintf("pub=%d sec=%d outs=%v: %s", p.NbPub, p.NbSec, p.Outs, strings.Join(ss, "; "))
}

// number of results an op produces
func (o Op) nres(fieldBits int) int {
	switch o.Kind {
	case "ToBinary":
		return o.N
	case "AssertIsEqual", "AssertIsDifferent", "AssertIsBoolean", "AssertIsLessOrEqual":
		return 0
	case "Hint2":
		return 2
	}
	return 1
}

// ---------------------------------------------------------------- interpreter circuit

type ProgCircuit struct {
	Pub  []frontend.Variable `gnark:",public"`
	Out  []frontend.Variable `gnark:",public"`
	Sec  []frontend.Variable
	prog *Prog
}

func NewProgCircuit(p *Prog) *ProgCircuit {
	return &ProgCircuit{Pub: make([]frontend.Variable, p.NbPub), Out: make([]frontend.Variable, len(p.Outs)),
		Sec: make([]frontend.Variable, p.NbSec), prog: p}
}

// verifHint2: a test hint with two outputs: (in0+in1, in0*in1+1)
func verifHint2(q *big.Int, in, out []*big.Int) error {
	out[0].Add(in[0], in[1]).Mod(out[0], q)
	out[1].Mul(in[0], in[1]).Add(out[1], big.NewInt(1)).Mod(out[1], q)
	return nil
}

func init() { solver.RegisterHint(verifHint2) }

func (c *ProgCircuit) Define(api frontend.API) error {
	vars := make([]frontend.Variable, 0, 64)
	vars = append(vars, c.Pub...)
	vars = append(vars, c.Sec...)
	get := func(a Arg) frontend.Variable {
		if a.Const {
			return new(big.Int).Set(a.C)
		}
		return vars[a.V]
	}
	for _, op := range c.prog.Ops {
		a := make([]frontend.Variable, len(op.Args))
		for i := range op.Args {
			a[i] = get(op.Args[i])
		}
		switch op.Kind {
		case "Add":
			vars = append(vars, api.Add(a[0], a[1], a[2:]...))
		case "Sub":
			vars = append(vars, api.Sub(a[0], a[1], a[2:]...))
		case "Neg":
			vars = append(vars, api.Neg(a[0]))
		case "Mul":
			vars = append(vars, api.Mul(a[0], a[1], a[2:]...))
		case "MulAcc":
			vars = append(vars, api.MulAcc(a[0], a[1], a[2]))
		case "Div":
			vars = append(vars, api.Div(a[0], a[1]))
		case "DivUnchecked":
			vars = append(vars, api.DivUnchecked(a[0], a[1]))
		case "Inverse":
			vars = append(vars, api.Inverse(a[0]))
		case "ToBinary":
			vars = append(vars, api.ToBinary(a[0], op.N)...)
		case "FromBinary":
			vars = append(vars, api.FromBinary(a...))
		case "Xor":
			vars = append(vars, api.Xor(a[0], a[1]))
		case "Or":
			vars = append(vars, api.Or(a[0], a[1]))
		case "And":
			vars = append(vars, api.And(a[0], a[1]))
		case "Select":
			vars = append(vars, api.Select(a[0], a[1], a[2]))
		case "Lookup2":
			vars = append(vars, api.Lookup2(a[0], a[1], a[2], a[3], a[4], a[5]))
		case "IsZero":
			vars = append(vars, api.IsZero(a[0]))
		case "Cmp":
			vars = append(vars, api.Cmp(a[0], a[1]))
		case "AssertIsEqual":
			api.AssertIsEqual(a[0], a[1])
		case "AssertIsDifferent":
			api.AssertIsDifferent(a[0], a[1])
		case "AssertIsBoolean":
			api.AssertIsBoolean(a[0])
		case "AssertIsLessOrEqual":
			api.AssertIsLessOrEqual(a[0], a[1])
		case "Hint2":
			r, err := api.Compiler().NewHint(verifHint2, 2, a[0], a[1])
			if err != nil {
				return err
			}
			vars = append(vars, r...)
		default:
			return fmt.Errorf("unknown op %s", op.Kind)
		}
	}
	for i, o := range c.prog.Outs {
		api.AssertIsEqual(vars[o], c.Out[i])
	}
	return nil
}

// ---------------------------------------------------------------- documented meaning

// EvalSpec evaluates the documented meaning of the program on the inputs (canonical values).
// ok=false: some assertion of the program fails.  free=true: the program hit the documented
// unconstrained case (DivUnchecked 0/0), for which any result is allowed (we use 0, the
// value the solver is documented to return).
func EvalSpec(p *Prog, q *big.Int, inputs []*big.Int) (vals []*big.Int, ok bool, free bool, why string) {
	ok = true
	vals = make([]*big.Int, 0, 64)
	for _, x := range inputs {
		vals = append(vals, new(big.Int).Mod(x, q))
	}
	fail := func(s string) {
		if ok {
			why = s
		}
		ok = false
	}
	mod := func(x *big.Int) *big.Int { return x.Mod(x, q) }
	isBool := func(x *big.Int) bool { return x.Sign() == 0 || x.Cmp(big.NewInt(1)) == 0 }
	b2i := func(b bool) *big.Int {
		if b {
			return big.NewInt(1)
		}
		return big.NewInt(0)
	}
	for k, op := range p.Ops {
		a := make([]*big.Int, len(op.Args))
		for i, ar := range op.Args {
			if ar.Const {
				a[i] = new(big.Int).Mod(ar.C, q)
			} else {
				a[i] = vals[ar.V]
			}
		}
		tag := fmt.Sprintf("op%d:%s", k, op.Kind)
		switch op.Kind {
		case "Add":
			r := new(big.Int)
			for _, x := range a {
				r.Add(r, x)
			}
			vals = append(vals, mod(r))
		case "Sub":
			r := new(big.Int).Set(a[0])
			for _, x := range a[1:] {
				r.Sub(r, x)
			}
			vals = append(vals, mod(r))
		case "Neg":
			vals = append(vals, mod(new(big.Int).Neg(a[0])))
		case "Mul":
			r := big.NewInt(1)
			for _, x := range a {
				r.Mul(r, x)
				r.Mod(r, q)
			}
			vals = append(vals, r)
		case "MulAcc":
			r := new(big.Int).Mul(a[1], a[2])
			vals = append(vals, mod(r.Add(r, a[0])))
		case "Div", "DivUnchecked":
			if a[1].Sign() == 0 {
				if op.Kind == "DivUnchecked" && a[0].Sign() == 0 {
					free = true
				} else {
					fail(tag + " by zero")
				}
				vals = append(vals, big.NewInt(0))
			} else {
				r := new(big.Int).ModInverse(a[1], q)
				vals = append(vals, mod(r.Mul(r, a[0])))
			}
		case "Inverse":
			if a[0].Sign() == 0 {
				fail(tag + " of zero")
				vals = append(vals, big.NewInt(0))
			} else {
				vals = append(vals, new(big.Int).ModInverse(a[0], q))
			}
		case "ToBinary":
			if a[0].BitLen() > op.N {
				fail(tag + " does not fit")
			}
			for i := 0; i < op.N; i++ {
				vals = append(vals, big.NewInt(int64(a[0].Bit(i))))
			}
		case "FromBinary":
			r := new(big.Int)
			for i, x := range a {
				if !isBool(x) {
					fail(tag + " non-boolean bit")
				}
				r.Add(r, new(big.Int).Lsh(x, uint(i)))
			}
			vals = append(vals, mod(r))
		case "Xor", "Or", "And":
			if !isBool(a[0]) || !isBool(a[1]) {
				fail(tag + " non-boolean operand")
			}
			x, y := a[0].Sign() != 0, a[1].Sign() != 0
			var r bool
			switch op.Kind {
			case "Xor":
				r = x != y
			case "Or":
				r = x || y
			case "And":
				r = x && y
			}
			// for non-boolean operands the value is the algebraic form; irrelevant since ok=false
			vals = append(vals, b2i(r))
		case "Select":
			if !isBool(a[0]) {
				fail(tag + " non-boolean selector")
			}
			if a[0].Sign() != 0 {
				vals = append(vals, a[1])
			} else {
				vals = append(vals, a[2])
			}
		case "Lookup2":
			if !isBool(a[0]) || !isBool(a[1]) {
				fail(tag + " non-boolean selector")
			}
			idx := 0
			if a[0].Sign() != 0 {
				idx++
			}
			if a[1].Sign() != 0 {
				idx += 2
			}
			vals = append(vals, a[2+idx])
		case "IsZero":
			vals = append(vals, b2i(a[0].Sign() == 0))
		case "Cmp":
			c := a[0].Cmp(a[1])
			vals = append(vals, mod(big.NewInt(int64(c))))
		case "AssertIsEqual":
			if a[0].Cmp(a[1]) != 0 {
				fail(tag)
			}
		case "AssertIsDifferent":
			if a[0].Cmp(a[1]) == 0 {
				fail(tag)
			}
		case "AssertIsBoolean":
			if !isBool(a[0]) {
				fail(tag)
			}
		case "AssertIsLessOrEqual":
			if a[0].Cmp(a[1]) > 0 {
				fail(tag)
			}
		case "Hint2":
			r0 := new(big.Int).Add(a[0], a[1])
			r1 := new(big.Int).Mul(a[0], a[1])
			r1.Add(r1, big.NewInt(1))
			vals = append(vals, mod(r0), mod(r1))
		default:
			panic("EvalSpec: unknown op " + op.Kind)
		}
	}
	return
}

// ---------------------------------------------------------------- generator

type GenCfg struct {
	MaxOps    int
	Kinds     []string // allowed op kinds (nil = all)
	NoAsserts bool     // do not generate Assert* ops nor partial ops (programs always satisfiable)
}

var allKinds = []string{"Add", "Sub", "Neg", "Mul", "MulAcc", "Div", "DivUnchecked", "Inverse", "ToBinary", "FromBinary",
	"Xor", "Or", "And", "Select", "Lookup2", "IsZero", "Cmp", "AssertIsEqual", "AssertIsDifferent", "AssertIsBoolean",
	"AssertIsLessOrEqual", "Hint2"}

// GenProg draws a program.  Operand kinds: constant, public, secret, earlier result, the same
// variable twice, with a bias towards reuse of recent results (dedup / in-place paths).
func GenProg(r *RNG, q *big.Int, cfg GenCfg) *Prog {
	p := &Prog{NbPub: r.Intn(3), NbSec: 1 + r.Intn(3)}
	fieldBits := q.BitLen()
	nvars := p.NbPub + p.NbSec
	boolVars := []int{} // variables known boolean by construction
	kinds := cfg.Kinds
	if kinds == nil {
		kinds = allKinds
	}
	anyArg := func(allowConst bool) Arg {
		if allowConst && r.Intn(5) == 0 {
			return Arg{Const: true, C: r.FieldElem(q)}
		}
		if nvars > 4 && r.Intn(2) == 0 { // recent
			return Arg{V: nvars - 1 - r.Intn(3)}
		}
		return Arg{V: r.Intn(nvars)}
	}
	boolArg := func() Arg {
		if len(boolVars) > 0 && r.Intn(8) != 0 {
			return Arg{V: boolVars[r.Intn(len(boolVars))]}
		}
		if r.Intn(3) == 0 {
			return Arg{Const: true, C: big.NewInt(int64(r.Intn(2)))}
		}
		return anyArg(false)
	}
	nops := 1 + r.Intn(cfg.MaxOps)
	for len(p.Ops) < nops {
		k := kinds[r.Intn(len(kinds))]
		if cfg.NoAsserts && (strings.HasPrefix(k, "Assert") || k == "Div" || k == "Inverse" || k == "DivUnchecked") {
			continue
		}
		op := Op{Kind: k}
		isBoolRes := false
		switch k {
		case "Add", "Sub", "Mul":
			n := 2 + r.Intn(3)
			if r.Intn(3) != 0 {
				n = 2
			}
			for i := 0; i < n; i++ {
				op.Args = append(op.Args, anyArg(true))
			}
			if r.Intn(6) == 0 { // same variable twice / cancelling pattern
				op.Args[1] = op.Args[0]
			}
		case "Neg", "IsZero", "Inverse":
			op.Args = []Arg{anyArg(r.Intn(6) == 0)}
			if k == "Inverse" && op.Args[0].Const && op.Args[0].C.Sign() == 0 {
				continue // compile-time panic, documented
			}
			isBoolRes = k == "IsZero"
		case "MulAcc":
			op.Args = []Arg{anyArg(true), anyArg(true), anyArg(true)}
		case "Div", "DivUnchecked":
			op.Args = []Arg{anyArg(true), anyArg(true)}
			if op.Args[1].Const && op.Args[1].C.Sign() == 0 {
				continue // division by constant zero panics at compile time (documented)
			}
		case "ToBinary":
			op.Args = []Arg{anyArg(r.Intn(8) == 0)}
			switch r.Intn(4) {
			case 0:
				op.N = fieldBits
			case 1:
				op.N = 1 + r.Intn(fieldBits)
			default:
				op.N = 1 + r.Intn(4)
			}
			if op.Args[0].Const && op.Args[0].C.BitLen() > op.N {
				continue
			}
		case "FromBinary":
			n := 1 + r.Intn(4)
			for i := 0; i < n; i++ {
				op.Args = append(op.Args, boolArg())
			}
		case "Xor", "Or", "And":
			op.Args = []Arg{boolArg(), boolArg()}
			isBoolRes = true
		case "Select":
			op.Args = []Arg{boolArg(), anyArg(true), anyArg(true)}
		case "Lookup2":
			op.Args = []Arg{boolArg(), boolArg(), anyArg(true), anyArg(true), anyArg(true), anyArg(true)}
		case "Cmp":
			op.Args = []Arg{anyArg(false), anyArg(false)}
		case "AssertIsEqual", "AssertIsDifferent":
			op.Args = []Arg{anyArg(false), anyArg(true)}
		case "AssertIsBoolean":
			op.Args = []Arg{boolArg()}
		case "AssertIsLessOrEqual":
			op.Args = []Arg{anyArg(false), anyArg(true)}
		case "Hint2":
			op.Args = []Arg{anyArg(true), anyArg(true)}
		}
		// constants given to boolean positions must be boolean (otherwise compile-time panic, documented)
		bad := false
		switch k {
		case "Xor", "Or", "And", "FromBinary", "AssertIsBoolean":
			for _, a := range op.Args {
				if a.Const && a.C.Cmp(big.NewInt(1)) > 0 {
					bad = true
				}
			}
		case "Select":
			bad = op.Args[0].Const && op.Args[0].C.Cmp(big.NewInt(1)) > 0
		case "Lookup2":
			bad = (op.Args[0].Const && op.Args[0].C.Cmp(big.NewInt(1)) > 0) || (op.Args[1].Const && op.Args[1].C.Cmp(big.NewInt(1)) > 0)
		}
		if bad {
			continue
		}
		n := op.nres(fieldBits)
		for i := 0; i < n; i++ {
			if isBoolRes || k == "ToBinary" {
				boolVars = append(boolVars, nvars+i)
			}
		}
		nvars += n
		p.Ops = append(p.Ops, op)
	}
	// expose up to 3 results
	first := p.NbPub + p.NbSec
	if nvars > first {
		no := 1 + r.Intn(3)
		for i := 0; i < no; i++ {
			p.Outs = append(p.Outs, first+r.Intn(nvars-first))
		}
	}
	return p
}

// constant-only ops are evaluated at compile time by the builders and may panic for documented
// reasons (e.g. AssertIsEqual on unequal constants); programs are compiled under recover.
